(* C07b — representation independence (C07) extended to the algorithms whose exactness theorems were
   proved after C07: tarjan_scc (exact) and node_component_index, astar, k_shortest_path for every
   k, spfa, floyd_warshall, find_negative_cycle, Prim, maximum_matching, greedy_matching,
   ford_fulkerson, dominators::simple_fast, articulation_points, the reference enumeration of maximal
   cliques, transitive reduction / closure, all_simple_paths.

   As in C07, two views show the same abstract graph when they are related by view_iso p
   (Spec/ViewIso.v): p is injective on the nodes of the first, the nodes of the second are the
   images, and node by node the out-lists are the same multiset of (target, weight); edge ids, the
   order inside a list, the node order, vbound, vcap and the numbering may all differ.  The
   algorithms that read edge_references (floyd_warshall, Prim via Kruskal) use view_iso_erefs /
   view_iso_erefs_u and nodes_iso instead.  Every statement is the algorithm's exactness theorem
   (C09b, C10b, C11, C11b, C12b, C15, C15b, C16, C20) applied to both views and joined by a
   correspondence lemma for the specification it is stated in; hypotheses of the cited theorems
   are carried for both views.

     J1  tarjan_scc: corresponding classes, equally many; equal component index in one view iff
         equal component index of the images in the other (positions may differ);
     J2  astar with two admissible heuristics (unrelated to each other): None together or Some
         together, with the same cost (the node lists may differ);
     J3  k_shortest_path, every k: the same value at corresponding nodes;
     J4  spfa, floyd_warshall: Err together or Ok together with the same entries at corresponding
         indices; find_negative_cycle: None together or Some together;
     J5  Prim on connected undirected views: the same total weight (Kruskal's);
     J6  maximum_matching: the same size; greedy_matching: both valid, sizes may differ
         (C07b_greedy_sizes_differ); ford_fulkerson: the same value (cuts correspond);
     J7  simple_fast: corresponding maps; articulation_points: corresponding lists;
     J8  maximal cliques: corresponding sets; transitive closure / reduction: the same relations on
         nodes (the outputs are over ranks of two topological orders); all_simple_paths: the
         results correspond under map p;
     J9  none panics on one view when the well-formedness of both holds.

   This file holds only the property theorems (closed by [exact]), their pinned statements
   ([Check]), their assumptions, and non-vacuity examples.  Several vocabularies define the same
   short name (VOk, in_cap, MOk, FOk, symmetric, same_set); they are always qualified here. *)
From Coq Require Import Permutation Lia ZArith NArith List.
From PG Require Import Lib.Io Model.View Model.Traversal Model.AlgoBasic Model.ShortestM Model.MstM
                       Model.CutM Model.MatchM Model.FlowM Model.MiscM
                       Spec.Reach Spec.Paths Spec.AlgoSpec Spec.Partition Spec.Forest Spec.ViewIso
                       Spec.EPaths Spec.DomSpec Spec.CutSpec Spec.FlowSpec Spec.MatchSpec Spec.MiscSpec
                       Proofs.FloydP Proofs.AstarP Proofs.KspGenP Proofs.PrimMinP
                       Proofs.MatchFindJoinP Proofs.MatchTotalP
                       Proofs.IsoP Proofs.InvarianceP
                       Proofs.InvarianceP2 Proofs.InvarianceP3 Proofs.InvarianceP4 Proofs.InvarianceP5.
Local Open Scope nat_scope.

(* ------------------------------------------------------------------ *)
(* J7: dominators, articulation points                                  *)

(* dominance and immediate dominance correspond *)
Theorem C07b_dominance_corresponds : forall p v1 v2 r a b, view_iso p v1 v2 ->
  In r (vnodes v1) -> In a (vnodes v1) -> In b (vnodes v1) ->
  (dominates v1 r a b <-> dominates v2 (p r) (p a) (p b)) /\
  (idom v1 r a b <-> idom v2 (p r) (p a) (p b)).
Proof. exact (fun p v1 v2 r a b H Hr Ha Hb => conj (dominates_iso H Hr Ha Hb) (idom_iso H Hr Ha Hb)). Qed.

(* simple_fast from corresponding roots: both Ok, corresponding entries, no others, equally many *)
Theorem C07b_simple_fast : forall p v1 v2 root dbg1 dbg2, view_iso p v1 v2 -> Reach.VOk v1 -> Reach.VOk v2 ->
  In root (vnodes v1) ->
  exists m1 m2, simple_fast v1 root dbg1 = Ok m1 /\ simple_fast v2 (p root) dbg2 = Ok m2 /\
    (forall x d, In x (vnodes v1) -> In d (vnodes v1) ->
       (assoc_nat m1 x = Some d <-> assoc_nat m2 (p x) = Some (p d))) /\
    (forall x, In x (vnodes v1) -> (assoc_nat m1 x = None <-> assoc_nat m2 (p x) = None)) /\
    (forall x d, assoc_nat m1 x = Some d -> In x (vnodes v1) /\ In d (vnodes v1)) /\
    (forall y d', assoc_nat m2 y = Some d' ->
       exists x d, In x (vnodes v1) /\ In d (vnodes v1) /\ y = p x /\ d' = p d) /\
    length m1 = length m2.
Proof. exact (@simple_fast_iso). Qed.

(* the accessor immediate_dominator on the two maps *)
Theorem C07b_immediate_dominator : forall p v1 v2 root dbg1 dbg2 m1 m2, view_iso p v1 v2 ->
  Reach.VOk v1 -> Reach.VOk v2 -> In root (vnodes v1) ->
  simple_fast v1 root dbg1 = Ok m1 -> simple_fast v2 (p root) dbg2 = Ok m2 ->
  forall x d, In x (vnodes v1) -> In d (vnodes v1) ->
    (immediate_dominator root m1 x = Some d <-> immediate_dominator (p root) m2 (p x) = Some (p d)).
Proof. exact (@immediate_dominator_iso). Qed.

(* cut nodes correspond *)
Theorem C07b_cut_nodes_correspond : forall p v1 v2 c, view_iso p v1 v2 -> In c (vnodes v1) ->
  (cut_node v1 c <-> cut_node v2 (p c)).
Proof. exact (@cut_node_iso). Qed.

(* articulation_points: both Ok, corresponding members, equally many *)
Theorem C07b_articulation_points : forall p v1 v2, view_iso p v1 v2 -> Reach.VOk v1 -> Reach.VOk v2 ->
  CutSpec.symmetric v1 -> CutSpec.symmetric v2 ->
  (forall n, In n (vnodes v1) -> n < vbound v1) -> (forall n, In n (vnodes v2) -> n < vbound v2) ->
  exists l1 l2, articulation_points v1 = Ok l1 /\ articulation_points v2 = Ok l2 /\
    NoDup l1 /\ NoDup l2 /\
    (forall c, In c (vnodes v1) -> (In c l1 <-> In (p c) l2)) /\
    (forall c, In c l1 -> In c (vnodes v1)) /\
    (forall y, In y l2 <-> In y (map p l1)) /\
    length l1 = length l2.
Proof. exact (@articulation_points_iso). Qed.

(* ------------------------------------------------------------------ *)
(* J6: matchings, maximum flow                                         *)

(* the size of a maximum matching (the exhaustive-search reference of C15) is a property of the
   abstract graph *)
Theorem C07b_max_matching_size : forall p v1 v2, view_iso p v1 v2 ->
  max_matching_size (vnodes v1) (vadj v1) = max_matching_size (vnodes v2) (vadj v2).
Proof. exact (@max_matching_size_iso). Qed.

(* maximum_matching on symmetric views: both Ok, both maximum, the same size (pairs may differ) *)
Theorem C07b_maximum_matching : forall p v1 v2 dbg1 dbg2, view_iso p v1 v2 ->
  MatchSpec.MOk v1 -> MatchSpec.MOk v2 -> EidOk v1 -> EidOk v2 -> CapOk v1 -> CapOk v2 ->
  vsymmetric v1 -> vsymmetric v2 ->
  exists m1 n1 m2 n2, maximum_matching v1 dbg1 = Ok (m1, n1) /\ maximum_matching v2 dbg2 = Ok (m2, n2) /\
    n1 = n2 /\ length (m_edges m1) = length (m_edges m2) /\
    valid_matching v1 m1 n1 /\ valid_matching v2 m2 n2 /\
    is_maximum (vnodes v1) (vadj v1) (m_edges m1) /\ is_maximum (vnodes v2) (vadj v2) (m_edges m2).
Proof. exact (@maximum_matching_iso). Qed.

(* greedy_matching: both Ok and valid, neither larger than the common optimum; the two sizes may
   differ (C07b_greedy_sizes_differ) *)
Theorem C07b_greedy_matching : forall p v1 v2, view_iso p v1 v2 -> MatchSpec.MOk v1 -> MatchSpec.MOk v2 ->
  exists m1 n1 m2 n2, greedy_inner v1 = Ok (m1, n1) /\ greedy_inner v2 = Ok (m2, n2) /\
    valid_matching v1 m1 n1 /\ valid_matching v2 m2 n2 /\
    n1 <= max_matching_size (vnodes v1) (vadj v1) /\ n2 <= max_matching_size (vnodes v1) (vadj v1).
Proof. exact (@greedy_matching_iso). Qed.

(* the capacity of a cut of the second view is the capacity of its preimage in the first *)
Theorem C07b_cut_cap : forall p v1 v2 U, view_iso p v1 v2 -> NoDup (vnodes v1) -> NoDup (vnodes v2) ->
  cut_cap (fedges v2) U = cut_cap (fedges v1) (fun x => U (p x)).
Proof. exact (fun p v1 v2 U H N1 N2 => cut_cap_iso U H N1 N2). Qed.

(* ford_fulkerson from corresponding source and sink: both Ok, the same value; each flow is a maximum
   flow of its own view and each value a lower bound of every cut (the flows may differ) *)
Theorem C07b_ford_fulkerson : forall p v1 v2 s t w1 w2, view_iso p v1 v2 -> FlowSpec.FOk v1 -> FlowSpec.FOk v2 ->
  In s (vnodes v1) -> In t (vnodes v1) -> s <> t ->
  exists tot1 fl1 tot2 fl2,
    ford_fulkerson v1 s t w1 = Ok (tot1, fl1) /\ ford_fulkerson v2 (p s) (p t) w2 = Ok (tot2, fl2) /\
    tot1 = tot2 /\
    tot1 = value (fedges v1) (f_of fl1) s /\ tot2 = value (fedges v2) (f_of fl2) (p s) /\
    is_max_flow (fedges v1) (f_of fl1) s t /\ is_max_flow (fedges v2) (f_of fl2) (p s) (p t) /\
    (forall U, is_cut U s t -> (tot1 <= cut_cap (fedges v1) U)%Z) /\
    (forall U, is_cut U (p s) (p t) -> (tot2 <= cut_cap (fedges v2) U)%Z).
Proof. exact (@ford_fulkerson_iso). Qed.

(* ------------------------------------------------------------------ *)
(* J3: k_shortest_path, every k                                        *)

(* with duplicate-free out-lists (distinct edge ids) the walks of the two views are in a
   cost-preserving bijection: the k-th smallest walk cost corresponds *)
Theorem C07b_kth_walk_cost_corresponds : forall p v1 v2 s x k d, view_iso p v1 v2 ->
  (forall a, NoDup (out_edges v1 a)) -> (forall a, NoDup (out_edges v2 a)) ->
  In s (vnodes v1) -> In x (vnodes v1) ->
  (kth_walk_cost v1 s x k d <-> kth_walk_cost v2 (p s) (p x) k d).
Proof. exact (fun p v1 v2 s x k d => @kth_walk_cost_iso p v1 v2 s x k d). Qed.

Theorem C07b_k_shortest_path : forall p v1 v2 s k, view_iso p v1 v2 ->
  Paths.VOk v1 -> Paths.VOk v2 -> nonneg v1 ->
  (forall a e, In e (out_edges v1 a) -> tgt e < vbound v1) ->
  (forall a e, In e (out_edges v2 a) -> tgt e < vbound v2) ->
  s < vbound v1 -> p s < vbound v2 ->
  (forall a, NoDup (out_edges v1 a)) -> (forall a, NoDup (out_edges v2 a)) ->
  In s (vnodes v1) ->
  exists m1 m2, k_shortest_path v1 (vbound v1) s None k = Ok m1 /\
                k_shortest_path v2 (vbound v2) (p s) None k = Ok m2 /\
    (forall x, In x (vnodes v1) -> sget m1 x = sget m2 (p x)) /\
    (forall y d, sget m2 y = Some d -> exists x, In x (vnodes v1) /\ y = p x /\ sget m1 x = Some d) /\
    (forall x d, sget m1 x = Some d -> In x (vnodes v1)).
Proof. exact (@ksp_iso). Qed.

(* ------------------------------------------------------------------ *)
(* J4: spfa, floyd_warshall, find_negative_cycle                        *)

(* spfa under the side conditions of C11b_spfa for both views (Ok None models Err(NegativeCycle)) *)
Theorem C07b_spfa : forall p v1 v2 s kmin kmax Dg1 Dg2, view_iso p v1 v2 -> BOk v1 -> BOk v2 -> In s (vnodes v1) ->
  (forall a, length (out_edges v1 a) <= Dg1) -> (forall a, length (out_edges v2 a) <= Dg2) ->
  (forall w x, walk v1 s w x -> length w <= vbound v1 * vbound v1 * Dg1 -> (kmin <= walk_cost w)%Z) ->
  (forall w x, walk v2 (p s) w x -> length w <= vbound v2 * vbound v2 * Dg2 -> (kmin <= walk_cost w)%Z) ->
  (forall w x, walk v1 s w x -> NoDup (s :: map tgt w) -> (walk_cost w < kmax)%Z) ->
  (forall w x, walk v2 (p s) w x -> NoDup (p s :: map tgt w) -> (walk_cost w < kmax)%Z) ->
  exists r1 r2, spfa kmin kmax v1 s = Ok r1 /\ spfa kmin kmax v2 (p s) = Ok r2 /\
    (r1 = None <-> r2 = None) /\
    forall d1 q1 d2 q2, r1 = Some (d1, q1) -> r2 = Some (d2, q2) ->
      forall x, In x (vnodes v1) -> nth x d1 kmax = nth (p x) d2 kmax.
Proof. exact (@spfa_iso). Qed.

(* floyd_warshall between compact views (FloydP.FOk: the nodes are exactly the indices below
   node_count, edge_references join nodes), edge_references corresponding with orientation, both
   directed or both undirected; side conditions of C11b_fw_err_iff and C11_fw_exact for both *)
Theorem C07b_floyd_warshall : forall p v1 v2 kmin kmax, nodes_iso p v1 v2 -> FloydP.FOk v1 -> FloydP.FOk v2 ->
  view_iso_erefs p v1 v2 -> vdirected v1 = vdirected v2 ->
  (forall i c j, ewalk v1 i c j -> esimple i c -> (ecost c < kmax)%Z) ->
  (forall i c j, ewalk v2 i c j -> esimple i c -> (ecost c < kmax)%Z) ->
  (forall i c j, ewalk v1 i c j -> length c <= 2 * vnode_count v1 -> (kmin <= ecost c)%Z) ->
  (forall i c j, ewalk v2 i c j -> length c <= 2 * vnode_count v2 -> (kmin <= ecost c)%Z) ->
  (~ eneg_cycle v1 -> forall i c k d j, ewalk v1 i c k -> ewalk v1 k d j -> (kmin <= ecost c + ecost d)%Z) ->
  (~ eneg_cycle v2 -> forall i c k d j, ewalk v2 i c k -> ewalk v2 k d j -> (kmin <= ecost c + ecost d)%Z) ->
  exists r1 r2, floyd_warshall kmin kmax v1 = Ok r1 /\ floyd_warshall kmin kmax v2 = Ok r2 /\
    (r1 = None <-> r2 = None) /\
    forall d1 x1 d2 x2, r1 = Some (d1, x1) -> r2 = Some (d2, x2) ->
      forall i j, i < vnode_count v1 -> j < vnode_count v1 ->
        mg 0%Z d1 i j = mg 0%Z d2 (p i) (p j).
Proof. exact (@floyd_warshall_iso). Qed.

(* the same for undirected views whose edge_references correspond up to orientation *)
Theorem C07b_floyd_warshall_undirected : forall p v1 v2 kmin kmax, nodes_iso p v1 v2 ->
  FloydP.FOk v1 -> FloydP.FOk v2 ->
  view_iso_erefs_u p v1 v2 -> vdirected v1 = false -> vdirected v2 = false ->
  (forall i c j, ewalk v1 i c j -> esimple i c -> (ecost c < kmax)%Z) ->
  (forall i c j, ewalk v2 i c j -> esimple i c -> (ecost c < kmax)%Z) ->
  (forall i c j, ewalk v1 i c j -> length c <= 2 * vnode_count v1 -> (kmin <= ecost c)%Z) ->
  (forall i c j, ewalk v2 i c j -> length c <= 2 * vnode_count v2 -> (kmin <= ecost c)%Z) ->
  (~ eneg_cycle v1 -> forall i c k d j, ewalk v1 i c k -> ewalk v1 k d j -> (kmin <= ecost c + ecost d)%Z) ->
  (~ eneg_cycle v2 -> forall i c k d j, ewalk v2 i c k -> ewalk v2 k d j -> (kmin <= ecost c + ecost d)%Z) ->
  exists r1 r2, floyd_warshall kmin kmax v1 = Ok r1 /\ floyd_warshall kmin kmax v2 = Ok r2 /\
    (r1 = None <-> r2 = None) /\
    forall d1 x1 d2 x2, r1 = Some (d1, x1) -> r2 = Some (d2, x2) ->
      forall i j, i < vnode_count v1 -> j < vnode_count v1 ->
        mg 0%Z d1 i j = mg 0%Z d2 (p i) (p j).
Proof. exact (@floyd_warshall_iso_u). Qed.

(* find_negative_cycle: None on both or Some on both; each reported cycle is a negative closed walk
   of its own view (the two node lists need not correspond) *)
Theorem C07b_find_negative_cycle : forall p v1 v2 s, view_iso p v1 v2 -> BOk v1 -> BOk v2 -> In s (vnodes v1) ->
  (forall a, In a (vnodes v1) -> Paths.in_cap v1 a) -> (forall a, In a (vnodes v2) -> Paths.in_cap v2 a) ->
  exists r1 r2, find_negative_cycle v1 s = Ok r1 /\ find_negative_cycle v2 (p s) = Ok r2 /\
    (r1 = None <-> r2 = None) /\
    (forall l1, r1 = Some l1 -> exists a c, walk v1 a c a /\ map tgt c = l1 /\ (walk_cost c < 0)%Z) /\
    (forall l2, r2 = Some l2 -> exists a c, walk v2 a c a /\ map tgt c = l2 /\ (walk_cost c < 0)%Z).
Proof. exact (@find_negative_cycle_iso). Qed.

(* ------------------------------------------------------------------ *)
(* J1: tarjan_scc                                                      *)

(* both outputs are exactly the strongly connected components, in reverse topological order:
   corresponding classes, equally many *)
Theorem C07b_tarjan : forall p v1 v2 dbg1 dbg2, view_iso p v1 v2 -> Reach.VOk v1 -> Reach.VOk v2 ->
  (forall n, In n (vnodes v1) -> n < vbound v1) -> (forall n, In n (vnodes v2) -> n < vbound v2) ->
  (N.of_nat (length (vnodes v1)) < USIZE_MAX)%N -> (N.of_nat (length (vnodes v2)) < USIZE_MAX)%N ->
  exists ls1 ls2, tarjan_scc v1 dbg1 = Ok ls1 /\ tarjan_scc v2 dbg2 = Ok ls2 /\
    classes_correspond p ls1 ls2 /\
    Forall (scc_class v1) ls1 /\ Forall (scc_class v2) ls2 /\
    no_later_reach v1 ls1 /\ no_later_reach v2 ls2.
Proof. exact (@tarjan_exact_iso). Qed.

(* tarjan_scc on one view against kosaraju_scc on the other *)
Theorem C07b_tarjan_kosaraju : forall p v1 v2 dbg1, view_iso p v1 v2 -> Reach.VOk v1 -> Reach.VOk v2 ->
  (forall n, In n (vnodes v1) -> n < vbound v1) ->
  (N.of_nat (length (vnodes v1)) < USIZE_MAX)%N ->
  exists ls1 ls2, tarjan_scc v1 dbg1 = Ok ls1 /\ kosaraju_scc v2 = Ok ls2 /\
    classes_correspond p ls1 ls2.
Proof. exact (@tarjan_kosaraju_iso). Qed.

(* node_component_index after the two runs: the positions of corresponding components may differ,
   but two nodes share an index in one view exactly when their images do in the other *)
Theorem C07b_tarjan_component_index : forall p v1 v2 dbg1 dbg2 t1 out1 t2 out2, view_iso p v1 v2 ->
  Reach.VOk v1 -> Reach.VOk v2 ->
  (forall n, In n (vnodes v1) -> n < vbound v1) -> (forall n, In n (vnodes v2) -> n < vbound v2) ->
  (N.of_nat (length (vnodes v1)) < USIZE_MAX)%N -> (N.of_nat (length (vnodes v2)) < USIZE_MAX)%N ->
  tarjan_run v1 dbg1 = Ok (t1, out1) -> tarjan_run v2 dbg2 = Ok (t2, out2) ->
  forall x y, In x (vnodes v1) -> In y (vnodes v1) ->
    (node_component_index t1 dbg1 x = node_component_index t1 dbg1 y <->
     node_component_index t2 dbg2 (p x) = node_component_index t2 dbg2 (p y)).
Proof. exact (@tarjan_index_iso). Qed.

(* ------------------------------------------------------------------ *)
(* J2: astar                                                           *)

(* the distance to the nearest goal, and whether a goal is reachable, correspond when the goal
   predicates agree on corresponding nodes *)
Theorem C07b_goal_dist_corresponds : forall p v1 v2 (g1 g2 : nat -> bool) s, view_iso p v1 v2 ->
  In s (vnodes v1) -> (forall x, In x (vnodes v1) -> g1 x = g2 (p x)) ->
  (forall c, goal_dist v1 g1 s c <-> goal_dist v2 g2 (p s) c) /\
  (goal_reachable v1 g1 s <-> goal_reachable v2 g2 (p s)).
Proof. exact (fun p v1 v2 g1 g2 s H Hs G => conj (fun c => goal_dist_iso c H Hs G) (goal_reachable_iso H Hs G)). Qed.

(* two runs (any fuels; each heuristic admissible for its own view, the two unrelated) that return:
   None together or Some together, and then the same cost; each node list is a walk of that cost in
   its own view *)
Theorem C07b_astar_run : forall p v1 v2 s (g1 g2 : nat -> bool) est1 est2 f1 f2 r1 r2,
  view_iso p v1 v2 -> Paths.VOk v1 -> Paths.VOk v2 -> nonneg v1 ->
  In s (vnodes v1) -> Paths.in_cap v1 s -> Paths.in_cap v2 (p s) ->
  (forall x, In x (vnodes v1) -> g1 x = g2 (p x)) ->
  (forall x, g1 x = true -> (0 <= est1 x)%Z) -> (forall y, g2 y = true -> (0 <= est2 y)%Z) ->
  admissible v1 g1 est1 -> admissible v2 g2 est2 ->
  astar_run f1 v1 s g1 est1 = Ok r1 -> astar_run f2 v2 (p s) g2 est2 = Ok r2 ->
  (r1 = None <-> r2 = None) /\
  (forall c1 q1 c2 q2, r1 = Some (c1, q1) -> r2 = Some (c2, q2) ->
     c1 = c2 /\ goal_dist v1 g1 s c1 /\ goal_dist v2 g2 (p s) c2 /\
     (exists t w, g1 t = true /\ walk v1 s w t /\ walk_nodes s w = q1 /\ walk_cost w = c1) /\
     (exists t w, g2 t = true /\ walk v2 (p s) w t /\ walk_nodes (p s) w = q2 /\ walk_cost w = c2)).
Proof. exact (@astar_run_iso). Qed.

(* with fuels at least astar_fuel_bound both runs return *)
Theorem C07b_astar_run_total : forall p v1 v2 s (g1 g2 : nat -> bool) est1 est2 f1 f2,
  view_iso p v1 v2 -> Paths.VOk v1 -> Paths.VOk v2 -> nonneg v1 ->
  In s (vnodes v1) -> Paths.in_cap v1 s -> Paths.in_cap v2 (p s) ->
  (forall x, In x (vnodes v1) -> g1 x = g2 (p x)) ->
  (forall x, g1 x = true -> (0 <= est1 x)%Z) -> (forall y, g2 y = true -> (0 <= est2 y)%Z) ->
  admissible v1 g1 est1 -> admissible v2 g2 est2 ->
  astar_fuel_bound v1 s <= f1 -> astar_fuel_bound v2 (p s) <= f2 ->
  exists r1 r2, astar_run f1 v1 s g1 est1 = Ok r1 /\ astar_run f2 v2 (p s) g2 est2 = Ok r2 /\
    (r1 = None <-> r2 = None) /\
    (forall c1 q1 c2 q2, r1 = Some (c1, q1) -> r2 = Some (c2, q2) -> c1 = c2).
Proof. exact (@astar_run_iso_total). Qed.

(* the model's astar (constant fuel 5000): for the runs that return (as in C10b) *)
Theorem C07b_astar_partial : forall p v1 v2 s (g1 g2 : nat -> bool) est1 est2 r1 r2,
  view_iso p v1 v2 -> Paths.VOk v1 -> Paths.VOk v2 -> nonneg v1 ->
  In s (vnodes v1) -> Paths.in_cap v1 s -> Paths.in_cap v2 (p s) ->
  (forall x, In x (vnodes v1) -> g1 x = g2 (p x)) ->
  (forall x, g1 x = true -> (0 <= est1 x)%Z) -> (forall y, g2 y = true -> (0 <= est2 y)%Z) ->
  admissible v1 g1 est1 -> admissible v2 g2 est2 ->
  astar v1 s g1 est1 = Ok r1 -> astar v2 (p s) g2 est2 = Ok r2 ->
  (r1 = None <-> r2 = None) /\
  (forall c1 q1 c2 q2, r1 = Some (c1, q1) -> r2 = Some (c2, q2) -> c1 = c2).
Proof. exact (@astar_iso_partial). Qed.

(* ------------------------------------------------------------------ *)
(* J5: Prim                                                            *)

(* connected undirected views (UView: MOk, POk, edge_references and edges(a) show the same weighted
   edges): Prim emits the same total weight on both — Kruskal's; the first nodes may differ *)
Theorem C07b_prim : forall p v1 v2 n0 rest, nodes_iso p v1 v2 -> UView v1 -> UView v2 ->
  view_iso_erefs_u p v1 v2 -> vnodes v1 = n0 :: rest ->
  (forall x, In x (vnodes v1) -> uconn (ends (gedges v1)) n0 x) ->
  exists l1 l2 k1 k2, prim v1 = Ok l1 /\ prim v2 = Ok l2 /\ kruskal v1 = Ok k1 /\ kruskal v2 = Ok k2 /\
    weight l1 = weight l2 /\ weight l1 = weight k1 /\ weight l2 = weight k2.
Proof. exact (@prim_iso). Qed.

(* ------------------------------------------------------------------ *)
(* J8: maximal cliques, transitive closure and reduction, all_simple_paths *)

(* the members of the two reference enumerations correspond as sets ... *)
Theorem C07b_maximal_cliques_sets : forall p v1 v2, view_iso p v1 v2 ->
  (forall c1, In c1 (maximal_cliques_ref v1) ->
     exists c2, In c2 (maximal_cliques_ref v2) /\ ViewIso.same_set (map p c1) c2) /\
  (forall c2, In c2 (maximal_cliques_ref v2) ->
     exists c1, In c1 (maximal_cliques_ref v1) /\ ViewIso.same_set (map p c1) c2).
Proof. exact (@maximal_cliques_sets_iso). Qed.

(* ... and with duplicate-free node lists there are equally many *)
Theorem C07b_maximal_cliques : forall p v1 v2, view_iso p v1 v2 -> NoDup (vnodes v1) -> NoDup (vnodes v2) ->
  classes_correspond p (maximal_cliques_ref v1) (maximal_cliques_ref v2).
Proof. exact (@maximal_cliques_iso). Qed.

(* reachability by a non-empty path *)
Theorem C07b_vplus_corresponds : forall p v1 v2 a b, view_iso p v1 v2 -> In a (vnodes v1) -> In b (vnodes v1) ->
  (vplus v1 a b <-> vplus v2 (p a) (p b)).
Proof. exact (@vplus_iso). Qed.

(* toposort + dag_to_toposorted_adjacency_list + dag_transitive_reduction_closure on two
   corresponding DAGs: all Ok; the outputs are over the ranks in the two topological orders (which
   may differ), and read back on the nodes they are the same relations: (i, j) in the closure
   (reduction) of the first exactly when the ranks (i', j') of the images are in that of the second *)
Theorem C07b_tred_closure : forall p v1 v2 o1 o2, view_iso p v1 v2 -> Reach.VOk v1 -> Reach.VOk v2 ->
  (forall a, In a (vnodes v1) -> a < vbound v1) -> (forall a, In a (vnodes v2) -> a < vbound v2) ->
  no_parallel_in v1 -> no_parallel_in v2 ->
  toposort v1 = Ok (inr o1) -> toposort v2 = Ok (inr o2) ->
  exists g1 rm1 tr1 tc1 g2 rm2 tr2 tc2,
    dag_to_toposorted_adjacency_list v1 o1 = Ok (g1, rm1) /\
    dag_transitive_reduction_closure g1 = Ok (tr1, tc1) /\
    dag_to_toposorted_adjacency_list v2 o2 = Ok (g2, rm2) /\
    dag_transitive_reduction_closure g2 = Ok (tr2, tc2) /\
    (forall i j a b, nth_error o1 i = Some a -> nth_error o1 j = Some b ->
       (In j (nth i tc1 []) <-> vplus v1 a b) /\
       (In j (nth i tr1 []) <-> (step v1 a b /\ ~ exists c, vplus v1 a c /\ vplus v1 c b))) /\
    (forall i j i' j' a b,
       nth_error o1 i = Some a -> nth_error o1 j = Some b ->
       nth_error o2 i' = Some (p a) -> nth_error o2 j' = Some (p b) ->
       (In j (nth i tc1 []) <-> In j' (nth i' tc2 [])) /\
       (In j (nth i tr1 []) <-> In j' (nth i' tr2 []))).
Proof. exact (@tred_closure_iso). Qed.

(* all_simple_paths between corresponding endpoints, the same bounds: when both return, the second
   result is the first mapped through p, as sets; equally many without parallel edges *)
Theorem C07b_all_simple_paths : forall p v1 v2 from to min_i max_i dbg1 dbg2 ps1 ps2, view_iso p v1 v2 ->
  NoDup (vnodes v1) -> NoDup (vnodes v2) ->
  In from (vnodes v1) -> In to (vnodes v1) -> from <> to ->
  all_simple_paths v1 from to min_i max_i dbg1 = Ok ps1 ->
  all_simple_paths v2 (p from) (p to) min_i max_i dbg2 = Ok ps2 ->
  (forall l, In l ps1 -> In (map p l) ps2) /\
  (forall l', In l' ps2 <-> exists l, In l ps1 /\ l' = map p l) /\
  (no_parallel v1 -> no_parallel v2 -> length ps1 = length ps2).
Proof. exact (@all_simple_paths_iso). Qed.

(* ------------------------------------------------------------------ *)
(* J9: no panic on one encoding when another succeeds                   *)

(* C07_no_panic_transfer extended: under the well-formedness of both views every algorithm above
   returns Ok on both (never Panic, never OutOfFuel).  all_simple_paths has no totality theorem
   (C20) and is not listed; maximal_cliques_ref is a pure function. *)
Theorem C07b_no_panic_transfer : forall p v1 v2, view_iso p v1 v2 ->
  (Reach.VOk v1 -> Reach.VOk v2 ->
     (forall root d1 d2, In root (vnodes v1) ->
        exists m1 m2, simple_fast v1 root d1 = Ok m1 /\ simple_fast v2 (p root) d2 = Ok m2) /\
     (CutSpec.symmetric v1 -> CutSpec.symmetric v2 ->
      (forall n, In n (vnodes v1) -> n < vbound v1) -> (forall n, In n (vnodes v2) -> n < vbound v2) ->
        exists l1 l2, articulation_points v1 = Ok l1 /\ articulation_points v2 = Ok l2) /\
     ((forall n, In n (vnodes v1) -> n < vbound v1) -> (forall n, In n (vnodes v2) -> n < vbound v2) ->
      (N.of_nat (length (vnodes v1)) < USIZE_MAX)%N -> (N.of_nat (length (vnodes v2)) < USIZE_MAX)%N ->
      forall d1 d2, exists t1 o1 t2 o2,
        tarjan_run v1 d1 = Ok (t1, o1) /\ tarjan_run v2 d2 = Ok (t2, o2) /\
        forall x, In x (vnodes v1) -> exists i1 i2,
          node_component_index t1 d1 x = Ok i1 /\ node_component_index t2 d2 (p x) = Ok i2) /\
     ((forall n, In n (vnodes v1) -> n < vbound v1) -> (forall n, In n (vnodes v2) -> n < vbound v2) ->
      no_parallel_in v1 -> no_parallel_in v2 ->
      forall o1 o2, toposort v1 = Ok (inr o1) -> toposort v2 = Ok (inr o2) ->
        exists g1 rm1 r1 g2 rm2 r2,
          dag_to_toposorted_adjacency_list v1 o1 = Ok (g1, rm1) /\ dag_transitive_reduction_closure g1 = Ok r1 /\
          dag_to_toposorted_adjacency_list v2 o2 = Ok (g2, rm2) /\ dag_transitive_reduction_closure g2 = Ok r2)) /\
  (Paths.VOk v1 -> Paths.VOk v2 -> nonneg v1 ->
     (forall s (g1 g2 : nat -> bool) (e1 e2 : nat -> Z) f1 f2,
        astar_fuel_bound v1 s <= f1 -> astar_fuel_bound v2 (p s) <= f2 ->
        exists r1 r2, astar_run f1 v1 s g1 e1 = Ok r1 /\ astar_run f2 v2 (p s) g2 e2 = Ok r2) /\
     ((forall a e, In e (out_edges v1 a) -> tgt e < vbound v1) ->
      (forall a e, In e (out_edges v2 a) -> tgt e < vbound v2) ->
      (forall a, NoDup (out_edges v1 a)) -> (forall a, NoDup (out_edges v2 a)) ->
      forall s k, s < vbound v1 -> p s < vbound v2 ->
        exists m1 m2, k_shortest_path v1 (vbound v1) s None k = Ok m1 /\
                      k_shortest_path v2 (vbound v2) (p s) None k = Ok m2)) /\
  (BOk v1 -> BOk v2 ->
     (forall s kmin kmax Dg1 Dg2, In s (vnodes v1) ->
        (forall a, length (out_edges v1 a) <= Dg1) -> (forall a, length (out_edges v2 a) <= Dg2) ->
        (forall w x, walk v1 s w x -> length w <= vbound v1 * vbound v1 * Dg1 -> (kmin <= walk_cost w)%Z) ->
        (forall w x, walk v2 (p s) w x -> length w <= vbound v2 * vbound v2 * Dg2 -> (kmin <= walk_cost w)%Z) ->
        (forall w x, walk v1 s w x -> NoDup (s :: map tgt w) -> (walk_cost w < kmax)%Z) ->
        (forall w x, walk v2 (p s) w x -> NoDup (p s :: map tgt w) -> (walk_cost w < kmax)%Z) ->
        exists r1 r2, spfa kmin kmax v1 s = Ok r1 /\ spfa kmin kmax v2 (p s) = Ok r2) /\
     ((forall a, In a (vnodes v1) -> Paths.in_cap v1 a) -> (forall a, In a (vnodes v2) -> Paths.in_cap v2 a) ->
      forall s, In s (vnodes v1) ->
        exists r1 r2, find_negative_cycle v1 s = Ok r1 /\ find_negative_cycle v2 (p s) = Ok r2)) /\
  (FloydP.FOk v1 -> FloydP.FOk v2 -> forall kmin kmax, (0 <= kmax)%Z ->
     exists r1 r2, floyd_warshall kmin kmax v1 = Ok r1 /\ floyd_warshall kmin kmax v2 = Ok r2) /\
  (POk v1 -> POk v2 -> exists l1 l2, prim v1 = Ok l1 /\ prim v2 = Ok l2) /\
  (MatchSpec.MOk v1 -> MatchSpec.MOk v2 ->
     (exists r1 r2, greedy_inner v1 = Ok r1 /\ greedy_inner v2 = Ok r2) /\
     (EidOk v1 -> EidOk v2 -> CapOk v1 -> CapOk v2 -> forall d1 d2,
        exists r1 r2, maximum_matching v1 d1 = Ok r1 /\ maximum_matching v2 d2 = Ok r2)) /\
  (FlowSpec.FOk v1 -> FlowSpec.FOk v2 -> forall s t w1 w2, In s (vnodes v1) -> In t (vnodes v1) -> s <> t ->
     exists r1 r2, ford_fulkerson v1 s t w1 = Ok r1 /\ ford_fulkerson v2 (p s) (p t) w2 = Ok r2).
Proof. exact (@no_panic_transfer2). Qed.

(* ------------------------------------------------------------------ *)
(* Non-vacuity.                                                         *)
From PG Require Import Proofs.DijkstraP Proofs.SpfaP Proofs.FlowSpecP Proofs.MatchCheckP Proofs.GabowExP
                       Proofs.ArtGraphP Proofs.MiscCheckP Proofs.MiscTopoAdjP Proofs.MiscPathsP
                       Props.C07 Props.C12b Props.C15 Props.C16 Props.C20.
Local Open Scope nat_scope.

(* ---- A. the directed weighted views of C07: C07_ex (compact, 5 nodes: the 3-cycle 0 -> 1 -> 2 -> 0,
   the tail 2 -> 3 -> 4, the shortcut 0 -> 3) and C07_ex_other (the same graph at the indices
   {1, 3, 4, 7, 9}, other node order, entry order and edge ids, a hash set for a visit map,
   node_bound 12), related by C07_p ---- *)

Example C07b_exA_ok :
  view_iso C07_p C07_ex C07_ex_other /\
  Reach.VOk C07_ex /\ Reach.VOk C07_ex_other /\ Paths.VOk C07_ex /\ Paths.VOk C07_ex_other /\
  nonneg C07_ex /\ BOk C07_ex /\ BOk C07_ex_other /\
  (forall n, In n (vnodes C07_ex) -> n < vbound C07_ex) /\
  (forall n, In n (vnodes C07_ex_other) -> n < vbound C07_ex_other) /\
  (N.of_nat (length (vnodes C07_ex)) < USIZE_MAX)%N /\ (N.of_nat (length (vnodes C07_ex_other)) < USIZE_MAX)%N /\
  (forall a e, In e (out_edges C07_ex a) -> tgt e < vbound C07_ex) /\
  (forall a e, In e (out_edges C07_ex_other a) -> tgt e < vbound C07_ex_other) /\
  (forall a, NoDup (out_edges C07_ex a)) /\ (forall a, NoDup (out_edges C07_ex_other a)) /\
  (forall a, In a (vnodes C07_ex) -> Paths.in_cap C07_ex a) /\
  (forall a, In a (vnodes C07_ex_other) -> Paths.in_cap C07_ex_other a).
Proof.
  destruct C07_ex_ok as [_ [_ [H [_ [V1 [_ [V3 [P1 [_ [P3 [N1 [B1 [_ [B3 _]]]]]]]]]]]]]].
  split; [exact H|]. split; [exact V1|]. split; [exact V3|]. split; [exact P1|]. split; [exact P3|].
  split; [exact N1|]. split; [exact B1|]. split; [exact B3|].
  split; [apply below_bound_b_ok; vm_compute; reflexivity|].
  split; [apply below_bound_b_ok; vm_compute; reflexivity|].
  split; [vm_compute; reflexivity|]. split; [vm_compute; reflexivity|].
  split; [apply tgt_bound_b_ok; vm_compute; reflexivity|].
  split; [apply tgt_bound_b_ok; vm_compute; reflexivity|].
  split; [apply out_nodup_b_ok; vm_compute; reflexivity|].
  split; [apply out_nodup_b_ok; vm_compute; reflexivity|].
  split; apply nodes_in_cap_b_ok; vm_compute; reflexivity.
Qed.

(* a heuristic for the second view that is admissible, not zero, and unrelated to the zero
   heuristic used on the first: 5 at the start node 1 (the distance to the goal 9 is 10) *)
Definition C07b_est (y : nat) : Z := if Nat.eqb y 1 then 5%Z else 0%Z.

Example C07b_est_admissible : admissible C07_ex_other (Nat.eqb 9) C07b_est /\
  (forall y, Nat.eqb 9 y = true -> (0 <= C07b_est y)%Z).
Proof.
  destruct C07b_exA_ok as [H [_ [_ [P1 [P3 [N1 _]]]]]].
  pose proof (proj1 (nonneg_iso H) N1) as N3. split.
  - intros x d [[t [w [Hg [W C]]]] _]. apply Nat.eqb_eq in Hg. subst t.
    pose proof (walk_cost_nonneg N3 W) as Hd. unfold C07b_est.
    destruct (Nat.eqb_spec x 1) as [->|Hne]; [|lia].
    assert (Hc : Paths.in_cap C07_ex_other 1) by exact I.
    destruct (dijkstra_exact P3 N3 Hc) as [m [E [_ X]]].
    assert (Hd10 : is_dist C07_ex_other 1 9 10%Z).
    { apply X. vm_compute in E. injection E as <-. vm_compute. reflexivity. }
    destruct Hd10 as [_ L]. pose proof (L _ W). lia.
  - intros y Hy. apply Nat.eqb_eq in Hy. subst y. vm_compute. discriminate.
Qed.

(* what the algorithms return on the two views: corresponding dominator maps, corresponding
   components (tarjan_scc lists them in the same order here), the same astar cost with two
   different heuristics, the same 2nd and 3rd smallest walk costs, the same spfa distances
   (max() = 100000 at the holes), no negative cycle *)
Example C07b_exA_values :
  simple_fast C07_ex 0 true = Ok [(4, 3); (3, 0); (2, 1); (1, 0); (0, 0)] /\
  simple_fast C07_ex_other 1 false = Ok [(9, 7); (7, 1); (4, 3); (3, 1); (1, 1)] /\
  tarjan_scc C07_ex true = Ok [[4]; [3]; [2; 1; 0]] /\
  tarjan_scc C07_ex_other false = Ok [[9]; [7]; [4; 3; 1]] /\
  astar C07_ex 0 (Nat.eqb 4) (fun _ => 0%Z) = Ok (Some (10%Z, [0; 1; 2; 3; 4])) /\
  astar C07_ex_other 1 (Nat.eqb 9) C07b_est = Ok (Some (10%Z, [1; 3; 4; 7; 9])) /\
  k_shortest_path C07_ex 5 0 None 2 = Ok [(0, 6%Z); (1, 8%Z); (3, 10%Z); (2, 11%Z); (4, 11%Z)] /\
  k_shortest_path C07_ex_other 12 1 None 2 = Ok [(1, 6%Z); (3, 8%Z); (7, 10%Z); (4, 11%Z); (9, 11%Z)] /\
  k_shortest_path C07_ex 5 0 None 3 = Ok [(0, 12%Z); (1, 14%Z); (3, 15%Z); (4, 16%Z); (2, 17%Z)] /\
  k_shortest_path C07_ex_other 12 1 None 3 = Ok [(1, 12%Z); (3, 14%Z); (7, 15%Z); (9, 16%Z); (4, 17%Z)] /\
  rmap (option_map fst) (spfa (-100000)%Z 100000%Z C07_ex 0) = Ok (Some [0; 2; 5; 9; 10]%Z) /\
  rmap (option_map fst) (spfa (-100000)%Z 100000%Z C07_ex_other 1) =
    Ok (Some [100000; 0; 100000; 2; 5; 100000; 100000; 9; 100000; 10; 100000; 100000]%Z) /\
  find_negative_cycle C07_ex 0 = Ok None /\ find_negative_cycle C07_ex_other 1 = Ok None.
Proof. repeat match goal with |- _ /\ _ => split end; vm_compute; reflexivity. Qed.

(* the side conditions of C07b_spfa hold for both views with min() = -100000, max() = 100000
   (weights within 10, out-lists of at most 2 entries) *)
Example C07b_exA_spfa_hyps :
  (forall a, length (out_edges C07_ex a) <= 2) /\ (forall a, length (out_edges C07_ex_other a) <= 2) /\
  (forall w x, walk C07_ex 0 w x -> length w <= vbound C07_ex * vbound C07_ex * 2 -> (-100000 <= walk_cost w)%Z) /\
  (forall w x, walk C07_ex_other (C07_p 0) w x ->
     length w <= vbound C07_ex_other * vbound C07_ex_other * 2 -> (-100000 <= walk_cost w)%Z) /\
  (forall w x, walk C07_ex 0 w x -> NoDup (0 :: map tgt w) -> (walk_cost w < 100000)%Z) /\
  (forall w x, walk C07_ex_other (C07_p 0) w x -> NoDup (C07_p 0 :: map tgt w) -> (walk_cost w < 100000)%Z).
Proof.
  destruct C07b_exA_ok as [_ [_ [_ [_ [_ [_ [B1 [B3 _]]]]]]]].
  assert (D1 : forall a, length (out_edges C07_ex a) <= 2).
  { intros a. pose proof (max_deg_ok C07_ex a) as K. vm_compute max_deg in K. exact K. }
  assert (D3 : forall a, length (out_edges C07_ex_other a) <= 2).
  { intros a. pose proof (max_deg_ok C07_ex_other a) as K. vm_compute max_deg in K. exact K. }
  assert (L1 : 0 < vbound C07_ex) by (vm_compute; lia).
  assert (L3 : C07_p 0 < vbound C07_ex_other) by (vm_compute; lia).
  destruct (spfa_bounds_from_weights (-100000)%Z 100000%Z C07_ex 0 10%Z 2 B1 L1) as [_ K1];
    [lia|apply wbound_b_ok; vm_compute; reflexivity|vm_compute; reflexivity|].
  destruct (spfa_bounds_from_weights (-100000)%Z 100000%Z C07_ex_other (C07_p 0) 10%Z 2 B3 L3) as [_ K3];
    [lia|apply wbound_b_ok; vm_compute; reflexivity|vm_compute; reflexivity|].
  destruct K1 as [A1 C1]; [vm_compute; discriminate|]. destruct K3 as [A3 C3]; [vm_compute; discriminate|].
  split; [exact D1|]. split; [exact D3|]. split; [exact A1|]. split; [exact A3|]. split; [exact C1|exact C3].
Qed.

(* the theorems applied: facts about the hand-written encoding obtained from runs on the compact
   one, without running anything on the former *)
Example C07b_exA_applied :
  (exists m, simple_fast C07_ex_other 1 false = Ok m /\ assoc_nat m 9 = Some 7 /\ assoc_nat m 4 = Some 3 /\
             length m = 5) /\
  (exists m, k_shortest_path C07_ex_other 12 1 None 3 = Ok m /\ sget m 9 = Some 16%Z /\ sget m 4 = Some 17%Z) /\
  (exists ls, tarjan_scc C07_ex_other false = Ok ls /\ classes_correspond C07_p [[4]; [3]; [2; 1; 0]] ls) /\
  (exists r d q, spfa (-100000)%Z 100000%Z C07_ex_other 1 = Ok r /\ r = Some (d, q) /\ nth 9 d 100000%Z = 10%Z) /\
  (forall r2, astar C07_ex_other 1 (Nat.eqb 9) C07b_est = Ok r2 -> exists q2, r2 = Some (10%Z, q2)).
Proof.
  destruct C07b_exA_ok as [H [V1 [V3 [P1 [P3 [N1 [B1 [B3 [L1 [L3 [U1 [U3 [T1 [T3 [D1 [D3 [I1 I3]]]]]]]]]]]]]]]]].
  assert (In0 : In 0 (vnodes C07_ex)) by (cbn; tauto).
  assert (In2 : In 2 (vnodes C07_ex)) by (cbn; tauto).
  assert (In3 : In 3 (vnodes C07_ex)) by (cbn; tauto).
  assert (In4 : In 4 (vnodes C07_ex)) by (cbn; tauto).
  split; [|split; [|split; [|split]]].
  - destruct (simple_fast_iso true false H V1 V3 In0) as [m1 [m2 [E1 [E2 [A [_ [_ [_ L]]]]]]]].
    vm_compute in E1. injection E1 as <-. exists m2. split; [exact E2|].
    split; [apply (A 4 3 In4 In3); reflexivity|]. split; [apply (A 2 1 In2); [cbn; tauto|reflexivity]|].
    rewrite <- L. reflexivity.
  - assert (S1 : 0 < vbound C07_ex) by (vm_compute; lia).
    assert (S3 : C07_p 0 < vbound C07_ex_other) by (vm_compute; lia).
    destruct (ksp_iso 3 H P1 P3 N1 T1 T3 S1 S3 D1 D3 In0) as [m1 [m2 [E1 [E2 [A _]]]]].
    vm_compute in E1. injection E1 as <-. exists m2. split; [exact E2|].
    split; [exact (eq_sym (A 4 In4))|exact (eq_sym (A 2 In2))].
  - destruct (tarjan_exact_iso true false H V1 V3 L1 L3 U1 U3) as [ls1 [ls2 [E1 [E2 [C _]]]]].
    vm_compute in E1. injection E1 as <-. exists ls2. split; [exact E2|exact C].
  - destruct C07b_exA_spfa_hyps as [G1 [G3 [A1 [A3 [C1 C3]]]]].
    destruct (spfa_iso H B1 B3 In0 G1 G3 A1 A3 C1 C3) as [r1 [r2 [E1 [E2 [X Y]]]]].
    vm_compute in E1. injection E1 as <-.
    destruct r2 as [[d q]|]; [|exfalso; assert (K : Some ([0; 2; 5; 9; 10]%Z, [None; Some 0; Some 1; Some 2; Some 3]) = None)
                                  by (apply X; reflexivity); discriminate K].
    exists (Some (d, q)), d, q. split; [exact E2|]. split; [reflexivity|].
    change (nth 9 d 100000%Z) with (nth (C07_p 4) d 100000%Z).
    rewrite <- (Y _ _ d q eq_refl eq_refl 4 In4). reflexivity.
  - intros r2 E2. destruct C07b_est_admissible as [Ad2 Ps2].
    assert (E1 : astar C07_ex 0 (Nat.eqb 4) (fun _ => 0%Z) = Ok (Some (10%Z, [0; 1; 2; 3; 4]))) by (vm_compute; reflexivity).
    assert (G : forall x, In x (vnodes C07_ex) -> Nat.eqb 4 x = Nat.eqb 9 (C07_p x)).
    { intros x Hx. cbn [C07_ex vnodes In] in Hx. repeat (destruct Hx as [<-|Hx]; [reflexivity|]). destruct Hx. }
    destruct (@astar_iso_partial C07_p C07_ex C07_ex_other 0 (Nat.eqb 4) (Nat.eqb 9) (fun _ => 0%Z) C07b_est _ r2
                H P1 P3 N1 In0 (I1 0 In0) I (G) (fun _ _ => Z.le_refl 0) Ps2 (@admissible_zero C07_ex (Nat.eqb 4) N1) Ad2 E1 E2) as [X Y].
    destruct r2 as [[c2 q2]|]; [|exfalso; assert (K : Some (10%Z, [0; 1; 2; 3; 4]) = None) by (apply X; reflexivity); discriminate K].
    exists q2. rewrite <- (Y _ _ c2 q2 eq_refl eq_refl). reflexivity.
Qed.

(* ---- B. undirected views.  Matchings: ex_view (C15: a 5-cycle with two pendant nodes) and its
   renumbering by C07b_q7; a 4-path in two encodings on which greedy_matching finds 2 pairs and 1
   pair.  Articulation points: C16_ap and a renumbering with holes.  Cliques and simple paths:
   C20_U (two triangles sharing a node, a pendant node) and a renumbering.  Prim: the triangle
   C12b_tri and a renumbering ---- *)

Definition C07b_q7 (x : nat) : nat := nth x [3; 6; 0; 5; 1; 4; 2] 0.
Definition C07b_q6 (x : nat) : nat := nth x [2; 4; 0; 5; 1; 3] 0.
Definition C07b_q8 (x : nat) : nat := nth x [10; 3; 7; 1; 12; 5; 0; 8] 0.
Definition C07b_q3 (x : nat) : nat := nth x [2; 0; 1] 0.

(* the 4-path 0 - 1 - 2 - 3, listed from node 0, and the same listed from node 1 with the entry
   towards 2 first *)
Definition C07b_Pa : view :=
  let o := [(0, [(0,1,1%Z)]); (1, [(0,0,1%Z); (1,2,1%Z)]); (2, [(1,1,1%Z); (2,3,1%Z)]); (3, [(2,2,1%Z)])] in
  mkView false 4 (Some 4) [0; 1; 2; 3] o o 3 3 [(0,0,1,1%Z); (1,1,2,1%Z); (2,2,3,1%Z)].
Definition C07b_Pb : view :=
  let o := [(1, [(1,2,1%Z); (0,0,1%Z)]); (0, [(0,1,1%Z)]); (2, [(1,1,1%Z); (2,3,1%Z)]); (3, [(2,2,1%Z)])] in
  mkView false 4 (Some 4) [1; 0; 2; 3] o o 3 3 [(1,2,1,1%Z); (0,1,0,1%Z); (2,2,3,1%Z)].

Example C07b_exB_matching_ok :
  view_iso C07b_q7 ex_view (relabel C07b_q7 ex_view) /\
  (MatchSpec.MOk ex_view /\ EidOk ex_view /\ CapOk ex_view /\ vsymmetric ex_view) /\
  (MatchSpec.MOk (relabel C07b_q7 ex_view) /\ EidOk (relabel C07b_q7 ex_view) /\
   CapOk (relabel C07b_q7 ex_view) /\ vsymmetric (relabel C07b_q7 ex_view)) /\
  view_iso (fun x => x) C07b_Pa C07b_Pb /\
  (MatchSpec.MOk C07b_Pa /\ EidOk C07b_Pa /\ CapOk C07b_Pa /\ vsymmetric C07b_Pa) /\
  (MatchSpec.MOk C07b_Pb /\ EidOk C07b_Pb /\ CapOk C07b_Pb /\ vsymmetric C07b_Pb).
Proof.
  split; [apply view_iso_b_ok; vm_compute; reflexivity|].
  split; [apply hyps_b_ok; vm_compute; reflexivity|].
  split; [apply hyps_b_ok; vm_compute; reflexivity|].
  split; [apply view_iso_b_ok; vm_compute; reflexivity|].
  split; apply hyps_b_ok; vm_compute; reflexivity.
Qed.

(* maximum_matching: 3 pairs on both encodings of ex_view (different pairs), 2 on both encodings of
   the path; greedy_matching: 2 and 2, but 2 and 1 on the two encodings of the path — its size is
   not a property of the abstract graph *)
Example C07b_exB_matching_values :
  maximum_matching ex_view true = Ok ([Some 1; Some 0; Some 6; Some 4; Some 3; None; Some 2], 3) /\
  maximum_matching (relabel C07b_q7 ex_view) true = Ok ([Some 2; Some 5; Some 0; Some 6; None; Some 1; Some 3], 3) /\
  rmap snd (greedy_inner ex_view) = Ok 2 /\ rmap snd (greedy_inner (relabel C07b_q7 ex_view)) = Ok 2 /\
  maximum_matching C07b_Pa true = Ok ([Some 1; Some 0; Some 3; Some 2], 2) /\
  maximum_matching C07b_Pb true = Ok ([Some 1; Some 0; Some 3; Some 2], 2).
Proof. repeat match goal with |- _ /\ _ => split end; vm_compute; reflexivity. Qed.

Example C07b_greedy_sizes_differ :
  view_iso (fun x => x) C07b_Pa C07b_Pb /\ MatchSpec.MOk C07b_Pa /\ MatchSpec.MOk C07b_Pb /\
  greedy_inner C07b_Pa = Ok ([Some 1; Some 0; Some 3; Some 2], 2) /\
  greedy_inner C07b_Pb = Ok ([None; Some 2; Some 1; None], 1) /\
  max_matching_size (vnodes C07b_Pa) (vadj C07b_Pa) = 2.
Proof.
  destruct C07b_exB_matching_ok as [_ [_ [_ [H [[Ma _] [Mb _]]]]]].
  split; [exact H|]. split; [exact Ma|]. split; [exact Mb|].
  split; [vm_compute; reflexivity|]. split; vm_compute; reflexivity.
Qed.

(* the theorem applied: the size on the renumbered view from the run on ex_view *)
Example C07b_exB_matching_applied :
  exists m n, maximum_matching (relabel C07b_q7 ex_view) false = Ok (m, n) /\ n = 3 /\
              is_maximum (vnodes (relabel C07b_q7 ex_view)) (vadj (relabel C07b_q7 ex_view)) (m_edges m).
Proof.
  destruct C07b_exB_matching_ok as [H [[M1 [I1 [C1 S1]]] [[M2 [I2 [C2 S2]]] _]]].
  destruct (maximum_matching_iso true false H M1 M2 I1 I2 C1 C2 S1 S2)
    as [m1 [n1 [m2 [n2 [E1 [E2 [En [_ [_ [_ [_ X2]]]]]]]]]]].
  vm_compute in E1. injection E1 as <- <-. exists m2, n2. split; [exact E2|]. split; [symmetry; exact En|exact X2].
Qed.

Example C07b_exB_cut_ok :
  view_iso C07b_q8 C16_ap (relabel C07b_q8 C16_ap) /\
  Reach.VOk C16_ap /\ Reach.VOk (relabel C07b_q8 C16_ap) /\
  CutSpec.symmetric C16_ap /\ CutSpec.symmetric (relabel C07b_q8 C16_ap) /\
  (forall n, In n (vnodes C16_ap) -> n < vbound C16_ap) /\
  (forall n, In n (vnodes (relabel C07b_q8 C16_ap)) -> n < vbound (relabel C07b_q8 C16_ap)).
Proof.
  split; [apply view_iso_b_ok; vm_compute; reflexivity|].
  split; [apply vok_check_ok; vm_compute; reflexivity|].
  split; [apply vok_check_ok; vm_compute; reflexivity|].
  split; [apply sym_check_ok; vm_compute; reflexivity|].
  split; [apply sym_check_ok; vm_compute; reflexivity|].
  split; apply below_bound_b_ok; vm_compute; reflexivity.
Qed.

(* cut nodes 2, 3, 5 and their images 7, 1, 5 (node_bound 13, five holes) *)
Example C07b_exB_cut_values :
  articulation_points C16_ap = Ok [5; 3; 2] /\ articulation_points (relabel C07b_q8 C16_ap) = Ok [5; 1; 7] /\
  map C07b_q8 [5; 3; 2] = [5; 1; 7] /\ vbound (relabel C07b_q8 C16_ap) = 13.
Proof. repeat match goal with |- _ /\ _ => split end; vm_compute; reflexivity. Qed.

Example C07b_exB_cut_applied :
  exists l, articulation_points (relabel C07b_q8 C16_ap) = Ok l /\ length l = 3 /\
            In 7 l /\ In 1 l /\ In 5 l /\ ~ In 10 l.
Proof.
  destruct C07b_exB_cut_ok as [H [V1 [V2 [S1 [S2 [B1 B2]]]]]].
  destruct (articulation_points_iso H V1 V2 S1 S2 B1 B2) as [l1 [l2 [E1 [E2 [_ [_ [A [_ [_ L]]]]]]]]].
  vm_compute in E1. injection E1 as <-. exists l2. split; [exact E2|]. split; [symmetry; exact L|].
  split; [apply (A 2); cbn; tauto|]. split; [apply (A 3); cbn; tauto|]. split; [apply (A 5); cbn; tauto|].
  intros K. apply (A 0) in K; [|cbn; tauto]. cbn in K. intuition discriminate.
Qed.

Example C07b_exB_cliques_ok :
  view_iso C07b_q6 C20_U (relabel C07b_q6 C20_U) /\
  NoDup (vnodes C20_U) /\ NoDup (vnodes (relabel C07b_q6 C20_U)) /\
  no_parallel C20_U /\ no_parallel (relabel C07b_q6 C20_U).
Proof.
  split; [apply view_iso_b_ok; vm_compute; reflexivity|].
  split; [apply nodupb_NoDup; vm_compute; reflexivity|].
  split; [apply nodupb_NoDup; vm_compute; reflexivity|].
  split; refine (no_parallel_outb_ok _ _); vm_compute; reflexivity.
Qed.

(* the maximal cliques {0,1,2}, {2,3,4}, {4,5} and their images, each listed in the node order of its
   own view; the four simple paths 0 -> 5 and their images under map C07b_q6, in the same order here *)
Example C07b_exB_cliques_values :
  maximal_cliques_ref C20_U = [[0; 1; 2]; [2; 3; 4]; [4; 5]] /\
  maximal_cliques_ref (relabel C07b_q6 C20_U) = [[2; 4; 0]; [0; 5; 1]; [1; 3]] /\
  all_simple_paths C20_U 0 5 0 None true =
    Ok [[0; 1; 2; 3; 4; 5]; [0; 1; 2; 4; 5]; [0; 2; 3; 4; 5]; [0; 2; 4; 5]] /\
  all_simple_paths (relabel C07b_q6 C20_U) 2 3 0 None false =
    Ok [[2; 4; 0; 5; 1; 3]; [2; 4; 0; 1; 3]; [2; 0; 5; 1; 3]; [2; 0; 1; 3]].
Proof. repeat match goal with |- _ /\ _ => split end; vm_compute; reflexivity. Qed.

Example C07b_exB_cliques_applied :
  classes_correspond C07b_q6 [[0; 1; 2]; [2; 3; 4]; [4; 5]] (maximal_cliques_ref (relabel C07b_q6 C20_U)) /\
  (forall ps2, all_simple_paths (relabel C07b_q6 C20_U) 2 3 0 None false = Ok ps2 ->
     length ps2 = 4 /\ In [2; 0; 1; 3] ps2).
Proof.
  destruct C07b_exB_cliques_ok as [H [N1 [N2 [P1 P2]]]]. split.
  - apply (maximal_cliques_iso H N1 N2).
  - intros ps2 E2.
    assert (E1 : all_simple_paths C20_U 0 5 0 None true =
                 Ok [[0; 1; 2; 3; 4; 5]; [0; 1; 2; 4; 5]; [0; 2; 3; 4; 5]; [0; 2; 4; 5]]) by (vm_compute; reflexivity).
    assert (F : In 0 (vnodes C20_U)) by (cbn; tauto). assert (T : In 5 (vnodes C20_U)) by (cbn; tauto).
    assert (Ne : 0 <> 5) by discriminate.
    destruct (@all_simple_paths_iso C07b_q6 C20_U (relabel C07b_q6 C20_U) 0 5 0 None true false _ ps2
                H N1 N2 F T Ne E1 E2) as [A [_ L]].
    split; [symmetry; apply (L P1 P2)|]. apply (A [0; 2; 4; 5]). cbn; tauto.
Qed.

Example C07b_exB_prim_ok :
  nodes_iso C07b_q3 C12b_tri (relabel C07b_q3 C12b_tri) /\
  view_iso_erefs_u C07b_q3 C12b_tri (relabel C07b_q3 C12b_tri) /\
  UView C12b_tri /\ UView (relabel C07b_q3 C12b_tri) /\
  (forall x, In x (vnodes C12b_tri) -> uconn (ends (gedges C12b_tri)) 0 x).
Proof.
  assert (H : view_iso C07b_q3 C12b_tri (relabel C07b_q3 C12b_tri)) by (apply view_iso_b_ok; vm_compute; reflexivity).
  split; [apply (view_iso_nodes_iso H)|].
  split; [apply view_iso_erefs_u_b_ok; vm_compute; reflexivity|].
  split; [apply uview_b_sound; vm_compute; reflexivity|].
  split; [apply uview_b_sound; vm_compute; reflexivity|].
  intros x Hx. cbn [C12b_tri vnodes In] in Hx. destruct Hx as [<-|[<-|[<-|[]]]].
  - apply c_refl.
  - apply c_base. cbn. tauto.
  - apply c_base. cbn. tauto.
Qed.

(* Prim emits the total weight 10 on both (Kruskal's) *)
Example C07b_exB_prim_values :
  rmap weight (prim C12b_tri) = Ok 10%Z /\ rmap weight (prim (relabel C07b_q3 C12b_tri)) = Ok 10%Z /\
  rmap weight (kruskal (relabel C07b_q3 C12b_tri)) = Ok 10%Z.
Proof. repeat match goal with |- _ /\ _ => split end; vm_compute; reflexivity. Qed.

Example C07b_exB_prim_applied :
  exists l2, prim (relabel C07b_q3 C12b_tri) = Ok l2 /\ weight l2 = 10%Z.
Proof.
  destruct C07b_exB_prim_ok as [Hn [HP [U1 [U2 Hc]]]].
  destruct (@prim_iso C07b_q3 C12b_tri (relabel C07b_q3 C12b_tri) 0 [1; 2] Hn U1 U2 HP eq_refl Hc)
    as [l1 [l2 [k1 [k2 [E1 [E2 [_ [_ [W _]]]]]]]]].
  vm_compute in E1. injection E1 as <-. exists l2. split; [exact E2|]. rewrite <- W. reflexivity.
Qed.

(* ---- C. the flow network C15_net (six nodes, antiparallel and parallel edges, an edge of
   capacity zero) and its renumbering by C07b_q6 ---- *)

Example C07b_exC_ok :
  view_iso C07b_q6 C15_net (relabel C07b_q6 C15_net) /\
  FlowSpec.FOk C15_net /\ FlowSpec.FOk (relabel C07b_q6 C15_net).
Proof.
  split; [apply view_iso_b_ok; vm_compute; reflexivity|].
  split; apply fok_b_ok; vm_compute; reflexivity.
Qed.

Example C07b_exC_values :
  rmap fst (ford_fulkerson C15_net 0 5 1000%Z) = Ok 5%Z /\
  rmap fst (ford_fulkerson (relabel C07b_q6 C15_net) 2 3 77%Z) = Ok 5%Z /\
  rmap fst (ford_fulkerson C15_net 2 3 1000%Z) = Ok 1%Z /\
  rmap fst (ford_fulkerson (relabel C07b_q6 C15_net) 0 5 77%Z) = Ok 1%Z.
Proof. repeat match goal with |- _ /\ _ => split end; vm_compute; reflexivity. Qed.

(* the value on the renumbered network from the run on C15_net; and a cut read back *)
Example C07b_exC_applied :
  (exists tot fl, ford_fulkerson (relabel C07b_q6 C15_net) 2 3 77%Z = Ok (tot, fl) /\ tot = 5%Z /\
                  is_max_flow (fedges (relabel C07b_q6 C15_net)) (f_of fl) 2 3) /\
  cut_cap (fedges (relabel C07b_q6 C15_net)) (fun y => Nat.eqb y 2) =
  cut_cap (fedges C15_net) (fun x => Nat.eqb x 0).
Proof.
  destruct C07b_exC_ok as [H [F1 F2]]. split.
  - assert (Hs : In 0 (vnodes C15_net)) by (cbn; tauto). assert (Ht : In 5 (vnodes C15_net)) by (cbn; tauto).
    assert (Ne : 0 <> 5) by discriminate.
    destruct (ford_fulkerson_iso 1000%Z 77%Z H F1 F2 Hs Ht Ne) as [t1 [f1 [t2 [f2 [E1 [E2 [Et [_ [_ [_ [M2 _]]]]]]]]]]].
    vm_compute in E1. injection E1 as <- <-. exists t2, f2. split; [exact E2|]. split; [symmetry; exact Et|exact M2].
  - rewrite (cut_cap_iso (fun y => Nat.eqb y 2) H (fok_nodup _ F1) (fok_nodup _ F2)). vm_compute. reflexivity.
Qed.

(* ---- D. floyd_warshall on C07_ex and its compact renumbering by C07_q (C07) ---- *)

Example C07b_exD_ok :
  nodes_iso C07_q C07_ex (relabel C07_q C07_ex) /\ view_iso_erefs C07_q C07_ex (relabel C07_q C07_ex) /\
  FloydP.FOk C07_ex /\ FloydP.FOk (relabel C07_q C07_ex) /\
  vdirected C07_ex = vdirected (relabel C07_q C07_ex) /\
  (forall a b w, estep C07_ex a b w -> (- 10 <= w <= 10)%Z) /\
  (forall a b w, estep (relabel C07_q C07_ex) a b w -> (- 10 <= w <= 10)%Z).
Proof.
  assert (H : view_iso C07_q C07_ex (relabel C07_q C07_ex)) by (apply view_iso_b_ok; vm_compute; reflexivity).
  split; [apply (view_iso_nodes_iso H)|]. split; [apply view_iso_erefs_relabel|].
  split; [apply fw_fok_b_ok; vm_compute; reflexivity|]. split; [apply fw_fok_b_ok; vm_compute; reflexivity|].
  split; [reflexivity|].
  split; [apply (@estep_wbound_b_ok 10%Z C07_ex)|apply (@estep_wbound_b_ok 10%Z (relabel C07_q C07_ex))]; vm_compute; reflexivity.
Qed.

Example C07b_exD_values :
  rmap (option_map fst) (floyd_warshall (-100000)%Z 100000%Z C07_ex) =
    Ok (Some [[0; 2; 5; 9; 10]; [4; 0; 3; 7; 8]; [1; 3; 0; 4; 5];
              [100000; 100000; 100000; 0; 1]; [100000; 100000; 100000; 100000; 0]]%Z) /\
  rmap (option_map fst) (floyd_warshall (-100000)%Z 100000%Z (relabel C07_q C07_ex)) =
    Ok (Some [[0; 4; 3; 5; 1]; [100000; 0; 100000; 1; 100000]; [3; 7; 0; 8; 4];
              [100000; 100000; 100000; 0; 100000]; [5; 9; 2; 10; 0]]%Z).
Proof. split; vm_compute; reflexivity. Qed.

(* d[4][3] = 10 on the renumbered view (the images of 0 and 4) from the run on C07_ex *)
Example C07b_exD_applied :
  exists r d x, floyd_warshall (-100000)%Z 100000%Z (relabel C07_q C07_ex) = Ok r /\ r = Some (d, x) /\
                mg 0%Z d 4 3 = 10%Z /\ mg 0%Z d 1 4 = 100000%Z.
Proof.
  destruct C07b_exD_ok as [Hn [HP [F1 [F2 [Hd [W1 W2]]]]]].
  destruct (@fw_all_side_conditions (-100000)%Z 100000%Z C07_ex 10%Z F1) as [S1 [L1 X1]];
    [lia|exact W1|vm_compute; reflexivity|lia|vm_compute; discriminate|].
  destruct (@fw_all_side_conditions (-100000)%Z 100000%Z (relabel C07_q C07_ex) 10%Z F2) as [S2 [L2 X2]];
    [lia|exact W2|vm_compute; reflexivity|lia|vm_compute; discriminate|].
  destruct (floyd_warshall_iso Hn F1 F2 HP Hd S1 S2 L1 L2 X1 X2) as [r1 [r2 [E1 [E2 [X Y]]]]].
  vm_compute in E1. injection E1 as <-.
  destruct r2 as [[d x]|]; [|exfalso; match type of X with (?a = None <-> _) => assert (K : a = None) by (apply X; reflexivity) end; discriminate K].
  exists (Some (d, x)), d, x. split; [exact E2|]. split; [reflexivity|].
  assert (I0 : 0 < vnode_count C07_ex) by (vm_compute; lia).
  assert (I3 : 3 < vnode_count C07_ex) by (vm_compute; lia).
  assert (I4 : 4 < vnode_count C07_ex) by (vm_compute; lia).
  split.
  - change (mg 0%Z d 4 3) with (mg 0%Z d (C07_q 0) (C07_q 4)). rewrite <- (Y _ _ d x eq_refl eq_refl 0 4 I0 I4). reflexivity.
  - change (mg 0%Z d 1 4) with (mg 0%Z d (C07_q 3) (C07_q 0)). rewrite <- (Y _ _ d x eq_refl eq_refl 3 0 I3 I0). reflexivity.
Qed.

(* ---- E. transitive reduction and closure: the 6-node DAG topo_adj_ex (C20: 0->1, 1->2, the shortcut
   0->2, 2->3, 3->4, 1->5, 5->4) and a hand-written encoding of its renumbering by C07b_q6: other node
   order, other edge_references order, a hash set for a visit map, node_bound 8 ---- *)

Definition C07b_dag2 : view :=
  mkView true 8 None [3; 1; 5; 0; 4; 2]
    [(3, [(6,1,0%Z)]); (1, []); (5, [(4,1,0%Z)]); (0, [(3,5,0%Z)]); (4, [(1,0,0%Z); (5,3,0%Z)]);
     (2, [(0,4,0%Z); (2,0,0%Z)])]
    [(3, [(5,4,0%Z)]); (1, [(4,5,0%Z); (6,3,0%Z)]); (5, [(3,0,0%Z)]); (0, [(1,4,0%Z); (2,2,0%Z)]);
     (4, [(0,2,0%Z)]); (2, [])]
    7 7 [(6,3,1,0%Z); (5,4,3,0%Z); (4,5,1,0%Z); (3,0,5,0%Z); (2,2,0,0%Z); (1,4,0,0%Z); (0,2,4,0%Z)].

Example C07b_exE_ok :
  view_iso C07b_q6 topo_adj_ex C07b_dag2 /\
  Reach.VOk topo_adj_ex /\ Reach.VOk C07b_dag2 /\
  (forall a, In a (vnodes topo_adj_ex) -> a < vbound topo_adj_ex) /\
  (forall a, In a (vnodes C07b_dag2) -> a < vbound C07b_dag2) /\
  no_parallel_in topo_adj_ex /\ no_parallel_in C07b_dag2.
Proof.
  split; [apply view_iso_b_ok; vm_compute; reflexivity|].
  split; [apply vok_check_ok; vm_compute; reflexivity|].
  split; [apply vok_check_ok; vm_compute; reflexivity|].
  split; [apply below_bound_b_ok; vm_compute; reflexivity|].
  split; [apply below_bound_b_ok; vm_compute; reflexivity|].
  split; refine (no_parallel_inb_ok _ _); vm_compute; reflexivity.
Qed.

(* the two topological orders do not correspond (the second is the image of [0; 1; 2; 3; 5; 4]), and
   the outputs, which are over ranks, differ as matrices *)
Example C07b_exE_values :
  toposort topo_adj_ex = Ok (inr [0; 1; 5; 2; 3; 4]) /\
  toposort C07b_dag2 = Ok (inr [2; 4; 0; 5; 3; 1]) /\
  map C07b_q6 [0; 1; 5; 2; 3; 4] = [2; 4; 3; 0; 5; 1] /\
  rbind (dag_to_toposorted_adjacency_list topo_adj_ex [0; 1; 5; 2; 3; 4])
        (fun gr => dag_transitive_reduction_closure (fst gr)) =
    Ok ([[1]; [2; 3]; [5]; [4]; [5]; []], [[1; 2; 5; 3; 4]; [2; 5; 3; 4]; [5]; [4; 5]; [5]; []]) /\
  rbind (dag_to_toposorted_adjacency_list C07b_dag2 [2; 4; 0; 5; 3; 1])
        (fun gr => dag_transitive_reduction_closure (fst gr)) =
    Ok ([[1]; [2; 4]; [3]; [5]; [5]; []], [[1; 2; 3; 5; 4]; [2; 3; 5; 4]; [3; 5]; [5]; [5]; []]).
Proof. repeat match goal with |- _ /\ _ => split end; vm_compute; reflexivity. Qed.

(* read back on the nodes they agree: 0 -> 2 (ranks 0, 3; images 2, 0 at ranks 0, 2) is in the closure
   and not in the reduction of both; 1 -> 5 (ranks 1, 2; images 4, 3 at ranks 1, 4) is in both reductions *)
Example C07b_exE_applied :
  exists g1 rm1 tr1 tc1 g2 rm2 tr2 tc2,
    dag_to_toposorted_adjacency_list topo_adj_ex [0; 1; 5; 2; 3; 4] = Ok (g1, rm1) /\
    dag_transitive_reduction_closure g1 = Ok (tr1, tc1) /\
    dag_to_toposorted_adjacency_list C07b_dag2 [2; 4; 0; 5; 3; 1] = Ok (g2, rm2) /\
    dag_transitive_reduction_closure g2 = Ok (tr2, tc2) /\
    (In 3 (nth 0 tc1 []) <-> In 2 (nth 0 tc2 [])) /\ (In 3 (nth 0 tr1 []) <-> In 2 (nth 0 tr2 [])) /\
    (In 2 (nth 1 tr1 []) <-> In 4 (nth 1 tr2 [])).
Proof.
  destruct C07b_exE_ok as [H [V1 [V2 [B1 [B2 [P1 P2]]]]]].
  assert (E1 : toposort topo_adj_ex = Ok (inr [0; 1; 5; 2; 3; 4])) by (vm_compute; reflexivity).
  assert (E2 : toposort C07b_dag2 = Ok (inr [2; 4; 0; 5; 3; 1])) by (vm_compute; reflexivity).
  destruct (tred_closure_iso H V1 V2 B1 B2 P1 P2 E1 E2)
    as [g1 [rm1 [tr1 [tc1 [g2 [rm2 [tr2 [tc2 [A1 [T1 [A2 [T2 [_ X]]]]]]]]]]]]].
  exists g1, rm1, tr1, tc1, g2, rm2, tr2, tc2.
  split; [exact A1|]. split; [exact T1|]. split; [exact A2|]. split; [exact T2|].
  destruct (X 0 3 0 2 0 2 eq_refl eq_refl eq_refl eq_refl) as [Y1 Y2].
  destruct (X 1 2 1 4 1 5 eq_refl eq_refl eq_refl eq_refl) as [_ Y3].
  split; [exact Y1|]. split; [exact Y2|exact Y3].
Qed.

(* ------------------------------------------------------------------ *)
(* Pinned statements                                                    *)

Check C07b_dominance_corresponds : forall p v1 v2 r a b, view_iso p v1 v2 ->
  In r (vnodes v1) -> In a (vnodes v1) -> In b (vnodes v1) ->
  (dominates v1 r a b <-> dominates v2 (p r) (p a) (p b)) /\
  (idom v1 r a b <-> idom v2 (p r) (p a) (p b)).

Check C07b_simple_fast : forall p v1 v2 root dbg1 dbg2, view_iso p v1 v2 -> Reach.VOk v1 -> Reach.VOk v2 ->
  In root (vnodes v1) ->
  exists m1 m2, simple_fast v1 root dbg1 = Ok m1 /\ simple_fast v2 (p root) dbg2 = Ok m2 /\
    (forall x d, In x (vnodes v1) -> In d (vnodes v1) ->
       (assoc_nat m1 x = Some d <-> assoc_nat m2 (p x) = Some (p d))) /\
    (forall x, In x (vnodes v1) -> (assoc_nat m1 x = None <-> assoc_nat m2 (p x) = None)) /\
    (forall x d, assoc_nat m1 x = Some d -> In x (vnodes v1) /\ In d (vnodes v1)) /\
    (forall y d', assoc_nat m2 y = Some d' ->
       exists x d, In x (vnodes v1) /\ In d (vnodes v1) /\ y = p x /\ d' = p d) /\
    length m1 = length m2.

Check C07b_immediate_dominator : forall p v1 v2 root dbg1 dbg2 m1 m2, view_iso p v1 v2 ->
  Reach.VOk v1 -> Reach.VOk v2 -> In root (vnodes v1) ->
  simple_fast v1 root dbg1 = Ok m1 -> simple_fast v2 (p root) dbg2 = Ok m2 ->
  forall x d, In x (vnodes v1) -> In d (vnodes v1) ->
    (immediate_dominator root m1 x = Some d <-> immediate_dominator (p root) m2 (p x) = Some (p d)).

Check C07b_cut_nodes_correspond : forall p v1 v2 c, view_iso p v1 v2 -> In c (vnodes v1) ->
  (cut_node v1 c <-> cut_node v2 (p c)).

Check C07b_articulation_points : forall p v1 v2, view_iso p v1 v2 -> Reach.VOk v1 -> Reach.VOk v2 ->
  CutSpec.symmetric v1 -> CutSpec.symmetric v2 ->
  (forall n, In n (vnodes v1) -> n < vbound v1) -> (forall n, In n (vnodes v2) -> n < vbound v2) ->
  exists l1 l2, articulation_points v1 = Ok l1 /\ articulation_points v2 = Ok l2 /\
    NoDup l1 /\ NoDup l2 /\
    (forall c, In c (vnodes v1) -> (In c l1 <-> In (p c) l2)) /\
    (forall c, In c l1 -> In c (vnodes v1)) /\
    (forall y, In y l2 <-> In y (map p l1)) /\
    length l1 = length l2.

Check C07b_max_matching_size : forall p v1 v2, view_iso p v1 v2 ->
  max_matching_size (vnodes v1) (vadj v1) = max_matching_size (vnodes v2) (vadj v2).

Check C07b_maximum_matching : forall p v1 v2 dbg1 dbg2, view_iso p v1 v2 ->
  MatchSpec.MOk v1 -> MatchSpec.MOk v2 -> EidOk v1 -> EidOk v2 -> CapOk v1 -> CapOk v2 ->
  vsymmetric v1 -> vsymmetric v2 ->
  exists m1 n1 m2 n2, maximum_matching v1 dbg1 = Ok (m1, n1) /\ maximum_matching v2 dbg2 = Ok (m2, n2) /\
    n1 = n2 /\ length (m_edges m1) = length (m_edges m2) /\
    valid_matching v1 m1 n1 /\ valid_matching v2 m2 n2 /\
    is_maximum (vnodes v1) (vadj v1) (m_edges m1) /\ is_maximum (vnodes v2) (vadj v2) (m_edges m2).

Check C07b_greedy_matching : forall p v1 v2, view_iso p v1 v2 -> MatchSpec.MOk v1 -> MatchSpec.MOk v2 ->
  exists m1 n1 m2 n2, greedy_inner v1 = Ok (m1, n1) /\ greedy_inner v2 = Ok (m2, n2) /\
    valid_matching v1 m1 n1 /\ valid_matching v2 m2 n2 /\
    n1 <= max_matching_size (vnodes v1) (vadj v1) /\ n2 <= max_matching_size (vnodes v1) (vadj v1).

Check C07b_cut_cap : forall p v1 v2 U, view_iso p v1 v2 -> NoDup (vnodes v1) -> NoDup (vnodes v2) ->
  cut_cap (fedges v2) U = cut_cap (fedges v1) (fun x => U (p x)).

Check C07b_ford_fulkerson : forall p v1 v2 s t w1 w2, view_iso p v1 v2 -> FlowSpec.FOk v1 -> FlowSpec.FOk v2 ->
  In s (vnodes v1) -> In t (vnodes v1) -> s <> t ->
  exists tot1 fl1 tot2 fl2,
    ford_fulkerson v1 s t w1 = Ok (tot1, fl1) /\ ford_fulkerson v2 (p s) (p t) w2 = Ok (tot2, fl2) /\
    tot1 = tot2 /\
    tot1 = value (fedges v1) (f_of fl1) s /\ tot2 = value (fedges v2) (f_of fl2) (p s) /\
    is_max_flow (fedges v1) (f_of fl1) s t /\ is_max_flow (fedges v2) (f_of fl2) (p s) (p t) /\
    (forall U, is_cut U s t -> (tot1 <= cut_cap (fedges v1) U)%Z) /\
    (forall U, is_cut U (p s) (p t) -> (tot2 <= cut_cap (fedges v2) U)%Z).

Check C07b_kth_walk_cost_corresponds : forall p v1 v2 s x k d, view_iso p v1 v2 ->
  (forall a, NoDup (out_edges v1 a)) -> (forall a, NoDup (out_edges v2 a)) ->
  In s (vnodes v1) -> In x (vnodes v1) ->
  (kth_walk_cost v1 s x k d <-> kth_walk_cost v2 (p s) (p x) k d).

Check C07b_k_shortest_path : forall p v1 v2 s k, view_iso p v1 v2 ->
  Paths.VOk v1 -> Paths.VOk v2 -> nonneg v1 ->
  (forall a e, In e (out_edges v1 a) -> tgt e < vbound v1) ->
  (forall a e, In e (out_edges v2 a) -> tgt e < vbound v2) ->
  s < vbound v1 -> p s < vbound v2 ->
  (forall a, NoDup (out_edges v1 a)) -> (forall a, NoDup (out_edges v2 a)) ->
  In s (vnodes v1) ->
  exists m1 m2, k_shortest_path v1 (vbound v1) s None k = Ok m1 /\
                k_shortest_path v2 (vbound v2) (p s) None k = Ok m2 /\
    (forall x, In x (vnodes v1) -> sget m1 x = sget m2 (p x)) /\
    (forall y d, sget m2 y = Some d -> exists x, In x (vnodes v1) /\ y = p x /\ sget m1 x = Some d) /\
    (forall x d, sget m1 x = Some d -> In x (vnodes v1)).

Check C07b_spfa : forall p v1 v2 s kmin kmax Dg1 Dg2, view_iso p v1 v2 -> BOk v1 -> BOk v2 -> In s (vnodes v1) ->
  (forall a, length (out_edges v1 a) <= Dg1) -> (forall a, length (out_edges v2 a) <= Dg2) ->
  (forall w x, walk v1 s w x -> length w <= vbound v1 * vbound v1 * Dg1 -> (kmin <= walk_cost w)%Z) ->
  (forall w x, walk v2 (p s) w x -> length w <= vbound v2 * vbound v2 * Dg2 -> (kmin <= walk_cost w)%Z) ->
  (forall w x, walk v1 s w x -> NoDup (s :: map tgt w) -> (walk_cost w < kmax)%Z) ->
  (forall w x, walk v2 (p s) w x -> NoDup (p s :: map tgt w) -> (walk_cost w < kmax)%Z) ->
  exists r1 r2, spfa kmin kmax v1 s = Ok r1 /\ spfa kmin kmax v2 (p s) = Ok r2 /\
    (r1 = None <-> r2 = None) /\
    forall d1 q1 d2 q2, r1 = Some (d1, q1) -> r2 = Some (d2, q2) ->
      forall x, In x (vnodes v1) -> nth x d1 kmax = nth (p x) d2 kmax.

Check C07b_floyd_warshall : forall p v1 v2 kmin kmax, nodes_iso p v1 v2 -> FloydP.FOk v1 -> FloydP.FOk v2 ->
  view_iso_erefs p v1 v2 -> vdirected v1 = vdirected v2 ->
  (forall i c j, ewalk v1 i c j -> esimple i c -> (ecost c < kmax)%Z) ->
  (forall i c j, ewalk v2 i c j -> esimple i c -> (ecost c < kmax)%Z) ->
  (forall i c j, ewalk v1 i c j -> length c <= 2 * vnode_count v1 -> (kmin <= ecost c)%Z) ->
  (forall i c j, ewalk v2 i c j -> length c <= 2 * vnode_count v2 -> (kmin <= ecost c)%Z) ->
  (~ eneg_cycle v1 -> forall i c k d j, ewalk v1 i c k -> ewalk v1 k d j -> (kmin <= ecost c + ecost d)%Z) ->
  (~ eneg_cycle v2 -> forall i c k d j, ewalk v2 i c k -> ewalk v2 k d j -> (kmin <= ecost c + ecost d)%Z) ->
  exists r1 r2, floyd_warshall kmin kmax v1 = Ok r1 /\ floyd_warshall kmin kmax v2 = Ok r2 /\
    (r1 = None <-> r2 = None) /\
    forall d1 x1 d2 x2, r1 = Some (d1, x1) -> r2 = Some (d2, x2) ->
      forall i j, i < vnode_count v1 -> j < vnode_count v1 ->
        mg 0%Z d1 i j = mg 0%Z d2 (p i) (p j).

Check C07b_floyd_warshall_undirected : forall p v1 v2 kmin kmax, nodes_iso p v1 v2 ->
  FloydP.FOk v1 -> FloydP.FOk v2 ->
  view_iso_erefs_u p v1 v2 -> vdirected v1 = false -> vdirected v2 = false ->
  (forall i c j, ewalk v1 i c j -> esimple i c -> (ecost c < kmax)%Z) ->
  (forall i c j, ewalk v2 i c j -> esimple i c -> (ecost c < kmax)%Z) ->
  (forall i c j, ewalk v1 i c j -> length c <= 2 * vnode_count v1 -> (kmin <= ecost c)%Z) ->
  (forall i c j, ewalk v2 i c j -> length c <= 2 * vnode_count v2 -> (kmin <= ecost c)%Z) ->
  (~ eneg_cycle v1 -> forall i c k d j, ewalk v1 i c k -> ewalk v1 k d j -> (kmin <= ecost c + ecost d)%Z) ->
  (~ eneg_cycle v2 -> forall i c k d j, ewalk v2 i c k -> ewalk v2 k d j -> (kmin <= ecost c + ecost d)%Z) ->
  exists r1 r2, floyd_warshall kmin kmax v1 = Ok r1 /\ floyd_warshall kmin kmax v2 = Ok r2 /\
    (r1 = None <-> r2 = None) /\
    forall d1 x1 d2 x2, r1 = Some (d1, x1) -> r2 = Some (d2, x2) ->
      forall i j, i < vnode_count v1 -> j < vnode_count v1 ->
        mg 0%Z d1 i j = mg 0%Z d2 (p i) (p j).

Check C07b_find_negative_cycle : forall p v1 v2 s, view_iso p v1 v2 -> BOk v1 -> BOk v2 -> In s (vnodes v1) ->
  (forall a, In a (vnodes v1) -> Paths.in_cap v1 a) -> (forall a, In a (vnodes v2) -> Paths.in_cap v2 a) ->
  exists r1 r2, find_negative_cycle v1 s = Ok r1 /\ find_negative_cycle v2 (p s) = Ok r2 /\
    (r1 = None <-> r2 = None) /\
    (forall l1, r1 = Some l1 -> exists a c, walk v1 a c a /\ map tgt c = l1 /\ (walk_cost c < 0)%Z) /\
    (forall l2, r2 = Some l2 -> exists a c, walk v2 a c a /\ map tgt c = l2 /\ (walk_cost c < 0)%Z).

Check C07b_tarjan : forall p v1 v2 dbg1 dbg2, view_iso p v1 v2 -> Reach.VOk v1 -> Reach.VOk v2 ->
  (forall n, In n (vnodes v1) -> n < vbound v1) -> (forall n, In n (vnodes v2) -> n < vbound v2) ->
  (N.of_nat (length (vnodes v1)) < USIZE_MAX)%N -> (N.of_nat (length (vnodes v2)) < USIZE_MAX)%N ->
  exists ls1 ls2, tarjan_scc v1 dbg1 = Ok ls1 /\ tarjan_scc v2 dbg2 = Ok ls2 /\
    classes_correspond p ls1 ls2 /\
    Forall (scc_class v1) ls1 /\ Forall (scc_class v2) ls2 /\
    no_later_reach v1 ls1 /\ no_later_reach v2 ls2.

Check C07b_tarjan_kosaraju : forall p v1 v2 dbg1, view_iso p v1 v2 -> Reach.VOk v1 -> Reach.VOk v2 ->
  (forall n, In n (vnodes v1) -> n < vbound v1) ->
  (N.of_nat (length (vnodes v1)) < USIZE_MAX)%N ->
  exists ls1 ls2, tarjan_scc v1 dbg1 = Ok ls1 /\ kosaraju_scc v2 = Ok ls2 /\
    classes_correspond p ls1 ls2.

Check C07b_tarjan_component_index : forall p v1 v2 dbg1 dbg2 t1 out1 t2 out2, view_iso p v1 v2 ->
  Reach.VOk v1 -> Reach.VOk v2 ->
  (forall n, In n (vnodes v1) -> n < vbound v1) -> (forall n, In n (vnodes v2) -> n < vbound v2) ->
  (N.of_nat (length (vnodes v1)) < USIZE_MAX)%N -> (N.of_nat (length (vnodes v2)) < USIZE_MAX)%N ->
  tarjan_run v1 dbg1 = Ok (t1, out1) -> tarjan_run v2 dbg2 = Ok (t2, out2) ->
  forall x y, In x (vnodes v1) -> In y (vnodes v1) ->
    (node_component_index t1 dbg1 x = node_component_index t1 dbg1 y <->
     node_component_index t2 dbg2 (p x) = node_component_index t2 dbg2 (p y)).

Check C07b_goal_dist_corresponds : forall p v1 v2 (g1 g2 : nat -> bool) s, view_iso p v1 v2 ->
  In s (vnodes v1) -> (forall x, In x (vnodes v1) -> g1 x = g2 (p x)) ->
  (forall c, goal_dist v1 g1 s c <-> goal_dist v2 g2 (p s) c) /\
  (goal_reachable v1 g1 s <-> goal_reachable v2 g2 (p s)).

Check C07b_astar_run : forall p v1 v2 s (g1 g2 : nat -> bool) est1 est2 f1 f2 r1 r2,
  view_iso p v1 v2 -> Paths.VOk v1 -> Paths.VOk v2 -> nonneg v1 ->
  In s (vnodes v1) -> Paths.in_cap v1 s -> Paths.in_cap v2 (p s) ->
  (forall x, In x (vnodes v1) -> g1 x = g2 (p x)) ->
  (forall x, g1 x = true -> (0 <= est1 x)%Z) -> (forall y, g2 y = true -> (0 <= est2 y)%Z) ->
  admissible v1 g1 est1 -> admissible v2 g2 est2 ->
  astar_run f1 v1 s g1 est1 = Ok r1 -> astar_run f2 v2 (p s) g2 est2 = Ok r2 ->
  (r1 = None <-> r2 = None) /\
  (forall c1 q1 c2 q2, r1 = Some (c1, q1) -> r2 = Some (c2, q2) ->
     c1 = c2 /\ goal_dist v1 g1 s c1 /\ goal_dist v2 g2 (p s) c2 /\
     (exists t w, g1 t = true /\ walk v1 s w t /\ walk_nodes s w = q1 /\ walk_cost w = c1) /\
     (exists t w, g2 t = true /\ walk v2 (p s) w t /\ walk_nodes (p s) w = q2 /\ walk_cost w = c2)).

Check C07b_astar_run_total : forall p v1 v2 s (g1 g2 : nat -> bool) est1 est2 f1 f2,
  view_iso p v1 v2 -> Paths.VOk v1 -> Paths.VOk v2 -> nonneg v1 ->
  In s (vnodes v1) -> Paths.in_cap v1 s -> Paths.in_cap v2 (p s) ->
  (forall x, In x (vnodes v1) -> g1 x = g2 (p x)) ->
  (forall x, g1 x = true -> (0 <= est1 x)%Z) -> (forall y, g2 y = true -> (0 <= est2 y)%Z) ->
  admissible v1 g1 est1 -> admissible v2 g2 est2 ->
  astar_fuel_bound v1 s <= f1 -> astar_fuel_bound v2 (p s) <= f2 ->
  exists r1 r2, astar_run f1 v1 s g1 est1 = Ok r1 /\ astar_run f2 v2 (p s) g2 est2 = Ok r2 /\
    (r1 = None <-> r2 = None) /\
    (forall c1 q1 c2 q2, r1 = Some (c1, q1) -> r2 = Some (c2, q2) -> c1 = c2).

Check C07b_astar_partial : forall p v1 v2 s (g1 g2 : nat -> bool) est1 est2 r1 r2,
  view_iso p v1 v2 -> Paths.VOk v1 -> Paths.VOk v2 -> nonneg v1 ->
  In s (vnodes v1) -> Paths.in_cap v1 s -> Paths.in_cap v2 (p s) ->
  (forall x, In x (vnodes v1) -> g1 x = g2 (p x)) ->
  (forall x, g1 x = true -> (0 <= est1 x)%Z) -> (forall y, g2 y = true -> (0 <= est2 y)%Z) ->
  admissible v1 g1 est1 -> admissible v2 g2 est2 ->
  astar v1 s g1 est1 = Ok r1 -> astar v2 (p s) g2 est2 = Ok r2 ->
  (r1 = None <-> r2 = None) /\
  (forall c1 q1 c2 q2, r1 = Some (c1, q1) -> r2 = Some (c2, q2) -> c1 = c2).

Check C07b_prim : forall p v1 v2 n0 rest, nodes_iso p v1 v2 -> UView v1 -> UView v2 ->
  view_iso_erefs_u p v1 v2 -> vnodes v1 = n0 :: rest ->
  (forall x, In x (vnodes v1) -> uconn (ends (gedges v1)) n0 x) ->
  exists l1 l2 k1 k2, prim v1 = Ok l1 /\ prim v2 = Ok l2 /\ kruskal v1 = Ok k1 /\ kruskal v2 = Ok k2 /\
    weight l1 = weight l2 /\ weight l1 = weight k1 /\ weight l2 = weight k2.

Check C07b_maximal_cliques_sets : forall p v1 v2, view_iso p v1 v2 ->
  (forall c1, In c1 (maximal_cliques_ref v1) ->
     exists c2, In c2 (maximal_cliques_ref v2) /\ ViewIso.same_set (map p c1) c2) /\
  (forall c2, In c2 (maximal_cliques_ref v2) ->
     exists c1, In c1 (maximal_cliques_ref v1) /\ ViewIso.same_set (map p c1) c2).

Check C07b_maximal_cliques : forall p v1 v2, view_iso p v1 v2 -> NoDup (vnodes v1) -> NoDup (vnodes v2) ->
  classes_correspond p (maximal_cliques_ref v1) (maximal_cliques_ref v2).

Check C07b_vplus_corresponds : forall p v1 v2 a b, view_iso p v1 v2 -> In a (vnodes v1) -> In b (vnodes v1) ->
  (vplus v1 a b <-> vplus v2 (p a) (p b)).

Check C07b_tred_closure : forall p v1 v2 o1 o2, view_iso p v1 v2 -> Reach.VOk v1 -> Reach.VOk v2 ->
  (forall a, In a (vnodes v1) -> a < vbound v1) -> (forall a, In a (vnodes v2) -> a < vbound v2) ->
  no_parallel_in v1 -> no_parallel_in v2 ->
  toposort v1 = Ok (inr o1) -> toposort v2 = Ok (inr o2) ->
  exists g1 rm1 tr1 tc1 g2 rm2 tr2 tc2,
    dag_to_toposorted_adjacency_list v1 o1 = Ok (g1, rm1) /\
    dag_transitive_reduction_closure g1 = Ok (tr1, tc1) /\
    dag_to_toposorted_adjacency_list v2 o2 = Ok (g2, rm2) /\
    dag_transitive_reduction_closure g2 = Ok (tr2, tc2) /\
    (forall i j a b, nth_error o1 i = Some a -> nth_error o1 j = Some b ->
       (In j (nth i tc1 []) <-> vplus v1 a b) /\
       (In j (nth i tr1 []) <-> (step v1 a b /\ ~ exists c, vplus v1 a c /\ vplus v1 c b))) /\
    (forall i j i' j' a b,
       nth_error o1 i = Some a -> nth_error o1 j = Some b ->
       nth_error o2 i' = Some (p a) -> nth_error o2 j' = Some (p b) ->
       (In j (nth i tc1 []) <-> In j' (nth i' tc2 [])) /\
       (In j (nth i tr1 []) <-> In j' (nth i' tr2 []))).

Check C07b_all_simple_paths : forall p v1 v2 from to min_i max_i dbg1 dbg2 ps1 ps2, view_iso p v1 v2 ->
  NoDup (vnodes v1) -> NoDup (vnodes v2) ->
  In from (vnodes v1) -> In to (vnodes v1) -> from <> to ->
  all_simple_paths v1 from to min_i max_i dbg1 = Ok ps1 ->
  all_simple_paths v2 (p from) (p to) min_i max_i dbg2 = Ok ps2 ->
  (forall l, In l ps1 -> In (map p l) ps2) /\
  (forall l', In l' ps2 <-> exists l, In l ps1 /\ l' = map p l) /\
  (no_parallel v1 -> no_parallel v2 -> length ps1 = length ps2).

Check C07b_no_panic_transfer : forall p v1 v2, view_iso p v1 v2 ->
  (Reach.VOk v1 -> Reach.VOk v2 ->
     (forall root d1 d2, In root (vnodes v1) ->
        exists m1 m2, simple_fast v1 root d1 = Ok m1 /\ simple_fast v2 (p root) d2 = Ok m2) /\
     (CutSpec.symmetric v1 -> CutSpec.symmetric v2 ->
      (forall n, In n (vnodes v1) -> n < vbound v1) -> (forall n, In n (vnodes v2) -> n < vbound v2) ->
        exists l1 l2, articulation_points v1 = Ok l1 /\ articulation_points v2 = Ok l2) /\
     ((forall n, In n (vnodes v1) -> n < vbound v1) -> (forall n, In n (vnodes v2) -> n < vbound v2) ->
      (N.of_nat (length (vnodes v1)) < USIZE_MAX)%N -> (N.of_nat (length (vnodes v2)) < USIZE_MAX)%N ->
      forall d1 d2, exists t1 o1 t2 o2,
        tarjan_run v1 d1 = Ok (t1, o1) /\ tarjan_run v2 d2 = Ok (t2, o2) /\
        forall x, In x (vnodes v1) -> exists i1 i2,
          node_component_index t1 d1 x = Ok i1 /\ node_component_index t2 d2 (p x) = Ok i2) /\
     ((forall n, In n (vnodes v1) -> n < vbound v1) -> (forall n, In n (vnodes v2) -> n < vbound v2) ->
      no_parallel_in v1 -> no_parallel_in v2 ->
      forall o1 o2, toposort v1 = Ok (inr o1) -> toposort v2 = Ok (inr o2) ->
        exists g1 rm1 r1 g2 rm2 r2,
          dag_to_toposorted_adjacency_list v1 o1 = Ok (g1, rm1) /\ dag_transitive_reduction_closure g1 = Ok r1 /\
          dag_to_toposorted_adjacency_list v2 o2 = Ok (g2, rm2) /\ dag_transitive_reduction_closure g2 = Ok r2)) /\
  (Paths.VOk v1 -> Paths.VOk v2 -> nonneg v1 ->
     (forall s (g1 g2 : nat -> bool) (e1 e2 : nat -> Z) f1 f2,
        astar_fuel_bound v1 s <= f1 -> astar_fuel_bound v2 (p s) <= f2 ->
        exists r1 r2, astar_run f1 v1 s g1 e1 = Ok r1 /\ astar_run f2 v2 (p s) g2 e2 = Ok r2) /\
     ((forall a e, In e (out_edges v1 a) -> tgt e < vbound v1) ->
      (forall a e, In e (out_edges v2 a) -> tgt e < vbound v2) ->
      (forall a, NoDup (out_edges v1 a)) -> (forall a, NoDup (out_edges v2 a)) ->
      forall s k, s < vbound v1 -> p s < vbound v2 ->
        exists m1 m2, k_shortest_path v1 (vbound v1) s None k = Ok m1 /\
                      k_shortest_path v2 (vbound v2) (p s) None k = Ok m2)) /\
  (BOk v1 -> BOk v2 ->
     (forall s kmin kmax Dg1 Dg2, In s (vnodes v1) ->
        (forall a, length (out_edges v1 a) <= Dg1) -> (forall a, length (out_edges v2 a) <= Dg2) ->
        (forall w x, walk v1 s w x -> length w <= vbound v1 * vbound v1 * Dg1 -> (kmin <= walk_cost w)%Z) ->
        (forall w x, walk v2 (p s) w x -> length w <= vbound v2 * vbound v2 * Dg2 -> (kmin <= walk_cost w)%Z) ->
        (forall w x, walk v1 s w x -> NoDup (s :: map tgt w) -> (walk_cost w < kmax)%Z) ->
        (forall w x, walk v2 (p s) w x -> NoDup (p s :: map tgt w) -> (walk_cost w < kmax)%Z) ->
        exists r1 r2, spfa kmin kmax v1 s = Ok r1 /\ spfa kmin kmax v2 (p s) = Ok r2) /\
     ((forall a, In a (vnodes v1) -> Paths.in_cap v1 a) -> (forall a, In a (vnodes v2) -> Paths.in_cap v2 a) ->
      forall s, In s (vnodes v1) ->
        exists r1 r2, find_negative_cycle v1 s = Ok r1 /\ find_negative_cycle v2 (p s) = Ok r2)) /\
  (FloydP.FOk v1 -> FloydP.FOk v2 -> forall kmin kmax, (0 <= kmax)%Z ->
     exists r1 r2, floyd_warshall kmin kmax v1 = Ok r1 /\ floyd_warshall kmin kmax v2 = Ok r2) /\
  (POk v1 -> POk v2 -> exists l1 l2, prim v1 = Ok l1 /\ prim v2 = Ok l2) /\
  (MatchSpec.MOk v1 -> MatchSpec.MOk v2 ->
     (exists r1 r2, greedy_inner v1 = Ok r1 /\ greedy_inner v2 = Ok r2) /\
     (EidOk v1 -> EidOk v2 -> CapOk v1 -> CapOk v2 -> forall d1 d2,
        exists r1 r2, maximum_matching v1 d1 = Ok r1 /\ maximum_matching v2 d2 = Ok r2)) /\
  (FlowSpec.FOk v1 -> FlowSpec.FOk v2 -> forall s t w1 w2, In s (vnodes v1) -> In t (vnodes v1) -> s <> t ->
     exists r1 r2, ford_fulkerson v1 s t w1 = Ok r1 /\ ford_fulkerson v2 (p s) (p t) w2 = Ok r2).

Print Assumptions C07b_dominance_corresponds.
Print Assumptions C07b_simple_fast.
Print Assumptions C07b_immediate_dominator.
Print Assumptions C07b_cut_nodes_correspond.
Print Assumptions C07b_articulation_points.
Print Assumptions C07b_max_matching_size.
Print Assumptions C07b_maximum_matching.
Print Assumptions C07b_greedy_matching.
Print Assumptions C07b_cut_cap.
Print Assumptions C07b_ford_fulkerson.
Print Assumptions C07b_kth_walk_cost_corresponds.
Print Assumptions C07b_k_shortest_path.
Print Assumptions C07b_spfa.
Print Assumptions C07b_floyd_warshall.
Print Assumptions C07b_floyd_warshall_undirected.
Print Assumptions C07b_find_negative_cycle.
Print Assumptions C07b_tarjan.
Print Assumptions C07b_tarjan_kosaraju.
Print Assumptions C07b_tarjan_component_index.
Print Assumptions C07b_goal_dist_corresponds.
Print Assumptions C07b_astar_run.
Print Assumptions C07b_astar_run_total.
Print Assumptions C07b_astar_partial.
Print Assumptions C07b_prim.
Print Assumptions C07b_maximal_cliques_sets.
Print Assumptions C07b_maximal_cliques.
Print Assumptions C07b_vplus_corresponds.
Print Assumptions C07b_tred_closure.
Print Assumptions C07b_all_simple_paths.
Print Assumptions C07b_no_panic_transfer.
Print Assumptions C07b_exA_ok.
Print Assumptions C07b_est_admissible.
Print Assumptions C07b_exA_values.
Print Assumptions C07b_exA_spfa_hyps.
Print Assumptions C07b_exA_applied.
Print Assumptions C07b_exB_matching_ok.
Print Assumptions C07b_exB_matching_values.
Print Assumptions C07b_greedy_sizes_differ.
Print Assumptions C07b_exB_matching_applied.
Print Assumptions C07b_exB_cut_ok.
Print Assumptions C07b_exB_cut_values.
Print Assumptions C07b_exB_cut_applied.
Print Assumptions C07b_exB_cliques_ok.
Print Assumptions C07b_exB_cliques_values.
Print Assumptions C07b_exB_cliques_applied.
Print Assumptions C07b_exB_prim_ok.
Print Assumptions C07b_exB_prim_values.
Print Assumptions C07b_exB_prim_applied.
Print Assumptions C07b_exC_ok.
Print Assumptions C07b_exC_values.
Print Assumptions C07b_exC_applied.
Print Assumptions C07b_exD_ok.
Print Assumptions C07b_exD_values.
Print Assumptions C07b_exD_applied.
Print Assumptions C07b_exE_ok.
Print Assumptions C07b_exE_values.
Print Assumptions C07b_exE_applied.
