(* C11b — spfa (bounded integer costs, max() = unreachable, overflowing additions skipped) and the
   remaining floyd_warshall properties.
   This file holds only the property theorems (closed by [exact]), their pinned statements
   ([Check]) and their assumptions. *)
From Coq Require Import Lia ZArith List.
From PG Require Import Lib.Io Model.View Model.Traversal Model.ShortestM Spec.Paths Spec.EPaths
  Proofs.BellmanFordP Proofs.FloydP Proofs.SpfaP Proofs.FloydCompleteP.
Open Scope Z_scope.

(* ------------------------------------------------------------------ spfa *)
(* S1, with bounds on simple paths only (every path from the source that repeats no node costs
   at least min() and less than max()): spfa never panics (its fuel is adequate), Err(NegativeCycle)
   (= Ok None) is sound, and when no negative cycle is reachable the answer is exact:
   true distance at every reachable node, max() at the others, pred[s] = None, no predecessor at
   unreachable nodes, and a tight entry from the predecessor at every other reachable node.
   The converse direction (a reachable negative cycle is reported) does NOT hold under these
   bounds: see C11b_spfa_undetected_cycle below. *)
Theorem C11b_spfa_partial : forall kmin kmax v s, BOk v -> (s < vbound v)%nat ->
  (forall w x, walk v s w x -> NoDup (s :: map tgt w) -> kmin <= walk_cost w < kmax) ->
  exists r, spfa kmin kmax v s = Ok r /\
    (r = None -> neg_cycle_reachable v s) /\
    (~ neg_cycle_reachable v s -> exists dist pred, r = Some (dist, pred) /\
       length dist = vbound v /\ length pred = vbound v /\
       (forall x, reachable v s x -> is_dist v s x (nth x dist kmax) /\ nth x dist kmax < kmax) /\
       (forall x, ~ reachable v s x -> nth x dist kmax = kmax /\ nth x pred None = None) /\
       nth s pred None = None /\
       (forall x, reachable v s x -> x <> s ->
          exists u e, nth x pred None = Some u /\ In e (out_edges v u) /\ tgt e = x /\ reachable v s u /\
                      nth u dist kmax + ewgt e = nth x dist kmax)).
Proof. intros kmin kmax v s HB Hs H; exact (spfa_simple_bounds kmin kmax v s HB Hs H). Qed.

(* S1 + S2: when moreover no walk of at most node_bound^2 * Dg entries from the source costs less
   than min() (Dg bounds the length of the out-lists), spfa answers Err exactly when a negative
   cycle is reachable, and the Ok answer is exact. *)
Theorem C11b_spfa : forall kmin kmax v s Dg, BOk v -> (s < vbound v)%nat ->
  (forall a, (length (out_edges v a) <= Dg)%nat) ->
  (forall w x, walk v s w x -> (length w <= vbound v * vbound v * Dg)%nat -> kmin <= walk_cost w) ->
  (forall w x, walk v s w x -> NoDup (s :: map tgt w) -> walk_cost w < kmax) ->
  exists r, spfa kmin kmax v s = Ok r /\
    match r with
    | None => neg_cycle_reachable v s
    | Some (dist, pred) =>
        ~ neg_cycle_reachable v s /\
        length dist = vbound v /\ length pred = vbound v /\
        (forall x, reachable v s x -> is_dist v s x (nth x dist kmax) /\ nth x dist kmax < kmax) /\
        (forall x, ~ reachable v s x -> nth x dist kmax = kmax /\ nth x pred None = None) /\
        nth s pred None = None /\
        (forall x, reachable v s x -> x <> s ->
           exists u e, nth x pred None = Some u /\ In e (out_edges v u) /\ tgt e = x /\ reachable v s u /\
                       nth u dist kmax + ewgt e = nth x dist kmax)
    end.
Proof. intros kmin kmax v s Dg HB Hs Hd HL HU; exact (spfa_full kmin kmax v s Dg HB Hs Hd HL HU). Qed.

(* S2: a reachable negative cycle is always detected (same side conditions) *)
Theorem C11b_spfa_complete : forall kmin kmax v s Dg, BOk v -> (s < vbound v)%nat ->
  (forall a, (length (out_edges v a) <= Dg)%nat) ->
  (forall w x, walk v s w x -> (length w <= vbound v * vbound v * Dg)%nat -> kmin <= walk_cost w) ->
  (forall w x, walk v s w x -> NoDup (s :: map tgt w) -> walk_cost w < kmax) ->
  (spfa kmin kmax v s = Ok None <-> neg_cycle_reachable v s).
Proof. intros kmin kmax v s Dg HB Hs Hd HL HU; exact (spfa_err_iff kmin kmax v s Dg HB Hs Hd HL HU). Qed.

(* the side conditions follow from a bound M on the weights *)
Theorem C11b_spfa_side_conditions : forall kmin kmax v s M Dg, BOk v -> (s < vbound v)%nat -> 0 <= M ->
  (forall a e, In e (out_edges v a) -> - M <= ewgt e <= M) ->
  Z.of_nat (vbound v) * M < kmax ->
  (kmin <= - (Z.of_nat (vbound v) * M) ->
     forall w x, walk v s w x -> NoDup (s :: map tgt w) -> kmin <= walk_cost w < kmax) /\
  (kmin <= - (Z.of_nat (vbound v * vbound v * Dg) * M) ->
     (forall w x, walk v s w x -> (length w <= vbound v * vbound v * Dg)%nat -> kmin <= walk_cost w) /\
     (forall w x, walk v s w x -> NoDup (s :: map tgt w) -> walk_cost w < kmax)).
Proof.
  intros kmin kmax v s M Dg HB Hs HM Hw Hmax; exact (spfa_bounds_from_weights kmin kmax v s M Dg HB Hs HM Hw Hmax).
Qed.

(* ------------------------------------------------------------------ floyd_warshall *)
(* F1: when simple paths stay below max() and no walk of at most 2 * node_count references goes
   below min(), every negative cycle is reported (a negative self-loop and a negative 2-cycle in
   particular).  The bound on walks cannot be dropped: see C11b_fw_undetected_cycle. *)
Theorem C11b_fw_complete : forall kmin kmax v, FOk v ->
  (forall i p j, ewalk v i p j -> esimple i p -> ecost p < kmax) ->
  (forall i p j, ewalk v i p j -> (length p <= 2 * vnode_count v)%nat -> kmin <= ecost p) ->
  eneg_cycle v -> floyd_warshall kmin kmax v = Ok None.
Proof. intros kmin kmax v HF H1 H2 Hn; exact (fw_complete kmin kmax v HF H1 H2 Hn). Qed.

Theorem C11b_fw_err_iff : forall kmin kmax v, FOk v ->
  (forall i p j, ewalk v i p j -> esimple i p -> ecost p < kmax) ->
  (forall i p j, ewalk v i p j -> (length p <= 2 * vnode_count v)%nat -> kmin <= ecost p) ->
  (floyd_warshall kmin kmax v = Ok None <-> eneg_cycle v).
Proof. intros kmin kmax v HF H1 H2; exact (fw_err_iff kmin kmax v HF H1 H2). Qed.

(* the same numeric conditions as C11_fw_side_conditions, without assuming the absence of negative cycles *)
Theorem C11b_fw_complete_side_conditions : forall kmin kmax v M, FOk v -> 0 <= M ->
  (forall a b w, estep v a b w -> - M <= w <= M) ->
  Z.of_nat (vnode_count v) * M < kmax -> 0 < kmax -> kmin <= - (2 * (Z.of_nat (vnode_count v) * M)) ->
  (forall i p j, ewalk v i p j -> esimple i p -> ecost p < kmax) /\
  (forall i p j, ewalk v i p j -> (length p <= 2 * vnode_count v)%nat -> kmin <= ecost p).
Proof. intros kmin kmax v M HF HM Hw H1 H2 H3; exact (fw_complete_bounds kmin kmax v M HF HM Hw H1 H2 H3). Qed.

(* F2: under the hypotheses of C11_fw_exact the predecessor matrix of floyd_warshall_path is correct:
   prev[i][i] = Some i (as documented in the source), None at unreachable pairs, and at every other
   reachable pair a vertex k with a reference k -> j such that d[i][k] + w = d[i][j]; following the
   predecessors from j back to i (fw_chain, fuel node_count) ends and spells a simple path i -> j
   whose cost is d[i][j], the distance. *)
Theorem C11b_fw_path : forall kmin kmax v, FOk v -> ~ eneg_cycle v ->
  (forall i p j, ewalk v i p j -> esimple i p -> ecost p < kmax) ->
  (forall i p k q j, ewalk v i p k -> ewalk v k q j -> kmin <= ecost p + ecost q) ->
  exists d p, floyd_warshall kmin kmax v = Ok (Some (d, p)) /\
    Shape (vnode_count v) d /\ Shape (vnode_count v) p /\
    (forall i j, (i < vnode_count v)%nat -> (j < vnode_count v)%nat ->
       (mg 0 d i j = kmax <-> ~ ereachable v i j) /\ (ereachable v i j -> edist v i j (mg 0 d i j))) /\
    (forall i, (i < vnode_count v)%nat -> mg None p i i = Some i) /\
    (forall i j, (i < vnode_count v)%nat -> (j < vnode_count v)%nat -> i <> j -> ~ ereachable v i j ->
       mg None p i j = None) /\
    (forall i j, (i < vnode_count v)%nat -> (j < vnode_count v)%nat -> i <> j -> ereachable v i j ->
       exists m w, mg None p i j = Some m /\ (m < vnode_count v)%nat /\ estep v m j w /\ ereachable v i m /\
                   mg 0 d i m + w = mg 0 d i j) /\
    (forall i j, (i < vnode_count v)%nat -> (j < vnode_count v)%nat -> ereachable v i j ->
       exists l q, fw_chain (vnode_count v) p i j = Some l /\ ewalk v i q j /\ map fst q = l /\ esimple i q /\
                   ecost q = mg 0 d i j).
Proof. intros kmin kmax v HF HN H1 H2; exact (fw_path_spec kmin kmax v HF HN H1 H2). Qed.

Ltac zc := vm_compute; first [reflexivity | (intro; discriminate) | discriminate].

(* ------------------------------------------------------------------ non-vacuity: spfa *)
(* negative entries (2 -> 1 costs -3, 4 -> 0 costs -7), a zero-cost entry, a non-negative cycle
   1 -> 3 -> 1, node 4 unreachable from 0 ... *)
Definition C11b_view : view :=
  mkView true 5 (Some 5%nat) [0; 1; 2; 3; 4]%nat
    [(0%nat, [(0%nat, 1%nat, 4); (1%nat, 2%nat, 5)]); (1%nat, [(2%nat, 3%nat, 0)]);
     (2%nat, [(3%nat, 1%nat, -3)]); (3%nat, [(4%nat, 1%nat, 1)]); (4%nat, [(5%nat, 0%nat, -7)])]
    [] 6 6 [].
(* ... the negative cycle 1 -> 2 -> 1 reachable from 0 ... *)
Definition C11b_view_neg : view :=
  mkView true 4 (Some 4%nat) [0; 1; 2; 3]%nat
    [(0%nat, [(0%nat, 1%nat, 1)]); (1%nat, [(1%nat, 2%nat, -2)]); (2%nat, [(2%nat, 1%nat, 1)]);
     (3%nat, [(3%nat, 0%nat, 1)])]
    [] 4 4 [].
(* ... and the cycle 0 -> 1 -> 2 -> 0 with three equal weights *)
Definition C11b_cyc3 (w : Z) : view :=
  mkView true 3 (Some 3%nat) [0; 1; 2]%nat
    [(0%nat, [(0%nat, 1%nat, w)]); (1%nat, [(1%nat, 2%nat, w)]); (2%nat, [(2%nat, 0%nat, w)])]
    [] 3 3 [(0%nat, 0%nat, 1%nat, w); (1%nat, 1%nat, 2%nat, w); (2%nat, 2%nat, 0%nat, w)].

Example C11b_spfa_nonvacuous :
  spfa I32MIN I32MAX C11b_view 0 =
    Ok (Some ([0; 2; 5; 2; 2147483647], [None; Some 2%nat; Some 0%nat; Some 1%nat; None])) /\
  spfa I32MIN I32MAX C11b_view 4 =
    Ok (Some ([-7; -5; -2; -5; 0], [Some 4%nat; Some 2%nat; Some 0%nat; Some 1%nat; None])) /\
  spfa I32MIN I32MAX C11b_view_neg 0 = Ok None /\
  spfa I32MIN I32MAX (C11b_cyc3 (-7)) 0 = Ok None.
Proof. vm_compute. repeat split; reflexivity. Qed.

(* the hypotheses of C11b_spfa hold for these views with the i32 bounds (weights within 7, out-lists of
   at most 2 entries) *)
Example C11b_spfa_hyps :
  (BOk C11b_view /\ (0 < vbound C11b_view)%nat /\
   (forall a, (length (out_edges C11b_view a) <= 2)%nat) /\
   (forall w x, walk C11b_view 0 w x -> (length w <= vbound C11b_view * vbound C11b_view * 2)%nat ->
                I32MIN <= walk_cost w) /\
   (forall w x, walk C11b_view 0 w x -> NoDup (0%nat :: map tgt w) -> walk_cost w < I32MAX)) /\
  (BOk C11b_view_neg /\ (0 < vbound C11b_view_neg)%nat /\
   (forall a, (length (out_edges C11b_view_neg a) <= 2)%nat) /\
   (forall w x, walk C11b_view_neg 0 w x -> (length w <= vbound C11b_view_neg * vbound C11b_view_neg * 2)%nat ->
                I32MIN <= walk_cost w) /\
   (forall w x, walk C11b_view_neg 0 w x -> NoDup (0%nat :: map tgt w) -> walk_cost w < I32MAX)).
Proof.
  assert (H1 : BOk C11b_view) by (apply bok_b_ok; vm_compute; reflexivity).
  assert (H2 : BOk C11b_view_neg) by (apply bok_b_ok; vm_compute; reflexivity).
  assert (L1 : (0 < vbound C11b_view)%nat) by (vm_compute; lia).
  assert (L2 : (0 < vbound C11b_view_neg)%nat) by (vm_compute; lia).
  assert (D1 : forall a, (length (out_edges C11b_view a) <= 2)%nat).
  { intros a. pose proof (max_deg_ok C11b_view a) as H. vm_compute max_deg in H. exact H. }
  assert (D2 : forall a, (length (out_edges C11b_view_neg a) <= 2)%nat).
  { intros a. pose proof (max_deg_ok C11b_view_neg a) as H. vm_compute max_deg in H. lia. }
  split.
  - split; auto. split; auto. split; auto.
    apply (spfa_bounds_from_weights I32MIN I32MAX C11b_view 0 7 2 H1 L1);
      [zc|apply wbound_b_ok; vm_compute; reflexivity|zc|zc].
  - split; auto. split; auto. split; auto.
    apply (spfa_bounds_from_weights I32MIN I32MAX C11b_view_neg 0 7 2 H2 L2);
      [zc|apply wbound_b_ok; vm_compute; reflexivity|zc|zc].
Qed.

(* the theorems applied *)
Example C11b_spfa_applied :
  is_dist C11b_view 0 3 2 /\ ~ reachable C11b_view 0 4 /\ ~ neg_cycle_reachable C11b_view 0 /\
  neg_cycle_reachable C11b_view_neg 0.
Proof.
  destruct C11b_spfa_hyps as [[B1 [L1 [D1 [W1 U1]]]] [B2 [L2 [D2 [W2 U2]]]]].
  destruct (spfa_full I32MIN I32MAX C11b_view 0 2 B1 L1 D1 W1 U1) as [r [E S]].
  vm_compute in E. injection E as <-. destruct S as [HNN [_ [_ [Hr [Hu _]]]]].
  split; [|split; [|split]]; auto.
  - assert (Hreach : reachable C11b_view 0 3).
    { exists [(0%nat, 1%nat, 4); (2%nat, 3%nat, 0)]. constructor; [cbn; auto|]. constructor; [cbn; auto|]. constructor. }
    destruct (Hr 3%nat Hreach) as [Hd _]. exact Hd.
  - intros Hreach. destruct (Hr 4%nat Hreach) as [_ Hlt]. vm_compute in Hlt. discriminate.
  - apply (spfa_err_iff I32MIN I32MAX C11b_view_neg 0 2 B2 L2 D2 W2 U2). vm_compute. reflexivity.
Qed.

(* A finding about the shipped code (i32 costs): with three entries of -700_000_000 on the cycle
   0 -> 1 -> 2 -> 0 every simple path costs between -2_100_000_000 and 0, well inside i32, the
   negative cycle is reachable from 0 (bellman_ford reports it), and yet spfa returns Ok: the fourth
   relaxation would leave the i32 range, overflowing_add reports it, the relaxation is skipped and
   the work list runs empty.  So the bound on long walks in C11b_spfa cannot be replaced by one on
   simple paths. *)
Example C11b_spfa_undetected_cycle :
  BOk (C11b_cyc3 (-700000000)) /\
  (forall w x, walk (C11b_cyc3 (-700000000)) 0 w x -> NoDup (0%nat :: map tgt w) ->
               I32MIN <= walk_cost w < I32MAX) /\
  neg_cycle_reachable (C11b_cyc3 (-700000000)) 0 /\
  bellman_ford (C11b_cyc3 (-700000000)) 0 = Ok None /\
  spfa I32MIN I32MAX (C11b_cyc3 (-700000000)) 0 =
    Ok (Some ([-2100000000; -700000000; -1400000000], [Some 2%nat; Some 0%nat; Some 1%nat])).
Proof.
  assert (HB : BOk (C11b_cyc3 (-700000000))) by (apply bok_b_ok; vm_compute; reflexivity).
  assert (L : (0 < vbound (C11b_cyc3 (-700000000)))%nat) by (vm_compute; lia).
  split; auto. split; [|split; [|split]].
  - apply (spfa_bounds_from_weights I32MIN I32MAX (C11b_cyc3 (-700000000)) 0 700000000 0 HB L);
      [zc|apply wbound_b_ok; vm_compute; reflexivity|zc|zc].
  - exists 0%nat, [], [(0%nat, 1%nat, -700000000); (1%nat, 2%nat, -700000000); (2%nat, 0%nat, -700000000)].
    split; [constructor|]. split; [|vm_compute; reflexivity].
    constructor; [cbn; auto|]. constructor; [cbn; auto|]. constructor; [cbn; auto|]. constructor.
  - vm_compute. reflexivity.
  - vm_compute. reflexivity.
Qed.

(* ------------------------------------------------------------------ non-vacuity: floyd_warshall *)
(* a negative self-loop at 1; a negative 2-cycle 0 <-> 1; the same with weights near the i32 limits *)
Definition C11b_fw_loop : view :=
  mkView true 2 (Some 2%nat) [0; 1]%nat [(0%nat, [(0%nat, 1%nat, 3)]); (1%nat, [(1%nat, 1%nat, -1)])] [] 2 2
    [(0%nat, 0%nat, 1%nat, 3); (1%nat, 1%nat, 1%nat, -1)].
Definition C11b_fw_two (a b : Z) : view :=
  mkView true 3 (Some 3%nat) [0; 1; 2]%nat
    [(0%nat, [(0%nat, 1%nat, a)]); (1%nat, [(1%nat, 0%nat, b); (2%nat, 2%nat, 1)]); (2%nat, [])] [] 3 3
    [(0%nat, 0%nat, 1%nat, a); (1%nat, 1%nat, 0%nat, b); (2%nat, 1%nat, 2%nat, 1)].
Definition C11b_fw_view : view :=
  mkView true 4 (Some 4%nat) [0; 1; 2; 3]%nat
    [(0%nat, [(0%nat, 1%nat, 4); (1%nat, 2%nat, 5)]); (1%nat, [(3%nat, 3%nat, 0)]);
     (2%nat, [(2%nat, 1%nat, -3)]); (3%nat, [])] [] 4 4
    [(0%nat, 0%nat, 1%nat, 4); (1%nat, 0%nat, 2%nat, 5); (2%nat, 2%nat, 1%nat, -3); (3%nat, 1%nat, 3%nat, 0)].

Example C11b_fw_nonvacuous :
  floyd_warshall I32MIN I32MAX C11b_fw_loop = Ok None /\
  floyd_warshall I32MIN I32MAX (C11b_fw_two 2 (-3)) = Ok None /\
  floyd_warshall I32MIN I32MAX C11b_fw_view =
    Ok (Some ([[0; 2; 5; 2]; [2147483647; 0; 2147483647; 0]; [2147483647; -3; 0; -3];
               [2147483647; 2147483647; 2147483647; 0]],
              [[Some 0%nat; Some 2%nat; Some 0%nat; Some 1%nat]; [None; Some 1%nat; None; Some 1%nat];
               [None; Some 2%nat; Some 2%nat; Some 1%nat]; [None; None; None; Some 3%nat]])) /\
  fw_chain 4 [[Some 0%nat; Some 2%nat; Some 0%nat; Some 1%nat]; [None; Some 1%nat; None; Some 1%nat];
              [None; Some 2%nat; Some 2%nat; Some 1%nat]; [None; None; None; Some 3%nat]] 0 3 =
    Some [2%nat; 1%nat; 3%nat].
Proof. vm_compute. repeat split; reflexivity. Qed.

(* the hypotheses of C11b_fw_complete hold for the first two views with the i32 bounds, and both
   contain a negative cycle *)
Example C11b_fw_complete_hyps :
  (FOk C11b_fw_loop /\ eneg_cycle C11b_fw_loop /\
   (forall i p j, ewalk C11b_fw_loop i p j -> esimple i p -> ecost p < I32MAX) /\
   (forall i p j, ewalk C11b_fw_loop i p j -> (length p <= 2 * vnode_count C11b_fw_loop)%nat -> I32MIN <= ecost p)) /\
  (FOk (C11b_fw_two 2 (-3)) /\ eneg_cycle (C11b_fw_two 2 (-3)) /\
   (forall i p j, ewalk (C11b_fw_two 2 (-3)) i p j -> esimple i p -> ecost p < I32MAX) /\
   (forall i p j, ewalk (C11b_fw_two 2 (-3)) i p j ->
                  (length p <= 2 * vnode_count (C11b_fw_two 2 (-3)))%nat -> I32MIN <= ecost p)).
Proof.
  assert (F1 : FOk C11b_fw_loop) by (apply fok_b_ok; vm_compute; reflexivity).
  assert (F2 : FOk (C11b_fw_two 2 (-3))) by (apply fok_b_ok; vm_compute; reflexivity).
  split.
  - split; auto. split.
    + exists 1%nat, [(1%nat, -1)]. split; [|vm_compute; reflexivity].
      constructor; [exists 1%nat; left; cbn; auto|constructor].
    + apply (fw_complete_bounds I32MIN I32MAX C11b_fw_loop 3 F1);
        [zc|apply ebound_b_ok; vm_compute; reflexivity|zc|zc|zc].
  - split; auto. split.
    + exists 0%nat, [(1%nat, 2); (0%nat, -3)]. split; [|vm_compute; reflexivity].
      constructor; [exists 0%nat; left; cbn; auto|]. constructor; [exists 1%nat; left; cbn; auto|constructor].
    + apply (fw_complete_bounds I32MIN I32MAX (C11b_fw_two 2 (-3)) 3 F2);
        [zc|apply ebound_b_ok; vm_compute; reflexivity|zc|zc|zc].
Qed.

Example C11b_fw_complete_applied :
  floyd_warshall I32MIN I32MAX C11b_fw_loop = Ok None /\ floyd_warshall I32MIN I32MAX (C11b_fw_two 2 (-3)) = Ok None.
Proof.
  destruct C11b_fw_complete_hyps as [[F1 [N1 [A1 B1]]] [F2 [N2 [A2 B2]]]].
  split; [exact (fw_complete _ _ _ F1 A1 B1 N1)|exact (fw_complete _ _ _ F2 A2 B2 N2)].
Qed.

(* A finding about the shipped code (i32 costs): the 2-cycle 0 <-> 1 with two references of
   -1_500_000_000.  Every simple path stays inside i32, the cycle costs -3_000_000_000, and
   floyd_warshall returns Ok with a zero diagonal: the relaxations (k, i, i) that would expose the cycle
   overflow and are skipped.  So the bound on walks of 2 * node_count references in C11b_fw_complete
   cannot be replaced by one on simple paths. *)
Example C11b_fw_undetected_cycle :
  FOk (C11b_fw_two (-1500000000) (-1500000000)) /\
  (forall i p j, ewalk (C11b_fw_two (-1500000000) (-1500000000)) i p j -> esimple i p ->
                 I32MIN <= ecost p < I32MAX) /\
  eneg_cycle (C11b_fw_two (-1500000000) (-1500000000)) /\
  floyd_warshall I32MIN I32MAX (C11b_fw_two (-1500000000) (-1500000000)) =
    Ok (Some ([[0; -1500000000; -1499999999]; [-1500000000; 0; 1]; [2147483647; 2147483647; 0]],
              [[Some 0%nat; Some 0%nat; Some 1%nat]; [Some 1%nat; Some 1%nat; Some 1%nat];
               [None; None; Some 2%nat]])).
Proof.
  assert (HF : FOk (C11b_fw_two (-1500000000) (-1500000000))) by (apply fok_b_ok; vm_compute; reflexivity).
  split; auto. split; [|split].
  - intros i p j W Hs.
    assert (HM : forall a b w, estep (C11b_fw_two (-1500000000) (-1500000000)) a b w ->
                               - (1500000000) <= w <= 1500000000).
    { apply (ebound_b_ok _ 1500000000). vm_compute. reflexivity. }
    pose proof (ecost_bound HM W) as Hc.
    (* a simple path here has at most two references, and the third node has no way back *)
    destruct p as [|[b1 w1] p1]; [cbn [ecost]; vm_compute; split; congruence|].
    assert (Hne : (b1, w1) :: p1 <> []) by discriminate.
    destruct (ewalk_lt HF W Hne) as [Hi _].
    pose proof (simple_short _ HF i _ j W Hs Hi) as Hlen. vm_compute vnode_count in Hlen.
    cbn [length] in Hlen, Hc.
    assert (Hl : (length p1 <= 1)%nat) by lia.
    destruct p1 as [|[b2 w2] p2]; [cbn [length ecost snd] in *; unfold I32MIN, I32MAX; lia|].
    destruct p2; [|cbn [length] in Hl; lia].
    inversion W as [|a0 b0 w0 p0 c0 Hst1 W1]; subst. inversion W1 as [|a1 b3 w3 p3 c1 Hst2 _]; subst.
    assert (Hw : forall a b w, estep (C11b_fw_two (-1500000000) (-1500000000)) a b w ->
              (a = 0%nat /\ b = 1%nat /\ w = -1500000000) \/ (a = 1%nat /\ b = 0%nat /\ w = -1500000000) \/
              (a = 1%nat /\ b = 2%nat /\ w = 1)).
    { intros a b w [id [Hin|[Hd _]]]; [|discriminate Hd]. cbn in Hin.
      destruct Hin as [Hin|[Hin|[Hin|[]]]]; injection Hin as <- <- <- <-; auto. }
    unfold esimple in Hs. cbn [map fst] in Hs.
    destruct (Hw _ _ _ Hst1) as [[-> [-> ->]]|[[-> [-> ->]]|[-> [-> ->]]]];
      destruct (Hw _ _ _ Hst2) as [[E1 [-> ->]]|[[E1 [-> ->]]|[E1 [-> ->]]]]; try discriminate E1;
      cbn [ecost snd]; unfold I32MIN, I32MAX; try lia;
      exfalso; inversion Hs as [|x l Hnin _]; subst; apply Hnin; cbn; auto.
  - exists 0%nat, [(1%nat, -1500000000); (0%nat, -1500000000)]. split; [|vm_compute; reflexivity].
    constructor; [exists 0%nat; left; cbn; auto|]. constructor; [exists 1%nat; left; cbn; auto|constructor].
  - vm_compute. reflexivity.
Qed.

(* the hypotheses of C11b_fw_path hold for the third view (potential 0, 2, 5, 2; weights within 5) *)
Ltac fw_steps H :=
  let id := fresh "id" in let Hin := fresh "Hin" in let Hd := fresh "Hd" in
  destruct H as [id [Hin|[Hd Hin]]]; [|discriminate Hd];
  cbn in Hin; repeat (destruct Hin as [Hin|Hin]; [injection Hin as <- <- <- <-|]); [..|destruct Hin].

Example C11b_fw_path_hyps :
  FOk C11b_fw_view /\ ~ eneg_cycle C11b_fw_view /\
  (forall i p j, ewalk C11b_fw_view i p j -> esimple i p -> ecost p < I32MAX) /\
  (forall i p k q j, ewalk C11b_fw_view i p k -> ewalk C11b_fw_view k q j -> I32MIN <= ecost p + ecost q).
Proof.
  assert (HF : FOk C11b_fw_view) by (apply fok_b_ok; vm_compute; reflexivity).
  assert (HN : ~ eneg_cycle C11b_fw_view).
  { apply (potential_no_neg_cycle (h := fun x => nth x [0; 2; 5; 2] 0)).
    intros a b w Hs. fw_steps Hs; cbn [nth]; lia. }
  split; auto. split; auto.
  apply (@bounds_from_weights I32MIN I32MAX C11b_fw_view 5 HF HN);
    [zc|apply ebound_b_ok; vm_compute; reflexivity|zc|zc|zc].
Qed.

(* the theorem applied: the predecessor of 3 seen from 0 is 1, joined by the reference 1 -> 3 of cost 0,
   and the chain from 3 back to 0 spells 0 -> 2 -> 1 -> 3 *)
Example C11b_fw_path_applied :
  exists q, ewalk C11b_fw_view 0 q 3 /\ map fst q = [2%nat; 1%nat; 3%nat] /\ ecost q = 2 /\
            edist C11b_fw_view 0 3 2.
Proof.
  destruct C11b_fw_path_hyps as [HF [HN [H1 H2]]].
  destruct (fw_path_spec I32MIN I32MAX C11b_fw_view HF HN H1 H2) as [d [p [E [_ [_ [Hex [_ [_ [_ Hch]]]]]]]]].
  vm_compute in E. injection E as <- <-.
  assert (Hr : ereachable C11b_fw_view 0 3).
  { exists [(1%nat, 4); (3%nat, 0)].
    constructor; [exists 0%nat; left; cbn; auto|]. constructor; [exists 3%nat; left; cbn; auto 6|]. constructor. }
  destruct (Hch 0%nat 3%nat) as [l [q [Ec [W [Hl [_ Cq]]]]]]; try (vm_compute; lia); auto.
  vm_compute in Ec. injection Ec as <-. vm_compute in Cq.
  exists q. split; auto. split; auto. split; auto.
  destruct (Hex 0%nat 3%nat) as [_ Hd]; try (vm_compute; lia). apply (Hd Hr).
Qed.

(* ------------------------------------------------------------------ pinned statements *)
Check C11b_spfa_partial : forall kmin kmax v s, BOk v -> (s < vbound v)%nat ->
  (forall w x, walk v s w x -> NoDup (s :: map tgt w) -> kmin <= walk_cost w < kmax) ->
  exists r, spfa kmin kmax v s = Ok r /\
    (r = None -> neg_cycle_reachable v s) /\
    (~ neg_cycle_reachable v s -> exists dist pred, r = Some (dist, pred) /\
       length dist = vbound v /\ length pred = vbound v /\
       (forall x, reachable v s x -> is_dist v s x (nth x dist kmax) /\ nth x dist kmax < kmax) /\
       (forall x, ~ reachable v s x -> nth x dist kmax = kmax /\ nth x pred None = None) /\
       nth s pred None = None /\
       (forall x, reachable v s x -> x <> s ->
          exists u e, nth x pred None = Some u /\ In e (out_edges v u) /\ tgt e = x /\ reachable v s u /\
                      nth u dist kmax + ewgt e = nth x dist kmax)).
Check C11b_spfa : forall kmin kmax v s Dg, BOk v -> (s < vbound v)%nat ->
  (forall a, (length (out_edges v a) <= Dg)%nat) ->
  (forall w x, walk v s w x -> (length w <= vbound v * vbound v * Dg)%nat -> kmin <= walk_cost w) ->
  (forall w x, walk v s w x -> NoDup (s :: map tgt w) -> walk_cost w < kmax) ->
  exists r, spfa kmin kmax v s = Ok r /\
    match r with
    | None => neg_cycle_reachable v s
    | Some (dist, pred) =>
        ~ neg_cycle_reachable v s /\
        length dist = vbound v /\ length pred = vbound v /\
        (forall x, reachable v s x -> is_dist v s x (nth x dist kmax) /\ nth x dist kmax < kmax) /\
        (forall x, ~ reachable v s x -> nth x dist kmax = kmax /\ nth x pred None = None) /\
        nth s pred None = None /\
        (forall x, reachable v s x -> x <> s ->
           exists u e, nth x pred None = Some u /\ In e (out_edges v u) /\ tgt e = x /\ reachable v s u /\
                       nth u dist kmax + ewgt e = nth x dist kmax)
    end.
Check C11b_spfa_complete : forall kmin kmax v s Dg, BOk v -> (s < vbound v)%nat ->
  (forall a, (length (out_edges v a) <= Dg)%nat) ->
  (forall w x, walk v s w x -> (length w <= vbound v * vbound v * Dg)%nat -> kmin <= walk_cost w) ->
  (forall w x, walk v s w x -> NoDup (s :: map tgt w) -> walk_cost w < kmax) ->
  (spfa kmin kmax v s = Ok None <-> neg_cycle_reachable v s).
Check C11b_spfa_side_conditions : forall kmin kmax v s M Dg, BOk v -> (s < vbound v)%nat -> 0 <= M ->
  (forall a e, In e (out_edges v a) -> - M <= ewgt e <= M) ->
  Z.of_nat (vbound v) * M < kmax ->
  (kmin <= - (Z.of_nat (vbound v) * M) ->
     forall w x, walk v s w x -> NoDup (s :: map tgt w) -> kmin <= walk_cost w < kmax) /\
  (kmin <= - (Z.of_nat (vbound v * vbound v * Dg) * M) ->
     (forall w x, walk v s w x -> (length w <= vbound v * vbound v * Dg)%nat -> kmin <= walk_cost w) /\
     (forall w x, walk v s w x -> NoDup (s :: map tgt w) -> walk_cost w < kmax)).
Check C11b_fw_complete : forall kmin kmax v, FOk v ->
  (forall i p j, ewalk v i p j -> esimple i p -> ecost p < kmax) ->
  (forall i p j, ewalk v i p j -> (length p <= 2 * vnode_count v)%nat -> kmin <= ecost p) ->
  eneg_cycle v -> floyd_warshall kmin kmax v = Ok None.
Check C11b_fw_err_iff : forall kmin kmax v, FOk v ->
  (forall i p j, ewalk v i p j -> esimple i p -> ecost p < kmax) ->
  (forall i p j, ewalk v i p j -> (length p <= 2 * vnode_count v)%nat -> kmin <= ecost p) ->
  (floyd_warshall kmin kmax v = Ok None <-> eneg_cycle v).
Check C11b_fw_complete_side_conditions : forall kmin kmax v M, FOk v -> 0 <= M ->
  (forall a b w, estep v a b w -> - M <= w <= M) ->
  Z.of_nat (vnode_count v) * M < kmax -> 0 < kmax -> kmin <= - (2 * (Z.of_nat (vnode_count v) * M)) ->
  (forall i p j, ewalk v i p j -> esimple i p -> ecost p < kmax) /\
  (forall i p j, ewalk v i p j -> (length p <= 2 * vnode_count v)%nat -> kmin <= ecost p).
Check C11b_fw_path : forall kmin kmax v, FOk v -> ~ eneg_cycle v ->
  (forall i p j, ewalk v i p j -> esimple i p -> ecost p < kmax) ->
  (forall i p k q j, ewalk v i p k -> ewalk v k q j -> kmin <= ecost p + ecost q) ->
  exists d p, floyd_warshall kmin kmax v = Ok (Some (d, p)) /\
    Shape (vnode_count v) d /\ Shape (vnode_count v) p /\
    (forall i j, (i < vnode_count v)%nat -> (j < vnode_count v)%nat ->
       (mg 0 d i j = kmax <-> ~ ereachable v i j) /\ (ereachable v i j -> edist v i j (mg 0 d i j))) /\
    (forall i, (i < vnode_count v)%nat -> mg None p i i = Some i) /\
    (forall i j, (i < vnode_count v)%nat -> (j < vnode_count v)%nat -> i <> j -> ~ ereachable v i j ->
       mg None p i j = None) /\
    (forall i j, (i < vnode_count v)%nat -> (j < vnode_count v)%nat -> i <> j -> ereachable v i j ->
       exists m w, mg None p i j = Some m /\ (m < vnode_count v)%nat /\ estep v m j w /\ ereachable v i m /\
                   mg 0 d i m + w = mg 0 d i j) /\
    (forall i j, (i < vnode_count v)%nat -> (j < vnode_count v)%nat -> ereachable v i j ->
       exists l q, fw_chain (vnode_count v) p i j = Some l /\ ewalk v i q j /\ map fst q = l /\ esimple i q /\
                   ecost q = mg 0 d i j).

Print Assumptions C11b_spfa_partial.
Print Assumptions C11b_spfa.
Print Assumptions C11b_spfa_complete.
Print Assumptions C11b_spfa_side_conditions.
Print Assumptions C11b_spfa_applied.
Print Assumptions C11b_spfa_undetected_cycle.
Print Assumptions C11b_fw_complete.
Print Assumptions C11b_fw_err_iff.
Print Assumptions C11b_fw_complete_side_conditions.
Print Assumptions C11b_fw_path.
Print Assumptions C11b_fw_complete_applied.
Print Assumptions C11b_fw_undetected_cycle.
Print Assumptions C11b_fw_path_applied.
