(* C10b — astar and k_shortest_path (general k) on non-negative edge costs.
   astar (the mirror re-expands a node when a better score is found; no consistency assumed):
   never panics; for every heuristic (admissible or not) the returned node list is the node
   sequence of a walk from the start to a goal and the returned cost is the cost of that walk,
   None is returned exactly when no goal is reachable; for an admissible heuristic the returned
   cost is the distance to the nearest goal.
   The model runs astar with the constant fuel 5000, which a 23-node view exhausts
   (exponentially many re-expansions): the statements about astar are for the runs that return
   (_partial); the loop started with any fuel (astar_run) satisfies the same statements, returns
   whenever the fuel is at least astar_fuel_bound v s, and so astar itself is total on the views
   whose bound is at most 5000.
   k_shortest_path (no goal, counter of size node_bound): never panics or runs out of fuel; the
   value of a node is the k-th smallest cost of a walk from the start (with multiplicity), and
   nodes with fewer than k walks get no value.  Zero-cost cycles are allowed.
   This file holds only the property theorems (closed by [exact]), their pinned statements
   ([Check]) and their assumptions. *)
From Coq Require Import Lia ZArith List.
From PG Require Import Lib.Io Model.View Model.Traversal Model.ShortestM Spec.Paths
  Proofs.DijkstraP Proofs.KspP Proofs.AstarP Proofs.KspGenP.
Open Scope Z_scope.

(* ------------------------------------------------------------------ astar *)
(* A1 (any heuristic, the run returns): no panic; None <-> no goal reachable; Some (c, p): p is the
   node sequence of a walk from s to a goal and c is the cost of that walk *)
Theorem C10b_astar_valid_partial : forall v s is_goal est, nonneg v ->
  astar v s is_goal est = OutOfFuel \/
  exists r, astar v s is_goal est = Ok r /\
    (r = None <-> ~ goal_reachable v is_goal s) /\
    forall c p, r = Some (c, p) ->
      exists t w, is_goal t = true /\ walk v s w t /\ walk_nodes s w = p /\ walk_cost w = c.
Proof. intros v s is_goal est HN; exact (astar_valid_partial s is_goal est HN). Qed.

(* the same for the loop started with any fuel *)
Theorem C10b_astar_run_valid : forall fuel v s is_goal est, nonneg v ->
  astar_run fuel v s is_goal est = OutOfFuel \/
  exists r, astar_run fuel v s is_goal est = Ok r /\
    (r = None <-> ~ goal_reachable v is_goal s) /\
    forall c p, r = Some (c, p) ->
      exists t w, is_goal t = true /\ walk v s w t /\ walk_nodes s w = p /\ walk_cost w = c.
Proof. intros fuel v s is_goal est HN; exact (astar_run_valid fuel s is_goal est HN). Qed.

(* astar is astar_run with the model's constant fuel, which is 5000 *)
Theorem C10b_astar_is_run :
  (forall v s g e, astar v s g e = astar_run astar_fuel v s g e) /\ Nat.eqb astar_fuel 5000 = true.
Proof. exact (conj astar_eq astar_fuel_5000). Qed.

(* A1, totality: the loop returns when the fuel is at least astar_fuel_bound v s
   = 2 + N * (N * W + 2), N = 1 + number of out-entries, W = sum of the weights *)
Theorem C10b_astar_run_total : forall fuel v s is_goal est, VOk v -> nonneg v ->
  (astar_fuel_bound v s <= fuel)%nat ->
  exists r, astar_run fuel v s is_goal est = Ok r /\
    (r = None <-> ~ goal_reachable v is_goal s) /\
    forall c p, r = Some (c, p) ->
      exists t w, is_goal t = true /\ walk v s w t /\ walk_nodes s w = p /\ walk_cost w = c.
Proof. intros fuel v s is_goal est HV HN Hf; exact (astar_run_total is_goal est HV HN Hf). Qed.

(* hence the model's astar is total on the views whose bound does not exceed its fuel *)
Theorem C10b_astar_total_small : forall v s is_goal est, VOk v -> nonneg v ->
  (astar_fuel_bound v s <= astar_fuel)%nat ->
  exists r, astar v s is_goal est = Ok r /\
    (r = None <-> ~ goal_reachable v is_goal s) /\
    forall c p, r = Some (c, p) ->
      exists t w, is_goal t = true /\ walk v s w t /\ walk_nodes s w = p /\ walk_cost w = c.
Proof. intros v s is_goal est HV HN Hf; exact (astar_total_small is_goal est HV HN Hf). Qed.

(* A2 (admissible heuristic, non-negative on goals, no consistency): the cost is the distance from s
   to the nearest goal and the returned walk has that cost *)
Theorem C10b_astar_admissible_partial : forall v s is_goal est r, VOk v -> nonneg v -> in_cap v s ->
  (forall x, is_goal x = true -> 0 <= est x) -> admissible v is_goal est ->
  astar v s is_goal est = Ok r ->
  (r = None <-> ~ goal_reachable v is_goal s) /\
  forall c p, r = Some (c, p) ->
    goal_dist v is_goal s c /\
    exists t w, is_goal t = true /\ walk v s w t /\ walk_nodes s w = p /\ walk_cost w = c.
Proof. intros v s is_goal est r HV HN Hs Hp Ha E; exact (astar_admissible_partial HV HN Hs Hp Ha E). Qed.

Theorem C10b_astar_run_admissible : forall fuel v s is_goal est r, VOk v -> nonneg v -> in_cap v s ->
  (forall x, is_goal x = true -> 0 <= est x) -> admissible v is_goal est ->
  astar_run fuel v s is_goal est = Ok r ->
  (r = None <-> ~ goal_reachable v is_goal s) /\
  forall c p, r = Some (c, p) ->
    goal_dist v is_goal s c /\
    exists t w, is_goal t = true /\ walk v s w t /\ walk_nodes s w = p /\ walk_cost w = c.
Proof. intros fuel v s is_goal est r HV HN Hs Hp Ha E; exact (astar_run_admissible HV HN Hs Hp Ha E). Qed.

(* the distance to the nearest goal exists whenever a goal is reachable, and is unique *)
Theorem C10b_goal_dist_exists : forall v is_goal x, VOk v -> nonneg v -> in_cap v x ->
  goal_reachable v is_goal x -> exists d, goal_dist v is_goal x d.
Proof. intros v is_goal x HV HN Hc Hr; exact (goal_dist_exists HV HN Hc Hr). Qed.

Theorem C10b_goal_dist_unique : forall v is_goal x d1 d2,
  goal_dist v is_goal x d1 -> goal_dist v is_goal x d2 -> d1 = d2.
Proof. intros v is_goal x d1 d2 H1 H2; exact (goal_dist_unique H1 H2). Qed.

(* admissible (est x <= goal distance of x) is the same as: est z bounds every walk from z to a goal *)
Theorem C10b_admissible_forms : forall v is_goal est,
  ((forall s, admissible_from v is_goal est s) -> admissible v is_goal est) /\
  (forall s, VOk v -> nonneg v -> in_cap v s -> admissible v is_goal est -> admissible_from v is_goal est s).
Proof.
  intros v is_goal est.
  exact (conj (@admissible_of_from v is_goal est)
              (fun s HV HN Hs Ha => @admissible_from_of v is_goal est s HV HN Hs Ha)).
Qed.

(* ------------------------------------------------------------------ k_shortest_path *)
(* K1: every k; out-lists without repeated entries (edge ids are distinct) *)
Theorem C10b_ksp_exact : forall v s k, VOk v -> nonneg v ->
  (forall a e, In e (out_edges v a) -> (tgt e < vbound v)%nat) -> (s < vbound v)%nat ->
  (forall a, NoDup (out_edges v a)) ->
  exists m, k_shortest_path v (vbound v) s None k = Ok m /\ NoDup (map fst m) /\
            forall x d, sget m x = Some d <-> kth_walk_cost v s x k d.
Proof. intros v s k HV HN HT Hs HD; exact (ksp_gen_exact k HV HN HT Hs HD). Qed.

(* the k-th smallest walk cost is unique, is the cost of a walk, and for k = 1 is the distance *)
Theorem C10b_kth_walk_cost_facts : forall v s x,
  (forall k d1 d2, kth_walk_cost v s x k d1 -> kth_walk_cost v s x k d2 -> d1 = d2) /\
  (forall k d, kth_walk_cost v s x k d -> exists p, walk v s p x /\ walk_cost p = d) /\
  (forall d, kth_walk_cost v s x 1 d <-> is_dist v s x d) /\
  (forall d, ~ kth_walk_cost v s x 0 d).
Proof.
  intros v s x.
  exact (conj (fun k d1 d2 => @kth_walk_cost_unique v s x k d1 d2)
        (conj (fun k d => @kth_walk_cost_attained v s x k d)
        (conj (fun d => kth_walk_cost_one v s x d) (fun d => @kth_walk_cost_zero v s x d)))).
Qed.

(* ------------------------------------------------------------------ non-vacuity *)
(* 0 -> 1 (1), 0 -> 2 (3), 1 -> 2 (1), 2 -> 3 (5), and a zero-cost cycle 3 -> 4 -> 3 *)
Definition C10b_view : view :=
  mkView true 5 (Some 5%nat) [0; 1; 2; 3; 4]%nat
    [(0%nat, [(0%nat, 1%nat, 1); (1%nat, 2%nat, 3)]); (1%nat, [(2%nat, 2%nat, 1)]);
     (2%nat, [(3%nat, 3%nat, 5)]); (3%nat, [(4%nat, 4%nat, 0)]); (4%nat, [(5%nat, 3%nat, 0)])]
    [] 6 6 [].

Definition C10b_tbl (l : list (nat * Z)) (x : nat) : Z := match sget l x with Some h => h | None => 0 end.

(* admissible (distances to 3 are 7, 6, 5, 0, 0) but not consistent: est 1 - est 2 = 6 > 1 *)
Definition C10b_est : nat -> Z := C10b_tbl [(1%nat, 6)].
(* not admissible: est 1 = 20 *)
Definition C10b_est_bad : nat -> Z := C10b_tbl [(1%nat, 20)].

Example C10b_view_ok : VOk C10b_view /\ nonneg C10b_view /\ in_cap C10b_view 0 /\
  (forall a e, In e (out_edges C10b_view a) -> (tgt e < vbound C10b_view)%nat) /\
  (forall a, NoDup (out_edges C10b_view a)).
Proof.
  split; [apply vok_b_ok; vm_compute; reflexivity|].
  split; [apply nonneg_b_ok; vm_compute; reflexivity|].
  split; [vm_compute; lia|].
  split; [apply tgt_bound_b_ok; vm_compute; reflexivity|apply out_nodup_b_ok; vm_compute; reflexivity].
Qed.

Example C10b_est_admissible : admissible C10b_view (Nat.eqb 3) C10b_est /\
  (forall x, Nat.eqb 3 x = true -> 0 <= C10b_est x).
Proof.
  destruct C10b_view_ok as [HV [HN _]]. split.
  - intros x d [[t [p [Hg [W C]]]] _]. apply Nat.eqb_eq in Hg. subst t.
    pose proof (walk_cost_nonneg HN W) as Hd.
    destruct (Nat.eq_dec x 1) as [->|Hne].
    + (* the distance from 1 to 3 is 6 *)
      assert (Hc : in_cap C10b_view 1) by (vm_compute; lia).
      destruct (dijkstra_exact HV HN Hc) as [m [E [_ H]]].
      vm_compute in E. injection E as <-.
      assert (Hd6 : is_dist C10b_view 1 3 6) by (apply H; reflexivity).
      destruct Hd6 as [_ L]. pose proof (L _ W). unfold C10b_est, C10b_tbl. cbn [sget Nat.eqb]. lia.
    + unfold C10b_est, C10b_tbl. cbn [sget]. destruct (Nat.eqb_spec 1 x); [congruence|lia].
  - intros x Hx. apply Nat.eqb_eq in Hx. subst x. vm_compute. discriminate.
Qed.

(* what astar returns there: with the admissible heuristic node 2 is expanded twice (first with
   score 3, then with score 2) and the optimal answer is returned; with the bad heuristic a
   dearer walk is returned, with its own cost; no goal reachable from 3 with goal 0 *)
Example C10b_astar_nonvacuous :
  astar C10b_view 0 (Nat.eqb 3) C10b_est = Ok (Some (7, [0; 1; 2; 3]%nat)) /\
  astar C10b_view 0 (Nat.eqb 3) C10b_est_bad = Ok (Some (8, [0; 2; 3]%nat)) /\
  astar C10b_view 0 (Nat.eqb 3) (fun _ => 0) = Ok (Some (7, [0; 1; 2; 3]%nat)) /\
  astar C10b_view 3 (Nat.eqb 0) (fun _ => 0) = Ok None.
Proof.
  split; [vm_compute; reflexivity|]. split; [vm_compute; reflexivity|].
  split; vm_compute; reflexivity.
Qed.

(* the theorem applied: 7 is the distance from 0 to the goal set {3} *)
Example C10b_astar_applied : goal_dist C10b_view (Nat.eqb 3) 0 7 /\ ~ goal_reachable C10b_view (Nat.eqb 0) 3.
Proof.
  destruct C10b_view_ok as [HV [HN [Hs _]]]. destruct C10b_est_admissible as [Ha Hp]. split.
  - assert (E : astar C10b_view 0 (Nat.eqb 3) C10b_est = Ok (Some (7, [0; 1; 2; 3]%nat))) by (vm_compute; reflexivity).
    destruct (astar_admissible_partial HV HN Hs Hp Ha E) as [_ H].
    destruct (H _ _ eq_refl) as [Hd _]. exact Hd.
  - assert (E : astar C10b_view 3 (Nat.eqb 0) (fun _ => 0) = Ok None) by (vm_compute; reflexivity).
    destruct (@astar_valid_partial C10b_view 3 (Nat.eqb 0) (fun _ => 0) HN) as [E'|[r [E' [H _]]]]; [congruence|].
    assert (r = None) by congruence. apply H; auto.
Qed.

(* the fuel bound of C10b_view is 506 <= 5000: astar is total there, for every goal set and heuristic *)
Example C10b_astar_small_applied : astar_fuel_bound C10b_view 0 = 506%nat /\
  forall is_goal est, exists r, astar C10b_view 0 is_goal est = Ok r.
Proof.
  split; [vm_compute; reflexivity|]. intros is_goal est.
  destruct C10b_view_ok as [HV [HN _]].
  destruct (@astar_total_small C10b_view 0 is_goal est HV HN) as [r [E _]].
  - apply Nat.leb_le. vm_compute. reflexivity.
  - exists r; exact E.
Qed.

(* The constant fuel of the model is not adequate: on this 23-node view (a chain a_0 .. a_11 with a
   dear direct entry a_i -> a_(i+1) and a free detour through b_i whose estimate is huge) a_i is
   re-expanded 2^i times; no node is a goal, so every heuristic is admissible.  The loop needs 6143
   iterations and then returns None; the model's astar reports OutOfFuel. *)
Definition C10b_expo_view (n : nat) : view :=
  mkView true (2 * n + 1) (Some (2 * n + 1)%nat) (seq 0 (2 * n + 1))
    (flat_map (fun i => [((2 * i)%nat, [((3 * i)%nat, (2 * (i + 1))%nat, 2 ^ Z.of_nat (n - i));
                                        ((3 * i + 1)%nat, (2 * i + 1)%nat, 0)]);
                         ((2 * i + 1)%nat, [((3 * i + 2)%nat, (2 * (i + 1))%nat, 0)])]) (seq 0 n))
    [] (3 * n) (3 * n) [].
Definition C10b_expo_est (n : nat) (x : nat) : Z :=
  if Nat.odd x then Z.of_nat (n - Nat.div2 x) * 2 ^ Z.of_nat (n + 2) else 0.

Example C10b_astar_fuel_counterexample :
  VOk (C10b_expo_view 11) /\ nonneg (C10b_expo_view 11) /\ in_cap (C10b_expo_view 11) 0 /\
  astar (C10b_expo_view 11) 0 (fun _ => false) (C10b_expo_est 11) = OutOfFuel /\
  astar_run 6143 (C10b_expo_view 11) 0 (fun _ => false) (C10b_expo_est 11) = Ok None /\
  astar (C10b_expo_view 10) 0 (fun _ => false) (C10b_expo_est 10) = Ok None.
Proof.
  split; [apply vok_b_ok; vm_compute; reflexivity|].
  split; [apply nonneg_b_ok; vm_compute; reflexivity|].
  split; [vm_compute; lia|].
  split; [vm_compute; reflexivity|]. split; vm_compute; reflexivity.
Qed.

(* k_shortest_path on C10b_view: the zero-cost cycle 3 -> 4 -> 3 gives infinitely many walks of cost 7
   to 3 and to 4; node 2 has exactly two walks (costs 2 and 3), nodes 0 and 1 a single one *)
Example C10b_ksp_nonvacuous :
  k_shortest_path C10b_view 5 0 None 1 = Ok [(0%nat, 0); (1%nat, 1); (2%nat, 2); (3%nat, 7); (4%nat, 7)] /\
  k_shortest_path C10b_view 5 0 None 2 = Ok [(2%nat, 3); (3%nat, 7); (4%nat, 7)] /\
  k_shortest_path C10b_view 5 0 None 3 = Ok [(3%nat, 7); (4%nat, 7)] /\
  k_shortest_path C10b_view 5 0 None 0 = Ok [].
Proof.
  split; [vm_compute; reflexivity|]. split; [vm_compute; reflexivity|].
  split; vm_compute; reflexivity.
Qed.

(* the theorem applied: the third cheapest walk 0 -> 3 costs 7, the second cheapest 0 -> 2 costs 3,
   and there is no second walk 0 -> 1 *)
Example C10b_ksp_applied :
  kth_walk_cost C10b_view 0 3 3 7 /\ kth_walk_cost C10b_view 0 2 2 3 /\ forall d, ~ kth_walk_cost C10b_view 0 1 2 d.
Proof.
  destruct C10b_view_ok as [HV [HN [_ [HT HD]]]].
  assert (Hs : (0 < vbound C10b_view)%nat) by (vm_compute; lia).
  split; [|split].
  - destruct (ksp_gen_exact 3 HV HN HT Hs HD) as [m [E [_ H]]].
    vm_compute in E. injection E as <-. apply H. reflexivity.
  - destruct (ksp_gen_exact 2 HV HN HT Hs HD) as [m [E [_ H]]].
    vm_compute in E. injection E as <-. apply H. reflexivity.
  - destruct (ksp_gen_exact 2 HV HN HT Hs HD) as [m [E [_ H]]].
    vm_compute in E. injection E as <-. intros d Hd. apply H in Hd. vm_compute in Hd. discriminate.
Qed.

(* the hypothesis on the out-lists is needed: an out-list with the same entry twice is counted
   twice by the code, but it is one walk *)
Definition C10b_dup_view : view :=
  mkView true 2 (Some 2%nat) [0; 1]%nat [(0%nat, [(0%nat, 1%nat, 5); (0%nat, 1%nat, 5)])] [] 1 1 [].

Example C10b_ksp_dup :
  k_shortest_path C10b_dup_view 2 0 None 2 = Ok [(1%nat, 5)] /\ forall d, ~ kth_walk_cost C10b_dup_view 0 1 2 d.
Proof.
  split; [vm_compute; reflexivity|].
  intros d [[l [Nl [Ll Al]]] _].
  assert (Hw : forall p, walk C10b_dup_view 0 p 1 -> p = [(0%nat, 1%nat, 5)]).
  { intros p W. inversion W as [|a e p' b He Hp]; subst.
    vm_compute in He. assert (e = (0%nat, 1%nat, 5)) by (destruct He as [<-|[<-|[]]]; reflexivity). subst e.
    change (tgt (0%nat, 1%nat, 5)) with 1%nat in Hp.
    inversion Hp as [|a e' p'' b' He' Hp']; subst; [reflexivity|]. vm_compute in He'. destruct He'. }
  destruct l as [|p1 [|p2 [|p3 t]]]; try discriminate.
  rewrite (Hw p1) in Nl by (apply (Al p1); left; auto).
  rewrite (Hw p2) in Nl by (apply (Al p2); right; left; auto).
  inversion Nl as [|a t Hnin _]; subst. apply Hnin. left; auto.
Qed.

(* ------------------------------------------------------------------ pinned statements *)
Check C10b_astar_valid_partial : forall v s is_goal est, nonneg v ->
  astar v s is_goal est = OutOfFuel \/
  exists r, astar v s is_goal est = Ok r /\
    (r = None <-> ~ goal_reachable v is_goal s) /\
    forall c p, r = Some (c, p) ->
      exists t w, is_goal t = true /\ walk v s w t /\ walk_nodes s w = p /\ walk_cost w = c.
Check C10b_astar_run_valid : forall fuel v s is_goal est, nonneg v ->
  astar_run fuel v s is_goal est = OutOfFuel \/
  exists r, astar_run fuel v s is_goal est = Ok r /\
    (r = None <-> ~ goal_reachable v is_goal s) /\
    forall c p, r = Some (c, p) ->
      exists t w, is_goal t = true /\ walk v s w t /\ walk_nodes s w = p /\ walk_cost w = c.
Check C10b_astar_is_run :
  (forall v s g e, astar v s g e = astar_run astar_fuel v s g e) /\ Nat.eqb astar_fuel 5000 = true.
Check C10b_astar_run_total : forall fuel v s is_goal est, VOk v -> nonneg v ->
  (astar_fuel_bound v s <= fuel)%nat ->
  exists r, astar_run fuel v s is_goal est = Ok r /\
    (r = None <-> ~ goal_reachable v is_goal s) /\
    forall c p, r = Some (c, p) ->
      exists t w, is_goal t = true /\ walk v s w t /\ walk_nodes s w = p /\ walk_cost w = c.
Check C10b_astar_total_small : forall v s is_goal est, VOk v -> nonneg v ->
  (astar_fuel_bound v s <= astar_fuel)%nat ->
  exists r, astar v s is_goal est = Ok r /\
    (r = None <-> ~ goal_reachable v is_goal s) /\
    forall c p, r = Some (c, p) ->
      exists t w, is_goal t = true /\ walk v s w t /\ walk_nodes s w = p /\ walk_cost w = c.
Check C10b_astar_admissible_partial : forall v s is_goal est r, VOk v -> nonneg v -> in_cap v s ->
  (forall x, is_goal x = true -> 0 <= est x) -> admissible v is_goal est ->
  astar v s is_goal est = Ok r ->
  (r = None <-> ~ goal_reachable v is_goal s) /\
  forall c p, r = Some (c, p) ->
    goal_dist v is_goal s c /\
    exists t w, is_goal t = true /\ walk v s w t /\ walk_nodes s w = p /\ walk_cost w = c.
Check C10b_astar_run_admissible : forall fuel v s is_goal est r, VOk v -> nonneg v -> in_cap v s ->
  (forall x, is_goal x = true -> 0 <= est x) -> admissible v is_goal est ->
  astar_run fuel v s is_goal est = Ok r ->
  (r = None <-> ~ goal_reachable v is_goal s) /\
  forall c p, r = Some (c, p) ->
    goal_dist v is_goal s c /\
    exists t w, is_goal t = true /\ walk v s w t /\ walk_nodes s w = p /\ walk_cost w = c.
Check C10b_goal_dist_exists : forall v is_goal x, VOk v -> nonneg v -> in_cap v x ->
  goal_reachable v is_goal x -> exists d, goal_dist v is_goal x d.
Check C10b_goal_dist_unique : forall v is_goal x d1 d2,
  goal_dist v is_goal x d1 -> goal_dist v is_goal x d2 -> d1 = d2.
Check C10b_admissible_forms : forall v is_goal est,
  ((forall s, admissible_from v is_goal est s) -> admissible v is_goal est) /\
  (forall s, VOk v -> nonneg v -> in_cap v s -> admissible v is_goal est -> admissible_from v is_goal est s).
Check C10b_ksp_exact : forall v s k, VOk v -> nonneg v ->
  (forall a e, In e (out_edges v a) -> (tgt e < vbound v)%nat) -> (s < vbound v)%nat ->
  (forall a, NoDup (out_edges v a)) ->
  exists m, k_shortest_path v (vbound v) s None k = Ok m /\ NoDup (map fst m) /\
            forall x d, sget m x = Some d <-> kth_walk_cost v s x k d.
Check C10b_kth_walk_cost_facts : forall v s x,
  (forall k d1 d2, kth_walk_cost v s x k d1 -> kth_walk_cost v s x k d2 -> d1 = d2) /\
  (forall k d, kth_walk_cost v s x k d -> exists p, walk v s p x /\ walk_cost p = d) /\
  (forall d, kth_walk_cost v s x 1 d <-> is_dist v s x d) /\
  (forall d, ~ kth_walk_cost v s x 0 d).

Print Assumptions C10b_astar_valid_partial.
Print Assumptions C10b_astar_run_valid.
Print Assumptions C10b_astar_is_run.
Print Assumptions C10b_astar_run_total.
Print Assumptions C10b_astar_total_small.
Print Assumptions C10b_astar_small_applied.
Print Assumptions C10b_astar_admissible_partial.
Print Assumptions C10b_astar_run_admissible.
Print Assumptions C10b_goal_dist_exists.
Print Assumptions C10b_goal_dist_unique.
Print Assumptions C10b_admissible_forms.
Print Assumptions C10b_ksp_exact.
Print Assumptions C10b_kth_walk_cost_facts.
Print Assumptions C10b_astar_applied.
Print Assumptions C10b_astar_fuel_counterexample.
Print Assumptions C10b_ksp_applied.
Print Assumptions C10b_ksp_dup.
