(* C20b -- page_rank (src/algo/page_rank.rs), mirrored in exact rational arithmetic by
   Model/PageRankM.v (page_rank_q; page_rank_qr is the variant that reduces every partial sum, the
   one the differential run executes).  This file holds only the property theorems (closed by
   [exact]), their pinned statements ([Check]), their assumptions and the examples.

   Vocabulary:
     qsum l                 the sum of a list of rationals (Model/PageRankM.v)
     links v w x            w has an out-entry with target x;  out_deg v w: number of out-entries of w
     pr_pi v n d r          the unnormalised vector of one step;  pr_step: pr_pi divided by its sum,
                            None when the sum is zero (the code's `break`);  pr_iter; page_rank_q
     pr_view v              (Spec/PageRankSpec.v) the nodes of v are exactly 0 .. node_count-1, each once
                            (the code reads node i as from_index(i))
     targets_in v n         every out-entry of an index below n points below n
     some_pos n r           no entry of r is negative and some entry at an index below n is positive
     view_iso p v1 v2, closed_view   (Spec/ViewIso.v) the same abstract graph under the node map p
   Findings recorded here: the break can fire only for d == 0 (C20b_break_needs_d0; it does fire
   there: C20b_ex_break_d0), provided the out-entries point at nodes (C20b_ex_break_needs_targets);
   strict positivity of the ranks needs d < 1 (C20b_ex_zero_rank_d1). *)
From Coq Require Import QArith List.
From PG Require Import Lib.Io Model.View Model.PageRankM Spec.ViewIso Spec.PageRankSpec
                       Proofs.PageRankP Proofs.PageRankIsoP Proofs.PageRankRP Proofs.PageRankEx.
Import ListNotations.
Local Open Scope Q_scope.

(* P1. one rank per node; no hypothesis *)
Theorem C20b_page_rank_length : forall v d k, length (page_rank_q v d k) = vnode_count v.
Proof. exact page_rank_length. Qed.

(* P2. no rank is negative *)
Theorem C20b_page_rank_nonneg : forall v d k, 0 <= d -> d <= 1 ->
  forall q, In q (page_rank_q v d k) -> 0 <= q.
Proof. exact page_rank_nonneg. Qed.

(* P3. the ranks sum to one (any d, any view with a node) *)
Theorem C20b_page_rank_sums_to_one : forall v d k, (0 < vnode_count v)%nat ->
  qsum (page_rank_q v d k) == 1.
Proof. exact page_rank_sum_one. Qed.

(* P4a. 0 < d < 1: every rank is strictly positive, on every view *)
Theorem C20b_page_rank_positive : forall v d k, 0 < d -> d < 1 ->
  forall q, In q (page_rank_q v d k) -> 0 < q.
Proof. exact page_rank_positive. Qed.

(* P4b. 0 < d < 1: the break never fires, every iteration is a successful step; no hypothesis
   on the view beyond having a node *)
Theorem C20b_page_rank_no_break_inner : forall v d k, 0 < d -> d < 1 -> (0 < vnode_count v)%nat ->
  exists r', pr_step v (vnode_count v) d (page_rank_q v d k) = Some r' /\ page_rank_q v d (S k) = r'.
Proof. exact page_rank_no_break_lt1. Qed.

(* P4c. 0 < d <= 1, out-entries pointing at nodes: the break never fires either *)
Theorem C20b_page_rank_no_break : forall v d k, 0 < d -> d <= 1 -> (0 < vnode_count v)%nat ->
  targets_in v (vnode_count v) ->
  exists r', pr_step v (vnode_count v) d (page_rank_q v d k) = Some r' /\ page_rank_q v d (S k) = r'.
Proof. exact page_rank_no_break. Qed.

(* P4d. so the break needs d == 0: one step on any non-negative vector with a positive entry *)
Theorem C20b_break_needs_d0 : forall v n d r, 0 <= d -> d <= 1 -> (0 < n)%nat ->
  targets_in v n -> some_pos n r -> pr_step v n d r = None -> d == 0.
Proof. exact pr_step_None_d0. Qed.

(* ... and every vector the iteration reaches is such a vector *)
Theorem C20b_rank_invariant : forall v d k, 0 <= d -> d <= 1 -> (0 < vnode_count v)%nat ->
  some_pos (vnode_count v) (page_rank_q v d k).
Proof. exact page_rank_some_pos. Qed.

(* one more iteration is one more step on the result; after a break nothing changes *)
Theorem C20b_page_rank_unroll : forall v d k, (0 < vnode_count v)%nat ->
  page_rank_q v d (S k) =
  match pr_step v (vnode_count v) d (page_rank_q v d k) with
  | Some r' => r'
  | None => page_rank_q v d k
  end.
Proof. exact page_rank_unroll. Qed.

(* where targets_in comes from *)
Theorem C20b_targets_in_from_closed : forall v, pr_view v -> closed_view v ->
  targets_in v (vnode_count v).
Proof. exact pr_view_closed_targets. Qed.

Theorem C20b_targets_in_from_iso : forall p v1 v2, view_iso p v1 v2 -> pr_view v1 -> pr_view v2 ->
  targets_in v1 (vnode_count v1) /\ targets_in v2 (vnode_count v2).
Proof. exact iso_targets_in. Qed.

(* P5. the rank of a node depends only on the abstract graph *)
Theorem C20b_page_rank_equivariant : forall p v1 v2 d k,
  view_iso p v1 v2 -> pr_view v1 -> pr_view v2 ->
  forall x, (x < vnode_count v1)%nat ->
  nth (p x) (page_rank_q v2 d k) 0 == nth x (page_rank_q v1 d k) 0.
Proof. exact page_rank_equivariant. Qed.

(* nodes related by an automorphism have equal rank *)
Theorem C20b_symmetric_nodes_equal_rank : forall p v d k, view_iso p v v -> pr_view v ->
  forall x, (x < vnode_count v)%nat ->
  nth (p x) (page_rank_q v d k) 0 == nth x (page_rank_q v d k) 0.
Proof. exact symmetric_nodes_equal_rank. Qed.

(* whether the break fires at iteration k does not depend on the numbering either *)
Theorem C20b_break_corresponds : forall p v1 v2 d k, view_iso p v1 v2 -> pr_view v1 -> pr_view v2 ->
  (pr_step v1 (vnode_count v1) d (page_rank_q v1 d k) = None <->
   pr_step v2 (vnode_count v2) d (page_rank_q v2 d k) = None).
Proof. exact page_rank_step_corresponds. Qed.

(* P6. one step, entry by entry; r is read by index (a missing entry reads as 0) *)
Theorem C20b_page_rank_step_formula : forall v n d r x, (x < n)%nat ->
  nth x (pr_pi v n d r) 0 ==
  qsum (map (fun w => if links v w x then d * nth w r 0 / out_deg v w
                      else if Qeq_bool (out_deg v w) 0 then d * nth w r 0 / inject_Z (Z.of_nat n)
                      else (1 - d) * nth w r 0 / inject_Z (Z.of_nat n))
            (seq 0 n)).
Proof. exact pr_step_formula. Qed.

(* P7. the variant with reduced partial sums computes the same rationals *)
Theorem C20b_page_rank_qr_equiv : forall v d k, Forall2 Qeq (page_rank_qr v d k) (page_rank_q v d k).
Proof. exact page_rank_qr_equiv. Qed.

(* P8. the printed integer does not depend on the representation of the rational *)
Theorem C20b_scale9_compat : forall q1 q2, q1 == q2 -> scale9 q1 = scale9 q2.
Proof. exact scale9_compat. Qed.

Theorem C20b_prank_output : forall v d k,
  map scale9 (page_rank_qr v d k) = map scale9 (page_rank_q v d k).
Proof. exact prank_output. Qed.

(* ------------------------------------------------------------------ *)
(* Examples (views in Proofs/PageRankEx.v)                              *)

(* the hypotheses are satisfiable *)
Example C20b_ex_pr_views :
  pr_view ex_cycle3 /\ pr_view ex_path3 /\ pr_view ex_path3' /\ pr_view ex_two0 /\ pr_view ex_src3 /\
  targets_in ex_cycle3 (vnode_count ex_cycle3) /\ targets_in ex_path3 (vnode_count ex_path3) /\
  targets_in ex_src3 (vnode_count ex_src3).
Proof.
  exact (conj ex_cycle3_pr_view (conj ex_path3_pr_view (conj ex_path3'_pr_view (conj ex_two0_pr_view
        (conj ex_src3_pr_view (conj ex_cycle3_targets (conj ex_path3_targets ex_src3_targets))))))).
Qed.

(* the directed 3-cycle: uniform *)
Example C20b_ex_cycle : page_rank_q ex_cycle3 (17#20) 3 = [1#3; 1#3; 1#3].
Proof. vm_compute. reflexivity. Qed.

(* the path 0 -> 1 -> 2, two iterations *)
Example C20b_ex_path : page_rank_q ex_path3 (17#20) 2 = [1489 # 8979; 2593 # 8979; 4897 # 8979].
Proof. vm_compute. reflexivity. Qed.

(* ... the variant and the printed line agree on it *)
Example C20b_ex_path_qr :
  page_rank_qr ex_path3 (17#20) 2 = [1489 # 8979; 2593 # 8979; 4897 # 8979] /\
  map scale9 (page_rank_q ex_path3 (17#20) 2) = [165831384; 288784943; 545383673]%Z.
Proof. vm_compute. split; reflexivity. Qed.

(* the same path stored as 2 -> 0 -> 1 *)
Example C20b_ex_twin : page_rank_q ex_path3' (17#20) 2 = [2593 # 8979; 4897 # 8979; 1489 # 8979].
Proof. vm_compute. reflexivity. Qed.

Example C20b_ex_twin_iso : view_iso ex_tw ex_path3 ex_path3'.
Proof. exact ex_twin_iso. Qed.

(* P5 on the twins, for every iteration count and every damping factor *)
Example C20b_ex_twin_equivariant : forall d k x, (x < 3)%nat ->
  nth (ex_tw x) (page_rank_q ex_path3' d k) 0 == nth x (page_rank_q ex_path3 d k) 0.
Proof.
  exact (fun d k => page_rank_equivariant ex_tw ex_path3 ex_path3' d k
                      ex_twin_iso ex_path3_pr_view ex_path3'_pr_view).
Qed.

(* the rotation is an automorphism of the cycle: all three ranks are equal, always *)
Example C20b_ex_cycle_symmetric : forall d k x, (x < 3)%nat ->
  nth (ex_rot x) (page_rank_q ex_cycle3 d k) 0 == nth x (page_rank_q ex_cycle3 d k) 0.
Proof.
  exact (fun d k => symmetric_nodes_equal_rank ex_rot ex_cycle3 d k ex_rot_auto ex_cycle3_pr_view).
Qed.

(* d = 0 on two nodes without edges: the normalising sum is zero at once, the break fires and
   the initial vector is returned *)
Example C20b_ex_break_d0 :
  pr_step ex_two0 2 0 (page_rank_q ex_two0 0 0) = None /\ page_rank_q ex_two0 0 5 = [1#2; 1#2].
Proof. vm_compute. split; reflexivity. Qed.

(* why C20b_break_needs_d0 asks the out-entries to point at nodes: a single index with an
   out-entry leaving the node set; with d = 1 the break fires *)
Example C20b_ex_break_needs_targets :
  pr_view ex_dangling /\ ~ targets_in ex_dangling (vnode_count ex_dangling) /\
  pr_step ex_dangling 1 1 (page_rank_q ex_dangling 1 0) = None /\ page_rank_q ex_dangling 1 5 = [1].
Proof.
  exact (conj ex_dangling_pr_view (conj ex_dangling_not_targets (conj eq_refl eq_refl))).
Qed.

(* why C20b_page_rank_positive asks d < 1: 0 -> 1 <-> 2 with d = 1 gives node 0 rank zero *)
Example C20b_ex_zero_rank_d1 : page_rank_q ex_src3 1 4 = [0; 1#3; 2#3].
Proof. vm_compute. reflexivity. Qed.

(* ------------------------------------------------------------------ *)

Check C20b_page_rank_length : forall v d k, length (page_rank_q v d k) = vnode_count v.

Check C20b_page_rank_nonneg : forall v d k, 0 <= d -> d <= 1 ->
  forall q, In q (page_rank_q v d k) -> 0 <= q.

Check C20b_page_rank_sums_to_one : forall v d k, (0 < vnode_count v)%nat ->
  qsum (page_rank_q v d k) == 1.

Check C20b_page_rank_positive : forall v d k, 0 < d -> d < 1 ->
  forall q, In q (page_rank_q v d k) -> 0 < q.

Check C20b_page_rank_no_break_inner : forall v d k, 0 < d -> d < 1 -> (0 < vnode_count v)%nat ->
  exists r', pr_step v (vnode_count v) d (page_rank_q v d k) = Some r' /\ page_rank_q v d (S k) = r'.

Check C20b_page_rank_no_break : forall v d k, 0 < d -> d <= 1 -> (0 < vnode_count v)%nat ->
  targets_in v (vnode_count v) ->
  exists r', pr_step v (vnode_count v) d (page_rank_q v d k) = Some r' /\ page_rank_q v d (S k) = r'.

Check C20b_break_needs_d0 : forall v n d r, 0 <= d -> d <= 1 -> (0 < n)%nat ->
  targets_in v n -> some_pos n r -> pr_step v n d r = None -> d == 0.

Check C20b_rank_invariant : forall v d k, 0 <= d -> d <= 1 -> (0 < vnode_count v)%nat ->
  some_pos (vnode_count v) (page_rank_q v d k).

Check C20b_page_rank_unroll : forall v d k, (0 < vnode_count v)%nat ->
  page_rank_q v d (S k) =
  match pr_step v (vnode_count v) d (page_rank_q v d k) with
  | Some r' => r'
  | None => page_rank_q v d k
  end.

Check C20b_targets_in_from_closed : forall v, pr_view v -> closed_view v ->
  targets_in v (vnode_count v).

Check C20b_targets_in_from_iso : forall p v1 v2, view_iso p v1 v2 -> pr_view v1 -> pr_view v2 ->
  targets_in v1 (vnode_count v1) /\ targets_in v2 (vnode_count v2).

Check C20b_page_rank_equivariant : forall p v1 v2 d k,
  view_iso p v1 v2 -> pr_view v1 -> pr_view v2 ->
  forall x, (x < vnode_count v1)%nat ->
  nth (p x) (page_rank_q v2 d k) 0 == nth x (page_rank_q v1 d k) 0.

Check C20b_symmetric_nodes_equal_rank : forall p v d k, view_iso p v v -> pr_view v ->
  forall x, (x < vnode_count v)%nat ->
  nth (p x) (page_rank_q v d k) 0 == nth x (page_rank_q v d k) 0.

Check C20b_break_corresponds : forall p v1 v2 d k, view_iso p v1 v2 -> pr_view v1 -> pr_view v2 ->
  (pr_step v1 (vnode_count v1) d (page_rank_q v1 d k) = None <->
   pr_step v2 (vnode_count v2) d (page_rank_q v2 d k) = None).

Check C20b_page_rank_step_formula : forall v n d r x, (x < n)%nat ->
  nth x (pr_pi v n d r) 0 ==
  qsum (map (fun w => if links v w x then d * nth w r 0 / out_deg v w
                      else if Qeq_bool (out_deg v w) 0 then d * nth w r 0 / inject_Z (Z.of_nat n)
                      else (1 - d) * nth w r 0 / inject_Z (Z.of_nat n))
            (seq 0 n)).

Check C20b_page_rank_qr_equiv : forall v d k, Forall2 Qeq (page_rank_qr v d k) (page_rank_q v d k).

Check C20b_scale9_compat : forall q1 q2, q1 == q2 -> scale9 q1 = scale9 q2.

Check C20b_prank_output : forall v d k,
  map scale9 (page_rank_qr v d k) = map scale9 (page_rank_q v d k).

Print Assumptions C20b_page_rank_length.
Print Assumptions C20b_page_rank_nonneg.
Print Assumptions C20b_page_rank_sums_to_one.
Print Assumptions C20b_page_rank_positive.
Print Assumptions C20b_page_rank_no_break_inner.
Print Assumptions C20b_page_rank_no_break.
Print Assumptions C20b_break_needs_d0.
Print Assumptions C20b_rank_invariant.
Print Assumptions C20b_page_rank_unroll.
Print Assumptions C20b_targets_in_from_closed.
Print Assumptions C20b_targets_in_from_iso.
Print Assumptions C20b_page_rank_equivariant.
Print Assumptions C20b_symmetric_nodes_equal_rank.
Print Assumptions C20b_break_corresponds.
Print Assumptions C20b_page_rank_step_formula.
Print Assumptions C20b_page_rank_qr_equiv.
Print Assumptions C20b_scale9_compat.
Print Assumptions C20b_prank_output.
Print Assumptions C20b_ex_pr_views.
Print Assumptions C20b_ex_cycle.
Print Assumptions C20b_ex_path.
Print Assumptions C20b_ex_path_qr.
Print Assumptions C20b_ex_twin.
Print Assumptions C20b_ex_twin_iso.
Print Assumptions C20b_ex_twin_equivariant.
Print Assumptions C20b_ex_cycle_symmetric.
Print Assumptions C20b_ex_break_d0.
Print Assumptions C20b_ex_break_needs_targets.
Print Assumptions C20b_ex_zero_rank_d1.
