(* C20d — greedy_feedback_arc_set: the mirror Model/FasM.v (good_node_sequence, the Eades-Lin-Smyth
   node order, and the final edge filter greedy_fas; the differential run compares the crate's answer
   with greedy_fas exactly) returns a feedback arc set, for every view, with no size bound.
   This file holds only the property theorems (closed by [exact]), their pinned statements ([Check]),
   their assumptions, and examples.

   Vocabulary:
     (Model/FasM.v)   build_nodes, push_node, pop_bucket, update_neighbours, drain, fas_loop,
                      good_node_sequence es, greedy_fas v, bucket_get s k, suitable n
     (Proofs/FasP.v)  Inv s        the bucket invariant: node i is in bucket k iff f_inlist i = true and
                                   k = suitable (node i) for its CURRENT degrees; no bucket lists a node twice;
                                   the delta-degree buckets have distinct keys
                      sig s        the list of (graph index, f_inlist) of the node table
                      count l      how many entries of a signature are still in a bucket
                      falses l     graph indices of the entries that have left the buckets
                      gixs s       graph indices of the table
                      Emit s em s' from s to s' exactly the nodes em left the buckets (Inv s', same table
                                   otherwise, count drops by |em|)
                      init_state es            the state after the initial push of every node
                      fas_loop_g df fuel       fas_loop with the fuel of drain as a parameter
                      good_node_sequence_fuel df fuel es   good_node_sequence with both fuels as parameters
     (Proofs/FasP2.v) es_of v      the (source, target) pairs of verefs v, in order
                      fas_seq v    good_node_sequence (es_of v)
                      pos x l      the index of the first occurrence of x in l (0 when absent)
                      backward sq (e,s,t,w)    pos t sq <= pos s sq
                      id4 (e,s,t,w) = e
     (Spec)           VOk, nodes_ok, inout_ids_ok, erefs_out_ok, edge_ids, acyclic, step, without_edges *)
From Coq Require Import Permutation.
From PG Require Import Lib.Io Model.View Model.MiscM Model.FasM Spec.Reach Spec.MiscSpec
                       Proofs.MiscColorP Proofs.MiscFasP Proofs.MiscCheckP Proofs.FasP Proofs.FasP2 Proofs.FasP3.
Import ListNotations.

(* ------------------------------------------------------------------ *)
(* F1. the node sequence is an ordering of the endpoints                *)

(* (a) build_nodes: one table entry per endpoint, distinct graph indices, none in a bucket yet *)
Theorem C20d_build_nodes_endpoints : forall es,
  NoDup (map f_gix (build_nodes es)) /\
  (forall x, In x (map f_gix (build_nodes es)) <-> exists s t, In (s, t) es /\ (x = s \/ x = t)) /\
  (forall n, In n (build_nodes es) -> f_inlist n = false) /\
  length (build_nodes es) <= 2 * length es.
Proof.
  intros es. exact (conj (proj1 (build_nodes_endpoints es))
                   (conj (proj2 (build_nodes_endpoints es))
                   (conj (build_nodes_inlist es) (build_nodes_len es)))).
Qed.

(* (b) after the initial pushes every node is in its suitable bucket *)
Theorem C20d_init_invariant : forall es,
  Inv (init_state es) /\ gixs (init_state es) = map f_gix (build_nodes es) /\
  falses (sig (init_state es)) = [] /\ count (sig (init_state es)) = length (build_nodes es).
Proof. intros es. exact (init_state_spec es). Qed.

(* (b) what the invariant says *)
Theorem C20d_invariant_meaning : forall s, Inv s ->
  (forall k i, In i (bucket_get s k) <->
               (f_inlist (fnode_at (fs_nodes s) i) = true /\ suitable (fnode_at (fs_nodes s) i) = k)) /\
  (forall k, NoDup (bucket_get s k)) /\ NoDup (map fst (fs_dd s)).
Proof. intros s H. exact (conj (inv_in s H) (conj (inv_nd s H) (inv_keys s H))). Qed.

(* (b) relocating a neighbour (remove from the old bucket, change a degree, push on the new one) keeps the
   invariant and no node enters or leaves the buckets *)
Theorem C20d_relocate_invariant : forall ix out s j, Inv s ->
  Inv (relocate ix out s j) /\ sig (relocate ix out s j) = sig s.
Proof. intros ix out s j H. exact (relocate_spec ix out s j H). Qed.

(* (b) one pop and the update of the neighbours: exactly the popped node leaves *)
Theorem C20d_pop_step : forall s k i s1, Inv s -> pop_bucket s k = Some (i, s1) ->
  Emit s [f_gix (fnode_at (fs_nodes s1) i)] (update_neighbours s1 i).
Proof. intros s k i s1 H P. exact (pop_step s k i s1 H P). Qed.

Theorem C20d_Emit_meaning : forall s em s', Emit s em s' <->
  (Inv s' /\ gixs s' = gixs s /\ Permutation (falses (sig s')) (em ++ falses (sig s)) /\
   count (sig s') + length em = count (sig s)).
Proof. intros s em s'. exact (iff_refl _). Qed.

(* (c) drain: with any two fuels above the number of nodes still in the buckets the result is the same,
   the invariant holds afterwards and the drained bucket is empty (the fuel is never exhausted on a
   non-empty bucket); fas_loop calls it with S (table length) *)
Theorem C20d_drain_fuel_sufficient : forall k f1 f2 s acc, Inv s -> count (sig s) < f1 -> count (sig s) < f2 ->
  drain f1 k s acc = drain f2 k s acc /\
  Inv (fst (drain f1 k s acc)) /\ bucket_get (fst (drain f1 k s acc)) k = [] /\
  count (sig (fst (drain f1 k s acc))) <= count (sig s).
Proof. intros k f1 f2 s acc H H1 H2. exact (drain_fuel_sufficient k f1 f2 s acc H H1 H2). Qed.

(* (c) fas_loop is fas_loop_g at the drain fuel it uses; good_node_sequence_fuel at the fuels the code uses *)
Theorem C20d_fas_loop_g : forall fuel s s1 s2,
  fas_loop fuel s s1 s2 = fas_loop_g (S (length (fs_nodes s))) fuel s s1 s2.
Proof. intros fuel s s1 s2. exact (fas_loop_eq fuel s s1 s2). Qed.

Theorem C20d_good_node_sequence_fuel_def : forall df fuel es,
  good_node_sequence_fuel df fuel es =
  fas_loop_g df fuel (fold_left push_node (seq 0 (length (build_nodes es))) (mkFs (build_nodes es) [] [] [])) [] [].
Proof. intros df fuel es. exact eq_refl. Qed.

(* (c) the main loop from any state that satisfies the invariant: a permutation of the table's graph indices,
   the same for all fuels above the number of nodes still in the buckets *)
Theorem C20d_loop_main : forall fuel df fuel' df' s s1 s2, Inv s ->
  Permutation (s1 ++ s2) (falses (sig s)) ->
  count (sig s) < fuel -> count (sig s) < df -> count (sig s) < fuel' -> count (sig s) < df' ->
  Permutation (fas_loop_g df fuel s s1 s2) (gixs s) /\
  fas_loop_g df' fuel' s s1 s2 = fas_loop_g df fuel s s1 s2.
Proof. intros fuel df fuel' df' s s1 s2 H HP H1 H2 H3 H4. exact (loop_main fuel df fuel' df' s s1 s2 H HP H1 H2 H3 H4). Qed.

(* (c) the fuel of good_node_sequence (S n for the loop, S n for every drain, n = table length) is sufficient:
   more fuel gives the same result; 2 |es| + 1 is always enough *)
Theorem C20d_fuel_sufficient : forall es df fuel,
  (length (build_nodes es) < df -> length (build_nodes es) < fuel ->
   good_node_sequence_fuel df fuel es = good_node_sequence es) /\
  (2 * length es < df -> 2 * length es < fuel ->
   good_node_sequence_fuel df fuel es = good_node_sequence es).
Proof. intros es df fuel. exact (conj (fuel_sufficient es df fuel) (fuel_sufficient_edges es df fuel)). Qed.

(* F1 *)
Theorem C20d_sequence_is_an_ordering : forall es,
  NoDup (good_node_sequence es) /\
  forall x, In x (good_node_sequence es) <-> exists s t, In (s, t) es /\ (x = s \/ x = t).
Proof. intros es. exact (sequence_is_an_ordering es). Qed.

(* more precisely: a permutation of the table's graph indices *)
Theorem C20d_sequence_permutation : forall es,
  Permutation (good_node_sequence es) (map f_gix (build_nodes es)).
Proof. intros es. exact (good_node_sequence_perm es). Qed.

(* positions in the sequence are defined for both ends of every edge, and injective *)
Theorem C20d_positions : forall v,
  (forall e s t w, In (e, s, t, w) (verefs v) -> In s (fas_seq v) /\ In t (fas_seq v)) /\
  (forall x y, In x (fas_seq v) -> In y (fas_seq v) -> pos x (fas_seq v) = pos y (fas_seq v) -> x = y).
Proof. intros v. exact (conj (endpoints_in_seq v) (pos_inj (fas_seq v))). Qed.

(* ------------------------------------------------------------------ *)
(* F3. the exact shape of the answer                                    *)

Theorem C20d_greedy_fas_exact_shape : forall v,
  greedy_fas v = map id4 (filter (backward (fas_seq v)) (verefs v)).
Proof. intros v. exact (greedy_fas_exact_shape v). Qed.

Theorem C20d_greedy_fas_members : forall v e,
  In e (greedy_fas v) <-> exists s t w, In (e, s, t, w) (verefs v) /\ pos t (fas_seq v) <= pos s (fas_seq v).
Proof. intros v e. exact (greedy_fas_in v e). Qed.

(* ------------------------------------------------------------------ *)
(* F2. the answer is a feedback arc set                                 *)

(* every edge that is left points strictly forward in the sequence *)
Theorem C20d_remaining_edges_forward : forall v, nodes_ok v -> erefs_out_ok v ->
  forall a b, step (without_edges v (greedy_fas v)) a b -> pos a (fas_seq v) < pos b (fas_seq v).
Proof. intros v Hn He. exact (remaining_forward v Hn He). Qed.

(* a strict ranking that every edge increases excludes cycles *)
Theorem C20d_rank_acyclic : forall v (r : nat -> nat), (forall a b, step v a b -> r a < r b) -> acyclic v.
Proof. intros v r H. exact (rank_acyclic v r H). Qed.

(* erefs_out_ok v: edge_references and the out-lists describe the same edges and an id names one edge
   (a directed view; greedy_feedback_arc_set requires EdgeType = Directed) *)
Theorem C20d_greedy_fas_is_fas : forall v, VOk v -> inout_ids_ok v -> erefs_out_ok v ->
  fas_check v (greedy_fas v) = 0 /\
  NoDup (greedy_fas v) /\ incl (greedy_fas v) (edge_ids v) /\
  (forall e s w, In (e, s, s, w) (verefs v) -> In e (greedy_fas v)) /\
  acyclic (without_edges v (greedy_fas v)).
Proof.
  intros v Hv Hi He.
  exact (conj (greedy_fas_check v Hv Hi He) (greedy_fas_FasOK v (proj1 (proj2 Hv)) He)).
Qed.

(* the meaning does not need the in-lists *)
Theorem C20d_greedy_fas_is_fas_out : forall v, nodes_ok v -> erefs_out_ok v ->
  NoDup (greedy_fas v) /\ incl (greedy_fas v) (edge_ids v) /\
  (forall e s w, In (e, s, s, w) (verefs v) -> In e (greedy_fas v)) /\
  acyclic (without_edges v (greedy_fas v)).
Proof. intros v Hn He. exact (greedy_fas_FasOK v Hn He). Qed.

(* ------------------------------------------------------------------ *)
(* F4. sinks last (the sink half of the heuristic's defining behaviour)  *)

(* the table of build_nodes holds the edges as table indices: the out- and in-lists are symmetric
   (multiplicities included), every edge is an out-entry, every out-entry is an edge *)
Theorem C20d_build_nodes_lists : forall es,
  (forall a b, count_occ Nat.eq_dec (f_out (fnode_at (build_nodes es) a)) b =
               count_occ Nat.eq_dec (f_in (fnode_at (build_nodes es) b)) a) /\
  (forall s t, In (s, t) es -> exists a b, a < length (build_nodes es) /\ b < length (build_nodes es) /\
     f_gix (fnode_at (build_nodes es) a) = s /\ f_gix (fnode_at (build_nodes es) b) = t /\
     In b (f_out (fnode_at (build_nodes es) a))) /\
  (forall a b, In b (f_out (fnode_at (build_nodes es) a)) ->
     a < length (build_nodes es) /\ b < length (build_nodes es) /\
     In (f_gix (fnode_at (build_nodes es) a), f_gix (fnode_at (build_nodes es) b)) es).
Proof. intros es. exact (BI_build es). Qed.

(* an edge into a node that has no outgoing edge (self-loops included) points forward in the sequence:
   such a node is placed after all its in-neighbours *)
Theorem C20d_sinks_last : forall es s t, In (s, t) es -> (forall x, ~ In (t, x) es) ->
  pos s (good_node_sequence es) < pos t (good_node_sequence es).
Proof. intros es s t H1 H2. exact (sinks_last es s t H1 H2). Qed.

(* hence it is never returned *)
Theorem C20d_sinks_last_view : forall v e s t w, In (e, s, t, w) (verefs v) ->
  (forall e' x w', ~ In (e', t, x, w') (verefs v)) ->
  pos s (fas_seq v) < pos t (fas_seq v) /\ (NoDup (map id4 (verefs v)) -> ~ In e (greedy_fas v)).
Proof. intros v e s t w H1 H2. exact (sinks_last_view v e s t w H1 H2). Qed.

(* ------------------------------------------------------------------ *)
(* pinned statements                                                    *)

Check C20d_build_nodes_endpoints : forall es,
  NoDup (map f_gix (build_nodes es)) /\
  (forall x, In x (map f_gix (build_nodes es)) <-> exists s t, In (s, t) es /\ (x = s \/ x = t)) /\
  (forall n, In n (build_nodes es) -> f_inlist n = false) /\
  length (build_nodes es) <= 2 * length es.
Check C20d_init_invariant : forall es,
  Inv (init_state es) /\ gixs (init_state es) = map f_gix (build_nodes es) /\
  falses (sig (init_state es)) = [] /\ count (sig (init_state es)) = length (build_nodes es).
Check C20d_invariant_meaning : forall s, Inv s ->
  (forall k i, In i (bucket_get s k) <->
               (f_inlist (fnode_at (fs_nodes s) i) = true /\ suitable (fnode_at (fs_nodes s) i) = k)) /\
  (forall k, NoDup (bucket_get s k)) /\ NoDup (map fst (fs_dd s)).
Check C20d_relocate_invariant : forall ix out s j, Inv s ->
  Inv (relocate ix out s j) /\ sig (relocate ix out s j) = sig s.
Check C20d_pop_step : forall s k i s1, Inv s -> pop_bucket s k = Some (i, s1) ->
  Emit s [f_gix (fnode_at (fs_nodes s1) i)] (update_neighbours s1 i).
Check C20d_Emit_meaning : forall s em s', Emit s em s' <->
  (Inv s' /\ gixs s' = gixs s /\ Permutation (falses (sig s')) (em ++ falses (sig s)) /\
   count (sig s') + length em = count (sig s)).
Check C20d_drain_fuel_sufficient : forall k f1 f2 s acc, Inv s -> count (sig s) < f1 -> count (sig s) < f2 ->
  drain f1 k s acc = drain f2 k s acc /\
  Inv (fst (drain f1 k s acc)) /\ bucket_get (fst (drain f1 k s acc)) k = [] /\
  count (sig (fst (drain f1 k s acc))) <= count (sig s).
Check C20d_fas_loop_g : forall fuel s s1 s2,
  fas_loop fuel s s1 s2 = fas_loop_g (S (length (fs_nodes s))) fuel s s1 s2.
Check C20d_good_node_sequence_fuel_def : forall df fuel es,
  good_node_sequence_fuel df fuel es =
  fas_loop_g df fuel (fold_left push_node (seq 0 (length (build_nodes es))) (mkFs (build_nodes es) [] [] [])) [] [].
Check C20d_loop_main : forall fuel df fuel' df' s s1 s2, Inv s ->
  Permutation (s1 ++ s2) (falses (sig s)) ->
  count (sig s) < fuel -> count (sig s) < df -> count (sig s) < fuel' -> count (sig s) < df' ->
  Permutation (fas_loop_g df fuel s s1 s2) (gixs s) /\
  fas_loop_g df' fuel' s s1 s2 = fas_loop_g df fuel s s1 s2.
Check C20d_fuel_sufficient : forall es df fuel,
  (length (build_nodes es) < df -> length (build_nodes es) < fuel ->
   good_node_sequence_fuel df fuel es = good_node_sequence es) /\
  (2 * length es < df -> 2 * length es < fuel ->
   good_node_sequence_fuel df fuel es = good_node_sequence es).
Check C20d_sequence_is_an_ordering : forall es,
  NoDup (good_node_sequence es) /\
  forall x, In x (good_node_sequence es) <-> exists s t, In (s, t) es /\ (x = s \/ x = t).
Check C20d_sequence_permutation : forall es,
  Permutation (good_node_sequence es) (map f_gix (build_nodes es)).
Check C20d_positions : forall v,
  (forall e s t w, In (e, s, t, w) (verefs v) -> In s (fas_seq v) /\ In t (fas_seq v)) /\
  (forall x y, In x (fas_seq v) -> In y (fas_seq v) -> pos x (fas_seq v) = pos y (fas_seq v) -> x = y).
Check C20d_greedy_fas_exact_shape : forall v,
  greedy_fas v = map id4 (filter (backward (fas_seq v)) (verefs v)).
Check C20d_greedy_fas_members : forall v e,
  In e (greedy_fas v) <-> exists s t w, In (e, s, t, w) (verefs v) /\ pos t (fas_seq v) <= pos s (fas_seq v).
Check C20d_remaining_edges_forward : forall v, nodes_ok v -> erefs_out_ok v ->
  forall a b, step (without_edges v (greedy_fas v)) a b -> pos a (fas_seq v) < pos b (fas_seq v).
Check C20d_rank_acyclic : forall v (r : nat -> nat), (forall a b, step v a b -> r a < r b) -> acyclic v.
Check C20d_greedy_fas_is_fas : forall v, VOk v -> inout_ids_ok v -> erefs_out_ok v ->
  fas_check v (greedy_fas v) = 0 /\
  NoDup (greedy_fas v) /\ incl (greedy_fas v) (edge_ids v) /\
  (forall e s w, In (e, s, s, w) (verefs v) -> In e (greedy_fas v)) /\
  acyclic (without_edges v (greedy_fas v)).
Check C20d_greedy_fas_is_fas_out : forall v, nodes_ok v -> erefs_out_ok v ->
  NoDup (greedy_fas v) /\ incl (greedy_fas v) (edge_ids v) /\
  (forall e s w, In (e, s, s, w) (verefs v) -> In e (greedy_fas v)) /\
  acyclic (without_edges v (greedy_fas v)).
Check C20d_build_nodes_lists : forall es,
  (forall a b, count_occ Nat.eq_dec (f_out (fnode_at (build_nodes es) a)) b =
               count_occ Nat.eq_dec (f_in (fnode_at (build_nodes es) b)) a) /\
  (forall s t, In (s, t) es -> exists a b, a < length (build_nodes es) /\ b < length (build_nodes es) /\
     f_gix (fnode_at (build_nodes es) a) = s /\ f_gix (fnode_at (build_nodes es) b) = t /\
     In b (f_out (fnode_at (build_nodes es) a))) /\
  (forall a b, In b (f_out (fnode_at (build_nodes es) a)) ->
     a < length (build_nodes es) /\ b < length (build_nodes es) /\
     In (f_gix (fnode_at (build_nodes es) a), f_gix (fnode_at (build_nodes es) b)) es).
Check C20d_sinks_last : forall es s t, In (s, t) es -> (forall x, ~ In (t, x) es) ->
  pos s (good_node_sequence es) < pos t (good_node_sequence es).
Check C20d_sinks_last_view : forall v e s t w, In (e, s, t, w) (verefs v) ->
  (forall e' x w', ~ In (e', t, x, w') (verefs v)) ->
  pos s (fas_seq v) < pos t (fas_seq v) /\ (NoDup (map id4 (verefs v)) -> ~ In e (greedy_fas v)).

Print Assumptions C20d_build_nodes_endpoints.
Print Assumptions C20d_init_invariant.
Print Assumptions C20d_invariant_meaning.
Print Assumptions C20d_relocate_invariant.
Print Assumptions C20d_pop_step.
Print Assumptions C20d_Emit_meaning.
Print Assumptions C20d_drain_fuel_sufficient.
Print Assumptions C20d_fas_loop_g.
Print Assumptions C20d_good_node_sequence_fuel_def.
Print Assumptions C20d_loop_main.
Print Assumptions C20d_fuel_sufficient.
Print Assumptions C20d_sequence_is_an_ordering.
Print Assumptions C20d_sequence_permutation.
Print Assumptions C20d_positions.
Print Assumptions C20d_greedy_fas_exact_shape.
Print Assumptions C20d_greedy_fas_members.
Print Assumptions C20d_remaining_edges_forward.
Print Assumptions C20d_rank_acyclic.
Print Assumptions C20d_greedy_fas_is_fas.
Print Assumptions C20d_greedy_fas_is_fas_out.
Print Assumptions C20d_build_nodes_lists.
Print Assumptions C20d_sinks_last.
Print Assumptions C20d_sinks_last_view.

(* ------------------------------------------------------------------ *)
(* examples                                                            *)

(* a directed view on nodes 0..n-1 from its edge list: edge i of the list gets id i and weight 1 *)
Definition C20d_dview (n : nat) (es : list (nat * nat)) : view :=
  let q := combine (seq 0 (length es)) es in
  mkView true n (Some n) (seq 0 n)
    (map (fun a => (a, flat_map (fun '(e, (s, t)) => if Nat.eqb s a then [(e, t, 1%Z)] else []) q)) (seq 0 n))
    (map (fun a => (a, flat_map (fun '(e, (s, t)) => if Nat.eqb t a then [(e, s, 1%Z)] else []) q)) (seq 0 n))
    (length es) (length es) (map (fun '(e, (s, t)) => (e, s, t, 1%Z)) q).

Ltac c20d_ok :=
  split; [apply vok_check_ok; vm_compute; reflexivity|];
  split; [apply inout_ids_okb_ok; vm_compute; reflexivity|];
  apply erefs_out_okb_ok; vm_compute; reflexivity.

(* the 3-cycle 0 -> 1 -> 2 -> 0 with the chord 0 -> 2 and a self-loop at 1 *)
Definition C20d_A : view := C20d_dview 3 [(0,1); (1,2); (2,0); (0,2); (1,1)].
Example C20d_A_is :
  C20d_A = mkView true 3 (Some 3) [0;1;2]
    [(0, [(0,1,1%Z); (3,2,1%Z)]); (1, [(1,2,1%Z); (4,1,1%Z)]); (2, [(2,0,1%Z)])]
    [(0, [(2,2,1%Z)]); (1, [(0,0,1%Z); (4,1,1%Z)]); (2, [(1,1,1%Z); (3,0,1%Z)])]
    5 5 [(0,0,1,1%Z); (1,1,2,1%Z); (2,2,0,1%Z); (3,0,2,1%Z); (4,1,1,1%Z)].
Proof. vm_compute. reflexivity. Qed.
Example C20d_A_ok : VOk C20d_A /\ inout_ids_ok C20d_A /\ erefs_out_ok C20d_A.
Proof. c20d_ok. Qed.
(* no sink, no source; the delta buckets: 0 (delta +1), 1 (delta 0, the self-loop counts on both sides),
   2 (delta -1): 0 is popped, then 1 is a source, then 2.  The arcs that do not point forward: 2 -> 0 (id 2)
   and the self-loop (id 4); the check accepts them *)
Example C20d_ex_cycle :
  fas_seq C20d_A = [0; 1; 2] /\ greedy_fas C20d_A = [2; 4] /\ fas_check C20d_A (greedy_fas C20d_A) = 0.
Proof. vm_compute. repeat split; reflexivity. Qed.
Example C20d_ex_cycle_meaning : acyclic (without_edges C20d_A [2; 4]).
Proof.
  destruct C20d_A_ok as [Hv [Hi He]].
  assert (E : greedy_fas C20d_A = [2; 4]) by (vm_compute; reflexivity).
  rewrite <- E. apply (C20d_greedy_fas_is_fas C20d_A Hv Hi He).
Qed.
(* the fuel: with too little the sequence is cut short; from the table length + 1 on nothing changes *)
Example C20d_ex_fuel :
  good_node_sequence_fuel 1 1 (es_of C20d_A) = [0] /\
  good_node_sequence_fuel 4 4 (es_of C20d_A) = [0; 1; 2] /\
  good_node_sequence_fuel 100 50 (es_of C20d_A) = [0; 1; 2] /\
  length (build_nodes (es_of C20d_A)) = 3.
Proof. vm_compute. repeat split; reflexivity. Qed.

(* a DAG: nothing is returned *)
Definition C20d_B : view := C20d_dview 4 [(0,1); (1,2); (0,2); (2,3)].
Example C20d_B_ok : VOk C20d_B /\ inout_ids_ok C20d_B /\ erefs_out_ok C20d_B.
Proof. c20d_ok. Qed.
Example C20d_ex_dag :
  fas_seq C20d_B = [0; 1; 2; 3] /\ greedy_fas C20d_B = [] /\ fas_check C20d_B (greedy_fas C20d_B) = 0.
Proof. vm_compute. repeat split; reflexivity. Qed.

(* two antiparallel edges: exactly one of them *)
Definition C20d_C : view := C20d_dview 2 [(0,1); (1,0)].
Example C20d_C_ok : VOk C20d_C /\ inout_ids_ok C20d_C /\ erefs_out_ok C20d_C.
Proof. c20d_ok. Qed.
Example C20d_ex_antiparallel :
  fas_seq C20d_C = [1; 0] /\ greedy_fas C20d_C = [0] /\ fas_check C20d_C (greedy_fas C20d_C) = 0.
Proof. vm_compute. repeat split; reflexivity. Qed.

(* the empty view *)
Definition C20d_E : view := C20d_dview 0 [].
Example C20d_E_ok : VOk C20d_E /\ inout_ids_ok C20d_E /\ erefs_out_ok C20d_E.
Proof. c20d_ok. Qed.
Example C20d_ex_empty :
  fas_seq C20d_E = [] /\ greedy_fas C20d_E = [] /\ fas_check C20d_E (greedy_fas C20d_E) = 0.
Proof. vm_compute. repeat split; reflexivity. Qed.

(* a larger one: two cycles sharing node 2 -> 3, a 2-cycle 3 <-> 4, a self-loop at 5, an antiparallel pair 0 <-> 1 *)
Definition C20d_F : view := C20d_dview 6 [(0,1); (1,2); (2,0); (2,3); (3,4); (4,3); (4,5); (5,5); (1,0)].
Example C20d_F_ok : VOk C20d_F /\ inout_ids_ok C20d_F /\ erefs_out_ok C20d_F.
Proof. c20d_ok. Qed.
Example C20d_ex_larger :
  fas_seq C20d_F = [4; 1; 5; 2; 0; 3] /\ greedy_fas C20d_F = [0; 4; 7] /\
  fas_check C20d_F (greedy_fas C20d_F) = 0.
Proof. vm_compute. repeat split; reflexivity. Qed.

(* sinks last: a cycle 0 -> 1 -> 2 -> 0 with two exits 1 -> 3, 2 -> 3 into the sink 3 and 3's other
   in-neighbour 4: 3 comes after 1, 2 and 4, the edges into it are kept *)
Definition C20d_G : view := C20d_dview 5 [(0,1); (1,2); (2,0); (1,3); (2,3); (4,3)].
Example C20d_ex_sinks_last :
  fas_seq C20d_G = [2; 0; 1; 4; 3] /\ greedy_fas C20d_G = [1] /\
  (forall x, ~ In (3, x) (es_of C20d_G)) /\ fas_check C20d_G (greedy_fas C20d_G) = 0.
Proof.
  split; [vm_compute; reflexivity|]. split; [vm_compute; reflexivity|]. split; [|vm_compute; reflexivity].
  intros x H. vm_compute in H. repeat (destruct H as [H|H]; [discriminate H|]). exact H.
Qed.

(* erefs_out_ok is needed: greedy_fas reads edge_references only, fas_check reads the out-lists; a view whose
   edge_references are empty while the out-lists hold a 2-cycle gets the empty answer, which is rejected *)
Definition C20d_bad : view :=
  mkView true 2 (Some 2) [0;1] [(0, [(0,1,1%Z)]); (1, [(1,0,1%Z)])] [(0, [(1,1,1%Z)]); (1, [(0,0,1%Z)])] 2 2 [].
Example C20d_ex_hypothesis_needed :
  VOk C20d_bad /\ inout_ids_ok C20d_bad /\ greedy_fas C20d_bad = [] /\ fas_check C20d_bad (greedy_fas C20d_bad) = 3.
Proof.
  split; [apply vok_check_ok; vm_compute; reflexivity|].
  split; [apply inout_ids_okb_ok; vm_compute; reflexivity|].
  vm_compute. split; reflexivity.
Qed.
