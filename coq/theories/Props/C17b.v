(* C17b -- serde of GraphMap (src/graphmap.rs: Serialize = clone().into_graph::<u32>() then Graph's
   serializer; Deserialize = Graph's deserializer then GraphMap::from_graph).
   This file holds only the property theorems (closed by [exact]), their pinned statements ([Check])
   and their assumptions.  Model: Model/SerdeGM.v on Model/GraphMapM.v.  Vocabulary:
     GInv d g, nkeys, ekeys      the invariant of C03 and the node / edge-key lists (Proofs/GraphMapP.v)
     abs, sg_equiv               the simple graph a state stands for (Proofs/GraphMapR.v, Spec/SimpleGraph.v)
     final, s_run                state after a history, the specification replay (Proofs/GraphMapH.v)
     wire_edge_at nodes e o      wire edge o = Some (i, j, weight of e) with nodes[i], nodes[j] the endpoints of e
     relink c es                 the adjacency vector of c when the edges es are linked in list order:
                                 (b, Outgoing) for every (c, b), (a, Incoming) for every (a, c) with a <> c
     dedup_first eqb l           l without the later copies of each element (first occurrences, in order)
     wire_kl d w                 the wire edges read as (canonical key of the endpoints' weights, weight), in order
     wire_resolves d nodes e p   wire edge e = Some (i, j, x), nodes[i] = a, nodes[j] = b and p = (edge_key d a b, x)
     last_binding m k x          m = l1 ++ (k, x) :: l2 with no binding of k in l2
   Finding recorded here (C17b_undirected_tags_not_preserved): the round trip keeps the node order and the
   edge list exactly, but rebuilds the adjacency vectors in edge order; on an undirected map the direction
   tag of an entry may flip (it is not read by any query of an undirected map). *)
From Coq Require Import ZArith Permutation.
From PG Require Import Lib.Io Model.GraphMapM Model.SerdeGM Spec.SimpleGraph
  Proofs.GraphMapP Proofs.GraphMapR Proofs.GraphMapQ Proofs.GraphMapH Proofs.SerdeGMP Proofs.SerdeGMQ.
Local Open Scope Z_scope.

(* T1. Under the invariant the serializer never panics; the wire has the node keys in map order, no
   holes, the map's edge property, and one non-null edge per map edge, in map order, carrying the
   positions of the endpoints and the weight. *)
Theorem C17b_ser_total : forall d g, GInv d g ->
  exists w, ser_gm d g = Some w /\
    gw_nodes w = nkeys g /\ gw_holes w = [] /\ gw_directed w = d /\
    length (gw_edges w) = length (gedges g) /\
    Forall2 (wire_edge_at (nkeys g)) (gedges g) (gw_edges w).
Proof. intros d g HI. exact (ser_gm_total d g HI). Qed.

(* T2. Round trip: the reloaded map satisfies the invariant, has the same nodes in the same order and
   literally the same edge list (same order, same weights); hence the same abstract graph. *)
Theorem C17b_roundtrip : forall d g, GInv d g ->
  exists w g', ser_gm d g = Some w /\ deser_gm d w = Some g' /\
    GInv d g' /\ nkeys g' = nkeys g /\ gedges g' = gedges g /\
    abs g' = abs g /\ sg_equiv (abs g') (abs g).
Proof. intros d g HI. exact (roundtrip_core d g HI). Qed.

(* T2, adjacency. The reloaded adjacency vectors are the edges relinked in edge-list order; they list the
   same neighbours as before (as a permutation); when directed the entries with their direction tags are
   a permutation of the old ones; neighbors() is a permutation of the old answer. *)
Theorem C17b_roundtrip_adjacency : forall d g, GInv d g ->
  exists w g', ser_gm d g = Some w /\ deser_gm d w = Some g' /\
    (forall c, adj_of g' c = relink c (gedges g)) /\
    (forall c, Permutation (map fst (adj_of g' c)) (map fst (adj_of g c))) /\
    (d = true -> forall c, Permutation (adj_of g' c) (adj_of g c)) /\
    (forall c, Permutation (neighbors d g' c) (neighbors d g c)).
Proof. intros d g HI. exact (roundtrip_adjacency d g HI). Qed.

(* T3. Robustness: for EVERY wire, the deserializer either rejects or returns a map that satisfies the
   invariant; its nodes are the node weights deduplicated (first occurrences, in order); every wire edge
   resolves; its edge keys are the canonical keys of the wire edges deduplicated (first occurrences, in
   order); each key is bound to the weight of the last wire edge with that key; every edge of the map
   comes from a wire edge and every wire edge's key is an edge of the map. *)
Theorem C17b_deser_safe : forall d w,
  match deser_gm d w with
  | None => True
  | Some g' =>
      GInv d g' /\
      nkeys g' = dedup_first Z.eqb (gw_nodes w) /\
      (forall c, In c (nkeys g') <-> In c (gw_nodes w)) /\
      Forall2 (wire_resolves d (gw_nodes w)) (gw_edges w) (wire_kl d w) /\
      ekeys g' = dedup_first zpair_eqb (map fst (wire_kl d w)) /\
      (forall k x, In (k, x) (gedges g') <-> last_binding (wire_kl d w) k x) /\
      (forall k x, In (k, x) (gedges g') ->
         exists i j a b, In (Some (i, j, x)) (gw_edges w) /\ nth_error (gw_nodes w) i = Some a /\
                         nth_error (gw_nodes w) j = Some b /\ edge_key d a b = k) /\
      (forall i j x, In (Some (i, j, x)) (gw_edges w) ->
         exists a b x', nth_error (gw_nodes w) i = Some a /\ nth_error (gw_nodes w) j = Some b /\
                        In (edge_key d a b, x') (gedges g'))
  end.
Proof. intros d w. exact (deser_gm_safe_full d w). Qed.

(* T3, vocabulary. dedup_first keeps exactly the elements, without repetition, is the identity on
   repetition-free lists and appends a new element at the end. *)
Theorem C17b_dedup_first_meaning : forall l : list Z,
  NoDup (dedup_first Z.eqb l) /\
  (forall c, In c (dedup_first Z.eqb l) <-> In c l) /\
  (NoDup l -> dedup_first Z.eqb l = l) /\
  (forall x, ~ In x l -> dedup_first Z.eqb (l ++ [x]) = dedup_first Z.eqb l ++ [x]).
Proof.
  intros l. exact (conj (dedup_first_NoDup Z.eqb GraphMapL.Zeqb_spec' l)
    (conj (dedup_first_in Z.eqb GraphMapL.Zeqb_spec' l)
    (conj (dedup_first_id Z.eqb GraphMapL.Zeqb_spec' l)
          (fun x => dedup_first_app_new Z.eqb GraphMapL.Zeqb_spec' l x)))).
Qed.

(* T3, vocabulary. The last binding of a key is a binding, is unique, and exists for every bound key. *)
Theorem C17b_last_binding_meaning : forall (m : list ((Z * Z) * Z)) k,
  (forall x, last_binding m k x -> In (k, x) m) /\
  (forall x y, last_binding m k x -> last_binding m k y -> x = y) /\
  (In k (map fst m) -> exists x, last_binding m k x).
Proof.
  intros m k. exact (conj (fun x => last_binding_in m k x)
    (conj (fun x y => last_binding_fun zpair_eqb GraphMapL.zpair_eqb_spec m k x y)
          (last_binding_total zpair_eqb GraphMapL.zpair_eqb_spec m k))).
Qed.

(* T4. The deserializer rejects exactly: node holes, the wrong edge property, a null edge, an endpoint
   out of range.  In particular from_graph never fails once Graph's deserializer has accepted. *)
Theorem C17b_deser_rejects : forall d w,
  deser_gm d w = None <->
  (gw_holes w <> [] \/ gw_directed w <> d \/
   exists e, In e (gw_edges w) /\
     (e = None \/ exists a b x, e = Some (a, b, x) /\
        (length (gw_nodes w) <= a \/ length (gw_nodes w) <= b)%nat)).
Proof. intros d w. exact (deser_gm_none_iff d w). Qed.

(* T5. After any history of operations from GraphMap::new() the state serializes, reloads to a state
   with the same node order and the same edge list, which stands for the graph the specification
   computes for that history. *)
Theorem C17b_deser_after_history : forall d debug ops,
  let g := final d debug gm_new ops in
  exists w g', ser_gm d g = Some w /\ deser_gm d w = Some g' /\
    GInv d g' /\ nkeys g' = nkeys g /\ gedges g' = gedges g /\
    sg_equiv (abs g') (s_run d ops).
Proof. intros d debug ops. exact (roundtrip_history d debug ops). Qed.

(* ---- Examples ---- *)

Definition ae (d : bool) (g : gm) (a b w : Z) : gm := snd (add_edge d g a b w).
(* 5->3, 3->5, 3->3, 9->5, 3->9, 1->9, then remove_node 3 *)
Definition ex_map (d : bool) : gm :=
  snd (remove_node d (ae d (ae d (ae d (ae d (ae d (ae d gm_new 5 3 10) 3 5 11) 3 3 12) 9 5 13) 3 9 14) 1 9 15) 3).

(* a directed map, its wire and the reloaded map: node order and edge list are kept, the vector of 9
   is relinked in edge order *)
Example C17b_ex_directed :
  (ex_map true, ser_gm true (ex_map true),
   match ser_gm true (ex_map true) with Some w => deser_gm true w | None => None end)
  = (mkGm [(5, [(9, false)]); (1, [(9, true)]); (9, [(5, true); (1, false)])] [((1, 9), 15); ((9, 5), 13)],
     Some (mkGw [5; 1; 9] [] true [Some (1%nat, 2%nat, 15); Some (2%nat, 0%nat, 13)]),
     Some (mkGm [(5, [(9, false)]); (1, [(9, true)]); (9, [(1, false); (5, true)])] [((1, 9), 15); ((9, 5), 13)])).
Proof. vm_compute; reflexivity. Qed.

(* the same history on an undirected map; here the tags of the entries 5-9 flip *)
Example C17b_ex_undirected :
  (ex_map false, ser_gm false (ex_map false),
   match ser_gm false (ex_map false) with Some w => deser_gm false w | None => None end)
  = (mkGm [(5, [(9, false)]); (1, [(9, true)]); (9, [(5, true); (1, false)])] [((1, 9), 15); ((5, 9), 13)],
     Some (mkGw [5; 1; 9] [] false [Some (1%nat, 2%nat, 15); Some (0%nat, 2%nat, 13)]),
     Some (mkGm [(5, [(9, true)]); (1, [(9, true)]); (9, [(1, false); (5, false)])] [((1, 9), 15); ((5, 9), 13)])).
Proof. vm_compute; reflexivity. Qed.

(* both example maps satisfy the hypothesis of T1/T2 (they are reachable) *)
Example C17b_ex_inv : GInv true (ex_map true) /\ GInv false (ex_map false).
Proof.
  exact (conj
    (proj1 (history_refines true true
       [(2%nat, [5; 3; 10]); (2%nat, [3; 5; 11]); (2%nat, [3; 3; 12]); (2%nat, [9; 5; 13]);
        (2%nat, [3; 9; 14]); (2%nat, [1; 9; 15]); (1%nat, [3])]))
    (proj1 (history_refines false true
       [(2%nat, [5; 3; 10]); (2%nat, [3; 5; 11]); (2%nat, [3; 3; 12]); (2%nat, [9; 5; 13]);
        (2%nat, [3; 9; 14]); (2%nat, [1; 9; 15]); (1%nat, [3])]))).
Qed.

(* Finding: on an undirected map the entries with their tags are NOT a permutation of the old ones
   (smallest case: one edge added as add_edge(2, 1)); the neighbour lists are equal. *)
Example C17b_undirected_tags_not_preserved :
  let g := ae false gm_new 2 1 7 in
  exists w g', ser_gm false g = Some w /\ deser_gm false w = Some g' /\
    adj_of g 1 = [(2, false)] /\ adj_of g' 1 = [(2, true)] /\
    ~ Permutation (adj_of g' 1) (adj_of g 1) /\
    gnodes g = [(2, [(1, true)]); (1, [(2, false)])] /\
    gnodes g' = [(2, [(1, false)]); (1, [(2, true)])] /\
    gedges g' = gedges g.
Proof. exact undirected_tags_counterexample. Qed.

(* a wire with a duplicated node weight (4 at positions 0 and 2) and two parallel edges 4-7 (weights 10
   and 20, the second through the duplicate): one node 4, one edge, the last weight wins *)
Example C17b_ex_last_weight_wins :
  let w := mkGw [4; 7; 4; 2] [] false [Some (0%nat, 1%nat, 10); Some (1%nat, 2%nat, 20); Some (3%nat, 3%nat, 5)] in
  deser_gm false w = Some (mkGm [(4, [(7, true)]); (7, [(4, false)]); (2, [(2, true)])] [((4, 7), 20); ((2, 2), 5)]) /\
  dedup_first Z.eqb (gw_nodes w) = [4; 7; 2] /\
  wire_kl false w = [((4, 7), 10); ((4, 7), 20); ((2, 2), 5)] /\
  dedup_first zpair_eqb (map fst (wire_kl false w)) = [(4, 7); (2, 2)].
Proof. vm_compute. exact (conj eq_refl (conj eq_refl (conj eq_refl eq_refl))). Qed.

(* the same on a directed wire: 4->7 twice (last weight 20) and 7->4 *)
Example C17b_ex_last_weight_wins_directed :
  deser_gm true (mkGw [4; 7; 4; 2] [] true [Some (0%nat, 1%nat, 10); Some (2%nat, 1%nat, 20); Some (1%nat, 0%nat, 5)])
  = Some (mkGm [(4, [(7, true); (7, false)]); (7, [(4, false); (4, true)]); (2, [])] [((4, 7), 20); ((7, 4), 5)]).
Proof. vm_compute; reflexivity. Qed.

(* rejected wires: endpoint out of range, null edge, hole, wrong edge property *)
Example C17b_ex_rejected :
  deser_gm true (mkGw [4; 7] [] true [Some (0%nat, 2%nat, 10)]) = None /\
  deser_gm true (mkGw [4; 7] [] true [Some (0%nat, 1%nat, 10); None]) = None /\
  deser_gm true (mkGw [4; 7] [1%nat] true []) = None /\
  deser_gm true (mkGw [4; 7] [] false [Some (0%nat, 1%nat, 10)]) = None.
Proof. vm_compute. exact (conj eq_refl (conj eq_refl (conj eq_refl eq_refl))). Qed.

Check C17b_ser_total : forall d g, GInv d g ->
  exists w, ser_gm d g = Some w /\
    gw_nodes w = nkeys g /\ gw_holes w = [] /\ gw_directed w = d /\
    length (gw_edges w) = length (gedges g) /\
    Forall2 (wire_edge_at (nkeys g)) (gedges g) (gw_edges w).

Check C17b_roundtrip : forall d g, GInv d g ->
  exists w g', ser_gm d g = Some w /\ deser_gm d w = Some g' /\
    GInv d g' /\ nkeys g' = nkeys g /\ gedges g' = gedges g /\
    abs g' = abs g /\ sg_equiv (abs g') (abs g).

Check C17b_roundtrip_adjacency : forall d g, GInv d g ->
  exists w g', ser_gm d g = Some w /\ deser_gm d w = Some g' /\
    (forall c, adj_of g' c = relink c (gedges g)) /\
    (forall c, Permutation (map fst (adj_of g' c)) (map fst (adj_of g c))) /\
    (d = true -> forall c, Permutation (adj_of g' c) (adj_of g c)) /\
    (forall c, Permutation (neighbors d g' c) (neighbors d g c)).

Check C17b_deser_safe : forall d w,
  match deser_gm d w with
  | None => True
  | Some g' =>
      GInv d g' /\
      nkeys g' = dedup_first Z.eqb (gw_nodes w) /\
      (forall c, In c (nkeys g') <-> In c (gw_nodes w)) /\
      Forall2 (wire_resolves d (gw_nodes w)) (gw_edges w) (wire_kl d w) /\
      ekeys g' = dedup_first zpair_eqb (map fst (wire_kl d w)) /\
      (forall k x, In (k, x) (gedges g') <-> last_binding (wire_kl d w) k x) /\
      (forall k x, In (k, x) (gedges g') ->
         exists i j a b, In (Some (i, j, x)) (gw_edges w) /\ nth_error (gw_nodes w) i = Some a /\
                         nth_error (gw_nodes w) j = Some b /\ edge_key d a b = k) /\
      (forall i j x, In (Some (i, j, x)) (gw_edges w) ->
         exists a b x', nth_error (gw_nodes w) i = Some a /\ nth_error (gw_nodes w) j = Some b /\
                        In (edge_key d a b, x') (gedges g'))
  end.

Check C17b_dedup_first_meaning : forall l : list Z,
  NoDup (dedup_first Z.eqb l) /\
  (forall c, In c (dedup_first Z.eqb l) <-> In c l) /\
  (NoDup l -> dedup_first Z.eqb l = l) /\
  (forall x, ~ In x l -> dedup_first Z.eqb (l ++ [x]) = dedup_first Z.eqb l ++ [x]).

Check C17b_last_binding_meaning : forall (m : list ((Z * Z) * Z)) k,
  (forall x, last_binding m k x -> In (k, x) m) /\
  (forall x y, last_binding m k x -> last_binding m k y -> x = y) /\
  (In k (map fst m) -> exists x, last_binding m k x).

Check C17b_deser_rejects : forall d w,
  deser_gm d w = None <->
  (gw_holes w <> [] \/ gw_directed w <> d \/
   exists e, In e (gw_edges w) /\
     (e = None \/ exists a b x, e = Some (a, b, x) /\
        (length (gw_nodes w) <= a \/ length (gw_nodes w) <= b)%nat)).

Check C17b_deser_after_history : forall d debug ops,
  let g := final d debug gm_new ops in
  exists w g', ser_gm d g = Some w /\ deser_gm d w = Some g' /\
    GInv d g' /\ nkeys g' = nkeys g /\ gedges g' = gedges g /\
    sg_equiv (abs g') (s_run d ops).

Print Assumptions C17b_ser_total.
Print Assumptions C17b_roundtrip.
Print Assumptions C17b_roundtrip_adjacency.
Print Assumptions C17b_deser_safe.
Print Assumptions C17b_dedup_first_meaning.
Print Assumptions C17b_last_binding_meaning.
Print Assumptions C17b_deser_rejects.
Print Assumptions C17b_deser_after_history.
Print Assumptions C17b_ex_directed.
Print Assumptions C17b_ex_undirected.
Print Assumptions C17b_ex_inv.
Print Assumptions C17b_undirected_tags_not_preserved.
Print Assumptions C17b_ex_last_weight_wins.
Print Assumptions C17b_ex_last_weight_wins_directed.
Print Assumptions C17b_ex_rejected.
