(* C03 — GraphMap behaves like a simple graph on node values.
   This file holds only the property theorems (closed by [exact]), their pinned
   statements ([Check]) and their assumptions.  Vocabulary:
     GInv    (Proofs/GraphMapP.v)  the structural invariant of the representation
     abs     (Proofs/GraphMapR.v)  the simple graph a state stands for
     sgraph, s_*, sg_equiv (Spec/SimpleGraph.v)  the specification
     final, s_reply (Proofs/GraphMapH.v)  state after a history, prescribed reply *)
From Coq Require Import ZArith Permutation.
From PG Require Import Lib.Io Model.GraphMapM Spec.SimpleGraph
  Proofs.GraphMapP Proofs.GraphMapR Proofs.GraphMapQ Proofs.GraphMapH.
Local Open Scope Z_scope.

(* T1. GraphMap::new() satisfies the structural invariant (both edge types). *)
Theorem C03_inv_new : forall d, GInv d gm_new.
Proof. intros d. exact (GInv_new d). Qed.

(* T1. add_node, add_edge, remove_node, edge-weight update and extend preserve the invariant. *)
Theorem C03_inv_preserved : forall d g, GInv d g ->
  (forall n, GInv d (add_node g n)) /\
  (forall a b w, GInv d (snd (add_edge d g a b w))) /\
  (forall n, GInv d (snd (remove_node d g n))) /\
  (forall a b v, GInv d (snd (set_edge_weight d g a b v))) /\
  (forall l, GInv d (extend_edges d g l)).
Proof. intros d g HI. exact (conj (fun n => add_node_inv d g n HI)
    (conj (fun a b w => add_edge_inv d g a b w HI)
    (conj (fun n => remove_node_inv d g n HI)
    (conj (fun a b v => set_edge_weight_inv d g a b v HI)
          (fun l => extend_edges_inv d l g HI))))). Qed.

(* T1. remove_edge never trips its debug_assert (debug = true or false), returns the old
   weight and preserves the invariant; nodes are kept, exactly the key of (a, b) is dropped. *)
Theorem C03_remove_edge_no_panic : forall d debug g a b, GInv d g ->
  exists g', remove_edge d debug g a b = Ok (edge_weight d g a b, g') /\
    GInv d g' /\ nkeys g' = nkeys g /\
    (forall k' w', In (k', w') (gedges g') <-> In (k', w') (gedges g) /\ k' <> edge_key d a b).
Proof. intros d debug g a b HI. exact (remove_edge_full d debug g a b HI). Qed.

(* T1. Undirected: the vector of node a has exactly one entry with first component b iff
   {a, b} is an edge; the self-loop entry is (a, Outgoing). *)
Theorem C03_undirected_entry : forall g a v b, GInv false g -> In (a, v) (gnodes g) ->
  (In (edge_key false a b) (ekeys g) <-> exists! e, In e v /\ fst e = b) /\ ~ In (a, false) v.
Proof. intros g a v b HI Hin. exact (undirected_entry_unique g a v b HI Hin). Qed.

(* T2. The abstraction of a state satisfying the invariant is a well-formed simple graph. *)
Theorem C03_abs_wf : forall d g, GInv d g -> s_wf d (abs g).
Proof. intros d g HI. exact (abs_wf d g HI). Qed.

(* T2. add_node refines s_add_node. *)
Theorem C03_add_node_refines : forall d g n, GInv d g -> sg_equiv (abs (add_node g n)) (s_add_node (abs g) n).
Proof. intros d g n HI. exact (add_node_refines d g n HI). Qed.

(* T2. add_edge refines s_add_edge, including the returned previous weight. *)
Theorem C03_add_edge_refines : forall d g a b w, GInv d g ->
  fst (add_edge d g a b w) = fst (s_add_edge d (abs g) a b w) /\
  sg_equiv (abs (snd (add_edge d g a b w))) (snd (s_add_edge d (abs g) a b w)).
Proof. intros d g a b w HI. exact (add_edge_refines d g a b w HI). Qed.

(* T2. add_edge returns the previous weight, inserts exactly the missing endpoints and
   binds exactly the canonical key of (a, b) to w. *)
Theorem C03_add_edge_exact : forall d g a b w, GInv d g ->
  fst (add_edge d g a b w) = edge_weight d g a b /\
  GInv d (snd (add_edge d g a b w)) /\
  (forall c, In c (nkeys (snd (add_edge d g a b w))) <-> In c (nkeys g) \/ c = a \/ c = b) /\
  (forall k' w', In (k', w') (gedges (snd (add_edge d g a b w))) <->
     (k' = edge_key d a b /\ w' = w) \/ (k' <> edge_key d a b /\ In (k', w') (gedges g))).
Proof. intros d g a b w HI. exact (add_edge_full d g a b w HI). Qed.

(* T2. remove_edge refines s_remove_edge (and never panics). *)
Theorem C03_remove_edge_refines : forall d debug g a b, GInv d g ->
  exists g', remove_edge d debug g a b = Ok (fst (s_remove_edge d (abs g) a b), g') /\
    GInv d g' /\ sg_equiv (abs g') (snd (s_remove_edge d (abs g) a b)).
Proof. intros d debug g a b HI. exact (remove_edge_refines d debug g a b HI). Qed.

(* T2. remove_node refines s_remove_node, including the returned flag. *)
Theorem C03_remove_node_refines : forall d g n, GInv d g ->
  fst (remove_node d g n) = fst (s_remove_node (abs g) n) /\
  sg_equiv (abs (snd (remove_node d g n))) (snd (s_remove_node (abs g) n)).
Proof. intros d g n HI. exact (remove_node_refines d g n HI). Qed.

(* T2. remove_node returns whether the node was present, removes that node only and
   exactly the edges incident to it. *)
Theorem C03_remove_node_exact : forall d g n, GInv d g ->
  fst (remove_node d g n) = contains_node g n /\
  GInv d (snd (remove_node d g n)) /\
  (forall c, In c (nkeys (snd (remove_node d g n))) <-> In c (nkeys g) /\ c <> n) /\
  (forall k w, In (k, w) (gedges (snd (remove_node d g n))) <->
     In (k, w) (gedges g) /\ fst k <> n /\ snd k <> n).
Proof. intros d g n HI. exact (remove_node_full d g n HI). Qed.

(* T2. An edge-weight update (edge_weight_mut / IndexMut) refines s_set_weight. *)
Theorem C03_set_edge_weight_refines : forall d g a b v, GInv d g ->
  fst (set_edge_weight d g a b v) = fst (s_set_weight d (abs g) a b v) /\
  sg_equiv (abs (snd (set_edge_weight d g a b v))) (snd (s_set_weight d (abs g) a b v)).
Proof. intros d g a b v HI. exact (set_edge_weight_refines d g a b v HI). Qed.

(* T2. extend / from_edges refines s_extend. *)
Theorem C03_extend_refines : forall d g l, GInv d g -> sg_equiv (abs (extend_edges d g l)) (s_extend d (abs g) l).
Proof. intros d g l HI. exact (extend_edges_refines d g l HI). Qed.

(* T3. contains_node, edge_weight (and Index), contains_edge answer like the simple graph. *)
Theorem C03_point_queries : forall d g a b,
  contains_node g a = s_has_node (abs g) a /\
  edge_weight d g a b = s_weight d (abs g) a b /\
  contains_edge d g a b = s_has_edge d (abs g) a b.
Proof. intros d g a b. exact (conj (contains_node_abs g a) (conj (edge_weight_abs d g a b) (contains_edge_abs d g a b))). Qed.

(* T3. edge_weight a b = Some w exactly when the canonical key of (a, b) is bound to w. *)
Theorem C03_edge_weight_iff : forall d g a b w, GInv d g ->
  (edge_weight d g a b = Some w <-> In (s_key d a b, w) (se (abs g))).
Proof. intros d g a b w HI. exact (edge_weight_iff d g a b w HI). Qed.

(* T3. neighbors lists the targets of the out-edges, each once. *)
Theorem C03_neighbors : forall d g a, GInv d g ->
  Permutation (neighbors d g a) (map tgt (s_out d (abs g) a)).
Proof. intros d g a HI. exact (neighbors_correct d g a HI). Qed.

(* T3. neighbors_directed: Outgoing = targets of out-edges, Incoming = sources of in-edges
   (a self-loop appears once in each); undirected graphs ignore the direction. *)
Theorem C03_neighbors_directed : forall d g a, GInv d g ->
  Permutation (neighbors_directed d g a true) (map tgt (s_out d (abs g) a)) /\
  Permutation (neighbors_directed d g a false) (map src (s_in d (abs g) a)) /\
  (forall out, neighbors_directed false g a out = neighbors false g a).
Proof. intros d g a HI. exact (conj (neighbors_directed_out_correct d g a HI) (conj (neighbors_directed_in_correct d g a HI) (fun out => neighbors_directed_undirected g a out))). Qed.

(* T3. edges(a) never reaches unreachable!() and lists the out-edges of a, source first. *)
Theorem C03_edges : forall d g a, GInv d g ->
  exists l, edges_of d g a = Ok (flat3 l) /\ Permutation l (s_out d (abs g) a).
Proof. intros d g a HI. exact (edges_of_correct d g a HI). Qed.

(* T3. edges_directed never reaches unreachable!(); Outgoing lists (a, b, w), Incoming lists
   (b, a, w): the queried node is the target, also when undirected. *)
Theorem C03_edges_directed : forall d g a, GInv d g ->
  (exists l, edges_directed d g a true = Ok (flat3 l) /\ Permutation l (s_out d (abs g) a)) /\
  (exists l, edges_directed d g a false = Ok (flat3 l) /\ Permutation l (s_in d (abs g) a)) /\
  (forall t, In t (s_out d (abs g) a) -> src t = a) /\
  (forall t, In t (s_in d (abs g) a) -> tgt t = a).
Proof. intros d g a HI. exact (conj (edges_directed_out_correct d g a HI) (conj (edges_directed_in_correct d g a HI)
    (conj (fun t => s_out_source d g a t HI) (fun t => s_in_target d g a t HI)))). Qed.

(* T3. all_edges lists every edge once, nodes lists the node set, counts are the sizes. *)
Theorem C03_all_edges_nodes_counts : forall d g, GInv d g ->
  all_edges g = flat3 (se (abs g)) /\ NoDup (map fst (se (abs g))) /\
  map fst (gnodes g) = sn (abs g) /\ NoDup (sn (abs g)) /\
  length (gnodes g) = length (sn (abs g)) /\ length (gedges g) = length (se (abs g)).
Proof. intros d g HI. exact (conj (all_edges_correct g) (conj (all_edges_once d g HI) (conj (nodes_correct g)
    (conj (gi_nodes_nodup d g HI) (counts_correct g))))). Qed.

(* T4. Every history from GraphMap::new(): the final state satisfies the invariant and is
   the simple graph obtained by replaying the history on the specification. *)
Theorem C03_history : forall d debug ops,
  GInv d (final d debug gm_new ops) /\
  sg_equiv (abs (final d debug gm_new ops)) (s_run d ops).
Proof. intros d debug ops. exact (history_refines d debug ops). Qed.

(* T4. After every history, the value returned by the next call is the one the
   specification prescribes (in particular remove_edge does not panic). *)
Theorem C03_history_reply : forall d debug ops o l,
  s_reply d (s_run d ops) o = Some l ->
  hd_error (snd (step d debug (final d debug gm_new ops) o)) = Some l.
Proof. intros d debug ops o l H. exact (history_reply d debug ops o l H). Qed.

(* T4. [final] is the state that the harness function [run] threads through a history. *)
Theorem C03_run_final : forall d debug ops g o,
  run d debug g (ops ++ [o]) = run d debug g ops ++ [snd (step d debug (final d debug g ops) o)].
Proof. intros d debug ops g o. exact (run_app d debug ops g o). Qed.

(* T5. to_index(n) = i exactly when n is the i-th node, and then i < node_count. *)
Theorem C03_index : forall d g n i, GInv d g ->
  (im_index_of Z.eqb (gnodes g) n = Some i <-> nth_error (map fst (gnodes g)) i = Some n) /\
  (im_index_of Z.eqb (gnodes g) n = Some i -> (i < length (gnodes g))%nat).
Proof. intros d g n i HI. exact (conj (index_iff d g n i HI) (index_bound d g n i HI)). Qed.

(* T5. to_index is total on nodes, from_index is total below node_count, and they are
   mutually inverse. *)
Theorem C03_index_bijection : forall d g, GInv d g ->
  (forall n, In n (nkeys g) ->
     exists i, im_index_of Z.eqb (gnodes g) n = Some i /\ (i < length (gnodes g))%nat /\
               nth_error (map fst (gnodes g)) i = Some n) /\
  (forall i, (i < length (gnodes g))%nat ->
     exists n, nth_error (map fst (gnodes g)) i = Some n /\ In n (nkeys g) /\
               im_index_of Z.eqb (gnodes g) n = Some i).
Proof. intros d g HI. exact (conj (fun n => to_index_total d g n HI) (fun i => from_index_total d g i HI)). Qed.

(* T5. into_graph never panics and maps every edge, in order, to the positions of its
   endpoints and its weight. *)
Theorem C03_into_graph : forall d g, GInv d g ->
  exists ts, into_graph_edges g (gedges g) = Ok (flat3n ts) /\ Forall2 (edge_at g) (gedges g) ts.
Proof. intros d g HI. exact (into_graph_ok d g HI). Qed.

(* Non-vacuity: a concrete history with a reciprocal directed pair (1,2)/(2,1), a
   self-loop on 2, and the removal of the middle node 2, on both edge types.  The
   model state, its queries and the specification replay are computed. *)
Example C03_nonvacuous :
  let ops5 : list line :=
    [(2%nat, [1; 2; 10]); (2%nat, [2; 1; 20]); (2%nat, [2; 2; 5]); (2%nat, [2; 3; 7]); (2%nat, [3; 1; 9])] in
  let ops6 := ops5 ++ [(1%nat, [2])] in
  let gd := final true true gm_new ops5 in
  let gu := final false true gm_new ops5 in
  ( (* directed, before the removal *)
    (gedges gd, s_run true ops5,
     neighbors_directed true gd 2 true, neighbors_directed true gd 2 false,
     edges_directed true gd 2 false, s_in true (s_run true ops5) 2),
    (* directed, after remove_node 2 *)
    (final true true gm_new ops6, s_run true ops6),
    (* undirected, before the removal *)
    (gedges gu, s_run false ops5, neighbors false gu 2,
     edges_directed false gu 2 false, s_in false (s_run false ops5) 2),
    (* undirected, after remove_node 2 *)
    (final false true gm_new ops6, s_run false ops6) )
  =
  ( ([((1, 2), 10); ((2, 1), 20); ((2, 2), 5); ((2, 3), 7); ((3, 1), 9)],
     mkSg [1; 2; 3] [((3, 1), 9); ((2, 3), 7); ((2, 2), 5); ((2, 1), 20); ((1, 2), 10)],
     [1; 2; 3], [1; 2],
     Ok [1; 2; 10; 2; 2; 5], [(2, 2, 5); (1, 2, 10)]),
    (mkGm [(1, [(3, false)]); (3, [(1, true)])] [((3, 1), 9)], mkSg [1; 3] [((3, 1), 9)]),
    ([((1, 2), 20); ((2, 2), 5); ((2, 3), 7); ((1, 3), 9)],
     mkSg [1; 2; 3] [((1, 3), 9); ((2, 3), 7); ((2, 2), 5); ((1, 2), 20)],
     [1; 2; 3],
     Ok [1; 2; 20; 2; 2; 5; 3; 2; 7], [(3, 2, 7); (2, 2, 5); (1, 2, 20)]),
    (mkGm [(1, [(3, false)]); (3, [(1, true)])] [((1, 3), 9)], mkSg [1; 3] [((1, 3), 9)]) ).
Proof. vm_compute; reflexivity. Qed.

(* The invariant is satisfiable by non-trivial states: both states above satisfy it. *)
Example C03_inv_nonvacuous :
  let ops5 : list line :=
    [(2%nat, [1; 2; 10]); (2%nat, [2; 1; 20]); (2%nat, [2; 2; 5]); (2%nat, [2; 3; 7]); (2%nat, [3; 1; 9])] in
  GInv true (final true true gm_new ops5) /\ GInv false (final false true gm_new ops5).
Proof. intros ops5. exact (conj (proj1 (C03_history true true ops5)) (proj1 (C03_history false true ops5))). Qed.

Check C03_inv_new : forall d, GInv d gm_new.

Check C03_inv_preserved : forall d g, GInv d g ->
  (forall n, GInv d (add_node g n)) /\
  (forall a b w, GInv d (snd (add_edge d g a b w))) /\
  (forall n, GInv d (snd (remove_node d g n))) /\
  (forall a b v, GInv d (snd (set_edge_weight d g a b v))) /\
  (forall l, GInv d (extend_edges d g l)).

Check C03_remove_edge_no_panic : forall d debug g a b, GInv d g ->
  exists g', remove_edge d debug g a b = Ok (edge_weight d g a b, g') /\
    GInv d g' /\ nkeys g' = nkeys g /\
    (forall k' w', In (k', w') (gedges g') <-> In (k', w') (gedges g) /\ k' <> edge_key d a b).

Check C03_undirected_entry : forall g a v b, GInv false g -> In (a, v) (gnodes g) ->
  (In (edge_key false a b) (ekeys g) <-> exists! e, In e v /\ fst e = b) /\ ~ In (a, false) v.

Check C03_abs_wf : forall d g, GInv d g -> s_wf d (abs g).

Check C03_add_node_refines : forall d g n, GInv d g -> sg_equiv (abs (add_node g n)) (s_add_node (abs g) n).

Check C03_add_edge_refines : forall d g a b w, GInv d g ->
  fst (add_edge d g a b w) = fst (s_add_edge d (abs g) a b w) /\
  sg_equiv (abs (snd (add_edge d g a b w))) (snd (s_add_edge d (abs g) a b w)).

Check C03_add_edge_exact : forall d g a b w, GInv d g ->
  fst (add_edge d g a b w) = edge_weight d g a b /\
  GInv d (snd (add_edge d g a b w)) /\
  (forall c, In c (nkeys (snd (add_edge d g a b w))) <-> In c (nkeys g) \/ c = a \/ c = b) /\
  (forall k' w', In (k', w') (gedges (snd (add_edge d g a b w))) <->
     (k' = edge_key d a b /\ w' = w) \/ (k' <> edge_key d a b /\ In (k', w') (gedges g))).

Check C03_remove_edge_refines : forall d debug g a b, GInv d g ->
  exists g', remove_edge d debug g a b = Ok (fst (s_remove_edge d (abs g) a b), g') /\
    GInv d g' /\ sg_equiv (abs g') (snd (s_remove_edge d (abs g) a b)).

Check C03_remove_node_refines : forall d g n, GInv d g ->
  fst (remove_node d g n) = fst (s_remove_node (abs g) n) /\
  sg_equiv (abs (snd (remove_node d g n))) (snd (s_remove_node (abs g) n)).

Check C03_remove_node_exact : forall d g n, GInv d g ->
  fst (remove_node d g n) = contains_node g n /\
  GInv d (snd (remove_node d g n)) /\
  (forall c, In c (nkeys (snd (remove_node d g n))) <-> In c (nkeys g) /\ c <> n) /\
  (forall k w, In (k, w) (gedges (snd (remove_node d g n))) <->
     In (k, w) (gedges g) /\ fst k <> n /\ snd k <> n).

Check C03_set_edge_weight_refines : forall d g a b v, GInv d g ->
  fst (set_edge_weight d g a b v) = fst (s_set_weight d (abs g) a b v) /\
  sg_equiv (abs (snd (set_edge_weight d g a b v))) (snd (s_set_weight d (abs g) a b v)).

Check C03_extend_refines : forall d g l, GInv d g -> sg_equiv (abs (extend_edges d g l)) (s_extend d (abs g) l).

Check C03_point_queries : forall d g a b,
  contains_node g a = s_has_node (abs g) a /\
  edge_weight d g a b = s_weight d (abs g) a b /\
  contains_edge d g a b = s_has_edge d (abs g) a b.

Check C03_edge_weight_iff : forall d g a b w, GInv d g ->
  (edge_weight d g a b = Some w <-> In (s_key d a b, w) (se (abs g))).

Check C03_neighbors : forall d g a, GInv d g ->
  Permutation (neighbors d g a) (map tgt (s_out d (abs g) a)).

Check C03_neighbors_directed : forall d g a, GInv d g ->
  Permutation (neighbors_directed d g a true) (map tgt (s_out d (abs g) a)) /\
  Permutation (neighbors_directed d g a false) (map src (s_in d (abs g) a)) /\
  (forall out, neighbors_directed false g a out = neighbors false g a).

Check C03_edges : forall d g a, GInv d g ->
  exists l, edges_of d g a = Ok (flat3 l) /\ Permutation l (s_out d (abs g) a).

Check C03_edges_directed : forall d g a, GInv d g ->
  (exists l, edges_directed d g a true = Ok (flat3 l) /\ Permutation l (s_out d (abs g) a)) /\
  (exists l, edges_directed d g a false = Ok (flat3 l) /\ Permutation l (s_in d (abs g) a)) /\
  (forall t, In t (s_out d (abs g) a) -> src t = a) /\
  (forall t, In t (s_in d (abs g) a) -> tgt t = a).

Check C03_all_edges_nodes_counts : forall d g, GInv d g ->
  all_edges g = flat3 (se (abs g)) /\ NoDup (map fst (se (abs g))) /\
  map fst (gnodes g) = sn (abs g) /\ NoDup (sn (abs g)) /\
  length (gnodes g) = length (sn (abs g)) /\ length (gedges g) = length (se (abs g)).

Check C03_history : forall d debug ops,
  GInv d (final d debug gm_new ops) /\
  sg_equiv (abs (final d debug gm_new ops)) (s_run d ops).

Check C03_history_reply : forall d debug ops o l,
  s_reply d (s_run d ops) o = Some l ->
  hd_error (snd (step d debug (final d debug gm_new ops) o)) = Some l.

Check C03_run_final : forall d debug ops g o,
  run d debug g (ops ++ [o]) = run d debug g ops ++ [snd (step d debug (final d debug g ops) o)].

Check C03_index : forall d g n i, GInv d g ->
  (im_index_of Z.eqb (gnodes g) n = Some i <-> nth_error (map fst (gnodes g)) i = Some n) /\
  (im_index_of Z.eqb (gnodes g) n = Some i -> (i < length (gnodes g))%nat).

Check C03_index_bijection : forall d g, GInv d g ->
  (forall n, In n (nkeys g) ->
     exists i, im_index_of Z.eqb (gnodes g) n = Some i /\ (i < length (gnodes g))%nat /\
               nth_error (map fst (gnodes g)) i = Some n) /\
  (forall i, (i < length (gnodes g))%nat ->
     exists n, nth_error (map fst (gnodes g)) i = Some n /\ In n (nkeys g) /\
               im_index_of Z.eqb (gnodes g) n = Some i).

Check C03_into_graph : forall d g, GInv d g ->
  exists ts, into_graph_edges g (gedges g) = Ok (flat3n ts) /\ Forall2 (edge_at g) (gedges g) ts.


Print Assumptions C03_inv_new.
Print Assumptions C03_inv_preserved.
Print Assumptions C03_remove_edge_no_panic.
Print Assumptions C03_undirected_entry.
Print Assumptions C03_abs_wf.
Print Assumptions C03_add_node_refines.
Print Assumptions C03_add_edge_refines.
Print Assumptions C03_add_edge_exact.
Print Assumptions C03_remove_edge_refines.
Print Assumptions C03_remove_node_refines.
Print Assumptions C03_remove_node_exact.
Print Assumptions C03_set_edge_weight_refines.
Print Assumptions C03_extend_refines.
Print Assumptions C03_point_queries.
Print Assumptions C03_edge_weight_iff.
Print Assumptions C03_neighbors.
Print Assumptions C03_neighbors_directed.
Print Assumptions C03_edges.
Print Assumptions C03_edges_directed.
Print Assumptions C03_all_edges_nodes_counts.
Print Assumptions C03_history.
Print Assumptions C03_history_reply.
Print Assumptions C03_run_final.
Print Assumptions C03_index.
Print Assumptions C03_index_bijection.
Print Assumptions C03_into_graph.
Print Assumptions C03_nonvacuous.
Print Assumptions C03_inv_nonvacuous.
