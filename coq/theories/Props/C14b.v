(* C14, second part -- the TryFrom path of Acyclic<G>.  Props/C14.v proves the wrapper invariant
   AInv for every opcode of the harness grammar except 8 (into_inner, an unchecked add_edge on the
   wrapped graph, then Acyclic::try_from = toposort on the view + OrderMap::try_from_graph), because
   no toposort theorem existed when it was written.  With the theorems of C09 (toposort is total on a
   well-formed view, Ok lists every node once with every edge forward, Ok exactly on acyclic views,
   Err(Cycle(n)) names a node on a cycle) the gap is closed here:

     C14_vwf_vok                        C14's well-formedness VWf implies C09's VOk (the bridge)
     C14_extra_edge_acyclic_iff         an acyclic relation plus the edge a -> b is acyclic iff a <> b and
                                        b does not reach a
     C14_inner_add_edge_live            the unchecked add_edge on the wrapped graph
     C14_try_from_accepts_iff_acyclic   view_of + toposort + om_from_topo
     C14_raw_edge, C14_raw_edge_inv     opcode 8
     C14_step_keeps_all, C14_histories_all, C14_histories_from_all
                                        C14_step_keeps / C14_histories / C14_histories_from without the
                                        "no opcode 8" restriction

   This file holds only the property theorems (closed by [exact]), their pinned statements ([Check]),
   their assumptions and non-vacuity examples.  Vocabulary as in Props/C14.v; in addition
     ielen i              the number of edge slots of the wrapped graph (Proofs/AcyclicP.v; spelled out by
                          C14_ielen_meaning)
     VOk, on_cycle        Spec/Reach.v (shared with C08 / C09). *)
From Coq Require Import Sorted Permutation.
From PG Require Import Lib.Io Model.View Model.Traversal Model.AlgoBasic Model.AcyclicM Model.AcyclicIO
  Spec.AcyclicSpec Proofs.OrderMapP Proofs.ConesP Proofs.AcyclicP Proofs.AcyclicFromP Spec.Reach.

(* B1. The bridge: a view that is a consistent directed multigraph in the sense of C14 (VWf) is
well-formed in the sense of C08 / C09 (VOk), so every C09 theorem applies to the views of view_of. *)
Theorem C14_vwf_vok : forall v : view, VWf v -> VOk v.
Proof. exact (VWf_VOk). Qed.

(* B2. One more edge: if v' has the steps of v plus a -> b and v is acyclic, then v' is acyclic
exactly when a <> b and b does not reach a in v. *)
Theorem C14_extra_edge_acyclic_iff : forall (v v' : view) (a b : nat),
  (forall x y : nat, step v' x y <-> step v x y \/ x = a /\ y = b) ->
  acyclic v ->
  acyclic v' <-> a <> b /\ ~ reachable v b a.
Proof. exact (acyclic_ext). Qed.

(* B3. [ielen], spelled out. *)
Theorem C14_ielen_meaning : forall i : inner,
  ielen i = match i with
            | InG g => length (GraphM.gedges g)
            | InS s => length (GraphM.gedges (StableM.sg s))
            end.
Proof. exact (fun i => eq_refl). Qed.

(* B4. The unchecked add_edge on the wrapped graph (DiGraph or StableDiGraph), for live endpoints and
a free edge slot: it succeeds (both index-check modes), the wrapped graph keeps its own invariant and
its nodes, and its edge relation is the old one plus a -> b. *)
Theorem C14_inner_add_edge_live : forall (cap : nat) (capcheck debug : bool) (i : inner) (a b w : nat),
  InnerInv cap i ->
  ilive i a ->
  ilive i b ->
  ielen i < cap ->
  exists (e : nat) (i' : inner),
    inner_add_edge cap capcheck debug i a b w = Ok (e, i') /\
    InnerInv cap i' /\
    (forall j : nat, ilive i' j <-> ilive i j) /\
    (forall x y : nat, iedge i' x y <-> iedge i x y \/ x = a /\ y = b).
Proof. exact (inner_add_edge_live). Qed.

(* B5. TryFrom, stated directly for view_of + toposort + om_from_topo, on any wrapped graph satisfying
its own invariant: view_of and toposort never fail; toposort answers Ok exactly when the wrapped graph
is acyclic; Err(Cycle(c)) names a contained node on a cycle; on Ok the order lists exactly the
contained nodes, each once, om_from_topo does not panic, and the order map it builds satisfies OInv,
is a topological order of the view (positions 0, 1, 2, ... along the order) and makes the wrapper
invariant hold whatever the scratch length. *)
Theorem C14_try_from_accepts_iff_acyclic : forall (cap : nat) (i : inner),
  InnerInv cap i ->
  exists (v : view) (t : nat + list nat),
    view_of cap i = Ok v /\
    toposort v = Ok t /\
    ((exists order : list nat, t = inr order) <-> acyclic v) /\
    match t with
    | inl c => In c (vnodes v) /\ on_cycle v c
    | inr order =>
        NoDup order /\
        (forall x : nat, In x order <-> ilive i x) /\
        (exists om : omap,
           om_from_topo order (ibound i) = Ok om /\
           OInv (ilive i) om /\
           Topo v om /\
           p2n om = combine (seq 0 (length order)) order /\
           (forall bl : nat, AInv cap {| ag := i; aom := om; ablen := bl |}))
    end.
Proof. exact (fun cap => try_from_iff cap true). Qed.

(* B6. Opcode 8 for a state satisfying the invariant, live endpoints a, b and a free edge slot, in
both index-check modes and both values of debug: no panic, no fuel exhaustion.  With v the view of the
wrapped graph and v' the view of the graph with the extra edge (same nodes, steps of v plus a -> b):
the answer is Ok(()) exactly when v' is acyclic, that is when a <> b and b does not reach a in v.
On Ok the new state satisfies the invariant, wraps exactly the extended graph (its view is v', its
edge relation the old one plus a -> b, its nodes the old ones), carries the order toposort found
(positions 0, 1, 2, ...) and scratch length node_bound.  Otherwise the answer is Err(Cycle(c)) with c a
node on a cycle of v', and the state is the caller's. *)
Theorem C14_raw_edge : forall (cap : nat) (capcheck debug : bool) (s : acyc) (a b w : nat),
  AInv cap s ->
  ilive (ag s) a ->
  ilive (ag s) b ->
  ielen (ag s) < cap ->
  exists (v v' : view) (r : nat + unit) (s' : acyc),
    view_of cap (ag s) = Ok v /\
    VWf v' /\
    (forall n : nat, In n (vnodes v') <-> In n (vnodes v)) /\
    (forall x y : nat, step v' x y <-> step v x y \/ x = a /\ y = b) /\
    ac_raw_edge cap capcheck debug s a b w = Ok (r, s') /\
    (r = inr tt <-> acyclic v') /\
    (acyclic v' <-> a <> b /\ ~ reachable v b a) /\
    match r with
    | inl c => s' = s /\ In c (vnodes v') /\ on_cycle v' c
    | inr _ =>
        AInv cap s' /\
        view_of cap (ag s') = Ok v' /\
        Topo v' (aom s') /\
        (forall j : nat, ilive (ag s') j <-> ilive (ag s) j) /\
        (forall x y : nat, iedge (ag s') x y <-> iedge (ag s) x y \/ x = a /\ y = b) /\
        ablen s' = ibound (ag s') /\
        (exists order : list nat,
           toposort v' = Ok (inr order) /\ p2n (aom s') = combine (seq 0 (length order)) order)
    end.
Proof. exact (ac_raw_edge_outcome). Qed.

(* B6. Opcode 8, whatever the arguments (dead endpoints, no room: the unchecked add_edge then panics
and the caller's state is left alone): every Ok outcome keeps the invariant; a rejection returns the
very same state; an acceptance means both endpoints were live and the node set is unchanged. *)
Theorem C14_raw_edge_inv : forall (cap : nat) (capcheck debug : bool) (s : acyc) (a b w : nat) (r : nat + unit) (s' : acyc),
  AInv cap s ->
  Room cap capcheck (ag s) 1 ->
  ac_raw_edge cap capcheck debug s a b w = Ok (r, s') ->
  AInv cap s' /\
  grows (ag s) (ag s') /\
  match r with
  | inl _ => s' = s
  | inr _ =>
      ilive (ag s) a /\
      ilive (ag s) b /\ (forall j : nat, ilive (ag s') j <-> ilive (ag s) j) /\ ablen s' = ibound (ag s')
  end.
Proof. exact (ac_raw_edge_keeps). Qed.

(* B7. C14_step_keeps without the restriction: ANY operation of the grammar -- opcode 8 included --
keeps the invariant, whether it succeeds, is rejected or panics. *)
Theorem C14_step_keeps_all : forall (cap : nat) (capcheck debug : bool) (s : acyc) (o : line),
  AInv cap s ->
  Room cap capcheck (ag s) 1 ->
  AInv cap (fst (AcyclicIO.step cap capcheck debug s o)) /\
  grows (ag s) (ag (fst (AcyclicIO.step cap capcheck debug s o))).
Proof. exact (step_keeps_all). Qed.

(* B7. C14_histories without the restriction: after ANY sequence of operations from the empty wrapper
(for usize indices: shorter than the index limit) the invariant holds; the wrapped graph is acyclic and
the order is a duplicate-free list of exactly the contained nodes. *)
Theorem C14_histories_all : forall (cap : nat) (capcheck debug stable : bool) (ops : list line),
  (capcheck = false -> length ops <= cap) ->
  let s := final cap capcheck debug (empty_of cap stable) ops in
  AInv cap s /\
  (exists v : view, view_of cap (ag s) = Ok v /\ acyclic v /\ no_cycle v) /\
  NoDup (map snd (p2n (aom s))) /\ (forall n : nat, In n (map snd (p2n (aom s))) <-> ilive (ag s) n).
Proof. exact (history_from_empty_all). Qed.

(* B7. The same from any state satisfying the invariant with enough room. *)
Theorem C14_histories_from_all : forall (cap : nat) (capcheck debug : bool) (ops : list line) (s : acyc),
  AInv cap s ->
  Room cap capcheck (ag s) (length ops) -> AInv cap (final cap capcheck debug s ops).
Proof. exact (history_keeps_all). Qed.

(* ------------------------------------------------------------------ *)
(* B8. Non-vacuity: a history with opcode 8 on each kind of wrapped graph.  Four nodes; 0 -> 1 and
   1 -> 2 through try_add_edge; then, through opcode 8: 2 -> 0 (closes 0 -> 1 -> 2 -> 0: rejected with
   Cycle(2), nothing changes); 3 -> 0 (accepted: TryFrom renumbers the positions along the order
   toposort finds, 3 0 1 2); try_add_edge 2 -> 3 (rejected by the Pearce-Kelly path: Cycle(3)); the
   self-loop 2 -> 2 through opcode 8 (rejected: Cycle(2)); removal of node 1 (the DiGraph renames node
   3 to 1); opcode 8 again: a parallel edge to the surviving edge into 0 on the DiGraph (1 -> 0), the
   new edge 2 -> 0 on the StableDiGraph (accepted); finally 0 -> 2 (accepted on the DiGraph, a cycle
   with 2 -> 0 on the StableDiGraph). *)

Definition C14b_ops (stable : bool) : list line :=
  [(0, [10%Z]); (0, [11%Z]); (0, [12%Z]); (0, [13%Z]);
   (1, [0%Z; 1%Z; 100%Z]); (1, [1%Z; 2%Z; 101%Z]);
   (8, [2%Z; 0%Z; 102%Z]); (8, [3%Z; 0%Z; 103%Z]); (1, [2%Z; 3%Z; 104%Z]); (8, [2%Z; 2%Z; 105%Z]);
   (6, [1%Z]); (8, [(if stable then 2%Z else 1%Z); 0%Z; 106%Z]); (8, [0%Z; 2%Z; 107%Z])].

(* the first observation line of every step: IDX 3 / CYCLE 43 / BOOL 0 (Ok(()) of TryFrom) / SOME 21 *)
Example C14b_ex_outcomes :
  map (hd (0, [])) (AcyclicIO.run 50 true true (empty_of 50 false) (C14b_ops false)) =
    [(3, [0%Z]); (3, [1%Z]); (3, [2%Z]); (3, [3%Z]); (3, [0%Z]); (3, [1%Z]); (43, [2%Z]); (0, [1%Z]);
     (43, [3%Z]); (43, [2%Z]); (21, [11%Z]); (0, [1%Z]); (0, [1%Z])] /\
  map (hd (0, [])) (AcyclicIO.run 50 true true (empty_of 50 true) (C14b_ops true)) =
    [(3, [0%Z]); (3, [1%Z]); (3, [2%Z]); (3, [3%Z]); (3, [0%Z]); (3, [1%Z]); (43, [2%Z]); (0, [1%Z]);
     (43, [3%Z]); (43, [2%Z]); (21, [11%Z]); (0, [1%Z]); (43, [2%Z])].
Proof. vm_compute. split; reflexivity. Qed.

(* the order maps after steps 6, 7 (rejected: unchanged), 8 (accepted: renumbered), 11, 12, 13 *)
Example C14b_ex_orders :
  map (fun k => aom (final 50 true true (empty_of 50 false) (firstn k (C14b_ops false)))) [6; 7; 8; 11; 12; 13] =
    [ {| p2n := [(0, 0); (1, 1); (2, 2); (3, 3)]; n2p := [0; 1; 2; 3] |};
      {| p2n := [(0, 0); (1, 1); (2, 2); (3, 3)]; n2p := [0; 1; 2; 3] |};
      {| p2n := [(0, 3); (1, 0); (2, 1); (3, 2)]; n2p := [1; 2; 3; 0] |};
      {| p2n := [(0, 1); (1, 0); (3, 2)]; n2p := [1; 0; 3; 0] |};
      {| p2n := [(0, 2); (1, 1); (2, 0)]; n2p := [2; 1; 0] |};
      {| p2n := [(0, 1); (1, 0); (2, 2)]; n2p := [1; 0; 2] |} ] /\
  map (fun k => aom (final 50 true true (empty_of 50 true) (firstn k (C14b_ops true)))) [6; 7; 8; 11; 12; 13] =
    [ {| p2n := [(0, 0); (1, 1); (2, 2); (3, 3)]; n2p := [0; 1; 2; 3] |};
      {| p2n := [(0, 0); (1, 1); (2, 2); (3, 3)]; n2p := [0; 1; 2; 3] |};
      {| p2n := [(0, 3); (1, 0); (2, 1); (3, 2)]; n2p := [1; 2; 3; 0] |};
      {| p2n := [(0, 3); (1, 0); (3, 2)]; n2p := [1; 0; 3; 0] |};
      {| p2n := [(0, 3); (1, 2); (2, 0)]; n2p := [2; 0; 1; 0] |};
      {| p2n := [(0, 3); (1, 2); (2, 0)]; n2p := [2; 0; 1; 0] |} ].
Proof. vm_compute. split; reflexivity. Qed.

(* C14_histories_all applies to these histories (C14_histories does not: they contain opcode 8) *)
Example C14b_ex_histories :
  (forall stable : bool,
     let s := final 50 true true (empty_of 50 stable) (C14b_ops stable) in
     AInv 50 s /\ (exists v : view, view_of 50 (ag s) = Ok v /\ acyclic v /\ no_cycle v) /\
     NoDup (map snd (p2n (aom s))) /\ (forall n : nat, In n (map snd (p2n (aom s))) <-> ilive (ag s) n)) /\
  (forall stable : bool, exists o : line, In o (C14b_ops stable) /\ fst o = 8) /\
  map snd (p2n (aom (final 50 true true (empty_of 50 false) (C14b_ops false)))) = [1; 0; 2] /\
  map snd (p2n (aom (final 50 true true (empty_of 50 true) (C14b_ops true)))) = [3; 2; 0].
Proof.
  split; [|split; [|vm_compute; split; reflexivity]].
  - intros stable. apply (history_from_empty_all 50 true true stable (C14b_ops stable)). discriminate.
  - intros stable. exists (8, [0%Z; 2%Z; 107%Z]). split; [|reflexivity].
    destruct stable; cbn [C14b_ops In]; do 12 right; left; reflexivity.
Qed.

(* the state after step 6 (edges 0 -> 1 -> 2, node 3 isolated) satisfies the hypotheses of C14_raw_edge
   for (a, b) = (3, 0) and for (a, b) = (2, 0) ... *)
Definition C14b_view6 : view :=
  mkView true 4 (Some 4) [0; 1; 2; 3]
    [(0, [(0, 1, 100%Z)]); (1, [(1, 2, 101%Z)]); (2, []); (3, [])]
    [(0, []); (1, [(0, 0, 100%Z)]); (2, [(1, 1, 101%Z)]); (3, [])] 0 0 [].

Example C14b_ex_hypotheses :
  let s := final 50 true true (empty_of 50 false) (firstn 6 (C14b_ops false)) in
  AInv 50 s /\ view_of 50 (ag s) = Ok C14b_view6 /\
  ilive (ag s) 0 /\ ilive (ag s) 2 /\ ilive (ag s) 3 /\ ielen (ag s) < 50 /\
  InnerInv 50 (ag s).
Proof.
  intros s.
  assert (A : AInv 50 s).
  { apply (history_keeps_all 50 true true (firstn 6 (C14b_ops false)) (empty_of 50 false)).
    - apply (AInv_empty_g 50 true).
    - discriminate. }
  split; [exact A|]. split; [vm_compute; reflexivity|].
  split; [vm_compute; reflexivity|]. split; [vm_compute; reflexivity|]. split; [vm_compute; reflexivity|].
  split; [|exact (proj1 A)].
  assert (E : ielen (ag s) = 2) by (vm_compute; reflexivity). rewrite E. lia.
Qed.

(* ... and what the model computes there, as B5 / B6 predict: 3 -> 0 is accepted with the order 3 0 1 2
   and scratch length 4 = node_bound; 2 -> 0 is rejected with Cycle(2) (2 is on the cycle 2 -> 0 -> 1 -> 2 of
   the extended graph) and the state is the caller's; toposort on the view itself *)
Example C14b_ex_raw_edge :
  let s := final 50 true true (empty_of 50 false) (firstn 6 (C14b_ops false)) in
  (exists s', ac_raw_edge 50 true true s 3 0 7 = Ok (inr tt, s') /\
     aom s' = {| p2n := [(0, 3); (1, 0); (2, 1); (3, 2)]; n2p := [1; 2; 3; 0] |} /\ ablen s' = 4 /\
     ielen (ag s') = 3) /\
  ac_raw_edge 50 true true s 2 0 7 = Ok (inl 2, s) /\
  ac_raw_edge 50 true true s 2 2 7 = Ok (inl 2, s) /\
  ac_raw_edge 50 true true s 7 0 7 = Panic /\
  toposort C14b_view6 = Ok (inr [3; 0; 1; 2]) /\
  om_from_topo [3; 0; 1; 2] 4 = Ok {| p2n := [(0, 3); (1, 0); (2, 1); (3, 2)]; n2p := [1; 2; 3; 0] |}.
Proof.
  intros s. split.
  - eexists. split; [vm_compute; reflexivity|]. vm_compute. repeat split; reflexivity.
  - vm_compute. repeat split; reflexivity.
Qed.

(* ------------------------------------------------------------------ *)
Check C14_vwf_vok : forall v : view, VWf v -> VOk v.
Check C14_extra_edge_acyclic_iff : forall (v v' : view) (a b : nat),
  (forall x y : nat, step v' x y <-> step v x y \/ x = a /\ y = b) ->
  acyclic v ->
  acyclic v' <-> a <> b /\ ~ reachable v b a.
Check C14_ielen_meaning : forall i : inner,
  ielen i = match i with
            | InG g => length (GraphM.gedges g)
            | InS s => length (GraphM.gedges (StableM.sg s))
            end.
Check C14_inner_add_edge_live : forall (cap : nat) (capcheck debug : bool) (i : inner) (a b w : nat),
  InnerInv cap i ->
  ilive i a ->
  ilive i b ->
  ielen i < cap ->
  exists (e : nat) (i' : inner),
    inner_add_edge cap capcheck debug i a b w = Ok (e, i') /\
    InnerInv cap i' /\
    (forall j : nat, ilive i' j <-> ilive i j) /\
    (forall x y : nat, iedge i' x y <-> iedge i x y \/ x = a /\ y = b).
Check C14_try_from_accepts_iff_acyclic : forall (cap : nat) (i : inner),
  InnerInv cap i ->
  exists (v : view) (t : nat + list nat),
    view_of cap i = Ok v /\
    toposort v = Ok t /\
    ((exists order : list nat, t = inr order) <-> acyclic v) /\
    match t with
    | inl c => In c (vnodes v) /\ on_cycle v c
    | inr order =>
        NoDup order /\
        (forall x : nat, In x order <-> ilive i x) /\
        (exists om : omap,
           om_from_topo order (ibound i) = Ok om /\
           OInv (ilive i) om /\
           Topo v om /\
           p2n om = combine (seq 0 (length order)) order /\
           (forall bl : nat, AInv cap {| ag := i; aom := om; ablen := bl |}))
    end.
Check C14_raw_edge : forall (cap : nat) (capcheck debug : bool) (s : acyc) (a b w : nat),
  AInv cap s ->
  ilive (ag s) a ->
  ilive (ag s) b ->
  ielen (ag s) < cap ->
  exists (v v' : view) (r : nat + unit) (s' : acyc),
    view_of cap (ag s) = Ok v /\
    VWf v' /\
    (forall n : nat, In n (vnodes v') <-> In n (vnodes v)) /\
    (forall x y : nat, step v' x y <-> step v x y \/ x = a /\ y = b) /\
    ac_raw_edge cap capcheck debug s a b w = Ok (r, s') /\
    (r = inr tt <-> acyclic v') /\
    (acyclic v' <-> a <> b /\ ~ reachable v b a) /\
    match r with
    | inl c => s' = s /\ In c (vnodes v') /\ on_cycle v' c
    | inr _ =>
        AInv cap s' /\
        view_of cap (ag s') = Ok v' /\
        Topo v' (aom s') /\
        (forall j : nat, ilive (ag s') j <-> ilive (ag s) j) /\
        (forall x y : nat, iedge (ag s') x y <-> iedge (ag s) x y \/ x = a /\ y = b) /\
        ablen s' = ibound (ag s') /\
        (exists order : list nat,
           toposort v' = Ok (inr order) /\ p2n (aom s') = combine (seq 0 (length order)) order)
    end.
Check C14_raw_edge_inv : forall (cap : nat) (capcheck debug : bool) (s : acyc) (a b w : nat) (r : nat + unit) (s' : acyc),
  AInv cap s ->
  Room cap capcheck (ag s) 1 ->
  ac_raw_edge cap capcheck debug s a b w = Ok (r, s') ->
  AInv cap s' /\
  grows (ag s) (ag s') /\
  match r with
  | inl _ => s' = s
  | inr _ =>
      ilive (ag s) a /\
      ilive (ag s) b /\ (forall j : nat, ilive (ag s') j <-> ilive (ag s) j) /\ ablen s' = ibound (ag s')
  end.
Check C14_step_keeps_all : forall (cap : nat) (capcheck debug : bool) (s : acyc) (o : line),
  AInv cap s ->
  Room cap capcheck (ag s) 1 ->
  AInv cap (fst (AcyclicIO.step cap capcheck debug s o)) /\
  grows (ag s) (ag (fst (AcyclicIO.step cap capcheck debug s o))).
Check C14_histories_all : forall (cap : nat) (capcheck debug stable : bool) (ops : list line),
  (capcheck = false -> length ops <= cap) ->
  let s := final cap capcheck debug (empty_of cap stable) ops in
  AInv cap s /\
  (exists v : view, view_of cap (ag s) = Ok v /\ acyclic v /\ no_cycle v) /\
  NoDup (map snd (p2n (aom s))) /\ (forall n : nat, In n (map snd (p2n (aom s))) <-> ilive (ag s) n).
Check C14_histories_from_all : forall (cap : nat) (capcheck debug : bool) (ops : list line) (s : acyc),
  AInv cap s ->
  Room cap capcheck (ag s) (length ops) -> AInv cap (final cap capcheck debug s ops).

Print Assumptions C14_vwf_vok.
Print Assumptions C14_extra_edge_acyclic_iff.
Print Assumptions C14_ielen_meaning.
Print Assumptions C14_inner_add_edge_live.
Print Assumptions C14_try_from_accepts_iff_acyclic.
Print Assumptions C14_raw_edge.
Print Assumptions C14_raw_edge_inv.
Print Assumptions C14_step_keeps_all.
Print Assumptions C14_histories_all.
Print Assumptions C14_histories_from_all.
Print Assumptions C14b_ex_outcomes.
Print Assumptions C14b_ex_orders.
Print Assumptions C14b_ex_histories.
Print Assumptions C14b_ex_hypotheses.
Print Assumptions C14b_ex_raw_edge.
