(* C02 -- StableGraph keeps indices stable: after any sequence of public operations all queries
   agree with a reference multigraph in which each live node and edge keeps its index until it is
   removed; counters, bounds and iterators describe the same sets; errors leave the state unchanged;
   no valid call panics.  This file holds only the property theorems (closed by [exact]), their
   pinned statements ([Check]) and their assumptions.  The model is Model/StableM.v; the invariant
   [SInv] is defined in Proofs/StableP.v and spelled out by [C02_invariant_meaning]. *)
From PG Require Import Lib.ListArr Lib.Walk Model.GraphM Model.StableM Model.StableIO
  Proofs.GraphP Proofs.GraphRN Proofs.StableP Proofs.StableE Proofs.StableRE Proofs.StableRN
  Proofs.StableT Proofs.StableH Proofs.StableG Proofs.StableFinal.

(* The invariant.  [nwo g i] / [ewo g x] = weight of node slot i / edge slot x (None = vacant or out of
range); [epo es k x] = endpoint k of edge x (k = 0 source, otherwise target); [adj cap g k i l] = the
direction-k list of node i, read through the links, is l and ends with the sentinel cap; [fnx] / [fex] =
successor along the free node / free edge list (defined on vacant slots only); [bkp g p l] = the back
pointers of the doubly linked free node list l (the first one is p); [nsome] counts the live slots. *)
Theorem C02_invariant_meaning :
  forall (cap : nat) (s : sgraph),
  SInv cap s <->
  length (gnodes (sg s)) <= cap /\
  length (gedges (sg s)) <= cap /\
  (forall k x i : nat,
   ewo (sg s) x <> None -> epo (gedges (sg s)) k x = Some i -> nwo (sg s) i <> None) /\
  (forall k i : nat,
   nwo (sg s) i <> None ->
   exists l : list nat,
     adj cap (sg s) k i l /\
     (forall x : nat, In x l <-> ewo (sg s) x <> None /\ epo (gedges (sg s)) k x = Some i)) /\
  ncount s = nsome (map nwt (gnodes (sg s))) /\
  ecount s = nsome (map ewt (gedges (sg s))) /\
  (exists l : list nat,
     lseg (fnx (sg s)) (free_node s) l cap /\
     bkp (sg s) cap l /\
     (forall i : nat, In i l <-> i < length (gnodes (sg s)) /\ nwo (sg s) i = None)) /\
  (exists l : list nat,
     lseg (fex (sg s)) (free_edge s) l cap /\
     (forall x : nat, In x l <-> x < length (gedges (sg s)) /\ ewo (sg s) x = None)).
Proof. exact (@SInv_meaning). Qed.

(* T1. StableGraph::new() satisfies the invariant.  try_add_node never panics; it keeps the invariant; it
reports NodeIxLimit (state unchanged) only when there is no vacancy and the slot count is at the checked
index limit; otherwise it returns the head of the free list when there is one (indices are reused),
else the old slot count; that index was not live before, every other node keeps its weight, the edges
are untouched, every live node keeps its two lists and the new node has empty lists.  (For usize,
capcheck = false, the slot count is assumed below the limit.) *)
Theorem C02_inv_init_add_node :
  forall (cap : nat) (capcheck debug : bool),
  SInv cap (sg_empty cap) /\
  (forall (s : sgraph) (w : nat),
   SInv cap s ->
   (capcheck = false -> free_node s = cap -> length (gnodes (sg s)) < cap) ->
   exists (r : gerr + nat) (s' : sgraph),
     s_try_add_node cap capcheck debug s w = Ok (r, s') /\
     SInv cap s' /\
     match r with
     | inl e =>
         e = NodeIxLimit /\
         s' = s /\ free_node s = cap /\ capcheck = true /\ length (gnodes (sg s)) = cap
     | inr i =>
         i = (if free_node s =? cap then length (gnodes (sg s)) else free_node s) /\
         nwo (sg s) i = None /\
         nwo (sg s') i = Some w /\
         (forall j : nat, j <> i -> nwo (sg s') j = nwo (sg s) j) /\
         gedges (sg s') = gedges (sg s) /\
         (forall (k j : nat) (l : list nat),
          nwo (sg s) j <> None -> adj cap (sg s) k j l -> adj cap (sg s') k j l) /\
         (forall k : nat, adj cap (sg s') k i []) /\
         ncount s' = S (ncount s) /\ ecount s' = ecount s
     end).
Proof. exact (@F_init_add_node). Qed.

(* T1. ... and NodeIxLimit is reported whenever that condition holds. *)
Theorem C02_add_node_limit :
  forall (cap : nat) (capcheck debug : bool) (s : sgraph) (w : nat),
  free_node s = cap ->
  capcheck = true ->
  length (gnodes (sg s)) = cap ->
  s_try_add_node cap capcheck debug s w = Ok (inl NodeIxLimit, s).
Proof. exact (@F_add_node_limit). Qed.

(* T1. A new node never receives an index that is currently live, and every live node keeps index and weight. *)
Theorem C02_fresh_node_index :
  forall (cap : nat) (capcheck debug : bool) (s : sgraph) (w i : nat) (s' : sgraph),
  SInv cap s ->
  (capcheck = false -> free_node s = cap -> length (gnodes (sg s)) < cap) ->
  s_try_add_node cap capcheck debug s w = Ok (inr i, s') ->
  nwo (sg s) i = None /\
  nwo (sg s') i = Some w /\
  (forall j w' : nat, nwo (sg s) j = Some w' -> j <> i /\ nwo (sg s') j = Some w').
Proof. exact (@F_fresh_node_index). Qed.

(* T2. try_add_edge never panics nor runs out of fuel; errors leave the state (structurally) unchanged:
EdgeIxLimit exactly with no free slot at the checked limit, else NodeMissed i when [wrong_index] reports
the endpoint i (out of range or vacant); otherwise the index is the head of the free edge list, else the
old slot count; it was not live before; the invariant is kept; the new edge is at the head of the out-list
of a and of the in-list of b; every other edge keeps index, weight and endpoints. *)
Theorem C02_add_edge :
  forall (cap : nat) (capcheck debug : bool) (s : sgraph) (a b w : nat),
  SInv cap s ->
  (capcheck = false -> free_edge s = cap -> length (gedges (sg s)) < cap) ->
  exists (r : gerr + nat) (s' : sgraph),
    s_try_add_edge cap capcheck debug s a b w = Ok (r, s') /\
    SInv cap s' /\
    match r with
    | inl e =>
        s' = s /\
        (e = EdgeIxLimit /\
         free_edge s = cap /\ capcheck = true /\ length (gedges (sg s)) = cap \/
         (exists i : nat,
            e = NodeMissed i /\
            wrong_index (sg s) a b = Some i /\
            (i = a \/ i = b) /\
            nwo (sg s) i = None /\
            ~ (free_edge s = cap /\ capcheck = true /\ length (gedges (sg s)) = cap)))
    | inr x =>
        nwo (sg s) a <> None /\
        nwo (sg s) b <> None /\
        x = (if free_edge s =? cap then length (gedges (sg s)) else free_edge s) /\
        ewo (sg s) x = None /\
        ewo (sg s') x = Some w /\
        (forall k : nat, epo (gedges (sg s')) k x = Some (sel (a, b) k)) /\
        (forall y : nat, y <> x -> ewo (sg s') y = ewo (sg s) y) /\
        (forall k y : nat, y <> x -> epo (gedges (sg s')) k y = epo (gedges (sg s)) k y) /\
        (forall j : nat, nwo (sg s') j = nwo (sg s) j) /\
        (forall (k i : nat) (l : list nat),
         nwo (sg s) i <> None ->
         adj cap (sg s) k i l -> adj cap (sg s') k i (if i =? sel (a, b) k then x :: l else l)) /\
        ncount s' = ncount s /\ ecount s' = S (ecount s)
    end.
Proof. exact (@F_add_edge). Qed.

(* T2. The two errors are reported whenever their conditions hold (no invariant needed). *)
Theorem C02_add_edge_errors :
  forall (cap : nat) (capcheck debug : bool) (s : sgraph) (a b w : nat),
  (free_edge s = cap ->
   capcheck = true ->
   length (gedges (sg s)) = cap ->
   s_try_add_edge cap capcheck debug s a b w = Ok (inl EdgeIxLimit, s)) /\
  (forall i : nat,
   wrong_index (sg s) a b = Some i ->
   free_edge s <> cap \/ capcheck = false \/ length (gedges (sg s)) <> cap ->
   s_try_add_edge cap capcheck debug s a b w = Ok (inl (NodeMissed i), s)).
Proof. exact (@F_add_edge_errors). Qed.

(* T2. A new edge never receives an index that is currently live; live edges keep index, weight, endpoints. *)
Theorem C02_fresh_edge_index :
  forall (cap : nat) (capcheck debug : bool) (s : sgraph) (a b w x : nat) (s' : sgraph),
  SInv cap s ->
  (capcheck = false -> free_edge s = cap -> length (gedges (sg s)) < cap) ->
  s_try_add_edge cap capcheck debug s a b w = Ok (inr x, s') ->
  ewo (sg s) x = None /\
  ewo (sg s') x = Some w /\
  (forall y w' : nat,
   ewo (sg s) y = Some w' ->
   y <> x /\
   ewo (sg s') y = Some w' /\
   (forall k : nat, epo (gedges (sg s')) k y = epo (gedges (sg s)) k y)).
Proof. exact (@F_fresh_edge_index). Qed.

(* T3. remove_edge (both debug values) never panics: a vacant or out-of-range index gives (None, s); a live
edge gives its weight, the invariant is kept, edge_count decreases by one, exactly that edge disappears
from the adjacency lists (order of the others preserved), everything else keeps index, weight, endpoints. *)
Theorem C02_remove_edge :
  forall (cap : nat) (debug : bool) (s : sgraph) (e : nat),
  SInv cap s ->
  (ewo (sg s) e = None -> s_remove_edge cap debug s e = Ok (None, s)) /\
  (forall w : nat,
   ewo (sg s) e = Some w ->
   exists s' : sgraph,
     s_remove_edge cap debug s e = Ok (Some w, s') /\
     SInv cap s' /\
     S (ecount s') = ecount s /\
     ncount s' = ncount s /\
     length (gnodes (sg s')) = length (gnodes (sg s)) /\
     length (gedges (sg s')) = length (gedges (sg s)) /\
     (forall j : nat, nwo (sg s') j = nwo (sg s) j) /\
     (forall x : nat, ewo (sg s') x = (if x =? e then None else ewo (sg s) x)) /\
     (forall k x : nat, x <> e -> epo (gedges (sg s')) k x = epo (gedges (sg s)) k x) /\
     (forall (k i : nat) (l : list nat),
      nwo (sg s) i <> None ->
      adj cap (sg s) k i l -> adj cap (sg s') k i (filter (fun x : nat => negb (x =? e)) l))).
Proof. exact (@F_remove_edge). Qed.

(* T4. remove_node never panics nor runs out of fuel: an absent or vacant index gives (None, s); otherwise
the weight, the invariant is kept, exactly the live edges incident to a ([incb g a x]) are removed, all
other nodes and edges keep index, weight, endpoints and list order. *)
Theorem C02_remove_node :
  forall (cap : nat) (debug : bool) (s : sgraph) (a : nat),
  SInv cap s ->
  (nwo (sg s) a = None -> s_remove_node cap debug s a = Ok (None, s)) /\
  (forall w : nat,
   nwo (sg s) a = Some w ->
   exists s' : sgraph,
     s_remove_node cap debug s a = Ok (Some w, s') /\
     SInv cap s' /\
     S (ncount s') = ncount s /\
     length (gnodes (sg s')) = length (gnodes (sg s)) /\
     length (gedges (sg s')) = length (gedges (sg s)) /\
     (forall j : nat, nwo (sg s') j = (if j =? a then None else nwo (sg s) j)) /\
     (forall x : nat, ewo (sg s') x = (if incb (sg s) a x then None else ewo (sg s) x)) /\
     (forall k x : nat,
      incb (sg s) a x = false -> epo (gedges (sg s')) k x = epo (gedges (sg s)) k x) /\
     (forall (k i : nat) (l : list nat),
      i <> a ->
      nwo (sg s) i <> None ->
      adj cap (sg s) k i l ->
      adj cap (sg s') k i (filter (fun x : nat => negb (incb (sg s) a x)) l))).
Proof. exact (@F_remove_node). Qed.

(* [incb g a x]: x is a live edge with an endpoint equal to a. *)
Theorem C02_incident :
  forall (g : IG) (a x : nat),
  incb g a x = true <->
  ewo g x <> None /\ (epo (gedges g) 0 x = Some a \/ epo (gedges g) 1 x = Some a).
Proof. exact (@incb_true). Qed.

(* T5. node_count / edge_count are the lengths of the enumerations of live slots, which list exactly the
live slots; node_bound / edge_bound are strictly above every live index and are 0 or one past a live
index; the debug check of the free lists succeeds (retain_* never trips it). *)
Theorem C02_counts_bounds_iterators_agree :
  forall (cap : nat) (debug : bool) (s : sgraph),
  SInv cap s ->
  ncount s = length (live_nodes s) /\
  ecount s = length (live_edges s) /\
  (forall i w : nat, In (i, w) (live_nodes s) <-> nwo (sg s) i = Some w) /\
  (forall (x : nat) (nd : nat * nat) (w : nat),
   In (x, nd, w) (live_edges s) <->
   ewo (sg s) x = Some w /\
   epo (gedges (sg s)) 0 x = Some (fst nd) /\ epo (gedges (sg s)) 1 x = Some (snd nd)) /\
  (forall i : nat, nwo (sg s) i <> None -> i < node_bound s) /\
  (node_bound s = 0 \/ nwo (sg s) (node_bound s - 1) <> None) /\
  (forall x : nat, ewo (sg s) x <> None -> x < edge_bound s) /\
  (edge_bound s = 0 \/ ewo (sg s) (edge_bound s - 1) <> None) /\
  check_free_lists cap s = true /\ checked cap debug s = Ok s.
Proof. exact (@F_counts). Qed.

(* T5. The fuelled walk used by every neighbor / edge iterator (through get_node) returns exactly the
adjacency list of a live node -- duplicate free, the live edges with that endpoint -- and [] for a vacant
or absent node. *)
Theorem C02_walks :
  forall (cap : nat) (s : sgraph) (k i : nat),
  SInv cap s ->
  (forall l : list nat,
   nwo (sg s) i <> None ->
   adj cap (sg s) k i l ->
   chain (fuel_of (sg s)) (gedges (sg s)) (sel (s_next cap s i) k) k = Ok l /\
   NoDup l /\
   (forall x : nat, In x l <-> ewo (sg s) x <> None /\ epo (gedges (sg s)) k x = Some i)) /\
  (nwo (sg s) i = None ->
   chain (fuel_of (sg s)) (gedges (sg s)) (sel (s_next cap s i) k) k = Ok []).
Proof. exact (@F_walks). Qed.

(* T6. reverse and clear_edges keep the invariant. *)
Theorem C02_reverse_clear :
  forall (cap : nat) (s : sgraph),
  SInv cap s -> SInv cap (s_reverse s) /\ SInv cap (s_clear_edges cap s).
Proof. exact (@F_reverse_clear). Qed.

(* T6. reverse exchanges the two lists of every live node and leaves the vacant slots and the free lists untouched. *)
Theorem C02_reverse :
  forall (cap : nat) (s : sgraph),
  SInv cap s ->
  SInv cap (s_reverse s) /\
  free_node (s_reverse s) = free_node s /\
  free_edge (s_reverse s) = free_edge s /\
  ncount (s_reverse s) = ncount s /\
  ecount (s_reverse s) = ecount s /\
  (forall j : nat, nwo (sg (s_reverse s)) j = nwo (sg s) j) /\
  (forall x : nat, ewo (sg (s_reverse s)) x = ewo (sg s) x) /\
  (forall k x : nat,
   ewo (sg s) x <> None -> epo (gedges (sg (s_reverse s))) k x = epo (gedges (sg s)) (opk k) x) /\
  (forall (k i : nat) (l : list nat),
   nwo (sg s) i <> None -> adj cap (sg s) (opk k) i l -> adj cap (sg (s_reverse s)) k i l) /\
  (forall j : nat,
   nwo (sg s) j = None ->
   nth_error (gnodes (sg (s_reverse s))) j = nth_error (gnodes (sg s)) j) /\
  (forall x : nat,
   ewo (sg s) x = None ->
   nth_error (gedges (sg (s_reverse s))) x = nth_error (gedges (sg s)) x).
Proof. exact (@F_reverse). Qed.

(* T6. clear_edges: no edge slot is left, nodes are untouched, every list is empty. *)
Theorem C02_clear_edges :
  forall (cap : nat) (s : sgraph),
  SInv cap s ->
  SInv cap (s_clear_edges cap s) /\
  ecount (s_clear_edges cap s) = 0 /\
  gedges (sg (s_clear_edges cap s)) = [] /\
  ncount (s_clear_edges cap s) = ncount s /\
  free_node (s_clear_edges cap s) = free_node s /\
  (forall j : nat, nwo (sg (s_clear_edges cap s)) j = nwo (sg s) j) /\
  (forall k i : nat, nwo (sg s) i <> None -> adj cap (sg (s_clear_edges cap s)) k i []).
Proof. exact (@F_clear_edges). Qed.

(* T7. Any sequence of try_add_node / try_add_edge / remove_node / remove_edge / reverse / clear_edges from
the empty graph runs without panic or fuel exhaustion and ends in a state satisfying the invariant
(for usize indices: as long as the slot counts stay below the limit). *)
Theorem C02_history :
  forall (cap : nat) (capcheck debug : bool) (ops : list sop),
  (capcheck = false -> length ops <= cap) ->
  exists s' : sgraph, srun cap capcheck debug (sg_empty cap) ops = Ok s' /\ SInv cap s'.
Proof. exact (@history_ok). Qed.

(* T7. The same from any state satisfying the invariant ([room s n]: n more slots fit when capcheck = false). *)
Theorem C02_history_from :
  forall (cap : nat) (capcheck debug : bool) (ops : list sop) (s : sgraph),
  SInv cap s ->
  room cap capcheck s (length ops) ->
  exists s' : sgraph, srun cap capcheck debug s ops = Ok s' /\ SInv cap s'.
Proof. exact (@srun_ok). Qed.

(* T7. A step that reports an error (or None for a removal) returns the very same state. *)
Theorem C02_error_leaves_unchanged :
  forall (cap : nat) (capcheck debug : bool) (s : sgraph) (o : sop) (s' : sgraph),
  (forall e : gerr, sstep cap capcheck debug s o = Ok (RIdx (inl e), s') -> s' = s) /\
  (sstep cap capcheck debug s o = Ok (RWt None, s') -> s' = s).
Proof. exact (@sstep_error_unchanged). Qed.

(* T8. retain_edges never panics (including the debug check), keeps the invariant, removes exactly the
live edges whose weight fails the predicate. *)
Theorem C02_retain_edges :
  forall (cap : nat) (debug : bool) (keep : nat -> bool) (s : sgraph),
  SInv cap s ->
  exists s' : sgraph,
    s_retain_edges cap debug keep s = Ok s' /\
    SInv cap s' /\
    (forall j : nat, nwo (sg s') j = nwo (sg s) j) /\
    (forall x : nat,
     ewo (sg s') x =
     match ewo (sg s) x with
     | Some w => if keep w then Some w else None
     | None => None
     end) /\
    (forall k x : nat,
     ewo (sg s') x <> None -> epo (gedges (sg s')) k x = epo (gedges (sg s)) k x) /\
    (forall (k i : nat) (l : list nat),
     nwo (sg s) i <> None ->
     adj cap (sg s) k i l ->
     adj cap (sg s') k i
       (filter (fun x : nat => match ewo (sg s') x with
                               | Some _ => true
                               | None => false
                               end) l)).
Proof. exact (@s_retain_edges_ok). Qed.

(* T8. retain_nodes never panics, keeps the invariant, removes exactly the live nodes whose weight fails
the predicate (D) and the live edges with an endpoint in D ([incG D g x]). *)
Theorem C02_retain_nodes :
  forall (cap : nat) (debug : bool) (keep : nat -> bool) (s : sgraph),
  SInv cap s ->
  exists s' : sgraph,
    s_retain_nodes cap debug keep s = Ok s' /\
    SInv cap s' /\
    (let D :=
       fun a : nat => match nwo (sg s) a with
                      | Some w => negb (keep w)
                      | None => false
                      end in
     (forall j : nat, nwo (sg s') j = (if D j then None else nwo (sg s) j)) /\
     (forall x : nat, ewo (sg s') x = (if incG D (sg s) x then None else ewo (sg s) x)) /\
     (forall k x : nat,
      ewo (sg s') x <> None -> epo (gedges (sg s')) k x = epo (gedges (sg s)) k x) /\
     length (gnodes (sg s')) = length (gnodes (sg s)) /\
     length (gedges (sg s')) = length (gedges (sg s))).
Proof. exact (@F_retain_nodes). Qed.

(* T8. From<Graph>: a valid Graph gives a StableGraph satisfying the invariant. *)
Theorem C02_from_graph :
  forall (cap : nat) (g : graph nat nat), GInv cap g -> SInv cap (from_graph cap g).
Proof. exact (@from_graph_SInv). Qed.

(* T8. ... and converting back never fails and returns the same node weights and edge list. *)
Theorem C02_to_from_graph :
  forall (cap : nat) (capcheck debug : bool) (g : graph nat nat),
  GInv cap g ->
  exists g' : graph nat nat,
    to_graph cap capcheck debug (from_graph cap g) = Some g' /\
    GInv cap g' /\ map nwt (gnodes g') = map nwt (gnodes g) /\ etrip g' = etrip g.
Proof. exact (@to_from_graph). Qed.

(* Non-vacuity: a reachable state with two node vacancies and two edge vacancies satisfying the invariant. *)
Example C02_nonvacuous :
  exists s : sgraph,
    srun 8 true true (sg_empty 8) demo_ops = Ok s /\
    SInv 8 s /\
    live_nodes s = [(0, 10); (2, 12); (4, 14)] /\
    live_edges s = [(2, (4, 0), 106); (3, (2, 2), 107); (4, (4, 0), 104)] /\
    (ncount s, ecount s, node_bound s, edge_bound s) = (3, 3, 5, 5) /\
    (length (gnodes (sg s)), length (gedges (sg s))) = (5, 5) /\
    (free_node s, free_edge s) = (3, 0) /\
    map nwt (gnodes (sg s)) = [Some 10; None; Some 12; None; Some 14] /\
    map ewt (gedges (sg s)) = [None; None; Some 106; Some 107; Some 104] /\
    check_free_lists 8 s = true.
Proof. exact (@demo_reachable). Qed.

(* The values returned along that history (indices reused, NodeMissed, None). *)
Example C02_nonvacuous_outputs :
  souts 8 true true (sg_empty 8) demo_ops =
  map Some
    [RIdx (inr 0); RIdx (inr 1); RIdx (inr 2); RIdx (inr 3); RIdx (inr 4); 
     RIdx (inr 0); RIdx (inr 1); RIdx (inr 2); RIdx (inr 3); RIdx (inr 4);
     RIdx (inl (NodeMissed 7)); RWt (Some 11); RWt (Some 13); RWt None; RUnit; 
     RIdx (inr 2); RIdx (inr 3)].
Proof. exact (@demo_outputs). Qed.


Check C02_invariant_meaning :
  forall (cap : nat) (s : sgraph),
  SInv cap s <->
  length (gnodes (sg s)) <= cap /\
  length (gedges (sg s)) <= cap /\
  (forall k x i : nat,
   ewo (sg s) x <> None -> epo (gedges (sg s)) k x = Some i -> nwo (sg s) i <> None) /\
  (forall k i : nat,
   nwo (sg s) i <> None ->
   exists l : list nat,
     adj cap (sg s) k i l /\
     (forall x : nat, In x l <-> ewo (sg s) x <> None /\ epo (gedges (sg s)) k x = Some i)) /\
  ncount s = nsome (map nwt (gnodes (sg s))) /\
  ecount s = nsome (map ewt (gedges (sg s))) /\
  (exists l : list nat,
     lseg (fnx (sg s)) (free_node s) l cap /\
     bkp (sg s) cap l /\
     (forall i : nat, In i l <-> i < length (gnodes (sg s)) /\ nwo (sg s) i = None)) /\
  (exists l : list nat,
     lseg (fex (sg s)) (free_edge s) l cap /\
     (forall x : nat, In x l <-> x < length (gedges (sg s)) /\ ewo (sg s) x = None)).
Check C02_inv_init_add_node :
  forall (cap : nat) (capcheck debug : bool),
  SInv cap (sg_empty cap) /\
  (forall (s : sgraph) (w : nat),
   SInv cap s ->
   (capcheck = false -> free_node s = cap -> length (gnodes (sg s)) < cap) ->
   exists (r : gerr + nat) (s' : sgraph),
     s_try_add_node cap capcheck debug s w = Ok (r, s') /\
     SInv cap s' /\
     match r with
     | inl e =>
         e = NodeIxLimit /\
         s' = s /\ free_node s = cap /\ capcheck = true /\ length (gnodes (sg s)) = cap
     | inr i =>
         i = (if free_node s =? cap then length (gnodes (sg s)) else free_node s) /\
         nwo (sg s) i = None /\
         nwo (sg s') i = Some w /\
         (forall j : nat, j <> i -> nwo (sg s') j = nwo (sg s) j) /\
         gedges (sg s') = gedges (sg s) /\
         (forall (k j : nat) (l : list nat),
          nwo (sg s) j <> None -> adj cap (sg s) k j l -> adj cap (sg s') k j l) /\
         (forall k : nat, adj cap (sg s') k i []) /\
         ncount s' = S (ncount s) /\ ecount s' = ecount s
     end).
Check C02_add_node_limit :
  forall (cap : nat) (capcheck debug : bool) (s : sgraph) (w : nat),
  free_node s = cap ->
  capcheck = true ->
  length (gnodes (sg s)) = cap ->
  s_try_add_node cap capcheck debug s w = Ok (inl NodeIxLimit, s).
Check C02_fresh_node_index :
  forall (cap : nat) (capcheck debug : bool) (s : sgraph) (w i : nat) (s' : sgraph),
  SInv cap s ->
  (capcheck = false -> free_node s = cap -> length (gnodes (sg s)) < cap) ->
  s_try_add_node cap capcheck debug s w = Ok (inr i, s') ->
  nwo (sg s) i = None /\
  nwo (sg s') i = Some w /\
  (forall j w' : nat, nwo (sg s) j = Some w' -> j <> i /\ nwo (sg s') j = Some w').
Check C02_add_edge :
  forall (cap : nat) (capcheck debug : bool) (s : sgraph) (a b w : nat),
  SInv cap s ->
  (capcheck = false -> free_edge s = cap -> length (gedges (sg s)) < cap) ->
  exists (r : gerr + nat) (s' : sgraph),
    s_try_add_edge cap capcheck debug s a b w = Ok (r, s') /\
    SInv cap s' /\
    match r with
    | inl e =>
        s' = s /\
        (e = EdgeIxLimit /\
         free_edge s = cap /\ capcheck = true /\ length (gedges (sg s)) = cap \/
         (exists i : nat,
            e = NodeMissed i /\
            wrong_index (sg s) a b = Some i /\
            (i = a \/ i = b) /\
            nwo (sg s) i = None /\
            ~ (free_edge s = cap /\ capcheck = true /\ length (gedges (sg s)) = cap)))
    | inr x =>
        nwo (sg s) a <> None /\
        nwo (sg s) b <> None /\
        x = (if free_edge s =? cap then length (gedges (sg s)) else free_edge s) /\
        ewo (sg s) x = None /\
        ewo (sg s') x = Some w /\
        (forall k : nat, epo (gedges (sg s')) k x = Some (sel (a, b) k)) /\
        (forall y : nat, y <> x -> ewo (sg s') y = ewo (sg s) y) /\
        (forall k y : nat, y <> x -> epo (gedges (sg s')) k y = epo (gedges (sg s)) k y) /\
        (forall j : nat, nwo (sg s') j = nwo (sg s) j) /\
        (forall (k i : nat) (l : list nat),
         nwo (sg s) i <> None ->
         adj cap (sg s) k i l -> adj cap (sg s') k i (if i =? sel (a, b) k then x :: l else l)) /\
        ncount s' = ncount s /\ ecount s' = S (ecount s)
    end.
Check C02_add_edge_errors :
  forall (cap : nat) (capcheck debug : bool) (s : sgraph) (a b w : nat),
  (free_edge s = cap ->
   capcheck = true ->
   length (gedges (sg s)) = cap ->
   s_try_add_edge cap capcheck debug s a b w = Ok (inl EdgeIxLimit, s)) /\
  (forall i : nat,
   wrong_index (sg s) a b = Some i ->
   free_edge s <> cap \/ capcheck = false \/ length (gedges (sg s)) <> cap ->
   s_try_add_edge cap capcheck debug s a b w = Ok (inl (NodeMissed i), s)).
Check C02_fresh_edge_index :
  forall (cap : nat) (capcheck debug : bool) (s : sgraph) (a b w x : nat) (s' : sgraph),
  SInv cap s ->
  (capcheck = false -> free_edge s = cap -> length (gedges (sg s)) < cap) ->
  s_try_add_edge cap capcheck debug s a b w = Ok (inr x, s') ->
  ewo (sg s) x = None /\
  ewo (sg s') x = Some w /\
  (forall y w' : nat,
   ewo (sg s) y = Some w' ->
   y <> x /\
   ewo (sg s') y = Some w' /\
   (forall k : nat, epo (gedges (sg s')) k y = epo (gedges (sg s)) k y)).
Check C02_remove_edge :
  forall (cap : nat) (debug : bool) (s : sgraph) (e : nat),
  SInv cap s ->
  (ewo (sg s) e = None -> s_remove_edge cap debug s e = Ok (None, s)) /\
  (forall w : nat,
   ewo (sg s) e = Some w ->
   exists s' : sgraph,
     s_remove_edge cap debug s e = Ok (Some w, s') /\
     SInv cap s' /\
     S (ecount s') = ecount s /\
     ncount s' = ncount s /\
     length (gnodes (sg s')) = length (gnodes (sg s)) /\
     length (gedges (sg s')) = length (gedges (sg s)) /\
     (forall j : nat, nwo (sg s') j = nwo (sg s) j) /\
     (forall x : nat, ewo (sg s') x = (if x =? e then None else ewo (sg s) x)) /\
     (forall k x : nat, x <> e -> epo (gedges (sg s')) k x = epo (gedges (sg s)) k x) /\
     (forall (k i : nat) (l : list nat),
      nwo (sg s) i <> None ->
      adj cap (sg s) k i l -> adj cap (sg s') k i (filter (fun x : nat => negb (x =? e)) l))).
Check C02_remove_node :
  forall (cap : nat) (debug : bool) (s : sgraph) (a : nat),
  SInv cap s ->
  (nwo (sg s) a = None -> s_remove_node cap debug s a = Ok (None, s)) /\
  (forall w : nat,
   nwo (sg s) a = Some w ->
   exists s' : sgraph,
     s_remove_node cap debug s a = Ok (Some w, s') /\
     SInv cap s' /\
     S (ncount s') = ncount s /\
     length (gnodes (sg s')) = length (gnodes (sg s)) /\
     length (gedges (sg s')) = length (gedges (sg s)) /\
     (forall j : nat, nwo (sg s') j = (if j =? a then None else nwo (sg s) j)) /\
     (forall x : nat, ewo (sg s') x = (if incb (sg s) a x then None else ewo (sg s) x)) /\
     (forall k x : nat,
      incb (sg s) a x = false -> epo (gedges (sg s')) k x = epo (gedges (sg s)) k x) /\
     (forall (k i : nat) (l : list nat),
      i <> a ->
      nwo (sg s) i <> None ->
      adj cap (sg s) k i l ->
      adj cap (sg s') k i (filter (fun x : nat => negb (incb (sg s) a x)) l))).
Check C02_incident :
  forall (g : IG) (a x : nat),
  incb g a x = true <->
  ewo g x <> None /\ (epo (gedges g) 0 x = Some a \/ epo (gedges g) 1 x = Some a).
Check C02_counts_bounds_iterators_agree :
  forall (cap : nat) (debug : bool) (s : sgraph),
  SInv cap s ->
  ncount s = length (live_nodes s) /\
  ecount s = length (live_edges s) /\
  (forall i w : nat, In (i, w) (live_nodes s) <-> nwo (sg s) i = Some w) /\
  (forall (x : nat) (nd : nat * nat) (w : nat),
   In (x, nd, w) (live_edges s) <->
   ewo (sg s) x = Some w /\
   epo (gedges (sg s)) 0 x = Some (fst nd) /\ epo (gedges (sg s)) 1 x = Some (snd nd)) /\
  (forall i : nat, nwo (sg s) i <> None -> i < node_bound s) /\
  (node_bound s = 0 \/ nwo (sg s) (node_bound s - 1) <> None) /\
  (forall x : nat, ewo (sg s) x <> None -> x < edge_bound s) /\
  (edge_bound s = 0 \/ ewo (sg s) (edge_bound s - 1) <> None) /\
  check_free_lists cap s = true /\ checked cap debug s = Ok s.
Check C02_walks :
  forall (cap : nat) (s : sgraph) (k i : nat),
  SInv cap s ->
  (forall l : list nat,
   nwo (sg s) i <> None ->
   adj cap (sg s) k i l ->
   chain (fuel_of (sg s)) (gedges (sg s)) (sel (s_next cap s i) k) k = Ok l /\
   NoDup l /\
   (forall x : nat, In x l <-> ewo (sg s) x <> None /\ epo (gedges (sg s)) k x = Some i)) /\
  (nwo (sg s) i = None ->
   chain (fuel_of (sg s)) (gedges (sg s)) (sel (s_next cap s i) k) k = Ok []).
Check C02_reverse_clear :
  forall (cap : nat) (s : sgraph),
  SInv cap s -> SInv cap (s_reverse s) /\ SInv cap (s_clear_edges cap s).
Check C02_reverse :
  forall (cap : nat) (s : sgraph),
  SInv cap s ->
  SInv cap (s_reverse s) /\
  free_node (s_reverse s) = free_node s /\
  free_edge (s_reverse s) = free_edge s /\
  ncount (s_reverse s) = ncount s /\
  ecount (s_reverse s) = ecount s /\
  (forall j : nat, nwo (sg (s_reverse s)) j = nwo (sg s) j) /\
  (forall x : nat, ewo (sg (s_reverse s)) x = ewo (sg s) x) /\
  (forall k x : nat,
   ewo (sg s) x <> None -> epo (gedges (sg (s_reverse s))) k x = epo (gedges (sg s)) (opk k) x) /\
  (forall (k i : nat) (l : list nat),
   nwo (sg s) i <> None -> adj cap (sg s) (opk k) i l -> adj cap (sg (s_reverse s)) k i l) /\
  (forall j : nat,
   nwo (sg s) j = None ->
   nth_error (gnodes (sg (s_reverse s))) j = nth_error (gnodes (sg s)) j) /\
  (forall x : nat,
   ewo (sg s) x = None ->
   nth_error (gedges (sg (s_reverse s))) x = nth_error (gedges (sg s)) x).
Check C02_clear_edges :
  forall (cap : nat) (s : sgraph),
  SInv cap s ->
  SInv cap (s_clear_edges cap s) /\
  ecount (s_clear_edges cap s) = 0 /\
  gedges (sg (s_clear_edges cap s)) = [] /\
  ncount (s_clear_edges cap s) = ncount s /\
  free_node (s_clear_edges cap s) = free_node s /\
  (forall j : nat, nwo (sg (s_clear_edges cap s)) j = nwo (sg s) j) /\
  (forall k i : nat, nwo (sg s) i <> None -> adj cap (sg (s_clear_edges cap s)) k i []).
Check C02_history :
  forall (cap : nat) (capcheck debug : bool) (ops : list sop),
  (capcheck = false -> length ops <= cap) ->
  exists s' : sgraph, srun cap capcheck debug (sg_empty cap) ops = Ok s' /\ SInv cap s'.
Check C02_history_from :
  forall (cap : nat) (capcheck debug : bool) (ops : list sop) (s : sgraph),
  SInv cap s ->
  room cap capcheck s (length ops) ->
  exists s' : sgraph, srun cap capcheck debug s ops = Ok s' /\ SInv cap s'.
Check C02_error_leaves_unchanged :
  forall (cap : nat) (capcheck debug : bool) (s : sgraph) (o : sop) (s' : sgraph),
  (forall e : gerr, sstep cap capcheck debug s o = Ok (RIdx (inl e), s') -> s' = s) /\
  (sstep cap capcheck debug s o = Ok (RWt None, s') -> s' = s).
Check C02_retain_edges :
  forall (cap : nat) (debug : bool) (keep : nat -> bool) (s : sgraph),
  SInv cap s ->
  exists s' : sgraph,
    s_retain_edges cap debug keep s = Ok s' /\
    SInv cap s' /\
    (forall j : nat, nwo (sg s') j = nwo (sg s) j) /\
    (forall x : nat,
     ewo (sg s') x =
     match ewo (sg s) x with
     | Some w => if keep w then Some w else None
     | None => None
     end) /\
    (forall k x : nat,
     ewo (sg s') x <> None -> epo (gedges (sg s')) k x = epo (gedges (sg s)) k x) /\
    (forall (k i : nat) (l : list nat),
     nwo (sg s) i <> None ->
     adj cap (sg s) k i l ->
     adj cap (sg s') k i
       (filter (fun x : nat => match ewo (sg s') x with
                               | Some _ => true
                               | None => false
                               end) l)).
Check C02_retain_nodes :
  forall (cap : nat) (debug : bool) (keep : nat -> bool) (s : sgraph),
  SInv cap s ->
  exists s' : sgraph,
    s_retain_nodes cap debug keep s = Ok s' /\
    SInv cap s' /\
    (let D :=
       fun a : nat => match nwo (sg s) a with
                      | Some w => negb (keep w)
                      | None => false
                      end in
     (forall j : nat, nwo (sg s') j = (if D j then None else nwo (sg s) j)) /\
     (forall x : nat, ewo (sg s') x = (if incG D (sg s) x then None else ewo (sg s) x)) /\
     (forall k x : nat,
      ewo (sg s') x <> None -> epo (gedges (sg s')) k x = epo (gedges (sg s)) k x) /\
     length (gnodes (sg s')) = length (gnodes (sg s)) /\
     length (gedges (sg s')) = length (gedges (sg s))).
Check C02_from_graph :
  forall (cap : nat) (g : graph nat nat), GInv cap g -> SInv cap (from_graph cap g).
Check C02_to_from_graph :
  forall (cap : nat) (capcheck debug : bool) (g : graph nat nat),
  GInv cap g ->
  exists g' : graph nat nat,
    to_graph cap capcheck debug (from_graph cap g) = Some g' /\
    GInv cap g' /\ map nwt (gnodes g') = map nwt (gnodes g) /\ etrip g' = etrip g.
Check C02_nonvacuous :
  exists s : sgraph,
    srun 8 true true (sg_empty 8) demo_ops = Ok s /\
    SInv 8 s /\
    live_nodes s = [(0, 10); (2, 12); (4, 14)] /\
    live_edges s = [(2, (4, 0), 106); (3, (2, 2), 107); (4, (4, 0), 104)] /\
    (ncount s, ecount s, node_bound s, edge_bound s) = (3, 3, 5, 5) /\
    (length (gnodes (sg s)), length (gedges (sg s))) = (5, 5) /\
    (free_node s, free_edge s) = (3, 0) /\
    map nwt (gnodes (sg s)) = [Some 10; None; Some 12; None; Some 14] /\
    map ewt (gedges (sg s)) = [None; None; Some 106; Some 107; Some 104] /\
    check_free_lists 8 s = true.
Check C02_nonvacuous_outputs :
  souts 8 true true (sg_empty 8) demo_ops =
  map Some
    [RIdx (inr 0); RIdx (inr 1); RIdx (inr 2); RIdx (inr 3); RIdx (inr 4); 
     RIdx (inr 0); RIdx (inr 1); RIdx (inr 2); RIdx (inr 3); RIdx (inr 4);
     RIdx (inl (NodeMissed 7)); RWt (Some 11); RWt (Some 13); RWt None; RUnit; 
     RIdx (inr 2); RIdx (inr 3)].

Print Assumptions C02_invariant_meaning.
Print Assumptions C02_inv_init_add_node.
Print Assumptions C02_add_node_limit.
Print Assumptions C02_fresh_node_index.
Print Assumptions C02_add_edge.
Print Assumptions C02_add_edge_errors.
Print Assumptions C02_fresh_edge_index.
Print Assumptions C02_remove_edge.
Print Assumptions C02_remove_node.
Print Assumptions C02_incident.
Print Assumptions C02_counts_bounds_iterators_agree.
Print Assumptions C02_walks.
Print Assumptions C02_reverse_clear.
Print Assumptions C02_reverse.
Print Assumptions C02_clear_edges.
Print Assumptions C02_history.
Print Assumptions C02_history_from.
Print Assumptions C02_error_leaves_unchanged.
Print Assumptions C02_retain_edges.
Print Assumptions C02_retain_nodes.
Print Assumptions C02_from_graph.
Print Assumptions C02_to_from_graph.
Print Assumptions C02_nonvacuous.
Print Assumptions C02_nonvacuous_outputs.
