(* C10 — dijkstra on non-negative edge costs returns exactly the reachable nodes with their
   true shortest-path costs; with a goal, the goal's entry is exact, every entry is the cost
   of a walk, and nodes strictly closer than the goal are exact.  Proved for every heap
   tie-breaking order, and for the model's own pop and fuel.  This file holds only the
   property theorems (closed by [exact]), their pinned statements ([Check]) and their assumptions. *)
From Coq Require Import Lia ZArith List.
From PG Require Import Lib.Io Model.View Model.Traversal Model.ShortestM Spec.Paths Proofs.DijkstraP Proofs.KspP.
Open Scope Z_scope.

(* dijkstra(g, s, None): never panics or runs out of the model's fuel; the domain of the
   result is exactly the set of nodes reachable from s and every value is the distance. *)
Theorem C10_dijkstra_exact : forall v s, VOk v -> nonneg v -> in_cap v s ->
  exists m, dijkstra v s None = Ok m /\ NoDup (map fst m) /\
            forall x d, sget m x = Some d <-> is_dist v s x d.
Proof. intros v s HV HN Hs; exact (dijkstra_exact HV HN Hs). Qed.

(* the same for any heap that pops some entry of minimal key (any tie-breaking order) *)
Theorem C10_dijkstra_exact_any_heap : forall pop v s, pop_spec pop -> VOk v -> nonneg v -> in_cap v s ->
  exists m, dijkstra_g pop v s None = Ok m /\ NoDup (map fst m) /\
            forall x d, sget m x = Some d <-> is_dist v s x d.
Proof. intros pop v s Hp HV HN Hs; exact (dijkstra_g_exact Hp HV HN Hs). Qed.

(* the model's pop is such a heap, and the generic loop run with it is the model *)
Theorem C10_model_heap : pop_spec hpop /\ forall v s goal, dijkstra_g hpop v s goal = dijkstra v s goal.
Proof. exact (conj hpop_spec dijkstra_g_hpop). Qed.

(* dijkstra(g, s, Some(goal)): the goal's entry is exact (absent iff unreachable), every entry is
   the cost of some walk (an upper bound), entries of nodes strictly closer than the goal are exact,
   and when the goal is unreachable the whole map is exact. *)
Theorem C10_dijkstra_goal : forall v s g, VOk v -> nonneg v -> in_cap v s ->
  exists m, dijkstra v s (Some g) = Ok m /\ NoDup (map fst m) /\
    (forall d, sget m g = Some d <-> is_dist v s g d) /\
    (forall x d, sget m x = Some d -> exists p, walk v s p x /\ walk_cost p = d) /\
    (forall x d dg, is_dist v s x d -> is_dist v s g dg -> d < dg -> sget m x = Some d) /\
    (~ reachable v s g -> forall x d, sget m x = Some d <-> is_dist v s x d).
Proof. intros v s g HV HN Hs; exact (dijkstra_goal g HV HN Hs). Qed.

Theorem C10_dijkstra_goal_any_heap : forall pop v s g, pop_spec pop -> VOk v -> nonneg v -> in_cap v s ->
  exists m, dijkstra_g pop v s (Some g) = Ok m /\ NoDup (map fst m) /\
    (forall d, sget m g = Some d <-> is_dist v s g d) /\
    (forall x d, sget m x = Some d -> exists p, walk v s p x /\ walk_cost p = d) /\
    (forall x d dg, is_dist v s x d -> is_dist v s g dg -> d < dg -> sget m x = Some d) /\
    (~ reachable v s g -> forall x d, sget m x = Some d <-> is_dist v s x d).
Proof. intros pop v s g Hp HV HN Hs; exact (dijkstra_g_goal g Hp HV HN Hs). Qed.

(* k_shortest_path(g, s, None, 1) (counter of size node_bound): never panics, and the result
   is exactly the distance map ... *)
Theorem C10_ksp_k1_exact : forall v s, VOk v -> nonneg v ->
  (forall a e, In e (out_edges v a) -> (tgt e < vbound v)%nat) -> (s < vbound v)%nat ->
  exists m, k_shortest_path v (vbound v) s None 1 = Ok m /\ NoDup (map fst m) /\
            forall x d, sget m x = Some d <-> is_dist v s x d.
Proof. intros v s HV HN HT Hs; exact (ksp1_exact HV HN HT Hs). Qed.

(* ... so k = 1 coincides with dijkstra: the two maps have the same bindings *)
Theorem C10_ksp_k1_eq_dijkstra : forall v s, VOk v -> nonneg v ->
  (forall a e, In e (out_edges v a) -> (tgt e < vbound v)%nat) -> (s < vbound v)%nat -> in_cap v s ->
  exists m1 m2, k_shortest_path v (vbound v) s None 1 = Ok m1 /\ dijkstra v s None = Ok m2 /\
                NoDup (map fst m1) /\ NoDup (map fst m2) /\ forall x, sget m1 x = sget m2 x.
Proof. intros v s HV HN HT Hs Hc; exact (ksp1_eq_dijkstra HV HN HT Hs Hc). Qed.

(* Non-vacuity: a weighted view with a zero-cost entry (1 -> 2), a cycle (0 -> 1 -> 2 -> 0),
   a node without out-entries (3) and a node that is not reachable from 0 (4). *)
Definition C10_view : view :=
  mkView true 5 (Some 5%nat) [0; 1; 2; 3; 4]%nat
    [(0%nat, [(0%nat, 1%nat, 2); (1%nat, 2%nat, 5)]); (1%nat, [(2%nat, 2%nat, 0)]);
     (2%nat, [(3%nat, 0%nat, 1); (4%nat, 3%nat, 4)]); (3%nat, []); (4%nat, [(5%nat, 0%nat, 1)])]
    [] 6 6 [].

Example C10_view_ok : VOk C10_view /\ nonneg C10_view /\ in_cap C10_view 0.
Proof.
  split; [apply vok_b_ok; vm_compute; reflexivity|].
  split; [apply nonneg_b_ok; vm_compute; reflexivity|vm_compute; lia].
Qed.

Example C10_nonvacuous :
  dijkstra C10_view 0 None = Ok [(0%nat, 0); (1%nat, 2); (2%nat, 2); (3%nat, 6)] /\
  dijkstra C10_view 0 (Some 2%nat) = Ok [(0%nat, 0); (1%nat, 2); (2%nat, 2)] /\
  dijkstra C10_view 0 (Some 4%nat) = Ok [(0%nat, 0); (1%nat, 2); (2%nat, 2); (3%nat, 6)] /\
  k_shortest_path C10_view 5 0 None 1 = Ok [(0%nat, 0); (1%nat, 2); (2%nat, 2); (3%nat, 6)] /\
  (forall a e, In e (out_edges C10_view a) -> (tgt e < vbound C10_view)%nat).
Proof.
  assert (HT : forall a e, In e (out_edges C10_view a) -> (tgt e < vbound C10_view)%nat).
  { intros a e He. destruct (out_edges_In _ _ _ He) as [l [Hl Hel]].
    vm_compute in Hl. repeat (destruct Hl as [Hl|Hl]; [injection Hl as <- <-; vm_compute in Hel;
      repeat (destruct Hel as [<-|Hel]; [vm_compute; lia|]); destruct Hel|]). destruct Hl. }
  split; [vm_compute; reflexivity|]. split; [vm_compute; reflexivity|].
  split; [vm_compute; reflexivity|]. split; [vm_compute; reflexivity|]. exact HT.
Qed.

(* the theorem applied: 6 is the distance from 0 to 3 and node 4 has no distance *)
Example C10_applied : is_dist C10_view 0 3 6 /\ forall d, ~ is_dist C10_view 0 4 d.
Proof.
  destruct C10_view_ok as [HV [HN Hs]].
  destruct (dijkstra_exact HV HN Hs) as [m [E [_ H]]].
  vm_compute in E. injection E as <-. split.
  - apply H. reflexivity.
  - intros d Hd. apply H in Hd. vm_compute in Hd. discriminate.
Qed.

Check C10_dijkstra_exact : forall v s, VOk v -> nonneg v -> in_cap v s ->
  exists m, dijkstra v s None = Ok m /\ NoDup (map fst m) /\
            forall x d, sget m x = Some d <-> is_dist v s x d.
Check C10_dijkstra_exact_any_heap : forall pop v s, pop_spec pop -> VOk v -> nonneg v -> in_cap v s ->
  exists m, dijkstra_g pop v s None = Ok m /\ NoDup (map fst m) /\
            forall x d, sget m x = Some d <-> is_dist v s x d.
Check C10_ksp_k1_exact : forall v s, VOk v -> nonneg v ->
  (forall a e, In e (out_edges v a) -> (tgt e < vbound v)%nat) -> (s < vbound v)%nat ->
  exists m, k_shortest_path v (vbound v) s None 1 = Ok m /\ NoDup (map fst m) /\
            forall x d, sget m x = Some d <-> is_dist v s x d.
Check C10_ksp_k1_eq_dijkstra : forall v s, VOk v -> nonneg v ->
  (forall a e, In e (out_edges v a) -> (tgt e < vbound v)%nat) -> (s < vbound v)%nat -> in_cap v s ->
  exists m1 m2, k_shortest_path v (vbound v) s None 1 = Ok m1 /\ dijkstra v s None = Ok m2 /\
                NoDup (map fst m1) /\ NoDup (map fst m2) /\ forall x, sget m1 x = sget m2 x.
Check C10_model_heap : pop_spec hpop /\ forall v s goal, dijkstra_g hpop v s goal = dijkstra v s goal.
Check C10_dijkstra_goal : forall v s g, VOk v -> nonneg v -> in_cap v s ->
  exists m, dijkstra v s (Some g) = Ok m /\ NoDup (map fst m) /\
    (forall d, sget m g = Some d <-> is_dist v s g d) /\
    (forall x d, sget m x = Some d -> exists p, walk v s p x /\ walk_cost p = d) /\
    (forall x d dg, is_dist v s x d -> is_dist v s g dg -> d < dg -> sget m x = Some d) /\
    (~ reachable v s g -> forall x d, sget m x = Some d <-> is_dist v s x d).
Check C10_dijkstra_goal_any_heap : forall pop v s g, pop_spec pop -> VOk v -> nonneg v -> in_cap v s ->
  exists m, dijkstra_g pop v s (Some g) = Ok m /\ NoDup (map fst m) /\
    (forall d, sget m g = Some d <-> is_dist v s g d) /\
    (forall x d, sget m x = Some d -> exists p, walk v s p x /\ walk_cost p = d) /\
    (forall x d dg, is_dist v s x d -> is_dist v s g dg -> d < dg -> sget m x = Some d) /\
    (~ reachable v s g -> forall x d, sget m x = Some d <-> is_dist v s x d).

Print Assumptions C10_dijkstra_exact.
Print Assumptions C10_dijkstra_exact_any_heap.
Print Assumptions C10_model_heap.
Print Assumptions C10_ksp_k1_exact.
Print Assumptions C10_ksp_k1_eq_dijkstra.
Print Assumptions C10_dijkstra_goal.
Print Assumptions C10_dijkstra_goal_any_heap.
Print Assumptions C10_applied.
