(* C13 — the reference for petgraph's VF2 functions (is_isomorphic, is_isomorphic_matching,
   is_isomorphic_subgraph, is_isomorphic_subgraph_matching, subgraph_isomorphisms_iter): the
   exhaustive search of Model/IsoM.v decides the mathematical definition of (sub)graph isomorphism.
   This file holds only the property theorems (closed by [exact]), their pinned statements
   ([Check]), their assumptions, and non-vacuity examples.

   Vocabulary (Spec/IsoSpec.v):
     Adj g a b            there is an edge a -> b (either orientation when g is undirected)
     preserves nm em g0 g1 f   f maps every ordered pair of g0's nodes to a pair of g1 with the same
                          adjacency status (edge to edge, non-edge to non-edge), the edge predicate
                          (weights equal modulo em; em = 0: always) holds on every matched edge, the
                          node predicate (modulo nm) on every matched node
     embedding nm em g0 g1 f   f maps the nodes of g0 to nodes of g1, injectively, and preserves:
                          an isomorphism of g0 onto the subgraph of g1 induced by the image of f
     Isomorphic           equal node counts and an embedding (which is then a bijection:
                          C13_iso_bijection)
     SubIsomorphic        an embedding exists
     wf g                 endpoints are nodes, at most one edge per ordered pair of nodes (per
                          unordered pair when undirected); self-loops allowed (C13_wf_def)
     is_perm p n          the list p is a permutation of 0..n-1
     relabel p g          node i becomes p[i]
     relabeling p g g'    g' is g with node i renamed p[i], its edge list in any order, each edge
                          possibly with exchanged endpoints when undirected
     lex_lt               strict lexicographic order on lists of naturals *)
From PG Require Import Lib.Io Model.IsoM Spec.IsoSpec
                       Proofs.IsoRefP Proofs.IsoEquivP Proofs.IsoRelabelP.
From Coq Require Import Permutation Sorted.

(* ------------------------------------------------------------------ *)
(* the definitions, unfolded                                            *)

Theorem C13_preserves_def : forall nm em g0 g1 f,
  preserves nm em g0 g1 f <->
  (forall a b, a < s_n g0 -> b < s_n g0 ->
     match edge_w (s_dir g0) (s_es g0) a b, edge_w (s_dir g1) (s_es g1) (f a) (f b) with
     | Some w0, Some w1 => wmatch em w0 w1 = true
     | None, None => True
     | _, _ => False
     end) /\
  (forall a, a < s_n g0 -> wmatch nm (nth a (s_nw g0) 0%Z) (nth (f a) (s_nw g1) 0%Z) = true).
Proof. exact preserves_def. Qed.

(* the plain variant: adjacency and non-adjacency, nothing else *)
Theorem C13_preserves_plain : forall g0 g1 f,
  preserves 0 0 g0 g1 f <->
  (forall a b, a < s_n g0 -> b < s_n g0 -> (Adj g0 a b <-> Adj g1 (f a) (f b))).
Proof. exact preserves_plain_iff. Qed.

Theorem C13_preserves_adj : forall nm em g0 g1 f a b,
  preserves nm em g0 g1 f -> a < s_n g0 -> b < s_n g0 -> (Adj g0 a b <-> Adj g1 (f a) (f b)).
Proof. exact preserves_Adj. Qed.

Theorem C13_adj_undirected_sym : forall g a b, s_dir g = false -> Adj g a b -> Adj g b a.
Proof. exact Adj_undirected_sym. Qed.

Theorem C13_wf_def : forall g,
  wf g <->
  (forall s t w, In (s, t, w) (s_es g) -> s < s_n g /\ t < s_n g) /\
  NoDup (s_es g) /\
  (forall s t w s' t' w', In (s, t, w) (s_es g) -> In (s', t', w') (s_es g) ->
     (s = s' /\ t = t') \/ (s_dir g = false /\ s = t' /\ t = s') -> (s, t, w) = (s', t', w')).
Proof. exact wf_iff. Qed.

(* ------------------------------------------------------------------ *)
(* S1: injections                                                       *)

Theorem C13_injections_spec : forall k cands m, NoDup cands ->
  (In m (injections k cands) <-> length m = k /\ NoDup m /\ incl m cands).
Proof. exact injections_In. Qed.

Theorem C13_injections_nodup : forall k cands, NoDup cands -> NoDup (injections k cands).
Proof. exact injections_NoDup. Qed.

Theorem C13_injections_sorted : forall k cands,
  StronglySorted lt cands -> StronglySorted lex_lt (injections k cands).
Proof. exact injections_sorted. Qed.

Theorem C13_lex_lt_strict_order :
  (forall l, ~ lex_lt l l) /\ (forall l1 l2 l3, lex_lt l1 l2 -> lex_lt l2 l3 -> lex_lt l1 l3).
Proof. exact (conj lex_lt_irrefl lex_lt_trans). Qed.

(* ------------------------------------------------------------------ *)
(* S2: valid_map (no hypothesis on the length of m is needed)           *)

Theorem C13_valid_map_spec : forall nm em g0 g1 m,
  valid_map nm em g0 g1 m = true <-> preserves nm em g0 g1 (fun a => nth a m 0).
Proof. exact valid_map_iff. Qed.

(* ------------------------------------------------------------------ *)
(* S3: the reference decides the definition                             *)

Theorem C13_sub_isos_spec : forall nm em g0 g1 m,
  In m (sub_isos nm em g0 g1) <->
  length m = s_n g0 /\ embedding nm em g0 g1 (fun a => nth a m 0).
Proof. exact sub_isos_In. Qed.

Theorem C13_sub_isos_nodup : forall nm em g0 g1, NoDup (sub_isos nm em g0 g1).
Proof. exact sub_isos_NoDup. Qed.

Theorem C13_sub_isos_sorted : forall nm em g0 g1, StronglySorted lex_lt (sub_isos nm em g0 g1).
Proof. exact sub_isos_sorted. Qed.

Theorem C13_sub_isos_complete : forall nm em g0 g1 f,
  embedding nm em g0 g1 f -> In (map f (seq 0 (s_n g0))) (sub_isos nm em g0 g1).
Proof. exact sub_isos_complete. Qed.

Theorem C13_is_sub_iso_spec : forall nm em g0 g1,
  is_sub_iso nm em g0 g1 = true <-> SubIsomorphic nm em g0 g1.
Proof. exact is_sub_iso_iff. Qed.

Theorem C13_is_iso_spec : forall nm em g0 g1,
  is_iso nm em g0 g1 = true <-> Isomorphic nm em g0 g1.
Proof. exact is_iso_iff. Qed.

(* an isomorphism is a bijection whose inverse is an isomorphism *)
Theorem C13_iso_bijection : forall nm em g0 g1,
  Isomorphic nm em g0 g1 ->
  exists f h, embedding nm em g0 g1 f /\ embedding nm em g1 g0 h /\
              (forall a, a < s_n g0 -> h (f a) = a) /\ (forall b, b < s_n g1 -> f (h b) = b).
Proof. exact Isomorphic_bijection. Qed.

(* ------------------------------------------------------------------ *)
(* S4: relabeling invariance                                            *)

Theorem C13_relabel_is_relabeling : forall p g, is_perm p (s_n g) -> relabeling p g (relabel p g).
Proof. exact relabel_relabeling. Qed.

Theorem C13_relabeling_wf : forall p g g',
  is_perm p (s_n g) -> wf g -> relabeling p g g' -> wf g'.
Proof. exact relabeling_wf. Qed.

(* the renaming is an isomorphism whatever the predicates: it keeps the weights *)
Theorem C13_relabeling_embedding : forall p g g',
  is_perm p (s_n g) -> wf g -> relabeling p g g' ->
  forall nm em, embedding nm em g g' (fun x => nth x p 0).
Proof. exact relabeling_embedding. Qed.

Theorem C13_is_iso_relabeling_self : forall p g g',
  is_perm p (s_n g) -> wf g -> relabeling p g g' -> forall nm em, is_iso nm em g g' = true.
Proof. exact is_iso_relabeling. Qed.

Theorem C13_is_iso_relabeling_r : forall p g1 g1',
  is_perm p (s_n g1) -> wf g1 -> relabeling p g1 g1' ->
  forall nm em g0, is_iso nm em g0 g1' = is_iso nm em g0 g1.
Proof. exact is_iso_relabeling_r. Qed.

Theorem C13_is_iso_relabeling_l : forall p g0 g0',
  is_perm p (s_n g0) -> wf g0 -> relabeling p g0 g0' ->
  forall nm em g1, is_iso nm em g0' g1 = is_iso nm em g0 g1.
Proof. exact is_iso_relabeling_l. Qed.

Theorem C13_is_sub_iso_relabeling_r : forall p g1 g1',
  is_perm p (s_n g1) -> wf g1 -> relabeling p g1 g1' ->
  forall nm em g0, is_sub_iso nm em g0 g1' = is_sub_iso nm em g0 g1.
Proof. exact is_sub_iso_relabeling_r. Qed.

Theorem C13_is_sub_iso_relabeling_l : forall p g0 g0',
  is_perm p (s_n g0) -> wf g0 -> relabeling p g0 g0' ->
  forall nm em g1, is_sub_iso nm em g0' g1 = is_sub_iso nm em g0 g1.
Proof. exact is_sub_iso_relabeling_l. Qed.

Theorem C13_sub_isos_relabeling_r : forall p g1 g1',
  is_perm p (s_n g1) -> wf g1 -> relabeling p g1 g1' ->
  forall nm em g0,
  Permutation (sub_isos nm em g0 g1') (map (map (fun x => nth x p 0)) (sub_isos nm em g0 g1)).
Proof. exact sub_isos_relabeling_r. Qed.

Theorem C13_sub_isos_relabeling_l : forall p g0 g0',
  is_perm p (s_n g0) -> wf g0 -> relabeling p g0 g0' ->
  forall nm em g1,
  Permutation (sub_isos nm em g0' g1)
              (map (fun m => map (fun j => nth (index_of j p) m 0) (seq 0 (s_n g0)))
                   (sub_isos nm em g0 g1)).
Proof. exact sub_isos_relabeling_l. Qed.

(* the same for the canonical relabeling *)
Theorem C13_relabel_wf : forall p g, is_perm p (s_n g) -> wf g -> wf (relabel p g).
Proof. exact relabel_wf. Qed.

Theorem C13_is_iso_relabel_self : forall nm em p g,
  is_perm p (s_n g) -> wf g -> is_iso nm em g (relabel p g) = true.
Proof. exact is_iso_relabel_self. Qed.

Theorem C13_is_iso_relabel_r : forall nm em p g0 g1,
  is_perm p (s_n g1) -> wf g1 -> is_iso nm em g0 (relabel p g1) = is_iso nm em g0 g1.
Proof. exact is_iso_relabel_r. Qed.

Theorem C13_is_iso_relabel_l : forall nm em p g0 g1,
  is_perm p (s_n g0) -> wf g0 -> is_iso nm em (relabel p g0) g1 = is_iso nm em g0 g1.
Proof. exact is_iso_relabel_l. Qed.

Theorem C13_is_sub_iso_relabel_r : forall nm em p g0 g1,
  is_perm p (s_n g1) -> wf g1 -> is_sub_iso nm em g0 (relabel p g1) = is_sub_iso nm em g0 g1.
Proof. exact is_sub_iso_relabel_r. Qed.

Theorem C13_is_sub_iso_relabel_l : forall nm em p g0 g1,
  is_perm p (s_n g0) -> wf g0 -> is_sub_iso nm em (relabel p g0) g1 = is_sub_iso nm em g0 g1.
Proof. exact is_sub_iso_relabel_l. Qed.

Theorem C13_sub_isos_relabel_r : forall nm em p g0 g1,
  is_perm p (s_n g1) -> wf g1 ->
  Permutation (sub_isos nm em g0 (relabel p g1))
              (map (map (fun x => nth x p 0)) (sub_isos nm em g0 g1)).
Proof. exact sub_isos_relabel_r. Qed.

Theorem C13_sub_isos_relabel_l : forall nm em p g0 g1,
  is_perm p (s_n g0) -> wf g0 ->
  Permutation (sub_isos nm em (relabel p g0) g1)
              (map (fun m => map (fun j => nth (index_of j p) m 0) (seq 0 (s_n g0)))
                   (sub_isos nm em g0 g1)).
Proof. exact sub_isos_relabel_l. Qed.

(* ------------------------------------------------------------------ *)
(* S5: equivalence and preorder (any nm, em; no well-formedness needed)  *)

Theorem C13_iso_refl : forall nm em g, Isomorphic nm em g g.
Proof. exact Isomorphic_refl. Qed.

Theorem C13_iso_sym : forall nm em g0 g1, Isomorphic nm em g0 g1 -> Isomorphic nm em g1 g0.
Proof. exact Isomorphic_sym. Qed.

Theorem C13_iso_trans : forall nm em g0 g1 g2,
  Isomorphic nm em g0 g1 -> Isomorphic nm em g1 g2 -> Isomorphic nm em g0 g2.
Proof. exact Isomorphic_trans. Qed.

Theorem C13_sub_refl : forall nm em g, SubIsomorphic nm em g g.
Proof. exact SubIsomorphic_refl. Qed.

Theorem C13_sub_trans : forall nm em g0 g1 g2,
  SubIsomorphic nm em g0 g1 -> SubIsomorphic nm em g1 g2 -> SubIsomorphic nm em g0 g2.
Proof. exact SubIsomorphic_trans. Qed.

Theorem C13_iso_sub : forall nm em g0 g1, Isomorphic nm em g0 g1 -> SubIsomorphic nm em g0 g1.
Proof. exact Isomorphic_SubIsomorphic. Qed.

Theorem C13_sub_iso_l : forall nm em g0 g1 h,
  Isomorphic nm em g0 g1 -> (SubIsomorphic nm em g0 h <-> SubIsomorphic nm em g1 h).
Proof. exact SubIsomorphic_iso_l. Qed.

Theorem C13_sub_iso_r : forall nm em g0 g1 h,
  Isomorphic nm em g0 g1 -> (SubIsomorphic nm em h g0 <-> SubIsomorphic nm em h g1).
Proof. exact SubIsomorphic_iso_r. Qed.

Theorem C13_is_iso_sym : forall nm em g0 g1, is_iso nm em g0 g1 = is_iso nm em g1 g0.
Proof. exact is_iso_sym. Qed.

(* ------------------------------------------------------------------ *)
(* S6: necessary conditions (the early returns of the wrappers)         *)

Theorem C13_iso_nodes : forall nm em g0 g1, Isomorphic nm em g0 g1 -> s_n g0 = s_n g1.
Proof. exact Isomorphic_nodes. Qed.

Theorem C13_sub_nodes : forall nm em g0 g1, SubIsomorphic nm em g0 g1 -> s_n g0 <= s_n g1.
Proof. exact SubIsomorphic_nodes. Qed.

(* both graphs of the same kind (directed / undirected), as the Rust types force *)
Theorem C13_iso_edges : forall nm em g0 g1,
  wf g0 -> wf g1 -> s_dir g0 = s_dir g1 -> Isomorphic nm em g0 g1 ->
  length (s_es g0) = length (s_es g1).
Proof. exact Isomorphic_edges. Qed.

Theorem C13_sub_edges : forall nm em g0 g1,
  wf g0 -> s_dir g0 = s_dir g1 -> SubIsomorphic nm em g0 g1 ->
  length (s_es g0) <= length (s_es g1).
Proof. exact SubIsomorphic_edges. Qed.

Theorem C13_is_iso_nodes_false : forall nm em g0 g1,
  s_n g0 <> s_n g1 -> is_iso nm em g0 g1 = false.
Proof. exact is_iso_nodes_false. Qed.

Theorem C13_is_iso_edges_false : forall nm em g0 g1,
  wf g0 -> wf g1 -> s_dir g0 = s_dir g1 ->
  length (s_es g0) <> length (s_es g1) -> is_iso nm em g0 g1 = false.
Proof. exact is_iso_edges_false. Qed.

Theorem C13_is_sub_iso_nodes_false : forall nm em g0 g1,
  s_n g1 < s_n g0 -> is_sub_iso nm em g0 g1 = false.
Proof. exact is_sub_iso_nodes_false. Qed.

Theorem C13_is_sub_iso_edges_false : forall nm em g0 g1,
  wf g0 -> s_dir g0 = s_dir g1 ->
  length (s_es g1) < length (s_es g0) -> is_sub_iso nm em g0 g1 = false.
Proof. exact is_sub_iso_edges_false. Qed.

(* ------------------------------------------------------------------ *)
(* S7: non-vacuity                                                      *)

Definition mkg (dir : bool) (n : nat) (es : list (nat * nat)) : sgraph6 :=
  mkSg dir (repeat 0%Z n) (map (fun st => (fst st, snd st, 0%Z)) es).

(* two 3-regular graphs on 6 nodes *)
Definition k33 := mkg false 6 [(0,3);(0,4);(0,5);(1,3);(1,4);(1,5);(2,3);(2,4);(2,5)].
Definition prism := mkg false 6 [(0,1);(1,2);(2,0);(3,4);(4,5);(5,3);(0,3);(1,4);(2,5)].
Definition deg (g : sgraph6) (a : nat) : nat :=
  length (filter (fun b => adjb g a b) (seq 0 (s_n g))).

Example C13_ex_regular :
  map (deg k33) (seq 0 6) = [3;3;3;3;3;3] /\ map (deg prism) (seq 0 6) = [3;3;3;3;3;3] /\
  length (s_es k33) = length (s_es prism).
Proof. vm_compute. auto. Qed.

Example C13_ex_k33_prism :
  is_iso 0 0 k33 prism = false /\ is_iso 0 0 prism k33 = false /\
  is_sub_iso 0 0 k33 prism = false /\ is_sub_iso 0 0 prism k33 = false.
Proof. vm_compute. auto. Qed.

Example C13_ex_self_relabel :
  is_iso 0 0 k33 (relabel [3;0;4;1;5;2] k33) = true /\
  is_iso 0 0 prism (relabel [5;3;1;0;4;2] prism) = true /\
  is_iso 0 0 (relabel [3;0;4;1;5;2] k33) (relabel [5;3;1;0;4;2] prism) = false /\
  length (sub_isos 0 0 k33 k33) = 72 /\ length (sub_isos 0 0 prism prism) = 12.
Proof. vm_compute. auto. Qed.

(* the hypotheses of S4 and S6 hold of these graphs and relabelings *)
Example C13_ex_hyps :
  wf k33 /\ wf prism /\ is_perm [3;0;4;1;5;2] 6 /\ is_perm [5;3;1;0;4;2] 6 /\
  wf (relabel [3;0;4;1;5;2] k33) /\
  (* an undirected graph given with another edge order and exchanged endpoints *)
  relabeling [1;2;0] (mkg false 3 [(0,1);(1,2)]) (mkg false 3 [(0,2);(2,1)]).
Proof.
  split; [apply wfb_sound; vm_compute; reflexivity|].
  split; [apply wfb_sound; vm_compute; reflexivity|].
  split; [apply is_permb_sound; vm_compute; reflexivity|].
  split; [apply is_permb_sound; vm_compute; reflexivity|].
  split; [apply wfb_sound; vm_compute; reflexivity|].
  split; [reflexivity|]. split; [reflexivity|]. split.
  - intros i Hi. change (s_n (mkg false 3 [(0,1);(1,2)])) with 3 in Hi.
    destruct i as [|[|[|i]]]; try lia; reflexivity.
  - exists [(2,1,0%Z);(0,2,0%Z)]. split.
    + constructor; [right; split; reflexivity|].
      constructor; [right; split; reflexivity|]. constructor.
    + apply perm_swap.
Qed.

(* induced subgraphs: the path on 3 nodes sits in the 5-cycle, the triangle does not *)
Definition p3 := mkg false 3 [(0,1);(1,2)].
Definition k3 := mkg false 3 [(0,1);(1,2);(2,0)].
Definition c5 := mkg false 5 [(0,1);(1,2);(2,3);(3,4);(4,0)].

Example C13_ex_p3_c5 :
  length (sub_isos 0 0 p3 c5) = 10 /\ is_sub_iso 0 0 p3 c5 = true /\
  In [4;0;1] (sub_isos 0 0 p3 c5) /\
  is_sub_iso 0 0 k3 c5 = false /\ is_iso 0 0 p3 c5 = false /\
  (* induced, not merely a subgraph: the path is not an induced subgraph of the triangle *)
  is_sub_iso 0 0 p3 k3 = false.
Proof. vm_compute. intuition. Qed.

(* directed: reversing one edge of the 3-cycle breaks the isomorphism *)
Definition dc3 := mkg true 3 [(0,1);(1,2);(2,0)].
Definition dt3 := mkg true 3 [(0,1);(1,2);(0,2)].

Example C13_ex_directed :
  is_iso 0 0 dc3 dt3 = false /\ is_iso 0 0 dc3 (relabel [2;0;1] dc3) = true /\
  is_iso 0 0 dc3 (mkg true 3 [(1,0);(2,1);(0,2)]) = true /\
  sub_isos 0 0 dc3 dc3 = [[0;1;2];[1;2;0];[2;0;1]] /\
  (* the same two edge lists read as undirected graphs are isomorphic *)
  is_iso 0 0 (mkg false 3 [(0,1);(1,2);(2,0)]) (mkg false 3 [(0,1);(1,2);(0,2)]) = true.
Proof. vm_compute. auto. Qed.

(* self-loops count *)
Example C13_ex_self_loop :
  sub_isos 0 0 (mkg false 2 [(0,1);(0,0)]) (mkg false 2 [(0,1);(1,1)]) = [[1;0]] /\
  is_iso 0 0 (mkg false 2 [(0,1);(0,0)]) (mkg false 2 [(0,1)]) = false /\
  is_sub_iso 0 0 (mkg false 1 []) (mkg false 2 [(0,1);(0,0)]) = true /\
  sub_isos 0 0 (mkg false 1 []) (mkg false 2 [(0,1);(0,0)]) = [[1]] /\
  sub_isos 0 0 (mkg true 1 [(0,0)]) (mkg true 2 [(0,1);(0,0)]) = [[0]].
Proof. vm_compute. auto. Qed.

(* the node predicate (weights modulo 2) cuts the automorphisms of the triangle from 6 to 2,
   the edge predicate (weights modulo 3) from 6 to 2 as well *)
Definition tri (nw : list Z) (ew : list Z) : sgraph6 :=
  mkSg false nw [(0, 1, nth 0 ew 0%Z); (1, 2, nth 1 ew 0%Z); (2, 0, nth 2 ew 0%Z)].

Example C13_ex_matching :
  length (sub_isos 0 0 (tri [1;3;2]%Z [0;0;0]%Z) (tri [5;7;4]%Z [0;0;0]%Z)) = 6 /\
  sub_isos 2 0 (tri [1;3;2]%Z [0;0;0]%Z) (tri [5;7;4]%Z [0;0;0]%Z) = [[0;1;2];[1;0;2]] /\
  sub_isos 0 3 (tri [0;0;0]%Z [1;2;2]%Z) (tri [0;0;0]%Z [5;4;8]%Z) = [[1;2;0];[2;1;0]] /\
  is_iso 2 0 (tri [1;3;2]%Z [0;0;0]%Z) (tri [4;6;8]%Z [0;0;0]%Z) = false /\
  is_iso 0 0 (tri [1;3;2]%Z [0;0;0]%Z) (tri [4;6;8]%Z [0;0;0]%Z) = true.
Proof. vm_compute. auto. Qed.

(* the empty graph: exactly one (empty) mapping *)
Example C13_ex_empty :
  sub_isos 0 0 (mkg false 0 []) (mkg false 0 []) = [[]] /\
  sub_isos 0 0 (mkg false 0 []) c5 = [[]] /\ is_iso 0 0 (mkg false 0 []) (mkg false 0 []) = true.
Proof. vm_compute. auto. Qed.

(* why the hypotheses of S4 and S6 are there.
   (a) equal edge counts need both graphs of the same kind: a directed 2-cycle is "isomorphic"
       to one undirected edge, 2 edges against 1;
   (b) relabeling invariance needs simple graphs: with two parallel edges of different weights
       the order of the edge list decides which weight the reference sees *)
Example C13_ex_mixed_kind :
  is_iso 0 0 (mkg true 2 [(0,1);(1,0)]) (mkg false 2 [(0,1)]) = true.
Proof. vm_compute. auto. Qed.

Example C13_ex_parallel_edges :
  is_iso 0 3 (mkSg true [0;0]%Z [(0,1,1%Z)]) (mkSg true [0;0]%Z [(0,1,1%Z);(0,1,2%Z)]) = true /\
  is_iso 0 3 (mkSg true [0;0]%Z [(0,1,1%Z)]) (mkSg true [0;0]%Z [(0,1,2%Z);(0,1,1%Z)]) = false.
Proof. vm_compute. auto. Qed.

(* ------------------------------------------------------------------ *)
(* pinned statements                                                    *)

Check C13_preserves_def : forall nm em g0 g1 f,
  preserves nm em g0 g1 f <->
  (forall a b, a < s_n g0 -> b < s_n g0 ->
     match edge_w (s_dir g0) (s_es g0) a b, edge_w (s_dir g1) (s_es g1) (f a) (f b) with
     | Some w0, Some w1 => wmatch em w0 w1 = true
     | None, None => True
     | _, _ => False
     end) /\
  (forall a, a < s_n g0 -> wmatch nm (nth a (s_nw g0) 0%Z) (nth (f a) (s_nw g1) 0%Z) = true).
Check C13_preserves_plain : forall g0 g1 f,
  preserves 0 0 g0 g1 f <->
  (forall a b, a < s_n g0 -> b < s_n g0 -> (Adj g0 a b <-> Adj g1 (f a) (f b))).
Check C13_preserves_adj : forall nm em g0 g1 f a b,
  preserves nm em g0 g1 f -> a < s_n g0 -> b < s_n g0 -> (Adj g0 a b <-> Adj g1 (f a) (f b)).
Check C13_adj_undirected_sym : forall g a b, s_dir g = false -> Adj g a b -> Adj g b a.
Check C13_wf_def : forall g,
  wf g <->
  (forall s t w, In (s, t, w) (s_es g) -> s < s_n g /\ t < s_n g) /\
  NoDup (s_es g) /\
  (forall s t w s' t' w', In (s, t, w) (s_es g) -> In (s', t', w') (s_es g) ->
     (s = s' /\ t = t') \/ (s_dir g = false /\ s = t' /\ t = s') -> (s, t, w) = (s', t', w')).
Check C13_injections_spec : forall k cands m, NoDup cands ->
  (In m (injections k cands) <-> length m = k /\ NoDup m /\ incl m cands).
Check C13_injections_nodup : forall k cands, NoDup cands -> NoDup (injections k cands).
Check C13_injections_sorted : forall k cands,
  StronglySorted lt cands -> StronglySorted lex_lt (injections k cands).
Check C13_lex_lt_strict_order :
  (forall l, ~ lex_lt l l) /\ (forall l1 l2 l3, lex_lt l1 l2 -> lex_lt l2 l3 -> lex_lt l1 l3).
Check C13_valid_map_spec : forall nm em g0 g1 m,
  valid_map nm em g0 g1 m = true <-> preserves nm em g0 g1 (fun a => nth a m 0).
Check C13_sub_isos_spec : forall nm em g0 g1 m,
  In m (sub_isos nm em g0 g1) <->
  length m = s_n g0 /\ embedding nm em g0 g1 (fun a => nth a m 0).
Check C13_sub_isos_nodup : forall nm em g0 g1, NoDup (sub_isos nm em g0 g1).
Check C13_sub_isos_sorted : forall nm em g0 g1, StronglySorted lex_lt (sub_isos nm em g0 g1).
Check C13_sub_isos_complete : forall nm em g0 g1 f,
  embedding nm em g0 g1 f -> In (map f (seq 0 (s_n g0))) (sub_isos nm em g0 g1).
Check C13_is_sub_iso_spec : forall nm em g0 g1,
  is_sub_iso nm em g0 g1 = true <-> SubIsomorphic nm em g0 g1.
Check C13_is_iso_spec : forall nm em g0 g1,
  is_iso nm em g0 g1 = true <-> Isomorphic nm em g0 g1.
Check C13_iso_bijection : forall nm em g0 g1,
  Isomorphic nm em g0 g1 ->
  exists f h, embedding nm em g0 g1 f /\ embedding nm em g1 g0 h /\
              (forall a, a < s_n g0 -> h (f a) = a) /\ (forall b, b < s_n g1 -> f (h b) = b).
Check C13_relabel_is_relabeling : forall p g, is_perm p (s_n g) -> relabeling p g (relabel p g).
Check C13_relabeling_wf : forall p g g',
  is_perm p (s_n g) -> wf g -> relabeling p g g' -> wf g'.
Check C13_relabeling_embedding : forall p g g',
  is_perm p (s_n g) -> wf g -> relabeling p g g' ->
  forall nm em, embedding nm em g g' (fun x => nth x p 0).
Check C13_is_iso_relabeling_self : forall p g g',
  is_perm p (s_n g) -> wf g -> relabeling p g g' -> forall nm em, is_iso nm em g g' = true.
Check C13_is_iso_relabeling_r : forall p g1 g1',
  is_perm p (s_n g1) -> wf g1 -> relabeling p g1 g1' ->
  forall nm em g0, is_iso nm em g0 g1' = is_iso nm em g0 g1.
Check C13_is_iso_relabeling_l : forall p g0 g0',
  is_perm p (s_n g0) -> wf g0 -> relabeling p g0 g0' ->
  forall nm em g1, is_iso nm em g0' g1 = is_iso nm em g0 g1.
Check C13_is_sub_iso_relabeling_r : forall p g1 g1',
  is_perm p (s_n g1) -> wf g1 -> relabeling p g1 g1' ->
  forall nm em g0, is_sub_iso nm em g0 g1' = is_sub_iso nm em g0 g1.
Check C13_is_sub_iso_relabeling_l : forall p g0 g0',
  is_perm p (s_n g0) -> wf g0 -> relabeling p g0 g0' ->
  forall nm em g1, is_sub_iso nm em g0' g1 = is_sub_iso nm em g0 g1.
Check C13_sub_isos_relabeling_r : forall p g1 g1',
  is_perm p (s_n g1) -> wf g1 -> relabeling p g1 g1' ->
  forall nm em g0,
  Permutation (sub_isos nm em g0 g1') (map (map (fun x => nth x p 0)) (sub_isos nm em g0 g1)).
Check C13_sub_isos_relabeling_l : forall p g0 g0',
  is_perm p (s_n g0) -> wf g0 -> relabeling p g0 g0' ->
  forall nm em g1,
  Permutation (sub_isos nm em g0' g1)
              (map (fun m => map (fun j => nth (index_of j p) m 0) (seq 0 (s_n g0)))
                   (sub_isos nm em g0 g1)).
Check C13_relabel_wf : forall p g, is_perm p (s_n g) -> wf g -> wf (relabel p g).
Check C13_is_iso_relabel_self : forall nm em p g,
  is_perm p (s_n g) -> wf g -> is_iso nm em g (relabel p g) = true.
Check C13_is_iso_relabel_r : forall nm em p g0 g1,
  is_perm p (s_n g1) -> wf g1 -> is_iso nm em g0 (relabel p g1) = is_iso nm em g0 g1.
Check C13_is_iso_relabel_l : forall nm em p g0 g1,
  is_perm p (s_n g0) -> wf g0 -> is_iso nm em (relabel p g0) g1 = is_iso nm em g0 g1.
Check C13_is_sub_iso_relabel_r : forall nm em p g0 g1,
  is_perm p (s_n g1) -> wf g1 -> is_sub_iso nm em g0 (relabel p g1) = is_sub_iso nm em g0 g1.
Check C13_is_sub_iso_relabel_l : forall nm em p g0 g1,
  is_perm p (s_n g0) -> wf g0 -> is_sub_iso nm em (relabel p g0) g1 = is_sub_iso nm em g0 g1.
Check C13_sub_isos_relabel_r : forall nm em p g0 g1,
  is_perm p (s_n g1) -> wf g1 ->
  Permutation (sub_isos nm em g0 (relabel p g1))
              (map (map (fun x => nth x p 0)) (sub_isos nm em g0 g1)).
Check C13_sub_isos_relabel_l : forall nm em p g0 g1,
  is_perm p (s_n g0) -> wf g0 ->
  Permutation (sub_isos nm em (relabel p g0) g1)
              (map (fun m => map (fun j => nth (index_of j p) m 0) (seq 0 (s_n g0)))
                   (sub_isos nm em g0 g1)).
Check C13_iso_refl : forall nm em g, Isomorphic nm em g g.
Check C13_iso_sym : forall nm em g0 g1, Isomorphic nm em g0 g1 -> Isomorphic nm em g1 g0.
Check C13_iso_trans : forall nm em g0 g1 g2,
  Isomorphic nm em g0 g1 -> Isomorphic nm em g1 g2 -> Isomorphic nm em g0 g2.
Check C13_sub_refl : forall nm em g, SubIsomorphic nm em g g.
Check C13_sub_trans : forall nm em g0 g1 g2,
  SubIsomorphic nm em g0 g1 -> SubIsomorphic nm em g1 g2 -> SubIsomorphic nm em g0 g2.
Check C13_iso_sub : forall nm em g0 g1, Isomorphic nm em g0 g1 -> SubIsomorphic nm em g0 g1.
Check C13_sub_iso_l : forall nm em g0 g1 h,
  Isomorphic nm em g0 g1 -> (SubIsomorphic nm em g0 h <-> SubIsomorphic nm em g1 h).
Check C13_sub_iso_r : forall nm em g0 g1 h,
  Isomorphic nm em g0 g1 -> (SubIsomorphic nm em h g0 <-> SubIsomorphic nm em h g1).
Check C13_is_iso_sym : forall nm em g0 g1, is_iso nm em g0 g1 = is_iso nm em g1 g0.
Check C13_iso_nodes : forall nm em g0 g1, Isomorphic nm em g0 g1 -> s_n g0 = s_n g1.
Check C13_sub_nodes : forall nm em g0 g1, SubIsomorphic nm em g0 g1 -> s_n g0 <= s_n g1.
Check C13_iso_edges : forall nm em g0 g1,
  wf g0 -> wf g1 -> s_dir g0 = s_dir g1 -> Isomorphic nm em g0 g1 ->
  length (s_es g0) = length (s_es g1).
Check C13_sub_edges : forall nm em g0 g1,
  wf g0 -> s_dir g0 = s_dir g1 -> SubIsomorphic nm em g0 g1 ->
  length (s_es g0) <= length (s_es g1).
Check C13_is_iso_nodes_false : forall nm em g0 g1,
  s_n g0 <> s_n g1 -> is_iso nm em g0 g1 = false.
Check C13_is_iso_edges_false : forall nm em g0 g1,
  wf g0 -> wf g1 -> s_dir g0 = s_dir g1 ->
  length (s_es g0) <> length (s_es g1) -> is_iso nm em g0 g1 = false.
Check C13_is_sub_iso_nodes_false : forall nm em g0 g1,
  s_n g1 < s_n g0 -> is_sub_iso nm em g0 g1 = false.
Check C13_is_sub_iso_edges_false : forall nm em g0 g1,
  wf g0 -> s_dir g0 = s_dir g1 ->
  length (s_es g1) < length (s_es g0) -> is_sub_iso nm em g0 g1 = false.

Print Assumptions C13_preserves_def.
Print Assumptions C13_preserves_plain.
Print Assumptions C13_preserves_adj.
Print Assumptions C13_adj_undirected_sym.
Print Assumptions C13_wf_def.
Print Assumptions C13_injections_spec.
Print Assumptions C13_injections_nodup.
Print Assumptions C13_injections_sorted.
Print Assumptions C13_lex_lt_strict_order.
Print Assumptions C13_valid_map_spec.
Print Assumptions C13_sub_isos_spec.
Print Assumptions C13_sub_isos_nodup.
Print Assumptions C13_sub_isos_sorted.
Print Assumptions C13_sub_isos_complete.
Print Assumptions C13_is_sub_iso_spec.
Print Assumptions C13_is_iso_spec.
Print Assumptions C13_iso_bijection.
Print Assumptions C13_relabel_is_relabeling.
Print Assumptions C13_relabeling_wf.
Print Assumptions C13_relabeling_embedding.
Print Assumptions C13_is_iso_relabeling_self.
Print Assumptions C13_is_iso_relabeling_r.
Print Assumptions C13_is_iso_relabeling_l.
Print Assumptions C13_is_sub_iso_relabeling_r.
Print Assumptions C13_is_sub_iso_relabeling_l.
Print Assumptions C13_sub_isos_relabeling_r.
Print Assumptions C13_sub_isos_relabeling_l.
Print Assumptions C13_relabel_wf.
Print Assumptions C13_is_iso_relabel_self.
Print Assumptions C13_is_iso_relabel_r.
Print Assumptions C13_is_iso_relabel_l.
Print Assumptions C13_is_sub_iso_relabel_r.
Print Assumptions C13_is_sub_iso_relabel_l.
Print Assumptions C13_sub_isos_relabel_r.
Print Assumptions C13_sub_isos_relabel_l.
Print Assumptions C13_iso_refl.
Print Assumptions C13_iso_sym.
Print Assumptions C13_iso_trans.
Print Assumptions C13_sub_refl.
Print Assumptions C13_sub_trans.
Print Assumptions C13_iso_sub.
Print Assumptions C13_sub_iso_l.
Print Assumptions C13_sub_iso_r.
Print Assumptions C13_is_iso_sym.
Print Assumptions C13_iso_nodes.
Print Assumptions C13_sub_nodes.
Print Assumptions C13_iso_edges.
Print Assumptions C13_sub_edges.
Print Assumptions C13_is_iso_nodes_false.
Print Assumptions C13_is_iso_edges_false.
Print Assumptions C13_is_sub_iso_nodes_false.
Print Assumptions C13_is_sub_iso_edges_false.
Print Assumptions C13_ex_regular.
Print Assumptions C13_ex_k33_prism.
Print Assumptions C13_ex_self_relabel.
Print Assumptions C13_ex_hyps.
Print Assumptions C13_ex_p3_c5.
Print Assumptions C13_ex_directed.
Print Assumptions C13_ex_self_loop.
Print Assumptions C13_ex_matching.
Print Assumptions C13_ex_empty.
Print Assumptions C13_ex_mixed_kind.
Print Assumptions C13_ex_parallel_edges.
