(* C14 -- Acyclic<G> (Pearce-Kelly dynamic topological order) over a DiGraph or a StableDiGraph:
   after any sequence of add_node, try_add_edge, try_update_edge, remove_edge, remove_node the
   wrapped graph has no directed cycle and the maintained order lists exactly the live nodes, each
   once, every edge going from an earlier to a later position; an insertion is rejected exactly when
   it is a self-loop or would close a cycle, as is_valid_edge predicts; a rejected insertion changes
   nothing; removing a node -- present or not -- never disturbs the bookkeeping of the others.

   This file holds only the property theorems (closed by [exact]), their pinned statements
   ([Check]), their assumptions and non-vacuity examples.  Vocabulary:
     Spec/AcyclicSpec.v   psorted, OInv live om (the two halves of the order map describe one
                          bijection live nodes <-> positions in use), Topo v om (every edge goes
                          forward), VWf v (the view is a consistent directed multigraph), no_cycle
     Spec/Reach.v         step, reachable, reach_in, acyclic (shared with C08)
     Proofs/AcyclicP.v    AInv (spelled out by C14_invariant_meaning), InnerInv, iedge, ilive
                          (= icontains .. = true), Room / grows (index-limit bookkeeping, as in C01
                          and C02), nren, final, empty_of
     pos_or0 om n         the position of node n (Model/AcyclicM.v). *)
From Coq Require Import Sorted Permutation.
From PG Require Import Lib.Io Model.View Model.Traversal Model.AlgoBasic Model.AcyclicM Model.AcyclicIO
  Spec.AcyclicSpec Proofs.OrderMapP Proofs.ConesP Proofs.ReorderP Proofs.AcyclicP Spec.Reach.

(* T1. BTreeMap::insert on the position -> node map: the list stays strictly sorted by position, the
pair (p, n) is in, every other position keeps its node. *)
Theorem C14_p2n_insert : forall (l : list (nat * nat)) (p n : nat),
  psorted l ->
  psorted (p2n_insert l p n) /\
  (forall q m : nat, In (q, m) (p2n_insert l p n) <-> q = p /\ m = n \/ q <> p /\ In (q, m) l).
Proof. exact (p2n_insert_spec). Qed.

(* T1. BTreeMap::remove: sortedness kept, exactly the entries of position p disappear. *)
Theorem C14_p2n_remove : forall (l : list (nat * nat)) (p : nat),
  psorted l ->
  psorted (p2n_remove l p) /\ (forall q m : nat, In (q, m) (p2n_remove l p) <-> q <> p /\ In (q, m) l).
Proof. exact (p2n_remove_spec). Qed.

(* T1. Reading an order map that satisfies the invariant: at_position is membership in the list;
the list names exactly the live nodes, each once; live nodes have pairwise distinct positions;
get_position never panics on a live node and at_position inverts it. *)
Theorem C14_order_map_reading : forall (live : nat -> Prop) (om : omap),
  OInv live om ->
  (forall p n : nat, at_position om p = Some n <-> In (p, n) (p2n om)) /\
  NoDup (map snd (p2n om)) /\
  (forall n : nat, In n (map snd (p2n om)) <-> live n) /\
  (forall a b : nat, live a -> live b -> pos_or0 om a = pos_or0 om b -> a = b) /\
  (forall n : nat, live n -> get_position om n = Ok (pos_or0 om n) /\ at_position om (pos_or0 om n) = Some n).
Proof. exact (order_map_reading). Qed.

(* T1. The empty order map satisfies the invariant (no live node). *)
Theorem C14_om_empty : OInv (fun _ : nat => False) om_empty.
Proof. exact (OInv_empty). Qed.

(* T1. OrderMap::add_node for a node that is not live yet (bound = the node_bound of the graph, above
the new index): no panic; the invariant holds with the node added; the new position is above every
position in use, so the node comes last; every other node keeps its position. *)
Theorem C14_om_add_node : forall (live : nat -> Prop) (om : omap) (idx bound : nat),
  OInv live om ->
  ~ live idx ->
  idx < bound ->
  exists (np : nat) (om' : omap),
    om_add_node om idx bound = Ok (np, om') /\
    OInv (fun n : nat => n = idx \/ live n) om' /\
    (forall q m : nat, In (q, m) (p2n om) -> q < np) /\
    p2n om' = p2n om ++ [(np, idx)] /\
    pos_or0 om' idx = np /\
    (forall n : nat, n <> idx -> pos_or0 om' n = pos_or0 om n) /\
    (forall n : nat, n < length (n2p om) -> n <> idx -> nth_error (n2p om') n = nth_error (n2p om) n).
Proof. exact (om_add_node_ok). Qed.

(* T1. OrderMap::remove_node of a live node: no panic; the invariant holds for the remaining nodes;
exactly that node's entry leaves the list; every other node keeps its position. *)
Theorem C14_om_remove_node : forall (live : nat -> Prop) (om : omap) (idx : nat),
  OInv live om ->
  live idx ->
  exists om' : omap,
    om_remove_node om idx = Ok om' /\
    OInv (fun n : nat => live n /\ n <> idx) om' /\
    p2n om' = p2n_remove (p2n om) (pos_or0 om idx) /\
    (forall q m : nat, In (q, m) (p2n om') <-> In (q, m) (p2n om) /\ m <> idx) /\
    (forall n : nat, n <> idx -> pos_or0 om' n = pos_or0 om n) /\ length (n2p om') = length (n2p om).
Proof. exact (om_remove_node_ok). Qed.

(* T1. OrderMap::set_position, one call: the new pair is inserted and the node's slot overwritten.  (The
node's previous pair is NOT removed: a single call does not keep the invariant unless it is part of a
permutation -- next theorem.) *)
Theorem C14_om_set_position : forall (om : omap) (idx pos : nat),
  idx < length (n2p om) ->
  om_set_position om idx pos = Ok {| p2n := p2n_insert (p2n om) pos idx; n2p := upd (n2p om) idx pos |}.
Proof. exact (om_set_position_ok). Qed.

(* T1. A batch of set_position calls that permutes the positions of some live nodes among themselves
(distinct positions, distinct nodes, the positions assigned are exactly those the nodes had): no panic,
the invariant is kept, the set of positions in use is unchanged, each listed node gets its new position
and every other node keeps its own. *)
Theorem C14_om_set_positions : forall (live : nat -> Prop) (om : omap) (l : list (nat * nat)),
  OInv live om ->
  NoDup (map fst l) ->
  NoDup (map snd l) ->
  (forall n : nat, In n (map snd l) -> live n) ->
  (forall q : nat, In q (map fst l) <-> (exists n : nat, In n (map snd l) /\ pos_or0 om n = q)) ->
  exists om' : omap,
    set_positions om l = Ok om' /\
    OInv live om' /\
    map fst (p2n om') = map fst (p2n om) /\
    length (n2p om') = length (n2p om) /\
    (forall q n : nat, In (q, n) l -> pos_or0 om' n = q) /\
    (forall n : nat, ~ In n (map snd l) -> pos_or0 om' n = pos_or0 om n).
Proof. exact (set_positions_perm). Qed.

(* T1. om_rename (Graph::remove_node moved its last node `from` into the vacated index `to`): the
invariant holds with `to` live instead of `from`; `to` inherits the position; nobody else moves. *)
Theorem C14_om_rename : forall (live : nat -> Prop) (om : omap) (from to : nat),
  OInv live om ->
  live from ->
  ~ live to ->
  to < length (n2p om) ->
  exists om' : omap,
    om_rename om from to = Ok om' /\
    OInv (fun n : nat => n = to \/ live n /\ n <> from) om' /\
    pos_or0 om' to = pos_or0 om from /\
    (forall n : nat, n <> from -> n <> to -> pos_or0 om' n = pos_or0 om n) /\
    map fst (p2n om') = map fst (p2n om) /\
    (forall q m : nat,
     In (q, m) (p2n om') <-> q = pos_or0 om from /\ m = to \/ In (q, m) (p2n om) /\ m <> from).
Proof. exact (om_rename_ok). Qed.

(* T1. OrderMap::try_from_graph on a duplicate-free order: positions 0, 1, 2, ... along it. *)
Theorem C14_om_from_topo : forall (order : list nat) (bound : nat),
  NoDup order ->
  (forall n : nat, In n order -> n < bound) ->
  exists om : omap,
    om_from_topo order bound = Ok om /\
    OInv (fun n : nat => In n order) om /\
    p2n om = combine (seq 0 (length order)) order /\
    length (n2p om) = bound /\ (forall i n : nat, nth_error order i = Some n -> pos_or0 om n = i).
Proof. exact (om_from_topo_ok). Qed.

(* T2. causal_cones on a well-formed view with a valid topological order, for live min_node, max_node
with pos min_node < pos max_node, both values of debug: never panics, never runs out of fuel;
it answers Err(Cycle(min_node)) exactly when min_node reaches max_node; otherwise the future cone
lists, sorted by position, exactly the nodes reachable from min_node placed before max_node, and the
past cone exactly the nodes reaching max_node placed after min_node. *)
Theorem C14_causal_cones_exact : forall (debug : bool) (v : view) (om : omap) (mn mx : nat),
  VWf v ->
  OInv (fun n : nat => In n (vnodes v)) om ->
  Topo v om ->
  In mn (vnodes v) ->
  In mx (vnodes v) ->
  pos_or0 om mn < pos_or0 om mx ->
  exists r : nat + list (nat * nat) * list (nat * nat),
    causal_cones debug v om mn mx = Ok r /\
    match r with
    | inl c => c = mn /\ reachable v mn mx
    | inr (fut, past) =>
        ~ reachable v mn mx /\
        psorted fut /\
        psorted past /\
        (forall p x : nat,
         In (p, x) fut <-> p = pos_or0 om x /\ reachable v mn x /\ pos_or0 om x < pos_or0 om mx) /\
        (forall p x : nat,
         In (p, x) past <-> p = pos_or0 om x /\ reachable v x mx /\ pos_or0 om mn < pos_or0 om x)
    end.
Proof. exact (causal_cones_exact). Qed.

(* T2, remark. With a topological order, "reachable and placed before the bound" is the same as
"reachable through nodes placed before the bound" (what the pruned search literally explores). *)
Theorem C14_cone_paths : forall (v : view) (om : omap) (s x bd : nat),
  Topo v om ->
  reach_in (fun y : nat => pos_or0 om y < bd) v s x <-> reachable v s x /\ pos_or0 om x < bd.
Proof. exact (reach_in_lt_iff). Qed.

(* T3. update_ordering for the edge a -> b (a <> b live), any debug, any bit-set length: never panics nor
runs out of fuel.  It answers Err(Cycle(b)) exactly when b already reaches a -- the new edge would
close a cycle -- and otherwise returns an order map that satisfies the invariant, is a topological
order of the view, puts a before b (so it stays valid once the edge is added), uses the same set of
positions, leaves every node outside the two cones where it was, moves the future cone of b up
and the past cone of a down, within [pos b, pos a]. *)
Theorem C14_update_ordering : forall (debug : bool) (v : view) (blen : nat) (om : omap) (a b : nat),
  VWf v ->
  OInv (fun n : nat => In n (vnodes v)) om ->
  Topo v om ->
  In a (vnodes v) ->
  In b (vnodes v) ->
  a <> b ->
  exists (r : nat + omap) (blen' : nat),
    update_ordering debug v blen om a b = Ok (r, blen') /\
    (blen' = blen \/ blen' = grown blen v) /\
    match r with
    | inl c => c = b /\ reachable v b a
    | inr om' =>
        ~ reachable v b a /\
        OInv (fun n : nat => In n (vnodes v)) om' /\
        Topo v om' /\
        pos_or0 om' a < pos_or0 om' b /\
        map fst (p2n om') = map fst (p2n om) /\
        length (n2p om') = length (n2p om) /\
        (forall x : nat,
         ~ (reachable v b x /\ pos_or0 om x < pos_or0 om a) ->
         ~ (reachable v x a /\ pos_or0 om b < pos_or0 om x) -> pos_or0 om' x = pos_or0 om x) /\
        (forall x : nat,
         reachable v b x /\ pos_or0 om x < pos_or0 om a -> pos_or0 om x <= pos_or0 om' x <= pos_or0 om a) /\
        (forall x : nat,
         reachable v x a /\ pos_or0 om b < pos_or0 om x -> pos_or0 om b <= pos_or0 om' x <= pos_or0 om x)
    end.
Proof. exact (update_ordering_ok). Qed.

(* T4. is_valid_edge for live a, b: no panic, no fuel exhaustion; true exactly when a <> b and b does
not reach a. *)
Theorem C14_is_valid_edge : forall (debug : bool) (v : view) (blen : nat) (om : omap) (a b : nat),
  VWf v ->
  OInv (fun n : nat => In n (vnodes v)) om ->
  Topo v om ->
  In a (vnodes v) ->
  In b (vnodes v) ->
  exists (x : bool) (blen' : nat),
    is_valid_edge debug v blen om a b = Ok (x, blen') /\
    (blen' = blen \/ blen' = grown blen v) /\ (x = true <-> a <> b /\ ~ reachable v b a).
Proof. exact (is_valid_edge_ok). Qed.

(* T4, corollary. For a <> b, is_valid_edge says true exactly when update_ordering succeeds. *)
Theorem C14_is_valid_edge_predicts : forall (debug : bool) (v : view) (blen : nat) (om : omap) (a b : nat),
  VWf v ->
  OInv (fun n : nat => In n (vnodes v)) om ->
  Topo v om ->
  In a (vnodes v) ->
  In b (vnodes v) ->
  forall (x : bool) (bl : nat) (r : nat + omap) (bl' : nat),
  a <> b ->
  is_valid_edge debug v blen om a b = Ok (x, bl) ->
  update_ordering debug v blen om a b = Ok (r, bl') -> x = true <-> (exists om' : omap, r = inr om').
Proof. exact (is_valid_edge_predicts). Qed.

(* T5. A view that has a topological order has no directed cycle: no edge a -> b with b reaching a
(in particular no self-loop); in the vocabulary of C08, it is [acyclic]. *)
Theorem C14_topo_acyclic : forall (v : view) (om : omap), Topo v om -> no_cycle v /\ acyclic v /\ (forall a : nat, ~ step v a a).
Proof. exact (topo_acyclic_all). Qed.

(* T6. The invariant of the wrapper, spelled out: the wrapped graph satisfies its own invariant (GInv of
C01 for a DiGraph, SInv of C02 for a StableDiGraph); the order map is consistent for the nodes the
graph contains; view_of succeeds and the order is a topological order of that view. *)
Theorem C14_invariant_meaning : forall (cap : nat) (s : acyc),
  AInv cap s <->
  match ag s with InG g => GraphP.GInv cap g | InS st => StableP.SInv cap st end /\
  OInv (fun n : nat => icontains (ag s) n = true) (aom s) /\
  (exists v : view, view_of cap (ag s) = Ok v /\ Topo v (aom s)).
Proof. exact (AInv_meaning). Qed.

(* T6. Under the invariant of the wrapped graph, view_of never fails and yields a well-formed view
whose nodes are the contained nodes and whose steps are the live edges ([iedge]: there is an edge
index e, live, with source a and target b). *)
Theorem C14_view_of : forall (cap : nat) (i : inner),
  InnerInv cap i ->
  exists v : view,
    view_of cap i = Ok v /\
    VWf v /\
    (forall n : nat, In n (vnodes v) <-> icontains i n = true) /\
    vbound v = ibound i /\ (forall a b : nat, step v a b <-> iedge i a b).
Proof. exact (fun cap => view_of_inner_contains cap true). Qed.

(* T6. [iedge], spelled out for both kinds of wrapped graph. *)
Theorem C14_iedge_meaning : forall (i : inner) (a b : nat),
  iedge i a b <->
  match i with
  | InG g => exists e : nat, e < length (GraphM.gedges g) /\ GraphQ.src g e = a /\ GraphQ.tgt g e = b
  | InS s => exists e : nat, StableP.ewo (StableM.sg s) e <> None /\
               GraphP.epo (GraphM.gedges (StableM.sg s)) 0 e = Some a /\
               GraphP.epo (GraphM.gedges (StableM.sg s)) 1 e = Some b
  end.
Proof. exact (iedge_meaning). Qed.

(* T6. Both empty wrappers satisfy the invariant. *)
Theorem C14_inv_empty : forall cap : nat, AInv cap empty_g /\ AInv cap (empty_s cap).
Proof. exact (fun cap => AInv_empty_both cap true true). Qed.

(* T6. add_node (when the wrapped graph has room for one more slot): the invariant is kept, the new
index was not contained before, every old node keeps its position and the new node comes last. *)
Theorem C14_add_node : forall (cap : nat) (capcheck debug : bool) (s : acyc) (w n : nat) (s' : acyc),
  AInv cap s ->
  Room cap capcheck (ag s) 1 ->
  ac_add_node cap capcheck debug s w = Ok (n, s') ->
  AInv cap s' /\
  grows (ag s) (ag s') /\
  ~ ilive (ag s) n /\
  (forall j : nat, ilive (ag s') j <-> j = n \/ ilive (ag s) j) /\
  (forall x : nat,
   ilive (ag s) x -> pos_or0 (aom s') x = pos_or0 (aom s) x /\ pos_or0 (aom s) x < pos_or0 (aom s') n) /\
  p2n (aom s') = p2n (aom s) ++ [(pos_or0 (aom s') n, n)] /\ ablen s' = ablen s.
Proof. exact (ac_add_node_ok). Qed.

(* T6. try_add_edge (upd = false) / try_update_edge (upd = true), whatever the arguments: every outcome
keeps the invariant.  A rejection (self-loop or cycle) leaves graph and order untouched; a success
means both endpoints were live and distinct, the node set is unchanged, the source is now placed
before the target and the set of positions in use is the same. *)
Theorem C14_try_edge_inv : forall (cap : nat) (capcheck debug upd : bool) (s : acyc) (a b w : nat) (r : eerr + nat) (s' : acyc),
  AInv cap s ->
  Room cap capcheck (ag s) 1 ->
  ac_try_edge cap capcheck debug upd s a b w = Ok (r, s') ->
  AInv cap s' /\
  grows (ag s) (ag s') /\
  match r with
  | inl _ => ag s' = ag s /\ aom s' = aom s
  | inr _ =>
      ilive (ag s) a /\
      ilive (ag s) b /\
      a <> b /\
      (forall j : nat, ilive (ag s') j <-> ilive (ag s) j) /\
      pos_or0 (aom s') a < pos_or0 (aom s') b /\ map fst (p2n (aom s')) = map fst (p2n (aom s))
  end.
Proof. exact (ac_try_edge_inv). Qed.

(* T6. Which outcome, for live endpoints: SelfLoop iff a = b; otherwise Cycle(b) iff b reaches a in the
current graph (nothing changes but the scratch length); otherwise the order is rearranged as T3 says
(no panic, no fuel exhaustion up to here) and the call is exactly the insertion into the wrapped graph
(which can only fail at the index limit, leaving the caller's state alone). *)
Theorem C14_try_edge_outcome : forall (cap : nat) (capcheck debug upd : bool) (s : acyc) (a b w : nat),
  AInv cap s ->
  ilive (ag s) a ->
  ilive (ag s) b ->
  exists v : view,
    view_of cap (ag s) = Ok v /\
    (a = b /\ ac_try_edge cap capcheck debug upd s a b w = Ok (inl ESelfLoop, s) \/
     a <> b /\
     reachable v b a /\
     (exists bl : nat,
        ac_try_edge cap capcheck debug upd s a b w =
        Ok (inl (ECycle b), {| ag := ag s; aom := aom s; ablen := bl |})) \/
     a <> b /\
     ~ reachable v b a /\
     (exists (om' : omap) (bl : nat),
        OInv (ilive (ag s)) om' /\
        Topo v om' /\
        pos_or0 om' a < pos_or0 om' b /\
        map fst (p2n om') = map fst (p2n (aom s)) /\
        (forall x : nat,
         ~ (reachable v b x /\ pos_or0 (aom s) x < pos_or0 (aom s) a) ->
         ~ (reachable v x a /\ pos_or0 (aom s) b < pos_or0 (aom s) x) ->
         pos_or0 om' x = pos_or0 (aom s) x) /\
        ac_try_edge cap capcheck debug upd s a b w =
        rmap (fun '(e, i') => (inr e, {| ag := i'; aom := om'; ablen := bl |}))
          (inner_edge_op cap capcheck debug upd (ag s) a b w))).
Proof. exact (ac_try_edge_outcome). Qed.

(* T6. is_valid_edge on the wrapper: for live a, b it never panics and answers true exactly when a <> b
and b does not reach a; whenever it answers, only the scratch length of the state may have changed. *)
Theorem C14_is_valid_edge_wrapper : forall (cap : nat) (debug : bool) (s : acyc) (a b : nat),
  AInv cap s ->
  (ilive (ag s) a ->
   ilive (ag s) b ->
   exists (v : view) (x : bool) (bl : nat),
     view_of cap (ag s) = Ok v /\
     ac_is_valid_edge cap debug s a b = Ok (x, {| ag := ag s; aom := aom s; ablen := bl |}) /\
     (x = true <-> a <> b /\ ~ reachable v b a)) /\
  (forall (x : bool) (s' : acyc),
   ac_is_valid_edge cap debug s a b = Ok (x, s') -> AInv cap s' /\ ag s' = ag s /\ aom s' = aom s).
Proof. exact (ac_is_valid_edge_both). Qed.

(* T6. remove_edge: invariant kept, order map and node set untouched. *)
Theorem C14_remove_edge : forall (cap : nat) (debug : bool) (s : acyc) (e : nat) (r : option nat) (s' : acyc),
  AInv cap s ->
  ac_remove_edge cap debug s e = Ok (r, s') ->
  AInv cap s' /\
  grows (ag s) (ag s') /\
  aom s' = aom s /\ ablen s' = ablen s /\ (forall j : nat, ilive (ag s') j <-> ilive (ag s) j).
Proof. exact (ac_remove_edge_ok). Qed.

(* T6. remove_node of a node that is not contained: None, and the very same state. *)
Theorem C14_remove_node_absent : forall (cap : nat) (debug : bool) (s : acyc) (a : nat),
  ~ ilive (ag s) a -> ac_remove_node cap debug s a = Ok (None, s).
Proof. exact (ac_remove_node_absent). Qed.

(* T6. remove_node: the invariant is kept; when the node was contained, the remaining nodes are exactly
the old ones but a, each under the index [nren (ag s) a x] (StableGraph: the same index; Graph: the
last index becomes a, all others stay) and each with the position it had; the positions in use are the
old ones minus that of a. *)
Theorem C14_remove_node : forall (cap : nat) (debug : bool) (s : acyc) (a : nat) (r : option nat) (s' : acyc),
  AInv cap s ->
  ac_remove_node cap debug s a = Ok (r, s') ->
  AInv cap s' /\
  grows (ag s) (ag s') /\
  ablen s' = ablen s /\
  (ilive (ag s) a ->
   (forall x : nat,
    ilive (ag s) x ->
    x <> a -> ilive (ag s') (nren (ag s) a x) /\ pos_or0 (aom s') (nren (ag s) a x) = pos_or0 (aom s) x) /\
   (forall y : nat, ilive (ag s') y -> exists x : nat, ilive (ag s) x /\ x <> a /\ y = nren (ag s) a x) /\
   map fst (p2n (aom s')) = map fst (p2n_remove (p2n (aom s)) (pos_or0 (aom s) a))).
Proof. exact (ac_remove_node_ok). Qed.

(* T6. [nren], spelled out. *)
Theorem C14_nren_meaning : forall (i : inner) (a x : nat),
  nren i a x = match i with
               | InG g => if Nat.eqb x (GraphM.node_count g - 1) then a else x
               | InS _ => x
               end.
Proof. exact (nren_meaning). Qed.

(* T7. [final s ops] is the state after the operations ops of the harness grammar: the observations of a
longer run are those of the prefix followed by those of the rest run from that state. *)
Theorem C14_run_threads_final : forall (cap : nat) (capcheck debug : bool) (s : acyc) (ops1 ops2 : list line),
  AcyclicIO.run cap capcheck debug s (ops1 ++ ops2) =
  AcyclicIO.run cap capcheck debug s ops1 ++
  AcyclicIO.run cap capcheck debug (final cap capcheck debug s ops1) ops2.
Proof. exact (run_app). Qed.

(* T7. One operation of the grammar -- add_node, try_add_edge, try_update_edge, Build::add_edge,
Build::update_edge, remove_edge, remove_node, is_valid_edge, range, or an unknown opcode; everything
but opcode 8 (into_inner + unchecked add_edge + TryFrom, which goes through toposort) -- keeps the
invariant, whether it succeeds, is rejected or panics (a panic leaves the caller's state alone). *)
Theorem C14_step_keeps : forall (cap : nat) (capcheck debug : bool) (s : acyc) (o : line),
  AInv cap s ->
  Room cap capcheck (ag s) 1 ->
  fst o <> 8 ->
  AInv cap (fst (AcyclicIO.step cap capcheck debug s o)) /\
  grows (ag s) (ag (fst (AcyclicIO.step cap capcheck debug s o))).
Proof. exact (step_keeps). Qed.

(* T7. After any sequence of such operations from the empty wrapper (for usize indices: shorter than the
index limit) the invariant holds; so the wrapped graph is acyclic and the order is a duplicate-free
list of exactly the contained nodes. *)
Theorem C14_histories : forall (cap : nat) (capcheck debug stable : bool) (ops : list line),
  (capcheck = false -> length ops <= cap) ->
  (forall o : line, In o ops -> fst o <> 8) ->
  let s := final cap capcheck debug (empty_of cap stable) ops in
  AInv cap s /\
  (exists v : view, view_of cap (ag s) = Ok v /\ acyclic v /\ no_cycle v) /\
  NoDup (map snd (p2n (aom s))) /\ (forall n : nat, In n (map snd (p2n (aom s))) <-> ilive (ag s) n).
Proof. exact (history_from_empty). Qed.

(* T7. The same from any state satisfying the invariant with enough room. *)
Theorem C14_histories_from : forall (cap : nat) (capcheck debug : bool) (ops : list line) (s : acyc),
  AInv cap s ->
  Room cap capcheck (ag s) (length ops) ->
  (forall o : line, In o ops -> fst o <> 8) -> AInv cap (final cap capcheck debug s ops).
Proof. exact (history_keeps). Qed.

(* ------------------------------------------------------------------ *)
(* T8. Non-vacuity: a history on each kind of wrapped graph: five nodes; 0 -> 1 (already in order);
   3 -> 0 (forces a reorder: the future cone of 0 is {0, 1}, the past cone of 3 is {3}); 1 -> 3
   (rejected: 3 -> 0 -> 1 -> 3 would be a cycle); 2 -> 2 (self-loop); removal of node 1 (not the
   last one: the DiGraph renames node 4 to 1); another insertion that forces a reorder (1 -> 2 on the
   DiGraph, i.e. the former node 4; 4 -> 2 on the StableDiGraph); removal of the absent node 9; two
   is_valid_edge queries. *)

Definition C14_ops (stable : bool) : list line :=
  [(0, [10%Z]); (0, [11%Z]); (0, [12%Z]); (0, [13%Z]); (0, [14%Z]);
   (1, [0%Z; 1%Z; 100%Z]); (1, [3%Z; 0%Z; 101%Z]); (1, [1%Z; 3%Z; 102%Z]); (1, [2%Z; 2%Z; 103%Z]);
   (6, [1%Z]); (1, [(if stable then 4%Z else 1%Z); 2%Z; 104%Z]); (6, [9%Z]);
   (7, [2%Z; (if stable then 4%Z else 1%Z)]); (7, [0%Z; 2%Z])].

(* the first observation line of every step: IDX 3 / CYCLE 43 / SELFLOOP 62 / SOME 21 / NONE 13 / BOOL 0 *)
Example C14_ex_outcomes :
  map (hd (0, [])) (AcyclicIO.run 50 true true (empty_of 50 false) (C14_ops false)) =
    [(3, [0%Z]); (3, [1%Z]); (3, [2%Z]); (3, [3%Z]); (3, [4%Z]); (3, [0%Z]); (3, [1%Z]); (43, [3%Z]);
     (62, []); (21, [11%Z]); (3, [1%Z]); (13, []); (0, [0%Z]); (0, [1%Z])] /\
  map (hd (0, [])) (AcyclicIO.run 50 true true (empty_of 50 true) (C14_ops true)) =
    [(3, [0%Z]); (3, [1%Z]); (3, [2%Z]); (3, [3%Z]); (3, [4%Z]); (3, [0%Z]); (3, [1%Z]); (43, [3%Z]);
     (62, []); (21, [11%Z]); (3, [0%Z]); (13, []); (0, [0%Z]); (0, [1%Z])].
Proof. vm_compute. split; reflexivity. Qed.

(* the order maps along the DiGraph history (after steps 5, 6, 7, 9, 10, 11, 14) and the final one on
   the StableDiGraph *)
Example C14_ex_orders :
  map (fun k => aom (final 50 true true (empty_of 50 false) (firstn k (C14_ops false)))) [5; 6; 7; 9; 10; 11; 14] =
    [ {| p2n := [(0, 0); (1, 1); (2, 2); (3, 3); (4, 4)]; n2p := [0; 1; 2; 3; 4] |};
      {| p2n := [(0, 0); (1, 1); (2, 2); (3, 3); (4, 4)]; n2p := [0; 1; 2; 3; 4] |};
      {| p2n := [(0, 3); (1, 0); (2, 2); (3, 1); (4, 4)]; n2p := [1; 3; 2; 0; 4] |};
      {| p2n := [(0, 3); (1, 0); (2, 2); (3, 1); (4, 4)]; n2p := [1; 3; 2; 0; 4] |};
      {| p2n := [(0, 3); (1, 0); (2, 2); (4, 1)]; n2p := [1; 4; 2; 0; 0] |};
      {| p2n := [(0, 3); (1, 0); (2, 1); (4, 2)]; n2p := [1; 2; 4; 0; 0] |};
      {| p2n := [(0, 3); (1, 0); (2, 1); (4, 2)]; n2p := [1; 2; 4; 0; 0] |} ] /\
  aom (final 50 true true (empty_of 50 true) (C14_ops true)) =
    {| p2n := [(0, 3); (1, 0); (2, 4); (4, 2)]; n2p := [1; 0; 4; 0; 2] |}.
Proof. vm_compute. split; reflexivity. Qed.

(* the theorems apply to these histories *)
Example C14_ex_histories :
  (forall stable : bool,
     let s := final 50 true true (empty_of 50 stable) (C14_ops stable) in
     AInv 50 s /\ (exists v : view, view_of 50 (ag s) = Ok v /\ acyclic v /\ no_cycle v) /\
     NoDup (map snd (p2n (aom s))) /\ (forall n : nat, In n (map snd (p2n (aom s))) <-> ilive (ag s) n)) /\
  map snd (p2n (aom (final 50 true true (empty_of 50 false) (C14_ops false)))) = [3; 0; 1; 2] /\
  map snd (p2n (aom (final 50 true true (empty_of 50 true) (C14_ops true)))) = [3; 0; 4; 2].
Proof.
  split; [|vm_compute; split; reflexivity].
  intros stable. apply (history_from_empty 50 true true stable (C14_ops stable)).
  - discriminate.
  - intros o Ho. destruct stable; cbn [C14_ops In] in Ho;
      repeat (destruct Ho as [<-|Ho]; [cbn [fst]; discriminate|]); destruct Ho.
Qed.

(* the intermediate state after step 6 (edge 0 -> 1 only): its view, and the hypotheses of T2 / T3 for
   min_node = b = 0, max_node = a = 3 *)
Definition C14_view6 : view :=
  mkView true 5 (Some 5) [0; 1; 2; 3; 4]
    [(0, [(0, 1, 100%Z)]); (1, []); (2, []); (3, []); (4, [])]
    [(0, []); (1, [(0, 0, 100%Z)]); (2, []); (3, []); (4, [])] 0 0 [].
Definition C14_om6 : omap := {| p2n := [(0, 0); (1, 1); (2, 2); (3, 3); (4, 4)]; n2p := [0; 1; 2; 3; 4] |}.

Example C14_ex_hypotheses :
  let s := final 50 true true (empty_of 50 false) (firstn 6 (C14_ops false)) in
  view_of 50 (ag s) = Ok C14_view6 /\ aom s = C14_om6 /\
  VWf C14_view6 /\ OInv (fun n => In n (vnodes C14_view6)) C14_om6 /\ Topo C14_view6 C14_om6 /\
  In 0 (vnodes C14_view6) /\ In 3 (vnodes C14_view6) /\ pos_or0 C14_om6 0 < pos_or0 C14_om6 3 /\ 3 <> 0.
Proof.
  intros s.
  assert (Ev : view_of 50 (ag s) = Ok C14_view6) by (vm_compute; reflexivity).
  assert (Eo : aom s = C14_om6) by (vm_compute; reflexivity).
  assert (A : AInv 50 s).
  { apply (history_keeps 50 true true (firstn 6 (C14_ops false)) (empty_of 50 false)).
    - apply (AInv_empty_g 50 true).
    - discriminate.
    - intros o Ho. cbn [C14_ops firstn In] in Ho.
      repeat (destruct Ho as [<-|Ho]; [cbn [fst]; discriminate|]). destruct Ho. }
  destruct (AInv_view 50 true s A) as [v [Ev' [W [O [T _]]]]].
  rewrite Ev in Ev'. injection Ev' as <-. rewrite Eo in O, T.
  split; [exact Ev|]. split; [exact Eo|]. split; [exact W|]. split; [exact O|]. split; [exact T|].
  cbn [C14_view6 vnodes]. split; [left; reflexivity|]. split; [right; right; right; left; reflexivity|].
  split; [vm_compute; lia | discriminate].
Qed.

(* ... and what the model computes there, as T2 / T3 / T4 predict: no path from 0 to 3, cones
   {0, 1} and {3}; after the reorder 3 comes first; adding 1 -> 0 would close a cycle *)
Example C14_ex_cones :
  causal_cones true C14_view6 C14_om6 0 3 = Ok (inr ([(0, 0); (1, 1)], [(3, 3)])) /\
  causal_cones false C14_view6 C14_om6 0 3 = Ok (inr ([(0, 0); (1, 1)], [(3, 3)])) /\
  causal_cones true C14_view6 C14_om6 0 1 = Ok (inl 0) /\
  update_ordering true C14_view6 0 C14_om6 3 0 =
    Ok (inr {| p2n := [(0, 3); (1, 0); (2, 2); (3, 1); (4, 4)]; n2p := [1; 3; 2; 0; 4] |}, 5) /\
  update_ordering true C14_view6 0 C14_om6 1 0 = Ok (inl 0, 5) /\
  is_valid_edge true C14_view6 0 C14_om6 1 0 = Ok (false, 5) /\
  is_valid_edge true C14_view6 0 C14_om6 3 0 = Ok (true, 5).
Proof. vm_compute. repeat split; reflexivity. Qed.

(* The liveness hypotheses are needed.  (1) OrderMap::remove_node on an index that is not live reads a
   stale slot and evicts whoever sits at that position: here node 2 is dead, its slot holds 0, and node
   0 loses its entry -- which is why remove_node of the wrapper tests contains_node first
   (C14_remove_node_absent).  (2) update_ordering with a dead endpoint: nodes 0..3 on a StableDiGraph,
   node 1 removed, then the edge 2 -> 1 is requested; update_ordering answers Ok with an order map in
   which node 0 has lost its entry and the dead node 1 has one.  In the model the wrapped graph then
   rejects the edge (NodeMissed), which try_add_edge turns into a panic, so the caller's state is left
   alone (C14_try_edge_inv: an Ok result with an edge index implies both endpoints were live). *)
Example C14_ex_liveness_needed :
  om_remove_node {| p2n := [(0, 0); (1, 1)]; n2p := [0; 1; 0] |} 2 = Ok {| p2n := [(1, 1)]; n2p := [0; 1; 0] |} /\
  let st := final 50 true true (empty_of 50 true)
              [(0, [10%Z]); (0, [11%Z]); (0, [12%Z]); (0, [13%Z]); (6, [1%Z])] in
  aom st = {| p2n := [(0, 0); (2, 2); (3, 3)]; n2p := [0; 0; 2; 3] |} /\
  rbind (view_of 50 (ag st)) (fun v => update_ordering true v (ablen st) (aom st) 2 1) =
    Ok (inr {| p2n := [(0, 2); (2, 1); (3, 3)]; n2p := [0; 2; 0; 3] |}, 4) /\
  ac_try_edge 50 true true false st 2 1 7 = Panic /\
  ac_try_edge 50 true true false st 1 2 7 = Panic.
Proof. vm_compute. repeat split; reflexivity. Qed.

(* ------------------------------------------------------------------ *)
Check C14_p2n_insert : forall (l : list (nat * nat)) (p n : nat),
  psorted l ->
  psorted (p2n_insert l p n) /\
  (forall q m : nat, In (q, m) (p2n_insert l p n) <-> q = p /\ m = n \/ q <> p /\ In (q, m) l).
Check C14_p2n_remove : forall (l : list (nat * nat)) (p : nat),
  psorted l ->
  psorted (p2n_remove l p) /\ (forall q m : nat, In (q, m) (p2n_remove l p) <-> q <> p /\ In (q, m) l).
Check C14_order_map_reading : forall (live : nat -> Prop) (om : omap),
  OInv live om ->
  (forall p n : nat, at_position om p = Some n <-> In (p, n) (p2n om)) /\
  NoDup (map snd (p2n om)) /\
  (forall n : nat, In n (map snd (p2n om)) <-> live n) /\
  (forall a b : nat, live a -> live b -> pos_or0 om a = pos_or0 om b -> a = b) /\
  (forall n : nat, live n -> get_position om n = Ok (pos_or0 om n) /\ at_position om (pos_or0 om n) = Some n).
Check C14_om_empty : OInv (fun _ : nat => False) om_empty.
Check C14_om_add_node : forall (live : nat -> Prop) (om : omap) (idx bound : nat),
  OInv live om ->
  ~ live idx ->
  idx < bound ->
  exists (np : nat) (om' : omap),
    om_add_node om idx bound = Ok (np, om') /\
    OInv (fun n : nat => n = idx \/ live n) om' /\
    (forall q m : nat, In (q, m) (p2n om) -> q < np) /\
    p2n om' = p2n om ++ [(np, idx)] /\
    pos_or0 om' idx = np /\
    (forall n : nat, n <> idx -> pos_or0 om' n = pos_or0 om n) /\
    (forall n : nat, n < length (n2p om) -> n <> idx -> nth_error (n2p om') n = nth_error (n2p om) n).
Check C14_om_remove_node : forall (live : nat -> Prop) (om : omap) (idx : nat),
  OInv live om ->
  live idx ->
  exists om' : omap,
    om_remove_node om idx = Ok om' /\
    OInv (fun n : nat => live n /\ n <> idx) om' /\
    p2n om' = p2n_remove (p2n om) (pos_or0 om idx) /\
    (forall q m : nat, In (q, m) (p2n om') <-> In (q, m) (p2n om) /\ m <> idx) /\
    (forall n : nat, n <> idx -> pos_or0 om' n = pos_or0 om n) /\ length (n2p om') = length (n2p om).
Check C14_om_set_position : forall (om : omap) (idx pos : nat),
  idx < length (n2p om) ->
  om_set_position om idx pos = Ok {| p2n := p2n_insert (p2n om) pos idx; n2p := upd (n2p om) idx pos |}.
Check C14_om_set_positions : forall (live : nat -> Prop) (om : omap) (l : list (nat * nat)),
  OInv live om ->
  NoDup (map fst l) ->
  NoDup (map snd l) ->
  (forall n : nat, In n (map snd l) -> live n) ->
  (forall q : nat, In q (map fst l) <-> (exists n : nat, In n (map snd l) /\ pos_or0 om n = q)) ->
  exists om' : omap,
    set_positions om l = Ok om' /\
    OInv live om' /\
    map fst (p2n om') = map fst (p2n om) /\
    length (n2p om') = length (n2p om) /\
    (forall q n : nat, In (q, n) l -> pos_or0 om' n = q) /\
    (forall n : nat, ~ In n (map snd l) -> pos_or0 om' n = pos_or0 om n).
Check C14_om_rename : forall (live : nat -> Prop) (om : omap) (from to : nat),
  OInv live om ->
  live from ->
  ~ live to ->
  to < length (n2p om) ->
  exists om' : omap,
    om_rename om from to = Ok om' /\
    OInv (fun n : nat => n = to \/ live n /\ n <> from) om' /\
    pos_or0 om' to = pos_or0 om from /\
    (forall n : nat, n <> from -> n <> to -> pos_or0 om' n = pos_or0 om n) /\
    map fst (p2n om') = map fst (p2n om) /\
    (forall q m : nat,
     In (q, m) (p2n om') <-> q = pos_or0 om from /\ m = to \/ In (q, m) (p2n om) /\ m <> from).
Check C14_om_from_topo : forall (order : list nat) (bound : nat),
  NoDup order ->
  (forall n : nat, In n order -> n < bound) ->
  exists om : omap,
    om_from_topo order bound = Ok om /\
    OInv (fun n : nat => In n order) om /\
    p2n om = combine (seq 0 (length order)) order /\
    length (n2p om) = bound /\ (forall i n : nat, nth_error order i = Some n -> pos_or0 om n = i).
Check C14_causal_cones_exact : forall (debug : bool) (v : view) (om : omap) (mn mx : nat),
  VWf v ->
  OInv (fun n : nat => In n (vnodes v)) om ->
  Topo v om ->
  In mn (vnodes v) ->
  In mx (vnodes v) ->
  pos_or0 om mn < pos_or0 om mx ->
  exists r : nat + list (nat * nat) * list (nat * nat),
    causal_cones debug v om mn mx = Ok r /\
    match r with
    | inl c => c = mn /\ reachable v mn mx
    | inr (fut, past) =>
        ~ reachable v mn mx /\
        psorted fut /\
        psorted past /\
        (forall p x : nat,
         In (p, x) fut <-> p = pos_or0 om x /\ reachable v mn x /\ pos_or0 om x < pos_or0 om mx) /\
        (forall p x : nat,
         In (p, x) past <-> p = pos_or0 om x /\ reachable v x mx /\ pos_or0 om mn < pos_or0 om x)
    end.
Check C14_cone_paths : forall (v : view) (om : omap) (s x bd : nat),
  Topo v om ->
  reach_in (fun y : nat => pos_or0 om y < bd) v s x <-> reachable v s x /\ pos_or0 om x < bd.
Check C14_update_ordering : forall (debug : bool) (v : view) (blen : nat) (om : omap) (a b : nat),
  VWf v ->
  OInv (fun n : nat => In n (vnodes v)) om ->
  Topo v om ->
  In a (vnodes v) ->
  In b (vnodes v) ->
  a <> b ->
  exists (r : nat + omap) (blen' : nat),
    update_ordering debug v blen om a b = Ok (r, blen') /\
    (blen' = blen \/ blen' = grown blen v) /\
    match r with
    | inl c => c = b /\ reachable v b a
    | inr om' =>
        ~ reachable v b a /\
        OInv (fun n : nat => In n (vnodes v)) om' /\
        Topo v om' /\
        pos_or0 om' a < pos_or0 om' b /\
        map fst (p2n om') = map fst (p2n om) /\
        length (n2p om') = length (n2p om) /\
        (forall x : nat,
         ~ (reachable v b x /\ pos_or0 om x < pos_or0 om a) ->
         ~ (reachable v x a /\ pos_or0 om b < pos_or0 om x) -> pos_or0 om' x = pos_or0 om x) /\
        (forall x : nat,
         reachable v b x /\ pos_or0 om x < pos_or0 om a -> pos_or0 om x <= pos_or0 om' x <= pos_or0 om a) /\
        (forall x : nat,
         reachable v x a /\ pos_or0 om b < pos_or0 om x -> pos_or0 om b <= pos_or0 om' x <= pos_or0 om x)
    end.
Check C14_is_valid_edge : forall (debug : bool) (v : view) (blen : nat) (om : omap) (a b : nat),
  VWf v ->
  OInv (fun n : nat => In n (vnodes v)) om ->
  Topo v om ->
  In a (vnodes v) ->
  In b (vnodes v) ->
  exists (x : bool) (blen' : nat),
    is_valid_edge debug v blen om a b = Ok (x, blen') /\
    (blen' = blen \/ blen' = grown blen v) /\ (x = true <-> a <> b /\ ~ reachable v b a).
Check C14_is_valid_edge_predicts : forall (debug : bool) (v : view) (blen : nat) (om : omap) (a b : nat),
  VWf v ->
  OInv (fun n : nat => In n (vnodes v)) om ->
  Topo v om ->
  In a (vnodes v) ->
  In b (vnodes v) ->
  forall (x : bool) (bl : nat) (r : nat + omap) (bl' : nat),
  a <> b ->
  is_valid_edge debug v blen om a b = Ok (x, bl) ->
  update_ordering debug v blen om a b = Ok (r, bl') -> x = true <-> (exists om' : omap, r = inr om').
Check C14_topo_acyclic : forall (v : view) (om : omap), Topo v om -> no_cycle v /\ acyclic v /\ (forall a : nat, ~ step v a a).
Check C14_invariant_meaning : forall (cap : nat) (s : acyc),
  AInv cap s <->
  match ag s with InG g => GraphP.GInv cap g | InS st => StableP.SInv cap st end /\
  OInv (fun n : nat => icontains (ag s) n = true) (aom s) /\
  (exists v : view, view_of cap (ag s) = Ok v /\ Topo v (aom s)).
Check C14_view_of : forall (cap : nat) (i : inner),
  InnerInv cap i ->
  exists v : view,
    view_of cap i = Ok v /\
    VWf v /\
    (forall n : nat, In n (vnodes v) <-> icontains i n = true) /\
    vbound v = ibound i /\ (forall a b : nat, step v a b <-> iedge i a b).
Check C14_iedge_meaning : forall (i : inner) (a b : nat),
  iedge i a b <->
  match i with
  | InG g => exists e : nat, e < length (GraphM.gedges g) /\ GraphQ.src g e = a /\ GraphQ.tgt g e = b
  | InS s => exists e : nat, StableP.ewo (StableM.sg s) e <> None /\
               GraphP.epo (GraphM.gedges (StableM.sg s)) 0 e = Some a /\
               GraphP.epo (GraphM.gedges (StableM.sg s)) 1 e = Some b
  end.
Check C14_inv_empty : forall cap : nat, AInv cap empty_g /\ AInv cap (empty_s cap).
Check C14_add_node : forall (cap : nat) (capcheck debug : bool) (s : acyc) (w n : nat) (s' : acyc),
  AInv cap s ->
  Room cap capcheck (ag s) 1 ->
  ac_add_node cap capcheck debug s w = Ok (n, s') ->
  AInv cap s' /\
  grows (ag s) (ag s') /\
  ~ ilive (ag s) n /\
  (forall j : nat, ilive (ag s') j <-> j = n \/ ilive (ag s) j) /\
  (forall x : nat,
   ilive (ag s) x -> pos_or0 (aom s') x = pos_or0 (aom s) x /\ pos_or0 (aom s) x < pos_or0 (aom s') n) /\
  p2n (aom s') = p2n (aom s) ++ [(pos_or0 (aom s') n, n)] /\ ablen s' = ablen s.
Check C14_try_edge_inv : forall (cap : nat) (capcheck debug upd : bool) (s : acyc) (a b w : nat) (r : eerr + nat) (s' : acyc),
  AInv cap s ->
  Room cap capcheck (ag s) 1 ->
  ac_try_edge cap capcheck debug upd s a b w = Ok (r, s') ->
  AInv cap s' /\
  grows (ag s) (ag s') /\
  match r with
  | inl _ => ag s' = ag s /\ aom s' = aom s
  | inr _ =>
      ilive (ag s) a /\
      ilive (ag s) b /\
      a <> b /\
      (forall j : nat, ilive (ag s') j <-> ilive (ag s) j) /\
      pos_or0 (aom s') a < pos_or0 (aom s') b /\ map fst (p2n (aom s')) = map fst (p2n (aom s))
  end.
Check C14_try_edge_outcome : forall (cap : nat) (capcheck debug upd : bool) (s : acyc) (a b w : nat),
  AInv cap s ->
  ilive (ag s) a ->
  ilive (ag s) b ->
  exists v : view,
    view_of cap (ag s) = Ok v /\
    (a = b /\ ac_try_edge cap capcheck debug upd s a b w = Ok (inl ESelfLoop, s) \/
     a <> b /\
     reachable v b a /\
     (exists bl : nat,
        ac_try_edge cap capcheck debug upd s a b w =
        Ok (inl (ECycle b), {| ag := ag s; aom := aom s; ablen := bl |})) \/
     a <> b /\
     ~ reachable v b a /\
     (exists (om' : omap) (bl : nat),
        OInv (ilive (ag s)) om' /\
        Topo v om' /\
        pos_or0 om' a < pos_or0 om' b /\
        map fst (p2n om') = map fst (p2n (aom s)) /\
        (forall x : nat,
         ~ (reachable v b x /\ pos_or0 (aom s) x < pos_or0 (aom s) a) ->
         ~ (reachable v x a /\ pos_or0 (aom s) b < pos_or0 (aom s) x) ->
         pos_or0 om' x = pos_or0 (aom s) x) /\
        ac_try_edge cap capcheck debug upd s a b w =
        rmap (fun '(e, i') => (inr e, {| ag := i'; aom := om'; ablen := bl |}))
          (inner_edge_op cap capcheck debug upd (ag s) a b w))).
Check C14_is_valid_edge_wrapper : forall (cap : nat) (debug : bool) (s : acyc) (a b : nat),
  AInv cap s ->
  (ilive (ag s) a ->
   ilive (ag s) b ->
   exists (v : view) (x : bool) (bl : nat),
     view_of cap (ag s) = Ok v /\
     ac_is_valid_edge cap debug s a b = Ok (x, {| ag := ag s; aom := aom s; ablen := bl |}) /\
     (x = true <-> a <> b /\ ~ reachable v b a)) /\
  (forall (x : bool) (s' : acyc),
   ac_is_valid_edge cap debug s a b = Ok (x, s') -> AInv cap s' /\ ag s' = ag s /\ aom s' = aom s).
Check C14_remove_edge : forall (cap : nat) (debug : bool) (s : acyc) (e : nat) (r : option nat) (s' : acyc),
  AInv cap s ->
  ac_remove_edge cap debug s e = Ok (r, s') ->
  AInv cap s' /\
  grows (ag s) (ag s') /\
  aom s' = aom s /\ ablen s' = ablen s /\ (forall j : nat, ilive (ag s') j <-> ilive (ag s) j).
Check C14_remove_node_absent : forall (cap : nat) (debug : bool) (s : acyc) (a : nat),
  ~ ilive (ag s) a -> ac_remove_node cap debug s a = Ok (None, s).
Check C14_remove_node : forall (cap : nat) (debug : bool) (s : acyc) (a : nat) (r : option nat) (s' : acyc),
  AInv cap s ->
  ac_remove_node cap debug s a = Ok (r, s') ->
  AInv cap s' /\
  grows (ag s) (ag s') /\
  ablen s' = ablen s /\
  (ilive (ag s) a ->
   (forall x : nat,
    ilive (ag s) x ->
    x <> a -> ilive (ag s') (nren (ag s) a x) /\ pos_or0 (aom s') (nren (ag s) a x) = pos_or0 (aom s) x) /\
   (forall y : nat, ilive (ag s') y -> exists x : nat, ilive (ag s) x /\ x <> a /\ y = nren (ag s) a x) /\
   map fst (p2n (aom s')) = map fst (p2n_remove (p2n (aom s)) (pos_or0 (aom s) a))).
Check C14_nren_meaning : forall (i : inner) (a x : nat),
  nren i a x = match i with
               | InG g => if Nat.eqb x (GraphM.node_count g - 1) then a else x
               | InS _ => x
               end.
Check C14_run_threads_final : forall (cap : nat) (capcheck debug : bool) (s : acyc) (ops1 ops2 : list line),
  AcyclicIO.run cap capcheck debug s (ops1 ++ ops2) =
  AcyclicIO.run cap capcheck debug s ops1 ++
  AcyclicIO.run cap capcheck debug (final cap capcheck debug s ops1) ops2.
Check C14_step_keeps : forall (cap : nat) (capcheck debug : bool) (s : acyc) (o : line),
  AInv cap s ->
  Room cap capcheck (ag s) 1 ->
  fst o <> 8 ->
  AInv cap (fst (AcyclicIO.step cap capcheck debug s o)) /\
  grows (ag s) (ag (fst (AcyclicIO.step cap capcheck debug s o))).
Check C14_histories : forall (cap : nat) (capcheck debug stable : bool) (ops : list line),
  (capcheck = false -> length ops <= cap) ->
  (forall o : line, In o ops -> fst o <> 8) ->
  let s := final cap capcheck debug (empty_of cap stable) ops in
  AInv cap s /\
  (exists v : view, view_of cap (ag s) = Ok v /\ acyclic v /\ no_cycle v) /\
  NoDup (map snd (p2n (aom s))) /\ (forall n : nat, In n (map snd (p2n (aom s))) <-> ilive (ag s) n).
Check C14_histories_from : forall (cap : nat) (capcheck debug : bool) (ops : list line) (s : acyc),
  AInv cap s ->
  Room cap capcheck (ag s) (length ops) ->
  (forall o : line, In o ops -> fst o <> 8) -> AInv cap (final cap capcheck debug s ops).

Print Assumptions C14_p2n_insert.
Print Assumptions C14_p2n_remove.
Print Assumptions C14_order_map_reading.
Print Assumptions C14_om_empty.
Print Assumptions C14_om_add_node.
Print Assumptions C14_om_remove_node.
Print Assumptions C14_om_set_position.
Print Assumptions C14_om_set_positions.
Print Assumptions C14_om_rename.
Print Assumptions C14_om_from_topo.
Print Assumptions C14_causal_cones_exact.
Print Assumptions C14_cone_paths.
Print Assumptions C14_update_ordering.
Print Assumptions C14_is_valid_edge.
Print Assumptions C14_is_valid_edge_predicts.
Print Assumptions C14_topo_acyclic.
Print Assumptions C14_invariant_meaning.
Print Assumptions C14_view_of.
Print Assumptions C14_iedge_meaning.
Print Assumptions C14_inv_empty.
Print Assumptions C14_add_node.
Print Assumptions C14_try_edge_inv.
Print Assumptions C14_try_edge_outcome.
Print Assumptions C14_is_valid_edge_wrapper.
Print Assumptions C14_remove_edge.
Print Assumptions C14_remove_node_absent.
Print Assumptions C14_remove_node.
Print Assumptions C14_nren_meaning.
Print Assumptions C14_run_threads_final.
Print Assumptions C14_step_keeps.
Print Assumptions C14_histories.
Print Assumptions C14_histories_from.
Print Assumptions C14_ex_outcomes.
Print Assumptions C14_ex_orders.
Print Assumptions C14_ex_histories.
Print Assumptions C14_ex_hypotheses.
Print Assumptions C14_ex_cones.
Print Assumptions C14_ex_liveness_needed.
