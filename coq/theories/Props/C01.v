(* C01 -- Graph (adjacency lists threaded through Vec<Node>/Vec<Edge>) behaves as a compact
   mathematical multigraph.  This file holds only the property theorems (closed by [exact]),
   their pinned statements ([Check]) and their assumptions.  Vocabulary:
     GInv cap g        the structural invariant (Proofs/GraphP.v)
     adjf cap g 0 i    the out-list of node i, adjf cap g 1 i its in-list: edge indices in the
                       order in which the model's walk meets them (Proofs/GraphQ.v)
     src g e, tgt g e  endpoints of edge e;  etrip g = [((source,target),weight)] by edge index
     ren m e x         x with the index m renamed to e (Lib/Walk.v). *)
From Coq Require Import Permutation.
From PG Require Import Lib.ListArr Lib.Walk Model.GraphM Spec.MGraph
  Proofs.GraphP Proofs.GraphQ Proofs.GraphRE Proofs.GraphRN Proofs.GraphRev Proofs.GraphH
  Proofs.GraphT Proofs.GraphX Proofs.GraphS Proofs.GraphErase Proofs.GraphFinal.

(* T1. Graph::new(): the invariant holds and every adjacency list is empty. *)
Theorem C01_inv_empty : forall (NW EW : Type) (cap : nat),
  GInv cap (@g_empty NW EW) /\ (forall k i : nat, adjf cap (@g_empty NW EW) k i = []).
Proof. exact (@T1_empty). Qed.

(* T1. try_add_node: NodeIxLimit exactly at the (checked) index limit, graph unchanged; otherwise the
new index is the old node count, the weight is appended, the edges and every adjacency list
(including the new node's, which is empty) are unchanged, and the invariant is kept. *)
Theorem C01_inv_add_node : forall (NW EW : Type) (cap : nat) (capcheck : bool) (g : graph NW EW) (w : NW),
  GInv cap g ->
  (capcheck = true -> length (gnodes g) = cap ->
     try_add_node cap capcheck g w = (inl NodeIxLimit, g)) /\
  (length (gnodes g) < cap ->
     exists g' : graph NW EW,
       try_add_node cap capcheck g w = (inr (length (gnodes g)), g') /\
       GInv cap g' /\
       map nwt (gnodes g') = map nwt (gnodes g) ++ [w] /\
       gedges g' = gedges g /\
       (forall k i : nat, adjf cap g' k i = adjf cap g k i)).
Proof. exact (@T1_add_node). Qed.

(* T1. try_add_edge: EdgeIxLimit at the (checked) index limit, NodeOutBounds for an absent endpoint
(graph unchanged in both cases); otherwise the new index is the old edge count, the edge
((a,b),w) is appended to the edge vector, node weights are untouched, and the new edge is pushed
at the HEAD of the out-list of a (direction 0) and of the in-list of b (direction 1) -- for a
self-loop both lists of a -- all other lists unchanged. *)
Theorem C01_inv_add_edge : forall (NW EW : Type) (cap : nat) (capcheck : bool) (g : graph NW EW) (a b : nat) (w : EW),
  GInv cap g ->
  (capcheck = true -> length (gedges g) = cap ->
     try_add_edge cap capcheck g a b w = (inl EdgeIxLimit, g)) /\
  (length (gedges g) < cap -> length (gnodes g) <= a \/ length (gnodes g) <= b ->
     try_add_edge cap capcheck g a b w = (inl NodeOutBounds, g)) /\
  (length (gedges g) < cap -> a < length (gnodes g) -> b < length (gnodes g) ->
     exists g' : graph NW EW,
       try_add_edge cap capcheck g a b w = (inr (length (gedges g)), g') /\
       GInv cap g' /\
       map nwt (gnodes g') = map nwt (gnodes g) /\
       etrip g' = etrip g ++ [(a, b, w)] /\
       (forall k i : nat, i < length (gnodes g) ->
          adjf cap g' k i =
            (if i =? sel (a, b) k then length (gedges g) :: adjf cap g k i else adjf cap g k i))).
Proof. exact (@T1_add_edge). Qed.

(* T2. Under the invariant the fuelled walk along the links never panics nor runs out of fuel; the
list it returns ([adjf cap g 0 i] = out-list, [adjf cap g 1 i] = in-list) has no duplicates and
contains exactly the edges whose source (target) is i; an absent node has empty lists. *)
Theorem C01_walks : forall (NW EW : Type) (cap : nat) (g : graph NW EW),
  GInv cap g ->
  forall k i : nat,
    chain (fuel_of g) (gedges g) (sel (node_next cap g i) k) k = Ok (adjf cap g k i) /\
    NoDup (adjf cap g k i) /\
    (i < length (gnodes g) ->
       forall x : nat, In x (adjf cap g k i) <-> x < length (gedges g) /\ ept g k x = i) /\
    (length (gnodes g) <= i -> adjf cap g k i = []).
Proof. exact (@T2_walks). Qed.

(* T2. neighbors_directed on a directed graph: Outgoing = the out-list with targets, Incoming =
the in-list with sources, in list order (most recently added first). *)
Theorem C01_neighbors_directed : forall (NW EW : Type) (cap : nat) (g : graph NW EW),
  GInv cap g ->
  forall a : nat,
    neighbors_directed cap true g a 0 = Ok (map (fun e : nat => (e, tgt g e)) (adjf cap g 0 a)) /\
    (forall k : nat,
       neighbors_directed cap true g a (S k) = Ok (map (fun e : nat => (e, src g e)) (adjf cap g 1 a))).
Proof. exact (fun NW EW cap g I a => conj (@neighbors_directed_out NW EW cap g I a) (@neighbors_directed_in NW EW cap g I a)). Qed.

(* T2. neighbors / neighbors_undirected (and neighbors_directed on an undirected graph, whatever the
direction): out-list targets, then in-list sources skipping the edges whose source is the queried
node (so a self-loop is listed once). *)
Theorem C01_neighbors_undirected : forall (NW EW : Type) (cap : nat) (g : graph NW EW),
  GInv cap g ->
  forall a : nat,
    neighbors_undirected cap g a =
      Ok (map (fun e : nat => (e, tgt g e)) (adjf cap g 0 a) ++
          map (fun e : nat => (e, src g e))
            (filter (fun e : nat => negb (src g e =? a)) (adjf cap g 1 a))) /\
    (forall k : nat, neighbors_directed cap false g a k = neighbors_undirected cap g a).
Proof. exact (fun NW EW cap g I a => conj (@neighbors_undirected_spec NW EW cap g I a) (@neighbors_directed_undirected NW EW cap g a)). Qed.

(* T2. edges_directed, directed graph: the references (index, (source, target), weight) of the
out-list (Outgoing) / in-list (Incoming), as stored.  [eref g sw e r]: r is the reference of the
existing edge e, endpoints swapped iff sw. *)
Theorem C01_edges_directed : forall (NW EW : Type) (cap : nat) (g : graph NW EW),
  GInv cap g ->
  forall a : nat,
    (exists r : list (nat * (nat * nat) * EW),
       edges_directed cap true g a 0 = Ok r /\ Forall2 (eref g false) (adjf cap g 0 a) r) /\
    (forall k : nat, exists r : list (nat * (nat * nat) * EW),
       edges_directed cap true g a (S k) = Ok r /\ Forall2 (eref g false) (adjf cap g 1 a) r).
Proof. exact (fun NW EW cap g I a => conj (@edges_directed_out NW EW cap g I a) (@edges_directed_in NW EW cap g I a)). Qed.

(* T2. edges_directed, undirected graph: every incident edge once (a self-loop only from the
out-list).  Outgoing reports the queried node as source (in-list entries swapped), Incoming
reports it as target (out-list entries swapped). *)
Theorem C01_edges_undirected : forall (NW EW : Type) (cap : nat) (g : graph NW EW),
  GInv cap g ->
  forall a : nat,
    (exists r1 r2 : list (nat * (nat * nat) * EW),
       edges_directed cap false g a 0 = Ok (r1 ++ r2) /\
       Forall2 (eref g false) (adjf cap g 0 a) r1 /\
       Forall2 (eref g true) (filter (fun e : nat => negb (src g e =? a)) (adjf cap g 1 a)) r2) /\
    (forall k : nat, exists r1 r2 : list (nat * (nat * nat) * EW),
       edges_directed cap false g a (S k) = Ok (r1 ++ r2) /\
       Forall2 (eref g true) (adjf cap g 0 a) r1 /\
       Forall2 (eref g false) (filter (fun e : nat => negb (src g e =? a)) (adjf cap g 1 a)) r2).
Proof. exact (fun NW EW cap g I a => conj (@edges_undirected_out NW EW cap g I a) (@edges_undirected_in NW EW cap g I a)). Qed.

(* T2. find_edge: the first edge of the out-list of a whose target is b (directed), else -- undirected
only -- the first edge of the in-list of a whose source is b. *)
Theorem C01_find_edge : forall (NW EW : Type) (cap : nat) (g : graph NW EW),
  GInv cap g ->
  forall a b : nat,
    find_edge true g a b = Ok (find (fun x : nat => tgt g x =? b) (adjf cap g 0 a)) /\
    find_edge false g a b =
      Ok match find (fun x : nat => tgt g x =? b) (adjf cap g 0 a) with
         | Some e => Some e
         | None => find (fun x : nat => src g x =? b) (adjf cap g 1 a)
         end.
Proof. exact (fun NW EW cap g I a b => conj (@find_edge_directed NW EW cap g I a b) (@find_edge_undirected_spec NW EW cap g I a b)). Qed.

(* T2. find_edge against the multigraph: Some e joins a to b (either orientation when undirected);
None means no such edge exists. *)
Theorem C01_find_edge_sound_complete : forall (NW EW : Type) (cap : nat) (g : graph NW EW),
  GInv cap g ->
  forall a b : nat,
    (forall e : nat, find_edge true g a b = Ok (Some e) ->
       e < length (gedges g) /\ src g e = a /\ tgt g e = b) /\
    (find_edge true g a b = Ok None ->
       forall e : nat, e < length (gedges g) -> ~ (src g e = a /\ tgt g e = b)) /\
    (forall e : nat, find_edge false g a b = Ok (Some e) ->
       e < length (gedges g) /\
       (src g e = a /\ tgt g e = b \/ src g e = b /\ tgt g e = a)) /\
    (find_edge false g a b = Ok None ->
       forall e : nat, e < length (gedges g) ->
         ~ (src g e = a /\ tgt g e = b) /\ ~ (src g e = b /\ tgt g e = a)).
Proof. exact (fun NW EW cap g I a b =>
    conj (@find_edge_directed_some NW EW cap g I a b)
   (conj (@find_edge_directed_none NW EW cap g I a b)
   (conj (@find_edge_undirected_some NW EW cap g I a b)
         (@find_edge_undirected_none NW EW cap g I a b)))). Qed.

(* T2. externals(dir): the nodes, in index order, whose direction-dir list is empty (and, for an
undirected graph, whose other list is empty too). *)
Theorem C01_externals : forall (NW EW : Type) (cap : nat) (g : graph NW EW),
  GInv cap g ->
  forall (directed : bool) (k : nat),
    externals cap directed g k =
      filter (fun i : nat =>
                isnil (adjf cap g k i) && (directed || isnil (adjf cap g (1 - k) i)))
             (seq 0 (length (gnodes g))).
Proof. exact (@externals_spec). Qed.

(* T3. remove_edge (debug assertions on or off) never panics nor runs out of fuel.  An absent index
returns None and leaves the graph unchanged.  Otherwise it returns the weight, keeps the
invariant and the node weights, the edge vector ((source,target),weight) becomes
Vec::swap_remove of the old one (the last edge adopts index e), and every adjacency list is the
old list with e deleted and the old last index renamed to e, ORDER PRESERVED. *)
Theorem C01_remove_edge : forall (NW EW : Type) (cap : nat) (debug : bool) (g : graph NW EW) (e : nat),
  GInv cap g ->
  (length (gedges g) <= e -> remove_edge debug g e = Ok (None, g)) /\
  (e < length (gedges g) ->
     exists (ed : edge EW) (g' : graph NW EW),
       nth_error (gedges g) e = Some ed /\
       remove_edge debug g e = Ok (Some (ewt ed), g') /\
       GInv cap g' /\
       map nwt (gnodes g') = map nwt (gnodes g) /\
       etrip g' = swap_remove (etrip g) e /\
       length (gedges g') = length (gedges g) - 1 /\
       (forall k i : nat, i < length (gnodes g) ->
          adjf cap g' k i =
            map (ren (length (gedges g) - 1) e) (remove Nat.eq_dec e (adjf cap g k i)))).
Proof. exact (@T3_remove_edge). Qed.

(* T4. remove_node never panics nor runs out of fuel.  An absent index returns None, graph
unchanged.  Otherwise it returns the weight, keeps the invariant, the node weights become
Vec::swap_remove of the old ones (the last node adopts index a), and the multiset of
((source,target),weight) of the remaining edges is that of the old edges not incident to a, with
the old last node index renamed to a. *)
Theorem C01_remove_node : forall (NW EW : Type) (cap : nat) (debug : bool) (g : graph NW EW) (a : nat),
  GInv cap g ->
  (length (gnodes g) <= a -> remove_node cap debug g a = Ok (None, g)) /\
  (a < length (gnodes g) ->
     exists (n : node NW) (g' : graph NW EW),
       nth_error (gnodes g) a = Some n /\
       remove_node cap debug g a = Ok (Some (nwt n), g') /\
       GInv cap g' /\
       map nwt (gnodes g') = swap_remove (map nwt (gnodes g)) a /\
       Permutation (etrip g')
         (map (ren_trip (length (gnodes g) - 1) a) (filter (not_inc a) (etrip g)))).
Proof. exact (@T4_remove_node). Qed.

(* T5. reverse: invariant kept, weights kept, endpoints swapped, out- and in-lists exchanged. *)
Theorem C01_reverse : forall (NW EW : Type) (cap : nat) (g : graph NW EW),
  GInv cap g ->
  GInv cap (reverse g) /\
  map nwt (gnodes (reverse g)) = map nwt (gnodes g) /\
  map ewt (gedges (reverse g)) = map ewt (gedges g) /\
  map enode (gedges (reverse g)) = map swapp (map enode (gedges g)) /\
  (forall i : nat,
     adjf cap (reverse g) 0 i = adjf cap g 1 i /\ adjf cap (reverse g) 1 i = adjf cap g 0 i).
Proof. exact (@T5_reverse). Qed.

(* T5. clear_edges: invariant kept, node weights kept, no edges, all lists empty. *)
Theorem C01_clear_edges : forall (NW EW : Type) (cap : nat) (g : graph NW EW),
  GInv cap g ->
  GInv cap (clear_edges cap g) /\
  map nwt (gnodes (clear_edges cap g)) = map nwt (gnodes g) /\
  gedges (clear_edges cap g) = [] /\
  (forall k i : nat, adjf cap (clear_edges cap g) k i = []).
Proof. exact (@T5_clear_edges). Qed.

(* T6 (first half). Every history of add_node / add_edge / remove_edge / remove_node / reverse /
clear_edges from any state satisfying the invariant runs without panic or fuel exhaustion and
ends in a state satisfying the invariant.  [room]: either the index type is checked
(capcheck = true) or the history is too short to reach usize::MAX elements. *)
Theorem C01_histories : forall (NW EW : Type) (cap : nat) (capcheck debug : bool) (ops : list (op NW EW)) (g : graph NW EW),
  GInv cap g -> room cap capcheck g (length ops) ->
  exists g' : graph NW EW, run cap capcheck debug g ops = Ok g' /\ GInv cap g'.
Proof. exact (@run_GInv). Qed.

(* T6. Histories against the stamped multigraph of Spec/MGraph.v.  The model is polymorphic in the
edge weight; run the history with every added edge's weight paired with the value of a global
insertion counter ([stamp_ops]).  It never panics nor runs out of fuel, the final state
satisfies the invariant, its abstraction [mabs] (node weights, ((source,target),(weight,stamp))
by edge index, clock) is a state the specification reaches by the same history ([mrun]), and
every adjacency list is the specification's [m_adj]: the incident edges by decreasing stamp,
i.e. most recently added first -- whatever removals and renumberings happened in between. *)
Theorem C01_history_stamped : forall (NW EW : Type) (cap : nat) (capcheck debug : bool) (ops : list (op NW EW)),
  capcheck = true \/ length ops <= cap ->
  exists g : graph NW (EW * nat),
    run cap capcheck debug g_empty (stamp_ops 0 ops) = Ok g /\
    GInv cap g /\
    mrun cap capcheck m_empty ops (mabs g (clock_after 0 ops)) /\
    (forall k a : nat, adjf cap g k a = m_adj (mabs g (clock_after 0 ops)) k a).
Proof. exact (@history_refines). Qed.

(* T6, final form.  The stamps are invisible to the operations (Proofs/GraphErase.v), so the same
holds for the plain history: it runs to a state g and there is a stamped multigraph s, reached
by the specification through the same history, with the same node weights, the same edges
index by index, and whose most-recent-first adjacency is what the walks of g return; in
particular neighbors_directed lists (edge, other endpoint) in the specification's order. *)
Theorem C01_history_multigraph : forall (NW EW : Type) (cap : nat) (capcheck debug : bool) (ops : list (op NW EW)),
  capcheck = true \/ length ops <= cap ->
  exists (g : graph NW EW) (s : mgraph NW EW),
    run cap capcheck debug g_empty ops = Ok g /\
    GInv cap g /\
    mrun cap capcheck m_empty ops s /\
    mnodes s = map nwt (gnodes g) /\
    map unstamp (medges s) = etrip g /\
    (forall k a : nat, adjf cap g k a = m_adj s k a) /\
    (forall a : nat,
       neighbors_directed cap true g a 0 = Ok (map (fun e : nat => (e, m_ep s 1 e)) (m_adj s 0 a))) /\
    (forall a : nat,
       neighbors_directed cap true g a 1 = Ok (map (fun e : nat => (e, m_ep s 0 e)) (m_adj s 1 a))).
Proof. exact (@history_multigraph). Qed.

(* T6, the induction behind it: from any state satisfying the structural invariant and the stamp
invariant [SInv] (stamps below the clock, pairwise distinct, every list by decreasing stamp),
any stamped history runs, keeps both invariants and refines the specification. *)
Theorem C01_history_step_invariants : forall (NW EW : Type) (cap : nat) (capcheck debug : bool) (ops : list (op NW EW))
    (g : graph NW (EW * nat)) (c : nat),
  GInv cap g -> room cap capcheck g (length ops) -> SInv cap g c ->
  exists g' : graph NW (EW * nat),
    run cap capcheck debug g (stamp_ops c ops) = Ok g' /\
    GInv cap g' /\
    mrun cap capcheck (mabs g c) ops (mabs g' (clock_after c ops)) /\
    SInv cap g' (clock_after c ops).
Proof. exact (@srun_spec). Qed.

(* Extra. Replacing an edge / node weight in place (edge_weight_mut / node_weight_mut): None for
an absent index; otherwise only that weight changes -- invariant, endpoints and every adjacency
list untouched. *)
Theorem C01_set_weights : forall (NW EW : Type) (cap : nat) (g : graph NW EW),
  GInv cap g ->
  (forall (e : nat) (w : EW),
     (length (gedges g) <= e -> set_edge_weight g e w = None) /\
     (e < length (gedges g) ->
        exists g' : graph NW EW,
          set_edge_weight g e w = Some g' /\ GInv cap g' /\
          gnodes g' = gnodes g /\
          map enode (gedges g') = map enode (gedges g) /\
          map ewt (gedges g') = upd (map ewt (gedges g)) e w /\
          (forall k i : nat, adjf cap g' k i = adjf cap g k i))) /\
  (forall (a : nat) (w : NW),
     (length (gnodes g) <= a -> set_node_weight g a w = None) /\
     (a < length (gnodes g) ->
        exists g' : graph NW EW,
          set_node_weight g a w = Some g' /\ GInv cap g' /\
          gedges g' = gedges g /\
          map nwt (gnodes g') = upd (map nwt (gnodes g)) a w /\
          (forall k i : nat, adjf cap g' k i = adjf cap g k i))).
Proof. exact (fun NW EW cap g I => conj (fun e w => @set_edge_weight_spec NW EW cap g e w I) (fun a w => @set_node_weight_spec NW EW cap g a w I)). Qed.

(* Extra. try_update_edge never panics: if find_edge finds an edge its weight is replaced and its
index returned, otherwise it is exactly try_add_edge. *)
Theorem C01_update_edge : forall (NW EW : Type) (cap : nat) (capcheck directed : bool) (g : graph NW EW) (a b : nat) (w : EW),
  GInv cap g ->
  exists o : option nat,
    find_edge directed g a b = Ok o /\
    match o with
    | Some ix =>
        ix < length (gedges g) /\
        (exists g' : graph NW EW,
           set_edge_weight g ix w = Some g' /\
           try_update_edge cap capcheck directed g a b w = Ok (inr ix, g'))
    | None =>
        try_update_edge cap capcheck directed g a b w = Ok (try_add_edge cap capcheck g a b w)
    end.
Proof. exact (@try_update_edge_spec). Qed.

(* Extra. retain_edges / retain_nodes (predicate on the weight) never panic nor run out of fuel,
keep the invariant, and keep exactly (as a multiset) the edges / nodes whose weight satisfies
the predicate. *)
Theorem C01_retain : forall (NW EW : Type) (cap : nat) (debug : bool) (g : graph NW EW),
  GInv cap g ->
  (forall keep : EW -> bool,
     exists g' : graph NW EW,
       retain_edges debug keep g = Ok g' /\ GInv cap g' /\
       map nwt (gnodes g') = map nwt (gnodes g) /\
       Permutation (etrip g') (filter (fun t : nat * nat * EW => keep (snd t)) (etrip g))) /\
  (forall keep : NW -> bool,
     exists g' : graph NW EW,
       retain_nodes cap debug keep g = Ok g' /\ GInv cap g' /\
       Permutation (map nwt (gnodes g')) (filter keep (map nwt (gnodes g)))).
Proof. exact (fun NW EW cap debug g I => conj (fun keep => @retain_edges_spec NW EW cap debug keep g I) (fun keep => @retain_nodes_spec NW EW cap debug keep g I)). Qed.

(* T1, all of it in one statement: C01_inv_empty, C01_inv_add_node, C01_inv_add_edge. *)
Theorem C01_inv_add : (forall (NW EW : Type) (cap : nat),
  GInv cap (@g_empty NW EW) /\ (forall k i : nat, adjf cap (@g_empty NW EW) k i = [])) /\
(forall (NW EW : Type) (cap : nat) (capcheck : bool) (g : graph NW EW) (w : NW),
  GInv cap g ->
  (capcheck = true -> length (gnodes g) = cap ->
     try_add_node cap capcheck g w = (inl NodeIxLimit, g)) /\
  (length (gnodes g) < cap ->
     exists g' : graph NW EW,
       try_add_node cap capcheck g w = (inr (length (gnodes g)), g') /\
       GInv cap g' /\
       map nwt (gnodes g') = map nwt (gnodes g) ++ [w] /\
       gedges g' = gedges g /\
       (forall k i : nat, adjf cap g' k i = adjf cap g k i))) /\
(forall (NW EW : Type) (cap : nat) (capcheck : bool) (g : graph NW EW) (a b : nat) (w : EW),
  GInv cap g ->
  (capcheck = true -> length (gedges g) = cap ->
     try_add_edge cap capcheck g a b w = (inl EdgeIxLimit, g)) /\
  (length (gedges g) < cap -> length (gnodes g) <= a \/ length (gnodes g) <= b ->
     try_add_edge cap capcheck g a b w = (inl NodeOutBounds, g)) /\
  (length (gedges g) < cap -> a < length (gnodes g) -> b < length (gnodes g) ->
     exists g' : graph NW EW,
       try_add_edge cap capcheck g a b w = (inr (length (gedges g)), g') /\
       GInv cap g' /\
       map nwt (gnodes g') = map nwt (gnodes g) /\
       etrip g' = etrip g ++ [(a, b, w)] /\
       (forall k i : nat, i < length (gnodes g) ->
          adjf cap g' k i =
            (if i =? sel (a, b) k then length (gedges g) :: adjf cap g k i else adjf cap g k i)))).
Proof. exact (conj C01_inv_empty (conj C01_inv_add_node (C01_inv_add_edge))). Qed.

(* T2, all of it in one statement: C01_walks, C01_neighbors_directed, C01_neighbors_undirected,
C01_edges_directed, C01_edges_undirected, C01_find_edge, C01_find_edge_sound_complete, C01_externals. *)
Theorem C01_queries : (forall (NW EW : Type) (cap : nat) (g : graph NW EW),
  GInv cap g ->
  forall k i : nat,
    chain (fuel_of g) (gedges g) (sel (node_next cap g i) k) k = Ok (adjf cap g k i) /\
    NoDup (adjf cap g k i) /\
    (i < length (gnodes g) ->
       forall x : nat, In x (adjf cap g k i) <-> x < length (gedges g) /\ ept g k x = i) /\
    (length (gnodes g) <= i -> adjf cap g k i = [])) /\
(forall (NW EW : Type) (cap : nat) (g : graph NW EW),
  GInv cap g ->
  forall a : nat,
    neighbors_directed cap true g a 0 = Ok (map (fun e : nat => (e, tgt g e)) (adjf cap g 0 a)) /\
    (forall k : nat,
       neighbors_directed cap true g a (S k) = Ok (map (fun e : nat => (e, src g e)) (adjf cap g 1 a)))) /\
(forall (NW EW : Type) (cap : nat) (g : graph NW EW),
  GInv cap g ->
  forall a : nat,
    neighbors_undirected cap g a =
      Ok (map (fun e : nat => (e, tgt g e)) (adjf cap g 0 a) ++
          map (fun e : nat => (e, src g e))
            (filter (fun e : nat => negb (src g e =? a)) (adjf cap g 1 a))) /\
    (forall k : nat, neighbors_directed cap false g a k = neighbors_undirected cap g a)) /\
(forall (NW EW : Type) (cap : nat) (g : graph NW EW),
  GInv cap g ->
  forall a : nat,
    (exists r : list (nat * (nat * nat) * EW),
       edges_directed cap true g a 0 = Ok r /\ Forall2 (eref g false) (adjf cap g 0 a) r) /\
    (forall k : nat, exists r : list (nat * (nat * nat) * EW),
       edges_directed cap true g a (S k) = Ok r /\ Forall2 (eref g false) (adjf cap g 1 a) r)) /\
(forall (NW EW : Type) (cap : nat) (g : graph NW EW),
  GInv cap g ->
  forall a : nat,
    (exists r1 r2 : list (nat * (nat * nat) * EW),
       edges_directed cap false g a 0 = Ok (r1 ++ r2) /\
       Forall2 (eref g false) (adjf cap g 0 a) r1 /\
       Forall2 (eref g true) (filter (fun e : nat => negb (src g e =? a)) (adjf cap g 1 a)) r2) /\
    (forall k : nat, exists r1 r2 : list (nat * (nat * nat) * EW),
       edges_directed cap false g a (S k) = Ok (r1 ++ r2) /\
       Forall2 (eref g true) (adjf cap g 0 a) r1 /\
       Forall2 (eref g false) (filter (fun e : nat => negb (src g e =? a)) (adjf cap g 1 a)) r2)) /\
(forall (NW EW : Type) (cap : nat) (g : graph NW EW),
  GInv cap g ->
  forall a b : nat,
    find_edge true g a b = Ok (find (fun x : nat => tgt g x =? b) (adjf cap g 0 a)) /\
    find_edge false g a b =
      Ok match find (fun x : nat => tgt g x =? b) (adjf cap g 0 a) with
         | Some e => Some e
         | None => find (fun x : nat => src g x =? b) (adjf cap g 1 a)
         end) /\
(forall (NW EW : Type) (cap : nat) (g : graph NW EW),
  GInv cap g ->
  forall a b : nat,
    (forall e : nat, find_edge true g a b = Ok (Some e) ->
       e < length (gedges g) /\ src g e = a /\ tgt g e = b) /\
    (find_edge true g a b = Ok None ->
       forall e : nat, e < length (gedges g) -> ~ (src g e = a /\ tgt g e = b)) /\
    (forall e : nat, find_edge false g a b = Ok (Some e) ->
       e < length (gedges g) /\
       (src g e = a /\ tgt g e = b \/ src g e = b /\ tgt g e = a)) /\
    (find_edge false g a b = Ok None ->
       forall e : nat, e < length (gedges g) ->
         ~ (src g e = a /\ tgt g e = b) /\ ~ (src g e = b /\ tgt g e = a))) /\
(forall (NW EW : Type) (cap : nat) (g : graph NW EW),
  GInv cap g ->
  forall (directed : bool) (k : nat),
    externals cap directed g k =
      filter (fun i : nat =>
                isnil (adjf cap g k i) && (directed || isnil (adjf cap g (1 - k) i)))
             (seq 0 (length (gnodes g)))).
Proof. exact (conj C01_walks (conj C01_neighbors_directed (conj C01_neighbors_undirected (conj C01_edges_directed (conj C01_edges_undirected (conj C01_find_edge (conj C01_find_edge_sound_complete (C01_externals)))))))). Qed.

(* T5 in one statement: C01_reverse, C01_clear_edges. *)
Theorem C01_reverse_clear : (forall (NW EW : Type) (cap : nat) (g : graph NW EW),
  GInv cap g ->
  GInv cap (reverse g) /\
  map nwt (gnodes (reverse g)) = map nwt (gnodes g) /\
  map ewt (gedges (reverse g)) = map ewt (gedges g) /\
  map enode (gedges (reverse g)) = map swapp (map enode (gedges g)) /\
  (forall i : nat,
     adjf cap (reverse g) 0 i = adjf cap g 1 i /\ adjf cap (reverse g) 1 i = adjf cap g 0 i)) /\
(forall (NW EW : Type) (cap : nat) (g : graph NW EW),
  GInv cap g ->
  GInv cap (clear_edges cap g) /\
  map nwt (gnodes (clear_edges cap g)) = map nwt (gnodes g) /\
  gedges (clear_edges cap g) = [] /\
  (forall k i : nat, adjf cap (clear_edges cap g) k i = [])).
Proof. exact (conj C01_reverse (C01_clear_edges)). Qed.


(* Non-vacuity: a 4-node graph with parallel edges, a self-loop, a refused add_edge, a removal
   that moves the last edge and a removal of an absent edge, built by the executable model
   ([ex_ops], Proofs/GraphFinal.v).  It satisfies the invariant the theorems assume; every query
   and both removals are computed ([vm_compute]) and agree with the theorems. *)
Example C01_nonvacuous :
  exists g : graph nat nat,
    run 50 true true g_empty ex_ops = Ok g /\ GInv 50 g /\
    etrip g = [(0, 1, 100); (0, 1, 101); (2, 2, 102); (3, 0, 104)] /\
    map (@nwt nat) (gnodes g) = [10; 11; 12; 13] /\
    (adjf 50 g 0 0, adjf 50 g 1 0, adjf 50 g 0 1, adjf 50 g 1 1,
     adjf 50 g 0 2, adjf 50 g 1 2, adjf 50 g 0 3, adjf 50 g 1 3)
      = ([1; 0], [3], [], [1; 0], [2], [2], [3], []) /\
    neighbors_directed 50 true g 0 0 = Ok [(1, 1); (0, 1)] /\
    neighbors_directed 50 true g 1 1 = Ok [(1, 0); (0, 0)] /\
    neighbors_undirected 50 g 0 = Ok [(1, 1); (0, 1); (3, 3)] /\
    neighbors_undirected 50 g 2 = Ok [(2, 2)] /\
    edges_directed 50 true g 0 0 = Ok [(1, (0, 1), 101); (0, (0, 1), 100)] /\
    edges_directed 50 false g 0 0 = Ok [(1, (0, 1), 101); (0, (0, 1), 100); (3, (0, 3), 104)] /\
    edges_directed 50 false g 0 1 = Ok [(1, (1, 0), 101); (0, (1, 0), 100); (3, (3, 0), 104)] /\
    edges_directed 50 false g 2 0 = Ok [(2, (2, 2), 102)] /\
    (find_edge true g 0 1, find_edge true g 1 0, find_edge true g 0 3,
     find_edge false g 0 3, find_edge false g 1 3)
      = (Ok (Some 1), Ok None, Ok None, Ok (Some 3), Ok None) /\
    (externals 50 true g 0, externals 50 true g 1, externals 50 false g 0) = ([1], [3], []) /\
    rmap (fun p => (fst p, etrip (snd p))) (remove_edge true g 0)
      = Ok (Some 100, [(3, 0, 104); (0, 1, 101); (2, 2, 102)]) /\
    rmap (fun p => (fst p, etrip (snd p), map (@nwt nat) (gnodes (snd p)))) (remove_node 50 true g 0)
      = Ok (Some 10, [(2, 2, 102)], [13; 11; 12]) /\
    rmap fst (remove_node 50 false g 9) = Ok None.
Proof. exact example_graph. Qed.

(* The specification side of the same history: the stamped multigraph it reaches and its
   most-recent-first adjacency, computed by the specification's own sort. *)
Example C01_nonvacuous_spec :
  let s := mkM [10; 11; 12; 13]
               [(0, 1, (100, 0)); (0, 1, (101, 1)); (2, 2, (102, 2)); (3, 0, (104, 4))] 6 in
  mrun 50 true m_empty ex_ops s /\
  (m_adj s 0 0, m_adj s 1 0, m_adj s 1 1, m_adj s 0 2, m_adj s 1 2) = ([1; 0], [3], [1; 0], [2], [2]).
Proof. exact example_spec. Qed.


Check C01_inv_empty : forall (NW EW : Type) (cap : nat),
  GInv cap (@g_empty NW EW) /\ (forall k i : nat, adjf cap (@g_empty NW EW) k i = []).

Check C01_inv_add_node : forall (NW EW : Type) (cap : nat) (capcheck : bool) (g : graph NW EW) (w : NW),
  GInv cap g ->
  (capcheck = true -> length (gnodes g) = cap ->
     try_add_node cap capcheck g w = (inl NodeIxLimit, g)) /\
  (length (gnodes g) < cap ->
     exists g' : graph NW EW,
       try_add_node cap capcheck g w = (inr (length (gnodes g)), g') /\
       GInv cap g' /\
       map nwt (gnodes g') = map nwt (gnodes g) ++ [w] /\
       gedges g' = gedges g /\
       (forall k i : nat, adjf cap g' k i = adjf cap g k i)).

Check C01_inv_add_edge : forall (NW EW : Type) (cap : nat) (capcheck : bool) (g : graph NW EW) (a b : nat) (w : EW),
  GInv cap g ->
  (capcheck = true -> length (gedges g) = cap ->
     try_add_edge cap capcheck g a b w = (inl EdgeIxLimit, g)) /\
  (length (gedges g) < cap -> length (gnodes g) <= a \/ length (gnodes g) <= b ->
     try_add_edge cap capcheck g a b w = (inl NodeOutBounds, g)) /\
  (length (gedges g) < cap -> a < length (gnodes g) -> b < length (gnodes g) ->
     exists g' : graph NW EW,
       try_add_edge cap capcheck g a b w = (inr (length (gedges g)), g') /\
       GInv cap g' /\
       map nwt (gnodes g') = map nwt (gnodes g) /\
       etrip g' = etrip g ++ [(a, b, w)] /\
       (forall k i : nat, i < length (gnodes g) ->
          adjf cap g' k i =
            (if i =? sel (a, b) k then length (gedges g) :: adjf cap g k i else adjf cap g k i))).

Check C01_walks : forall (NW EW : Type) (cap : nat) (g : graph NW EW),
  GInv cap g ->
  forall k i : nat,
    chain (fuel_of g) (gedges g) (sel (node_next cap g i) k) k = Ok (adjf cap g k i) /\
    NoDup (adjf cap g k i) /\
    (i < length (gnodes g) ->
       forall x : nat, In x (adjf cap g k i) <-> x < length (gedges g) /\ ept g k x = i) /\
    (length (gnodes g) <= i -> adjf cap g k i = []).

Check C01_neighbors_directed : forall (NW EW : Type) (cap : nat) (g : graph NW EW),
  GInv cap g ->
  forall a : nat,
    neighbors_directed cap true g a 0 = Ok (map (fun e : nat => (e, tgt g e)) (adjf cap g 0 a)) /\
    (forall k : nat,
       neighbors_directed cap true g a (S k) = Ok (map (fun e : nat => (e, src g e)) (adjf cap g 1 a))).

Check C01_neighbors_undirected : forall (NW EW : Type) (cap : nat) (g : graph NW EW),
  GInv cap g ->
  forall a : nat,
    neighbors_undirected cap g a =
      Ok (map (fun e : nat => (e, tgt g e)) (adjf cap g 0 a) ++
          map (fun e : nat => (e, src g e))
            (filter (fun e : nat => negb (src g e =? a)) (adjf cap g 1 a))) /\
    (forall k : nat, neighbors_directed cap false g a k = neighbors_undirected cap g a).

Check C01_edges_directed : forall (NW EW : Type) (cap : nat) (g : graph NW EW),
  GInv cap g ->
  forall a : nat,
    (exists r : list (nat * (nat * nat) * EW),
       edges_directed cap true g a 0 = Ok r /\ Forall2 (eref g false) (adjf cap g 0 a) r) /\
    (forall k : nat, exists r : list (nat * (nat * nat) * EW),
       edges_directed cap true g a (S k) = Ok r /\ Forall2 (eref g false) (adjf cap g 1 a) r).

Check C01_edges_undirected : forall (NW EW : Type) (cap : nat) (g : graph NW EW),
  GInv cap g ->
  forall a : nat,
    (exists r1 r2 : list (nat * (nat * nat) * EW),
       edges_directed cap false g a 0 = Ok (r1 ++ r2) /\
       Forall2 (eref g false) (adjf cap g 0 a) r1 /\
       Forall2 (eref g true) (filter (fun e : nat => negb (src g e =? a)) (adjf cap g 1 a)) r2) /\
    (forall k : nat, exists r1 r2 : list (nat * (nat * nat) * EW),
       edges_directed cap false g a (S k) = Ok (r1 ++ r2) /\
       Forall2 (eref g true) (adjf cap g 0 a) r1 /\
       Forall2 (eref g false) (filter (fun e : nat => negb (src g e =? a)) (adjf cap g 1 a)) r2).

Check C01_find_edge : forall (NW EW : Type) (cap : nat) (g : graph NW EW),
  GInv cap g ->
  forall a b : nat,
    find_edge true g a b = Ok (find (fun x : nat => tgt g x =? b) (adjf cap g 0 a)) /\
    find_edge false g a b =
      Ok match find (fun x : nat => tgt g x =? b) (adjf cap g 0 a) with
         | Some e => Some e
         | None => find (fun x : nat => src g x =? b) (adjf cap g 1 a)
         end.

Check C01_find_edge_sound_complete : forall (NW EW : Type) (cap : nat) (g : graph NW EW),
  GInv cap g ->
  forall a b : nat,
    (forall e : nat, find_edge true g a b = Ok (Some e) ->
       e < length (gedges g) /\ src g e = a /\ tgt g e = b) /\
    (find_edge true g a b = Ok None ->
       forall e : nat, e < length (gedges g) -> ~ (src g e = a /\ tgt g e = b)) /\
    (forall e : nat, find_edge false g a b = Ok (Some e) ->
       e < length (gedges g) /\
       (src g e = a /\ tgt g e = b \/ src g e = b /\ tgt g e = a)) /\
    (find_edge false g a b = Ok None ->
       forall e : nat, e < length (gedges g) ->
         ~ (src g e = a /\ tgt g e = b) /\ ~ (src g e = b /\ tgt g e = a)).

Check C01_externals : forall (NW EW : Type) (cap : nat) (g : graph NW EW),
  GInv cap g ->
  forall (directed : bool) (k : nat),
    externals cap directed g k =
      filter (fun i : nat =>
                isnil (adjf cap g k i) && (directed || isnil (adjf cap g (1 - k) i)))
             (seq 0 (length (gnodes g))).

Check C01_remove_edge : forall (NW EW : Type) (cap : nat) (debug : bool) (g : graph NW EW) (e : nat),
  GInv cap g ->
  (length (gedges g) <= e -> remove_edge debug g e = Ok (None, g)) /\
  (e < length (gedges g) ->
     exists (ed : edge EW) (g' : graph NW EW),
       nth_error (gedges g) e = Some ed /\
       remove_edge debug g e = Ok (Some (ewt ed), g') /\
       GInv cap g' /\
       map nwt (gnodes g') = map nwt (gnodes g) /\
       etrip g' = swap_remove (etrip g) e /\
       length (gedges g') = length (gedges g) - 1 /\
       (forall k i : nat, i < length (gnodes g) ->
          adjf cap g' k i =
            map (ren (length (gedges g) - 1) e) (remove Nat.eq_dec e (adjf cap g k i)))).

Check C01_remove_node : forall (NW EW : Type) (cap : nat) (debug : bool) (g : graph NW EW) (a : nat),
  GInv cap g ->
  (length (gnodes g) <= a -> remove_node cap debug g a = Ok (None, g)) /\
  (a < length (gnodes g) ->
     exists (n : node NW) (g' : graph NW EW),
       nth_error (gnodes g) a = Some n /\
       remove_node cap debug g a = Ok (Some (nwt n), g') /\
       GInv cap g' /\
       map nwt (gnodes g') = swap_remove (map nwt (gnodes g)) a /\
       Permutation (etrip g')
         (map (ren_trip (length (gnodes g) - 1) a) (filter (not_inc a) (etrip g)))).

Check C01_reverse : forall (NW EW : Type) (cap : nat) (g : graph NW EW),
  GInv cap g ->
  GInv cap (reverse g) /\
  map nwt (gnodes (reverse g)) = map nwt (gnodes g) /\
  map ewt (gedges (reverse g)) = map ewt (gedges g) /\
  map enode (gedges (reverse g)) = map swapp (map enode (gedges g)) /\
  (forall i : nat,
     adjf cap (reverse g) 0 i = adjf cap g 1 i /\ adjf cap (reverse g) 1 i = adjf cap g 0 i).

Check C01_clear_edges : forall (NW EW : Type) (cap : nat) (g : graph NW EW),
  GInv cap g ->
  GInv cap (clear_edges cap g) /\
  map nwt (gnodes (clear_edges cap g)) = map nwt (gnodes g) /\
  gedges (clear_edges cap g) = [] /\
  (forall k i : nat, adjf cap (clear_edges cap g) k i = []).

Check C01_histories : forall (NW EW : Type) (cap : nat) (capcheck debug : bool) (ops : list (op NW EW)) (g : graph NW EW),
  GInv cap g -> room cap capcheck g (length ops) ->
  exists g' : graph NW EW, run cap capcheck debug g ops = Ok g' /\ GInv cap g'.

Check C01_history_stamped : forall (NW EW : Type) (cap : nat) (capcheck debug : bool) (ops : list (op NW EW)),
  capcheck = true \/ length ops <= cap ->
  exists g : graph NW (EW * nat),
    run cap capcheck debug g_empty (stamp_ops 0 ops) = Ok g /\
    GInv cap g /\
    mrun cap capcheck m_empty ops (mabs g (clock_after 0 ops)) /\
    (forall k a : nat, adjf cap g k a = m_adj (mabs g (clock_after 0 ops)) k a).

Check C01_history_multigraph : forall (NW EW : Type) (cap : nat) (capcheck debug : bool) (ops : list (op NW EW)),
  capcheck = true \/ length ops <= cap ->
  exists (g : graph NW EW) (s : mgraph NW EW),
    run cap capcheck debug g_empty ops = Ok g /\
    GInv cap g /\
    mrun cap capcheck m_empty ops s /\
    mnodes s = map nwt (gnodes g) /\
    map unstamp (medges s) = etrip g /\
    (forall k a : nat, adjf cap g k a = m_adj s k a) /\
    (forall a : nat,
       neighbors_directed cap true g a 0 = Ok (map (fun e : nat => (e, m_ep s 1 e)) (m_adj s 0 a))) /\
    (forall a : nat,
       neighbors_directed cap true g a 1 = Ok (map (fun e : nat => (e, m_ep s 0 e)) (m_adj s 1 a))).

Check C01_history_step_invariants : forall (NW EW : Type) (cap : nat) (capcheck debug : bool) (ops : list (op NW EW))
    (g : graph NW (EW * nat)) (c : nat),
  GInv cap g -> room cap capcheck g (length ops) -> SInv cap g c ->
  exists g' : graph NW (EW * nat),
    run cap capcheck debug g (stamp_ops c ops) = Ok g' /\
    GInv cap g' /\
    mrun cap capcheck (mabs g c) ops (mabs g' (clock_after c ops)) /\
    SInv cap g' (clock_after c ops).

Check C01_set_weights : forall (NW EW : Type) (cap : nat) (g : graph NW EW),
  GInv cap g ->
  (forall (e : nat) (w : EW),
     (length (gedges g) <= e -> set_edge_weight g e w = None) /\
     (e < length (gedges g) ->
        exists g' : graph NW EW,
          set_edge_weight g e w = Some g' /\ GInv cap g' /\
          gnodes g' = gnodes g /\
          map enode (gedges g') = map enode (gedges g) /\
          map ewt (gedges g') = upd (map ewt (gedges g)) e w /\
          (forall k i : nat, adjf cap g' k i = adjf cap g k i))) /\
  (forall (a : nat) (w : NW),
     (length (gnodes g) <= a -> set_node_weight g a w = None) /\
     (a < length (gnodes g) ->
        exists g' : graph NW EW,
          set_node_weight g a w = Some g' /\ GInv cap g' /\
          gedges g' = gedges g /\
          map nwt (gnodes g') = upd (map nwt (gnodes g)) a w /\
          (forall k i : nat, adjf cap g' k i = adjf cap g k i))).

Check C01_update_edge : forall (NW EW : Type) (cap : nat) (capcheck directed : bool) (g : graph NW EW) (a b : nat) (w : EW),
  GInv cap g ->
  exists o : option nat,
    find_edge directed g a b = Ok o /\
    match o with
    | Some ix =>
        ix < length (gedges g) /\
        (exists g' : graph NW EW,
           set_edge_weight g ix w = Some g' /\
           try_update_edge cap capcheck directed g a b w = Ok (inr ix, g'))
    | None =>
        try_update_edge cap capcheck directed g a b w = Ok (try_add_edge cap capcheck g a b w)
    end.

Check C01_retain : forall (NW EW : Type) (cap : nat) (debug : bool) (g : graph NW EW),
  GInv cap g ->
  (forall keep : EW -> bool,
     exists g' : graph NW EW,
       retain_edges debug keep g = Ok g' /\ GInv cap g' /\
       map nwt (gnodes g') = map nwt (gnodes g) /\
       Permutation (etrip g') (filter (fun t : nat * nat * EW => keep (snd t)) (etrip g))) /\
  (forall keep : NW -> bool,
     exists g' : graph NW EW,
       retain_nodes cap debug keep g = Ok g' /\ GInv cap g' /\
       Permutation (map nwt (gnodes g')) (filter keep (map nwt (gnodes g)))).

Check C01_inv_add : (forall (NW EW : Type) (cap : nat),
  GInv cap (@g_empty NW EW) /\ (forall k i : nat, adjf cap (@g_empty NW EW) k i = [])) /\
(forall (NW EW : Type) (cap : nat) (capcheck : bool) (g : graph NW EW) (w : NW),
  GInv cap g ->
  (capcheck = true -> length (gnodes g) = cap ->
     try_add_node cap capcheck g w = (inl NodeIxLimit, g)) /\
  (length (gnodes g) < cap ->
     exists g' : graph NW EW,
       try_add_node cap capcheck g w = (inr (length (gnodes g)), g') /\
       GInv cap g' /\
       map nwt (gnodes g') = map nwt (gnodes g) ++ [w] /\
       gedges g' = gedges g /\
       (forall k i : nat, adjf cap g' k i = adjf cap g k i))) /\
(forall (NW EW : Type) (cap : nat) (capcheck : bool) (g : graph NW EW) (a b : nat) (w : EW),
  GInv cap g ->
  (capcheck = true -> length (gedges g) = cap ->
     try_add_edge cap capcheck g a b w = (inl EdgeIxLimit, g)) /\
  (length (gedges g) < cap -> length (gnodes g) <= a \/ length (gnodes g) <= b ->
     try_add_edge cap capcheck g a b w = (inl NodeOutBounds, g)) /\
  (length (gedges g) < cap -> a < length (gnodes g) -> b < length (gnodes g) ->
     exists g' : graph NW EW,
       try_add_edge cap capcheck g a b w = (inr (length (gedges g)), g') /\
       GInv cap g' /\
       map nwt (gnodes g') = map nwt (gnodes g) /\
       etrip g' = etrip g ++ [(a, b, w)] /\
       (forall k i : nat, i < length (gnodes g) ->
          adjf cap g' k i =
            (if i =? sel (a, b) k then length (gedges g) :: adjf cap g k i else adjf cap g k i)))).

Check C01_queries : (forall (NW EW : Type) (cap : nat) (g : graph NW EW),
  GInv cap g ->
  forall k i : nat,
    chain (fuel_of g) (gedges g) (sel (node_next cap g i) k) k = Ok (adjf cap g k i) /\
    NoDup (adjf cap g k i) /\
    (i < length (gnodes g) ->
       forall x : nat, In x (adjf cap g k i) <-> x < length (gedges g) /\ ept g k x = i) /\
    (length (gnodes g) <= i -> adjf cap g k i = [])) /\
(forall (NW EW : Type) (cap : nat) (g : graph NW EW),
  GInv cap g ->
  forall a : nat,
    neighbors_directed cap true g a 0 = Ok (map (fun e : nat => (e, tgt g e)) (adjf cap g 0 a)) /\
    (forall k : nat,
       neighbors_directed cap true g a (S k) = Ok (map (fun e : nat => (e, src g e)) (adjf cap g 1 a)))) /\
(forall (NW EW : Type) (cap : nat) (g : graph NW EW),
  GInv cap g ->
  forall a : nat,
    neighbors_undirected cap g a =
      Ok (map (fun e : nat => (e, tgt g e)) (adjf cap g 0 a) ++
          map (fun e : nat => (e, src g e))
            (filter (fun e : nat => negb (src g e =? a)) (adjf cap g 1 a))) /\
    (forall k : nat, neighbors_directed cap false g a k = neighbors_undirected cap g a)) /\
(forall (NW EW : Type) (cap : nat) (g : graph NW EW),
  GInv cap g ->
  forall a : nat,
    (exists r : list (nat * (nat * nat) * EW),
       edges_directed cap true g a 0 = Ok r /\ Forall2 (eref g false) (adjf cap g 0 a) r) /\
    (forall k : nat, exists r : list (nat * (nat * nat) * EW),
       edges_directed cap true g a (S k) = Ok r /\ Forall2 (eref g false) (adjf cap g 1 a) r)) /\
(forall (NW EW : Type) (cap : nat) (g : graph NW EW),
  GInv cap g ->
  forall a : nat,
    (exists r1 r2 : list (nat * (nat * nat) * EW),
       edges_directed cap false g a 0 = Ok (r1 ++ r2) /\
       Forall2 (eref g false) (adjf cap g 0 a) r1 /\
       Forall2 (eref g true) (filter (fun e : nat => negb (src g e =? a)) (adjf cap g 1 a)) r2) /\
    (forall k : nat, exists r1 r2 : list (nat * (nat * nat) * EW),
       edges_directed cap false g a (S k) = Ok (r1 ++ r2) /\
       Forall2 (eref g true) (adjf cap g 0 a) r1 /\
       Forall2 (eref g false) (filter (fun e : nat => negb (src g e =? a)) (adjf cap g 1 a)) r2)) /\
(forall (NW EW : Type) (cap : nat) (g : graph NW EW),
  GInv cap g ->
  forall a b : nat,
    find_edge true g a b = Ok (find (fun x : nat => tgt g x =? b) (adjf cap g 0 a)) /\
    find_edge false g a b =
      Ok match find (fun x : nat => tgt g x =? b) (adjf cap g 0 a) with
         | Some e => Some e
         | None => find (fun x : nat => src g x =? b) (adjf cap g 1 a)
         end) /\
(forall (NW EW : Type) (cap : nat) (g : graph NW EW),
  GInv cap g ->
  forall a b : nat,
    (forall e : nat, find_edge true g a b = Ok (Some e) ->
       e < length (gedges g) /\ src g e = a /\ tgt g e = b) /\
    (find_edge true g a b = Ok None ->
       forall e : nat, e < length (gedges g) -> ~ (src g e = a /\ tgt g e = b)) /\
    (forall e : nat, find_edge false g a b = Ok (Some e) ->
       e < length (gedges g) /\
       (src g e = a /\ tgt g e = b \/ src g e = b /\ tgt g e = a)) /\
    (find_edge false g a b = Ok None ->
       forall e : nat, e < length (gedges g) ->
         ~ (src g e = a /\ tgt g e = b) /\ ~ (src g e = b /\ tgt g e = a))) /\
(forall (NW EW : Type) (cap : nat) (g : graph NW EW),
  GInv cap g ->
  forall (directed : bool) (k : nat),
    externals cap directed g k =
      filter (fun i : nat =>
                isnil (adjf cap g k i) && (directed || isnil (adjf cap g (1 - k) i)))
             (seq 0 (length (gnodes g)))).

Check C01_reverse_clear : (forall (NW EW : Type) (cap : nat) (g : graph NW EW),
  GInv cap g ->
  GInv cap (reverse g) /\
  map nwt (gnodes (reverse g)) = map nwt (gnodes g) /\
  map ewt (gedges (reverse g)) = map ewt (gedges g) /\
  map enode (gedges (reverse g)) = map swapp (map enode (gedges g)) /\
  (forall i : nat,
     adjf cap (reverse g) 0 i = adjf cap g 1 i /\ adjf cap (reverse g) 1 i = adjf cap g 0 i)) /\
(forall (NW EW : Type) (cap : nat) (g : graph NW EW),
  GInv cap g ->
  GInv cap (clear_edges cap g) /\
  map nwt (gnodes (clear_edges cap g)) = map nwt (gnodes g) /\
  gedges (clear_edges cap g) = [] /\
  (forall k i : nat, adjf cap (clear_edges cap g) k i = [])).

Print Assumptions C01_inv_empty.
Print Assumptions C01_inv_add_node.
Print Assumptions C01_inv_add_edge.
Print Assumptions C01_walks.
Print Assumptions C01_neighbors_directed.
Print Assumptions C01_neighbors_undirected.
Print Assumptions C01_edges_directed.
Print Assumptions C01_edges_undirected.
Print Assumptions C01_find_edge.
Print Assumptions C01_find_edge_sound_complete.
Print Assumptions C01_externals.
Print Assumptions C01_remove_edge.
Print Assumptions C01_remove_node.
Print Assumptions C01_reverse.
Print Assumptions C01_clear_edges.
Print Assumptions C01_histories.
Print Assumptions C01_history_stamped.
Print Assumptions C01_history_multigraph.
Print Assumptions C01_history_step_invariants.
Print Assumptions C01_set_weights.
Print Assumptions C01_update_edge.
Print Assumptions C01_retain.
Print Assumptions C01_inv_add.
Print Assumptions C01_queries.
Print Assumptions C01_reverse_clear.
Print Assumptions C01_nonvacuous.
Print Assumptions C01_nonvacuous_spec.
