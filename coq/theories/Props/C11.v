(* C11 — bellman_ford returns Err(NegativeCycle) exactly when a negative-cost cycle is reachable
   from the source and otherwise the true distance of every node with a shortest-path tree of
   predecessors; find_negative_cycle answers None exactly when bellman_ford succeeds.
   This file holds only the property theorems (closed by [exact]), their pinned statements
   ([Check]) and their assumptions. *)
From Coq Require Import Lia ZArith List.
From PG Require Import Lib.Io Model.View Model.Traversal Model.ShortestM Spec.Paths Spec.EPaths Proofs.BellmanFordP Proofs.FncP Proofs.FloydP.
Open Scope Z_scope.

(* bellman_ford never panics; Ok None models Err(NegativeCycle). *)
Theorem C11_bellman_ford : forall v s, BOk v -> (s < vbound v)%nat ->
  exists r, bellman_ford v s = Ok r /\
    match r with
    | None => neg_cycle_reachable v s
    | Some (dist, pred) =>
        ~ neg_cycle_reachable v s /\ length dist = vbound v /\ length pred = vbound v /\
        (forall x d, nth_error dist x = Some (Some d) <-> is_dist v s x d) /\
        (forall x, (x < vbound v)%nat -> (nth_error dist x = Some None <-> ~ reachable v s x)) /\
        nth_error pred s = Some None /\
        (forall x, (x < vbound v)%nat -> ~ reachable v s x -> nth_error pred x = Some None) /\
        (forall x, reachable v s x -> x <> s ->
           exists u e du dx, nth_error pred x = Some (Some u) /\ In e (out_edges v u) /\ tgt e = x /\
                             nth_error dist u = Some (Some du) /\ nth_error dist x = Some (Some dx) /\
                             du + ewgt e = dx)
    end.
Proof. intros v s HB Hs; exact (bellman_ford_spec HB Hs). Qed.

(* hence: Err exactly when a negative cycle is reachable from the source *)
Theorem C11_bellman_ford_err_iff : forall v s, BOk v -> (s < vbound v)%nat ->
  (bellman_ford v s = Ok None <-> neg_cycle_reachable v s).
Proof. intros v s HB Hs; exact (bellman_ford_err_iff HB Hs). Qed.

(* find_negative_cycle returns None exactly when bellman_ford returns Ok (no hypotheses) *)
Theorem C11_fnc_iff_bf_err : forall v s,
  find_negative_cycle v s = Ok None <-> exists dp, bellman_ford v s = Ok (Some dp).
Proof. intros v s; exact (fnc_none_iff_bf_ok v s). Qed.

(* find_negative_cycle never panics nor exhausts its fuel; it returns Some exactly when
   bellman_ford errs, and the returned node sequence is the sequence of targets of a closed
   walk along existing out-entries whose total cost is negative (the walk starts at the last
   node of the sequence). *)
Theorem C11_fnc_sound : forall v s, BOk v -> (s < vbound v)%nat ->
  (forall a, In a (vnodes v) -> in_cap v a) ->
  exists r, find_negative_cycle v s = Ok r /\
    match r with
    | None => exists dp, bellman_ford v s = Ok (Some dp)
    | Some l => bellman_ford v s = Ok None /\
                exists a c, walk v a c a /\ map tgt c = l /\ walk_cost c < 0
    end.
Proof. intros v s HB Hs Hc; exact (fnc_spec HB Hs Hc). Qed.

(* floyd_warshall (walks follow edge_references; an undirected reference both ways; FOk: the
   nodes are the indices below node_count and the references join nodes).  It never panics,
   and Err(NegativeCycle) (= Ok None) is only returned when a closed walk of negative cost exists. *)
Theorem C11_fw_total_sound : forall kmin kmax v, FOk v -> 0 <= kmax ->
  exists r, floyd_warshall kmin kmax v = Ok r /\ (r = None -> eneg_cycle v).
Proof. intros kmin kmax v HF Hk; exact (fw_total_sound kmin HF Hk). Qed.

(* Without negative cycles and without overflow (every simple path costs less than max(), the sum
   of two walk costs never goes below min()): Ok, with max() at exactly the unreachable pairs and
   the exact distance at every reachable ordered pair. *)
Theorem C11_fw_exact : forall kmin kmax v, FOk v -> ~ eneg_cycle v ->
  (forall i p j, ewalk v i p j -> esimple i p -> ecost p < kmax) ->
  (forall i p k q j, ewalk v i p k -> ewalk v k q j -> kmin <= ecost p + ecost q) ->
  exists d p, floyd_warshall kmin kmax v = Ok (Some (d, p)) /\
    Shape (vnode_count v) d /\ Shape (vnode_count v) p /\
    forall i j, (i < vnode_count v)%nat -> (j < vnode_count v)%nat ->
      (mg 0 d i j = kmax <-> ~ ereachable v i j) /\
      (ereachable v i j -> edist v i j (mg 0 d i j)).
Proof. intros kmin kmax v HF HN H1 H2; exact (fw_exact HF HN H1 H2). Qed.

(* the side conditions hold whenever the weights are bounded by M and node_count * M fits *)
Theorem C11_fw_side_conditions : forall kmin kmax v M, FOk v -> ~ eneg_cycle v -> 0 <= M ->
  (forall a b w, estep v a b w -> - M <= w <= M) ->
  Z.of_nat (vnode_count v) * M < kmax -> kmin <= - (2 * (Z.of_nat (vnode_count v) * M)) -> 0 < kmax ->
  (forall i p j, ewalk v i p j -> esimple i p -> ecost p < kmax) /\
  (forall i p k q j, ewalk v i p k -> ewalk v k q j -> kmin <= ecost p + ecost q).
Proof. intros kmin kmax v M HF HN HM Hw H1 H2 H3; exact (bounds_from_weights HF HN HM Hw H1 H2 H3). Qed.

(* when edge_references and out-lists agree, these are the walks, distances and cycles of Spec.Paths *)
Theorem C11_fw_same_walks : forall v, ERefsOk v ->
  (forall i j, ereachable v i j <-> reachable v i j) /\
  (forall i j d, edist v i j d <-> is_dist v i j d) /\
  (eneg_cycle v <-> exists a c, walk v a c a /\ walk_cost c < 0).
Proof.
  intros v HR; exact (conj (fun i j => ereachable_iff i j HR)
                     (conj (fun i j d => edist_iff i j d HR) (eneg_cycle_iff HR))).
Qed.

(* Non-vacuity: a view with negative entries (2 -> 1 costs -3, 4 -> 0 costs -7), a zero-cost entry,
   a non-negative cycle 1 -> 3 -> 1 and node 4 unreachable from 0 ... *)
Definition C11_view : view :=
  mkView true 5 (Some 5%nat) [0; 1; 2; 3; 4]%nat
    [(0%nat, [(0%nat, 1%nat, 4); (1%nat, 2%nat, 5)]); (1%nat, [(2%nat, 3%nat, 0)]);
     (2%nat, [(3%nat, 1%nat, -3)]); (3%nat, [(4%nat, 1%nat, 1)]); (4%nat, [(5%nat, 0%nat, -7)])]
    [] 6 6 [].

(* ... and one with the negative cycle 1 -> 2 -> 1 reachable from 0 (and from 3) *)
Definition C11_view_neg : view :=
  mkView true 4 (Some 4%nat) [0; 1; 2; 3]%nat
    [(0%nat, [(0%nat, 1%nat, 1)]); (1%nat, [(1%nat, 2%nat, -2)]); (2%nat, [(2%nat, 1%nat, 1)]);
     (3%nat, [(3%nat, 0%nat, 1)])]
    [] 4 4 [].

Example C11_views_ok : BOk C11_view /\ BOk C11_view_neg.
Proof. split; apply bok_b_ok; vm_compute; reflexivity. Qed.

Example C11_views_cap : (forall a, In a (vnodes C11_view) -> in_cap C11_view a) /\
                        (forall a, In a (vnodes C11_view_neg) -> in_cap C11_view_neg a).
Proof. split; intros a Ha; vm_compute in Ha; vm_compute; intuition lia. Qed.

Example C11_nonvacuous :
  bellman_ford C11_view 0 =
    Ok (Some ([Some 0; Some 2; Some 5; Some 2; None], [None; Some 2%nat; Some 0%nat; Some 1%nat; None])) /\
  bellman_ford C11_view 4 =
    Ok (Some ([Some (-7); Some (-5); Some (-2); Some (-5); Some 0],
              [Some 4%nat; Some 2%nat; Some 0%nat; Some 1%nat; None])) /\
  find_negative_cycle C11_view 0 = Ok None /\
  bellman_ford C11_view_neg 0 = Ok None /\
  find_negative_cycle C11_view_neg 0 = Ok (Some [2%nat; 1%nat]).
Proof. vm_compute. repeat split; reflexivity. Qed.

(* the theorem applied *)
Example C11_applied :
  is_dist C11_view 0 3 2 /\ ~ reachable C11_view 0 4 /\ neg_cycle_reachable C11_view_neg 0.
Proof.
  destruct C11_views_ok as [H1 H2].
  assert (L1 : (0 < vbound C11_view)%nat) by (vm_compute; lia).
  assert (L2 : (0 < vbound C11_view_neg)%nat) by (vm_compute; lia).
  destruct (bellman_ford_spec H1 L1) as [r [E S]]. vm_compute in E. injection E as <-.
  destruct S as [_ [_ [_ [Hd [Hn _]]]]].
  split; [apply Hd; reflexivity|]. split; [apply Hn; [vm_compute; lia|reflexivity]|].
  apply (bellman_ford_err_iff H2 L2). vm_compute. reflexivity.
Qed.

(* floyd_warshall: a directed view with a negative reference and unreachable pairs, and one
   with a negative cycle *)
Definition C11_fw_view : view :=
  mkView true 4 (Some 4%nat) [0; 1; 2; 3]%nat
    [(0%nat, [(0%nat, 1%nat, 4); (1%nat, 2%nat, 5)]); (1%nat, [(3%nat, 3%nat, 0)]);
     (2%nat, [(2%nat, 1%nat, -3)]); (3%nat, [])] [] 4 4
    [(0%nat, 0%nat, 1%nat, 4); (1%nat, 0%nat, 2%nat, 5); (2%nat, 2%nat, 1%nat, -3); (3%nat, 1%nat, 3%nat, 0)].
Definition C11_fw_view_neg : view :=
  mkView true 3 (Some 3%nat) [0; 1; 2]%nat
    [(0%nat, [(0%nat, 1%nat, 1)]); (1%nat, [(1%nat, 2%nat, -2)]); (2%nat, [(2%nat, 1%nat, 1)])] [] 3 3
    [(0%nat, 0%nat, 1%nat, 1); (1%nat, 1%nat, 2%nat, -2); (2%nat, 2%nat, 1%nat, 1)].

Ltac fw_steps H :=
  let id := fresh "id" in let Hin := fresh "Hin" in let Hd := fresh "Hd" in
  destruct H as [id [Hin|[Hd Hin]]]; [|discriminate Hd];
  cbn in Hin; repeat (destruct Hin as [Hin|Hin]; [injection Hin as <- <- <- <-|]); [..|destruct Hin].

Example C11_fw_nonvacuous :
  floyd_warshall I32MIN I32MAX C11_fw_view =
    Ok (Some ([[0; 2; 5; 2]; [2147483647; 0; 2147483647; 0]; [2147483647; -3; 0; -3];
               [2147483647; 2147483647; 2147483647; 0]],
              [[Some 0%nat; Some 2%nat; Some 0%nat; Some 1%nat]; [None; Some 1%nat; None; Some 1%nat];
               [None; Some 2%nat; Some 2%nat; Some 1%nat]; [None; None; None; Some 3%nat]])) /\
  floyd_warshall I32MIN I32MAX C11_fw_view_neg = Ok None.
Proof. vm_compute. split; reflexivity. Qed.

(* the hypotheses of C11_fw_exact hold for the first view (potential 0, 2, 5, 2; weights within 5) *)
Example C11_fw_hyps :
  FOk C11_fw_view /\ FOk C11_fw_view_neg /\ ~ eneg_cycle C11_fw_view /\
  (forall i p j, ewalk C11_fw_view i p j -> esimple i p -> ecost p < I32MAX) /\
  (forall i p k q j, ewalk C11_fw_view i p k -> ewalk C11_fw_view k q j -> I32MIN <= ecost p + ecost q).
Proof.
  assert (HF : FOk C11_fw_view).
  { constructor.
    - intros i Hi. vm_compute in Hi. vm_compute. lia.
    - intros i Hi. vm_compute in Hi. vm_compute. lia.
    - intros id a b w Hin. cbn in Hin.
      repeat (destruct Hin as [Hin|Hin]; [injection Hin as <- <- <- <-; vm_compute; lia|]). destruct Hin. }
  assert (HF' : FOk C11_fw_view_neg).
  { constructor.
    - intros i Hi. vm_compute in Hi. vm_compute. lia.
    - intros i Hi. vm_compute in Hi. vm_compute. lia.
    - intros id a b w Hin. cbn in Hin.
      repeat (destruct Hin as [Hin|Hin]; [injection Hin as <- <- <- <-; vm_compute; lia|]). destruct Hin. }
  assert (HN : ~ eneg_cycle C11_fw_view).
  { apply (potential_no_neg_cycle (h := fun x => nth x [0; 2; 5; 2] 0)).
    intros a b w Hs. fw_steps Hs; cbn [nth]; lia. }
  split; auto. split; auto. split; auto.
  apply (@bounds_from_weights I32MIN I32MAX C11_fw_view 5 HF HN); try (vm_compute; congruence); try lia.
  intros a b w Hs. fw_steps Hs; lia.
Qed.

(* the theorems applied *)
Example C11_fw_applied :
  edist C11_fw_view 0 3 2 /\ ~ ereachable C11_fw_view 3 0 /\ eneg_cycle C11_fw_view_neg.
Proof.
  destruct C11_fw_hyps as [HF [HF' [HN [H1 H2]]]].
  destruct (fw_exact HF HN H1 H2) as [d [p [E [_ [_ H]]]]].
  vm_compute in E. injection E as <- <-.
  split; [|split].
  - destruct (H 0%nat 3%nat) as [Hm Hd]; try (vm_compute; lia).
    apply Hd. destruct (Z_lt_le_dec 2 I32MAX) as [Hlt|Hge]; [|vm_compute in Hge; congruence].
    exists [(1%nat, 4); (3%nat, 0)].
    constructor; [exists 0%nat; left; cbn; auto|]. constructor; [exists 3%nat; left; cbn; auto 6|]. constructor.
  - destruct (H 3%nat 0%nat) as [Hm _]; try (vm_compute; lia). apply Hm. reflexivity.
  - assert (Hk : 0 <= I32MAX) by (vm_compute; congruence).
    destruct (fw_total_sound I32MIN HF' Hk) as [r [E Hr]]. vm_compute in E. injection E as <-. auto.
Qed.

Check C11_bellman_ford : forall v s, BOk v -> (s < vbound v)%nat ->
  exists r, bellman_ford v s = Ok r /\
    match r with
    | None => neg_cycle_reachable v s
    | Some (dist, pred) =>
        ~ neg_cycle_reachable v s /\ length dist = vbound v /\ length pred = vbound v /\
        (forall x d, nth_error dist x = Some (Some d) <-> is_dist v s x d) /\
        (forall x, (x < vbound v)%nat -> (nth_error dist x = Some None <-> ~ reachable v s x)) /\
        nth_error pred s = Some None /\
        (forall x, (x < vbound v)%nat -> ~ reachable v s x -> nth_error pred x = Some None) /\
        (forall x, reachable v s x -> x <> s ->
           exists u e du dx, nth_error pred x = Some (Some u) /\ In e (out_edges v u) /\ tgt e = x /\
                             nth_error dist u = Some (Some du) /\ nth_error dist x = Some (Some dx) /\
                             du + ewgt e = dx)
    end.
Check C11_bellman_ford_err_iff : forall v s, BOk v -> (s < vbound v)%nat ->
  (bellman_ford v s = Ok None <-> neg_cycle_reachable v s).
Check C11_fnc_iff_bf_err : forall v s,
  find_negative_cycle v s = Ok None <-> exists dp, bellman_ford v s = Ok (Some dp).
Check C11_fnc_sound : forall v s, BOk v -> (s < vbound v)%nat ->
  (forall a, In a (vnodes v) -> in_cap v a) ->
  exists r, find_negative_cycle v s = Ok r /\
    match r with
    | None => exists dp, bellman_ford v s = Ok (Some dp)
    | Some l => bellman_ford v s = Ok None /\
                exists a c, walk v a c a /\ map tgt c = l /\ walk_cost c < 0
    end.

Check C11_fw_total_sound : forall kmin kmax v, FOk v -> 0 <= kmax ->
  exists r, floyd_warshall kmin kmax v = Ok r /\ (r = None -> eneg_cycle v).
Check C11_fw_exact : forall kmin kmax v, FOk v -> ~ eneg_cycle v ->
  (forall i p j, ewalk v i p j -> esimple i p -> ecost p < kmax) ->
  (forall i p k q j, ewalk v i p k -> ewalk v k q j -> kmin <= ecost p + ecost q) ->
  exists d p, floyd_warshall kmin kmax v = Ok (Some (d, p)) /\
    Shape (vnode_count v) d /\ Shape (vnode_count v) p /\
    forall i j, (i < vnode_count v)%nat -> (j < vnode_count v)%nat ->
      (mg 0 d i j = kmax <-> ~ ereachable v i j) /\
      (ereachable v i j -> edist v i j (mg 0 d i j)).
Check C11_fw_side_conditions : forall kmin kmax v M, FOk v -> ~ eneg_cycle v -> 0 <= M ->
  (forall a b w, estep v a b w -> - M <= w <= M) ->
  Z.of_nat (vnode_count v) * M < kmax -> kmin <= - (2 * (Z.of_nat (vnode_count v) * M)) -> 0 < kmax ->
  (forall i p j, ewalk v i p j -> esimple i p -> ecost p < kmax) /\
  (forall i p k q j, ewalk v i p k -> ewalk v k q j -> kmin <= ecost p + ecost q).
Check C11_fw_same_walks : forall v, ERefsOk v ->
  (forall i j, ereachable v i j <-> reachable v i j) /\
  (forall i j d, edist v i j d <-> is_dist v i j d) /\
  (eneg_cycle v <-> exists a c, walk v a c a /\ walk_cost c < 0).

Print Assumptions C11_bellman_ford.
Print Assumptions C11_bellman_ford_err_iff.
Print Assumptions C11_fnc_iff_bf_err.
Print Assumptions C11_fnc_sound.
Print Assumptions C11_applied.
Print Assumptions C11_fw_total_sound.
Print Assumptions C11_fw_exact.
Print Assumptions C11_fw_side_conditions.
Print Assumptions C11_fw_same_walks.
Print Assumptions C11_fw_applied.
