(* C07 — the outcome of every generic algorithm depends only on the abstract graph (nodes,
   edges, weights, direction) and not on which graph type stores it, the order of insertion,
   the index width, or whether earlier removals left vacant indices.

   Every concrete graph type is run through the one model of each algorithm via its view
   (Model/View.v).  Two views show the same abstract graph when they are related by
   view_iso p (Spec/ViewIso.v): p is injective on the nodes of the first, the nodes of the
   second are the images, and node by node the out-lists are the same multiset of
   (target, weight).  Edge ids, the order inside a list, the node order, vbound, vcap and the
   numbering may all differ.  This file holds only the property theorems (closed by [exact]),
   their pinned statements ([Check]), their assumptions, and non-vacuity examples.

     I1  the vocabulary of C08-C12 (steps, reachability, walks, costs, distances, negative
         cycles, cycles, mutual reachability, two-colourability, spanning forests) corresponds;
     I2  unique answers are equal (modulo p);
     I3  non-unique answers are equally valid and equally optimal;
     I4  under the well-formedness of both views both runs return Ok;
     I5  a renumbering with holes is such an isomorphic view and inherits well-formedness;
     and the boundary: connected_components ranges over 0 .. node_bound-1, so it is invariant
         between compact encodings only and counts every vacant index otherwise.

   Vocabulary (Spec/ViewIso.v): view_iso, view_iso_in, view_iso_erefs, view_iso_erefs_u (up to
   the orientation of each reference), nodes_iso, inv_on (an inverse of p on the nodes),
   closed_view, compact_view, relabel, classes_correspond.  Two different VOk exist (Spec.Reach for the
   traversals, Spec.Paths for dijkstra); they are always qualified here. *)
From Coq Require Import Permutation Lia ZArith NArith List.
From PG Require Import Lib.Io Model.View Model.Traversal Model.AlgoBasic Model.ShortestM Model.MstM
                       Spec.Reach Spec.Paths Spec.AlgoSpec Spec.Partition Spec.Forest Spec.ViewIso
                       Proofs.MstP Proofs.IsoP Proofs.InvarianceP.
Local Open Scope nat_scope.   (* Spec.Paths opens Z_scope *)

(* ------------------------------------------------------------------ *)
(* I1: the abstract graph is what matters                               *)

(* view_iso is symmetric: inv_on p (vnodes v1) inverts p on the nodes, and is itself a
   correspondence from v2 to v1.  Every "conversely" below is this. *)
Theorem C07_iso_symmetric : forall p v1 v2, view_iso p v1 v2 ->
  view_iso (inv_on p (vnodes v1)) v2 v1 /\
  (forall a, In a (vnodes v1) -> inv_on p (vnodes v1) (p a) = a) /\
  (forall x, In x (vnodes v2) -> In (inv_on p (vnodes v1) x) (vnodes v1) /\ p (inv_on p (vnodes v1) x) = x).
Proof. exact (fun p v1 v2 H => conj (view_iso_sym H) (conj (fun a Ha => iso_inv_left H Ha) (fun x Hx => iso_inv_right H Hx))). Qed.

(* for well-formed views (Reach.VOk, or Paths.BOk) the three closure clauses of view_iso
   are automatic: the first three clauses suffice *)
Theorem C07_iso_from_wellformed : forall p v1 v2,
  inj_on p (vnodes v1) ->
  (forall x, In x (vnodes v2) <-> exists a, In a (vnodes v1) /\ x = p a) ->
  (forall a, In a (vnodes v1) ->
     Permutation (map (entry_via p) (out_edges v1 a)) (map entry (out_edges v2 (p a)))) ->
  (Reach.VOk v1 \/ BOk v1) -> (Reach.VOk v2 \/ BOk v2) -> view_iso p v1 v2.
Proof. exact (fun p v1 v2 Hi Hn Ho W1 W2 =>
         view_iso_intro Hi Hn Ho
           (match W1 with or_introl V => closed_of_VOk V | or_intror B => closed_of_BOk B end)
           (match W2 with or_introl V => closed_of_VOk V | or_intror B => closed_of_BOk B end)). Qed.

(* the edge relation, with weights: every out-entry has a counterpart with the same weight;
   steps correspond *)
Theorem C07_step_corresponds : forall p v1 v2, view_iso p v1 v2 ->
  (forall a e, In e (out_edges v1 a) ->
     exists e', In e' (out_edges v2 (p a)) /\ tgt e' = p (tgt e) /\ ewgt e' = ewgt e) /\
  (forall a e', In a (vnodes v1) -> In e' (out_edges v2 (p a)) ->
     exists e, In e (out_edges v1 a) /\ tgt e' = p (tgt e) /\ ewgt e' = ewgt e) /\
  (forall a, In a (vnodes v1) -> length (out_edges v1 a) = length (out_edges v2 (p a))) /\
  (forall a b, In a (vnodes v1) -> In b (vnodes v1) -> (step v1 a b <-> step v2 (p a) (p b))).
Proof. exact (fun p v1 v2 H => conj (fun a e He => iso_entry_fwd H He)
         (conj (fun a e' Ha He => iso_entry_bwd H Ha He)
         (conj (fun a Ha => iso_outdeg H Ha) (fun a b Ha Hb => step_iso H Ha Hb)))). Qed.

(* reachability (both vocabularies: Spec.Reach and Spec.Paths) and hop distance *)
Theorem C07_reachable_corresponds : forall p v1 v2 a b, view_iso p v1 v2 -> In a (vnodes v1) -> In b (vnodes v1) ->
  (Reach.reachable v1 a b <-> Reach.reachable v2 (p a) (p b)) /\
  (Paths.reachable v1 a b <-> Paths.reachable v2 (p a) (p b)) /\
  (forall k, hopdist v1 a b k <-> hopdist v2 (p a) (p b) k).
Proof. exact (fun p v1 v2 a b H Ha Hb => conj (reachable_iso H Ha Hb)
         (conj (preachable_iso H Ha Hb) (fun k => hopdist_iso k H Ha Hb))). Qed.

(* walks and their costs (and lengths) *)
Theorem C07_walks_correspond : forall p v1 v2, view_iso p v1 v2 ->
  (forall a c b, walk v1 a c b ->
     exists c', walk v2 (p a) c' (p b) /\ walk_cost c' = walk_cost c /\ length c' = length c) /\
  (forall a c' b, In a (vnodes v1) -> In b (vnodes v1) -> walk v2 (p a) c' (p b) ->
     exists c, walk v1 a c b /\ walk_cost c = walk_cost c' /\ length c = length c').
Proof. exact (fun p v1 v2 H => conj (fun a c b W => walk_iso_fwd H W)
         (fun a c' b Ha Hb W => walk_iso_bwd H Ha Hb W)). Qed.

(* shortest-path distances, reachable negative cycles, non-negativity of the costs *)
Theorem C07_is_dist_corresponds : forall p v1 v2, view_iso p v1 v2 ->
  (forall s x d, In s (vnodes v1) -> In x (vnodes v1) ->
     (is_dist v1 s x d <-> is_dist v2 (p s) (p x) d)) /\
  (forall s, In s (vnodes v1) -> (neg_cycle_reachable v1 s <-> neg_cycle_reachable v2 (p s))) /\
  (nonneg v1 <-> nonneg v2).
Proof. exact (fun p v1 v2 H => conj (fun s x d Hs Hx => is_dist_iso d H Hs Hx)
         (conj (fun s Hs => neg_cycle_iso H Hs) (nonneg_iso H))). Qed.

(* cycles *)
Theorem C07_cycles_correspond : forall p v1 v2, view_iso p v1 v2 ->
  (acyclic v1 <-> acyclic v2) /\
  (forall c, In c (vnodes v1) -> (on_cycle v1 c <-> on_cycle v2 (p c))) /\
  ((exists n, In n (vnodes v1) /\ on_cycle v1 n) <-> (exists n, In n (vnodes v2) /\ on_cycle v2 n)).
Proof. exact (fun p v1 v2 H => conj (acyclic_iso H) (conj (fun c Hc => on_cycle_iso H Hc) (some_cycle_iso H))). Qed.

(* mutual reachability and two-colourability of what a node reaches *)
Theorem C07_mutual_two_colourable_correspond : forall p v1 v2, view_iso p v1 v2 ->
  (forall a b, In a (vnodes v1) -> In b (vnodes v1) -> (mutual v1 a b <-> mutual v2 (p a) (p b))) /\
  (forall s, In s (vnodes v1) -> (two_colourable v1 s <-> two_colourable v2 (p s))).
Proof. exact (fun p v1 v2 H => conj (fun a b Ha Hb => mutual_iso H Ha Hb) (fun s Hs => two_colourable_iso H Hs)). Qed.

(* spanning forests (edge_references read up to orientation): a spanning forest of one view
   gives a spanning forest of the other of the same weight and size; the correspondence of
   edge_references is symmetric too *)
Theorem C07_spanning_forests_correspond : forall p v1 v2, nodes_iso p v1 v2 -> MOk v1 -> view_iso_erefs_u p v1 v2 ->
  (forall F, spanning_forest v1 F ->
     exists F', spanning_forest v2 F' /\ weight F' = weight F /\ length F' = length F) /\
  nodes_iso (inv_on p (vnodes v1)) v2 v1 /\ view_iso_erefs_u (inv_on p (vnodes v1)) v2 v1.
Proof. exact (fun p v1 v2 Hn M HP =>
         conj (fun F SF => spanning_forest_transfer Hn (MOk_ends_in_nodes M) HP SF)
         (conj (nodes_iso_sym Hn) (erefs_iso_u_sym Hn (MOk_ends_in_nodes M) HP))). Qed.

(* view_iso gives nodes_iso, and an oriented correspondence of edge_references an unoriented one *)
Theorem C07_erefs_oriented_is_unoriented : forall p v1 v2,
  (view_iso p v1 v2 -> nodes_iso p v1 v2) /\ (view_iso_erefs p v1 v2 -> view_iso_erefs_u p v1 v2).
Proof. exact (fun p v1 v2 => conj (@view_iso_nodes_iso p v1 v2) (@erefs_iso_unord p v1 v2)). Qed.

(* why view_iso asks the targets of v1 to be nodes: p is constrained on nodes only.  Two views,
   related by everything else in view_iso, the first acyclic, the second with a self-loop. *)
Theorem C07_closed_targets_needed : let p := fun _ : nat => 0 in
  inj_on p (vnodes cx1) /\
  (forall x, In x (vnodes cx2) <-> exists a, In a (vnodes cx1) /\ x = p a) /\
  (forall a, In a (vnodes cx1) ->
     Permutation (map (entry_via p) (out_edges cx1 a)) (map entry (out_edges cx2 (p a)))) /\
  (forall a, ~ In a (vnodes cx1) -> out_edges cx1 a = []) /\
  (forall x, ~ In x (vnodes cx2) -> out_edges cx2 x = []) /\
  acyclic cx1 /\ ~ acyclic cx2.
Proof. exact (iso_needs_closed_targets). Qed.

(* ---- I2: unique answers are equal ---- *)
(* has_path_connecting *)
Theorem C07_has_path : forall p v1 v2 a b, view_iso p v1 v2 -> Reach.VOk v1 -> Reach.VOk v2 ->
  In a (vnodes v1) -> In b (vnodes v1) ->
  has_path_connecting v1 a b = has_path_connecting v2 (p a) (p b) /\
  exists r, has_path_connecting v1 a b = Ok r.
Proof. exact (@has_path_iso). Qed.

(* is_cyclic_directed, whatever the two debug flags *)
Theorem C07_is_cyclic_directed : forall p v1 v2 dbg1 dbg2, view_iso p v1 v2 -> Reach.VOk v1 -> Reach.VOk v2 ->
  is_cyclic_directed v1 dbg1 = is_cyclic_directed v2 dbg2 /\
  exists r, is_cyclic_directed v1 dbg1 = Ok r.
Proof. exact (@is_cyclic_directed_iso). Qed.

(* toposort: an order on both or a cycle on both (the order and the reported node may differ) *)
Theorem C07_toposort : forall p v1 v2, view_iso p v1 v2 -> Reach.VOk v1 -> Reach.VOk v2 ->
  ((exists l, toposort v1 = Ok (inr l)) <-> (exists l, toposort v2 = Ok (inr l))) /\
  ((exists n, toposort v1 = Ok (inl n)) <-> (exists n, toposort v2 = Ok (inl n))) /\
  (exists r, toposort v1 = Ok r) /\ (exists r, toposort v2 = Ok r).
Proof. exact (@toposort_iso). Qed.

(* is_bipartite_undirected *)
Theorem C07_bipartite : forall p v1 v2 s, view_iso p v1 v2 -> Reach.VOk v1 -> Reach.VOk v2 -> In s (vnodes v1) ->
  is_bipartite_undirected v1 s = is_bipartite_undirected v2 (p s) /\
  exists r, is_bipartite_undirected v1 s = Ok r.
Proof. exact (@is_bipartite_iso). Qed.

(* dijkstra, non-negative costs (asked of one view; it is a property of the abstract graph):
   both Ok, the same score at corresponding nodes, and no other entries *)
Theorem C07_dijkstra : forall p v1 v2 s, view_iso p v1 v2 ->
  Paths.VOk v1 -> Paths.VOk v2 -> nonneg v1 -> Paths.in_cap v1 s -> Paths.in_cap v2 (p s) ->
  In s (vnodes v1) ->
  exists m1 m2, dijkstra v1 s None = Ok m1 /\ dijkstra v2 (p s) None = Ok m2 /\
    (forall x, In x (vnodes v1) -> sget m1 x = sget m2 (p x)) /\
    (forall y d, sget m2 y = Some d -> exists x, In x (vnodes v1) /\ y = p x /\ sget m1 x = Some d) /\
    (forall x d, sget m1 x = Some d -> In x (vnodes v1)).
Proof. exact (@dijkstra_iso). Qed.

(* bellman_ford (Ok None models Err(NegativeCycle)): both Ok, a negative cycle on both or on
   neither, and then the same distance entry at corresponding nodes *)
Theorem C07_bellman_ford : forall p v1 v2 s, view_iso p v1 v2 -> BOk v1 -> BOk v2 -> In s (vnodes v1) ->
  exists r1 r2, bellman_ford v1 s = Ok r1 /\ bellman_ford v2 (p s) = Ok r2 /\
    (r1 = None <-> r2 = None) /\
    forall d1 q1 d2 q2, r1 = Some (d1, q1) -> r2 = Some (d2, q2) ->
      forall x, In x (vnodes v1) -> nth_error d1 x = nth_error d2 (p x).
Proof. exact (@bellman_ford_iso). Qed.

(* k_shortest_path with k = 1 *)
Theorem C07_ksp_k1 : forall p v1 v2 s, view_iso p v1 v2 ->
  Paths.VOk v1 -> Paths.VOk v2 -> nonneg v1 ->
  (forall a e, In e (out_edges v1 a) -> tgt e < vbound v1) ->
  (forall a e, In e (out_edges v2 a) -> tgt e < vbound v2) ->
  s < vbound v1 -> p s < vbound v2 -> In s (vnodes v1) ->
  exists m1 m2, k_shortest_path v1 (vbound v1) s None 1 = Ok m1 /\
                k_shortest_path v2 (vbound v2) (p s) None 1 = Ok m2 /\
    (forall x, In x (vnodes v1) -> sget m1 x = sget m2 (p x)) /\
    (forall y d, sget m2 y = Some d -> exists x, In x (vnodes v1) /\ y = p x /\ sget m1 x = Some d) /\
    (forall x d, sget m1 x = Some d -> In x (vnodes v1)).
Proof. exact (@ksp1_iso). Qed.

(* kosaraju_scc: every component of the first, mapped through p, is as a set a component of the
   second, and conversely; equally many components (classes_correspond, Spec/ViewIso.v) *)
Theorem C07_kosaraju : forall p v1 v2, view_iso p v1 v2 -> Reach.VOk v1 -> Reach.VOk v2 ->
  exists ls1 ls2, kosaraju_scc v1 = Ok ls1 /\ kosaraju_scc v2 = Ok ls2 /\
    classes_correspond p ls1 ls2.
Proof. exact (@kosaraju_iso). Qed.

(* ---- I3: non-unique answers are equally valid and equally optimal ---- *)
(* toposort: both orders are topological orders of their own view, over corresponding node sets *)
Theorem C07_toposort_valid : forall p v1 v2 l1 l2, view_iso p v1 v2 -> Reach.VOk v1 -> Reach.VOk v2 ->
  toposort v1 = Ok (inr l1) -> toposort v2 = Ok (inr l2) ->
  (NoDup l1 /\ (forall x, In x l1 <-> In x (vnodes v1)) /\
   (forall h u t w, l1 = h ++ u :: t -> step v1 u w -> In w t)) /\
  (NoDup l2 /\ (forall x, In x l2 <-> In x (vnodes v2)) /\
   (forall h u t w, l2 = h ++ u :: t -> step v2 u w -> In w t)) /\
  (forall y, In y l2 <-> In y (map p l1)) /\ length l1 = length l2.
Proof. exact (@toposort_both_valid). Qed.

(* min_spanning_tree: both outputs are minimum spanning forests (C12), so the total weights are
   equal and so are the numbers of edges.  Only the nodes and edge_references are read;
   edge_references correspond up to orientation. *)
Theorem C07_kruskal : forall p v1 v2, nodes_iso p v1 v2 -> MOk v1 -> MOk v2 -> view_iso_erefs_u p v1 v2 ->
  exists l1 l2, kruskal v1 = Ok l1 /\ kruskal v2 = Ok l2 /\
    weight l1 = weight l2 /\ length l1 = length l2.
Proof. exact (@kruskal_iso_u). Qed.

(* the same from view_iso and the oriented correspondence of edge_references *)
Theorem C07_kruskal_oriented : forall p v1 v2, view_iso p v1 v2 -> MOk v1 -> MOk v2 -> view_iso_erefs p v1 v2 ->
  exists l1 l2, kruskal v1 = Ok l1 /\ kruskal v2 = Ok l2 /\
    weight l1 = weight l2 /\ length l1 = length l2.
Proof. exact (@kruskal_iso). Qed.

(* tarjan_scc (C09 proves the partition only): both are partitions of the respective node sets,
   over corresponding nodes, with the same number of nodes *)
Theorem C07_tarjan : forall p v1 v2 dbg1 dbg2, view_iso p v1 v2 -> Reach.VOk v1 -> Reach.VOk v2 ->
  (forall n, In n (vnodes v1) -> n < vbound v1) -> (forall n, In n (vnodes v2) -> n < vbound v2) ->
  (N.of_nat (length (vnodes v1)) < USIZE_MAX)%N -> (N.of_nat (length (vnodes v2)) < USIZE_MAX)%N ->
  exists ls1 ls2, tarjan_scc v1 dbg1 = Ok ls1 /\ tarjan_scc v2 dbg2 = Ok ls2 /\
    (NoDup (concat ls1) /\ (forall x, In x (concat ls1) <-> In x (vnodes v1)) /\ Forall (fun c => c <> []) ls1) /\
    (NoDup (concat ls2) /\ (forall x, In x (concat ls2) <-> In x (vnodes v2)) /\ Forall (fun c => c <> []) ls2) /\
    (forall y, In y (concat ls2) <-> In y (map p (concat ls1))) /\
    length (concat ls1) = length (concat ls2).
Proof. exact (@tarjan_iso). Qed.

(* ---- I4: no panic on one encoding when another succeeds ---- *)
(* under the well-formedness of both views every algorithm returns Ok on both
   (never Panic, never OutOfFuel) *)
Theorem C07_no_panic_transfer : forall p v1 v2, view_iso p v1 v2 ->
  (Reach.VOk v1 -> Reach.VOk v2 ->
     (forall a b, In a (vnodes v1) ->
        exists r1 r2, has_path_connecting v1 a b = Ok r1 /\ has_path_connecting v2 (p a) (p b) = Ok r2) /\
     (exists r1 r2, toposort v1 = Ok r1 /\ toposort v2 = Ok r2) /\
     (forall d1 d2, exists r1 r2, is_cyclic_directed v1 d1 = Ok r1 /\ is_cyclic_directed v2 d2 = Ok r2) /\
     (forall s, In s (vnodes v1) ->
        exists r1 r2, is_bipartite_undirected v1 s = Ok r1 /\ is_bipartite_undirected v2 (p s) = Ok r2) /\
     (exists r1 r2, kosaraju_scc v1 = Ok r1 /\ kosaraju_scc v2 = Ok r2) /\
     ((forall n, In n (vnodes v1) -> n < vbound v1) -> (forall n, In n (vnodes v2) -> n < vbound v2) ->
      (N.of_nat (length (vnodes v1)) < USIZE_MAX)%N -> (N.of_nat (length (vnodes v2)) < USIZE_MAX)%N ->
      forall d1 d2, exists r1 r2, tarjan_scc v1 d1 = Ok r1 /\ tarjan_scc v2 d2 = Ok r2)) /\
  (Paths.VOk v1 -> Paths.VOk v2 -> nonneg v1 ->
     (forall s, In s (vnodes v1) -> Paths.in_cap v1 s -> Paths.in_cap v2 (p s) ->
        exists m1 m2, dijkstra v1 s None = Ok m1 /\ dijkstra v2 (p s) None = Ok m2) /\
     ((forall a e, In e (out_edges v1 a) -> tgt e < vbound v1) ->
      (forall a e, In e (out_edges v2 a) -> tgt e < vbound v2) ->
      forall s, In s (vnodes v1) -> s < vbound v1 -> p s < vbound v2 ->
        exists m1 m2, k_shortest_path v1 (vbound v1) s None 1 = Ok m1 /\
                      k_shortest_path v2 (vbound v2) (p s) None 1 = Ok m2)) /\
  (BOk v1 -> BOk v2 -> forall s, In s (vnodes v1) ->
     exists r1 r2, bellman_ford v1 s = Ok r1 /\ bellman_ford v2 (p s) = Ok r2) /\
  (MOk v1 -> MOk v2 -> exists l1 l2, kruskal v1 = Ok l1 /\ kruskal v2 = Ok l2).
Proof. exact (@no_panic_transfer). Qed.

(* ---- I5: vacancies and index width do not matter ---- *)
(* relabel p v (Spec/ViewIso.v) stores the same graph at the indices p a: node_bound is
   1 + the largest index used, the visit map has that length, unused indices are holes.
   It is isomorphic to v and inherits every well-formedness condition. *)
Theorem C07_relabel_iso : forall p v, inj_on p (vnodes v) ->
  (closed_view v -> view_iso p v (relabel p v)) /\
  view_iso_in p v (relabel p v) /\ view_iso_erefs p v (relabel p v) /\
  (Reach.VOk v -> Reach.VOk (relabel p v)) /\
  (closed_view v -> Paths.VOk (relabel p v)) /\
  (BOk v -> BOk (relabel p v)) /\
  (MOk v -> MOk (relabel p v)) /\
  (forall n, In n (vnodes (relabel p v)) -> n < vbound (relabel p v)) /\
  length (vnodes (relabel p v)) = length (vnodes v) /\
  (closed_view v -> forall a e, In e (out_edges (relabel p v) a) -> tgt e < vbound (relabel p v)).
Proof. exact (fun p v Hi => conj (view_iso_relabel Hi)
         (conj (view_iso_in_relabel Hi) (conj (view_iso_erefs_relabel p v)
         (conj (relabel_VOk Hi) (conj (relabel_PVOk Hi) (conj (relabel_BOk Hi) (conj (relabel_MOk Hi)
         (conj (relabel_nodes_below (p:=p) (v:=v)) (conj (relabel_node_count p v) (relabel_targets_below Hi)))))))))). Qed.

(* hence I2-I4 between a view and any renumbering of it, from hypotheses on the view alone *)
Theorem C07_relabel_invariance : forall p v, inj_on p (vnodes v) ->
  (Reach.VOk v ->
     view_iso p v (relabel p v) /\ Reach.VOk (relabel p v) /\
     (forall a b, In a (vnodes v) -> In b (vnodes v) ->
        has_path_connecting v a b = has_path_connecting (relabel p v) (p a) (p b)) /\
     (forall d1 d2, is_cyclic_directed v d1 = is_cyclic_directed (relabel p v) d2) /\
     ((exists l, toposort v = Ok (inr l)) <-> (exists l, toposort (relabel p v) = Ok (inr l))) /\
     (forall s, In s (vnodes v) ->
        is_bipartite_undirected v s = is_bipartite_undirected (relabel p v) (p s)) /\
     (exists ls1 ls2, kosaraju_scc v = Ok ls1 /\ kosaraju_scc (relabel p v) = Ok ls2 /\
                      classes_correspond p ls1 ls2)) /\
  (closed_view v -> Paths.VOk v -> nonneg v -> forall s, In s (vnodes v) -> Paths.in_cap v s ->
     exists m1 m2, dijkstra v s None = Ok m1 /\ dijkstra (relabel p v) (p s) None = Ok m2 /\
       forall x, In x (vnodes v) -> sget m1 x = sget m2 (p x)) /\
  (BOk v -> forall s, In s (vnodes v) ->
     exists r1 r2, bellman_ford v s = Ok r1 /\ bellman_ford (relabel p v) (p s) = Ok r2 /\
       (r1 = None <-> r2 = None) /\
       forall d1 q1 d2 q2, r1 = Some (d1, q1) -> r2 = Some (d2, q2) ->
         forall x, In x (vnodes v) -> nth_error d1 x = nth_error d2 (p x)) /\
  (MOk v -> exists l1 l2, kruskal v = Ok l1 /\ kruskal (relabel p v) = Ok l2 /\
     weight l1 = weight l2 /\ length l1 = length l2).
Proof. exact (@relabel_invariance). Qed.

(* the boolean checks of view_iso and of the edge_references correspondences are sound *)
Theorem C07_iso_checker_sound : forall p v1 v2,
  (view_iso_b p v1 v2 = true -> view_iso p v1 v2) /\
  (view_iso_erefs_b p v1 v2 = true -> view_iso_erefs p v1 v2) /\
  (view_iso_erefs_u_b p v1 v2 = true -> view_iso_erefs_u p v1 v2).
Proof. exact (fun p v1 v2 => conj (@view_iso_b_ok p v1 v2) (conj (@view_iso_erefs_b_ok p v1 v2) (@view_iso_erefs_u_b_ok p v1 v2))). Qed.

(* ---- the boundary of the claim ---- *)
(* connected_components counts classes among 0 .. node_bound-1, so it is an invariant of the
   abstract graph between compact encodings only (petgraph asks for NodeCompactIndexable);
   C07_connected_components_counts_holes below shows what happens otherwise *)
Theorem C07_connected_components_compact : forall p v1 v2, nodes_iso p v1 v2 ->
  compact_view v1 -> compact_view v2 -> erefs_ok v1 -> erefs_ok v2 -> view_iso_erefs_u p v1 v2 ->
  connected_components v1 = connected_components v2 /\ exists n, connected_components v1 = Ok n.
Proof. exact (@connected_components_iso). Qed.

(* ------------------------------------------------------------------ *)
(* Non-vacuity.  A 5-node weighted directed view (a 3-cycle 0 -> 1 -> 2 -> 0, a tail
   2 -> 3 -> 4 and a costly shortcut 0 -> 3), compact; its renumbering to the indices
   {1, 3, 4, 7, 9} (node_bound 10, five holes); and a third, hand-written encoding of the
   same graph at those indices: other node order, other entry order, other edge ids, a hash
   set for a visit map (vcap = None), node_bound 12.                      *)

Definition C07_ex : view :=
  mkView true 5 (Some 5) [0;1;2;3;4]
    [(0, [(0,1,2%Z); (5,3,10%Z)]); (1, [(1,2,3%Z)]); (2, [(2,0,1%Z); (3,3,4%Z)]); (3, [(4,4,1%Z)]); (4, [])]
    [(0, [(2,2,1%Z)]); (1, [(0,0,2%Z)]); (2, [(1,1,3%Z)]); (3, [(3,2,4%Z); (5,0,10%Z)]); (4, [(4,3,1%Z)])]
    6 6 [(0,0,1,2%Z); (1,1,2,3%Z); (2,2,0,1%Z); (3,2,3,4%Z); (4,3,4,1%Z); (5,0,3,10%Z)].

Definition C07_p (x : nat) : nat := nth x [1;3;4;7;9] 0.

Definition C07_ex_sparse : view := relabel C07_p C07_ex.

Definition C07_ex_other : view :=
  mkView true 12 None [7;1;9;4;3]
    [(7, [(10,9,1%Z)]); (1, [(11,7,10%Z); (12,3,2%Z)]); (9, []); (4, [(13,7,4%Z); (14,1,1%Z)]); (3, [(15,4,3%Z)])]
    [(7, [(11,1,10%Z); (13,4,4%Z)]); (1, [(14,4,1%Z)]); (9, [(10,7,1%Z)]); (4, [(15,3,3%Z)]); (3, [(12,1,2%Z)])]
    6 16 [(10,7,9,1%Z); (11,1,7,10%Z); (12,1,3,2%Z); (13,4,7,4%Z); (14,4,1,1%Z); (15,3,4,3%Z)].

(* the renumbering is what it should be *)
Example C07_ex_sparse_is :
  C07_ex_sparse =
  mkView true 10 (Some 10) [1;3;4;7;9]
    [(1, [(0,3,2%Z); (5,7,10%Z)]); (3, [(1,4,3%Z)]); (4, [(2,1,1%Z); (3,7,4%Z)]); (7, [(4,9,1%Z)]); (9, [])]
    [(1, [(2,4,1%Z)]); (3, [(0,1,2%Z)]); (4, [(1,3,3%Z)]); (7, [(3,4,4%Z); (5,1,10%Z)]); (9, [(4,7,1%Z)])]
    6 6 [(0,1,3,2%Z); (1,3,4,3%Z); (2,4,1,1%Z); (3,4,7,4%Z); (4,7,9,1%Z); (5,1,7,10%Z)].
Proof. vm_compute. reflexivity. Qed.

(* the three views are well-formed and pairwise related *)
Example C07_ex_ok :
  inj_on C07_p (vnodes C07_ex) /\
  view_iso C07_p C07_ex C07_ex_sparse /\ view_iso C07_p C07_ex C07_ex_other /\
  view_iso_erefs C07_p C07_ex C07_ex_other /\
  Reach.VOk C07_ex /\ Reach.VOk C07_ex_sparse /\ Reach.VOk C07_ex_other /\
  Paths.VOk C07_ex /\ Paths.VOk C07_ex_sparse /\ Paths.VOk C07_ex_other /\ nonneg C07_ex /\
  BOk C07_ex /\ BOk C07_ex_sparse /\ BOk C07_ex_other /\
  MOk C07_ex /\ MOk C07_ex_sparse /\ MOk C07_ex_other.
Proof.
  assert (H1 : view_iso C07_p C07_ex C07_ex_sparse) by (apply view_iso_b_ok; vm_compute; reflexivity).
  split; [exact (iso_inj H1)|]. split; [exact H1|].
  split; [apply view_iso_b_ok; vm_compute; reflexivity|].
  split; [apply view_iso_erefs_b_ok; vm_compute; reflexivity|].
  split; [apply vok_check_ok; vm_compute; reflexivity|].
  split; [apply vok_check_ok; vm_compute; reflexivity|].
  split; [apply vok_check_ok; vm_compute; reflexivity|].
  split; [apply vok_b_ok; vm_compute; reflexivity|].
  split; [apply vok_b_ok; vm_compute; reflexivity|].
  split; [apply vok_b_ok; vm_compute; reflexivity|].
  split; [apply nonneg_b_ok; vm_compute; reflexivity|].
  split; [apply bok_b_ok; vm_compute; reflexivity|].
  split; [apply bok_b_ok; vm_compute; reflexivity|].
  split; [apply bok_b_ok; vm_compute; reflexivity|].
  split; [apply mok_b_sound; vm_compute; reflexivity|].
  split; apply mok_b_sound; vm_compute; reflexivity.
Qed.

(* the outcomes, computed: equal dijkstra maps modulo p, equal has_path, corresponding
   kosaraju and tarjan components, equal kruskal weight and size, equal bellman_ford
   distances at corresponding indices (None at the holes), a cycle reported by all *)
Example C07_ex_values :
  dijkstra C07_ex 0 None        = Ok [(0, 0%Z); (1, 2%Z); (3, 9%Z); (2, 5%Z); (4, 10%Z)] /\
  dijkstra C07_ex_sparse 1 None = Ok [(1, 0%Z); (3, 2%Z); (7, 9%Z); (4, 5%Z); (9, 10%Z)] /\
  rmap ssort (dijkstra C07_ex_other 1 None) = Ok [(1, 0%Z); (3, 2%Z); (4, 5%Z); (7, 9%Z); (9, 10%Z)] /\
  k_shortest_path C07_ex 5 0 None 1         = Ok [(0, 0%Z); (1, 2%Z); (2, 5%Z); (3, 9%Z); (4, 10%Z)] /\
  k_shortest_path C07_ex_sparse 10 1 None 1 = Ok [(1, 0%Z); (3, 2%Z); (4, 5%Z); (7, 9%Z); (9, 10%Z)] /\
  has_path_connecting C07_ex 3 0 = Ok false /\ has_path_connecting C07_ex_sparse 7 1 = Ok false /\
  has_path_connecting C07_ex_other 7 1 = Ok false /\
  has_path_connecting C07_ex 0 4 = Ok true /\ has_path_connecting C07_ex_sparse 1 9 = Ok true /\
  has_path_connecting C07_ex_other 1 9 = Ok true /\
  kosaraju_scc C07_ex = Ok [[4]; [3]; [0; 1; 2]] /\
  kosaraju_scc C07_ex_sparse = Ok [[9]; [7]; [1; 3; 4]] /\
  (exists ls, kosaraju_scc C07_ex_other = Ok ls /\ classes_correspond C07_p [[4]; [3]; [0; 1; 2]] ls) /\
  tarjan_scc C07_ex true = Ok [[4]; [3]; [2; 1; 0]] /\
  tarjan_scc C07_ex_sparse true = Ok [[9]; [7]; [4; 3; 1]] /\
  rmap weight (kruskal C07_ex) = Ok 8%Z /\ rmap weight (kruskal C07_ex_sparse) = Ok 8%Z /\
  rmap weight (kruskal C07_ex_other) = Ok 8%Z /\
  rmap (@length _) (kruskal C07_ex) = Ok 4 /\ rmap (@length _) (kruskal C07_ex_other) = Ok 4 /\
  rmap (option_map fst) (bellman_ford C07_ex 0) =
    Ok (Some [Some 0%Z; Some 2%Z; Some 5%Z; Some 9%Z; Some 10%Z]) /\
  rmap (option_map fst) (bellman_ford C07_ex_sparse 1) =
    Ok (Some [None; Some 0%Z; None; Some 2%Z; Some 5%Z; None; None; Some 9%Z; None; Some 10%Z]) /\
  rmap (option_map fst) (bellman_ford C07_ex_other 1) =
    Ok (Some [None; Some 0%Z; None; Some 2%Z; Some 5%Z; None; None; Some 9%Z; None; Some 10%Z; None; None]) /\
  is_cyclic_directed C07_ex true = Ok true /\ is_cyclic_directed C07_ex_sparse false = Ok true /\
  is_cyclic_directed C07_ex_other true = Ok true /\
  (exists n1 n2 n3, toposort C07_ex = Ok (inl n1) /\ toposort C07_ex_sparse = Ok (inl n2) /\
                    toposort C07_ex_other = Ok (inl n3)) /\
  is_bipartite_undirected C07_ex 0 = Ok false /\ is_bipartite_undirected C07_ex_sparse 1 = Ok false /\
  is_bipartite_undirected C07_ex_other 1 = Ok false.
Proof.
  repeat match goal with |- _ /\ _ => split end; try (vm_compute; reflexivity).
  - destruct C07_ex_ok as [_ [_ [H [_ [V1 [_ [V3 _]]]]]]].
    destruct (kosaraju_iso H V1 V3) as [ls1 [ls2 [E1 [E2 C]]]].
    vm_compute in E1. injection E1 as <-. exists ls2. split; [exact E2|exact C].
  - eexists _, _, _. vm_compute. repeat split; reflexivity.
Qed.

(* the theorems applied: facts about the hand-written encoding obtained from a run on the
   compact one, without running anything on the former *)
Example C07_ex_applied :
  (exists m, dijkstra C07_ex_other 1 None = Ok m /\ sget m 7 = Some 9%Z /\ sget m 9 = Some 10%Z /\
             forall y d, sget m y = Some d -> In y [1; 3; 4; 7; 9]) /\
  has_path_connecting C07_ex_other 7 1 = Ok false /\
  (exists l, kruskal C07_ex_other = Ok l /\ weight l = 8%Z /\ length l = 4).
Proof.
  destruct C07_ex_ok as [_ [_ [H [HE [V1 [_ [V3 [P1 [_ [P3 [N1 [_ [_ [_ [M1 [_ M3]]]]]]]]]]]]]]]].
  split; [|split].
  - assert (C1 : Paths.in_cap C07_ex 0) by (vm_compute; lia).
    assert (C3 : Paths.in_cap C07_ex_other (C07_p 0)) by exact I.
    assert (Hs : In 0 (vnodes C07_ex)) by (left; reflexivity).
    destruct (dijkstra_iso H P1 P3 N1 C1 C3 Hs) as [m1 [m2 [E1 [E2 [A [B _]]]]]].
    vm_compute in E1. injection E1 as <-. exists m2. split; [exact E2|].
    assert (H3 : In 3 (vnodes C07_ex)) by (cbn; tauto).
    assert (H4 : In 4 (vnodes C07_ex)) by (cbn; tauto).
    split; [exact (eq_sym (A 3 H3))|]. split; [exact (eq_sym (A 4 H4))|].
    intros y d Hy. destruct (B y d Hy) as [x [Hx [-> _]]].
    cbn [C07_ex vnodes In] in Hx.
    repeat (destruct Hx as [<-|Hx]; [vm_compute; tauto|]). destruct Hx.
  - assert (Ha : In 3 (vnodes C07_ex)) by (cbn; tauto).
    assert (Hb : In 0 (vnodes C07_ex)) by (cbn; tauto).
    destruct (has_path_iso H V1 V3 Ha Hb) as [E _].
    change (has_path_connecting C07_ex_other (C07_p 3) (C07_p 0)) with (has_path_connecting C07_ex_other 7 1) in E.
    rewrite <- E. vm_compute. reflexivity.
  - destruct (kruskal_iso H M1 M3 HE) as [l1 [l2 [E1 [E2 [W L]]]]].
    vm_compute in E1. injection E1 as <-. exists l2. split; [exact E2|].
    split; [rewrite <- W; reflexivity|rewrite <- L; reflexivity].
Qed.

(* connected_components is not an invariant of the abstract graph when indices are vacant: every
   hole below node_bound is counted as a component of its own (1, 1 + 5 holes, 1 + 7 holes); on
   a compact renumbering the count is the same *)
Definition C07_q (x : nat) : nat := nth x [4;2;0;1;3] 0.

Example C07_connected_components_counts_holes :
  connected_components C07_ex = Ok 1 /\ connected_components C07_ex_sparse = Ok 6 /\
  connected_components C07_ex_other = Ok 8 /\
  connected_components (relabel C07_q C07_ex) = Ok 1 /\
  compact_view C07_ex /\ compact_view (relabel C07_q C07_ex) /\ ~ compact_view C07_ex_sparse.
Proof.
  split; [vm_compute; reflexivity|]. split; [vm_compute; reflexivity|].
  split; [vm_compute; reflexivity|]. split; [vm_compute; reflexivity|].
  split; [|split].
  - intros x. cbn [C07_ex vnodes vbound In]. lia.
  - intros x. change (vnodes (relabel C07_q C07_ex)) with [4;2;0;1;3].
    change (vbound (relabel C07_q C07_ex)) with 5. cbn [In]. lia.
  - intros K. assert (H : In 0 (vnodes C07_ex_sparse)) by (apply K; vm_compute; lia).
    vm_compute in H. intuition discriminate.
Qed.

(* ------------------------------------------------------------------ *)

Check C07_iso_symmetric : forall p v1 v2, view_iso p v1 v2 ->
  view_iso (inv_on p (vnodes v1)) v2 v1 /\
  (forall a, In a (vnodes v1) -> inv_on p (vnodes v1) (p a) = a) /\
  (forall x, In x (vnodes v2) -> In (inv_on p (vnodes v1) x) (vnodes v1) /\ p (inv_on p (vnodes v1) x) = x).

Check C07_iso_from_wellformed : forall p v1 v2,
  inj_on p (vnodes v1) ->
  (forall x, In x (vnodes v2) <-> exists a, In a (vnodes v1) /\ x = p a) ->
  (forall a, In a (vnodes v1) ->
     Permutation (map (entry_via p) (out_edges v1 a)) (map entry (out_edges v2 (p a)))) ->
  (Reach.VOk v1 \/ BOk v1) -> (Reach.VOk v2 \/ BOk v2) -> view_iso p v1 v2.

Check C07_step_corresponds : forall p v1 v2, view_iso p v1 v2 ->
  (forall a e, In e (out_edges v1 a) ->
     exists e', In e' (out_edges v2 (p a)) /\ tgt e' = p (tgt e) /\ ewgt e' = ewgt e) /\
  (forall a e', In a (vnodes v1) -> In e' (out_edges v2 (p a)) ->
     exists e, In e (out_edges v1 a) /\ tgt e' = p (tgt e) /\ ewgt e' = ewgt e) /\
  (forall a, In a (vnodes v1) -> length (out_edges v1 a) = length (out_edges v2 (p a))) /\
  (forall a b, In a (vnodes v1) -> In b (vnodes v1) -> (step v1 a b <-> step v2 (p a) (p b))).

Check C07_reachable_corresponds : forall p v1 v2 a b, view_iso p v1 v2 -> In a (vnodes v1) -> In b (vnodes v1) ->
  (Reach.reachable v1 a b <-> Reach.reachable v2 (p a) (p b)) /\
  (Paths.reachable v1 a b <-> Paths.reachable v2 (p a) (p b)) /\
  (forall k, hopdist v1 a b k <-> hopdist v2 (p a) (p b) k).

Check C07_walks_correspond : forall p v1 v2, view_iso p v1 v2 ->
  (forall a c b, walk v1 a c b ->
     exists c', walk v2 (p a) c' (p b) /\ walk_cost c' = walk_cost c /\ length c' = length c) /\
  (forall a c' b, In a (vnodes v1) -> In b (vnodes v1) -> walk v2 (p a) c' (p b) ->
     exists c, walk v1 a c b /\ walk_cost c = walk_cost c' /\ length c = length c').

Check C07_is_dist_corresponds : forall p v1 v2, view_iso p v1 v2 ->
  (forall s x d, In s (vnodes v1) -> In x (vnodes v1) ->
     (is_dist v1 s x d <-> is_dist v2 (p s) (p x) d)) /\
  (forall s, In s (vnodes v1) -> (neg_cycle_reachable v1 s <-> neg_cycle_reachable v2 (p s))) /\
  (nonneg v1 <-> nonneg v2).

Check C07_cycles_correspond : forall p v1 v2, view_iso p v1 v2 ->
  (acyclic v1 <-> acyclic v2) /\
  (forall c, In c (vnodes v1) -> (on_cycle v1 c <-> on_cycle v2 (p c))) /\
  ((exists n, In n (vnodes v1) /\ on_cycle v1 n) <-> (exists n, In n (vnodes v2) /\ on_cycle v2 n)).

Check C07_mutual_two_colourable_correspond : forall p v1 v2, view_iso p v1 v2 ->
  (forall a b, In a (vnodes v1) -> In b (vnodes v1) -> (mutual v1 a b <-> mutual v2 (p a) (p b))) /\
  (forall s, In s (vnodes v1) -> (two_colourable v1 s <-> two_colourable v2 (p s))).

Check C07_spanning_forests_correspond : forall p v1 v2, nodes_iso p v1 v2 -> MOk v1 -> view_iso_erefs_u p v1 v2 ->
  (forall F, spanning_forest v1 F ->
     exists F', spanning_forest v2 F' /\ weight F' = weight F /\ length F' = length F) /\
  nodes_iso (inv_on p (vnodes v1)) v2 v1 /\ view_iso_erefs_u (inv_on p (vnodes v1)) v2 v1.

Check C07_erefs_oriented_is_unoriented : forall p v1 v2,
  (view_iso p v1 v2 -> nodes_iso p v1 v2) /\ (view_iso_erefs p v1 v2 -> view_iso_erefs_u p v1 v2).

Check C07_closed_targets_needed : let p := fun _ : nat => 0 in
  inj_on p (vnodes cx1) /\
  (forall x, In x (vnodes cx2) <-> exists a, In a (vnodes cx1) /\ x = p a) /\
  (forall a, In a (vnodes cx1) ->
     Permutation (map (entry_via p) (out_edges cx1 a)) (map entry (out_edges cx2 (p a)))) /\
  (forall a, ~ In a (vnodes cx1) -> out_edges cx1 a = []) /\
  (forall x, ~ In x (vnodes cx2) -> out_edges cx2 x = []) /\
  acyclic cx1 /\ ~ acyclic cx2.

Check C07_has_path : forall p v1 v2 a b, view_iso p v1 v2 -> Reach.VOk v1 -> Reach.VOk v2 ->
  In a (vnodes v1) -> In b (vnodes v1) ->
  has_path_connecting v1 a b = has_path_connecting v2 (p a) (p b) /\
  exists r, has_path_connecting v1 a b = Ok r.

Check C07_is_cyclic_directed : forall p v1 v2 dbg1 dbg2, view_iso p v1 v2 -> Reach.VOk v1 -> Reach.VOk v2 ->
  is_cyclic_directed v1 dbg1 = is_cyclic_directed v2 dbg2 /\
  exists r, is_cyclic_directed v1 dbg1 = Ok r.

Check C07_toposort : forall p v1 v2, view_iso p v1 v2 -> Reach.VOk v1 -> Reach.VOk v2 ->
  ((exists l, toposort v1 = Ok (inr l)) <-> (exists l, toposort v2 = Ok (inr l))) /\
  ((exists n, toposort v1 = Ok (inl n)) <-> (exists n, toposort v2 = Ok (inl n))) /\
  (exists r, toposort v1 = Ok r) /\ (exists r, toposort v2 = Ok r).

Check C07_bipartite : forall p v1 v2 s, view_iso p v1 v2 -> Reach.VOk v1 -> Reach.VOk v2 -> In s (vnodes v1) ->
  is_bipartite_undirected v1 s = is_bipartite_undirected v2 (p s) /\
  exists r, is_bipartite_undirected v1 s = Ok r.

Check C07_dijkstra : forall p v1 v2 s, view_iso p v1 v2 ->
  Paths.VOk v1 -> Paths.VOk v2 -> nonneg v1 -> Paths.in_cap v1 s -> Paths.in_cap v2 (p s) ->
  In s (vnodes v1) ->
  exists m1 m2, dijkstra v1 s None = Ok m1 /\ dijkstra v2 (p s) None = Ok m2 /\
    (forall x, In x (vnodes v1) -> sget m1 x = sget m2 (p x)) /\
    (forall y d, sget m2 y = Some d -> exists x, In x (vnodes v1) /\ y = p x /\ sget m1 x = Some d) /\
    (forall x d, sget m1 x = Some d -> In x (vnodes v1)).

Check C07_bellman_ford : forall p v1 v2 s, view_iso p v1 v2 -> BOk v1 -> BOk v2 -> In s (vnodes v1) ->
  exists r1 r2, bellman_ford v1 s = Ok r1 /\ bellman_ford v2 (p s) = Ok r2 /\
    (r1 = None <-> r2 = None) /\
    forall d1 q1 d2 q2, r1 = Some (d1, q1) -> r2 = Some (d2, q2) ->
      forall x, In x (vnodes v1) -> nth_error d1 x = nth_error d2 (p x).

Check C07_ksp_k1 : forall p v1 v2 s, view_iso p v1 v2 ->
  Paths.VOk v1 -> Paths.VOk v2 -> nonneg v1 ->
  (forall a e, In e (out_edges v1 a) -> tgt e < vbound v1) ->
  (forall a e, In e (out_edges v2 a) -> tgt e < vbound v2) ->
  s < vbound v1 -> p s < vbound v2 -> In s (vnodes v1) ->
  exists m1 m2, k_shortest_path v1 (vbound v1) s None 1 = Ok m1 /\
                k_shortest_path v2 (vbound v2) (p s) None 1 = Ok m2 /\
    (forall x, In x (vnodes v1) -> sget m1 x = sget m2 (p x)) /\
    (forall y d, sget m2 y = Some d -> exists x, In x (vnodes v1) /\ y = p x /\ sget m1 x = Some d) /\
    (forall x d, sget m1 x = Some d -> In x (vnodes v1)).

Check C07_kosaraju : forall p v1 v2, view_iso p v1 v2 -> Reach.VOk v1 -> Reach.VOk v2 ->
  exists ls1 ls2, kosaraju_scc v1 = Ok ls1 /\ kosaraju_scc v2 = Ok ls2 /\
    classes_correspond p ls1 ls2.

Check C07_toposort_valid : forall p v1 v2 l1 l2, view_iso p v1 v2 -> Reach.VOk v1 -> Reach.VOk v2 ->
  toposort v1 = Ok (inr l1) -> toposort v2 = Ok (inr l2) ->
  (NoDup l1 /\ (forall x, In x l1 <-> In x (vnodes v1)) /\
   (forall h u t w, l1 = h ++ u :: t -> step v1 u w -> In w t)) /\
  (NoDup l2 /\ (forall x, In x l2 <-> In x (vnodes v2)) /\
   (forall h u t w, l2 = h ++ u :: t -> step v2 u w -> In w t)) /\
  (forall y, In y l2 <-> In y (map p l1)) /\ length l1 = length l2.

Check C07_kruskal : forall p v1 v2, nodes_iso p v1 v2 -> MOk v1 -> MOk v2 -> view_iso_erefs_u p v1 v2 ->
  exists l1 l2, kruskal v1 = Ok l1 /\ kruskal v2 = Ok l2 /\
    weight l1 = weight l2 /\ length l1 = length l2.

Check C07_kruskal_oriented : forall p v1 v2, view_iso p v1 v2 -> MOk v1 -> MOk v2 -> view_iso_erefs p v1 v2 ->
  exists l1 l2, kruskal v1 = Ok l1 /\ kruskal v2 = Ok l2 /\
    weight l1 = weight l2 /\ length l1 = length l2.

Check C07_tarjan : forall p v1 v2 dbg1 dbg2, view_iso p v1 v2 -> Reach.VOk v1 -> Reach.VOk v2 ->
  (forall n, In n (vnodes v1) -> n < vbound v1) -> (forall n, In n (vnodes v2) -> n < vbound v2) ->
  (N.of_nat (length (vnodes v1)) < USIZE_MAX)%N -> (N.of_nat (length (vnodes v2)) < USIZE_MAX)%N ->
  exists ls1 ls2, tarjan_scc v1 dbg1 = Ok ls1 /\ tarjan_scc v2 dbg2 = Ok ls2 /\
    (NoDup (concat ls1) /\ (forall x, In x (concat ls1) <-> In x (vnodes v1)) /\ Forall (fun c => c <> []) ls1) /\
    (NoDup (concat ls2) /\ (forall x, In x (concat ls2) <-> In x (vnodes v2)) /\ Forall (fun c => c <> []) ls2) /\
    (forall y, In y (concat ls2) <-> In y (map p (concat ls1))) /\
    length (concat ls1) = length (concat ls2).

Check C07_no_panic_transfer : forall p v1 v2, view_iso p v1 v2 ->
  (Reach.VOk v1 -> Reach.VOk v2 ->
     (forall a b, In a (vnodes v1) ->
        exists r1 r2, has_path_connecting v1 a b = Ok r1 /\ has_path_connecting v2 (p a) (p b) = Ok r2) /\
     (exists r1 r2, toposort v1 = Ok r1 /\ toposort v2 = Ok r2) /\
     (forall d1 d2, exists r1 r2, is_cyclic_directed v1 d1 = Ok r1 /\ is_cyclic_directed v2 d2 = Ok r2) /\
     (forall s, In s (vnodes v1) ->
        exists r1 r2, is_bipartite_undirected v1 s = Ok r1 /\ is_bipartite_undirected v2 (p s) = Ok r2) /\
     (exists r1 r2, kosaraju_scc v1 = Ok r1 /\ kosaraju_scc v2 = Ok r2) /\
     ((forall n, In n (vnodes v1) -> n < vbound v1) -> (forall n, In n (vnodes v2) -> n < vbound v2) ->
      (N.of_nat (length (vnodes v1)) < USIZE_MAX)%N -> (N.of_nat (length (vnodes v2)) < USIZE_MAX)%N ->
      forall d1 d2, exists r1 r2, tarjan_scc v1 d1 = Ok r1 /\ tarjan_scc v2 d2 = Ok r2)) /\
  (Paths.VOk v1 -> Paths.VOk v2 -> nonneg v1 ->
     (forall s, In s (vnodes v1) -> Paths.in_cap v1 s -> Paths.in_cap v2 (p s) ->
        exists m1 m2, dijkstra v1 s None = Ok m1 /\ dijkstra v2 (p s) None = Ok m2) /\
     ((forall a e, In e (out_edges v1 a) -> tgt e < vbound v1) ->
      (forall a e, In e (out_edges v2 a) -> tgt e < vbound v2) ->
      forall s, In s (vnodes v1) -> s < vbound v1 -> p s < vbound v2 ->
        exists m1 m2, k_shortest_path v1 (vbound v1) s None 1 = Ok m1 /\
                      k_shortest_path v2 (vbound v2) (p s) None 1 = Ok m2)) /\
  (BOk v1 -> BOk v2 -> forall s, In s (vnodes v1) ->
     exists r1 r2, bellman_ford v1 s = Ok r1 /\ bellman_ford v2 (p s) = Ok r2) /\
  (MOk v1 -> MOk v2 -> exists l1 l2, kruskal v1 = Ok l1 /\ kruskal v2 = Ok l2).

Check C07_relabel_iso : forall p v, inj_on p (vnodes v) ->
  (closed_view v -> view_iso p v (relabel p v)) /\
  view_iso_in p v (relabel p v) /\ view_iso_erefs p v (relabel p v) /\
  (Reach.VOk v -> Reach.VOk (relabel p v)) /\
  (closed_view v -> Paths.VOk (relabel p v)) /\
  (BOk v -> BOk (relabel p v)) /\
  (MOk v -> MOk (relabel p v)) /\
  (forall n, In n (vnodes (relabel p v)) -> n < vbound (relabel p v)) /\
  length (vnodes (relabel p v)) = length (vnodes v) /\
  (closed_view v -> forall a e, In e (out_edges (relabel p v) a) -> tgt e < vbound (relabel p v)).

Check C07_relabel_invariance : forall p v, inj_on p (vnodes v) ->
  (Reach.VOk v ->
     view_iso p v (relabel p v) /\ Reach.VOk (relabel p v) /\
     (forall a b, In a (vnodes v) -> In b (vnodes v) ->
        has_path_connecting v a b = has_path_connecting (relabel p v) (p a) (p b)) /\
     (forall d1 d2, is_cyclic_directed v d1 = is_cyclic_directed (relabel p v) d2) /\
     ((exists l, toposort v = Ok (inr l)) <-> (exists l, toposort (relabel p v) = Ok (inr l))) /\
     (forall s, In s (vnodes v) ->
        is_bipartite_undirected v s = is_bipartite_undirected (relabel p v) (p s)) /\
     (exists ls1 ls2, kosaraju_scc v = Ok ls1 /\ kosaraju_scc (relabel p v) = Ok ls2 /\
                      classes_correspond p ls1 ls2)) /\
  (closed_view v -> Paths.VOk v -> nonneg v -> forall s, In s (vnodes v) -> Paths.in_cap v s ->
     exists m1 m2, dijkstra v s None = Ok m1 /\ dijkstra (relabel p v) (p s) None = Ok m2 /\
       forall x, In x (vnodes v) -> sget m1 x = sget m2 (p x)) /\
  (BOk v -> forall s, In s (vnodes v) ->
     exists r1 r2, bellman_ford v s = Ok r1 /\ bellman_ford (relabel p v) (p s) = Ok r2 /\
       (r1 = None <-> r2 = None) /\
       forall d1 q1 d2 q2, r1 = Some (d1, q1) -> r2 = Some (d2, q2) ->
         forall x, In x (vnodes v) -> nth_error d1 x = nth_error d2 (p x)) /\
  (MOk v -> exists l1 l2, kruskal v = Ok l1 /\ kruskal (relabel p v) = Ok l2 /\
     weight l1 = weight l2 /\ length l1 = length l2).

Check C07_iso_checker_sound : forall p v1 v2,
  (view_iso_b p v1 v2 = true -> view_iso p v1 v2) /\
  (view_iso_erefs_b p v1 v2 = true -> view_iso_erefs p v1 v2) /\
  (view_iso_erefs_u_b p v1 v2 = true -> view_iso_erefs_u p v1 v2).

Check C07_connected_components_compact : forall p v1 v2, nodes_iso p v1 v2 ->
  compact_view v1 -> compact_view v2 -> erefs_ok v1 -> erefs_ok v2 -> view_iso_erefs_u p v1 v2 ->
  connected_components v1 = connected_components v2 /\ exists n, connected_components v1 = Ok n.


Print Assumptions C07_iso_symmetric.
Print Assumptions C07_iso_from_wellformed.
Print Assumptions C07_step_corresponds.
Print Assumptions C07_reachable_corresponds.
Print Assumptions C07_walks_correspond.
Print Assumptions C07_is_dist_corresponds.
Print Assumptions C07_cycles_correspond.
Print Assumptions C07_mutual_two_colourable_correspond.
Print Assumptions C07_spanning_forests_correspond.
Print Assumptions C07_erefs_oriented_is_unoriented.
Print Assumptions C07_closed_targets_needed.
Print Assumptions C07_has_path.
Print Assumptions C07_is_cyclic_directed.
Print Assumptions C07_toposort.
Print Assumptions C07_bipartite.
Print Assumptions C07_dijkstra.
Print Assumptions C07_bellman_ford.
Print Assumptions C07_ksp_k1.
Print Assumptions C07_kosaraju.
Print Assumptions C07_toposort_valid.
Print Assumptions C07_kruskal.
Print Assumptions C07_kruskal_oriented.
Print Assumptions C07_tarjan.
Print Assumptions C07_no_panic_transfer.
Print Assumptions C07_relabel_iso.
Print Assumptions C07_relabel_invariance.
Print Assumptions C07_iso_checker_sound.
Print Assumptions C07_connected_components_compact.
Print Assumptions C07_ex_sparse_is.
Print Assumptions C07_ex_ok.
Print Assumptions C07_ex_values.
Print Assumptions C07_ex_applied.
Print Assumptions C07_connected_components_counts_holes.
