(* C12 — the element stream of min_spanning_tree (Kruskal) is a minimum spanning forest.
   This file holds only the property theorems (closed by [exact]), their pinned
   statements ([Check]) and their assumptions.  The specification vocabulary
   (uconn, acyclic_edges, spanning, transversal, weight, gedges, decode, MOk,
   spanning_forest, oedges, POk) is in Spec/Forest.v. *)
From Coq Require Import ZArith Permutation Sorted.
From PG Require Import Lib.Io Model.View Model.MstM Spec.Forest Proofs.ForestP Proofs.MstP Proofs.PrimP.

(* T1. On a well-formed view the iterator runs to the end: the "Edge references unknown
   node" panic, the union-find bounds checks and the fuel bound are unreachable. *)
Theorem C12_kruskal_total : forall v, MOk v -> exists l, kruskal v = Ok l.
Proof. intros v Hok; exact (kruskal_total v Hok). Qed.

(* T2. Every emitted Edge { source: ao, target: bo, weight: w } is an edge of the graph
   between the ao-th and the bo-th node of the node stream, with that weight; and the
   emitted edges are a sub-multiset of the edges of the graph (no edge is used twice). *)
Theorem C12_kruskal_edges_of_graph : forall v l, MOk v -> kruskal v = Ok l ->
  (forall ao bo w, In (ao, bo, w) l ->
     exists i a b, In (i, a, b, w) (verefs v) /\
       nth_error (vnodes v) ao = Some a /\ nth_error (vnodes v) bo = Some b) /\
  (exists rest, Permutation (gedges v) (decode v l ++ rest)).
Proof.
  intros v l Hok E;
  exact (conj (kruskal_edges_of_graph v l Hok E) (kruskal_submultiset v l Hok E)).
Qed.

(* T3. The emitted edges contain no cycle, connect exactly what the graph connects
   (direction ignored), and there are |V| - c of them, c the number of components. *)
Theorem C12_kruskal_forest : forall v l, MOk v -> kruskal v = Ok l ->
  acyclic_edges (ends (decode v l)) /\
  spanning (ends (decode v l)) (ends (gedges v)) /\
  (forall reps, transversal (vnodes v) (ends (gedges v)) reps ->
     length l + length reps = length (vnodes v)).
Proof.
  intros v l Hok E;
  exact (conj (kruskal_acyclic v l Hok E)
        (conj (kruskal_spanning v l Hok E)
              (fun reps Ht => kruskal_count v l reps Hok E Ht))).
Qed.

(* the component count of T3 is about something: a transversal always exists *)
Theorem C12_components_exist : forall v, MOk v ->
  exists reps, transversal (vnodes v) (ends (gedges v)) reps.
Proof. intros v Hok; exact (components_exist v Hok). Qed.

(* T4. The emitted weights are in non-decreasing order. *)
Theorem C12_kruskal_sorted : forall v l, MOk v -> kruskal v = Ok l ->
  StronglySorted Z.le (map snd l).
Proof. intros v l Hok E; exact (kruskal_sorted v l Hok E). Qed.

(* T5. The emitted edges are a spanning forest whose total weight (the sum of the emitted
   weights) is minimal among all spanning forests of the graph — whatever the tie order. *)
Theorem C12_kruskal_minimal : forall v l, MOk v -> kruskal v = Ok l ->
  spanning_forest v (decode v l) /\ weight (decode v l) = weight l /\
  forall F, spanning_forest v F -> (weight l <= weight F)%Z.
Proof.
  intros v l Hok E;
  exact (conj (kruskal_spanning_forest v l Hok E)
        (conj (weight_decode v l)
              (fun F HF => kruskal_minimal v l F Hok E HF))).
Qed.

(* every spanning forest of the graph has |V| - c edges *)
Theorem C12_spanning_forest_count : forall v F reps, MOk v -> spanning_forest v F ->
  transversal (vnodes v) (ends (gedges v)) reps ->
  length F + length reps = length (vnodes v).
Proof. intros v F reps Hok HF Ht; exact (spanning_forest_count v F reps Hok HF Ht). Qed.

(* T6. Prim (min_spanning_tree_prim) on an undirected view: the iterator runs to the end
   and the emitted edges are edges(a) entries forming a tree (acyclic, every edge hangs
   on the first node n0) that reaches exactly the component of n0; it has one edge less
   than the component has nodes.  With no node at all the edge stream is empty. *)
Theorem C12_prim_spanning_tree : forall v n0 rest, POk v -> vnodes v = n0 :: rest ->
  exists l, prim v = Ok l /\
    incl (decode v l) (oedges v) /\
    acyclic_edges (ends (decode v l)) /\
    (forall x, uconn (ends (decode v l)) n0 x <-> uconn (ends (oedges v)) n0 x) /\
    (forall a b, In (a, b) (ends (decode v l)) -> uconn (ends (decode v l)) n0 a) /\
    exists comp, NoDup comp /\ (forall x, In x comp <-> uconn (ends (oedges v)) n0 x) /\
                 S (length l) = length comp.
Proof. intros v n0 rest Hok Ev; exact (prim_spanning_tree v n0 rest Hok Ev). Qed.

Theorem C12_prim_empty : forall v, vnodes v = [] -> prim v = Ok [].
Proof. intros v Ev; exact (prim_empty v Ev). Qed.

(* Non-vacuity: a stable-graph-like view (index 3 is vacant) with two components {0,1,2}
   and {4,5}, repeated weights, a self-loop on 1 and parallel edges 0-1 and 4-5. *)
Definition C12_view : view :=
  mkView false 6 None [0; 1; 2; 4; 5]
    [(0, [(0, 1, 5%Z); (2, 2, 5%Z); (4, 1, 5%Z)]);
     (1, [(0, 0, 5%Z); (1, 2, 5%Z); (3, 1, 1%Z); (4, 0, 5%Z)]);
     (2, [(1, 1, 5%Z); (2, 0, 5%Z)]);
     (4, [(5, 5, 2%Z); (6, 5, 2%Z)]);
     (5, [(5, 4, 2%Z); (6, 4, 2%Z)])]
    [] 7 7
    [(0, 0, 1, 5%Z); (1, 1, 2, 5%Z); (2, 0, 2, 5%Z); (3, 1, 1, 1%Z);
     (4, 0, 1, 5%Z); (5, 4, 5, 2%Z); (6, 5, 4, 2%Z)].

Example C12_nonvacuous :
  kruskal C12_view = Ok [(3, 4, 2%Z); (0, 1, 5%Z); (1, 2, 5%Z)] /\
  decode C12_view [(3, 4, 2%Z); (0, 1, 5%Z); (1, 2, 5%Z)] = [(4, 5, 2%Z); (0, 1, 5%Z); (1, 2, 5%Z)].
Proof. vm_compute. split; reflexivity. Qed.

Example C12_nonvacuous_MOk : MOk C12_view.
Proof. exact (mok_b_sound C12_view eq_refl). Qed.

Example C12_nonvacuous_prim :
  prim C12_view = Ok [(0, 1, 5%Z); (0, 2, 5%Z)] /\
  decode C12_view [(0, 1, 5%Z); (0, 2, 5%Z)] = [(0, 1, 5%Z); (0, 2, 5%Z)].
Proof. vm_compute. split; reflexivity. Qed.

Example C12_nonvacuous_POk : POk C12_view.
Proof. exact (pok_b_sound C12_view eq_refl). Qed.

Check C12_kruskal_total : forall v, MOk v -> exists l, kruskal v = Ok l.
Check C12_kruskal_edges_of_graph : forall v l, MOk v -> kruskal v = Ok l ->
  (forall ao bo w, In (ao, bo, w) l ->
     exists i a b, In (i, a, b, w) (verefs v) /\
       nth_error (vnodes v) ao = Some a /\ nth_error (vnodes v) bo = Some b) /\
  (exists rest, Permutation (gedges v) (decode v l ++ rest)).
Check C12_kruskal_forest : forall v l, MOk v -> kruskal v = Ok l ->
  acyclic_edges (ends (decode v l)) /\
  spanning (ends (decode v l)) (ends (gedges v)) /\
  (forall reps, transversal (vnodes v) (ends (gedges v)) reps ->
     length l + length reps = length (vnodes v)).
Check C12_components_exist : forall v, MOk v ->
  exists reps, transversal (vnodes v) (ends (gedges v)) reps.
Check C12_kruskal_sorted : forall v l, MOk v -> kruskal v = Ok l ->
  StronglySorted Z.le (map snd l).
Check C12_kruskal_minimal : forall v l, MOk v -> kruskal v = Ok l ->
  spanning_forest v (decode v l) /\ weight (decode v l) = weight l /\
  forall F, spanning_forest v F -> (weight l <= weight F)%Z.
Check C12_spanning_forest_count : forall v F reps, MOk v -> spanning_forest v F ->
  transversal (vnodes v) (ends (gedges v)) reps ->
  length F + length reps = length (vnodes v).
Check C12_prim_spanning_tree : forall v n0 rest, POk v -> vnodes v = n0 :: rest ->
  exists l, prim v = Ok l /\
    incl (decode v l) (oedges v) /\
    acyclic_edges (ends (decode v l)) /\
    (forall x, uconn (ends (decode v l)) n0 x <-> uconn (ends (oedges v)) n0 x) /\
    (forall a b, In (a, b) (ends (decode v l)) -> uconn (ends (decode v l)) n0 a) /\
    exists comp, NoDup comp /\ (forall x, In x comp <-> uconn (ends (oedges v)) n0 x) /\
                 S (length l) = length comp.
Check C12_prim_empty : forall v, vnodes v = [] -> prim v = Ok [].

Print Assumptions C12_kruskal_total.
Print Assumptions C12_kruskal_edges_of_graph.
Print Assumptions C12_kruskal_forest.
Print Assumptions C12_components_exist.
Print Assumptions C12_kruskal_sorted.
Print Assumptions C12_kruskal_minimal.
Print Assumptions C12_spanning_forest_count.
Print Assumptions C12_prim_spanning_tree.
Print Assumptions C12_prim_empty.
Print Assumptions C12_nonvacuous.
Print Assumptions C12_nonvacuous_MOk.
Print Assumptions C12_nonvacuous_prim.
Print Assumptions C12_nonvacuous_POk.
