(* C20e — the nondeterministic mirror of steiner_tree (Model/SteinerM.v; src/algo/steiner_tree.rs with the
   spanning-forest step of the fix) is correct for EVERY minimum spanning tree of the metric closure
   that Kruskal may return: the mirror is total, and each of its results is a subgraph of the input,
   a tree, holds every terminal and has only terminal leaves — clauses 1-4 of steiner_check.
   This file holds only the property theorems (closed by [exact]), their pinned statements ([Check]),
   their assumptions and non-vacuity examples.

   Vocabulary (Proofs/SteinerMP.v):
     SOk v terms       the setting.  v: MOk (distinct nodes below node_bound, references join nodes), FOk (the
                       nodes are 0 .. node_count-1), VOk + ERefsOk (out-lists and edge_references describe the
                       same weighted steps, targets inside the visit map), distinct edge ids, no negative
                       weight, every simple path lighter than i64::MAX (no overflow in floyd_warshall / dijkstra);
                       terms: at least two distinct nodes of v, mutually reachable.
                       Not needed: undirectedness as such (the reachability clause asks for both directions),
                       simplicity (parallel edges and self-loops are allowed), strictly positive weights.
     SteinerRun v terms nodes es   (nodes, es) = steiner_for v terms prev tree for the metric closure cl, the
                       predecessor matrix prev of floyd_warshall_path and some tree in closure_msts .. cl
     SimpleRefs v      no two edge references on the same unordered pair of nodes (C20e_weight_le_closure_mst only)
   (Spec/MiscSpec.v) IsTree, degree, St1 .. St4; (Spec/Forest.v) ends, MOk; (Spec/EPaths.v) estep, ewalk, ereachable. *)
From Coq Require Import Lia ZArith List.
From PG Require Import Lib.Io Model.View Model.ShortestM Model.MiscM Model.SteinerM
  Spec.Forest Spec.MiscSpec Spec.Paths Spec.EPaths
  Proofs.FloydP Proofs.SteinerMP1 Proofs.SteinerMP Proofs.SteinerMW Proofs.SteinerMEx.
Local Open Scope nat_scope.

(* S1: under SOk nothing panics or runs out of fuel (dijkstra reaches every terminal, floyd_warshall returns
   Some, walk_back finds every predecessor within its fuel), and a minimum spanning tree of the closure exists *)
Theorem C20e_total : forall v terms, SOk v terms ->
  exists outs, steiner_outputs v terms = Ok outs /\ outs <> [].
Proof. intros v terms H. exact (steiner_outputs_total v terms H). Qed.

(* the listed results are exactly the results of steiner_for for the minimum spanning trees of the closure *)
Theorem C20e_outputs_iff : forall v terms outs, steiner_outputs v terms = Ok outs ->
  forall nodes es, In (nodes, es) outs <->
    exists cl d prev tree,
      metric_closure v terms = Ok cl /\ floyd_warshall KMIN KMAX v = Ok (Some (d, prev)) /\
      In tree (closure_msts (vbound v) (length terms) cl) /\
      steiner_for v terms prev tree = Ok (nodes, es).
Proof. intros v terms outs E nodes es. exact (outputs_iff v terms outs E nodes es). Qed.

(* S2: a subgraph: nodes of the view, edges of the view with their weights (in the orientation of the
   reference), every edge between returned nodes *)
Theorem C20e_subgraph : forall v terms cl d prev tree nodes es, SOk v terms ->
  metric_closure v terms = Ok cl -> floyd_warshall KMIN KMAX v = Ok (Some (d, prev)) ->
  In tree (closure_msts (vbound v) (length terms) cl) -> steiner_for v terms prev tree = Ok (nodes, es) ->
  incl nodes (vnodes v) /\
  (forall a b w, In (a, b, w) es -> exists i, In (i, a, b, w) (verefs v)) /\
  (forall a b w, In (a, b, w) es -> In a nodes /\ In b nodes).
Proof. intros v terms cl d prev tree nodes es H E1 E2 Ht Es. exact (per_tree_subgraph v terms cl d prev tree nodes es H E1 E2 Ht Es). Qed.

(* S3: a tree: distinct nodes, accepted by tree_check (the test of steiner_check's clause 2), i.e. acyclic
   and connecting exactly the returned nodes *)
Theorem C20e_is_tree : forall v terms cl d prev tree nodes es, SOk v terms ->
  metric_closure v terms = Ok cl -> floyd_warshall KMIN KMAX v = Ok (Some (d, prev)) ->
  In tree (closure_msts (vbound v) (length terms) cl) -> steiner_for v terms prev tree = Ok (nodes, es) ->
  NoDup nodes /\ tree_check nodes es (vbound v) = true /\ IsTree nodes (ends es).
Proof. intros v terms cl d prev tree nodes es H E1 E2 Ht Es. exact (per_tree_is_tree v terms cl d prev tree nodes es H E1 E2 Ht Es). Qed.

(* S4 *)
Theorem C20e_contains_terminals : forall v terms cl d prev tree nodes es, SOk v terms ->
  metric_closure v terms = Ok cl -> floyd_warshall KMIN KMAX v = Ok (Some (d, prev)) ->
  In tree (closure_msts (vbound v) (length terms) cl) -> steiner_for v terms prev tree = Ok (nodes, es) ->
  incl terms nodes.
Proof. intros v terms cl d prev tree nodes es H E1 E2 Ht Es. exact (per_tree_terminals v terms cl d prev tree nodes es H E1 E2 Ht Es). Qed.

(* S5: the pruning loop reaches its fixpoint: no non-terminal leaf is left *)
Theorem C20e_leaves_are_terminals : forall v terms cl d prev tree nodes es, SOk v terms ->
  metric_closure v terms = Ok cl -> floyd_warshall KMIN KMAX v = Ok (Some (d, prev)) ->
  In tree (closure_msts (vbound v) (length terms) cl) -> steiner_for v terms prev tree = Ok (nodes, es) ->
  forall x, In x nodes -> degree x es = 1 -> In x terms.
Proof. intros v terms cl d prev tree nodes es H E1 E2 Ht Es. exact (per_tree_leaves v terms cl d prev tree nodes es H E1 E2 Ht Es). Qed.

(* S6, the proved part: on a view without parallel edges the result weighs no more than the closure tree it was
   built from (result <= spanning forest of the union of the paths <= union of the paths <= sum of the path
   lengths = weight of the closure tree).
   NOT proved: weight of a minimum spanning tree of the closure <= 2 * steiner_opt (the doubled-tree / Euler-tour
   argument on an optimal Steiner tree); hence no theorem C20e_two_approx.  What is missing is exactly:
     forall tree in closure_msts .. cl, steiner_opt v terms = Some opt -> sumw tree <= 2 * opt. *)
Theorem C20e_weight_le_closure_mst : forall v terms cl d prev tree nodes es, SOk v terms -> SimpleRefs v ->
  metric_closure v terms = Ok cl -> floyd_warshall KMIN KMAX v = Ok (Some (d, prev)) ->
  In tree (closure_msts (vbound v) (length terms) cl) -> steiner_for v terms prev tree = Ok (nodes, es) ->
  (sumw es <= sumw tree)%Z.
Proof. intros v terms cl d prev tree nodes es H HS E1 E2 Ht Es. exact (weight_le_closure_mst v terms cl d prev H HS E1 E2 tree nodes es Ht Es). Qed.

(* one more link: the trees of closure_msts are the lightest spanning trees of the closure (closure_trees).  So the
   missing link reduces to: some tree of closure_trees .. cl weighs at most 2 * opt. *)
Theorem C20e_closure_mst_minimal : forall bound k cl tree t', In tree (closure_msts bound k cl) ->
  In t' (closure_trees bound k cl) -> (sumw tree <= sumw t')%Z.
Proof. intros bound k cl tree t' H1 H2. exact (closure_msts_minimal bound k cl tree t' H1 H2). Qed.

(* S7: an answer that steiner_possible accepts satisfies clauses 1-4 of steiner_check; its verdict is 0 or 5
   (5 = heavier than twice the optimum; excluded by the unproved link of S6) *)
Theorem C20e_possible_implies_check : forall v terms nodes es, SOk v terms -> length terms <= 5 ->
  steiner_possible v terms nodes es = true ->
  (St1 v nodes es /\ St2 nodes es /\ St3 terms nodes /\ St4 terms nodes es) /\
  (steiner_check v terms nodes es = 0 \/ steiner_check v terms nodes es = 5).
Proof. intros v terms nodes es H H5 E. exact (possible_implies_check v terms nodes es H H5 E). Qed.

(* ------------------------------------------------------------------ *)
(* Non-vacuity: the witness on which the crate returned a cycle before the fix
   (Proofs/SteinerMEx.v: w_view = 0-1 (1), 0-2 (1), 0-3 (1), 3-4 (2), 4-5 (2), 0-4 (1), 1-2 (1); w_T = [3; 2; 5; 1]) *)
Example C20e_ex_sok : SOk w_view w_T /\ SimpleRefs w_view.
Proof. exact (conj w_sok w_simple). Qed.

(* the closure, its six minimum spanning trees, the six results (five distinct), the optimum *)
Example C20e_ex_outputs :
  metric_closure w_view w_T = Ok [(3, 2, 2%Z); (3, 5, 4%Z); (3, 1, 2%Z); (2, 5, 4%Z); (2, 1, 1%Z); (5, 1, 4%Z)] /\
  rmap (closure_msts 6 4) (metric_closure w_view w_T) = Ok
    [[(3, 2, 2%Z); (3, 5, 4%Z); (2, 1, 1%Z)]; [(3, 2, 2%Z); (2, 5, 4%Z); (2, 1, 1%Z)];
     [(3, 2, 2%Z); (2, 1, 1%Z); (5, 1, 4%Z)]; [(3, 5, 4%Z); (3, 1, 2%Z); (2, 1, 1%Z)];
     [(3, 1, 2%Z); (2, 5, 4%Z); (2, 1, 1%Z)]; [(3, 1, 2%Z); (2, 1, 1%Z); (5, 1, 4%Z)]] /\
  steiner_outputs w_view w_T = Ok
    [([0; 1; 2; 3; 4; 5], [(0, 2, 1%Z); (0, 3, 1%Z); (3, 4, 2%Z); (4, 5, 2%Z); (1, 2, 1%Z)]);
     ([0; 1; 2; 3; 4; 5], [(0, 2, 1%Z); (0, 3, 1%Z); (4, 5, 2%Z); (0, 4, 1%Z); (1, 2, 1%Z)]);
     ([0; 1; 2; 3; 4; 5], [(0, 1, 1%Z); (0, 2, 1%Z); (0, 3, 1%Z); (4, 5, 2%Z); (0, 4, 1%Z)]);
     ([0; 1; 2; 3; 4; 5], [(0, 1, 1%Z); (0, 3, 1%Z); (3, 4, 2%Z); (4, 5, 2%Z); (1, 2, 1%Z)]);
     ([0; 1; 2; 3; 4; 5], [(0, 1, 1%Z); (0, 2, 1%Z); (0, 3, 1%Z); (4, 5, 2%Z); (0, 4, 1%Z)]);
     ([0; 1; 2; 3; 4; 5], [(0, 1, 1%Z); (0, 3, 1%Z); (4, 5, 2%Z); (0, 4, 1%Z); (1, 2, 1%Z)])] /\
  steiner_opt w_view w_T = Some 6%Z.
Proof. exact w_outputs. Qed.

(* each of them is accepted by steiner_check (verdict 0) and by steiner_possible *)
Example C20e_ex_accepted :
  match steiner_outputs w_view w_T with
  | Ok outs => forallb (fun '(ns, es) => andb (Nat.eqb (steiner_check w_view w_T ns es) 0)
                                              (steiner_possible w_view w_T ns es)) outs
  | _ => false
  end = true.
Proof. exact w_outputs_accepted. Qed.

(* the answer before the fix (six edges on six nodes, the triangle 0-1-2 among them) is neither a possible
   result nor a tree *)
Example C20e_ex_prefix_rejected :
  steiner_possible w_view w_T [0; 1; 2; 3; 4; 5]
    [(0, 1, 1%Z); (0, 2, 1%Z); (0, 3, 1%Z); (3, 4, 2%Z); (4, 5, 2%Z); (1, 2, 1%Z)] = false /\
  steiner_check w_view w_T [0; 1; 2; 3; 4; 5]
    [(0, 1, 1%Z); (0, 2, 1%Z); (0, 3, 1%Z); (3, 4, 2%Z); (4, 5, 2%Z); (1, 2, 1%Z)] = 2.
Proof. exact w_prefix_rejected. Qed.

(* the theorems applied to the witness *)
Example C20e_ex_applied :
  (exists outs, steiner_outputs w_view w_T = Ok outs /\ outs <> []) /\
  (forall nodes es, steiner_possible w_view w_T nodes es = true ->
     St1 w_view nodes es /\ St2 nodes es /\ St3 w_T nodes /\ St4 w_T nodes es).
Proof.
  split; [exact (steiner_outputs_total w_view w_T w_sok)|].
  intros nodes es E. apply (possible_implies_check w_view w_T nodes es w_sok); [vm_compute; lia | exact E].
Qed.

Check C20e_total : forall v terms, SOk v terms ->
  exists outs, steiner_outputs v terms = Ok outs /\ outs <> [].
Check C20e_outputs_iff : forall v terms outs, steiner_outputs v terms = Ok outs ->
  forall nodes es, In (nodes, es) outs <->
    exists cl d prev tree,
      metric_closure v terms = Ok cl /\ floyd_warshall KMIN KMAX v = Ok (Some (d, prev)) /\
      In tree (closure_msts (vbound v) (length terms) cl) /\
      steiner_for v terms prev tree = Ok (nodes, es).
Check C20e_subgraph : forall v terms cl d prev tree nodes es, SOk v terms ->
  metric_closure v terms = Ok cl -> floyd_warshall KMIN KMAX v = Ok (Some (d, prev)) ->
  In tree (closure_msts (vbound v) (length terms) cl) -> steiner_for v terms prev tree = Ok (nodes, es) ->
  incl nodes (vnodes v) /\
  (forall a b w, In (a, b, w) es -> exists i, In (i, a, b, w) (verefs v)) /\
  (forall a b w, In (a, b, w) es -> In a nodes /\ In b nodes).
Check C20e_is_tree : forall v terms cl d prev tree nodes es, SOk v terms ->
  metric_closure v terms = Ok cl -> floyd_warshall KMIN KMAX v = Ok (Some (d, prev)) ->
  In tree (closure_msts (vbound v) (length terms) cl) -> steiner_for v terms prev tree = Ok (nodes, es) ->
  NoDup nodes /\ tree_check nodes es (vbound v) = true /\ IsTree nodes (ends es).
Check C20e_contains_terminals : forall v terms cl d prev tree nodes es, SOk v terms ->
  metric_closure v terms = Ok cl -> floyd_warshall KMIN KMAX v = Ok (Some (d, prev)) ->
  In tree (closure_msts (vbound v) (length terms) cl) -> steiner_for v terms prev tree = Ok (nodes, es) ->
  incl terms nodes.
Check C20e_leaves_are_terminals : forall v terms cl d prev tree nodes es, SOk v terms ->
  metric_closure v terms = Ok cl -> floyd_warshall KMIN KMAX v = Ok (Some (d, prev)) ->
  In tree (closure_msts (vbound v) (length terms) cl) -> steiner_for v terms prev tree = Ok (nodes, es) ->
  forall x, In x nodes -> degree x es = 1 -> In x terms.
Check C20e_weight_le_closure_mst : forall v terms cl d prev tree nodes es, SOk v terms -> SimpleRefs v ->
  metric_closure v terms = Ok cl -> floyd_warshall KMIN KMAX v = Ok (Some (d, prev)) ->
  In tree (closure_msts (vbound v) (length terms) cl) -> steiner_for v terms prev tree = Ok (nodes, es) ->
  (sumw es <= sumw tree)%Z.
Check C20e_closure_mst_minimal : forall bound k cl tree t', In tree (closure_msts bound k cl) ->
  In t' (closure_trees bound k cl) -> (sumw tree <= sumw t')%Z.
Check C20e_possible_implies_check : forall v terms nodes es, SOk v terms -> length terms <= 5 ->
  steiner_possible v terms nodes es = true ->
  (St1 v nodes es /\ St2 nodes es /\ St3 terms nodes /\ St4 terms nodes es) /\
  (steiner_check v terms nodes es = 0 \/ steiner_check v terms nodes es = 5).

Print Assumptions C20e_total.
Print Assumptions C20e_outputs_iff.
Print Assumptions C20e_subgraph.
Print Assumptions C20e_is_tree.
Print Assumptions C20e_contains_terminals.
Print Assumptions C20e_leaves_are_terminals.
Print Assumptions C20e_weight_le_closure_mst.
Print Assumptions C20e_closure_mst_minimal.
Print Assumptions C20e_possible_implies_check.
Print Assumptions C20e_ex_sok.
Print Assumptions C20e_ex_outputs.
Print Assumptions C20e_ex_accepted.
Print Assumptions C20e_ex_prefix_rejected.
Print Assumptions C20e_ex_applied.
