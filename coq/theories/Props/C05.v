(* C05 -- Csr and adj::List report exactly the inserted nodes and edges.
   This file holds only the property theorems (closed by [exact]), non-vacuity
   examples, the pinned statements ([Check]) and their assumptions. *)
From Coq Require Import Sorted.
From PG Require Import Lib.ListExtra Lib.Io.
From PG Require Import Model.CsrM Spec.CsrSpec Proofs.CsrSearch Proofs.CsrP Proofs.CsrR Proofs.CsrH Proofs.CsrFse.
From PG Require Import Model.AdjListM Spec.AdjListSpec Proofs.AdjListP Proofs.AdjListH.

(* T1. The linear scan and core's binary search return the same position on every
   strictly ascending row, whatever its length: the 32-neighbour cutoff of
   find_edge_pos is unobservable. *)
Theorem C05_find_edge_pos_cutoff_free : forall l b,
  StronglySorted lt l -> binary_search l b = Ok (lin_search l b 0).
Proof.
  intros l b H. exact (binary_search_lin_search l b H).
Qed.

(* Found i: position i holds b. *)
Theorem C05_lin_search_found : forall l b i,
  StronglySorted lt l -> lin_search l b 0 = Found i -> nth_error l i = Some b.
Proof.
  intros l b i H E. exact (lin_search_found l b i H E).
Qed.

(* Insert i: b is absent, everything before i is smaller, everything from i on is larger. *)
Theorem C05_lin_search_insert : forall l b i,
  StronglySorted lt l -> lin_search l b 0 = Insert i ->
  i <= length l /\ ~ In b l /\
  (forall j x, j < i -> nth_error l j = Some x -> x < b) /\
  (forall j x, i <= j -> nth_error l j = Some x -> b < x).
Proof.
  intros l b i H E. exact (lin_search_insert l b i H E).
Qed.

(* find_edge_pos itself: under the invariant it is the linear scan of the row,
   shifted by the row offset, for every row length. *)
Theorem C05_find_edge_pos : forall g a b, CInv g -> a < node_count g ->
  exists s e, nth_error (row g) a = Some s /\ nth_error (row g) (S a) = Some e /\
    find_edge_pos g a b =
      Ok (shift_pos s (lin_search (firstn (e - s) (skipn s (column g))) b 0)).
Proof.
  intros g a b I Ha. exact (@find_edge_pos_ok g a b I Ha).
Qed.

(* T2. The invariant holds initially ... *)
Theorem C05_csr_init_invariant : forall n0, CInv (with_nodes n0) /\ node_count (with_nodes n0) = n0.
Proof.
  intros n0. exact (conj (with_nodes_inv n0) (with_nodes_count n0)).
Qed.

(* ... and every mutator succeeds (no panic of Vec::insert, of the slicing, of
   row[a]; the binary search terminates) and preserves it, for both edge types
   and for arbitrary arguments. *)
Theorem C05_csr_step_invariant : forall d g a b w, CInv g ->
  (exists g', add_node g w = Ok (node_count g, g') /\ CInv g' /\
              node_count g' = S (node_count g)) /\
  (exists r g', try_add_edge d g a b w = Ok (r, g') /\ CInv g' /\
                node_count g' = node_count g) /\
  CInv (clear_edges d g).
Proof.
  intros d g a b w I. split; [|split].
  - destruct (@add_node_ok g w I) as [g' [E [I' [Hc _]]]]. exact (ex_intro _ g' (conj E (conj I' Hc))).
  - exact (@try_add_edge_total d g a b w I).
  - exact (@clear_edges_inv d g I).
Qed.

(* The accessors never panic and never run out of fuel on a node in range; rows
   are strictly ascending with targets in range. *)
Theorem C05_csr_queries_total : forall g a b, CInv g -> a < node_count g ->
  exists ts ws c,
    neighbors_slice g a = Ok ts /\ edges_slice g a = Ok ws /\
    out_degree g a = Ok (length ts) /\ contains_edge g a b = Ok c /\
    (c = true <-> In b ts) /\ length ws = length ts /\ StronglySorted lt ts /\
    (forall t, In t ts -> t < node_count g).
Proof.
  intros g a b I Ha. exact (@queries_total g a b I Ha).
Qed.

(* Every history of add_node / try_add_edge / add_edge / clear_edges and queries
   (any opcode but from_sorted_edges), of any length, ends in a state that
   satisfies the invariant. *)
Theorem C05_csr_history_invariant : forall d n0 ops,
  incremental ops -> CInv (final d (with_nodes n0) ops).
Proof.
  intros d n0 ops H. exact (@history_inv d ops H (with_nodes n0) (with_nodes_inv n0)).
Qed.

(* [final] is the state in which the model's [run] performs the next operation. *)
Theorem C05_csr_final_is_run_state : forall d g ops1 o ops2,
  nth_error (CsrM.run d g (ops1 ++ o :: ops2)) (length ops1) =
  Some (snd (CsrM.step d (final d g ops1) o)).
Proof.
  intros d g ops1 o ops2. exact (run_nth d ops1 g o ops2).
Qed.

(* T3. Simulation.  try_add_edge returns what the abstract graph returns and the
   new state represents the new abstract graph; unless the edge is new the
   state is unchanged (out-of-range endpoints: Err; existing edge: Ok(false)),
   directed or undirected. *)
Theorem C05_csr_refines_add_edge : forall d g s a b w, CInv g -> Rep d g s ->
  exists g', try_add_edge d g a b w = Ok (fst (spec_try_add_edge d s a b w), g') /\
    CInv g' /\ Rep d g' (snd (spec_try_add_edge d s a b w)) /\
    (fst (spec_try_add_edge d s a b w) <> AddOk true -> g' = g).
Proof.
  intros d g s a b w I R. exact (@try_add_edge_refines d g s a b w I R).
Qed.

(* Out-of-range endpoints give Err(a, b) and change nothing (no invariant needed). *)
Theorem C05_csr_add_edge_out_of_range : forall d g a b w,
  ~ (a < node_count g /\ b < node_count g) -> try_add_edge d g a b w = Ok (AddErr a b, g).
Proof.
  intros d g a b w H. exact (@try_add_edge_out_of_range d g a b w H).
Qed.

(* An existing edge gives Ok(false) and changes nothing, weight included. *)
Theorem C05_csr_add_edge_existing : forall d g s a b w, CInv g -> Rep d g s ->
  a < node_count g -> b < node_count g -> spec_contains d s a b = true ->
  try_add_edge d g a b w = Ok (AddOk false, g).
Proof.
  intros d g s a b w I R Ha Hb Hc. exact (@try_add_edge_existing d g s a b w I R Ha Hb Hc).
Qed.

(* add_node and clear_edges. *)
Theorem C05_csr_refines_add_node : forall d g s w, CInv g -> Rep d g s ->
  exists g', add_node g w = Ok (fst (spec_add_node s w), g') /\ CInv g' /\
             Rep d g' (snd (spec_add_node s w)).
Proof.
  intros d g s w I R. exact (@add_node_refines d g s w I R).
Qed.

Theorem C05_csr_refines_clear_edges : forall d g s, CInv g -> Rep d g s ->
  CInv (clear_edges d g) /\ Rep d (clear_edges d g) (spec_clear_edges s).
Proof.
  intros d g s I R. exact (@clear_edges_refines d g s I R).
Qed.

(* Queries agree with the abstract graph: the row is the ascending list of the
   neighbours, with their weights in the same order, whatever the insertion order
   and the row length. *)
Theorem C05_csr_refines_queries : forall d g s a, CInv g -> Rep d g s -> a < node_count g ->
  neighbors_slice g a = Ok (spec_neighbors d s a) /\
  edges_slice g a = Ok (spec_weights d s a) /\
  out_degree g a = Ok (spec_out_degree d s a) /\
  (forall b, contains_edge g a b = Ok (spec_contains d s a b)).
Proof.
  intros d g s a I R Ha. exact (@rep_queries d g s a I R Ha).
Qed.

(* Undirected: rows are symmetric, and an inserted edge is in both rows. *)
Theorem C05_csr_undirected_symmetric : forall g s a b ta tb, CInv g -> Rep false g s ->
  a < node_count g -> b < node_count g ->
  neighbors_slice g a = Ok ta -> neighbors_slice g b = Ok tb ->
  (In b ta <-> In a tb).
Proof.
  intros g s a b ta tb I R Ha Hb Na Nb. exact (@rep_symmetric g s a b ta tb I R Ha Hb Na Nb).
Qed.

Theorem C05_csr_undirected_both_rows : forall g s a b w, CInv g -> Rep false g s ->
  a < node_count g -> b < node_count g ->
  exists r g', try_add_edge false g a b w = Ok (r, g') /\
    contains_edge g' a b = Ok true /\ contains_edge g' b a = Ok true.
Proof.
  intros g s a b w I R Ha Hb. exact (@undirected_both_rows g s a b w I R Ha Hb).
Qed.

(* The debug_assert_eq!(ret, _ret2) of add_edge never fires: when the first half of
   an undirected insertion succeeds, so does the mirrored half. *)
Theorem C05_csr_undirected_debug_assert : forall g s a b w g1, CInv g -> Rep false g s ->
  a < node_count g -> b < node_count g -> a <> b ->
  add_edge_ g a b w = Ok (AddOk true, g1) ->
  exists g3,
    add_edge_ (mkCsr (column g1) (cedges g1) (row g1) (nweights g1) (S (ecount g1))) b a w =
    Ok (AddOk true, g3).
Proof.
  intros g s a b w g1 I R Ha Hb Hab E. exact (@undirected_debug_assert g s a b w g1 I R Ha Hb Hab E).
Qed.

(* Histories of any length, both edge types: the state reached represents the
   abstract graph built from the same operations, and the value returned by every
   operation (first line of each output block) is the one the abstract graph
   prescribes. *)
Theorem C05_csr_history_refines : forall d n0 ops, incremental ops ->
  CInv (final d (with_nodes n0) ops) /\
  Rep d (final d (with_nodes n0) ops) (spec_final d (spec_with_nodes n0) ops) /\
  map (hd (CsrM.TAG_PANIC, [])) (CsrM.run d (with_nodes n0) ops) = spec_outs d (spec_with_nodes n0) ops.
Proof.
  intros d n0 ops H. exact (@history_refines d ops H (with_nodes n0) (spec_with_nodes n0) (with_nodes_inv n0) (rep_with_nodes d n0)).
Qed.

(* The complete output of the model -- return value, counts, node weights,
   edge_references() and both slices of every row after each mutation -- is the
   one computed from the abstract graph alone, for every history. *)
Theorem C05_csr_run_is_spec_run : forall d n0 ops, incremental ops ->
  CsrM.run d (with_nodes n0) ops = spec_run d (spec_with_nodes n0) ops.
Proof.
  intros d n0 ops H. exact (@history_run d ops H (with_nodes n0) (spec_with_nodes n0) (with_nodes_inv n0) (rep_with_nodes d n0)).
Qed.

(* T4. from_sorted_edges never panics or runs out of fuel: it succeeds exactly on
   input whose (source, target) pairs are strictly increasing (sorted, no
   duplicates) and reports EdgesNotSorted otherwise. *)
Theorem C05_from_sorted_iff : forall es,
  (strictly_sorted es <-> exists g, from_sorted_edges es = Ok (Some g)) /\
  (~ strictly_sorted es <-> from_sorted_edges es = Ok None).
Proof.
  intros es. exact (from_sorted_edges_iff es).
Qed.

(* On success the graph satisfies the invariant and represents the abstract graph
   obtained by inserting the edges one by one into max id + 1 nodes -- the same
   abstract graph as the Csr built edge by edge with try_add_edge represents. *)
Theorem C05_from_sorted_represents : forall es g, from_sorted_edges es = Ok (Some g) ->
  CInv g /\ Rep true g (spec_of_edges es) /\
  CInv (final true (with_nodes (edges_node_count es)) (ops_of_edges es)) /\
  Rep true (final true (with_nodes (edges_node_count es)) (ops_of_edges es)) (spec_of_edges es).
Proof.
  intros es g E. exact (@from_sorted_same_as_incremental es g E).
Qed.

(* T5. adj::List.  find_edge returns the first position of the row whose successor
   is b; contains_edge holds iff there is one. *)
Theorem C05_list_find_edge : forall g a b e,
  al_find_edge g a b = Some e <->
  exists r i, e = (a, i) /\ nth_error g a = Some r /\ first_pos r b i.
Proof.
  intros g a b e. exact (al_find_edge_iff g a b e).
Qed.

Theorem C05_list_contains_edge : forall g a b,
  al_contains_edge g a b = true <-> exists i w, al_get_edge g (a, i) = Some (b, w).
Proof.
  intros g a b. exact (al_contains_edge_get g a b).
Qed.

(* add_edge panics exactly on an out-of-range endpoint (the model returns no new
   state then) ... *)
Theorem C05_list_add_edge_panics : forall g a b w,
  (length g <= a \/ length g <= b) <-> al_add_edge g a b w = Panic.
Proof.
  intros g a b w. exact (al_add_edge_panics g a b w).
Qed.

(* ... and otherwise keeps parallel edges: the row grows by exactly one entry at
   its end, the index returned is (a, old length), every other row and every
   older edge (endpoints and weight) is unchanged. *)
Theorem C05_list_add_edge : forall g a b w e g', al_add_edge g a b w = Ok (e, g') ->
  exists r, nth_error g a = Some r /\ e = (a, length r) /\
    nth_error g' a = Some (r ++ [(b, w)]) /\
    length g' = length g /\
    (forall a', a' <> a -> nth_error g' a' = nth_error g a') /\
    al_get_edge g' e = Some (b, w) /\
    (forall e0 p, al_get_edge g e0 = Some p -> al_get_edge g' e0 = Some p).
Proof.
  intros g a b w e g' H. exact (@al_add_edge_spec g a b w e g' H).
Qed.

(* update_edge: same panics; overwrites the weight of the first a -> b edge, or
   behaves as add_edge when there is none. *)
Theorem C05_list_update_edge_panics : forall g a b w,
  (length g <= a \/ length g <= b) <-> al_update_edge g a b w = Panic.
Proof.
  intros g a b w. exact (al_update_edge_panics g a b w).
Qed.

Theorem C05_list_update_edge : forall g a b w e g', al_update_edge g a b w = Ok (e, g') ->
  (al_find_edge g a b = Some e /\
   al_get_edge g' e = Some (b, w) /\
   (forall e0, e0 <> e -> al_get_edge g' e0 = al_get_edge g e0) /\
   (forall e0, al_edge_endpoints g' e0 = al_edge_endpoints g e0) /\
   length g' = length g) \/
  (al_find_edge g a b = None /\ al_add_edge g a b w = Ok (e, g')).
Proof.
  intros g a b w e g' H. exact (@al_update_edge_spec g a b w e g' H).
Qed.

(* Every edge index stays valid with the same endpoints through any history
   without clear. *)
Theorem C05_list_endpoints_stable : forall ops, no_clear ops -> forall g e p,
  al_edge_endpoints g e = Some p -> al_edge_endpoints (al_final g ops) e = Some p.
Proof.
  intros ops H g e p E. exact (@al_endpoints_stable ops H g e p E).
Qed.

(* The weight of an edge changes only by update_edge on its endpoints (when it is
   the first such edge) or set_edge_weight on its index. *)
Theorem C05_list_weight_stable : forall g o e w, fst o <> 3 ->
  al_edge_weight g e = Some w ->
  al_edge_weight (fst (AdjListM.step g o)) e = Some w \/
  (fst o = 2 /\ al_find_edge g (arg (snd o) 0) (arg (snd o) 1) = Some e /\
   al_edge_weight (fst (AdjListM.step g o)) e = Some (arg (snd o) 2)) \/
  (fst o = 8 /\ e = (arg (snd o) 0, arg (snd o) 1) /\
   al_edge_weight (fst (AdjListM.step g o)) e = Some (arg (snd o) 2)).
Proof.
  intros g o e w H3 H. exact (@al_weight_stable g o e w H3 H).
Qed.

(* edge_count is the sum of the row lengths. *)
Theorem C05_list_edge_count_sum : forall g : alist,
  al_edge_count g = list_sum (map (@length (nat * nat)) g).
Proof.
  intros g. exact (fold_left_sum g 0).
Qed.

(* After every history (all opcodes, clear included) the List is exactly the
   insertion log filtered by source, and edge_count is the length of the log. *)
Theorem C05_list_history_refines : forall ops,
  al_final al_new ops = al_abs (lspec_final ops) /\
  al_edge_count (al_final al_new ops) = length (snd (lspec_final ops)) /\
  al_node_count (al_final al_new ops) = fst (lspec_final ops).
Proof.
  intros ops. destruct (al_history_refines ops) as [E W].
  split; [exact E|]. rewrite E. split; [exact (@al_edge_count_abs _ W)|].
  destruct (lspec_final ops) as [n l]. exact (abs_length n l).
Qed.

(* ------------------------------------------------------------------ *)
(* Non-vacuity.  Undirected Csr with 41 nodes: node 0 gets 39 neighbours (past
   the 32-neighbour cutoff) inserted in descending order, then a duplicate, an
   out-of-range edge, queries, a new node, a self loop through add_edge. *)
Definition op (c : nat) (a : list Z) : line := (c, a).

Definition ex_ops : list line :=
  map (fun k => op 1 [0%Z; Z.of_nat k; Z.of_nat (100 + k)]) (rev (seq 1 39)) ++
  [op 1 [0; 17; 5]; op 1 [0; 40; 5]; op 4 [0; 17]; op 4 [17; 0]; op 5 [0];
   op 0 [7]; op 2 [40; 40; 9]; op 5 [40]; op 6 [17]; op 7 [17]]%Z.

Example C05_csr_nonvacuous :
  incremental ex_ops /\
  neighbors_slice (final false (with_nodes 40) ex_ops) 0 = Ok (seq 1 39) /\
  edges_slice (final false (with_nodes 40) ex_ops) 0 = Ok (map (fun k => 100 + k) (seq 1 39)) /\
  neighbors_slice (final false (with_nodes 40) ex_ops) 17 = Ok [0] /\
  edge_count false (final false (with_nodes 40) ex_ops) = 40 /\
  spec_edge_count (spec_final false (spec_with_nodes 40) ex_ops) = 40 /\
  skipn 39 (map (hd (CsrM.TAG_PANIC, [])) (CsrM.run false (with_nodes 40) ex_ops)) =
    [(CsrM.TAG_BOOL, [0]); (CsrM.TAG_ERR, [0; 40]); (CsrM.TAG_BOOL, [1]); (CsrM.TAG_BOOL, [1]);
     (CsrM.TAG_NAT, [39]); (CsrM.TAG_IDX, [40]); (CsrM.TAG_BOOL, [1]); (CsrM.TAG_NAT, [1]);
     (CsrM.TAG_ROW, [17; 0]); (CsrM.TAG_WROW, [17; 117])]%Z.
Proof.
  split.
  - apply Forall_forall. intros o Ho. vm_compute in Ho.
    repeat (destruct Ho as [<-|Ho]; [discriminate|]). destruct Ho.
  - vm_compute. repeat split; reflexivity.
Qed.

(* adj::List: parallel edges, update of the first one, set_edge_weight, a
   panicking add_edge, add_node_from_edges. *)
Definition ex_lops : list line :=
  [op 0 []; op 0 []; op 0 []; op 1 [0; 1; 10]; op 1 [0; 1; 11]; op 1 [0; 2; 12];
   op 2 [0; 1; 13]; op 2 [1; 2; 14]; op 8 [0; 1; 15]; op 1 [0; 7; 1]; op 11 [0; 5; 1; 6]]%Z.

Example C05_list_nonvacuous :
  al_final al_new ex_lops = [[(1, 13); (1, 15); (2, 12)]; [(2, 14)]; []; [(0, 5); (1, 6)]] /\
  lspec_final ex_lops = (4, [(0, 1, 13); (0, 1, 15); (0, 2, 12); (1, 2, 14); (3, 0, 5); (3, 1, 6)]) /\
  al_find_edge (al_final al_new ex_lops) 0 1 = Some (0, 0) /\
  al_edge_count (al_final al_new ex_lops) = 6 /\
  al_add_edge (al_final al_new ex_lops) 0 7 1 = Panic /\
  no_clear ex_lops.
Proof.
  vm_compute. repeat split; try reflexivity.
  repeat constructor; discriminate.
Qed.

(* from_sorted_edges: a sorted input, an unsorted one, a duplicate. *)
Example C05_from_sorted_nonvacuous :
  strictly_sorted [(0, 1, 5); (0, 3, 6); (2, 0, 7); (2, 2, 8)] /\
  from_sorted_edges [(0, 1, 5); (0, 3, 6); (2, 0, 7); (2, 2, 8)] =
    Ok (Some (mkCsr [1; 3; 0; 2] [5; 6; 7; 8] [0; 2; 2; 4; 4] [0; 0; 0; 0] 0)) /\
  from_sorted_edges [(0, 3, 6); (0, 1, 5)] = Ok None /\
  from_sorted_edges [(1, 1, 5); (1, 1, 5)] = Ok None /\
  from_sorted_edges [(1, 0, 5); (0, 1, 5)] = Ok None.
Proof.
  split.
  - repeat constructor; cbn; lia.
  - vm_compute. repeat split; reflexivity.
Qed.


Check C05_find_edge_pos_cutoff_free : forall l b,
  StronglySorted lt l -> binary_search l b = Ok (lin_search l b 0).

Check C05_lin_search_found : forall l b i,
  StronglySorted lt l -> lin_search l b 0 = Found i -> nth_error l i = Some b.

Check C05_lin_search_insert : forall l b i,
  StronglySorted lt l -> lin_search l b 0 = Insert i ->
  i <= length l /\ ~ In b l /\
  (forall j x, j < i -> nth_error l j = Some x -> x < b) /\
  (forall j x, i <= j -> nth_error l j = Some x -> b < x).

Check C05_find_edge_pos : forall g a b, CInv g -> a < node_count g ->
  exists s e, nth_error (row g) a = Some s /\ nth_error (row g) (S a) = Some e /\
    find_edge_pos g a b =
      Ok (shift_pos s (lin_search (firstn (e - s) (skipn s (column g))) b 0)).

Check C05_csr_init_invariant : forall n0, CInv (with_nodes n0) /\ node_count (with_nodes n0) = n0.

Check C05_csr_step_invariant : forall d g a b w, CInv g ->
  (exists g', add_node g w = Ok (node_count g, g') /\ CInv g' /\
              node_count g' = S (node_count g)) /\
  (exists r g', try_add_edge d g a b w = Ok (r, g') /\ CInv g' /\
                node_count g' = node_count g) /\
  CInv (clear_edges d g).

Check C05_csr_queries_total : forall g a b, CInv g -> a < node_count g ->
  exists ts ws c,
    neighbors_slice g a = Ok ts /\ edges_slice g a = Ok ws /\
    out_degree g a = Ok (length ts) /\ contains_edge g a b = Ok c /\
    (c = true <-> In b ts) /\ length ws = length ts /\ StronglySorted lt ts /\
    (forall t, In t ts -> t < node_count g).

Check C05_csr_history_invariant : forall d n0 ops,
  incremental ops -> CInv (final d (with_nodes n0) ops).

Check C05_csr_final_is_run_state : forall d g ops1 o ops2,
  nth_error (CsrM.run d g (ops1 ++ o :: ops2)) (length ops1) =
  Some (snd (CsrM.step d (final d g ops1) o)).

Check C05_csr_refines_add_edge : forall d g s a b w, CInv g -> Rep d g s ->
  exists g', try_add_edge d g a b w = Ok (fst (spec_try_add_edge d s a b w), g') /\
    CInv g' /\ Rep d g' (snd (spec_try_add_edge d s a b w)) /\
    (fst (spec_try_add_edge d s a b w) <> AddOk true -> g' = g).

Check C05_csr_add_edge_out_of_range : forall d g a b w,
  ~ (a < node_count g /\ b < node_count g) -> try_add_edge d g a b w = Ok (AddErr a b, g).

Check C05_csr_add_edge_existing : forall d g s a b w, CInv g -> Rep d g s ->
  a < node_count g -> b < node_count g -> spec_contains d s a b = true ->
  try_add_edge d g a b w = Ok (AddOk false, g).

Check C05_csr_refines_add_node : forall d g s w, CInv g -> Rep d g s ->
  exists g', add_node g w = Ok (fst (spec_add_node s w), g') /\ CInv g' /\
             Rep d g' (snd (spec_add_node s w)).

Check C05_csr_refines_clear_edges : forall d g s, CInv g -> Rep d g s ->
  CInv (clear_edges d g) /\ Rep d (clear_edges d g) (spec_clear_edges s).

Check C05_csr_refines_queries : forall d g s a, CInv g -> Rep d g s -> a < node_count g ->
  neighbors_slice g a = Ok (spec_neighbors d s a) /\
  edges_slice g a = Ok (spec_weights d s a) /\
  out_degree g a = Ok (spec_out_degree d s a) /\
  (forall b, contains_edge g a b = Ok (spec_contains d s a b)).

Check C05_csr_undirected_symmetric : forall g s a b ta tb, CInv g -> Rep false g s ->
  a < node_count g -> b < node_count g ->
  neighbors_slice g a = Ok ta -> neighbors_slice g b = Ok tb ->
  (In b ta <-> In a tb).

Check C05_csr_undirected_both_rows : forall g s a b w, CInv g -> Rep false g s ->
  a < node_count g -> b < node_count g ->
  exists r g', try_add_edge false g a b w = Ok (r, g') /\
    contains_edge g' a b = Ok true /\ contains_edge g' b a = Ok true.

Check C05_csr_undirected_debug_assert : forall g s a b w g1, CInv g -> Rep false g s ->
  a < node_count g -> b < node_count g -> a <> b ->
  add_edge_ g a b w = Ok (AddOk true, g1) ->
  exists g3,
    add_edge_ (mkCsr (column g1) (cedges g1) (row g1) (nweights g1) (S (ecount g1))) b a w =
    Ok (AddOk true, g3).

Check C05_csr_history_refines : forall d n0 ops, incremental ops ->
  CInv (final d (with_nodes n0) ops) /\
  Rep d (final d (with_nodes n0) ops) (spec_final d (spec_with_nodes n0) ops) /\
  map (hd (CsrM.TAG_PANIC, [])) (CsrM.run d (with_nodes n0) ops) = spec_outs d (spec_with_nodes n0) ops.

Check C05_csr_run_is_spec_run : forall d n0 ops, incremental ops ->
  CsrM.run d (with_nodes n0) ops = spec_run d (spec_with_nodes n0) ops.

Check C05_from_sorted_iff : forall es,
  (strictly_sorted es <-> exists g, from_sorted_edges es = Ok (Some g)) /\
  (~ strictly_sorted es <-> from_sorted_edges es = Ok None).

Check C05_from_sorted_represents : forall es g, from_sorted_edges es = Ok (Some g) ->
  CInv g /\ Rep true g (spec_of_edges es) /\
  CInv (final true (with_nodes (edges_node_count es)) (ops_of_edges es)) /\
  Rep true (final true (with_nodes (edges_node_count es)) (ops_of_edges es)) (spec_of_edges es).

Check C05_list_find_edge : forall g a b e,
  al_find_edge g a b = Some e <->
  exists r i, e = (a, i) /\ nth_error g a = Some r /\ first_pos r b i.

Check C05_list_contains_edge : forall g a b,
  al_contains_edge g a b = true <-> exists i w, al_get_edge g (a, i) = Some (b, w).

Check C05_list_add_edge_panics : forall g a b w,
  (length g <= a \/ length g <= b) <-> al_add_edge g a b w = Panic.

Check C05_list_add_edge : forall g a b w e g', al_add_edge g a b w = Ok (e, g') ->
  exists r, nth_error g a = Some r /\ e = (a, length r) /\
    nth_error g' a = Some (r ++ [(b, w)]) /\
    length g' = length g /\
    (forall a', a' <> a -> nth_error g' a' = nth_error g a') /\
    al_get_edge g' e = Some (b, w) /\
    (forall e0 p, al_get_edge g e0 = Some p -> al_get_edge g' e0 = Some p).

Check C05_list_update_edge_panics : forall g a b w,
  (length g <= a \/ length g <= b) <-> al_update_edge g a b w = Panic.

Check C05_list_update_edge : forall g a b w e g', al_update_edge g a b w = Ok (e, g') ->
  (al_find_edge g a b = Some e /\
   al_get_edge g' e = Some (b, w) /\
   (forall e0, e0 <> e -> al_get_edge g' e0 = al_get_edge g e0) /\
   (forall e0, al_edge_endpoints g' e0 = al_edge_endpoints g e0) /\
   length g' = length g) \/
  (al_find_edge g a b = None /\ al_add_edge g a b w = Ok (e, g')).

Check C05_list_endpoints_stable : forall ops, no_clear ops -> forall g e p,
  al_edge_endpoints g e = Some p -> al_edge_endpoints (al_final g ops) e = Some p.

Check C05_list_weight_stable : forall g o e w, fst o <> 3 ->
  al_edge_weight g e = Some w ->
  al_edge_weight (fst (AdjListM.step g o)) e = Some w \/
  (fst o = 2 /\ al_find_edge g (arg (snd o) 0) (arg (snd o) 1) = Some e /\
   al_edge_weight (fst (AdjListM.step g o)) e = Some (arg (snd o) 2)) \/
  (fst o = 8 /\ e = (arg (snd o) 0, arg (snd o) 1) /\
   al_edge_weight (fst (AdjListM.step g o)) e = Some (arg (snd o) 2)).

Check C05_list_edge_count_sum : forall g : alist,
  al_edge_count g = list_sum (map (@length (nat * nat)) g).

Check C05_list_history_refines : forall ops,
  al_final al_new ops = al_abs (lspec_final ops) /\
  al_edge_count (al_final al_new ops) = length (snd (lspec_final ops)) /\
  al_node_count (al_final al_new ops) = fst (lspec_final ops).

Print Assumptions C05_find_edge_pos_cutoff_free.
Print Assumptions C05_lin_search_found.
Print Assumptions C05_lin_search_insert.
Print Assumptions C05_find_edge_pos.
Print Assumptions C05_csr_init_invariant.
Print Assumptions C05_csr_step_invariant.
Print Assumptions C05_csr_queries_total.
Print Assumptions C05_csr_history_invariant.
Print Assumptions C05_csr_final_is_run_state.
Print Assumptions C05_csr_refines_add_edge.
Print Assumptions C05_csr_add_edge_out_of_range.
Print Assumptions C05_csr_add_edge_existing.
Print Assumptions C05_csr_refines_add_node.
Print Assumptions C05_csr_refines_clear_edges.
Print Assumptions C05_csr_refines_queries.
Print Assumptions C05_csr_undirected_symmetric.
Print Assumptions C05_csr_undirected_both_rows.
Print Assumptions C05_csr_undirected_debug_assert.
Print Assumptions C05_csr_history_refines.
Print Assumptions C05_csr_run_is_spec_run.
Print Assumptions C05_from_sorted_iff.
Print Assumptions C05_from_sorted_represents.
Print Assumptions C05_list_find_edge.
Print Assumptions C05_list_contains_edge.
Print Assumptions C05_list_add_edge_panics.
Print Assumptions C05_list_add_edge.
Print Assumptions C05_list_update_edge_panics.
Print Assumptions C05_list_update_edge.
Print Assumptions C05_list_endpoints_stable.
Print Assumptions C05_list_weight_stable.
Print Assumptions C05_list_edge_count_sum.
Print Assumptions C05_list_history_refines.
