(* C18 — graph6 strings and Dot text.
   graph6: for every order up to 258047 the encoder produces exactly the graph6 string of the
   format description (both size headers), and the decoder gives back the order and exactly the
   pairs whose bit is set.
   Dot: whatever a weight prints, its label ends at the quote the writer appends, and the whole
   text lexes and parses as a DOT graph whose node statements are the node indices and whose edge
   statements are the edges, with the connector of the graph kind.
   This file holds only the property theorems (closed by [exact]), their pinned statements
   ([Check]), their assumptions, and examples by computation. *)
From Coq Require Import NArith List.
From PG Require Import Lib.ListArr Lib.Io Spec.Graph6Spec Model.Graph6M Model.DotM Spec.DotLex
  Proofs.Graph6P Proofs.DotP.
Import ListNotations.

(* ---- graph6 ---- *)

(* The encoder output is the graph6 string, for every bit list and both header forms:
   n <= 62 gives the single byte n+63, 63 <= n <= 258047 gives 126 and three bytes. *)
Theorem C18_g6_spec_exact : forall n upper,
  (n <= 258047)%N -> encode n upper = Ok (graph6 n upper).
Proof. intros n upper Hn. exact (encode_spec_exact n upper Hn). Qed.

(* Larger orders panic ("Graph order not supported."). *)
Theorem C18_g6_too_large : forall n upper,
  (258047 < n)%N -> encode n upper = Panic.
Proof. intros n upper Hn. exact (encode_too_large n upper Hn). Qed.

(* The upper triangle of an n-node graph has n(n-1)/2 entries. *)
Theorem C18_g6_upper_pairs_length : forall n,
  length (Graph6Spec.upper_pairs n) = n * (n - 1) / 2.
Proof. intros n. exact (upper_pairs_length n). Qed.

(* decode (encode g): never a panic (debug or release arithmetic), the order comes back, and the
   edges are exactly the upper-triangle pairs whose bit is set, in upper-triangle order. *)
Theorem C18_g6_roundtrip : forall debug n upper,
  (N.of_nat n <= 258047)%N -> length upper = n * (n - 1) / 2 ->
  exists s, encode (N.of_nat n) upper = Ok s /\
            decode debug s =
              Ok (n, map fst (filter snd (combine (Graph6Spec.upper_pairs n) upper))).
Proof. intros debug n upper Hn Hlen. exact (decode_encode debug n upper Hn Hlen). Qed.

(* from_graph6_string of a valid string: the graph6 string of an n-node adjacency structure
   decodes to n and exactly its set pairs. *)
Theorem C18_g6_decode_valid : forall debug n upper,
  (N.of_nat n <= 258047)%N -> length upper = n * (n - 1) / 2 ->
  decode debug (graph6 (N.of_nat n) upper) =
    Ok (n, map fst (filter snd (combine (Graph6Spec.upper_pairs n) upper))).
Proof. intros debug n upper Hn Hlen. exact (decode_valid debug n upper Hn Hlen). Qed.

(* ---- Dot ---- *)

(* The escaped label followed by the closing quote the writer appends: the DOT string scanner
   stops exactly at that quote, whatever the weight printed. *)
Theorem C18_dot_escape_safe : forall alternate s rest,
  scan_string (escaped alternate s ++ [QUOTE] ++ rest) = Some (escaped alternate s, rest).
Proof. intros alternate s rest. exact (escape_safe alternate s rest). Qed.

(* No raw newline survives in a label. *)
Theorem C18_dot_escape_no_newline : forall alternate s, ~ In NL (escaped alternate s).
Proof. intros alternate s. exact (escaped_no_newline alternate s). Qed.

(* Lexical structure, for all indices: the text is this token sequence; in particular every
   label is one string token and no weight adds, removes or splits a token. *)
Theorem C18_dot_tokens : forall directed alternate c nodes edges,
  lex LDef (render directed alternate c nodes edges) =
  Some (all_toks directed alternate c nodes edges).
Proof. intros directed alternate c nodes edges. exact (lex_render directed alternate c nodes edges). Qed.

(* Every graph kind, every Config, every weight text: the output parses (Spec/DotLex.v) to exactly
   the node indices and the edges.  Indices are usize values. *)
Theorem C18_dot_structure : forall directed alternate c nodes edges,
  Forall (fun x => (N.of_nat (fst x) < 18446744073709551616)%N) nodes ->
  Forall (fun e => (N.of_nat (fst (fst e)) < 18446744073709551616)%N /\
                   (N.of_nat (snd (fst e)) < 18446744073709551616)%N) edges ->
  parse_dot directed (c_content_only c) (render directed alternate c nodes edges) =
  Some (map fst nodes, map (fun '(s, t, _) => (s, t)) edges).
Proof.
  intros directed alternate c nodes edges Hn He.
  exact (dot_structure directed alternate c nodes edges Hn He).
Qed.

(* ---- examples ---- *)

(* the path 0-1-2-3-4 is "DhC" *)
Example C18_g6_example_5 :
  let upper := [true; false; true; false; false; true; false; false; false; true] in
  encode 5 upper = Ok [68; 104; 67]%N /\
  graph6 5 upper = [68; 104; 67]%N /\
  decode true [68; 104; 67]%N = Ok (5, [(0, 1); (1, 2); (2, 3); (3, 4)]).
Proof. vm_compute. repeat split; reflexivity. Qed.

(* 63 nodes, edges 0-1 and 61-62: long header 126 63 63 126, then 326 bytes *)
Example C18_g6_example_63 :
  let upper := true :: repeat false 1951 ++ [true] in
  let s := ([126; 63; 63; 126; 95] ++ repeat 63 324 ++ [71])%N in
  encode 63 upper = Ok s /\ graph6 63 upper = s /\
  decode true s = Ok (63, [(0, 1); (61, 62)]) /\ decode false s = Ok (63, [(0, 1); (61, 62)]).
Proof. vm_compute. repeat split; reflexivity. Qed.

(* digraph, rankdir LR; node 0 prints  a"b\c<newline>d , the edge prints  "]<newline>}  *)
Example C18_dot_example :
  let c := mkCfg false false false false false 3 in
  let text := render true false c [(0, [97; 34; 98; 92; 99; 10; 100]%N); (1, [120]%N)]
                                  [(0, 1, [34; 93; 10; 125]%N)] in
  text =
    [100; 105; 103; 114; 97; 112; 104; 32; 123; 10;
     32; 32; 32; 32; 114; 97; 110; 107; 100; 105; 114; 61; 34; 76; 82; 34; 10;
     32; 32; 32; 32; 48; 32; 91; 32; 108; 97; 98; 101; 108; 32; 61; 32; 34;
       97; 92; 34; 98; 92; 92; 99; 92; 108; 100; 34; 32; 93; 10;
     32; 32; 32; 32; 49; 32; 91; 32; 108; 97; 98; 101; 108; 32; 61; 32; 34; 120; 34; 32; 93; 10;
     32; 32; 32; 32; 48; 32; 45; 62; 32; 49; 32; 91; 32; 108; 97; 98; 101; 108; 32; 61; 32; 34;
       92; 34; 93; 92; 108; 125; 34; 32; 93; 10;
     125; 10]%N /\
  parse_dot true false text = Some ([0; 1], [(0, 1)]).
Proof. vm_compute. split; reflexivity. Qed.

(* the parser is not blind: the same node statement with the label written unescaped
   ( x" ]<newline>7 [ label = "y ) contains a second node statement *)
Example C18_dot_unescaped_injects :
  let w := [120; 34; 32; 93; 10; 55; 32; 91; 32; 108; 97; 98; 101; 108; 32; 61; 32; 34; 121]%N in
  let c := mkCfg false false false false true 0 in
  parse_dot false true (INDENT ++ decimal 0 ++ S_LBRACK ++ S_LABEL ++ w ++ S_ENDLABEL ++ S_RBRACK)
    = Some ([0; 7], []) /\
  parse_dot false true (render false false c [(0, w)] []) = Some ([0], []).
Proof. vm_compute. split; reflexivity. Qed.

Check C18_g6_spec_exact : forall n upper,
  (n <= 258047)%N -> encode n upper = Ok (graph6 n upper).
Check C18_g6_too_large : forall n upper,
  (258047 < n)%N -> encode n upper = Panic.
Check C18_g6_upper_pairs_length : forall n,
  length (Graph6Spec.upper_pairs n) = n * (n - 1) / 2.
Check C18_g6_roundtrip : forall debug n upper,
  (N.of_nat n <= 258047)%N -> length upper = n * (n - 1) / 2 ->
  exists s, encode (N.of_nat n) upper = Ok s /\
            decode debug s =
              Ok (n, map fst (filter snd (combine (Graph6Spec.upper_pairs n) upper))).
Check C18_g6_decode_valid : forall debug n upper,
  (N.of_nat n <= 258047)%N -> length upper = n * (n - 1) / 2 ->
  decode debug (graph6 (N.of_nat n) upper) =
    Ok (n, map fst (filter snd (combine (Graph6Spec.upper_pairs n) upper))).
Check C18_dot_escape_safe : forall alternate s rest,
  scan_string (escaped alternate s ++ [QUOTE] ++ rest) = Some (escaped alternate s, rest).
Check C18_dot_escape_no_newline : forall alternate s, ~ In NL (escaped alternate s).
Check C18_dot_tokens : forall directed alternate c nodes edges,
  lex LDef (render directed alternate c nodes edges) =
  Some (all_toks directed alternate c nodes edges).
Check C18_dot_structure : forall directed alternate c nodes edges,
  Forall (fun x => (N.of_nat (fst x) < 18446744073709551616)%N) nodes ->
  Forall (fun e => (N.of_nat (fst (fst e)) < 18446744073709551616)%N /\
                   (N.of_nat (snd (fst e)) < 18446744073709551616)%N) edges ->
  parse_dot directed (c_content_only c) (render directed alternate c nodes edges) =
  Some (map fst nodes, map (fun '(s, t, _) => (s, t)) edges).

Print Assumptions C18_g6_spec_exact.
Print Assumptions C18_g6_too_large.
Print Assumptions C18_g6_upper_pairs_length.
Print Assumptions C18_g6_roundtrip.
Print Assumptions C18_g6_decode_valid.
Print Assumptions C18_dot_escape_safe.
Print Assumptions C18_dot_escape_no_newline.
Print Assumptions C18_dot_tokens.
Print Assumptions C18_dot_structure.
