(* C04 — MatrixGraph is one simple graph: exactly the edges added and not since
   removed (directly or with an endpoint), with their latest weights; growing the
   matrix never loses, moves or invents an edge.
   This file holds only the property theorems (closed by [exact]), their pinned
   statements ([Check]) and their assumptions.  Definitions used in statements:
     MatrixM   : the model (relocate_rows, extend_flat_square, tri_pos, update_edge, ...)
     MatrixSpec: same_pairb, sg, spec_step, op_ok, replay, hist_ok
     MatrixP   : MInv (structural invariant), live, ELive (edges join live nodes),
                 same_ids, next_id, adj_len, nsome
     MatrixO   : scan_spec, all_edges (what the iterators must list). *)
From PG Require Import Lib.ListArr Lib.Io Model.MatrixM Spec.MatrixSpec
  Proofs.MatrixReloc Proofs.MatrixTri Proofs.MatrixP Proofs.MatrixH Proofs.MatrixO.

(* ---- T1: growing the flat square matrix in place ---------------------- *)

(* For every old < new (not only powers of two) and both settings of the debug
   assertions, the relocation loop returns normally (no out-of-bounds swap, the
   block branch only on disjoint in-bounds ranges, both debug_assert!s hold),
   every old cell (r, c) ends up at r*new+c, and every other cell is null. *)
Theorem C04_relocate : forall old new debug (l : list (option nat)),
  old < new -> length l = old * old ->
  exists l', relocate_rows debug (ensure_len l (new * new)) old new (old - 1) = Ok l' /\
    length l' = new * new /\
    (forall r c, r < old -> c < old -> nth_error l' (r * new + c) = nth_error l (r * old + c)) /\
    (forall r c, r < new -> c < new -> old <= r \/ old <= c -> nth_error l' (r * new + c) = Some None).
Proof. intros old new debug l Hlt Hlen. exact (relocate_spec old new l Hlt Hlen debug). Qed.

Theorem C04_extend_flat_square : forall debug (l : list (option nat)) old newc exact,
  old < newc -> length l = old * old ->
  exists l' new, extend_flat_square debug l old newc exact = Ok (l', new) /\
    new = (if exact then newc else Nat.max (next_power_of_two newc) 4) /\
    newc <= new /\ (exact = true -> new = newc) /\
    length l' = new * new /\
    (forall r c, r < old -> c < old -> nth_error l' (r * new + c) = nth_error l (r * old + c)) /\
    (forall r c, r < new -> c < new -> old <= r \/ old <= c -> nth_error l' (r * new + c) = Some None).
Proof. intros debug l old newc exact Hlt Hlen. exact (extend_flat_square_spec debug l old newc exact Hlt Hlen). Qed.

(* ---- T2: the lower-triangular index ----------------------------------- *)

Theorem C04_tri_index :
  (forall r c, tri_pos r c = tri_pos c r) /\
  (forall r c r' c', tri_pos r c = tri_pos r' c' -> (r = r' /\ c = c') \/ (r = c' /\ c = r')) /\
  (forall n r c, r < n -> c < n -> tri_pos r c < tri_pos (n - 1) (n - 1) + 1) /\
  (forall n r c, 1 <= n -> n <= r \/ n <= c -> tri_pos (n - 1) (n - 1) + 1 <= tri_pos r c).
Proof. exact tri_index_spec. Qed.

(* ---- T3: update_edge -------------------------------------------------- *)

(* The call may grow the matrix (past any capacity); whatever it does, the
   named slot now holds w, the returned value is the previous weight, every
   other slot reads as before, and nb_edges counts one more exactly when the
   slot was empty. *)
Theorem C04_get_after_update : forall directed notzero debug g a b w old g',
  MInv directed g -> update_edge directed notzero debug g a b w = Ok (inr old, g') ->
  MInv directed g' /\ same_ids g g' /\
  get_edge_weight directed g' a b = Some w /\
  old = get_edge_weight directed g a b /\
  (forall x y, same_pairb directed a b x y = false ->
     get_edge_weight directed g' x y = get_edge_weight directed g x y) /\
  nbe g' = nbe g + (match old with None => 1 | Some _ => 0 end).
Proof. intros directed notzero debug g a b w old g' I E. exact (update_edge_returned directed notzero debug g a b w old g' I E). Qed.

(* update_edge never goes out of bounds or out of fuel; its only panic is the
   documented one (NotZero given the zero weight). *)
Theorem C04_update_total : forall directed notzero debug g a b w, MInv directed g ->
  exists r g', update_edge directed notzero debug g a b w = Ok (r, g') /\
    (r = inl tt <-> andb notzero (Nat.eqb w 0) = true).
Proof. intros directed notzero debug g a b w I. exact (update_edge_total directed notzero debug g a b w I). Qed.

(* "another slot", spelled out *)
Theorem C04_same_pair : forall directed a b x y,
  same_pairb directed a b x y = false <->
  ~ ((a = x /\ b = y) \/ (directed = false /\ a = y /\ b = x)).
Proof. intros directed a b x y. exact (same_pairb_false directed a b x y). Qed.

(* an undirected edge is visible from both endpoints *)
Theorem C04_undirected_symmetric : forall g x y,
  get_edge_weight false g x y = get_edge_weight false g y x.
Proof. intros g x y. exact (get_undirected_sym g x y). Qed.

(* growing alone (any target, exact or not) changes no answer *)
Theorem C04_grow_invisible : forall directed debug g m exact, MInv directed g ->
  exists g1, extend_capacity_for_node directed debug g m exact = Ok g1 /\
    MInv directed g1 /\ same_ids g g1 /\ nbe g1 = nbe g /\ ncap g <= ncap g1 /\ m < ncap g1 /\
    (ncap g <= m -> exact = true -> ncap g1 = m + 1) /\
    forall x y, get_edge_weight directed g1 x y = get_edge_weight directed g x y.
Proof. intros directed debug g m exact I. exact (extend_for_node_spec directed debug g m exact I). Qed.


(* add_edge is update_edge followed by assert!(old.is_none()); add_or_update_edge
   is update_edge; try_update_edge is update_edge once both ids are below the
   current matrix capacity, and otherwise refuses without touching the graph. *)
Theorem C04_add_edge : forall directed notzero debug g a b w,
  add_edge directed notzero debug g a b w =
  rmap (fun '(r, g') => (match r with inr None => true | _ => false end, g'))
       (update_edge directed notzero debug g a b w).
Proof. intros directed notzero debug g a b w. exact eq_refl. Qed.

Theorem C04_add_or_update_edge : forall directed notzero debug g a b w, MInv directed g ->
  add_or_update_edge directed notzero debug g a b w =
  rmap ures_of (update_edge directed notzero debug g a b w).
Proof. intros directed notzero debug g a b w I. exact (add_or_update_edge_eq directed notzero debug g a b w I). Qed.

Theorem C04_try_update_edge : forall directed notzero debug g a b w,
  (a < ncap g -> b < ncap g ->
     try_update_edge directed notzero debug g a b w =
     rmap ures_of (update_edge directed notzero debug g a b w)) /\
  (ncap g <= a \/ ncap g <= b ->
     exists i, try_update_edge directed notzero debug g a b w = Ok (UErr (NodeMissed i), g)).
Proof. intros directed notzero debug g a b w. exact (try_update_edge_cases directed notzero debug g a b w). Qed.

(* edge operations between existing nodes keep "every edge joins existing nodes" *)
Theorem C04_edges_stay_live : forall directed notzero debug g a b w r g',
  MInv directed g -> ELive directed g ->
  (live g a -> live g b -> update_edge directed notzero debug g a b w = Ok (r, g') -> ELive directed g') /\
  (forall o, remove_edge directed g a b = Ok (o, g') -> ELive directed g').
Proof.
  intros directed notzero debug g a b w r g' I EL.
  exact (conj (fun La Lb E => elive_update_edge directed notzero debug g a b w r g' I EL La Lb E)
              (fun o E => elive_remove_edge directed g a b o g' I EL E)).
Qed.

(* ---- T4: removals and id reuse ---------------------------------------- *)

Theorem C04_remove_edge : forall directed g a b, MInv directed g ->
  exists g', remove_edge directed g a b = Ok (get_edge_weight directed g a b, g') /\
    MInv directed g' /\ same_ids g g' /\ ncap g' = ncap g /\
    nbe g' + osome (get_edge_weight directed g a b) = nbe g /\
    forall x y, get_edge_weight directed g' x y =
                if same_pairb directed a b x y then None else get_edge_weight directed g x y.
Proof. intros directed g a b I. exact (remove_edge_spec directed g a b I). Qed.

Theorem C04_try_remove_edge : forall directed g a b,
  try_remove_edge directed g a b = remove_edge directed g a b.
Proof. intros directed g a b. exact eq_refl. Qed.

Theorem C04_remove_node : forall directed g a, MInv directed g -> live g a ->
  exists w g', remove_node directed g a = Ok (Some w, g') /\ get_node_weight g a = Some w /\
    MInv directed g' /\
    (forall y, live g y -> get_edge_weight directed g' a y = None /\ get_edge_weight directed g' y a = None) /\
    (forall x y, x <> a -> y <> a -> get_edge_weight directed g' x y = get_edge_weight directed g x y) /\
    (forall j, live g' j <-> j <> a /\ live g j) /\
    (next_id g' = a \/ (a + 1 = ub g /\ ub g' = a)) /\
    (ELive directed g -> ELive directed g' /\
       forall y, get_edge_weight directed g' a y = None /\ get_edge_weight directed g' y a = None).
Proof. intros directed g a I La. exact (remove_node_live directed g a I La). Qed.

Theorem C04_reused_id_clean : forall directed cap capcheck g w i g',
  MInv directed g -> ELive directed g -> add_node cap capcheck g w = Ok (i, g') ->
  i = next_id g /\ ~ live g i /\ live g' i /\ get_node_weight g' i = Some w /\
  MInv directed g' /\ ELive directed g' /\
  (forall y, get_edge_weight directed g' i y = None /\ get_edge_weight directed g' y i = None) /\
  (forall x y, get_edge_weight directed g' x y = get_edge_weight directed g x y) /\
  (forall j, j <> i -> (live g' j <-> live g j) /\ get_node_weight g' j = get_node_weight g j).
Proof. intros directed cap capcheck g w i g' I EL E. exact (reused_id_clean directed cap capcheck g w i g' I EL E). Qed.

(* ---- T5: histories ---------------------------------------------------- *)

Theorem C04_with_capacity : forall directed debug k,
  exists g0, with_capacity directed debug k = Ok g0 /\ ncap g0 = k /\ Abs directed g0 sg_empty.
Proof. intros directed debug k. exact (abs_with_capacity directed debug k). Qed.

(* Every history of opcodes 0..9 whose edge operations name nodes existing at
   that moment: the final state satisfies the invariants and answers
   get_edge_weight / get_node_weight exactly as the abstract graph obtained by
   replaying the same operations on the specification. *)
Theorem C04_history : forall directed notzero debug cap capcheck ops g s,
  Abs directed g s -> hist_ok directed notzero debug cap capcheck g s ops ->
  Abs directed (fst (replay directed notzero debug cap capcheck g s ops))
               (snd (replay directed notzero debug cap capcheck g s ops)).
Proof. intros directed notzero debug cap capcheck ops g s A H. exact (replay_abs directed notzero debug cap capcheck ops g s A H). Qed.

Theorem C04_abs_unfold : forall directed g s, Abs directed g s ->
  MInv directed g /\ ELive directed g /\
  (forall i, get_node_weight g i = s_nw s i) /\
  (forall x y, get_edge_weight directed g x y = s_ew s x y).
Proof. intros directed g s A. exact (conj (ab_inv _ _ _ A) (conj (ab_elive _ _ _ A) (conj (ab_nw _ _ _ A) (ab_ew _ _ _ A)))). Qed.

(* ---- T6: the observers agree with get_edge_weight --------------------- *)

Theorem C04_edges : forall directed g a incoming, MInv directed g ->
  edges_of directed g a incoming =
  Ok (if Nat.leb (ncap g) a then [] else scan_spec directed g incoming a (seq 0 (ncap g))).
Proof. intros directed g a incoming I. exact (edges_of_spec directed g a incoming I). Qed.

Theorem C04_edge_references : forall directed g, MInv directed g ->
  edge_references directed g = Ok (all_edges directed g) /\
  length (all_edges directed g) = nbe g.
Proof. intros directed g I. exact (conj (edge_references_spec directed g I) (edge_count_spec directed g I)). Qed.

Theorem C04_nodes : forall directed g, MInv directed g ->
  ids_len g = length (iter_ids g) /\ NoDup (iter_ids g) /\
  forall i, In i (iter_ids g) <-> get_node_weight g i <> None.
Proof. intros directed g I. exact (conj (node_count_spec directed g I) (node_identifiers_spec directed g I)). Qed.

(* ---- Non-vacuity ------------------------------------------------------ *)

(* growth 3 -> 8 (block branch) and 3 -> 4 (overlapping, element-wise branch) *)
Example C04_relocate_3_8 :
  let l := [Some 1; None; Some 2;  None; Some 3; None;  Some 4; Some 5; None] in
  extend_flat_square true l 3 5 false =
  Ok ([Some 1; None; Some 2] ++ repeat None 5 ++ [None; Some 3; None] ++ repeat None 5 ++
      [Some 4; Some 5; None] ++ repeat None 5 ++ repeat None 40, 8).
Proof. vm_compute. reflexivity. Qed.

Example C04_relocate_3_4 :
  let l := [Some 1; None; Some 2;  None; Some 3; None;  Some 4; Some 5; None] in
  extend_flat_square true l 3 4 true =
  Ok ([Some 1; None; Some 2; None] ++ [None; Some 3; None; None] ++
      [Some 4; Some 5; None; None] ++ repeat None 4, 4).
Proof. vm_compute. reflexivity. Qed.

Definition C04_demo_ops : list line :=
  [(0, [100]%Z); (0, [101]%Z); (0, [102]%Z); (0, [103]%Z); (0, [104]%Z);
   (0, [105]%Z); (0, [106]%Z); (0, [107]%Z); (0, [108]%Z); (0, [109]%Z);
   (3, [0; 1; 10]%Z); (3, [1; 0; 11]%Z); (3, [0; 5; 7]%Z); (4, [0; 1; 12]%Z);
   (3, [9; 2; 3]%Z); (7, [1; 0]%Z); (2, [1]%Z); (0, [55]%Z); (6, [1; 9; 4]%Z)].

(* directed, Option null, debug assertions on, from with_capacity(2): the matrix
   grows 2 -> 8 -> 16 while holding edges; node 1 is removed and its id reused *)
Example C04_history_directed :
  exists g0, with_capacity true true 2 = Ok g0 /\
    hist_ok true false true 1000 false g0 sg_empty C04_demo_ops /\
    let g := fst (replay true false true 1000 false g0 sg_empty C04_demo_ops) in
    ncap g = 16 /\ nbe g = 3 /\ ids_len g = 10 /\
    get_edge_weight true g 0 5 = Some 7 /\ get_edge_weight true g 9 2 = Some 3 /\
    get_edge_weight true g 0 1 = None /\ get_edge_weight true g 1 0 = None /\
    get_edge_weight true g 1 9 = Some 4 /\ get_edge_weight true g 9 1 = None /\
    get_node_weight g 1 = Some 55.
Proof.
  eexists. split; [vm_compute; reflexivity|]. split.
  - vm_compute. repeat split; intros H; discriminate H.
  - vm_compute. repeat split; reflexivity.
Qed.

(* undirected, NotZero null: growth by ensure_len only, symmetric visibility *)
Example C04_history_undirected :
  exists g0, with_capacity false false 0 = Ok g0 /\
    hist_ok false true false 1000 false g0 sg_empty C04_demo_ops /\
    let g := fst (replay false true false 1000 false g0 sg_empty C04_demo_ops) in
    ncap g = 10 /\ nbe g = 3 /\
    get_edge_weight false g 5 0 = Some 7 /\ get_edge_weight false g 2 9 = Some 3 /\
    get_edge_weight false g 0 1 = None /\ get_edge_weight false g 9 1 = Some 4.
Proof.
  eexists. split; [vm_compute; reflexivity|]. split.
  - vm_compute. repeat split; intros H; discriminate H.
  - vm_compute. repeat split; reflexivity.
Qed.

Check C04_relocate : forall old new debug (l : list (option nat)),
  old < new -> length l = old * old ->
  exists l', relocate_rows debug (ensure_len l (new * new)) old new (old - 1) = Ok l' /\
    length l' = new * new /\
    (forall r c, r < old -> c < old -> nth_error l' (r * new + c) = nth_error l (r * old + c)) /\
    (forall r c, r < new -> c < new -> old <= r \/ old <= c -> nth_error l' (r * new + c) = Some None).
Check C04_extend_flat_square : forall debug (l : list (option nat)) old newc exact,
  old < newc -> length l = old * old ->
  exists l' new, extend_flat_square debug l old newc exact = Ok (l', new) /\
    new = (if exact then newc else Nat.max (next_power_of_two newc) 4) /\
    newc <= new /\ (exact = true -> new = newc) /\
    length l' = new * new /\
    (forall r c, r < old -> c < old -> nth_error l' (r * new + c) = nth_error l (r * old + c)) /\
    (forall r c, r < new -> c < new -> old <= r \/ old <= c -> nth_error l' (r * new + c) = Some None).
Check C04_tri_index :
  (forall r c, tri_pos r c = tri_pos c r) /\
  (forall r c r' c', tri_pos r c = tri_pos r' c' -> (r = r' /\ c = c') \/ (r = c' /\ c = r')) /\
  (forall n r c, r < n -> c < n -> tri_pos r c < tri_pos (n - 1) (n - 1) + 1) /\
  (forall n r c, 1 <= n -> n <= r \/ n <= c -> tri_pos (n - 1) (n - 1) + 1 <= tri_pos r c).
Check C04_get_after_update : forall directed notzero debug g a b w old g',
  MInv directed g -> update_edge directed notzero debug g a b w = Ok (inr old, g') ->
  MInv directed g' /\ same_ids g g' /\
  get_edge_weight directed g' a b = Some w /\
  old = get_edge_weight directed g a b /\
  (forall x y, same_pairb directed a b x y = false ->
     get_edge_weight directed g' x y = get_edge_weight directed g x y) /\
  nbe g' = nbe g + (match old with None => 1 | Some _ => 0 end).
Check C04_update_total : forall directed notzero debug g a b w, MInv directed g ->
  exists r g', update_edge directed notzero debug g a b w = Ok (r, g') /\
    (r = inl tt <-> andb notzero (Nat.eqb w 0) = true).
Check C04_same_pair : forall directed a b x y,
  same_pairb directed a b x y = false <->
  ~ ((a = x /\ b = y) \/ (directed = false /\ a = y /\ b = x)).
Check C04_undirected_symmetric : forall g x y,
  get_edge_weight false g x y = get_edge_weight false g y x.
Check C04_grow_invisible : forall directed debug g m exact, MInv directed g ->
  exists g1, extend_capacity_for_node directed debug g m exact = Ok g1 /\
    MInv directed g1 /\ same_ids g g1 /\ nbe g1 = nbe g /\ ncap g <= ncap g1 /\ m < ncap g1 /\
    (ncap g <= m -> exact = true -> ncap g1 = m + 1) /\
    forall x y, get_edge_weight directed g1 x y = get_edge_weight directed g x y.
Check C04_add_edge : forall directed notzero debug g a b w,
  add_edge directed notzero debug g a b w =
  rmap (fun '(r, g') => (match r with inr None => true | _ => false end, g'))
       (update_edge directed notzero debug g a b w).
Check C04_add_or_update_edge : forall directed notzero debug g a b w, MInv directed g ->
  add_or_update_edge directed notzero debug g a b w =
  rmap ures_of (update_edge directed notzero debug g a b w).
Check C04_try_update_edge : forall directed notzero debug g a b w,
  (a < ncap g -> b < ncap g ->
     try_update_edge directed notzero debug g a b w =
     rmap ures_of (update_edge directed notzero debug g a b w)) /\
  (ncap g <= a \/ ncap g <= b ->
     exists i, try_update_edge directed notzero debug g a b w = Ok (UErr (NodeMissed i), g)).
Check C04_edges_stay_live : forall directed notzero debug g a b w r g',
  MInv directed g -> ELive directed g ->
  (live g a -> live g b -> update_edge directed notzero debug g a b w = Ok (r, g') -> ELive directed g') /\
  (forall o, remove_edge directed g a b = Ok (o, g') -> ELive directed g').
Check C04_remove_edge : forall directed g a b, MInv directed g ->
  exists g', remove_edge directed g a b = Ok (get_edge_weight directed g a b, g') /\
    MInv directed g' /\ same_ids g g' /\ ncap g' = ncap g /\
    nbe g' + osome (get_edge_weight directed g a b) = nbe g /\
    forall x y, get_edge_weight directed g' x y =
                if same_pairb directed a b x y then None else get_edge_weight directed g x y.
Check C04_try_remove_edge : forall directed g a b,
  try_remove_edge directed g a b = remove_edge directed g a b.
Check C04_remove_node : forall directed g a, MInv directed g -> live g a ->
  exists w g', remove_node directed g a = Ok (Some w, g') /\ get_node_weight g a = Some w /\
    MInv directed g' /\
    (forall y, live g y -> get_edge_weight directed g' a y = None /\ get_edge_weight directed g' y a = None) /\
    (forall x y, x <> a -> y <> a -> get_edge_weight directed g' x y = get_edge_weight directed g x y) /\
    (forall j, live g' j <-> j <> a /\ live g j) /\
    (next_id g' = a \/ (a + 1 = ub g /\ ub g' = a)) /\
    (ELive directed g -> ELive directed g' /\
       forall y, get_edge_weight directed g' a y = None /\ get_edge_weight directed g' y a = None).
Check C04_reused_id_clean : forall directed cap capcheck g w i g',
  MInv directed g -> ELive directed g -> add_node cap capcheck g w = Ok (i, g') ->
  i = next_id g /\ ~ live g i /\ live g' i /\ get_node_weight g' i = Some w /\
  MInv directed g' /\ ELive directed g' /\
  (forall y, get_edge_weight directed g' i y = None /\ get_edge_weight directed g' y i = None) /\
  (forall x y, get_edge_weight directed g' x y = get_edge_weight directed g x y) /\
  (forall j, j <> i -> (live g' j <-> live g j) /\ get_node_weight g' j = get_node_weight g j).
Check C04_with_capacity : forall directed debug k,
  exists g0, with_capacity directed debug k = Ok g0 /\ ncap g0 = k /\ Abs directed g0 sg_empty.
Check C04_history : forall directed notzero debug cap capcheck ops g s,
  Abs directed g s -> hist_ok directed notzero debug cap capcheck g s ops ->
  Abs directed (fst (replay directed notzero debug cap capcheck g s ops))
               (snd (replay directed notzero debug cap capcheck g s ops)).
Check C04_abs_unfold : forall directed g s, Abs directed g s ->
  MInv directed g /\ ELive directed g /\
  (forall i, get_node_weight g i = s_nw s i) /\
  (forall x y, get_edge_weight directed g x y = s_ew s x y).
Check C04_edges : forall directed g a incoming, MInv directed g ->
  edges_of directed g a incoming =
  Ok (if Nat.leb (ncap g) a then [] else scan_spec directed g incoming a (seq 0 (ncap g))).
Check C04_edge_references : forall directed g, MInv directed g ->
  edge_references directed g = Ok (all_edges directed g) /\
  length (all_edges directed g) = nbe g.
Check C04_nodes : forall directed g, MInv directed g ->
  ids_len g = length (iter_ids g) /\ NoDup (iter_ids g) /\
  forall i, In i (iter_ids g) <-> get_node_weight g i <> None.

Print Assumptions C04_relocate.
Print Assumptions C04_extend_flat_square.
Print Assumptions C04_tri_index.
Print Assumptions C04_get_after_update.
Print Assumptions C04_update_total.
Print Assumptions C04_same_pair.
Print Assumptions C04_undirected_symmetric.
Print Assumptions C04_grow_invisible.
Print Assumptions C04_add_edge.
Print Assumptions C04_add_or_update_edge.
Print Assumptions C04_try_update_edge.
Print Assumptions C04_edges_stay_live.
Print Assumptions C04_remove_edge.
Print Assumptions C04_try_remove_edge.
Print Assumptions C04_remove_node.
Print Assumptions C04_reused_id_clean.
Print Assumptions C04_with_capacity.
Print Assumptions C04_history.
Print Assumptions C04_abs_unfold.
Print Assumptions C04_edges.
Print Assumptions C04_edge_references.
Print Assumptions C04_nodes.
Print Assumptions C04_relocate_3_8.
Print Assumptions C04_relocate_3_4.
Print Assumptions C04_history_directed.
Print Assumptions C04_history_undirected.
