(* C15b — maximum_matching (Gabow) returns a MAXIMUM matching.

   B1  Berge's theorem for finite undirected graphs (nodes, uadj adj) and matchings given as lists
       of pairs: flipping an augmenting path gives a matching with one more pair that covers what
       was covered; a larger matching gives an augmenting path; a matching is maximum exactly when
       it has no augmenting path.
   B2  For a view: a valid matching without augmenting path has the size of the exhaustive-search
       optimum max_matching_size (C15), and conversely.
   G1  On a view that lists every edge from both ends (vsymmetric), with MOk, EidOk, CapOk, the
       matching returned by maximum_matching has no augmenting path and its size is
       max_matching_size: the search is complete.  A search from a free vertex that ends without
       augmenting leaves a certificate (outer vertices, blossoms, inner vertices) that no matching
       covers that vertex and every matched vertex; this persists when the matching grows.
       vsymmetric cannot be dropped (a directed view, edges(a) listing outgoing edges only).

   This file holds only the property theorems (closed by [exact]), their pinned statements ([Check])
   and their assumptions. *)
From Coq Require Import Lia List.
From PG Require Import Lib.Io Model.View Model.MatchM Spec.Reach Spec.MatchSpec Spec.BergeSpec
  Proofs.MatchAccP Proofs.MatchOptP Proofs.MatchBaseP Proofs.MatchGreedyP Proofs.MatchCheckP
  Proofs.MatchInvP Proofs.MatchFindJoinP Proofs.MatchEidP Proofs.MatchTotalP
  Proofs.BergeP Proofs.GabowCertP Proofs.GabowOptP Proofs.GabowExP.

(* ================================================================== B1: Berge's theorem *)

(* the definitions are coherent: an augmenting path is an alternating path (simple, inside the
   graph, edges alternately outside and inside M), and its two ends are distinct *)
Theorem C15b_augmenting_alternating : forall nodes adj M l,
  augmenting nodes adj M l -> alternating nodes adj M l.
Proof. exact augmenting_alternating. Qed.

Theorem C15b_augmenting_ends_distinct : forall nodes adj M l,
  augmenting nodes adj M l -> hd 0 l <> last l 0.
Proof. exact augmenting_ends_distinct. Qed.

(* (a) flipping an augmenting path: a matching with one more pair, which covers every vertex that
   was covered and every vertex of the path (in particular its two free ends) *)
Theorem C15b_berge_flip : forall nodes adj M l,
  is_matching nodes adj M -> augmenting nodes adj M l ->
  is_matching nodes adj (flip M l) /\ length (flip M l) = S (length M) /\
  (forall x, In x (endpoints M) -> In x (endpoints (flip M l))) /\
  (forall x, In x l -> In x (endpoints (flip M l))).
Proof. exact berge_flip. Qed.

(* (b) a larger matching gives an augmenting path *)
Theorem C15b_berge_path : forall nodes adj M M',
  is_matching nodes adj M -> is_matching nodes adj M' -> length M < length M' ->
  exists l, augmenting nodes adj M l.
Proof. exact berge_path. Qed.

(* Berge's theorem *)
Theorem C15b_berge : forall nodes adj M,
  is_maximum nodes adj M <-> (is_matching nodes adj M /\ forall l, ~ augmenting nodes adj M l).
Proof. exact berge. Qed.

(* the vertex form: the ends of an augmenting path can be added to the covered set; and if some
   matching covers a free vertex u and everything M covers, M has an augmenting path *)
Theorem C15b_augmenting_extends : forall nodes adj M l,
  is_matching nodes adj M -> augmenting nodes adj M l ->
  extends nodes adj M (hd 0 l) /\ extends nodes adj M (last l 0).
Proof. exact augmenting_extends. Qed.

Theorem C15b_extends_augmenting : forall nodes adj M u,
  is_matching nodes adj M -> mfree M u -> extends nodes adj M u -> exists l, augmenting nodes adj M l.
Proof. exact extends_augmenting. Qed.

(* ================================================================== B2: mate vectors of a view *)

(* pairs and free vertices of m_edges m, read on the mate vector *)
Theorem C15b_medge_mate : forall m x y, msym m -> (medge (m_edges m) x y <-> m_mate m x = Some y).
Proof. exact medge_m_edges. Qed.

Theorem C15b_mfree_mate : forall m x, msym m -> (mfree (m_edges m) x <-> m_mate m x = None).
Proof. exact mfree_m_edges. Qed.

(* a valid matching without augmenting path has the size of the exhaustive-search optimum *)
Theorem C15b_no_augmenting_is_maximum : forall v m n, VOk v -> valid_matching v m n ->
  (forall l, ~ vaugmenting v m l) -> n = max_matching_size (vnodes v) (vadj v).
Proof. exact no_augmenting_is_maximum. Qed.

Theorem C15b_maximum_no_augmenting : forall v m n, VOk v -> valid_matching v m n ->
  n = max_matching_size (vnodes v) (vadj v) -> forall l, ~ vaugmenting v m l.
Proof. exact maximum_no_augmenting. Qed.

(* the same when no free vertex can be added to the covered set *)
Theorem C15b_no_extension_is_maximum : forall v m n, VOk v -> valid_matching v m n ->
  (forall u, m_mate m u = None -> ~ extends (vnodes v) (vadj v) (m_edges m) u) ->
  n = max_matching_size (vnodes v) (vadj v).
Proof. exact no_extension_is_maximum. Qed.

(* ================================================================== G1: the search is complete *)

(* Edmonds' certificate, as pure counting: outer vertices O grouped into blossoms by fi (n for the
   blossom of the free vertex start), every outer vertex but start matched inside its blossom or to
   its first inner vertex, every edge out of an outer vertex leading to the mate of an outer vertex
   or staying inside the blossom.  Then no matching covers start and every matched vertex. *)
Theorem C15b_cert_no_cover : forall (n : nat) (M : nat -> option nat) (O : nat -> bool)
    (fi : nat -> nat) (start : nat) (adjP : nat -> nat -> Prop),
  (forall i j, M i = Some j -> M j = Some i /\ i <> j) ->
  (forall i j, M i = Some j -> i < n) ->
  (forall x, O x = true -> x < n) ->
  O start = true -> M start = None -> fi start = n ->
  (forall u, O u = true -> u <> start ->
     exists w, M u = Some w /\ (O w = true /\ fi w = fi u \/ O w = false /\ fi u = w)) ->
  (forall x y, O x = true -> adjP x y -> y <> x ->
     O y = false /\ (exists mv, M y = Some mv /\ O mv = true) \/ O y = true /\ fi x = fi y) ->
  forall N : list (nat * nat), NoDup (endpoints N) ->
  (forall i j, In (i, j) N -> adjP i j /\ adjP j i) ->
  (forall x, M x <> None -> In x (endpoints N)) -> ~ In start (endpoints N).
Proof. exact cert_no_cover. Qed.

(* (ii) one search from a free vertex k, between two searches (BInv): either the matching is
   unchanged and no matching of the view covers k and every matched vertex; or every matched vertex
   stays matched and k is matched *)
Theorem C15b_search_from_free : forall v, MOk v -> EidOk v -> CapOk v -> vsymmetric v ->
  forall k s s', BInv v s -> k < vbound v -> m_mate (mate s) k = None -> try_start v s k = Ok s' ->
  (mate s' = mate s /\ ~ mext v (mate s) k) \/
  ((forall x, m_mate (mate s) x <> None -> m_mate (mate s') x <> None) /\ m_mate (mate s') k <> None).
Proof. exact try_start_res. Qed.

(* (i) persistence: a vertex that cannot be added to the covered set cannot be added later, when
   more vertices are covered *)
Theorem C15b_no_ext_persists : forall v m m' u,
  (forall x, m_mate m x <> None -> m_mate m' x <> None) -> ~ mext v m u -> ~ mext v m' u.
Proof. exact no_ext_persists. Qed.

(* at the end no free vertex can be added to the covered set ... *)
Theorem C15b_maximum_matching_no_ext : forall v debug m n,
  MOk v -> EidOk v -> CapOk v -> vsymmetric v -> maximum_matching v debug = Ok (m, n) ->
  forall u, m_mate m u = None -> ~ mext v m u.
Proof. exact maximum_matching_no_ext. Qed.

(* ... so no augmenting path is left ... *)
Theorem C15b_maximum_matching_no_augmenting : forall v debug m n,
  MOk v -> EidOk v -> CapOk v -> vsymmetric v -> maximum_matching v debug = Ok (m, n) ->
  forall l, ~ vaugmenting v m l.
Proof. exact maximum_matching_no_augmenting. Qed.

(* ... and the matching is maximum *)
Theorem C15b_maximum_matching_maximum : forall v debug m n,
  MOk v -> EidOk v -> CapOk v -> vsymmetric v -> maximum_matching v debug = Ok (m, n) ->
  valid_matching v m n /\ n = max_matching_size (vnodes v) (vadj v).
Proof. exact maximum_matching_maximum. Qed.

(* with totality (C15): maximum_matching returns, and returns a maximum matching *)
Theorem C15b_maximum_matching_total_maximum : forall v debug,
  MOk v -> EidOk v -> CapOk v -> vsymmetric v ->
  exists m n, maximum_matching v debug = Ok (m, n) /\ valid_matching v m n /\
    n = max_matching_size (vnodes v) (vadj v) /\
    is_maximum (vnodes v) (vadj v) (m_edges m) /\
    (forall m' n', valid_matching v m' n' -> n' <= n) /\
    (forall l, ~ vaugmenting v m l).
Proof. exact maximum_matching_total_maximum. Qed.

(* vsymmetric cannot be dropped: on a directed view (edges 1 -> 0, 1 -> 2, 2 -> 3; edges(a) lists
   outgoing edges only) the result has 1 pair, the graph treated as undirected has 2 *)
Theorem C15b_maximum_matching_needs_vsymmetric :
  exists v m n, MOk v /\ EidOk v /\ CapOk v /\ maximum_matching v true = Ok (m, n) /\
                valid_matching v m n /\ n < max_matching_size (vnodes v) (vadj v).
Proof. exact maximum_matching_needs_vsymmetric. Qed.

(* boolean checks of the hypotheses *)
Theorem C15b_vsym_check : forall v, vsym_b v = true -> vsymmetric v.
Proof. exact vsym_b_ok. Qed.

Theorem C15b_hyps_check : forall v, hyps_b v = true -> MOk v /\ EidOk v /\ CapOk v /\ vsymmetric v.
Proof. exact hyps_b_ok. Qed.

(* ================================================================== examples *)

(* the Petersen graph: 10 nodes, a perfect matching *)
Example C15b_petersen :
  (MOk petersen /\ EidOk petersen /\ CapOk petersen /\ vsymmetric petersen) /\
  max_matching_size (vnodes petersen) (vadj petersen) = 5 /\
  maximum_matching petersen true =
    Ok ([Some 1; Some 0; Some 3; Some 2; Some 9; Some 7; Some 8; Some 5; Some 6; Some 4], 5) /\
  m_is_perfect petersen 5 = true.
Proof.
  split; [apply hyps_b_ok; vm_compute; reflexivity|].
  repeat split; vm_compute; reflexivity.
Qed.

(* a 5-cycle with two pendant nodes (ex_view of C15): greedy finds 2 pairs, the blossom search 3 *)
Example C15b_blossom7 :
  (MOk ex_view /\ EidOk ex_view /\ CapOk ex_view /\ vsymmetric ex_view) /\
  max_matching_size (vnodes ex_view) (vadj ex_view) = 3 /\
  greedy_inner ex_view = Ok ([Some 1; Some 0; Some 3; Some 2; None; None; None], 2) /\
  maximum_matching ex_view true = Ok ([Some 1; Some 0; Some 6; Some 4; Some 3; None; Some 2], 3).
Proof.
  split; [apply hyps_b_ok; vm_compute; reflexivity|].
  repeat split; vm_compute; reflexivity.
Qed.

(* a bipartite graph on {0,1,2} + {3,4,5}: greedy finds 2 pairs, the optimum is 3 *)
Example C15b_bip6 :
  (MOk bip6 /\ EidOk bip6 /\ CapOk bip6 /\ vsymmetric bip6) /\
  max_matching_size (vnodes bip6) (vadj bip6) = 3 /\
  greedy_inner bip6 = Ok ([Some 3; None; Some 4; Some 0; Some 2; None], 2) /\
  maximum_matching bip6 true = Ok ([Some 4; Some 3; Some 5; Some 1; Some 0; Some 2], 3).
Proof.
  split; [apply hyps_b_ok; vm_compute; reflexivity|].
  repeat split; vm_compute; reflexivity.
Qed.

(* B1 is not vacuous: on the 7-node view the greedy matching 0 1, 2 3 has the augmenting path
   5 0 1 2 3 4, and flipping it gives 5 0, 1 2, 3 4 *)
Example C15b_augmenting_example :
  greedy_inner ex_view = Ok (greedy7, 2) /\
  vaugmenting ex_view greedy7 [5; 0; 1; 2; 3; 4] /\
  flip (m_edges greedy7) [5; 0; 1; 2; 3; 4] = [(5, 0); (1, 2); (3, 4)].
Proof. exact augmenting_example. Qed.

(* the theorem applied: on each example the result is a maximum matching, without computing the
   optimum *)
Example C15b_examples_by_theorem :
  (exists m, maximum_matching petersen true = Ok (m, 5) /\ is_maximum (vnodes petersen) (vadj petersen) (m_edges m)) /\
  (exists m, maximum_matching ex_view true = Ok (m, 3) /\ is_maximum (vnodes ex_view) (vadj ex_view) (m_edges m)) /\
  (exists m, maximum_matching bip6 true = Ok (m, 3) /\ is_maximum (vnodes bip6) (vadj bip6) (m_edges m)).
Proof.
  assert (G : forall v k, hyps_b v = true ->
            (exists m, maximum_matching v true = Ok (m, k)) ->
            exists m, maximum_matching v true = Ok (m, k) /\ is_maximum (vnodes v) (vadj v) (m_edges m)).
  { intros v k Hh [m0 E0]. destruct (hyps_b_ok v Hh) as [H1 [H2 [H3 H4]]].
    destruct (maximum_matching_total_maximum v true H1 H2 H3 H4) as [m [n [E [_ [_ [Hmax _]]]]]].
    rewrite E in E0. injection E0 as <- <-. exists m. auto. }
  split; [|split]; apply G; try (vm_compute; reflexivity); eexists; vm_compute; reflexivity.
Qed.

(* ================================================================== pinned statements *)
Check C15b_augmenting_alternating : forall nodes adj M l,
  augmenting nodes adj M l -> alternating nodes adj M l.
Check C15b_augmenting_ends_distinct : forall nodes adj M l,
  augmenting nodes adj M l -> hd 0 l <> last l 0.
Check C15b_berge_flip : forall nodes adj M l,
  is_matching nodes adj M -> augmenting nodes adj M l ->
  is_matching nodes adj (flip M l) /\ length (flip M l) = S (length M) /\
  (forall x, In x (endpoints M) -> In x (endpoints (flip M l))) /\
  (forall x, In x l -> In x (endpoints (flip M l))).
Check C15b_berge_path : forall nodes adj M M',
  is_matching nodes adj M -> is_matching nodes adj M' -> length M < length M' ->
  exists l, augmenting nodes adj M l.
Check C15b_berge : forall nodes adj M,
  is_maximum nodes adj M <-> (is_matching nodes adj M /\ forall l, ~ augmenting nodes adj M l).
Check C15b_augmenting_extends : forall nodes adj M l,
  is_matching nodes adj M -> augmenting nodes adj M l ->
  extends nodes adj M (hd 0 l) /\ extends nodes adj M (last l 0).
Check C15b_extends_augmenting : forall nodes adj M u,
  is_matching nodes adj M -> mfree M u -> extends nodes adj M u -> exists l, augmenting nodes adj M l.
Check C15b_medge_mate : forall m x y, msym m -> (medge (m_edges m) x y <-> m_mate m x = Some y).
Check C15b_mfree_mate : forall m x, msym m -> (mfree (m_edges m) x <-> m_mate m x = None).
Check C15b_no_augmenting_is_maximum : forall v m n, VOk v -> valid_matching v m n ->
  (forall l, ~ vaugmenting v m l) -> n = max_matching_size (vnodes v) (vadj v).
Check C15b_maximum_no_augmenting : forall v m n, VOk v -> valid_matching v m n ->
  n = max_matching_size (vnodes v) (vadj v) -> forall l, ~ vaugmenting v m l.
Check C15b_no_extension_is_maximum : forall v m n, VOk v -> valid_matching v m n ->
  (forall u, m_mate m u = None -> ~ extends (vnodes v) (vadj v) (m_edges m) u) ->
  n = max_matching_size (vnodes v) (vadj v).
Check C15b_cert_no_cover : forall (n : nat) (M : nat -> option nat) (O : nat -> bool)
    (fi : nat -> nat) (start : nat) (adjP : nat -> nat -> Prop),
  (forall i j, M i = Some j -> M j = Some i /\ i <> j) ->
  (forall i j, M i = Some j -> i < n) ->
  (forall x, O x = true -> x < n) ->
  O start = true -> M start = None -> fi start = n ->
  (forall u, O u = true -> u <> start ->
     exists w, M u = Some w /\ (O w = true /\ fi w = fi u \/ O w = false /\ fi u = w)) ->
  (forall x y, O x = true -> adjP x y -> y <> x ->
     O y = false /\ (exists mv, M y = Some mv /\ O mv = true) \/ O y = true /\ fi x = fi y) ->
  forall N : list (nat * nat), NoDup (endpoints N) ->
  (forall i j, In (i, j) N -> adjP i j /\ adjP j i) ->
  (forall x, M x <> None -> In x (endpoints N)) -> ~ In start (endpoints N).
Check C15b_search_from_free : forall v, MOk v -> EidOk v -> CapOk v -> vsymmetric v ->
  forall k s s', BInv v s -> k < vbound v -> m_mate (mate s) k = None -> try_start v s k = Ok s' ->
  (mate s' = mate s /\ ~ mext v (mate s) k) \/
  ((forall x, m_mate (mate s) x <> None -> m_mate (mate s') x <> None) /\ m_mate (mate s') k <> None).
Check C15b_no_ext_persists : forall v m m' u,
  (forall x, m_mate m x <> None -> m_mate m' x <> None) -> ~ mext v m u -> ~ mext v m' u.
Check C15b_maximum_matching_no_ext : forall v debug m n,
  MOk v -> EidOk v -> CapOk v -> vsymmetric v -> maximum_matching v debug = Ok (m, n) ->
  forall u, m_mate m u = None -> ~ mext v m u.
Check C15b_maximum_matching_no_augmenting : forall v debug m n,
  MOk v -> EidOk v -> CapOk v -> vsymmetric v -> maximum_matching v debug = Ok (m, n) ->
  forall l, ~ vaugmenting v m l.
Check C15b_maximum_matching_maximum : forall v debug m n,
  MOk v -> EidOk v -> CapOk v -> vsymmetric v -> maximum_matching v debug = Ok (m, n) ->
  valid_matching v m n /\ n = max_matching_size (vnodes v) (vadj v).
Check C15b_maximum_matching_total_maximum : forall v debug,
  MOk v -> EidOk v -> CapOk v -> vsymmetric v ->
  exists m n, maximum_matching v debug = Ok (m, n) /\ valid_matching v m n /\
    n = max_matching_size (vnodes v) (vadj v) /\
    is_maximum (vnodes v) (vadj v) (m_edges m) /\
    (forall m' n', valid_matching v m' n' -> n' <= n) /\
    (forall l, ~ vaugmenting v m l).
Check C15b_maximum_matching_needs_vsymmetric :
  exists v m n, MOk v /\ EidOk v /\ CapOk v /\ maximum_matching v true = Ok (m, n) /\
                valid_matching v m n /\ n < max_matching_size (vnodes v) (vadj v).
Check C15b_vsym_check : forall v, vsym_b v = true -> vsymmetric v.
Check C15b_hyps_check : forall v, hyps_b v = true -> MOk v /\ EidOk v /\ CapOk v /\ vsymmetric v.

Print Assumptions C15b_augmenting_alternating.
Print Assumptions C15b_augmenting_ends_distinct.
Print Assumptions C15b_berge_flip.
Print Assumptions C15b_berge_path.
Print Assumptions C15b_berge.
Print Assumptions C15b_augmenting_extends.
Print Assumptions C15b_extends_augmenting.
Print Assumptions C15b_medge_mate.
Print Assumptions C15b_mfree_mate.
Print Assumptions C15b_no_augmenting_is_maximum.
Print Assumptions C15b_maximum_no_augmenting.
Print Assumptions C15b_no_extension_is_maximum.
Print Assumptions C15b_cert_no_cover.
Print Assumptions C15b_search_from_free.
Print Assumptions C15b_no_ext_persists.
Print Assumptions C15b_maximum_matching_no_ext.
Print Assumptions C15b_maximum_matching_no_augmenting.
Print Assumptions C15b_maximum_matching_maximum.
Print Assumptions C15b_maximum_matching_total_maximum.
Print Assumptions C15b_maximum_matching_needs_vsymmetric.
Print Assumptions C15b_vsym_check.
Print Assumptions C15b_hyps_check.
Print Assumptions C15b_petersen.
Print Assumptions C15b_blossom7.
Print Assumptions C15b_bip6.
Print Assumptions C15b_augmenting_example.
Print Assumptions C15b_examples_by_theorem.
