(* Vocabulary of the C20 statements (maximal cliques, colourings, feedback arc sets, transitive
   reduction/closure, simple paths, Steiner trees) that is not already in Spec/Reach.v,
   Spec/AlgoSpec.v or Spec/Forest.v.  Definitions only.  The algorithms' models appear only where a
   statement is about them: without_edges (the view a feedback arc set leaves), steiner_opt (clause 5
   of the Steiner checker) and the reference enumeration paths_from of the all_simple_paths loop. *)
From Coq Require Import Sorted.
From PG Require Import Lib.Io Model.View Model.MiscM Spec.Reach Spec.AlgoSpec Spec.Partition Spec.Forest.

(* ------------------------------------------------------------------ *)
(* Q1. maximal cliques                                                  *)

(* c is a subsequence of l: some elements of l, in the order of l *)
Inductive sublist {A : Type} : list A -> list A -> Prop :=
| sl_nil : sublist [] []
| sl_skip x c l : sublist c l -> sublist c (x :: l)
| sl_take x c l : sublist c l -> sublist (x :: c) (x :: l).

(* every two different members are adjacent (in one direction or the other) *)
Definition Clique (v : view) (c : list nat) : Prop :=
  forall a b, In a c -> In b c -> a <> b -> adj_u v a b = true.

(* a clique listed in node order that no further node of the graph extends *)
Definition MaximalClique (v : view) (c : list nat) : Prop :=
  sublist c (vnodes v) /\ Clique v c /\
  forall x, In x (vnodes v) -> ~ In x c -> ~ Clique v (x :: c).

Definition same_set (c1 c2 : list nat) : Prop := forall x, In x c1 <-> In x c2.

(* ------------------------------------------------------------------ *)
(* Q2. colourings                                                       *)

(* col, a list of (node, colour), is a function on exactly the nodes of the view *)
Definition ColTotal (v : view) (col : list (nat * nat)) : Prop :=
  NoDup (map fst col) /\ forall a, In a (map fst col) <-> In a (vnodes v).

(* the two ends of every edge that is not a self-loop are coloured, differently *)
Definition ColProper (v : view) (col : list (nat * nat)) : Prop :=
  forall a b, In a (vnodes v) -> In b (neighbors v a) -> a <> b ->
  exists ca cb, assoc_col col a = Some ca /\ assoc_col col b = Some cb /\ ca <> cb.

(* the colours used are exactly 0 .. k-1 *)
Definition ColRange (col : list (nat * nat)) (k : nat) : Prop :=
  forall c, In c (map snd col) <-> c < k.

(* a proper 2-colouring of the whole view; a self-loop has none *)
Definition TwoColourable (v : view) : Prop :=
  exists c : nat -> bool, forall a b, In a (vnodes v) -> In b (neighbors v a) -> c a <> c b.
(* the same, self-loops ignored *)
Definition TwoColourableNL (v : view) : Prop :=
  exists c : nat -> bool, forall a b, In a (vnodes v) -> In b (neighbors v a) -> a <> b -> c a <> c b.

Definition symmetric (v : view) : Prop := forall a b, step v a b -> step v b a.
Definition loop_free (v : view) : Prop := forall a, ~ step v a a.

(* [two] says when the graph counts as 2-colourable *)
Definition ColoringOK_with (two : Prop) (v : view) (col : list (nat * nat)) (k : nat) : Prop :=
  ColTotal v col /\ ColProper v col /\ ColRange col k /\ (two -> k <= 2).
Definition ColoringOK (v : view) col k : Prop := ColoringOK_with (TwoColourable v) v col k.
Definition ColoringOK_NL (v : view) col k : Prop := ColoringOK_with (TwoColourableNL v) v col k.

(* ------------------------------------------------------------------ *)
(* Q3. feedback arc sets                                                *)

(* the in-lists and the out-lists describe the same edges, ids and weights included *)
Definition inout_ids_ok (v : view) : Prop :=
  forall a b e w, In b (vnodes v) -> (In (e, a, w) (in_edges v b) <-> In (e, b, w) (out_edges v a)).

(* edge_references and the out-lists describe the same edges (a directed view), and an id
   names one edge *)
Definition erefs_out_ok (v : view) : Prop :=
  (forall e a t w, In (e, a, t, w) (verefs v) <-> (In a (vnodes v) /\ In (e, t, w) (out_edges v a))) /\
  NoDup (map (fun '(e, _, _, _) => e) (verefs v)).

Definition edge_ids (v : view) : list nat := map (fun '(e, _, _, _) => e) (verefs v).

(* ids is a feedback arc set: distinct edge ids, every self-loop among them, and what is left is acyclic *)
Definition FasOK (v : view) (ids : list nat) : Prop :=
  NoDup ids /\ incl ids (edge_ids v) /\
  (forall e s w, In (e, s, s, w) (verefs v) -> In e ids) /\
  acyclic (without_edges v ids).

(* ------------------------------------------------------------------ *)
(* Q4. transitive reduction and closure of adjacency lists              *)
(* an adjacency list is a list of rows: row i lists the successors of node i *)

(* i -> j is an edge of G *)
Definition al_step (G : list (list nat)) (i j : nat) : Prop := In j (nth i G []).

(* j is reachable from i by a non-empty path *)
Inductive al_plus (G : list (list nat)) : nat -> nat -> Prop :=
| alp_one i j : al_step G i j -> al_plus G i j
| alp_cons i k j : al_step G i k -> al_plus G k j -> al_plus G i j.

(* adjacency list of a DAG in topological numbering: every edge goes forward and stays in range,
   every row is strictly increasing *)
Definition DagAL (G : list (list nat)) : Prop :=
  forall i row, nth_error G i = Some row ->
    StronglySorted lt row /\ forall j, In j row -> i < j < length G.

(* the edge i -> j is implied by a longer path *)
Definition al_implied (G : list (list nat)) (i j : nat) : Prop :=
  exists k, al_plus G i k /\ al_plus G k j.

(* H is a subgraph of G (edgewise) *)
Definition al_sub (H G : list (list nat)) : Prop := forall i j, al_step H i j -> al_step G i j.

(* H and G have the same reachability relation *)
Definition al_same_closure (H G : list (list nat)) : Prop := forall i j, al_plus H i j <-> al_plus G i j.

(* ---- the adjacency list over ranks that dag_to_toposorted_adjacency_list builds ---- *)

(* [order] lists every node of the view once and every edge points forward in it
   (what toposort returns, C09_toposort_ok_sound) *)
Definition topo_order (v : view) (order : list nat) : Prop :=
  NoDup order /\ (forall x, In x order <-> In x (vnodes v)) /\
  (forall l1 u l2 w, order = l1 ++ u :: l2 -> step v u w -> In w l2).

(* no two edges with the same endpoints *)
Definition no_parallel_in (v : view) : Prop := forall b, In b (vnodes v) -> NoDup (neighbors_in v b).

(* number of edges order[i] -> order[j] of the view, counted in the in-list of order[j] *)
Definition edge_mult (v : view) (order : list nat) (i j : nat) : nat :=
  match nth_error order i, nth_error order j with
  | Some a, Some b => count_occ Nat.eq_dec (neighbors_in v b) a
  | _, _ => 0
  end.

(* what dag_to_toposorted_adjacency_list v order = Ok (g, revmap) guarantees *)
Definition topo_adj_ok (v : view) (order : list nat) (g : list (list nat)) (revmap : list nat) : Prop :=
  length g = length order /\ length revmap = vbound v /\
  (forall i x, nth_error order i = Some x -> nth_error revmap x = Some i) /\
  (forall x, x < vbound v -> ~ In x order -> nth_error revmap x = Some 0) /\
  (forall i j, In j (nth i g []) <->
               exists a b, nth_error order i = Some a /\ nth_error order j = Some b /\ step v a b) /\
  (forall i j, In j (nth i g []) -> i < j < length order) /\
  (forall i, StronglySorted le (nth i g [])) /\
  (no_parallel_in v -> forall i, StronglySorted lt (nth i g [])).

(* b is reachable from a by a non-empty path of the view *)
Definition vplus (v : view) (a b : nat) : Prop := exists c, step v a c /\ reachable v c b.

(* ------------------------------------------------------------------ *)
(* Q5. simple paths                                                     *)

(* p = [a; ...; b]: starts with a, ends with b, no node twice, consecutive nodes joined by an out-edge *)
Definition SimplePath (v : view) (a b : nat) (p : list nat) : Prop :=
  hd_error p = Some a /\ last p a = b /\ 2 <= length p /\ NoDup p /\
  forall i x y, nth_error p i = Some x -> nth_error p (S i) = Some y -> step v x y.

(* no two out-edges of a node lead to the same node *)
Definition no_parallel (v : view) : Prop := forall a, NoDup (neighbors v a).

(* number of intermediate nodes *)
Definition inter (p : list nat) : nat := length p - 2.

(* the limit on the number of intermediate nodes that the code applies: max_intermediate_nodes,
   by default node_count - 2 (nat subtraction) *)
Definition inter_bound (v : view) (max_i : option nat) : nat :=
  match max_i with Some l => l | None => length (vnodes v) - 2 end.

(* ---- reference enumeration (the vocabulary of the loop invariant) ----
   paths_from d visited c: the paths emitted, in order, while the child c of the current path
   `visited` (oldest first) and everything pushed above it is consumed; d = the number of nodes by
   which `visited` may still be extended (max_len - length visited).  The target is emitted
   whenever it is met (if the path is long enough); any other child is entered when it is fresh
   and d allows it. *)
Fixpoint paths_from (v : view) (to min_len : nat) (d : nat) (visited : list nat) (c : nat)
  : list (list nat) :=
  if Nat.eqb c to then (if Nat.leb min_len (length visited) then [visited ++ [to]] else [])
  else match d with
       | 0 => []
       | S d' => if mem c visited then []
                 else flat_map (paths_from v to min_len d' (visited ++ [c])) (neighbors v c)
       end.

(* what remains to be emitted by a whole stack: level j of the stack belongs to the prefix of
   `visited` of the corresponding length *)
Fixpoint enum_stack (v : view) (to min_len max_len : nat) (visited : list nat) (stack : list (list nat))
  : list (list nat) :=
  match stack with
  | [] => []
  | children :: up =>
      flat_map (paths_from v to min_len (max_len - length visited) visited) children
      ++ enum_stack v to min_len max_len (removelast visited) up
  end.

(* ------------------------------------------------------------------ *)
(* Q6. Steiner trees                                                    *)

(* the pairs form a tree on exactly the nodes V: no cycle, endpoints in V, every two nodes of V joined *)
Definition IsTree (V : list nat) (prs : list (nat * nat)) : Prop :=
  V <> [] /\ NoDup V /\ (forall a b, In (a, b) prs -> In a V /\ In b V) /\ acyclic_edges prs /\
  forall x y, In x V -> In y V -> uconn prs x y.

(* the number of edges of es with an end at x (a self-loop counts once) *)
Definition degree (x : nat) (es : list (nat * nat * Z)) : nat :=
  length (filter (fun '(a, b, _) => orb (Nat.eqb a x) (Nat.eqb b x)) es).

(* ---- the clauses of steiner_check, numbered by the verdict that reports their failure ---- *)

(* 1: the nodes are nodes of the graph, the edges are edges of the graph with that weight, in one of the orientations *)
Definition St1 (v : view) (nodes : list nat) (es : list (nat * nat * Z)) : Prop :=
  incl nodes (vnodes v) /\
  forall a b w, In (a, b, w) es -> exists i, In (i, a, b, w) (verefs v) \/ In (i, b, a, w) (verefs v).

(* 2: nothing at all, or a tree on exactly the listed nodes *)
Definition St2 (nodes : list nat) (es : list (nat * nat * Z)) : Prop :=
  (nodes = [] /\ es = []) \/ IsTree nodes (ends es).

(* 3: every terminal is a node of the tree *)
Definition St3 (T nodes : list nat) : Prop := incl T nodes.

(* 4: every leaf is a terminal *)
Definition St4 (T nodes : list nat) (es : list (nat * nat * Z)) : Prop :=
  2 <= length nodes -> forall x, In x nodes -> degree x es = 1 -> In x T.

(* 5: at most twice the optimum computed by steiner_opt *)
Definition St5 (v : view) (T : list nat) (es : list (nat * nat * Z)) : Prop :=
  forall opt, steiner_opt v T = Some opt -> (sumw es <= 2 * opt)%Z.

(* (K, F) is a tree of the graph v that contains the terminals T: F is made of edges of v
   and is a tree on the node set K, which holds T *)
Definition SteinerTreeOf (v : view) (T K : list nat) (F : list (nat * nat * Z)) : Prop :=
  incl K (vnodes v) /\ incl T K /\ incl F (gedges v) /\ IsTree K (ends F).
