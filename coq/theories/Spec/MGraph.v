(* The specification side of C01: a plain multigraph whose live node and edge indices are the
   compact ranges 0..n and 0..m, every edge carrying the value of a global insertion counter
   (its stamp).  No links, no sentinels: vectors of weights and of ((source,target),(weight,stamp)).
   Short enough to read in minutes.  (From the model only the definitions of Vec::swap_remove and
   of the pair selector [sel] are reused.) *)
From Coq Require Import Permutation.
From PG Require Import Lib.ListArr Model.GraphM.

Section MGraph.
  Context {NW EW : Type}.

  (* the public operations of a history *)
  Inductive op :=
  | OAddNode (w : NW)
  | OAddEdge (a b : nat) (w : EW)
  | ORemoveEdge (e : nat)
  | ORemoveNode (a : nat)
  | OReverse
  | OClearEdges.

  Definition medge : Type := (nat * nat) * (EW * nat).
  Record mgraph := mkM { mnodes : list NW; medges : list medge; mclock : nat }.

  Definition m_empty : mgraph := mkM [] [] 0.

  (* index limit of the index type (cap) and whether it is checked (false for usize) *)
  Variable cap : nat.
  Variable capcheck : bool.

  Definition m_ren (last a x : nat) : nat := if Nat.eqb x last then a else x.
  Definition m_rentrip (last a : nat) (t : medge) : medge :=
    ((m_ren last a (fst (fst t)), m_ren last a (snd (fst t))), snd t).
  Definition m_notinc (a : nat) (t : medge) : bool :=
    andb (negb (Nat.eqb (fst (fst t)) a)) (negb (Nat.eqb (snd (fst t)) a)).
  Definition m_flip (t : medge) : medge := ((snd (fst t), fst (fst t)), snd t).

  (* One operation.  Everything is a function of the old state except the edge numbering after
     remove_node, which the documentation leaves open: any arrangement of the surviving edges. *)
  Inductive mstep (s : mgraph) : op -> mgraph -> Prop :=
  | ms_add_node_limit w :
      capcheck = true -> length (mnodes s) = cap -> mstep s (OAddNode w) s
  | ms_add_node w :
      ~ (capcheck = true /\ length (mnodes s) = cap) ->
      mstep s (OAddNode w) (mkM (mnodes s ++ [w]) (medges s) (mclock s))
  | ms_add_edge_fail a b w :
      (capcheck = true /\ length (medges s) = cap) \/
      length (mnodes s) <= a \/ length (mnodes s) <= b ->
      mstep s (OAddEdge a b w) (mkM (mnodes s) (medges s) (S (mclock s)))
  | ms_add_edge a b w :
      ~ (capcheck = true /\ length (medges s) = cap) ->
      a < length (mnodes s) -> b < length (mnodes s) ->
      mstep s (OAddEdge a b w)
            (mkM (mnodes s) (medges s ++ [((a, b), (w, mclock s))]) (S (mclock s)))
  | ms_remove_edge_none e :
      length (medges s) <= e -> mstep s (ORemoveEdge e) s
  | ms_remove_edge e :
      e < length (medges s) ->
      mstep s (ORemoveEdge e) (mkM (mnodes s) (swap_remove (medges s) e) (mclock s))
  | ms_remove_node_none a :
      length (mnodes s) <= a -> mstep s (ORemoveNode a) s
  | ms_remove_node a es' :
      a < length (mnodes s) ->
      Permutation es' (map (m_rentrip (length (mnodes s) - 1) a) (filter (m_notinc a) (medges s))) ->
      mstep s (ORemoveNode a) (mkM (swap_remove (mnodes s) a) es' (mclock s))
  | ms_reverse :
      mstep s OReverse (mkM (mnodes s) (map m_flip (medges s)) (mclock s))
  | ms_clear :
      mstep s OClearEdges (mkM (mnodes s) [] (mclock s)).

  Inductive mrun : mgraph -> list op -> mgraph -> Prop :=
  | mr_nil s : mrun s [] s
  | mr_cons s o s1 ops s2 : mstep s o s1 -> mrun s1 ops s2 -> mrun s (o :: ops) s2.

  (* Adjacency of the multigraph: the edges having node a as endpoint k (0 = source,
     1 = target), most recently added first. *)
  Definition m_ep (s : mgraph) (k x : nat) : nat :=
    match nth_error (medges s) x with Some t => sel (fst t) k | None => 0 end.
  Definition m_stamp (s : mgraph) (x : nat) : nat :=
    match nth_error (medges s) x with Some t => snd (snd t) | None => 0 end.
  Definition m_incident (s : mgraph) (k a : nat) : list nat :=
    filter (fun x => Nat.eqb (m_ep s k x) a) (seq 0 (length (medges s))).

  Fixpoint insert_desc (key : nat -> nat) (x : nat) (l : list nat) : list nat :=
    match l with
    | [] => [x]
    | y :: t => if Nat.ltb (key y) (key x) then x :: l else y :: insert_desc key x t
    end.
  Definition sort_desc (key : nat -> nat) (l : list nat) : list nat :=
    fold_right (insert_desc key) [] l.

  Definition m_adj (s : mgraph) (k a : nat) : list nat :=
    sort_desc (m_stamp s) (m_incident s k a).
End MGraph.

Arguments op : clear implicits.
Arguments mgraph : clear implicits.
Arguments medge : clear implicits.
