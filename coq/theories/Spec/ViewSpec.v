(* C06 -- the readable specification of "the visit traits describe one and the same graph".

   An [fview] (Model/FullView.v) is everything a graph type or adaptor shows through the generic
   visit traits.  The abstract graph it is compared with is
       nodes = f_nodes f,  edges = f_erefs f (quads (id, source, target, weight)),  f_directed f.
   [FConsistent f] is a record of seven clauses, in the order in which the executable checker
   [fv_check] tests them.  No proofs in this file. *)
From Coq Require Import Permutation.
From PG Require Import Lib.Io Model.FullView.

Set Implicit Arguments.

(* The projection under which reported edges are compared: with the id when ids are comparable
   ([f_ids_ok]), without it (id replaced by 0) otherwise. *)
Definition qproj (ids : bool) (q : quad) : quad :=
  if ids then q else (0, q_src q, q_tgt q, q_w q).

(* the same multiset of reported edges, modulo that projection *)
Definition same_edges (ids : bool) (l1 l2 : list quad) : Prop :=
  Permutation (map (qproj ids) l1) (map (qproj ids) l2).

(* What edges(a) must list: the edge references with source a; plus, when undirected, those with
   target a and source <> a (so a self-loop is listed once), reported flipped (a as the source). *)
Definition spec_out (directed : bool) (erefs : list quad) (a : nat) : list quad :=
  filter (fun q => q_src q =? a) erefs ++
  (if directed then []
   else map q_flip (filter (fun q => andb (q_tgt q =? a) (negb (q_src q =? a))) erefs)).

(* What edges_directed(a, Incoming) must list: the references with target a; plus, when undirected,
   those with source a and target <> a, reported flipped (a as the target). *)
Definition spec_in (directed : bool) (erefs : list quad) (a : nat) : list quad :=
  filter (fun q => q_tgt q =? a) erefs ++
  (if directed then []
   else map q_flip (filter (fun q => andb (q_src q =? a) (negb (q_tgt q =? a))) erefs)).

(* an edge a -> b exists (either orientation when undirected) *)
Definition edge_between (directed : bool) (erefs : list quad) (a b : nat) : Prop :=
  exists q, In q erefs /\
    ((q_src q, q_tgt q) = (a, b) \/ (directed = false /\ (q_src q, q_tgt q) = (b, a))).

(* ---- the seven clauses ---- *)

(* 1: node_identifiers yields each live node once, below node_bound (and below the visit-map
      length), node_count of them; compact-indexable: exactly 0 .. node_bound-1 *)
Record NodesOK (f : fview) : Prop := mkNodesOK {
  no_nodup : NoDup (f_nodes f);
  no_bound : forall a, In a (f_nodes f) -> a < f_bound f;
  no_vcap : forall c, f_vcap f = Some c -> forall a, In a (f_nodes f) -> a < c;
  no_count : forall n, f_ncount f = Some n -> n = length (f_nodes f);
  no_compact : f_compact f = true -> forall i, In i (f_nodes f) <-> i < f_bound f
}.

(* 2: node_references yields the same nodes in the same order *)
Definition NrefsOK (f : fview) : Prop := map fst (f_nrefs f) = f_nodes f.

(* 3: edge_references: both endpoints live, edge_count of them, ids distinct and below edge_bound *)
Record ErefsOK (f : fview) : Prop := mkErefsOK {
  er_ends : forall q, In q (f_erefs f) -> In (q_src q) (f_nodes f) /\ In (q_tgt q) (f_nodes f);
  er_count : forall n, f_ecount f = Some n -> n = length (f_erefs f);
  er_ids : f_ids_ok f = true -> NoDup (map q_id (f_erefs f));
  er_ebound : f_ids_ok f = true ->
              forall c, f_ebound f = Some c -> forall q, In q (f_erefs f) -> q_id q < c
}.

(* 4: the per-node tables are keyed by exactly the node list *)
Record KeysOK (f : fview) : Prop := mkKeysOK {
  k_out : map fst (f_out f) = f_nodes f;
  k_nb : map fst (f_nb f) = f_nodes f;
  k_in : f_has_in f = true -> map fst (f_in f) = f_nodes f;
  k_nbin : f_has_in f = true -> map fst (f_nbin f) = f_nodes f
}.

(* 5: edges(a) is the expected multiset; neighbors(a) are its targets, in the same order *)
Record OutOK (f : fview) : Prop := mkOutOK {
  o_edges : forall a, In a (f_nodes f) ->
            same_edges (f_ids_ok f) (assocl (f_out f) a) (spec_out (f_directed f) (f_erefs f) a);
  o_nb : forall a, In a (f_nodes f) -> assocl (f_nb f) a = map q_tgt (assocl (f_out f) a)
}.

(* 6: the same for Incoming, when the type implements IntoEdgesDirected *)
Record InOK (f : fview) : Prop := mkInOK {
  i_edges : f_has_in f = true -> forall a, In a (f_nodes f) ->
            same_edges (f_ids_ok f) (assocl (f_in f) a) (spec_in (f_directed f) (f_erefs f) a);
  i_nb : f_has_in f = true -> forall a, In a (f_nodes f) ->
         assocl (f_nbin f) a = map q_src (assocl (f_in f) a)
}.

(* 7: is_adjacent(a, b) exactly when an edge a -> b (either orientation if undirected) exists *)
Definition AdjOK (f : fview) : Prop :=
  f_has_adj f = true -> forall a b, In a (f_nodes f) -> In b (f_nodes f) ->
    (In b (assocl (f_adj f) a) <-> edge_between (f_directed f) (f_erefs f) a b).

Record FConsistent (f : fview) : Prop := mkFConsistent {
  fc_nodes : NodesOK f;
  fc_nrefs : NrefsOK f;
  fc_erefs : ErefsOK f;
  fc_keys : KeysOK f;
  fc_out : OutOK f;
  fc_in : InOK f;
  fc_adj : AdjOK f
}.

(* clause k of the checker (1..7) *)
Definition clause (k : nat) (f : fview) : Prop :=
  match k with
  | 1 => NodesOK f | 2 => NrefsOK f | 3 => ErefsOK f | 4 => KeysOK f
  | 5 => OutOK f | 6 => InOK f | 7 => AdjOK f | _ => True
  end.

(* ---- vocabulary of the adaptor theorems ---- *)

(* [fv_reversed] builds its adjacency table from the key list of the base table, while the checker
   does not look at that key list (an absent row reads as "adjacent to nothing").  Reversed is
   consistent exactly when every node that is the target of an adjacency has a row: *)
Definition AdjRows (f : fview) : Prop :=
  f_has_adj f = true -> forall a b, In a (f_nodes f) -> In b (f_nodes f) ->
    In a (assocl (f_adj f) b) -> In a (map fst (f_adj f)).

(* in particular when the table has a row for every node *)
Definition AdjKeyed (f : fview) : Prop :=
  f_has_adj f = true -> incl (f_nodes f) (map fst (f_adj f)).

(* equal in every component, the adjacency table up to the same rows as sets *)
Record fv_same (f g : fview) : Prop := mkFvSame {
  fs_directed : f_directed g = f_directed f;
  fs_bound : f_bound g = f_bound f;
  fs_vcap : f_vcap g = f_vcap f;
  fs_ecount : f_ecount g = f_ecount f;
  fs_ebound : f_ebound g = f_ebound f;
  fs_ncount : f_ncount g = f_ncount f;
  fs_compact : f_compact g = f_compact f;
  fs_ids_ok : f_ids_ok g = f_ids_ok f;
  fs_has_in : f_has_in g = f_has_in f;
  fs_has_adj : f_has_adj g = f_has_adj f;
  fs_nodes : f_nodes g = f_nodes f;
  fs_nrefs : f_nrefs g = f_nrefs f;
  fs_out : f_out g = f_out f;
  fs_in : f_in g = f_in f;
  fs_nb : f_nb g = f_nb f;
  fs_nbin : f_nbin g = f_nbin f;
  fs_erefs : f_erefs g = f_erefs f;
  fs_adj_keys : map fst (f_adj g) = map fst (f_adj f);
  fs_adj : forall a b, In a (f_nodes f) -> In a (map fst (f_adj f)) ->
                       In b (f_nodes f) -> In b (map fst (f_adj f)) ->
           (In b (assocl (f_adj g) a) <-> In b (assocl (f_adj f) a))
}.

(* the side condition on an EdgeFiltered predicate: it may not depend on the orientation in which
   an undirected edge is reported, nor on the id when ids are not comparable *)
Record keep_ok (ids directed : bool) (keep : quad -> bool) : Prop := mkKeepOk {
  ko_flip : directed = false -> forall q, keep (q_flip q) = keep q;
  ko_ids : ids = false -> forall p q, qproj false p = qproj false q -> keep p = keep q
}.

(* UndirectedAdaptor: the endpoint of a reported edge that is not the queried node a *)
Definition other_end (a : nat) (q : quad) : nat := if q_tgt q =? a then q_src q else q_tgt q.

(* the neighbours of a in the symmetrised graph, a self-loop counted twice:
   sources of the edges into a, then targets of the edges out of a *)
Definition sym_neighbors (erefs : list quad) (a : nat) : list nat :=
  map q_src (filter (fun q => q_tgt q =? a) erefs) ++
  map q_tgt (filter (fun q => q_src q =? a) erefs).
