(* C20c: the DSATUR machine of Model/DsaturM.v as a relation, and the vocabulary of the statements
   about it.  Definitions only.

   A state is the list of (node, colour) pairs given so far, newest first.  A step colours ANY
   member of [candidates v col] (the uncoloured nodes whose (saturation, degree) is maximal) with
   [next_color v col x] (the smallest colour absent from the colours of the nodes that list x
   among their neighbours). *)
From PG Require Import Lib.Io Model.View Model.MiscM Spec.Reach Spec.MiscSpec Model.DsaturM.

Inductive dsatur_step (v : view) : list (nat * nat) -> list (nat * nat) -> Prop :=
| ds_step col x : In x (candidates v col) -> dsatur_step v col ((x, next_color v col x) :: col).

(* reflexive-transitive closure *)
Inductive dsatur_steps (v : view) : list (nat * nat) -> list (nat * nat) -> Prop :=
| dss_refl col : dsatur_steps v col col
| dss_step a b c : dsatur_step v a b -> dsatur_steps v b c -> dsatur_steps v a c.

Definition dsatur_reachable (v : view) (col : list (nat * nat)) : Prop := dsatur_steps v [] col.

(* a complete run: nothing is left uncoloured *)
Definition dsatur_output (v : view) (col : list (nat * nat)) : Prop :=
  dsatur_steps v [] col /\ uncolored v col = [].

(* the largest out-degree (graph.edges(a).count()) of a node of the view *)
Definition max_degree (v : view) : nat := fold_right Nat.max 0 (map (DsaturM.degree v) (vnodes v)).

(* a node of colour c is listed as a neighbour by a node of every smaller colour *)
Definition Grundy (v : view) (col : list (nat * nat)) : Prop :=
  forall x c, assoc_col col x = Some c -> forall c', c' < c ->
  exists y, In x (neighbors v y) /\ assoc_col col y = Some c'.

(* two colourings give the nodes of the view the same colours *)
Definition agree_on (v : view) (col target : list (nat * nat)) : Prop :=
  forall x, In x (vnodes v) -> assoc_col col x = assoc_col target x.

(* ------------------------------------------------------------------ *)
(* the heap of the code, abstractly: a list of entries ((saturation, degree), node)            *)

Definition hentry : Type := ((nat * nat) * nat)%type.

(* every uncoloured node has an entry with its current score, and no entry of an uncoloured node
   is above the node's current score *)
Definition heap_ok (v : view) (col : list (nat * nat)) (h : list hentry) : Prop :=
  (forall x, In x (uncolored v col) -> In (score v col x, x) h) /\
  (forall s x, In (s, x) h -> In x (uncolored v col) -> score_le s (score v col x) = true).

(* the heap before the loop: for node in node_identifiers: push ((0, degree), node) *)
Definition heap_init (v : view) : list hentry := map (fun x => ((0, DsaturM.degree v x), x)) (vnodes v).

(* (s, x) is what the loop of the code ends up using: an entry of an uncoloured node that no
   entry of an uncoloured node exceeds (entries of coloured nodes are popped and skipped) *)
Definition heap_pops (v : view) (col : list (nat * nat)) (h : list hentry) (s : nat * nat) (x : nat) : Prop :=
  In (s, x) h /\ In x (uncolored v col) /\
  forall s' x', In (s', x') h -> In x' (uncolored v col) -> score_le s' s = true.

(* h' is a heap the code may hold after colouring x with c in state col with heap h: nothing about
   another node was removed, every neighbour of x got a fresh entry with its new score, and
   nothing else was added *)
Definition heap_after (v : view) (col : list (nat * nat)) (x c : nat) (h h' : list hentry) : Prop :=
  (forall e, In e h -> snd e <> x -> In e h') /\
  (forall y, In y (neighbors v x) -> In (score v ((x, c) :: col) y, y) h') /\
  (forall e, In e h' -> In e h \/ exists y, In y (neighbors v x) /\ e = (score v ((x, c) :: col) y, y)).
