(* Walks, costs, reachability and distances in a view; well-formedness conditions
   used by the shortest-path theorems (C10, C11). *)
From Coq Require Import Lia ZArith List.
From PG Require Import Lib.Io Model.View.
Set Implicit Arguments.
Open Scope Z_scope.

(* A walk is the list of out-entries followed: walk v a p b = p leads from a to b. *)
Inductive walk (v : view) : nat -> list eref -> nat -> Prop :=
| walk_nil a : walk v a [] a
| walk_cons a e p b : In e (out_edges v a) -> walk v (tgt e) p b -> walk v a (e :: p) b.

Fixpoint walk_cost (p : list eref) : Z :=
  match p with [] => 0 | e :: t => ewgt e + walk_cost t end.

Definition reachable (v : view) (s x : nat) : Prop := exists p, walk v s p x.

(* d is the cost of a cheapest walk s -> x *)
Definition is_dist (v : view) (s x : nat) (d : Z) : Prop :=
  (exists p, walk v s p x /\ walk_cost p = d) /\ forall p, walk v s p x -> d <= walk_cost p.

(* a closed walk of negative cost somewhere reachable from s *)
Definition neg_cycle_reachable (v : view) (s : nat) : Prop :=
  exists a p c, walk v s p a /\ walk v a c a /\ walk_cost c < 0.

Definition nonneg (v : view) : Prop :=
  forall a e, In e (out_edges v a) -> 0 <= ewgt e.

(* the form of the statement on the raw out-lists implies the one used here *)
Definition nonneg_raw (v : view) : Prop :=
  forall a l e, In (a, l) (vout v) -> In e l -> 0 <= ewgt e.

Definition in_cap (v : view) (x : nat) : Prop :=
  match vcap v with Some c => (x < c)%nat | None => True end.

(* what dijkstra needs from a view: targets fit the visit map; only nodes have out-lists *)
Record VOk (v : view) : Prop := {
  vok_cap : forall a e, In e (out_edges v a) -> in_cap v (tgt e);
  vok_nodes : forall a, out_edges v a <> [] -> In a (vnodes v)
}.

(* what bellman_ford needs: node list without repetition, below node_bound; edges join nodes *)
Record BOk (v : view) : Prop := {
  bok_nodup : NoDup (vnodes v);
  bok_bound : forall a, In a (vnodes v) -> (a < vbound v)%nat;
  bok_src : forall a, out_edges v a <> [] -> In a (vnodes v);
  bok_tgt : forall a e, In e (out_edges v a) -> In (tgt e) (vnodes v)
}.

(* ------------------------------------------------------------------ basic facts *)
Lemma walk_cost_app p q : walk_cost (p ++ q) = walk_cost p + walk_cost q.
Proof. induction p as [|e p IH]; cbn [walk_cost app]; lia. Qed.

Lemma walk_app v a p b q c : walk v a p b -> walk v b q c -> walk v a (p ++ q) c.
Proof.
  intros H; induction H as [a | a e p b He Hp IH]; intros Hq; cbn [app]; auto.
  constructor; auto.
Qed.

Lemma walk_snoc v a p b e : walk v a p b -> In e (out_edges v b) -> walk v a (p ++ [e]) (tgt e).
Proof.
  intros Hp He. eapply walk_app; eauto. constructor; auto. constructor.
Qed.

Lemma walk_cost_snoc p e : walk_cost (p ++ [e]) = walk_cost p + ewgt e.
Proof. rewrite walk_cost_app; cbn [walk_cost]; lia. Qed.

Lemma walk_app_inv v p q a c : walk v a (p ++ q) c -> exists b, walk v a p b /\ walk v b q c.
Proof.
  revert a; induction p as [|e p IH]; intros a H; cbn [app] in H.
  - exists a; split; auto. constructor.
  - inversion H as [|a' e' p' b' He Hp]; subst.
    destruct (IH _ Hp) as [b [H1 H2]].
    exists b; split; auto. constructor; auto.
Qed.

Lemma walk_cost_nonneg v : nonneg v -> forall a p b, walk v a p b -> 0 <= walk_cost p.
Proof.
  intros Hn a p b H; induction H as [a | a e p b He Hp IH]; cbn [walk_cost]; try lia.
  pose proof (Hn _ _ He). lia.
Qed.

Lemma assoc_nat_In {A} (l : list (nat * A)) k x : assoc_nat l k = Some x -> In (k, x) l.
Proof.
  induction l as [|[k' y] t IH]; cbn [assoc_nat]; intros H; try discriminate.
  destruct (Nat.eqb_spec k' k) as [->|Hne].
  - injection H as ->. left; auto.
  - right; auto.
Qed.

Lemma nonneg_raw_nonneg v : nonneg_raw v -> nonneg v.
Proof.
  intros H a e He. unfold out_edges in He.
  destruct (assoc_nat (vout v) a) as [l|] eqn:E; [|destruct He].
  eapply H; eauto. apply assoc_nat_In; eauto.
Qed.

Lemma is_dist_unique v s x d1 d2 : is_dist v s x d1 -> is_dist v s x d2 -> d1 = d2.
Proof.
  intros [[p1 [W1 C1]] L1] [[p2 [W2 C2]] L2].
  pose proof (L1 _ W2). pose proof (L2 _ W1). lia.
Qed.

Lemma is_dist_reachable v s x d : is_dist v s x d -> reachable v s x.
Proof. intros [[p [W _]] _]. exists p; auto. Qed.

(* vertices of a walk from a: a :: map tgt p *)
Lemma walk_split_at v a p y x : walk v a p y -> In x (a :: map tgt p) ->
  exists p1 p2, p = p1 ++ p2 /\ walk v a p1 x /\ walk v x p2 y.
Proof.
  intros H; induction H as [a | a e p b He Hp IH]; intros Hx.
  - destruct Hx as [->|[]]. exists [], []; repeat split; constructor.
  - destruct Hx as [->|Hx].
    + exists [], (e :: p); repeat split; try constructor; auto.
    + destruct (IH Hx) as [p1 [p2 [-> [H1 H2]]]].
      exists (e :: p1), p2; repeat split; auto. constructor; auto.
Qed.

(* a walk either visits no vertex twice or contains a non-empty closed sub-walk *)
Lemma walk_cycle_split v a p y : walk v a p y ->
  NoDup (a :: map tgt p) \/
  exists p1 c p2 x, p = p1 ++ c ++ p2 /\ c <> [] /\ walk v a p1 x /\ walk v x c x /\ walk v x p2 y.
Proof.
  intros H; induction H as [a | a e p b He Hp IH].
  - left. constructor; [intros []|constructor].
  - destruct (in_dec Nat.eq_dec a (tgt e :: map tgt p)) as [Hin|Hnin].
    + right. destruct (walk_split_at Hp Hin) as [p1 [p2 [-> [H1 H2]]]].
      exists [], (e :: p1), p2, a. repeat split; auto; try discriminate; constructor; auto.
    + destruct IH as [Hnd|[p1 [c [p2 [x [-> [Hc [H1 [H2 H3]]]]]]]]].
      * left. constructor; auto.
      * right. exists (e :: p1), c, p2, x. repeat split; auto. constructor; auto.
Qed.

(* ------------------------------------------------------------------ boolean checkers for concrete views *)
Definition in_capb (v : view) (x : nat) : bool :=
  match vcap v with Some c => Nat.ltb x c | None => true end.

Definition memb (x : nat) (l : list nat) : bool := existsb (Nat.eqb x) l.

Fixpoint nodupb (l : list nat) : bool :=
  match l with [] => true | a :: t => andb (negb (memb a t)) (nodupb t) end.

Definition vok_b (v : view) : bool :=
  forallb (fun al : nat * list eref =>
             andb (memb (fst al) (vnodes v)) (forallb (fun e => in_capb v (tgt e)) (snd al))) (vout v).

Definition nonneg_b (v : view) : bool :=
  forallb (fun al : nat * list eref => forallb (fun e => Z.leb 0 (ewgt e)) (snd al)) (vout v).

Definition bok_b (v : view) : bool :=
  andb (nodupb (vnodes v))
 (andb (forallb (fun a => Nat.ltb a (vbound v)) (vnodes v))
       (forallb (fun al : nat * list eref =>
                   andb (memb (fst al) (vnodes v)) (forallb (fun e => memb (tgt e) (vnodes v)) (snd al)))
                (vout v))).

Lemma memb_In x l : memb x l = true -> In x l.
Proof.
  unfold memb. intros H. apply existsb_exists in H. destruct H as [y [Hy E]].
  apply Nat.eqb_eq in E. subst; auto.
Qed.

Lemma nodupb_NoDup l : nodupb l = true -> NoDup l.
Proof.
  induction l as [|a t IH]; cbn [nodupb]; intros H; [constructor|].
  apply andb_prop in H. destruct H as [H1 H2]. constructor; auto.
  intros Hin. assert (memb a t = true).
  { unfold memb. apply existsb_exists. exists a; split; auto. apply Nat.eqb_refl. }
  rewrite H in H1; discriminate.
Qed.

Lemma in_capb_ok v x : in_capb v x = true -> in_cap v x.
Proof.
  unfold in_capb, in_cap. destruct (vcap v) as [c|]; auto. intros H; apply Nat.ltb_lt; auto.
Qed.

Lemma out_edges_In v a e : In e (out_edges v a) -> exists l, In (a, l) (vout v) /\ In e l.
Proof.
  unfold out_edges. destruct (assoc_nat (vout v) a) as [l|] eqn:E; [|intros []].
  intros He. exists l; split; auto. apply assoc_nat_In; auto.
Qed.

Lemma out_edges_ne_In v a : out_edges v a <> [] -> exists l, In (a, l) (vout v).
Proof.
  unfold out_edges. destruct (assoc_nat (vout v) a) as [l|] eqn:E; [|congruence].
  intros _. exists l. apply assoc_nat_In; auto.
Qed.

Lemma vok_b_ok v : vok_b v = true -> VOk v.
Proof.
  unfold vok_b. intros H. rewrite forallb_forall in H. constructor.
  - intros a e He. destruct (out_edges_In _ _ _ He) as [l [Hl Hel]].
    pose proof (H _ Hl) as Hal. cbn [fst snd] in Hal. apply andb_prop in Hal. destruct Hal as [_ Hf].
    rewrite forallb_forall in Hf. apply in_capb_ok. auto.
  - intros a Hne. destruct (out_edges_ne_In _ _ Hne) as [l Hl].
    pose proof (H _ Hl) as Hal. cbn [fst snd] in Hal. apply andb_prop in Hal. destruct Hal as [Hm _].
    apply memb_In; auto.
Qed.

Lemma nonneg_b_ok v : nonneg_b v = true -> nonneg v.
Proof.
  unfold nonneg_b. intros H. rewrite forallb_forall in H.
  intros a e He. destruct (out_edges_In _ _ _ He) as [l [Hl Hel]].
  pose proof (H _ Hl) as Hal. cbn [snd] in Hal. rewrite forallb_forall in Hal.
  apply Z.leb_le. auto.
Qed.

Lemma bok_b_ok v : bok_b v = true -> BOk v.
Proof.
  unfold bok_b. intros H. apply andb_prop in H. destruct H as [H1 H]. apply andb_prop in H. destruct H as [H2 H3].
  rewrite forallb_forall in H2. rewrite forallb_forall in H3. constructor.
  - apply nodupb_NoDup; auto.
  - intros a Ha. apply Nat.ltb_lt. auto.
  - intros a Hne. destruct (out_edges_ne_In _ _ Hne) as [l Hl].
    pose proof (H3 _ Hl) as Hal. cbn [fst snd] in Hal. apply andb_prop in Hal. destruct Hal as [Hm _].
    apply memb_In; auto.
  - intros a e He. destruct (out_edges_In _ _ _ He) as [l [Hl Hel]].
    pose proof (H3 _ Hl) as Hal. cbn [fst snd] in Hal. apply andb_prop in Hal. destruct Hal as [_ Hf].
    rewrite forallb_forall in Hf. apply memb_In; auto.
Qed.
