(* Walks along edge_references (what floyd_warshall reads): steps, costs, distances,
   simple paths, and cutting cycles out of walks. *)
From Coq Require Import Lia ZArith List.
From PG Require Import Lib.Io Model.View.
Set Implicit Arguments.
Unset Strict Implicit.
Open Scope Z_scope.

(* an undirected reference can be followed both ways *)
Definition estep (v : view) (a b : nat) (w : Z) : Prop :=
  exists id, In (id, a, b, w) (verefs v) \/ (vdirected v = false /\ In (id, b, a, w) (verefs v)).

(* a walk is the list of (next node, weight) pairs *)
Inductive ewalk (v : view) : nat -> list (nat * Z) -> nat -> Prop :=
| ew_nil a : ewalk v a [] a
| ew_cons a b w p c : estep v a b w -> ewalk v b p c -> ewalk v a ((b, w) :: p) c.

Fixpoint ecost (p : list (nat * Z)) : Z :=
  match p with [] => 0 | bw :: t => snd bw + ecost t end.

Definition ereachable (v : view) (i j : nat) : Prop := exists p, ewalk v i p j.
Definition edist (v : view) (i j : nat) (d : Z) : Prop :=
  (exists p, ewalk v i p j /\ ecost p = d) /\ forall p, ewalk v i p j -> d <= ecost p.
Definition eneg_cycle (v : view) : Prop := exists a c, ewalk v a c a /\ ecost c < 0.
Definition esimple (i : nat) (p : list (nat * Z)) : Prop := NoDup (i :: map fst p).

Lemma ecost_app p q : ecost (p ++ q) = ecost p + ecost q.
Proof. induction p as [|e p IH]; cbn [ecost app]; lia. Qed.

Lemma ewalk_app v a p b q c : ewalk v a p b -> ewalk v b q c -> ewalk v a (p ++ q) c.
Proof.
  intros H; induction H as [a | a b w p c' Hs Hp IH]; intros Hq; cbn [app]; auto.
  constructor; auto.
Qed.

Lemma ewalk_app_inv v p q : forall a c, ewalk v a (p ++ q) c -> exists b, ewalk v a p b /\ ewalk v b q c.
Proof.
  induction p as [|e p IH]; intros a c H; cbn [app] in H.
  - exists a; split; auto. constructor.
  - inversion H as [|a' b w p' c' Hs Hp]; subst.
    destruct (IH _ _ Hp) as [m [H1 H2]]. exists m; split; auto. constructor; auto.
Qed.

Lemma ewalk_nil_inv v a b : ewalk v a [] b -> a = b.
Proof. intros H; inversion H; auto. Qed.

Lemma ewalk_snoc_end v a p b w c : ewalk v a (p ++ [(b, w)]) c -> c = b.
Proof.
  intros H. destruct (ewalk_app_inv H) as [m [_ H2]].
  inversion H2 as [|a' b' w' p' c' Hs Hp]; subst. symmetry; apply (ewalk_nil_inv Hp).
Qed.

Lemma ewalk_end_in v a p b : ewalk v a p b -> p <> [] -> In b (map fst p).
Proof.
  intros H; induction H as [a | a b w p c Hs Hp IH]; intros Hne; [congruence|].
  cbn [map fst]. destruct p as [|e p'].
  - apply ewalk_nil_inv in Hp. left; auto.
  - right. apply IH. discriminate.
Qed.

Lemma ewalk_split_at v a p y x : ewalk v a p y -> In x (a :: map fst p) ->
  exists p1 p2, p = p1 ++ p2 /\ ewalk v a p1 x /\ ewalk v x p2 y.
Proof.
  intros H; induction H as [a | a b w p c Hs Hp IH]; intros Hx.
  - destruct Hx as [->|[]]. exists [], []; repeat split; constructor.
  - destruct Hx as [->|Hx].
    + exists [], ((b, w) :: p); repeat split; try constructor; auto.
    + destruct (IH Hx) as [p1 [p2 [-> [H1 H2]]]].
      exists ((b, w) :: p1), p2; repeat split; auto. constructor; auto.
Qed.

Lemma ewalk_cycle_split v a p y : ewalk v a p y ->
  esimple a p \/
  exists p1 c p2 x, p = p1 ++ c ++ p2 /\ c <> [] /\ ewalk v a p1 x /\ ewalk v x c x /\ ewalk v x p2 y.
Proof.
  unfold esimple. intros H; induction H as [a | a b w p c Hs Hp IH].
  - left. constructor; [intros []|constructor].
  - destruct (in_dec Nat.eq_dec a (b :: map fst p)) as [Hin|Hnin].
    + right. destruct (ewalk_split_at Hp Hin) as [p1 [p2 [-> [H1 H2]]]].
      exists [], ((b, w) :: p1), p2, a. repeat split; auto; try discriminate; constructor; auto.
    + destruct IH as [Hnd|[p1 [cy [p2 [x [-> [Hc [H1 [H2 H3]]]]]]]]].
      * left. constructor; auto.
      * right. exists ((b, w) :: p1), cy, p2, x. repeat split; auto. constructor; auto.
Qed.

(* without negative cycles every walk is at least as expensive as some simple path *)
Lemma eshorten v : ~ eneg_cycle v -> forall N p i j, (length p <= N)%nat -> ewalk v i p j ->
  exists p', ewalk v i p' j /\ esimple i p' /\ ecost p' <= ecost p.
Proof.
  intros Hnn. induction N as [|N IH]; intros p i j Hlen W.
  - destruct p; [|cbn [length] in Hlen; lia]. exists []. split; auto. split; [|lia].
    constructor; [intros []|constructor].
  - destruct (ewalk_cycle_split W) as [Hs|[p1 [c [p2 [x [Hp [Hc [W1 [Wc W2]]]]]]]]].
    + exists p. split; auto. split; auto. lia.
    + destruct (Z_lt_le_dec (ecost c) 0) as [Hneg|Hpos].
      * exfalso. apply Hnn. exists x, c. auto.
      * assert (Hc' : (1 <= length c)%nat) by (destruct c; [congruence|cbn [length]; lia]).
        subst p. rewrite !app_length in Hlen.
        destruct (IH (p1 ++ p2) i j) as [p' [W' [Hs' Hcost]]].
        -- rewrite app_length; lia.
        -- eapply ewalk_app; eauto.
        -- exists p'. split; auto. split; auto. rewrite !ecost_app in *. lia.
Qed.

(* a closed walk at i costs at least 0 when there is no negative cycle; so edist i i 0 *)
Lemma edist_self v i : ~ eneg_cycle v -> edist v i i 0.
Proof.
  intros Hnn. split; [exists []; split; [constructor|reflexivity]|].
  intros p W. destruct (Z_lt_le_dec (ecost p) 0) as [Hneg|Hpos]; auto.
  exfalso. apply Hnn. exists i, p; auto.
Qed.

(* ------------------------------------------------------------------ splitting a simple path at an inner vertex *)
Lemma NoDup_app_left {A} (l1 l2 : list A) : NoDup (l1 ++ l2) -> NoDup l1.
Proof.
  induction l1 as [|a t IH]; cbn [app]; intros H; [constructor|].
  inversion H as [|a' l' Hnin Hnd]; subst. constructor; auto.
  intros Hin. apply Hnin. apply in_or_app; auto.
Qed.

Lemma NoDup_app_right {A} (l1 l2 : list A) : NoDup (l1 ++ l2) -> NoDup l2.
Proof. induction l1 as [|a t IH]; cbn [app]; auto. intros H; inversion H; auto. Qed.

Lemma NoDup_app_disjoint {A} (l1 l2 : list A) x : NoDup (l1 ++ l2) -> In x l1 -> ~ In x l2.
Proof.
  induction l1 as [|a t IH]; cbn [app]; intros H Hin; [destruct Hin|].
  inversion H as [|a' l' Hnin Hnd]; subst. destruct Hin as [->|Hin]; auto.
  intros H2. apply Hnin. apply in_or_app; auto.
Qed.

Lemma esplit_at v i p j k : ewalk v i p j -> esimple i p -> In k (map fst p) -> k <> j ->
  exists p1 p2, p = p1 ++ p2 /\ ewalk v i p1 k /\ ewalk v k p2 j /\ esimple i p1 /\ esimple k p2 /\
    i <> k /\
    (forall x, In x (map fst p1) -> x = k \/ (In x (map fst p) /\ x <> k /\ x <> j)) /\
    (forall x, In x (map fst p2) -> In x (map fst p) /\ x <> k).
Proof.
  unfold esimple. intros W Hs Hk Hkj.
  apply in_split in Hk. destruct Hk as [l1 [l2 Hsplit]].
  destruct (map_eq_app _ _ _ _ Hsplit) as [q1 [q' [Hp [Hm1 Hm2]]]].
  destruct (map_eq_cons _ _ Hm2) as [[k' w] [q2 [Hq' [Hk' Hm3]]]]. cbn [fst] in Hk'. subst k' q'.
  assert (Hp' : p = (q1 ++ [(k, w)]) ++ q2) by (rewrite <- app_assoc; exact Hp).
  rewrite Hp' in W. destruct (ewalk_app_inv W) as [m [W1 W2]].
  pose proof (ewalk_snoc_end W1). subst m.
  rewrite Hsplit in Hs. inversion Hs as [|a l Hi Hnd]; subst a l.
  assert (Hq2 : q2 <> []) by (intros ->; apply ewalk_nil_inv in W2; congruence).
  pose proof (ewalk_end_in W2 Hq2) as Hj2. rewrite Hm3 in Hj2.
  pose proof (NoDup_remove_2 _ _ _ Hnd) as Hk12.
  exists (q1 ++ [(k, w)]), q2. split; auto. split; auto. split; auto.
  rewrite map_app, Hm1, Hm3. cbn [map fst]. split; [|split; [|split; [|split]]].
  - constructor.
    + intros Hin. apply Hi. apply in_app_or in Hin. apply in_or_app.
      destruct Hin as [Hin|[<-|[]]]; [left; auto|right; left; auto].
    + apply (NoDup_app_left (l2:=l2)). rewrite <- app_assoc. exact Hnd.
  - apply (NoDup_app_right Hnd).
  - intros ->. apply Hi. apply in_or_app; right; left; auto.
  - intros x Hin. apply in_app_or in Hin. destruct Hin as [Hin|[<-|[]]]; [right|left; auto].
    split; [rewrite Hsplit; apply in_or_app; auto|]. split.
    + intros ->. apply Hk12. apply in_or_app; auto.
    + intros ->. apply (NoDup_app_disjoint Hnd Hin). right; auto.
  - intros x Hin. split; [rewrite Hsplit; apply in_or_app; right; right; auto|].
    intros ->. apply Hk12. apply in_or_app; auto.
Qed.

(* ------------------------------------------------------------------ agreement with walks along out-lists *)
From PG Require Import Spec.Paths.

(* edge_references and the out-lists describe the same weighted steps *)
Definition ERefsOk (v : view) : Prop :=
  forall a b w, estep v a b w <-> exists e, In e (out_edges v a) /\ tgt e = b /\ ewgt e = w.

Lemma ewalk_walk v : ERefsOk v -> forall i p j, ewalk v i p j ->
  exists q, walk v i q j /\ walk_cost q = ecost p.
Proof.
  intros HR i p j W. induction W as [a | a b w p c Hs Hp [q [Wq Cq]]].
  - exists []. split; [constructor|reflexivity].
  - apply HR in Hs. destruct Hs as [e [He [Ht Hw]]]. subst b w.
    exists (e :: q). split; [constructor; auto|]. cbn [walk_cost ecost snd]. lia.
Qed.

Lemma walk_ewalk v : ERefsOk v -> forall i q j, walk v i q j ->
  exists p, ewalk v i p j /\ ecost p = walk_cost q.
Proof.
  intros HR i q j W. induction W as [a | a e q b He Hq [p [Wp Cp]]].
  - exists []. split; [constructor|reflexivity].
  - exists ((tgt e, ewgt e) :: p). split; [|cbn [walk_cost ecost snd]; lia].
    constructor; auto. apply HR. exists e; auto.
Qed.

Lemma ereachable_iff v i j : ERefsOk v -> (ereachable v i j <-> reachable v i j).
Proof.
  intros HR. split.
  - intros [p W]. destruct (ewalk_walk HR W) as [q [Wq _]]. exists q; auto.
  - intros [q W]. destruct (walk_ewalk HR W) as [p [Wp _]]. exists p; auto.
Qed.

Lemma edist_iff v i j d : ERefsOk v -> (edist v i j d <-> is_dist v i j d).
Proof.
  intros HR. split.
  - intros [[p [W C]] L]. split.
    + destruct (ewalk_walk HR W) as [q [Wq Cq]]. exists q; split; auto; lia.
    + intros q Wq. destruct (walk_ewalk HR Wq) as [p' [Wp Cp]]. pose proof (L _ Wp). lia.
  - intros [[q [W C]] L]. split.
    + destruct (walk_ewalk HR W) as [p [Wp Cp]]. exists p; split; auto; lia.
    + intros p Wp. destruct (ewalk_walk HR Wp) as [q' [Wq Cq]]. pose proof (L _ Wq). lia.
Qed.

Lemma eneg_cycle_iff v : ERefsOk v ->
  (eneg_cycle v <-> exists a c, walk v a c a /\ walk_cost c < 0).
Proof.
  intros HR. split.
  - intros [a [c [W C]]]. destruct (ewalk_walk HR W) as [q [Wq Cq]]. exists a, q; split; auto; lia.
  - intros [a [c [W C]]]. destruct (walk_ewalk HR W) as [p [Wp Cp]]. exists a, p; split; auto; lia.
Qed.
