(* What a correct event trace of depth_first_search is: an abstract machine that accepts
   exactly the traces a depth-first search with visitor control may produce.  The machine
   state is the stack of open nodes, each with the successors it has still to examine. *)
From PG Require Import Lib.Io Model.View Model.Traversal Spec.Reach.

Record tst := mkT {
  topen : list (nat * list nat);   (* open nodes, innermost first, with their unexamined successors *)
  tdisc : list nat;                (* discovered *)
  tfin : list nat;                 (* finished *)
  ttime : nat;
  tpend : option nat               (* target of a tree edge the visitor let through: to be discovered next *)
}.

Definition tinit : tst := mkT [] [] [] 0 None.

Definition is_prune (c : control) : bool := match c with CPrune => true | _ => false end.
Definition is_continue (c : control) : bool := match c with CContinue => true | _ => false end.

Section Machine.
Variable v : view.
Variable ctl : dfs_event -> control.
Variable starts : list nat.

Inductive ev_step : tst -> dfs_event -> tst -> Prop :=
(* u is undiscovered, and is either the target of the tree edge just reported or a start node
   taken up with no node open; its time is the clock; pruning it leaves it nothing to examine *)
| es_discover u o dc fn t p :
    ~ In u dc ->
    (p = Some u \/ (p = None /\ o = [] /\ In u starts)) ->
    ev_step (mkT o dc fn t p) (EvDiscover u t)
            (mkT ((u, if is_prune (ctl (EvDiscover u t)) then [] else neighbors v u) :: o)
                 (u :: dc) fn (S t) None)
(* the next successor w of the innermost open node u is undiscovered; it is visited next
   only if the visitor continues *)
| es_tree u w ws o dc fn t :
    ~ In w dc ->
    ev_step (mkT ((u, w :: ws) :: o) dc fn t None) (EvTree u w)
            (mkT ((u, ws) :: o) dc fn t (if is_continue (ctl (EvTree u w)) then Some w else None))
(* ... is discovered and unfinished *)
| es_back u w ws o dc fn t :
    In w dc -> ~ In w fn ->
    ev_step (mkT ((u, w :: ws) :: o) dc fn t None) (EvBack u w) (mkT ((u, ws) :: o) dc fn t None)
(* ... is finished *)
| es_cross u w ws o dc fn t :
    In w fn ->
    ev_step (mkT ((u, w :: ws) :: o) dc fn t None) (EvCross u w) (mkT ((u, ws) :: o) dc fn t None)
(* the innermost open node has nothing left to examine *)
| es_finish u o dc fn t :
    ev_step (mkT ((u, []) :: o) dc fn t None) (EvFinish u t) (mkT o dc (u :: fn) (S t) None).

Inductive ev_run : tst -> list dfs_event -> tst -> Prop :=
| run_nil st : ev_run st [] st
| run_cons st e st1 evs st2 : ev_step st e st1 -> ev_run st1 evs st2 -> ev_run st (e :: evs) st2.

(* no event of the list made the visitor break *)
Definition quiet (evs : list dfs_event) : Prop := Forall (fun e => ctl e <> CBreak) evs.

(* the flag is true exactly when the visitor broke, which it did on the last event only *)
Definition brk_ok (brk : bool) (evs : list dfs_event) : Prop :=
  if brk then exists pre e, evs = pre ++ [e] /\ quiet pre /\ ctl e = CBreak else quiet evs.

End Machine.

(* ------------------------------------------------------------------ *)
(* Projections of a trace, and an independent nesting check            *)

Definition disc_nodes (evs : list dfs_event) : list nat :=
  flat_map (fun e => match e with EvDiscover u _ => [u] | _ => [] end) evs.
Definition fin_nodes (evs : list dfs_event) : list nat :=
  flat_map (fun e => match e with EvFinish u _ => [u] | _ => [] end) evs.
Definition ev_times (evs : list dfs_event) : list nat :=
  flat_map (fun e => match e with EvDiscover _ t => [t] | EvFinish _ t => [t] | _ => [] end) evs.

(* Discover pushes, Finish pops the same node, edge events leave from the innermost open node;
   returns the stack of nodes left open *)
Fixpoint nest (stk : list nat) (evs : list dfs_event) : option (list nat) :=
  match evs with
  | [] => Some stk
  | EvDiscover u _ :: r => nest (u :: stk) r
  | EvFinish u _ :: r =>
      match stk with h :: t => if Nat.eqb h u then nest t r else None | [] => None end
  | EvTree u _ :: r | EvBack u _ :: r | EvCross u _ :: r =>
      match stk with h :: _ => if Nat.eqb h u then nest stk r else None | [] => None end
  end.

(* What may follow a prefix of a trace, said with the events alone: D and F are the nodes
   discovered and finished so far, the open nodes are those the prefix left on the stack *)
Definition event_ok (v : view) (pre : list dfs_event) (e : dfs_event) : Prop :=
  let D := disc_nodes pre in
  let F := fin_nodes pre in
  match e with
  | EvDiscover u t => ~ In u D /\ t = length D + length F
  | EvFinish u t =>
      (exists o, nest [] pre = Some (u :: o)) /\ In u D /\ ~ In u F /\ t = length D + length F
  | EvTree u w => (exists o, nest [] pre = Some (u :: o)) /\ step v u w /\ ~ In w D
  | EvBack u w =>
      (exists o, nest [] pre = Some (u :: o) /\ In w (u :: o)) /\ step v u w /\ In w D /\ ~ In w F
  | EvCross u w => (exists o, nest [] pre = Some (u :: o)) /\ step v u w /\ In w F
  end.
