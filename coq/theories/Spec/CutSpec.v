(* Cut nodes (articulation points) of an undirected graph given as a symmetric view: the
   vocabulary of the articulation_points theorems (C16).  Nothing here mentions the algorithm.

   cut_node is stated as a separation property: c is a node of the view and there are two
   nodes other than c that are connected, but not by a path avoiding c.  (This is the usual
   "removing c increases the number of connected components", stated without counting.) *)
From PG Require Import Lib.Io Model.View Spec.Reach.

(* every adjacency entry has its mirror: the view shows an undirected graph *)
Definition symmetric (v : view) : Prop :=
  forall a b, In b (neighbors v a) -> In a (neighbors v b).

Definition connected (v : view) (a b : nat) : Prop := reachable v a b.

(* a path from a to b none of whose nodes (ends included) is c *)
Definition connected_without (v : view) (c a b : nat) : Prop :=
  reach_in (fun y => y <> c) v a b.

Definition cut_node (v : view) (c : nat) : Prop :=
  In c (vnodes v) /\
  exists a b, a <> c /\ b <> c /\ connected v a b /\ ~ connected_without v c a b.
