(* The vocabulary of C07: two views show the same abstract graph.

   view_iso p v1 v2: p is a node correspondence under which the two views have the same
   nodes and, node by node, the same multiset of (target, weight) out-entries.  Edge ids,
   the order of entries inside a list, the order of the node list, vbound, vcap, vdirected,
   vecount, vebound and the node numbering may all differ.

   Nothing here mentions an algorithm.  No proofs in this file beyond definitions. *)
From Coq Require Import Permutation.
From PG Require Import Lib.Io Model.View Spec.Forest.

(* ------------------------------------------------------------------ *)
(* The abstract graph behind the out-lists                              *)

(* the out-lists mention nodes of the view only: nothing leaves a non-node, every target is a
   node.  (Spec.Reach.nodes_ok says the same on neighbors; Spec.Paths.BOk has both halves.) *)
Definition closed_view (v : view) : Prop :=
  forall a e, In e (out_edges v a) -> In a (vnodes v) /\ In (tgt e) (vnodes v).

Definition inj_on (p : nat -> nat) (l : list nat) : Prop :=
  forall a b, In a l -> In b l -> p a = p b -> a = b.

(* what an out-entry says about the abstract graph, read through p *)
Definition entry_via (p : nat -> nat) (e : eref) : nat * Z := (p (tgt e), ewgt e).
Definition entry (e : eref) : nat * Z := (tgt e, ewgt e).

Definition view_iso (p : nat -> nat) (v1 v2 : view) : Prop :=
  (* p is injective on the nodes of v1 *)
  inj_on p (vnodes v1) /\
  (* the nodes of v2 are exactly the images of the nodes of v1 *)
  (forall x, In x (vnodes v2) <-> exists a, In a (vnodes v1) /\ x = p a) /\
  (* out-lists correspond as multisets of (target, weight) *)
  (forall a, In a (vnodes v1) ->
     Permutation (map (entry_via p) (out_edges v1 a)) (map entry (out_edges v2 (p a)))) /\
  (* nothing leaves a non-node, in both views *)
  (forall a, ~ In a (vnodes v1) -> out_edges v1 a = []) /\
  (forall x, ~ In x (vnodes v2) -> out_edges v2 x = []) /\
  (* the targets of v1 are nodes of v1: p is constrained on nodes only, so without this
     clause an entry of v1 pointing at a non-node could be sent by p onto any node of v2
     (IsoP.iso_needs_closed_targets is the two-line counterexample) *)
  (forall a e, In e (out_edges v1 a) -> In (tgt e) (vnodes v1)).

(* ------------------------------------------------------------------ *)
(* The same for the two other things some algorithms read              *)

(* in-lists: multisets of (source, weight) correspond *)
Definition view_iso_in (p : nat -> nat) (v1 v2 : view) : Prop :=
  forall a, In a (vnodes v1) ->
    Permutation (map (entry_via p) (in_edges v1 a)) (map entry (in_edges v2 (p a))).

(* edge_references: multisets of (source, target, weight) correspond *)
Definition triple_via (p : nat -> nat) (t : nat * nat * Z) : nat * nat * Z :=
  let '(a, b, w) := t in (p a, p b, w).

Definition view_iso_erefs (p : nat -> nat) (v1 v2 : view) : Prop :=
  Permutation (map (triple_via p) (gedges v1)) (gedges v2).

(* edge_references up to the orientation in which each reference is reported (two graph types
   may list the endpoints of the same undirected edge in different order, and a spanning
   forest ignores direction anyway): multisets of unordered weighted pairs correspond *)
Definition unord (t : nat * nat * Z) : nat * nat * Z :=
  let '(a, b, w) := t in (Nat.min a b, Nat.max a b, w).

Definition view_iso_erefs_u (p : nat -> nat) (v1 v2 : view) : Prop :=
  Permutation (map (fun t => unord (triple_via p t)) (gedges v1)) (map unord (gedges v2)).

(* the part of view_iso that is about nodes only *)
Definition nodes_iso (p : nat -> nat) (v1 v2 : view) : Prop :=
  inj_on p (vnodes v1) /\
  (forall x, In x (vnodes v2) <-> exists a, In a (vnodes v1) /\ x = p a).

(* the node indices are exactly 0 .. node_bound-1 (NodeCompactIndexable): no holes *)
Definition compact_view (v : view) : Prop := forall x, In x (vnodes v) <-> x < vbound v.

(* ------------------------------------------------------------------ *)
(* An inverse of p on the nodes of a view                               *)

Definition inv_on (p : nat -> nat) (l : list nat) (x : nat) : nat :=
  match find (fun a => Nat.eqb (p a) x) l with Some a => a | None => 0 end.

(* ------------------------------------------------------------------ *)
(* Renumbering a view: the same graph stored at other indices, with holes   *)

Definition relabel_eref (p : nat -> nat) (e : eref) : eref := (eid e, p (tgt e), ewgt e).

Definition relabel (p : nat -> nat) (v : view) : view :=
  let ns := map p (vnodes v) in
  let b := S (list_max ns) in
  mkView (vdirected v) b (Some b) ns
    (map (fun a => (p a, map (relabel_eref p) (out_edges v a))) (vnodes v))
    (map (fun a => (p a, map (relabel_eref p) (in_edges v a))) (vnodes v))
    (vecount v) (vebound v)
    (map (fun q : nat * nat * nat * Z =>
            let '(i, a, b, w) := q in (i, p a, p b, w)) (verefs v)).

(* ------------------------------------------------------------------ *)
(* Two lists of classes correspond under p: each class of the first, mapped through p, is
   as a set a class of the second, and conversely *)

Definition same_set (l1 l2 : list nat) : Prop := forall x, In x l1 <-> In x l2.

Definition classes_correspond (p : nat -> nat) (ls1 ls2 : list (list nat)) : Prop :=
  (forall c1, In c1 ls1 -> exists c2, In c2 ls2 /\ same_set (map p c1) c2) /\
  (forall c2, In c2 ls2 -> exists c1, In c1 ls1 /\ same_set (map p c1) c2) /\
  length ls1 = length ls2.
