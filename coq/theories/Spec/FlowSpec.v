(* Vocabulary of the max-flow theorems (C15): flow networks as lists of edge records
   (id, source, target, capacity), flows indexed by edge id, feasibility, conservation, value,
   cuts; and the well-formedness of a view as a flow network.  Definitions only. *)
From PG Require Import Lib.Io Model.View Model.MatchM Model.FlowM Spec.Reach.
Open Scope Z_scope.

(* ------------------------------------------------------------------ *)
(* Sums                                                                *)

Fixpoint sumZ {A} (f : A -> Z) (l : list A) : Z :=
  match l with [] => 0 | a :: t => f a + sumZ f t end.

(* ------------------------------------------------------------------ *)
(* Flows on a list of edge records                                     *)

(* a flow gives a number to every edge id *)
Definition feasible (E : list fedge) (f : nat -> Z) : Prop :=
  forall e, In e E -> 0 <= f (fe_id e) <= fe_cap e.

Definition outflow (E : list fedge) (f : nat -> Z) (x : nat) : Z :=
  sumZ (fun e => if Nat.eqb (fe_src e) x then f (fe_id e) else 0) E.
Definition inflow (E : list fedge) (f : nat -> Z) (x : nat) : Z :=
  sumZ (fun e => if Nat.eqb (fe_tgt e) x then f (fe_id e) else 0) E.
Definition net (E : list fedge) (f : nat -> Z) (x : nat) : Z := inflow E f x - outflow E f x.

Definition conserved (E : list fedge) (f : nat -> Z) (s t : nat) : Prop :=
  forall x, x <> s -> x <> t -> net E f x = 0.

Definition value (E : list fedge) (f : nat -> Z) (s : nat) : Z := outflow E f s - inflow E f s.

(* a cut is the set S of nodes on the source side, as a boolean predicate *)
Definition cut_cap (E : list fedge) (U : nat -> bool) : Z :=
  sumZ (fun e => if U (fe_src e) && negb (U (fe_tgt e)) then fe_cap e else 0) E.
Definition cut_fwd (E : list fedge) (f : nat -> Z) (U : nat -> bool) : Z :=
  sumZ (fun e => if U (fe_src e) && negb (U (fe_tgt e)) then f (fe_id e) else 0) E.
Definition cut_bwd (E : list fedge) (f : nat -> Z) (U : nat -> bool) : Z :=
  sumZ (fun e => if negb (U (fe_src e)) && U (fe_tgt e) then f (fe_id e) else 0) E.

Definition is_cut (U : nat -> bool) (s t : nat) : Prop := U s = true /\ U t = false.

(* no residual edge leaves S: edges out of S are saturated, edges into S carry nothing *)
Definition no_residual_out (E : list fedge) (f : nat -> Z) (U : nat -> bool) : Prop :=
  forall e, In e E ->
    (U (fe_src e) = true -> U (fe_tgt e) = false -> f (fe_id e) = fe_cap e) /\
    (U (fe_src e) = false -> U (fe_tgt e) = true -> f (fe_id e) = 0).

Definition is_max_flow (E : list fedge) (f : nat -> Z) (s t : nat) : Prop :=
  feasible E f /\ conserved E f s t /\
  forall f', feasible E f' -> conserved E f' s t -> value E f' s <= value E f s.

Definition is_min_cut (E : list fedge) (U : nat -> bool) (s t : nat) : Prop :=
  is_cut U s t /\ forall U', is_cut U' s t -> cut_cap E U <= cut_cap E U'.

(* ------------------------------------------------------------------ *)
(* A view as a flow network                                            *)

(* the edge records of a view, read off the out lists: (id, source, target, capacity) *)
Definition fedges (v : view) : list fedge := all_out v.
Definition out_fedges (v : view) (a : nat) : list fedge :=
  map (fun e => (eid e, a, tgt e, ewgt e)) (out_edges v a).
Definition in_fedges (v : view) (a : nat) : list fedge :=
  map (fun e => (eid e, tgt e, a, ewgt e)) (in_edges v a).

(* the flow a vector of per-edge numbers stands for *)
Definition f_of (flows : list Z) : nat -> Z := fun i => nth i flows 0.

Record FOk (v : view) : Prop := {
  fok_dir : vdirected v = true;
  fok_nodup : NoDup (vnodes v);
  fok_bound : forall a, In a (vnodes v) -> (a < vbound v)%nat;
  fok_cap : forall a, In a (vnodes v) -> in_cap v a;
  (* only nodes have out lists; the edges with source a are then exactly out_edges v a, each once *)
  fok_out : forall a, out_edges v a <> [] -> In a (vnodes v);
  fok_tgt : forall e, In e (fedges v) -> In (fe_tgt e) (vnodes v);
  fok_eid : forall e, In e (fedges v) -> (fe_id e < vebound v)%nat;
  fok_ids : NoDup (map fe_id (fedges v));
  (* the in list of a holds exactly the edges with target a *)
  fok_inout : forall a e, In e (in_fedges v a) <-> In e (fedges v) /\ fe_tgt e = a;
  fok_nonneg : forall e, In e (fedges v) -> 0 <= fe_cap e
}.

(* ---- a boolean check of FOk, for concrete views ---- *)
Definition fedge_eqb (e1 e2 : fedge) : bool :=
  Nat.eqb (fe_id e1) (fe_id e2) && Nat.eqb (fe_src e1) (fe_src e2)
  && Nat.eqb (fe_tgt e1) (fe_tgt e2) && Z.eqb (fe_cap e1) (fe_cap e2).
Definition fedge_mem (e : fedge) (l : list fedge) : bool := existsb (fedge_eqb e) l.

Fixpoint nodup_b (l : list nat) : bool :=
  match l with [] => true | a :: t => negb (mem a t) && nodup_b t end.

Definition fok_b (v : view) : bool :=
  vdirected v
  && nodup_b (vnodes v)
  && forallb (fun a => Nat.ltb a (vbound v) && in_capb v a) (vnodes v)
  && forallb (fun al : nat * list eref => mem (fst al) (vnodes v)) (vout v)
  && forallb (fun al : nat * list eref => mem (fst al) (vnodes v)) (vin v)
  && forallb (fun e => mem (fe_tgt e) (vnodes v) && Nat.ltb (fe_id e) (vebound v) && Z.leb 0 (fe_cap e)
                       && fedge_mem e (in_fedges v (fe_tgt e))) (fedges v)
  && nodup_b (map fe_id (fedges v))
  && forallb (fun a => forallb (fun e => fedge_mem e (fedges v)) (in_fedges v a)) (vnodes v).
