(* The specification side of C05 for adj::List: the log of the edges inserted so
   far, in insertion order.  Row a of the List is the log filtered by source. *)
From PG Require Import Lib.Io Model.AdjListM.

Definition log := list (nat * nat * nat).          (* (source, target, weight) *)
Definition lspec := (nat * log)%type.              (* node count, insertion log *)

(* the edges out of a, in insertion order, as the List stores them *)
Definition row_of (l : log) (a : nat) : list (nat * nat) :=
  map (fun e => (snd (fst e), snd e)) (filter (fun e => Nat.eqb (fst (fst e)) a) l).

(* the List that represents an abstract state *)
Definition al_abs (s : lspec) : alist := map (row_of (snd s)) (seq 0 (fst s)).

(* overwrite the weight of the first a -> b edge, if there is one *)
Fixpoint log_update (l : log) (a b w : nat) : option log :=
  match l with
  | [] => None
  | (x, y, z) :: t =>
      if Nat.eqb x a && Nat.eqb y b then Some ((x, y, w) :: t)
      else option_map (cons (x, y, z)) (log_update t a b w)
  end.

(* overwrite the weight of the i-th edge out of a, if there is one *)
Fixpoint log_set (l : log) (a i v : nat) : log :=
  match l with
  | [] => []
  | (x, y, z) :: t =>
      if Nat.eqb x a
      then match i with 0 => (x, y, v) :: t | S j => (x, y, z) :: log_set t a j v end
      else (x, y, z) :: log_set t a i v
  end.

Definition lspec_step (s : lspec) (o : line) : lspec :=
  let '(n, l) := s in
  let '(code, x) := o in
  let inrange := Nat.ltb (arg x 0) n && Nat.ltb (arg x 1) n in
  match code with
  | 0 => (S n, l)
  | 1 => if inrange then (n, l ++ [(arg x 0, arg x 1, arg x 2)]) else s
  | 2 => if inrange
         then match log_update l (arg x 0) (arg x 1) (arg x 2) with
              | Some l' => (n, l')
              | None => (n, l ++ [(arg x 0, arg x 1, arg x 2)])
              end
         else s
  | 3 => (0, [])
  | 8 => (n, log_set l (arg x 0) (arg x 1) (arg x 2))
  | 11 => (S n, l ++ map (fun p => (n, fst p, snd p)) (pairs x))
  | _ => s
  end.

Definition lspec_final (ops : list line) : lspec := fold_left lspec_step ops (0, []).

(* the state reached by the model's [run] *)
Definition al_final (g : alist) (ops : list line) : alist :=
  fold_left (fun g o => fst (step g o)) ops g.

(* i is the first position of row r whose successor is b *)
Definition first_pos (r : list (nat * nat)) (b i : nat) : Prop :=
  (exists w, nth_error r i = Some (b, w)) /\
  (forall j s w, j < i -> nth_error r j = Some (s, w) -> s <> b).

(* histories without clear *)
Definition no_clear (ops : list line) : Prop := Forall (fun o : line => fst o <> 3) ops.
