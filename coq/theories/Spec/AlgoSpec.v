(* Vocabulary of the C09 statements that is not already in Spec/Reach.v or Spec/Partition.v:
   the endpoint pairs of edge_references, representatives of the classes of a partition,
   mutual reachability.  Nothing here mentions an algorithm. *)
From PG Require Import Lib.Io Model.View Spec.Reach Spec.Partition.

(* ------------------------------------------------------------------ *)
(* edge_references as pairs of endpoints                               *)

Definition esrc (q : nat * nat * nat * Z) : nat := snd (fst (fst q)).
Definition etgt (q : nat * nat * nat * Z) : nat := snd (fst q).
Definition epairs (es : list (nat * nat * nat * Z)) : list (nat * nat) :=
  map (fun q => (esrc q, etgt q)) es.

(* both endpoints of every edge reference are below node_bound *)
Definition erefs_ok (v : view) : Prop :=
  forall q, In q (verefs v) -> esrc q < vbound v /\ etgt q < vbound v.

Definition erefs_okb (v : view) : bool :=
  forallb (fun q => Nat.ltb (esrc q) (vbound v) && Nat.ltb (etgt q) (vbound v)) (verefs v).

Lemma erefs_okb_ok v : erefs_okb v = true -> erefs_ok v.
Proof.
  unfold erefs_okb, erefs_ok. rewrite forallb_forall. intros H q Hq.
  specialize (H q Hq). rewrite andb_true_iff, !Nat.ltb_lt in H. exact H.
Qed.

(* reps lists exactly one member of every class of [conn prs] among 0 .. n-1: its length
   is the number of classes *)
Definition class_reps (n : nat) (prs : list (nat * nat)) (reps : list nat) : Prop :=
  NoDup reps /\
  (forall r, In r reps -> r < n) /\
  (forall x, x < n -> exists r, In r reps /\ conn prs x r) /\
  (forall r r', In r reps -> In r' reps -> conn prs r r' -> r = r').

(* the undirected multigraph given by a list of edges has a cycle: some edge joins two
   endpoints that the edges before it already connect (a self-loop and a second parallel
   edge are such edges) *)
Definition closes_cycle (es : list (nat * nat * nat * Z)) : Prop :=
  exists pre q post, es = pre ++ q :: post /\ conn (epairs pre) (esrc q) (etgt q).

(* ------------------------------------------------------------------ *)
(* Mutual reachability                                                 *)

Definition mutual (v : view) (a b : nat) : Prop := reachable v a b /\ reachable v b a.

(* c is exactly the class of mutual reachability of some node r of the view *)
Definition scc_class (v : view) (c : list nat) : Prop :=
  exists r, In r (vnodes v) /\ forall x, In x c <-> mutual v r x.

(* no component reaches a later one: the list is in reverse topological order *)
Definition no_later_reach (v : view) (ls : list (list nat)) : Prop :=
  forall i j c1 c2, i < j -> nth_error ls i = Some c1 -> nth_error ls j = Some c2 ->
  forall x y, In x c1 -> In y c2 -> ~ reachable v x y.

(* ------------------------------------------------------------------ *)
(* Two-colourability of the part of the view reachable from s          *)

Definition two_colourable (v : view) (s : nat) : Prop :=
  exists c : nat -> bool, forall a b, reachable v s a -> step v a b -> c a <> c b.
