(* Vocabulary of the Acyclic<G> theorems (C14): what a consistent order map is, what it means
   for it to be a topological order of a view, and when a view is a consistent directed
   multigraph.  Nothing here mentions the algorithm. *)
From Coq Require Import Sorted Permutation.
From PG Require Import Lib.Io Model.View Model.Traversal Model.AcyclicM Spec.Reach.

(* the position -> node list is strictly sorted by position (so positions are distinct) *)
Definition psorted (l : list (nat * nat)) : Prop := StronglySorted lt (map fst l).

(* The two halves of an OrderMap describe the same bijection between the live nodes and the
   positions in use:  (p, n) is listed  iff  n is live and its slot of node_to_pos holds p.
   (Slots of dead nodes are unconstrained.)  It follows that a node is listed once
   (Proofs/OrderMapP.v, [OInv_nodup]). *)
Record OInv (live : nat -> Prop) (om : omap) : Prop := {
  oi_sorted : psorted (p2n om);
  oi_in : forall p n, In (p, n) (p2n om) <-> live n /\ nth_error (n2p om) n = Some p;
  oi_len : forall n, live n -> n < length (n2p om)
}.

(* every edge goes from an earlier to a later position *)
Definition Topo (v : view) (om : omap) : Prop :=
  forall a b, step v a b -> pos_or0 om a < pos_or0 om b.

(* the edges (id, source, target) as the out-lists / the in-lists of the listed nodes show them *)
Definition out_triples (v : view) : list (nat * nat * nat) :=
  flat_map (fun a => map (fun e => (eid e, a, tgt e)) (out_edges v a)) (vnodes v).
Definition in_triples (v : view) : list (nat * nat * nat) :=
  flat_map (fun b => map (fun e => (eid e, tgt e, b)) (in_edges v b)) (vnodes v).

(* the view is a consistent directed multigraph whose nodes fit the visit map *)
Record VWf (v : view) : Prop := {
  vw_nodup : NoDup (vnodes v);
  vw_bound : forall a, In a (vnodes v) -> a < vbound v;
  vw_cap : forall a, In a (vnodes v) -> in_cap v a;
  vw_out : forall a b, In b (neighbors v a) -> In a (vnodes v) /\ In b (vnodes v);
  vw_in : forall a b, In a (neighbors_in v b) -> In a (vnodes v) /\ In b (vnodes v);
  vw_same : Permutation (out_triples v) (in_triples v)
}.

(* no directed cycle: no node with a non-empty path back to itself *)
Definition no_cycle (v : view) : Prop := forall a b, step v a b -> ~ reachable v b a.
