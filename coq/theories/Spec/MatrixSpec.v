(* The specification side of C04: an abstract simple graph (node weights by id,
   one optional weight per ordered pair - per unordered pair when undirected)
   and what each MatrixGraph operation does to it. *)
From PG Require Import Lib.Io Model.MatrixM.

(* (x, y) names the same edge slot as (a, b) *)
Definition same_pairb (directed : bool) (a b x y : nat) : bool :=
  orb (andb (Nat.eqb a x) (Nat.eqb b y))
      (andb (negb directed) (andb (Nat.eqb a y) (Nat.eqb b x))).

Record sg := mkSg {
  s_nw : nat -> option nat;            (* node id -> weight, None = no such node *)
  s_ew : nat -> nat -> option nat      (* (a, b) -> weight, None = no edge *)
}.

Definition sg_empty : sg := mkSg (fun _ => None) (fun _ _ => None).

Definition sg_add_node (s : sg) (i w : nat) : sg :=
  mkSg (fun j => if Nat.eqb j i then Some w else s_nw s j) (s_ew s).

(* removing a node removes its incident edges *)
Definition sg_remove_node (s : sg) (a : nat) : sg :=
  mkSg (fun j => if Nat.eqb j a then None else s_nw s j)
       (fun x y => if orb (Nat.eqb x a) (Nat.eqb y a) then None else s_ew s x y).

Definition sg_set_edge (directed : bool) (s : sg) (a b : nat) (v : option nat) : sg :=
  mkSg (s_nw s) (fun x y => if same_pairb directed a b x y then v else s_ew s x y).

Definition sg_live (s : sg) (i : nat) : Prop := s_nw s i <> None.

(* One operation of the harness grammar (opcodes 0..9 of MatrixM.step) on the
   abstract graph.  [ret] is the first line the call printed: it supplies the id
   that add_node returned, and tells whether try_update_edge refused the call. *)
Definition spec_step (directed notzero : bool) (s : sg) (o : line) (ret : line) : sg :=
  let '(code, a) := o in
  let upd_edge := if andb notzero (Nat.eqb (arg a 2) 0) then s
                  else sg_set_edge directed s (arg a 0) (arg a 1) (Some (arg a 2)) in
  match code with
  | 0 | 1 => if Nat.eqb (fst ret) TAG_NAT then sg_add_node s (arg (snd ret) 0) (arg a 0) else s
  | 2 => match s_nw s (arg a 0) with Some _ => sg_remove_node s (arg a 0) | None => s end
  | 3 | 4 | 6 => upd_edge
  | 5 => if Nat.eqb (fst ret) TAG_ERR then s else upd_edge
  | 7 | 8 => sg_set_edge directed s (arg a 0) (arg a 1) None
  | 9 => sg_empty
  | _ => s
  end.

(* every edge operation names nodes that exist at that moment *)
Definition op_ok (s : sg) (o : line) : Prop :=
  let '(code, a) := o in
  match code with
  | 3 | 4 | 5 | 6 | 7 | 8 => sg_live s (arg a 0) /\ sg_live s (arg a 1)
  | _ => True
  end.

Definition first_line (ls : list line) : line := hd (TAG_PANIC, []) ls.

(* run the model and the specification side by side *)
Fixpoint replay (directed notzero debug : bool) (cap : nat) (capcheck : bool)
                (g : mg) (s : sg) (ops : list line) : mg * sg :=
  match ops with
  | [] => (g, s)
  | o :: rest =>
      let '(g', out) := step directed notzero debug cap capcheck g o in
      replay directed notzero debug cap capcheck g' (spec_step directed notzero s o (first_line out)) rest
  end.

Fixpoint hist_ok (directed notzero debug : bool) (cap : nat) (capcheck : bool)
                 (g : mg) (s : sg) (ops : list line) : Prop :=
  match ops with
  | [] => True
  | o :: rest =>
      op_ok s o /\
      let '(g', out) := step directed notzero debug cap capcheck g o in
      hist_ok directed notzero debug cap capcheck g' (spec_step directed notzero s o (first_line out)) rest
  end.
