(* Vocabulary of Berge's theorem (C15b): alternating and augmenting paths of a matching of the
   undirected graph (nodes, uadj adj), matchings being lists of pairs as in Spec/MatchSpec.v
   ([is_matching]).  Definitions only; the proofs are in Proofs/BergeP.v. *)
From PG Require Import Lib.Io Model.View Model.MatchM Spec.Reach Spec.MatchSpec.

(* x and y are the two ends of a pair of M *)
Definition medge (M : list (nat * nat)) (x y : nat) : Prop := In (x, y) M \/ In (y, x) M.

(* no pair of M has x as an end *)
Definition mfree (M : list (nat * nat)) (x : nat) : Prop := ~ In x (endpoints M).

(* an edge of the graph that is not a pair of M *)
Definition nonm (adj : nat -> nat -> bool) (M : list (nat * nat)) (x y : nat) : Prop :=
  uadj adj x y = true /\ ~ medge M x y.

(* ------------------------------------------------------------------ *)
(* M-alternating paths                                                  *)

(* a walk whose edges are alternately pairs of M and edges outside M; the flag says whether the
   first edge has to be a pair of M *)
Inductive alt_from (adj : nat -> nat -> bool) (M : list (nat * nat)) : bool -> list nat -> Prop :=
| alt_one b x : alt_from adj M b [x]
| alt_m x y l : medge M x y -> alt_from adj M false (y :: l) -> alt_from adj M true (x :: y :: l)
| alt_n x y l : nonm adj M x y -> alt_from adj M true (y :: l) -> alt_from adj M false (x :: y :: l).

(* an M-alternating path: simple, inside the graph, edges alternate *)
Definition alternating (nodes : list nat) (adj : nat -> nat -> bool) (M : list (nat * nat)) (l : list nat) : Prop :=
  NoDup l /\ (forall x, In x l -> In x nodes) /\ exists b, alt_from adj M b l.

(* x0 x1 ... x(2k+1): the edges x(2i) x(2i+1) satisfy E, the edges x(2i+1) x(2i+2) are pairs of M.
   (An odd number of edges, the first and the last of them E-edges.) *)
Inductive altp (E : nat -> nat -> Prop) (M : list (nat * nat)) : list nat -> Prop :=
| altp_edge x y : E x y -> altp E M [x; y]
| altp_step x y z l : E x y -> medge M y z -> altp E M (z :: l) -> altp E M (x :: y :: z :: l).

(* an M-augmenting path: a simple path of the graph between two free vertices (distinct, since the
   path is simple and has at least two vertices) whose edges are alternately outside M and in M,
   the first and the last edge outside M *)
Definition augmenting (nodes : list nat) (adj : nat -> nat -> bool) (M : list (nat * nat)) (l : list nat) : Prop :=
  altp (nonm adj M) M l /\ NoDup l /\ (forall x, In x l -> In x nodes) /\
  mfree M (hd 0 l) /\ mfree M (last l 0).

(* the pairs x0 x1, x2 x3, ... of a path *)
Fixpoint pairs_of (l : list nat) : list (nat * nat) :=
  match l with
  | x :: y :: t => (x, y) :: pairs_of t
  | _ => []
  end.

(* the matching M with the augmenting path l flipped: the pairs of M off the path, and the
   edges x0 x1, x2 x3, ... of the path *)
Definition flip (M : list (nat * nat)) (l : list nat) : list (nat * nat) :=
  filter (fun p => negb (mem (fst p) l) && negb (mem (snd p) l)) M ++ pairs_of l.

(* N covers every vertex that M covers, and u *)
Definition extends (nodes : list nat) (adj : nat -> nat -> bool) (M : list (nat * nat)) (u : nat) : Prop :=
  exists N, is_matching nodes adj N /\ (forall x, In x (endpoints M) -> In x (endpoints N)) /\
            In u (endpoints N).

(* the partner of x in a list of pairs *)
Fixpoint pmate (N : list (nat * nat)) (x : nat) : option nat :=
  match N with
  | [] => None
  | (a, b) :: t => if Nat.eqb x a then Some b else if Nat.eqb x b then Some a else pmate t x
  end.

(* augmenting paths of a mate vector of a view *)
Definition vaugmenting (v : view) (m : list (option nat)) (l : list nat) : Prop :=
  augmenting (vnodes v) (vadj v) (m_edges m) l.
