(* Reachability, hop distance and well-formedness of a view: the vocabulary in which
   the traversal theorems (C08) are stated.  Nothing here mentions a traversal. *)
From PG Require Import Lib.Io Model.View.

(* ------------------------------------------------------------------ *)
(* Steps, reachability, paths                                          *)

Definition step (v : view) (a b : nat) : Prop := In b (neighbors v a).

(* reflexive-transitive closure of [step], extended on the right *)
Inductive reachable (v : view) (s : nat) : nat -> Prop :=
| reach_refl : reachable v s s
| reach_step x y : reachable v s x -> step v x y -> reachable v s y.

(* reachable through nodes satisfying P only (both ends included) *)
Inductive reach_in (P : nat -> Prop) (v : view) (s : nat) : nat -> Prop :=
| ri_refl : P s -> reach_in P v s s
| ri_step x y : reach_in P v s x -> step v x y -> P y -> reach_in P v s y.

(* a walk of exactly k steps *)
Inductive path (v : view) (s : nat) : nat -> nat -> Prop :=
| path_0 : path v s s 0
| path_S x y k : path v s x k -> step v x y -> path v s y (S k).

(* k is the hop distance from s to x: a walk of k steps exists and none is shorter *)
Definition hopdist (v : view) (s x k : nat) : Prop :=
  path v s x k /\ forall j, path v s x j -> k <= j.

Lemma reachable_trans v a b c : reachable v a b -> reachable v b c -> reachable v a c.
Proof.
  intros Hab Hbc; induction Hbc as [|x y Hbx IH Hxy]; auto.
  eapply reach_step; eauto.
Qed.

Lemma reachable_step1 v a b : step v a b -> reachable v a b.
Proof. intros H; eapply reach_step; [apply reach_refl | exact H]. Qed.

Lemma reachable_left v a b c : step v a b -> reachable v b c -> reachable v a c.
Proof. intros H R; eapply reachable_trans; [apply reachable_step1; exact H | exact R]. Qed.

Lemma reach_in_reachable P v s x : reach_in P v s x -> reachable v s x.
Proof. induction 1 as [Hs | x y Hx IH Hxy Hy]; [apply reach_refl | eapply reach_step; eauto]. Qed.

Lemma reach_in_P P v s x : reach_in P v s x -> P x.
Proof. destruct 1; auto. Qed.

Lemma reach_in_start P v s x : reach_in P v s x -> P s.
Proof. induction 1; auto. Qed.

Lemma reachable_reach_in v s x : reachable v s x <-> reach_in (fun _ => True) v s x.
Proof.
  split.
  - induction 1 as [|x y Hx IH Hxy]; [apply ri_refl; exact I | eapply ri_step; eauto].
  - apply reach_in_reachable.
Qed.

Lemma reach_in_weaken (P Q : nat -> Prop) v s x :
  (forall y, P y -> Q y) -> reach_in P v s x -> reach_in Q v s x.
Proof.
  intros PQ; induction 1 as [Hs | x y Hx IH Hxy Hy]; [apply ri_refl; auto | eapply ri_step; eauto].
Qed.

Lemma path_reachable v s x k : path v s x k -> reachable v s x.
Proof. induction 1 as [|x y k Hx IH Hxy]; [apply reach_refl | eapply reach_step; eauto]. Qed.

Lemma reachable_path v s x : reachable v s x -> exists k, path v s x k.
Proof.
  induction 1 as [|x y Hx [k IH] Hxy]; [exists 0; apply path_0 | exists (S k); eapply path_S; eauto].
Qed.

Lemma hopdist_fun v s x k1 k2 : hopdist v s x k1 -> hopdist v s x k2 -> k1 = k2.
Proof. intros [P1 M1] [P2 M2]. specialize (M1 _ P2). specialize (M2 _ P1). lia. Qed.

Lemma hopdist_reachable v s x k : hopdist v s x k -> reachable v s x.
Proof. intros [P _]; eapply path_reachable; eauto. Qed.

Lemma hopdist_start v s : hopdist v s s 0.
Proof. split; [apply path_0 | intros; lia]. Qed.

Lemma path_0_inv v s x : path v s x 0 -> x = s.
Proof. inversion 1; auto. Qed.

(* a node at distance S k has a predecessor at distance k *)
Lemma hopdist_pred v s x k : hopdist v s x (S k) -> exists p, hopdist v s p k /\ step v p x.
Proof.
  intros [P M]. inversion P as [|p y k' Pp Hpx]; subst.
  exists p; split; auto. split; auto.
  intros j Pj. assert (L : S k <= S j) by (apply M; eapply path_S; eauto). lia.
Qed.

(* ------------------------------------------------------------------ *)
(* Cycles                                                              *)

Definition on_cycle (v : view) (c : nat) : Prop := exists c', step v c c' /\ reachable v c' c.
(* x is on a cycle or downstream of one *)
Definition downstream (v : view) (x : nat) : Prop := exists c, on_cycle v c /\ reachable v c x.
Definition acyclic (v : view) : Prop := forall c, ~ on_cycle v c.

(* ------------------------------------------------------------------ *)
(* Well-formed views                                                   *)

(* x can be put in the visit map without a panic *)
Definition in_cap (v : view) (x : nat) : Prop :=
  match vcap v with Some c => x < c | None => True end.

Definition cap_ok (v : view) : Prop :=
  (forall a b, In b (neighbors v a) -> in_cap v b) /\ (forall a, In a (vnodes v) -> in_cap v a).
(* edges run between nodes of the view *)
Definition nodes_ok (v : view) : Prop :=
  forall a b, In b (neighbors v a) -> In a (vnodes v) /\ In b (vnodes v).
(* in-lists and out-lists describe the same edges, for nodes of the view *)
Definition inout_ok (v : view) : Prop :=
  forall a b, In b (vnodes v) -> (In a (neighbors_in v b) <-> In b (neighbors v a)).

Definition VOk (v : view) : Prop := cap_ok v /\ nodes_ok v /\ inout_ok v.

(* ------------------------------------------------------------------ *)
(* A boolean check of VOk, for concrete views                          *)

Definition in_capb (v : view) (x : nat) : bool :=
  match vcap v with Some c => Nat.ltb x c | None => true end.

Definition vok_check (v : view) : bool :=
  forallb (in_capb v) (vnodes v)
  && forallb (fun ae : nat * list eref =>
                mem (fst ae) (vnodes v)
                && forallb (fun e => mem (tgt e) (vnodes v) && in_capb v (tgt e)
                                     && mem (fst ae) (neighbors_in v (tgt e))) (snd ae)) (vout v)
  && forallb (fun b => forallb (fun a => mem b (neighbors v a)) (neighbors_in v b)) (vnodes v).

Lemma mem_In x m : mem x m = true <-> In x m.
Proof.
  induction m as [|h t IH]; cbn [mem In].
  - split; [discriminate | tauto].
  - rewrite orb_true_iff, IH, Nat.eqb_eq. tauto.
Qed.

Lemma mem_false x m : mem x m = false <-> ~ In x m.
Proof. rewrite <- mem_In. destruct (mem x m); split; congruence. Qed.

Lemma in_capb_ok v x : in_capb v x = true -> in_cap v x.
Proof.
  unfold in_capb, in_cap. destruct (vcap v) as [c|]; auto. intros H; apply Nat.ltb_lt; exact H.
Qed.

Lemma assoc_nat_In {A} (l : list (nat * A)) k a : assoc_nat l k = Some a -> In (k, a) l.
Proof.
  induction l as [|[k' a'] t IH]; cbn [assoc_nat]; [discriminate|].
  destruct (Nat.eqb_spec k' k) as [->|Hn]; intros H.
  - injection H as ->. left; reflexivity.
  - right; apply IH; exact H.
Qed.

Lemma vok_check_ok v : vok_check v = true -> VOk v.
Proof.
  unfold vok_check. rewrite !andb_true_iff, !forallb_forall. intros [[Hn Ho] Hi].
  assert (Hout : forall a b, In b (neighbors v a) ->
            In a (vnodes v) /\ In b (vnodes v) /\ in_cap v b /\ In a (neighbors_in v b)).
  { intros a b Hb. unfold neighbors, out_edges in Hb.
    destruct (assoc_nat (vout v) a) as [es|] eqn:E; [|destruct Hb].
    apply assoc_nat_In in E. specialize (Ho _ E). cbn [fst snd] in Ho.
    rewrite andb_true_iff, forallb_forall in Ho. destruct Ho as [Ha He].
    apply in_map_iff in Hb. destruct Hb as [e [<- Hin]].
    specialize (He _ Hin). rewrite !andb_true_iff in He. destruct He as [[Hm Hc] Hb].
    rewrite mem_In in Ha, Hm, Hb. repeat split; auto using in_capb_ok. }
  split; [split|split].
  - intros a b Hb. apply (Hout a b Hb).
  - intros a Ha. apply in_capb_ok, Hn, Ha.
  - intros a b Hb. destruct (Hout a b Hb) as [H1 [H2 _]]. split; assumption.
  - intros a b Hb. split.
    + intros Ha. specialize (Hi _ Hb). rewrite forallb_forall in Hi.
      apply mem_In, Hi, Ha.
    + intros Hs. apply (Hout a b Hs).
Qed.
