(* C13: the mathematical notions against which the executable reference of Model/IsoM.v is proved:
   adjacency, maps of nodes that preserve adjacency and non-adjacency (and the semantic predicates),
   embeddings (injective such maps = isomorphisms onto a node-induced subgraph), isomorphism,
   well-formed simple graphs, relabelings.  Maps are functions nat -> nat, not lists. *)
From PG Require Import Lib.Io Model.IsoM.
From Coq Require Import Permutation.

(* ---- adjacency, weights ---- *)
Definition Adj (g : sgraph6) (a b : nat) : Prop := adjb g a b = true.
Definition nwt (g : sgraph6) (a : nat) : Z := nth a (s_nw g) 0%Z.
Definition ew (g : sgraph6) (a b : nat) : option Z := edge_w (s_dir g) (s_es g) a b.

(* an edge slot of g0 and the corresponding slot of g1 agree: both empty, or both filled with
   weights that satisfy the edge predicate *)
Definition edge_ok (em : Z) (o0 o1 : option Z) : Prop :=
  match o0, o1 with
  | Some w0, Some w1 => wmatch em w0 w1 = true
  | None, None => True
  | _, _ => False
  end.

(* f preserves adjacency AND non-adjacency on all ordered pairs of g0's nodes, the edge predicate on
   every matched edge, the node predicate on every matched node *)
Definition preserves (nm em : Z) (g0 g1 : sgraph6) (f : nat -> nat) : Prop :=
  (forall a b, a < s_n g0 -> b < s_n g0 -> edge_ok em (ew g0 a b) (ew g1 (f a) (f b))) /\
  (forall a, a < s_n g0 -> wmatch nm (nwt g0 a) (nwt g1 (f a)) = true).

(* f is an isomorphism of g0 onto the subgraph of g1 induced by the image of f *)
Definition embedding (nm em : Z) (g0 g1 : sgraph6) (f : nat -> nat) : Prop :=
  (forall a, a < s_n g0 -> f a < s_n g1) /\
  (forall a b, a < s_n g0 -> b < s_n g0 -> f a = f b -> a = b) /\
  preserves nm em g0 g1 f.

(* an injection between two finite sets of the same size is a bijection *)
Definition Isomorphic (nm em : Z) (g0 g1 : sgraph6) : Prop :=
  s_n g0 = s_n g1 /\ exists f, embedding nm em g0 g1 f.
Definition SubIsomorphic (nm em : Z) (g0 g1 : sgraph6) : Prop :=
  exists f, embedding nm em g0 g1 f.

(* ---- well-formed simple graphs ---- *)
(* the slot an edge occupies: the ordered pair when directed, the unordered pair when undirected *)
Definition nkey (dir : bool) (s t : nat) : nat * nat :=
  if dir then (s, t) else (Nat.min s t, Nat.max s t).
Definition ekey (dir : bool) (e : nat * nat * Z) : nat * nat := nkey dir (fst (fst e)) (snd (fst e)).

(* endpoints are nodes; at most one edge per ordered pair (per unordered pair when undirected);
   self-loops are allowed *)
Definition wf (g : sgraph6) : Prop :=
  (forall s t w, In (s, t, w) (s_es g) -> s < s_n g /\ t < s_n g) /\
  NoDup (map (ekey (s_dir g)) (s_es g)).

(* ---- lexicographic order on image lists ---- *)
Inductive lex_lt : list nat -> list nat -> Prop :=
| lex_nil : forall h t, lex_lt [] (h :: t)
| lex_head : forall a b l l', a < b -> lex_lt (a :: l) (b :: l')
| lex_tail : forall a l l', lex_lt l l' -> lex_lt (a :: l) (a :: l').

(* ---- relabelings ---- *)
(* p is a permutation of the nodes 0..n-1: node i becomes p[i] *)
Definition is_perm (p : list nat) (n : nat) : Prop := Permutation p (seq 0 n).
Definition pimg (p : list nat) (x : nat) : nat := nth x p 0.
Fixpoint index_of (x : nat) (l : list nat) : nat :=
  match l with [] => 0 | h :: t => if Nat.eqb h x then 0 else S (index_of x t) end.

Definition map_edge (f : nat -> nat) (e : nat * nat * Z) : nat * nat * Z :=
  let '(s, t, w) := e in (f s, f t, w).
Definition flip_edge (e : nat * nat * Z) : nat * nat * Z :=
  let '(s, t, w) := e in (t, s, w).

(* the canonical relabeling: weights permuted, edge endpoints mapped, edge order kept *)
Definition relabel (p : list nat) (g : sgraph6) : sgraph6 :=
  mkSg (s_dir g)
       (map (fun j => nth (index_of j p) (s_nw g) 0%Z) (seq 0 (s_n g)))
       (map (map_edge (pimg p)) (s_es g)).

(* the general one: any edge list that is a permutation of the mapped one, each edge possibly
   with its endpoints exchanged when the graph is undirected *)
Definition edge_variant (dir : bool) (e e' : nat * nat * Z) : Prop :=
  e' = e \/ (dir = false /\ e' = flip_edge e).
Definition relabeling (p : list nat) (g g' : sgraph6) : Prop :=
  s_dir g' = s_dir g /\
  s_n g' = s_n g /\
  (forall i, i < s_n g -> nwt g' (pimg p i) = nwt g i) /\
  exists es, Forall2 (edge_variant (s_dir g)) (map (map_edge (pimg p)) (s_es g)) es /\
             Permutation es (s_es g').
