(* The specification side of C12: undirected connectivity, forests, spanning forests,
   connected components, total weight — and how the element stream of
   min_spanning_tree is read back as edges of the graph.  Short enough to read in minutes. *)
From PG Require Import Lib.Io Model.View Spec.Partition.

(* ---- undirected graphs given as lists of endpoint pairs ---- *)

(* x and y are joined by a path, direction ignored: the equivalence closure of the pairs *)
Definition uconn (es : list (nat * nat)) : nat -> nat -> Prop := conn es.

(* es is a forest: taking the edges in order, every edge joins two nodes that the
   earlier ones (and the edges of prev) do not connect.  A self-loop is a cycle. *)
Fixpoint acyclic_from (prev es : list (nat * nat)) : Prop :=
  match es with
  | [] => True
  | (a, b) :: t => ~ uconn prev a b /\ acyclic_from ((a, b) :: prev) t
  end.
Definition acyclic_edges (es : list (nat * nat)) : Prop := acyclic_from [] es.

(* es connects exactly the pairs that all connects *)
Definition spanning (es all : list (nat * nat)) : Prop :=
  forall x y, uconn es x y <-> uconn all x y.

(* reps picks exactly one node of V in every connected component of (V, es):
   length reps is the number of components *)
Definition transversal (V : list nat) (es : list (nat * nat)) (reps : list nat) : Prop :=
  NoDup reps /\ incl reps V /\
  (forall x, In x V -> exists r, In r reps /\ uconn es x r) /\
  (forall r r', In r reps -> In r' reps -> uconn es r r' -> r = r').

(* ---- weighted edges (a, b, w) ---- *)

Definition ends (l : list (nat * nat * Z)) : list (nat * nat) := map fst l.
Definition weight (l : list (nat * nat * Z)) : Z := fold_right Z.add 0%Z (map snd l).

(* ---- the graph behind a view, and the edges of the element stream ---- *)

(* edge_references as (source, target, weight) *)
Definition gedges (v : view) : list (nat * nat * Z) :=
  map (fun '(_, a, b, w) => (a, b, w)) (verefs v).

(* an Element::Edge { source: ao, target: bo, weight: w } names the ao-th and bo-th
   nodes of the node stream *)
Definition node_at (v : view) (i : nat) : nat := nth i (vnodes v) 0.
Definition decode (v : view) (l : list (nat * nat * Z)) : list (nat * nat * Z) :=
  map (fun '(ao, bo, w) => (node_at v ao, node_at v bo, w)) l.

(* what every petgraph graph shows: distinct node indices below node_bound, and
   edge_references between nodes of the graph *)
Definition MOk (v : view) : Prop :=
  NoDup (vnodes v) /\
  (forall a, In a (vnodes v) -> a < vbound v) /\
  (forall i a b w, In (i, a, b, w) (verefs v) -> In a (vnodes v) /\ In b (vnodes v)).

(* F is a spanning forest of v: made of edges of v, acyclic, connecting what v connects *)
Definition spanning_forest (v : view) (F : list (nat * nat * Z)) : Prop :=
  incl F (gedges v) /\ acyclic_edges (ends F) /\ spanning (ends F) (ends (gedges v)).

(* ---- Prim: the graph as edges(a) shows it, a over the nodes: (a, target, weight) ---- *)

Definition oedges (v : view) : list (nat * nat * Z) :=
  map (fun '(_, a, b, w) => (a, b, w)) (all_out v).

(* distinct nodes; edges(a) leads to nodes of the graph; undirected: every edge is listed
   from both of its ends *)
Definition POk (v : view) : Prop :=
  NoDup (vnodes v) /\
  (forall a b w, In (a, b, w) (oedges v) -> In b (vnodes v)) /\
  (forall a b w, In (a, b, w) (oedges v) -> exists w', In (b, a, w') (oedges v)).
