(* The graph6 format, transcribed from the format description (formats.txt):
     N(n): for 0 <= n <= 62 the single byte n+63; for 63 <= n <= 258047 the byte 126 followed by
           R(x) where x is the 18-bit big-endian binary form of n;
     R(x): pad x on the right with zeros to a multiple of 6 bits, split into 6-bit groups,
           each group read big-endian plus 63;
     graph6 = N(n) ++ R(x), x = the upper triangle of the adjacency matrix in the order
           (0,1),(0,2),(1,2),(0,3),(1,3),(2,3),...,(n-2,n-1).                                *)
From Coq Require Import NArith List Arith.
Import ListNotations.

Fixpoint bits_be (len : nat) (n : N) : list bool :=
  match len with
  | 0 => []
  | S k => N.testbit n (N.of_nat k) :: bits_be k n
  end.

Fixpoint value_be (l : list bool) (acc : N) : N :=
  match l with
  | [] => acc
  | b :: t => value_be t (2 * acc + (if b then 1 else 0))%N
  end.

Fixpoint groups6 (fuel : nat) (l : list bool) : list (list bool) :=
  match fuel with
  | 0 => []
  | S f => match l with
           | [] => []
           | _ => firstn 6 l :: groups6 f (skipn 6 l)
           end
  end.

Definition pad6 (l : list bool) : list bool :=
  l ++ repeat false ((6 - length l mod 6) mod 6).

Definition R (x : list bool) : list N :=
  map (fun g => (value_be g 0 + 63)%N) (groups6 (S (length x)) (pad6 x)).

Definition Nn (n : N) : list N :=
  if (n <=? 62)%N then [(n + 63)%N] else 126%N :: R (bits_be 18 n).

Definition graph6 (n : N) (x : list bool) : list N := Nn n ++ R x.

(* the pairs in upper-triangle order *)
Definition upper_pairs (n : nat) : list (nat * nat) :=
  flat_map (fun col => map (fun lin => (lin, col)) (seq 0 col)) (seq 1 (n - 1)).
