(* Specification for C03: a simple graph on integer node values, with at most
   one edge per ordered pair (per unordered pair when undirected), self-loops
   allowed.  Lists stand for finite sets / finite maps: order is irrelevant and
   two graphs are compared with [sg_equiv] (Permutation of both lists). *)
From Coq Require Import ZArith Permutation.
From PG Require Import Lib.Io.
Open Scope Z_scope.

Record sgraph := mkSg {
  sn : list Z;              (* node set, no duplicates *)
  se : list ((Z * Z) * Z)   (* canonical key -> weight, keys unique *)
}.

(* The canonical key of an edge: the ordered pair when directed, (min, max) otherwise. *)
Definition s_key (directed : bool) (a b : Z) : Z * Z :=
  if directed then (a, b) else (Z.min a b, Z.max a b).

Definition key_eqb (p q : Z * Z) : bool := (fst p =? fst q) && (snd p =? snd q).

Definition sg_equiv (s1 s2 : sgraph) : Prop :=
  Permutation (sn s1) (sn s2) /\ Permutation (se s1) (se s2).

(* Well-formedness of a specification graph. *)
Definition s_wf (directed : bool) (s : sgraph) : Prop :=
  NoDup (sn s) /\ NoDup (map fst (se s)) /\
  (forall a b, In (a, b) (map fst (se s)) -> s_key directed a b = (a, b) /\ In a (sn s) /\ In b (sn s)).

(* ---- queries ---- *)
Definition s_has_node (s : sgraph) (n : Z) : bool := existsb (Z.eqb n) (sn s).

Definition s_find (es : list ((Z * Z) * Z)) (k : Z * Z) : option Z :=
  option_map snd (find (fun e => key_eqb (fst e) k) es).

Definition s_weight (directed : bool) (s : sgraph) (a b : Z) : option Z :=
  s_find (se s) (s_key directed a b).

Definition s_has_edge (directed : bool) (s : sgraph) (a b : Z) : bool :=
  match s_weight directed s a b with Some _ => true | None => false end.

(* Edge triples (source, target, weight). *)
Definition src (t : Z * Z * Z) : Z := fst (fst t).
Definition tgt (t : Z * Z * Z) : Z := snd (fst t).

(* Edges leaving [a], reported with [a] as source.  Undirected: every incident
   edge, the other endpoint as target, a self-loop once. *)
Definition s_out (directed : bool) (s : sgraph) (a : Z) : list (Z * Z * Z) :=
  flat_map (fun e : (Z * Z) * Z =>
    let '((x, y), w) := e in
    if x =? a then [(a, y, w)]
    else if negb directed && (y =? a) then [(a, x, w)] else []) (se s).

(* Edges entering [a], reported with [a] as target.  Undirected: every incident
   edge, the other endpoint as source, a self-loop once. *)
Definition s_in (directed : bool) (s : sgraph) (a : Z) : list (Z * Z * Z) :=
  flat_map (fun e : (Z * Z) * Z =>
    let '((x, y), w) := e in
    if y =? a then [(x, a, w)]
    else if negb directed && (x =? a) then [(y, a, w)] else []) (se s).

(* ---- updates ---- *)
Definition s_clear : sgraph := mkSg [] [].

Definition s_add_node (s : sgraph) (n : Z) : sgraph :=
  if s_has_node s n then s else mkSg (sn s ++ [n]) (se s).

Definition s_drop (es : list ((Z * Z) * Z)) (k : Z * Z) : list ((Z * Z) * Z) :=
  filter (fun e => negb (key_eqb (fst e) k)) es.

(* Returns the previous weight; inserts missing endpoints. *)
Definition s_add_edge (directed : bool) (s : sgraph) (a b w : Z) : option Z * sgraph :=
  let k := s_key directed a b in
  (s_find (se s) k, mkSg (sn (s_add_node (s_add_node s a) b)) ((k, w) :: s_drop (se s) k)).

(* Returns the weight of the removed edge. *)
Definition s_remove_edge (directed : bool) (s : sgraph) (a b : Z) : option Z * sgraph :=
  let k := s_key directed a b in
  (s_find (se s) k, mkSg (sn s) (s_drop (se s) k)).

(* Returns whether the node was present; drops exactly the incident edges. *)
Definition s_remove_node (s : sgraph) (n : Z) : bool * sgraph :=
  (s_has_node s n,
   mkSg (filter (fun m => negb (m =? n)) (sn s))
        (filter (fun e : (Z * Z) * Z => negb (fst (fst e) =? n) && negb (snd (fst e) =? n)) (se s))).

(* Overwrites the weight of an existing edge; returns whether it existed. *)
Definition s_set_weight (directed : bool) (s : sgraph) (a b v : Z) : bool * sgraph :=
  let k := s_key directed a b in
  match s_find (se s) k with
  | None => (false, s)
  | Some _ => (true, mkSg (sn s) ((k, v) :: s_drop (se s) k))
  end.

Fixpoint s_extend (directed : bool) (s : sgraph) (l : list Z) : sgraph :=
  match l with
  | a :: b :: w :: rest => s_extend directed (snd (s_add_edge directed s a b w)) rest
  | _ => s
  end.

(* ---- histories: the specification's reading of the harness opcodes ---- *)
Definition s_step (directed : bool) (s : sgraph) (o : line) : sgraph :=
  let '(code, a) := o in
  match code with
  | 0%nat => s_add_node s (argz a 0)
  | 1%nat => snd (s_remove_node s (argz a 0))
  | 2%nat => snd (s_add_edge directed s (argz a 0) (argz a 1) (argz a 2))
  | 3%nat => snd (s_remove_edge directed s (argz a 0) (argz a 1))
  | 4%nat => s_clear
  | 5%nat => snd (s_set_weight directed s (argz a 0) (argz a 1) (argz a 2))
  | 6%nat => s_extend directed s a
  | _ => s
  end.

Definition s_run (directed : bool) (ops : list line) : sgraph :=
  fold_left (s_step directed) ops s_clear.
