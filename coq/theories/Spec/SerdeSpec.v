(* The specification side of C17 (serde round trips).  What an observer can see of a Graph and
   of a StableGraph, observational equality, and the readable acceptance conditions of the two
   deserializers.  Only the data types of the models are used here (no links, no free lists). *)
From Coq Require Import Sorted.
From PG Require Import Lib.Io Model.GraphM Model.StableM Model.SerdeM.

(* ---- what is observable ---- *)

(* a Graph edge as it is written on the wire *)
Definition wedge (e : edge nat) : option (nat * nat * nat) :=
  Some (fst (enode e), snd (enode e), ewt e).

(* Graph: weight of node i; (source, target, weight) of edge x; None = no such index *)
Definition g_node (g : graph nat nat) (i : nat) : option nat :=
  option_map (@nwt nat) (nth_error (gnodes g) i).
Definition g_edge (g : graph nat nat) (x : nat) : option (nat * nat * nat) :=
  match nth_error (gedges g) x with Some e => wedge e | None => None end.

(* StableGraph: the same; None = vacant or no such index *)
Definition s_node (s : sgraph) (i : nat) : option nat :=
  match nth_error (gnodes (sg s)) i with Some n => nwt n | None => None end.
Definition s_edge (s : sgraph) (x : nat) : option (nat * nat * nat) :=
  match nth_error (gedges (sg s)) x with
  | Some e => match ewt e with Some w => Some (fst (enode e), snd (enode e), w) | None => None end
  | None => None
  end.

(* two Graphs with the same indices, weights, endpoints and direction of every edge *)
Definition graph_obs_eq (g g' : graph nat nat) : Prop :=
  length (gnodes g') = length (gnodes g) /\
  length (gedges g') = length (gedges g) /\
  (forall i, g_node g' i = g_node g i) /\
  (forall x, g_edge g' x = g_edge g x).

(* two StableGraphs with the same live indices, weights, endpoints, vacancies, counters and bounds *)
Definition stable_obs_eq (s s' : sgraph) : Prop :=
  (forall i, s_node s' i = s_node s i) /\
  (forall x, s_edge s' x = s_edge s x) /\
  node_bound s' = node_bound s /\
  edge_bound s' = edge_bound s /\
  ncount s' = ncount s /\
  ecount s' = ecount s.

(* a Graph and a StableGraph with the same indices and no vacancy below the Graph's counts *)
Definition cross_obs_eq (g : graph nat nat) (s : sgraph) : Prop :=
  (forall i, s_node s i = g_node g i) /\
  (forall x, s_edge s x = g_edge g x) /\
  ncount s = length (gnodes g) /\
  ecount s = length (gedges g).

(* ---- the wire ---- *)

(* the weights of the occupied slots, in order *)
Definition somes (l : list (option nat)) : list nat :=
  flat_map (fun o => match o with Some w => [w] | None => [] end) l.

(* the positions of the vacant slots, in order (first slot has position [a]) *)
Fixpoint holes_from (a : nat) (l : list (option nat)) : list nat :=
  match l with
  | [] => []
  | Some _ :: t => holes_from (S a) t
  | None :: t => a :: holes_from (S a) t
  end.

(* node_holes is acceptable: strictly increasing, each below the total slot count *)
Definition holes_ok (total : nat) (holes : list nat) : Prop :=
  StronglySorted lt holes /\ Forall (fun h => h < total) holes.

(* the slot vector denoted by (node_holes, compact weights): None exactly at the hole positions,
   the compact weights in order elsewhere *)
Definition slots_spec (holes compact : list nat) (slots : list (option nat)) : Prop :=
  length slots = length compact + length holes /\
  (forall i, nth_error slots i = Some None <-> In i holes) /\
  somes slots = compact.

Definition occupied (slots : list (option nat)) (i : nat) : Prop :=
  exists v, nth_error slots i = Some (Some v).

(* length test of the deserializers: only index types narrower than usize are checked, and a
   collection of exactly max elements is refused *)
Definition fits (cap : nat) (capcheck : bool) (len : nat) : Prop := capcheck = true -> len < cap.

(* acceptance condition of Graph::deserialize *)
Definition graph_wire_ok (cap : nat) (capcheck directed : bool) (w : wire) : Prop :=
  w_holes w = [] /\
  (forall e, In e (w_edges w) -> e <> None) /\
  w_directed w = directed /\
  fits cap capcheck (length (w_nodes w)) /\
  fits cap capcheck (length (w_edges w)) /\
  (forall s t x, In (Some (s, t, x)) (w_edges w) -> s < length (w_nodes w) /\ t < length (w_nodes w)).

(* acceptance condition of StableGraph::deserialize; [slots] is the slot vector it builds *)
Definition stable_wire_ok (cap : nat) (capcheck directed : bool) (w : wire) (slots : list (option nat)) : Prop :=
  w_directed w = directed /\
  fits cap capcheck (length (w_edges w)) /\
  holes_ok (length (w_nodes w) + length (w_holes w)) (w_holes w) /\
  slots_spec (w_holes w) (w_nodes w) slots /\
  fits cap capcheck (length slots) /\
  (forall s t x, In (Some (s, t, x)) (w_edges w) -> occupied slots s /\ occupied slots t).
