(* Vocabulary of the matching theorems (C15): what a valid matching of a view is, and an
   executable, exhaustive-search reference for the size of a maximum matching.
   Definitions only; the proofs are in Proofs/MatchAccP.v, MatchOptP.v, MatchGreedyP.v. *)
From PG Require Import Lib.Io Model.View Model.MatchM Spec.Reach.

(* ------------------------------------------------------------------ *)
(* Valid matchings, on the mate vector the code returns                *)

(* mate is symmetric and irreflexive *)
Definition msym (m : list (option nat)) : Prop :=
  forall i j, m_mate m i = Some j -> m_mate m j = Some i /\ i <> j.

(* i and j are the endpoints of some edge of the view, in either direction *)
Definition joined (v : view) (i j : nat) : Prop :=
  In j (neighbors v i) \/ In i (neighbors v j).

Definition valid_matching (v : view) (m : list (option nat)) (n : nat) : Prop :=
  length m = vbound v /\
  msym m /\
  (forall i j, m_mate m i = Some j -> joined v i j /\ i <> j) /\
  n = length (m_edges m).

(* what the matching code needs from a view: VOk, and node indices below node_bound
   (the mate vector has node_bound entries) *)
Definition MOk (v : view) : Prop :=
  VOk v /\ forall a, In a (vnodes v) -> a < vbound v.

Definition mok_b (v : view) : bool :=
  vok_check v && forallb (fun a => Nat.ltb a (vbound v)) (vnodes v).

(* ------------------------------------------------------------------ *)
(* Matchings as lists of pairs, and the exhaustive-search optimum       *)

(* adjacency with direction ignored *)
Definition uadj (adj : nat -> nat -> bool) (i j : nat) : bool := adj i j || adj j i.

Definition endpoints (M : list (nat * nat)) : list nat :=
  flat_map (fun p => [fst p; snd p]) M.

(* a set of edges of the undirected graph (nodes, uadj adj) no two of which share an endpoint;
   NoDup of the endpoints also says i <> j for every pair *)
Definition is_matching (nodes : list nat) (adj : nat -> nat -> bool) (M : list (nat * nat)) : Prop :=
  NoDup (endpoints M) /\
  forall i j, In (i, j) M -> In i nodes /\ In j nodes /\ uadj adj i j = true.

Definition is_maximum (nodes : list nat) (adj : nat -> nat -> bool) (M : list (nat * nat)) : Prop :=
  is_matching nodes adj M /\ forall M', is_matching nodes adj M' -> length M' <= length M.

(* every occurrence of x removed *)
Definition drop (x : nat) (l : list nat) : list nat := filter (fun y => negb (Nat.eqb y x)) l.

(* remove the first node a; either leave it unmatched, or match it with a later adjacent node b *)
Fixpoint mms (fuel : nat) (nodes : list nat) (adj : nat -> nat -> bool) : nat :=
  match fuel with
  | 0 => 0
  | S f =>
      match nodes with
      | [] => 0
      | a :: rest0 =>
          let rest := drop a rest0 in
          fold_left (fun best b =>
                       if uadj adj a b then Nat.max best (S (mms f (drop b rest) adj)) else best)
                    rest (mms f rest adj)
      end
  end.

Definition max_matching_size (nodes : list nat) (adj : nat -> nat -> bool) : nat :=
  mms (length nodes) nodes adj.

(* the adjacency of a view *)
Definition vadj (v : view) (i j : nat) : bool := mem j (neighbors v i).

(* the view lists every edge from both endpoints (an undirected graph) *)
Definition vsymmetric (v : view) : Prop :=
  forall i j, In j (neighbors v i) -> In i (neighbors v j).
