(* The specification side of C05 for Csr: a simple weighted graph as the list of
   edges inserted so far, the structural invariant of the Csr representation,
   and the relation "the Csr [g] represents the abstract graph [s]". *)
From Coq Require Import Sorted.
From PG Require Import Lib.Io Model.CsrM.

(* strictly ascending *)
Local Notation ascending := (StronglySorted lt).

(* ------------------------------------------------------------------ *)
(* The abstract graph                                                  *)

(* Node weights, and the edges (source, target, weight) in insertion order.
   An undirected edge {a,b} is stored once, as it was inserted. *)
Record spec := mkSpec { snodes : list nat; sedges : list (nat * nat * nat) }.

Definition spec_with_nodes (n : nat) : spec := mkSpec (repeat 0 n) [].
Definition spec_node_count (s : spec) : nat := length (snodes s).

(* does the stored edge [e] connect a to b ? *)
Definition same_pair (directed : bool) (a b : nat) (e : nat * nat * nat) : bool :=
  let '(x, y, _) := e in
  (Nat.eqb x a && Nat.eqb y b) || (negb directed && Nat.eqb x b && Nat.eqb y a).

(* weight of the edge a -> b: the first insertion of the pair wins *)
Definition spec_weight (directed : bool) (s : spec) (a b : nat) : option nat :=
  option_map snd (find (same_pair directed a b) (sedges s)).

Definition spec_contains (directed : bool) (s : spec) (a b : nat) : bool :=
  match spec_weight directed s a b with Some _ => true | None => false end.

(* the neighbours of a, in ascending order, and their edge weights *)
Definition spec_neighbors (directed : bool) (s : spec) (a : nat) : list nat :=
  filter (spec_contains directed s a) (seq 0 (spec_node_count s)).
Definition spec_out_degree (directed : bool) (s : spec) (a : nat) : nat :=
  length (spec_neighbors directed s a).
Definition spec_weights (directed : bool) (s : spec) (a : nat) : list nat :=
  map (fun b => match spec_weight directed s a b with Some w => w | None => 0 end)
      (spec_neighbors directed s a).

(* one stored entry per edge: unordered pairs when undirected *)
Definition spec_edge_count (s : spec) : nat := length (sedges s).

Definition spec_add_node (s : spec) (w : nat) : nat * spec :=
  (spec_node_count s, mkSpec (snodes s ++ [w]) (sedges s)).

Definition spec_clear_edges (s : spec) : spec := mkSpec (snodes s) [].

Definition spec_try_add_edge (directed : bool) (s : spec) (a b w : nat) : addres * spec :=
  if negb (Nat.ltb a (spec_node_count s) && Nat.ltb b (spec_node_count s)) then (AddErr a b, s)
  else if spec_contains directed s a b then (AddOk false, s)
  else (AddOk true, mkSpec (snodes s) (sedges s ++ [(a, b, w)])).

(* ------------------------------------------------------------------ *)
(* Structural invariant of the representation                          *)

Record CInv (g : csr) : Prop := {
  ci_len_row : length (row g) = S (length (nweights g));
  ci_row0 : nth_error (row g) 0 = Some 0;
  ci_mono : forall i x y,
      nth_error (row g) i = Some x -> nth_error (row g) (S i) = Some y -> x <= y;
  ci_last : nth_error (row g) (length (nweights g)) = Some (length (column g));
  ci_cedges : length (cedges g) = length (column g);
  ci_targets : Forall (fun t => t < node_count g) (column g);
  ci_rows_asc : forall a s e,
      nth_error (row g) a = Some s -> nth_error (row g) (S a) = Some e ->
      ascending (firstn (e - s) (skipn s (column g)))
}.

(* ------------------------------------------------------------------ *)
(* Representation relation                                             *)

(* Row a of [g] lists, strictly ascending, exactly the b for which [look b]
   is defined, and the weights [look b] in the same order. *)
Definition RowRep (g : csr) (a : nat) (look : nat -> option nat) : Prop :=
  exists ts ws,
    neighbors_slice g a = Ok ts /\ edges_slice g a = Ok ws /\
    ascending ts /\
    (forall b, In b ts <-> look b <> None) /\
    map look ts = map Some ws.

(* every stored edge joins existing nodes *)
Definition spec_wf (s : spec) : Prop :=
  forall a b w, In (a, b, w) (sedges s) -> a < spec_node_count s /\ b < spec_node_count s.

Definition Rep (directed : bool) (g : csr) (s : spec) : Prop :=
  spec_wf s /\
  node_count g = spec_node_count s /\
  nweights g = snodes s /\
  (forall a, a < node_count g -> RowRep g a (spec_weight directed s a)) /\
  edge_count directed g = spec_edge_count s.

(* ------------------------------------------------------------------ *)
(* from_sorted_edges                                                   *)

Definition esrc (e : nat * nat * nat) : nat := fst (fst e).
Definition etgt (e : nat * nat * nat) : nat := snd (fst e).
Definition ewt (e : nat * nat * nat) : nat := snd e.

(* (source, target) strictly increasing lexicographically: sorted, no duplicates *)
Definition edge_lt (e1 e2 : nat * nat * nat) : Prop :=
  esrc e1 < esrc e2 \/ (esrc e1 = esrc e2 /\ etgt e1 < etgt e2).
Definition strictly_sorted (es : list (nat * nat * nat)) : Prop := StronglySorted edge_lt es.

(* max node id + 1 *)
Definition edges_node_count (es : list (nat * nat * nat)) : nat :=
  match max_node_id es with Some mx => S mx | None => 0 end.

(* the abstract graph built by inserting the edges one by one into max id + 1 nodes *)
Definition spec_of_edges (es : list (nat * nat * nat)) : spec :=
  fold_left (fun s e => snd (spec_try_add_edge true s (esrc e) (etgt e) (ewt e))) es
            (spec_with_nodes (edges_node_count es)).

(* the same insertions as a history of try_add_edge operations *)
Definition ops_of_edges (es : list (nat * nat * nat)) : list line :=
  map (fun e => (1, [zn (esrc e); zn (etgt e); zn (ewt e)])) es.

(* ------------------------------------------------------------------ *)
(* Histories: the state reached by the model's [run], and the abstract one *)

Definition final (directed : bool) (g : csr) (ops : list line) : csr :=
  fold_left (fun g o => fst (step directed g o)) ops g.

Definition spec_step (directed : bool) (s : spec) (o : line) : spec :=
  let '(code, a) := o in
  match code with
  | 0 => snd (spec_add_node s (arg a 0))
  | 1 | 2 => snd (spec_try_add_edge directed s (arg a 0) (arg a 1) (arg a 2))
  | 3 => spec_clear_edges s
  | _ => s
  end.

Definition spec_final (directed : bool) (s : spec) (ops : list line) : spec :=
  fold_left (spec_step directed) ops s.

(* The first line an operation prints: its return value.  A query at node n
   (one past the last node) reads the empty tail of the column vector, beyond
   that row[a] panics. *)
Definition spec_out (directed : bool) (s : spec) (o : line) : line :=
  let '(code, a) := o in
  let n := spec_node_count s in
  let query (f : nat -> line) (at_n : line) : line :=
    if Nat.ltb (arg a 0) n then f (arg a 0)
    else if Nat.eqb (arg a 0) n then at_n else (TAG_PANIC, []) in
  match code with
  | 0 => (TAG_IDX, [zn n])
  | 1 => addres_line (fst (spec_try_add_edge directed s (arg a 0) (arg a 1) (arg a 2)))
  | 2 => match fst (spec_try_add_edge directed s (arg a 0) (arg a 1) (arg a 2)) with
         | AddOk r => (TAG_BOOL, [zb r])
         | AddErr _ _ => (TAG_PANIC, [])
         end
  | 3 => (TAG_UNIT, [])
  | 4 => query (fun x => (TAG_BOOL, [zb (spec_contains directed s x (arg a 1))])) (TAG_BOOL, [zb false])
  | 5 => query (fun x => (TAG_NAT, [zn (spec_out_degree directed s x)])) (TAG_NAT, [zn 0])
  | 6 => query (fun x => (TAG_ROW, zn x :: zns (spec_neighbors directed s x))) (TAG_ROW, [zn n])
  | 7 => query (fun x => (TAG_WROW, zn x :: zns (spec_weights directed s x))) (TAG_WROW, [zn n])
  | _ => (TAG_PANIC, [])
  end.

Fixpoint spec_outs (directed : bool) (s : spec) (ops : list line) : list line :=
  match ops with
  | [] => []
  | o :: rest => spec_out directed s o :: spec_outs directed (spec_step directed s o) rest
  end.

(* After each mutation the model prints the whole observable state: counts, node
   weights, edge_references() (every edge with its index, source, target and
   weight, row by row; an undirected edge only from its smaller endpoint), and both slices of every row. *)
Fixpoint spec_erefs (directed : bool) (s : spec) (nodes : list nat) (idx : nat) : list Z :=
  match nodes with
  | [] => []
  | a :: rest =>
      zip3 (negb directed) idx a (spec_neighbors directed s a) (spec_weights directed s a) ++
      spec_erefs directed s rest (idx + length (spec_neighbors directed s a))
  end.

Definition spec_battery (directed : bool) (s : spec) : list line :=
  (TAG_COUNTS, [zn (spec_node_count s); zn (spec_edge_count s)]) ::
  (TAG_NW, zns (snodes s)) ::
  (TAG_EREFS, spec_erefs directed s (seq 0 (spec_node_count s)) 0) ::
  flat_map (fun a =>
    [(TAG_ROW, zn a :: zns (spec_neighbors directed s a));
     (TAG_WROW, zn a :: zns (spec_weights directed s a))]) (seq 0 (spec_node_count s)).

(* everything one operation prints *)
Definition spec_block (directed : bool) (s : spec) (o : line) : list line :=
  if Nat.leb (fst o) 3
  then spec_out directed s o :: spec_battery directed (spec_step directed s o)
  else [spec_out directed s o].

Fixpoint spec_run (directed : bool) (s : spec) (ops : list line) : list (list line) :=
  match ops with
  | [] => []
  | o :: rest => spec_block directed s o :: spec_run directed (spec_step directed s o) rest
  end.

(* every opcode except 8 (from_sorted_edges, which replaces the graph) *)
Definition incremental (ops : list line) : Prop := Forall (fun o : line => fst o <> 8) ops.
