(* The part of the DOT language (graphviz.org/doc/info/lang.html) that matters for the Dot writer,
   written independently of the writer.  Characters are code points.

   Lexical level: a double-quoted string runs from the opening quote to the first quote that is
   not preceded by a backslash escape (a backslash always takes the next character with it);
   an ID is a run of letters, digits and underscores (this covers numerals), the punctuation is
   { } [ ] = and the edge operators -- and ->; blanks and newlines separate tokens.

   Grammar level (the subset the writer can emit):
     graph     : ('graph' | 'digraph') '{' stmt* '}'
     stmt      : ID '=' STRING                          (graph attribute, only rankdir)
               | ID attr_list                           (node statement)
               | ID edgeop ID attr_list                 (edge statement)
     attr_list : '[' ( ID '=' STRING )? ']'             (only label)                       *)
From Coq Require Import NArith List Bool.
Import ListNotations.

(* ---- quoted strings ---- *)
(* [scan_string l]: [l] is the text right after an opening quote; returns the raw contents of the
   string (escapes kept as written) and the text after the closing quote. *)
Fixpoint scan_string (l : list N) : option (list N * list N) :=
  match l with
  | [] => None
  | c :: t =>
      if N.eqb c 34 then Some ([], t)
      else if N.eqb c 92 then
        match t with
        | [] => None
        | d :: t' =>
            match scan_string t' with
            | Some (s, r) => Some (c :: d :: s, r)
            | None => None
            end
        end
      else
        match scan_string t with
        | Some (s, r) => Some (c :: s, r)
        | None => None
        end
  end.

(* ---- tokens ---- *)
Inductive tok : Type :=
| TId (s : list N)
| TStr (s : list N)
| TLBrace | TRBrace | TLBrack | TRBrack | TEq
| TEdge (directed : bool).

Definition is_ws (c : N) : bool :=
  N.eqb c 32 || N.eqb c 10 || N.eqb c 9 || N.eqb c 13.
Definition is_digit (c : N) : bool := N.leb 48 c && N.leb c 57.
Definition is_idc (c : N) : bool :=
  is_digit c || (N.leb 65 c && N.leb c 90) || (N.leb 97 c && N.leb c 122) || N.eqb c 95.

(* lexer states: between tokens, inside an ID, inside a string, right after a backslash inside a
   string, right after a dash.  Accumulators are reversed. *)
Inductive lstate : Type :=
| LDef
| LId (acc : list N)
| LStr (acc : list N)
| LEsc (acc : list N)
| LDash.

Inductive act : Type := AErr | ASkip | ATok (t : tok) | AGo (st : lstate).

(* what a character does when no token is open *)
Definition start (c : N) : act :=
  if is_ws c then ASkip
  else if N.eqb c 123 then ATok TLBrace
  else if N.eqb c 125 then ATok TRBrace
  else if N.eqb c 91 then ATok TLBrack
  else if N.eqb c 93 then ATok TRBrack
  else if N.eqb c 61 then ATok TEq
  else if N.eqb c 34 then AGo (LStr [])
  else if N.eqb c 45 then AGo LDash
  else if is_idc c then AGo (LId [c])
  else AErr.

Definition emit (t : tok) (r : option (list tok)) : option (list tok) := option_map (cons t) r.

Definition run_act (a : act) (k : lstate -> option (list tok)) : option (list tok) :=
  match a with
  | AErr => None
  | ASkip => k LDef
  | ATok t => emit t (k LDef)
  | AGo st => k st
  end.

Fixpoint lex (st : lstate) (l : list N) : option (list tok) :=
  match l with
  | [] =>
      match st with
      | LDef => Some []
      | LId a => Some [TId (rev a)]
      | _ => None                                   (* unterminated string or lone dash *)
      end
  | c :: t =>
      match st with
      | LDef => run_act (start c) (fun st' => lex st' t)
      | LId a =>
          if is_idc c then lex (LId (c :: a)) t
          else emit (TId (rev a)) (run_act (start c) (fun st' => lex st' t))
      | LStr a =>
          if N.eqb c 34 then emit (TStr (rev a)) (lex LDef t)
          else if N.eqb c 92 then lex (LEsc (c :: a)) t
          else lex (LStr (c :: a)) t
      | LEsc a => lex (LStr (c :: a)) t
      | LDash =>
          if N.eqb c 45 then emit (TEdge false) (lex LDef t)
          else if N.eqb c 62 then emit (TEdge true) (lex LDef t)
          else None
      end
  end.

(* ---- statements ---- *)
Definition attr : Type := option (list N * list N).

Inductive stmt : Type :=
| SAttr (k v : list N)
| SNode (id : list N) (a : attr)
| SEdge (src dst : list N) (directed : bool) (a : attr).

Definition push (s : stmt) (r : option (list stmt * list tok)) : option (list stmt * list tok) :=
  match r with
  | Some (ss, rest) => Some (s :: ss, rest)
  | None => None
  end.

(* the longest sequence of statements at the head of the token list, and what follows it *)
Fixpoint parse_stmts (l : list tok) : option (list stmt * list tok) :=
  match l with
  | TId k :: TEq :: TStr v :: r => push (SAttr k v) (parse_stmts r)
  | TId a :: TLBrack :: TRBrack :: r => push (SNode a None) (parse_stmts r)
  | TId a :: TLBrack :: TId k :: TEq :: TStr v :: TRBrack :: r =>
      push (SNode a (Some (k, v))) (parse_stmts r)
  | TId a :: TEdge d :: TId b :: TLBrack :: TRBrack :: r =>
      push (SEdge a b d None) (parse_stmts r)
  | TId a :: TEdge d :: TId b :: TLBrack :: TId k :: TEq :: TStr v :: TRBrack :: r =>
      push (SEdge a b d (Some (k, v))) (parse_stmts r)
  | _ => Some ([], l)
  end.

(* ---- meaning ---- *)
Fixpoint leqb (a b : list N) : bool :=
  match a, b with
  | [], [] => true
  | x :: a', y :: b' => N.eqb x y && leqb a' b'
  | _, _ => false
  end.

Definition kw_graph : list N := [103; 114; 97; 112; 104]%N.
Definition kw_digraph : list N := [100; 105; 103; 114; 97; 112; 104]%N.
Definition kw_label : list N := [108; 97; 98; 101; 108]%N.
Definition kw_rankdir : list N := [114; 97; 110; 107; 100; 105; 114]%N.
Definition rankdirs : list (list N) := [[84; 66]; [66; 84]; [76; 82]; [82; 76]]%N.   (* TB BT LR RL *)

Definition dval (l : list N) (a : N) : N :=
  fold_left (fun a c => (10 * a + (c - 48))%N) l a.

(* a node ID of the writer is a decimal numeral *)
Definition parse_nat (l : list N) : option nat :=
  match l with
  | [] => None
  | _ => if forallb is_digit l then Some (N.to_nat (dval l 0)) else None
  end.

Definition attr_ok (a : attr) : bool :=
  match a with
  | None => true
  | Some (k, _) => leqb k kw_label
  end.

(* node ids in statement order, edges in statement order; every edge must use the connector of
   the graph kind *)
Fixpoint interp (directed : bool) (ss : list stmt) : option (list nat * list (nat * nat)) :=
  match ss with
  | [] => Some ([], [])
  | s :: r =>
      match interp directed r with
      | None => None
      | Some (ns, es) =>
          match s with
          | SAttr k v =>
              if leqb k kw_rankdir && existsb (leqb v) rankdirs then Some (ns, es) else None
          | SNode id a =>
              if attr_ok a then
                match parse_nat id with
                | Some i => Some (i :: ns, es)
                | None => None
                end
              else None
          | SEdge x y d a =>
              if attr_ok a && Bool.eqb d directed then
                match parse_nat x, parse_nat y with
                | Some i, Some j => Some (ns, (i, j) :: es)
                | _, _ => None
                end
              else None
          end
      end
  end.

Definition strip_header (directed : bool) (toks : list tok) : option (list tok) :=
  match toks with
  | TId k :: TLBrace :: r => if leqb k (if directed then kw_digraph else kw_graph) then Some r else None
  | _ => None
  end.

(* [parse_dot directed content_only text]: the whole text must be one graph of the given kind
   (or, with [content_only], just a statement list); returns its node ids and its edges. *)
Definition parse_dot (directed content_only : bool) (text : list N)
  : option (list nat * list (nat * nat)) :=
  match lex LDef text with
  | None => None
  | Some toks =>
      match (if content_only then Some toks else strip_header directed toks) with
      | None => None
      | Some body =>
          match parse_stmts body with
          | None => None
          | Some (ss, rest) =>
              match rest, content_only with
              | [], true => interp directed ss
              | [TRBrace], false => interp directed ss
              | _, _ => None
              end
          end
      end
  end.
