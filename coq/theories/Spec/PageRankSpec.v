(* The vocabulary of C20b (page_rank).  Definitions only. *)
From Coq Require Import QArith List.
From PG Require Import Lib.Io Model.View Model.PageRankM Spec.ViewIso.
Local Open Scope Q_scope.

(* the views page_rank addresses correctly: it reads node i as from_index(i) for i in
   0 .. node_count-1, so the nodes have to be exactly these indices, each listed once *)
Definition pr_view (v : view) : Prop :=
  compact_view v /\ vnode_count v = vbound v /\ NoDup (vnodes v).

(* the out-lists of the indices below n point at indices below n *)
Definition targets_in (v : view) (n : nat) : Prop :=
  forall w e, (w < n)%nat -> In e (out_edges v w) -> (tgt e < n)%nat.

(* a rank vector with no negative entry and a positive entry at some index below n: the
   invariant of the iteration that survives d = 1 *)
Definition some_pos (n : nat) (r : list Q) : Prop :=
  (forall q, In q r -> 0 <= q) /\ exists w, (w < n)%nat /\ 0 < nth w r 0.
