(* Dominance in a rooted directed graph: the vocabulary of the dominators theorems (C16).
   The definitions are given once for an arbitrary edge relation R (so that the same theory
   serves the view and the index graph the algorithm works on) and then for a view.
   Nothing here mentions the algorithm. *)
From PG Require Import Lib.Io Model.View Spec.Reach.

Section Generic.
Variable R : nat -> nat -> Prop.

(* a walk from a along R-edges through the nodes l (in order), ending in b; the nodes it
   visits are a :: l, and b is the last of them *)
Fixpoint gwalk (a : nat) (l : list nat) (b : nat) : Prop :=
  match l with
  | [] => a = b
  | x :: t => R a x /\ gwalk x t b
  end.

Definition greach (a b : nat) : Prop := exists l, gwalk a l b.

(* a dominates b: b is reachable from the root and every walk root -> b visits a *)
Definition gdom (root a b : nat) : Prop :=
  greach root b /\ forall l, gwalk root l b -> In a (root :: l).
Definition gsdom (root a b : nat) : Prop := gdom root a b /\ a <> b.
(* the strict dominator closest to b: every strict dominator of b dominates it *)
Definition gidom (root a b : nat) : Prop :=
  gsdom root a b /\ forall c, gsdom root c b -> gdom root c a.
End Generic.

(* ---- for a view: edges are the out-edges ---- *)

(* [dpath v a l b]: a walk along out-edges from a through the node list l, ending in b *)
Definition dpath (v : view) : nat -> list nat -> nat -> Prop := gwalk (step v).

Definition dominates (v : view) (root a b : nat) : Prop :=
  reachable v root b /\ forall l, dpath v root l b -> In a (root :: l).
Definition sdom (v : view) (root a b : nat) : Prop := dominates v root a b /\ a <> b.
Definition idom (v : view) (root a b : nat) : Prop :=
  sdom v root a b /\ forall c, sdom v root c b -> dominates v root c a.
