(* C06 / T6: what Graph<N, E, Ty, Ix> shows through the visit traits, computed from the model
   functions of Model/GraphM.v (the same functions the C01 theorems are about).
     node_identifiers / node_references : 0 .. node_count-1 (NodeCompactIndexable)
     edges(a) = edges_directed(a, Outgoing), edges_directed(a, Incoming)
     neighbors(a) = neighbors_directed(a, Outgoing), neighbors_directed(a, Incoming)
     edge_references : the edge vector in index order
     adjacency_matrix : bit n*a+b for each edge (a, b), and bit n*b+a too when undirected
                        (GetAdjacencyMatrix for Graph); is_adjacent(a, b) = bit n*a+b.
   The same for StableGraph (Model/StableM.v) at the end: live slots only, node_bound = one past the
   last live slot, not compact, iterators through get_node ([s_next]).
   No proofs in this file. *)
From PG Require Import Lib.Io Model.GraphM Model.StableM Model.StableIO Model.FullView.

(* an EdgeReference (index, (source, target), weight) as a quad *)
Definition quad_of (r : nat * (nat * nat) * nat) : quad :=
  (fst (fst r), fst (snd (fst r)), snd (snd (fst r)), zn (snd r)).

Fixpoint rmapM {A B} (f : A -> res B) (l : list A) : res (list B) :=
  match l with
  | [] => Ok []
  | h :: t => rbind (f h) (fun y => rmap (cons y) (rmapM f t))
  end.

Definition erefs_of (g : graph nat nat) : list quad :=
  map (fun '(i, ed) => (i, fst (enode ed), snd (enode ed), zn (ewt ed)))
      (combine (seq 0 (length (gedges g))) (gedges g)).

Definition nrefs_of (g : graph nat nat) : list (nat * Z) :=
  map (fun '(i, nd) => (i, zn (nwt nd))) (combine (seq 0 (length (gnodes g))) (gnodes g)).

(* the set bits of adjacency_matrix() *)
Definition adj_bits (directed : bool) (g : graph nat nat) : list nat :=
  let n := node_count g in
  flat_map (fun ed => (n * fst (enode ed) + snd (enode ed)) ::
                      (if directed then [] else [n * snd (enode ed) + fst (enode ed)]))
           (gedges g).

Definition adj_row (n : nat) (bits : list nat) (a : nat) : list nat :=
  filter (fun b => memn (n * a + b) bits) (seq 0 n).

Definition fview_of_graph (cap : nat) (directed : bool) (g : graph nat nat) : res fview :=
  let n := node_count g in
  let nodes := seq 0 n in
  rbind (rmapM (fun a => rmap (fun l => (a, map quad_of l)) (edges_directed cap directed g a 0)) nodes)
    (fun outs =>
  rbind (rmapM (fun a => rmap (fun l => (a, map quad_of l)) (edges_directed cap directed g a 1)) nodes)
    (fun ins =>
  rbind (rmapM (fun a => rmap (fun l => (a, map (@snd nat nat) l)) (neighbors_directed cap directed g a 0)) nodes)
    (fun nbs =>
  rbind (rmapM (fun a => rmap (fun l => (a, map (@snd nat nat) l)) (neighbors_directed cap directed g a 1)) nodes)
    (fun nbins =>
  Ok (mkFv directed n (Some n) (Some (edge_count g)) (Some (edge_count g)) (Some n)
           true true true true
           nodes (nrefs_of g) outs ins nbs nbins (erefs_of g)
           (map (fun a => (a, adj_row n (adj_bits directed g) a)) nodes)))))).

(* ---------------- StableGraph ---------------- *)

(* an EdgeReference of the inner graph (weights are options; live edges have Some) *)
Definition squad_of (r : nat * (nat * nat) * option nat) : quad :=
  (fst (fst r), fst (snd (fst r)), snd (snd (fst r)), zo (snd r)).

(* edge_references: the live edge slots in index order *)
Definition s_erefs_of (s : sgraph) : list quad :=
  flat_map (fun '(i, e) => match ewt e with
                           | Some w => [(i, fst (enode e), snd (enode e), zn w)]
                           | None => [] end)
           (combine (seq 0 (length (gedges (sg s)))) (gedges (sg s))).

(* the set bits of adjacency_matrix(): n = node_bound() *)
Definition s_adj_bits (directed : bool) (n : nat) (erefs : list quad) : list nat :=
  flat_map (fun q => (n * q_src q + q_tgt q) :: (if directed then [] else [n * q_tgt q + q_src q])) erefs.

Definition s_adj_row (n : nat) (bits : list nat) (nodes : list nat) (a : nat) : list nat :=
  filter (fun b => memn (n * a + b) bits) nodes.

Definition fview_of_stable (cap : nat) (directed : bool) (s : sgraph) : res fview :=
  let n := node_bound s in
  let nodes := map fst (live_nodes s) in
  let g := sg s in
  rbind (rmapM (fun a => rmap (fun l => (a, map squad_of l))
                              (edges_directed_nx directed g a (s_next cap s a) 0)) nodes)
    (fun outs =>
  rbind (rmapM (fun a => rmap (fun l => (a, map squad_of l))
                              (edges_directed_nx directed g a (s_next cap s a) 1)) nodes)
    (fun ins =>
  rbind (rmapM (fun a => rmap (fun l => (a, map (@snd nat nat) l))
                              (neighbors_directed_nx cap directed g a (s_next cap s a) 0)) nodes)
    (fun nbs =>
  rbind (rmapM (fun a => rmap (fun l => (a, map (@snd nat nat) l))
                              (neighbors_directed_nx cap directed g a (s_next cap s a) 1)) nodes)
    (fun nbins =>
  Ok (mkFv directed n (Some n) (Some (ecount s)) (Some (edge_bound s)) (Some (ncount s))
           false true true true
           nodes (map (fun '(i, w) => (i, zn w)) (live_nodes s)) outs ins nbs nbins (s_erefs_of s)
           (map (fun a => (a, s_adj_row n (s_adj_bits directed n (s_erefs_of s)) nodes a)) nodes)))))).
