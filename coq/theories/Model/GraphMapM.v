(* Executable mirror of /repo/src/graphmap.rs (GraphMap).  No proofs in this file.
   Node values are integers (Z); the hasher plays no role in an insertion-ordered
   association-list model of IndexMap, which is the claim "any BuildHasher". *)
From PG Require Import Lib.Io.
Open Scope Z_scope.

(* ---- IndexMap as an insertion-ordered association list ---- *)
Section IM.
  Context {K V : Type} (eqk : K -> K -> bool).

  Fixpoint im_get (m : list (K * V)) (k : K) : option V :=
    match m with
    | [] => None
    | (k', v) :: t => if eqk k' k then Some v else im_get t k
    end.

  Fixpoint im_index_of (m : list (K * V)) (k : K) : option nat :=
    match m with
    | [] => None
    | (k', _) :: t => if eqk k' k then Some 0%nat else option_map S (im_index_of t k)
    end.

  (* insert: replace in place, or push *)
  Fixpoint im_insert (m : list (K * V)) (k : K) (v : V) : option V * list (K * V) :=
    match m with
    | [] => (None, [(k, v)])
    | (k', v') :: t =>
        if eqk k' k then (Some v', (k', v) :: t)
        else let '(o, t') := im_insert t k v in (o, (k', v') :: t')
    end.

  (* Vec::swap_remove(i): the last element takes the place of element i *)
  Definition vec_swap_remove {A} (l : list A) (i : nat) : list A :=
    match nth_error l i with
    | None => l
    | Some _ =>
        match rev l with
        | [] => l
        | last :: _ =>
            if Nat.eqb i (length l - 1) then removelast l
            else removelast (upd l i last)
        end
    end.

  Definition im_swap_remove (m : list (K * V)) (k : K) : option V * list (K * V) :=
    match im_index_of m k with
    | None => (None, m)
    | Some i => (im_get m k, vec_swap_remove m i)
    end.
End IM.

(* CompactDirection: true = Outgoing, false = Incoming *)
Definition adjv := list (Z * bool).

Record gm := mkGm {
  gnodes : list (Z * adjv);
  gedges : list ((Z * Z) * Z)
}.

Definition zpair_eqb (p q : Z * Z) : bool := andb (Z.eqb (fst p) (fst q)) (Z.eqb (snd p) (snd q)).

Definition edge_key (directed : bool) (a b : Z) : Z * Z :=
  if directed then (a, b) else if Z.leb a b then (a, b) else (b, a).

Definition gm_new : gm := mkGm [] [].

Definition add_node (g : gm) (n : Z) : gm :=
  match im_get Z.eqb (gnodes g) n with
  | Some _ => g
  | None => mkGm (gnodes g ++ [(n, [])]) (gedges g)
  end.

(* self.nodes.entry(a).or_insert_with(..).push(x) *)
Definition push_adj (nodes : list (Z * adjv)) (a : Z) (x : Z * bool) : list (Z * adjv) :=
  match im_get Z.eqb nodes a with
  | Some v => snd (im_insert Z.eqb nodes a (v ++ [x]))
  | None => nodes ++ [(a, [x])]
  end.

Definition add_edge (directed : bool) (g : gm) (a b w : Z) : option Z * gm :=
  let '(old, edges') := im_insert zpair_eqb (gedges g) (edge_key directed a b) w in
  match old with
  | Some _ => (old, mkGm (gnodes g) edges')
  | None =>
      let n1 := push_adj (gnodes g) a (b, true) in
      let n2 := if Z.eqb a b then n1 else push_adj n1 b (a, false) in
      (None, mkGm n2 edges')
  end.

Fixpoint position {A} (f : A -> bool) (l : list A) (i : nat) : option nat :=
  match l with
  | [] => None
  | x :: t => if f x then Some i else position f t (S i)
  end.

Definition remove_single_edge (directed : bool) (nodes : list (Z * adjv)) (a b : Z) (dir : bool)
  : bool * list (Z * adjv) :=
  match im_get Z.eqb nodes a with
  | None => (false, nodes)
  | Some sus =>
      let p := if directed
               then position (fun e : Z * bool => andb (Z.eqb (fst e) b) (Bool.eqb (snd e) dir)) sus 0
               else position (fun e : Z * bool => Z.eqb (fst e) b) sus 0 in
      match p with
      | Some i => (true, snd (im_insert Z.eqb nodes a (vec_swap_remove sus i)))
      | None => (false, nodes)
      end
  end.

(* remove_edge; the debug_assert!(exist1 == exist2 && exist1 == weight.is_some()) is a Panic when debug *)
Definition remove_edge (directed debug : bool) (g : gm) (a b : Z) : res (option Z * gm) :=
  let '(e1, n1) := remove_single_edge directed (gnodes g) a b true in
  let '(e2, n2) := if Z.eqb a b then (e1, n1) else remove_single_edge directed n1 b a false in
  let '(w, edges') := im_swap_remove zpair_eqb (gedges g) (edge_key directed a b) in
  let is_some := match w with Some _ => true | None => false end in
  if andb debug (negb (andb (Bool.eqb e1 e2) (Bool.eqb e1 is_some))) then Panic
  else Ok (w, mkGm n2 edges').

Fixpoint remove_links (directed : bool) (n : Z) (links : adjv) (nodes : list (Z * adjv))
         (edges : list ((Z * Z) * Z)) : list (Z * adjv) * list ((Z * Z) * Z) :=
  match links with
  | [] => (nodes, edges)
  | (succ, dir) :: rest =>
      let key := if dir then edge_key directed n succ else edge_key directed succ n in
      let nodes' := snd (remove_single_edge directed nodes succ n (negb dir)) in
      let edges' := snd (im_swap_remove zpair_eqb edges key) in
      remove_links directed n rest nodes' edges'
  end.

Definition remove_node (directed : bool) (g : gm) (n : Z) : bool * gm :=
  match im_swap_remove Z.eqb (gnodes g) n with
  | (None, _) => (false, g)
  | (Some links, nodes') =>
      let '(n2, e2) := remove_links directed n links nodes' (gedges g) in
      (true, mkGm n2 e2)
  end.

Definition contains_node (g : gm) (n : Z) : bool :=
  match im_get Z.eqb (gnodes g) n with Some _ => true | None => false end.
Definition edge_weight (directed : bool) (g : gm) (a b : Z) : option Z :=
  im_get zpair_eqb (gedges g) (edge_key directed a b).
Definition contains_edge (directed : bool) (g : gm) (a b : Z) : bool :=
  match edge_weight directed g a b with Some _ => true | None => false end.

(* edge_weight_mut(a,b).map(|w| *w = v) *)
Definition set_edge_weight (directed : bool) (g : gm) (a b v : Z) : bool * gm :=
  match edge_weight directed g a b with
  | None => (false, g)
  | Some _ => (true, mkGm (gnodes g) (snd (im_insert zpair_eqb (gedges g) (edge_key directed a b) v)))
  end.

Definition adj_of (g : gm) (a : Z) : adjv :=
  match im_get Z.eqb (gnodes g) a with Some v => v | None => [] end.

Definition neighbors (directed : bool) (g : gm) (a : Z) : list Z :=
  if directed then map fst (filter (fun e : Z * bool => snd e) (adj_of g a))
  else map fst (adj_of g a).

Definition neighbors_directed (directed : bool) (g : gm) (a : Z) (outgoing : bool) : list Z :=
  if directed
  then map fst (filter (fun e : Z * bool => orb (Bool.eqb (snd e) outgoing) (Z.eqb (fst e) a)) (adj_of g a))
  else map fst (adj_of g a).

(* Edges: the weight lookup is `unreachable!()` when missing *)
Fixpoint edge_triples (directed : bool) (g : gm) (swap : bool) (from : Z) (bs : list Z) : res (list Z) :=
  match bs with
  | [] => Ok []
  | b :: rest =>
      let '(x, y) := if swap then (b, from) else (from, b) in
      match edge_weight directed g x y with
      | None => Panic
      | Some w => rmap (fun tl => x :: y :: w :: tl) (edge_triples directed g swap from rest)
      end
  end.

Definition edges_of (directed : bool) (g : gm) (a : Z) : res (list Z) :=
  edge_triples directed g false a (neighbors directed g a).
Definition edges_directed (directed : bool) (g : gm) (a : Z) (outgoing : bool) : res (list Z) :=
  edge_triples directed g (negb outgoing) a (neighbors_directed directed g a outgoing).

Definition all_edges (g : gm) : list Z := flat_map (fun '((a, b), w) => [a; b; w]) (gedges g).

(* into_graph: node weights in map order; edges (index of a, index of b, weight) in map order;
   get_index_of(..).unwrap() panics when an endpoint is missing *)
Fixpoint into_graph_edges (g : gm) (es : list ((Z * Z) * Z)) : res (list Z) :=
  match es with
  | [] => Ok []
  | ((a, b), w) :: rest =>
      match im_index_of Z.eqb (gnodes g) a, im_index_of Z.eqb (gnodes g) b with
      | Some ai, Some bi => rmap (fun tl => zn ai :: zn bi :: w :: tl) (into_graph_edges g rest)
      | _, _ => Panic
      end
  end.

(* ---- observation battery ---- *)
Local Close Scope Z_scope.
Definition TAG_BOOL := 0.   Definition TAG_PANIC := 2. Definition TAG_UNIT := 4.
Definition TAG_COUNTS := 5. Definition TAG_NONE := 13. Definition TAG_SOME := 21.
Definition TAG_NODES := 16. Definition TAG_EREFS := 8. Definition TAG_FUEL := 10.
Definition TAG_NB := 22.    Definition TAG_NBO := 23.  Definition TAG_NBI := 24.
Definition TAG_ED := 25.    Definition TAG_EDO := 26.  Definition TAG_EDI := 27.
Definition TAG_GN := 28.    Definition TAG_GE := 29.   Definition TAG_IDX := 3.

Definition rline {A} (f : A -> line) (r : res A) : line :=
  match r with Ok a => f a | Panic => (TAG_PANIC, []) | OutOfFuel => (TAG_FUEL, []) end.

Definition battery (directed : bool) (g : gm) : list line :=
  (TAG_COUNTS, [zn (length (gnodes g)); zn (length (gedges g))]) ::
  (TAG_NODES, map fst (gnodes g)) ::
  (TAG_EREFS, all_edges g) ::
  flat_map (fun a =>
    [(TAG_NB, a :: neighbors directed g a);
     (TAG_NBO, a :: neighbors_directed directed g a true);
     (TAG_NBI, a :: neighbors_directed directed g a false);
     rline (fun l => (TAG_ED, a :: l)) (edges_of directed g a);
     rline (fun l => (TAG_EDO, a :: l)) (edges_directed directed g a true);
     rline (fun l => (TAG_EDI, a :: l)) (edges_directed directed g a false)]) (map fst (gnodes g)).

Definition opt_line (o : option Z) : line :=
  match o with None => (TAG_NONE, []) | Some w => (TAG_SOME, [w]) end.

Fixpoint extend_edges (directed : bool) (g : gm) (l : list Z) : gm :=
  match l with
  | a :: b :: w :: rest => extend_edges directed (snd (add_edge directed g a b w)) rest
  | _ => g
  end.

(* opcodes: 0 add_node n | 1 remove_node n | 2 add_edge a b w | 3 remove_edge a b | 4 clear
            5 set_edge_weight a b v | 6 extend a b w a b w ... | 7 contains_node n | 8 contains_edge a b
            9 edge_weight a b | 10 neighbors a | 11 edges_directed a outgoing | 12 to_index n
            13 into_graph *)
Definition step (directed debug : bool) (g : gm) (o : line) : gm * list line :=
  let '(code, a) := o in
  match code with
  | 0 => let g' := add_node g (argz a 0) in (g', (TAG_SOME, [argz a 0]) :: battery directed g')
  | 1 => let '(b, g') := remove_node directed g (argz a 0) in (g', (TAG_BOOL, [zb b]) :: battery directed g')
  | 2 => let '(o, g') := add_edge directed g (argz a 0) (argz a 1) (argz a 2) in
         (g', opt_line o :: battery directed g')
  | 3 => match remove_edge directed debug g (argz a 0) (argz a 1) with
         | Ok (o, g') => (g', opt_line o :: battery directed g')
         | _ => (g, [(TAG_PANIC, [])])
         end
  | 4 => (gm_new, (TAG_UNIT, []) :: battery directed gm_new)
  | 5 => let '(b, g') := set_edge_weight directed g (argz a 0) (argz a 1) (argz a 2) in
         (g', (TAG_BOOL, [zb b]) :: battery directed g')
  | 6 => let g' := extend_edges directed g a in (g', (TAG_UNIT, []) :: battery directed g')
  | 7 => (g, [(TAG_BOOL, [zb (contains_node g (argz a 0))])])
  | 8 => (g, [(TAG_BOOL, [zb (contains_edge directed g (argz a 0) (argz a 1))])])
  | 9 => (g, [opt_line (edge_weight directed g (argz a 0) (argz a 1))])
  | 10 => (g, [(TAG_NB, argz a 0 :: neighbors directed g (argz a 0))])
  | 11 => (g, [rline (fun l => (TAG_EDO, argz a 0 :: l))
                     (edges_directed directed g (argz a 0) (Z.eqb (argz a 1) 1))])
  | 12 => (g, [match im_index_of Z.eqb (gnodes g) (argz a 0) with
               | Some i => (TAG_IDX, [zn i]) | None => (TAG_PANIC, []) end])
  | 13 => (g, [(TAG_GN, map fst (gnodes g));
               rline (fun l => (TAG_GE, l)) (into_graph_edges g (gedges g))])
  | _ => (g, [(TAG_PANIC, [])])
  end.

Fixpoint run (directed debug : bool) (g : gm) (ops : list line) : list (list line) :=
  match ops with
  | [] => []
  | o :: rest => let '(g', ls) := step directed debug g o in ls :: run directed debug g' rest
  end.

(* header = [directed; debug] *)
Definition run_case (header : list Z) (ops : list line) : list (list line) :=
  run (Z.eqb (argz header 0) 1) (Z.eqb (argz header 1) 1) gm_new ops.
