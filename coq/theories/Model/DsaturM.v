(* C20: dsatur_coloring (src/algo/coloring.rs) as a nondeterministic machine, and the decision
   procedure "this colouring is a possible output of that machine".

   The code keeps a max-heap of (saturation, degree) entries, re-pushed whenever a neighbour is
   coloured, and skips entries of nodes already coloured; the entry popped is therefore one of
   an uncoloured node whose CURRENT (saturation, degree) is maximal among the uncoloured nodes
   (stale entries of a node are never larger than its newest one).  Which of several maximal
   nodes comes first is the heap's business (BinaryHeap, not petgraph) and is left open here:
   a step colours ANY uncoloured node with maximal (saturation, degree) with the smallest
   colour absent from its coloured neighbours.  No proofs in this file. *)
From PG Require Import Lib.Io Model.View Model.MiscM.

(* colours already given to nodes y that list x among their neighbours
   (for nbor in graph.neighbors(y): adj_color_map[nbor].insert(colour of y)) *)
Definition adj_colors (v : view) (col : list (nat * nat)) (x : nat) : list nat :=
  flat_map (fun '(y, c) => if mem x (neighbors v y) then [c] else []) col.

Fixpoint dedup (l : list nat) : list nat :=
  match l with [] => [] | h :: t => if mem h t then dedup t else h :: dedup t end.

Definition saturation (v : view) (col : list (nat * nat)) (x : nat) : nat := length (dedup (adj_colors v col x)).
(* graph.edges(node).count() *)
Definition degree (v : view) (x : nat) : nat := length (out_edges v x).

(* while adj_color.contains(&color) { color += 1 } *)
Fixpoint first_free (fuel : nat) (used : list nat) (c : nat) : nat :=
  match fuel with
  | O => c
  | S f => if mem c used then first_free f used (S c) else c
  end.
Definition next_color (v : view) (col : list (nat * nat)) (x : nat) : nat :=
  let used := adj_colors v col x in first_free (S (length used)) used 0.

Definition score_le (a b : nat * nat) : bool :=
  orb (Nat.ltb (fst a) (fst b)) (andb (Nat.eqb (fst a) (fst b)) (Nat.leb (snd a) (snd b))).
Definition score (v : view) (col : list (nat * nat)) (x : nat) : nat * nat := (saturation v col x, degree v x).

Definition uncolored (v : view) (col : list (nat * nat)) : list nat :=
  filter (fun x => negb (mem x (map fst col))) (vnodes v).
(* the uncoloured nodes whose (saturation, degree) is maximal *)
Definition candidates (v : view) (col : list (nat * nat)) : list nat :=
  let u := uncolored v col in
  filter (fun x => forallb (fun y => score_le (score v col y) (score v col x)) u) u.

(* is there a run of the machine from col whose choices agree with target?  fuel = nodes left *)
Fixpoint dsatur_from (fuel : nat) (v : view) (target : list (nat * nat)) (col : list (nat * nat)) : bool :=
  match uncolored v col with
  | [] => true
  | _ :: _ =>
      match fuel with
      | O => false
      | S f => existsb (fun x => match assoc_col target x with
                                 | Some c => andb (Nat.eqb (next_color v col x) c) (dsatur_from f v target ((x, c) :: col))
                                 | None => false
                                 end) (candidates v col)
      end
  end.

(* max_color + 1, or 0 for the graph without nodes *)
Definition color_count (col : list (nat * nat)) : nat :=
  match col with [] => 0 | _ => S (fold_left Nat.max (map snd col) 0) end.

(* target lists every node once (checked before by coloring_check) *)
Definition dsatur_possible (v : view) (target : list (nat * nat)) (k : nat) : bool :=
  andb (dsatur_from (length (vnodes v)) v target []) (Nat.eqb k (color_count target)).

(* opcode 61: dsatur k (node colour)*  — the verdict of coloring_check, and 5 when the colouring
   passes it but is not a possible output of the machine *)
Definition dsatur_query (v : view) (o : line) : list line :=
  let a := snd o in
  let col := pairs_nat (tl a) in
  let c := coloring_check v col (arg a 0) in
  [(TAG_VERDICT, [zn (if Nat.eqb c 0 then (if dsatur_possible v col (arg a 0) then 0 else 5) else c)])].
