(* C20: steiner_tree (src/algo/steiner_tree.rs, with the spanning-forest step of the fix: commit), as a
   nondeterministic mirror.  The only freedom is WHICH minimum spanning tree of the metric closure
   Kruskal returns: the closure's edges reach it in hash-map order and equal weights leave the heap in
   any order, so every minimum spanning tree of the closure is possible and nothing else is.  All other
   steps are mirrored as written: dijkstra for the closure, floyd_warshall_path's predecessor matrix
   for the paths, retain_edges / retain_nodes, the stable sort + union-find forest, the leaf pruning
   loop.  No proofs in this file. *)
From PG Require Import Lib.Io Model.View Model.Traversal Model.AlgoBasic Model.ShortestM Model.UnionFindM Model.MstM Model.MiscM.

Definition KMIN : Z := (-9223372036854775808)%Z.
Definition KMAX : Z := 9223372036854775807%Z.

Fixpoint pairs_after (l : list nat) : list (nat * nat) :=
  match l with [] => [] | x :: t => map (pair x) t ++ pairs_after t end.

Fixpoint rmapm {A B} (f : A -> res B) (l : list A) : res (list B) :=
  match l with
  | [] => Ok []
  | x :: t => rbind (f x) (fun y => rbind (rmapm f t) (fun ys => Ok (y :: ys)))
  end.

(* compute_metric_closure: (t_i, t_j, dijkstra distance) for i < j; output[&target] panics when unreachable *)
Definition metric_closure (v : view) (terms : list nat) : res (list (nat * nat * Z)) :=
  rmapm (fun '(a, b) => rbind (dijkstra v a (Some b)) (fun m =>
           match sget m b with Some d => Ok (a, b, d) | None => Panic end)) (pairs_after terms).

(* the minimum spanning trees of the closure (a complete graph on the terminals) *)
Definition acyclic_edges (bound : nat) (es : list (nat * nat * Z)) : bool :=
  fst (fold_left (fun '(ok, u) '(a, b, _) =>
         match union u a b with
         | (Ok true, u') => (ok, u')
         | (_, u') => (false, u')
         end) es (true, uf_new bound)).
Definition closure_trees (bound k : nat) (cl : list (nat * nat * Z)) : list (list (nat * nat * Z)) :=
  filter (fun es => andb (Nat.eqb (S (length es)) k) (acyclic_edges bound es)) (subseqs cl).
Definition closure_msts (bound k : nat) (cl : list (nat * nat * Z)) : list (list (nat * nat * Z)) :=
  let ts := closure_trees bound k cl in
  match ts with
  | [] => []
  | t0 :: _ => let m := fold_left (fun b t => Z.min b (sumw t)) ts (sumw t0) in
               filter (fun t => Z.eqb (sumw t) m) ts
  end.

(* subgraph_edges_from_metric_closure: walk from the target back to the source along prev[source][.];
   a missing predecessor makes the real loop spin for ever: OutOfFuel *)
Fixpoint walk_back (fuel : nat) (prev : list (list (option nat))) (s cur : nat) (acc : list (nat * nat))
  : res (list (nat * nat)) :=
  if Nat.eqb cur s then Ok acc else
  match fuel with
  | O => OutOfFuel
  | S f => rbind (mget prev s cur) (fun o =>
             match o with
             | Some p => walk_back f prev s p ((p, cur) :: acc)
             | None => OutOfFuel
             end)
  end.
Definition path_pairs (v : view) (prev : list (list (option nat))) (tree : list (nat * nat * Z)) : res (list (nat * nat)) :=
  rmap (@concat _) (rmapm (fun '(s, t, _) => walk_back (S (vbound v)) prev s t []) tree).

Definition pair_mem (a b : nat) (l : list (nat * nat)) : bool :=
  existsb (fun '(x, y) => andb (Nat.eqb x a) (Nat.eqb y b)) l.

(* stable insertion sort by weight: sort_by(|a, b| a.0.cmp(&b.0)) *)
Fixpoint ins_w (x : nat * nat * nat * Z) (l : list (nat * nat * nat * Z)) : list (nat * nat * nat * Z) :=
  match l with
  | [] => [x]
  | h :: t => if Z.ltb (snd x) (snd h) then x :: l else h :: ins_w x t
  end.
Definition sort_w (l : list (nat * nat * nat * Z)) : list (nat * nat * nat * Z) := fold_left (fun acc x => ins_w x acc) l [].
(* insertion from the left keeps equal weights in their original order only if each new element goes AFTER its equals: ins_w does *)

Definition forest_ids (bound : nat) (es : list (nat * nat * nat * Z)) : list nat :=
  fst (fold_left (fun '(ids, u) '(e, a, b, _) =>
         match union u a b with
         | (Ok true, u') => (ids ++ [e], u')
         | (_, u') => (ids, u')
         end) (sort_w es) ([], uf_new bound)).

(* non_terminal_leaves *)
Definition nbrs_of (es : list (nat * nat * nat * Z)) (x : nat) : list nat :=
  nodup Nat.eq_dec (flat_map (fun '(_, a, b, _) => (if Nat.eqb a x then [b] else []) ++ (if Nat.eqb b x then [a] else [])) es).
Fixpoint prune (fuel : nat) (nodes : list nat) (es : list (nat * nat * nat * Z)) (terms removed : list nat) : list nat :=
  let rem := filter (fun n => andb (negb (mem n terms)) (andb (negb (mem n removed))
                 (Nat.eqb (length (filter (fun y => negb (mem y removed)) (nbrs_of es n))) 1))) nodes in
  match rem, fuel with
  | [], _ => removed
  | _, O => removed
  | _, S f => prune f nodes es terms (removed ++ rem)
  end.

(* the result for one choice of the closure's spanning tree: (nodes ascending, edges (a, b, w) in edge-index order) *)
Definition steiner_for (v : view) (terms : list nat) (prev : list (list (option nat))) (tree : list (nat * nat * Z))
  : res (list nat * list (nat * nat * Z)) :=
  rbind (path_pairs v prev tree) (fun pp =>
    let keep_nodes := filter (fun n => existsb (fun '(x, y) => orb (Nat.eqb x n) (Nat.eqb y n)) pp) (vnodes v) in
    let es1 := filter (fun '(_, a, b, _) => orb (pair_mem a b pp) (pair_mem b a pp)) (verefs v) in
    let es2 := filter (fun '(_, a, b, _) => andb (mem a keep_nodes) (mem b keep_nodes)) es1 in
    let fid := forest_ids (vbound v) es2 in
    let es3 := filter (fun '(e, _, _, _) => mem e fid) es2 in
    let removed := prune (S (length keep_nodes)) keep_nodes es3 terms [] in
    let nodes := filter (fun n => negb (mem n removed)) keep_nodes in
    Ok (nodes, map (fun '(_, a, b, w) => (a, b, w))
                   (filter (fun '(_, a, b, _) => andb (negb (mem a removed)) (negb (mem b removed))) es3))).

(* every possible result *)
Definition steiner_outputs (v : view) (terms : list nat) : res (list (list nat * list (nat * nat * Z))) :=
  rbind (metric_closure v terms) (fun cl =>
  rbind (floyd_warshall KMIN KMAX v) (fun o =>
    match o with
    | None => Panic                       (* floyd_warshall_path(..).unwrap() *)
    | Some (_, prev) => rmapm (steiner_for v terms prev) (closure_msts (vbound v) (length terms) cl)
    end)).

Fixpoint list_eqb3 (a b : list (nat * nat * Z)) : bool :=
  match a, b with
  | [], [] => true
  | (x1, y1, w1) :: a', (x2, y2, w2) :: b' => andb (andb (Nat.eqb x1 x2) (Nat.eqb y1 y2)) (andb (Z.eqb w1 w2) (list_eqb3 a' b'))
  | _, _ => false
  end.
Fixpoint list_eqbn (a b : list nat) : bool :=
  match a, b with
  | [], [] => true
  | x :: a', y :: b' => andb (Nat.eqb x y) (list_eqbn a' b')
  | _, _ => false
  end.

(* is (nodes, es) one of the possible results?  terminals: distinct, at most 5 (else not decided: true) *)
Definition steiner_possible (v : view) (terms nodes : list nat) (es : list (nat * nat * Z)) : bool :=
  if orb (Nat.ltb 5 (length terms)) (negb (nodupb terms)) then true
  else match steiner_outputs v terms with
       | Ok outs => existsb (fun '(ns, ee) => andb (list_eqbn ns nodes) (list_eqb3 ee es)) outs
       | _ => false
       end.

(* fewer than two terminals: no closure edge, nothing to span; the answer is the terminal itself (after the fix: commit that
   keeps the terminals among the retained nodes) or the empty graph.  The theorems (Props/C20e.v, C20g.v) are about two or
   more terminals, i.e. about steiner_possible. *)
Definition steiner_possible_all (v : view) (terms nodes : list nat) (es : list (nat * nat * Z)) : bool :=
  match terms with
  | [] => andb (list_eqbn nodes []) (list_eqb3 es [])
  | [t] => andb (list_eqbn nodes [t]) (list_eqb3 es [])
  | _ => steiner_possible v terms nodes es
  end.

(* opcode 65: steiner nt t* nn n* (a b w)*  — the verdict of MiscM.steiner_check on the crate's answer, and 7 when the
   answer passes it but is not a possible result of the mirror *)
Definition steiner_query (v : view) (o : line) : list line :=
  let a := snd o in
  let nt := arg a 0 in
  let terminals := map nz (firstn nt (tl a)) in
  let rest := skipn nt (tl a) in
  let nn := arg rest 0 in
  let nodes := map nz (firstn nn (tl rest)) in
  let es := triples_z (skipn nn (tl rest)) in
  let c := steiner_check v terminals nodes es in
  [(TAG_VERDICT, [zn (if Nat.eqb c 0 then (if steiner_possible_all v terminals nodes es then 0 else 7) else c)])].
