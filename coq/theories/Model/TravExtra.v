(* DfsPostOrder::reset followed by move_to: a walker that has been used is emptied (both maps and the stack)
   and restarted.  Kept apart from Traversal.v.  No proofs in this file. *)
From PG Require Import Lib.Io Model.View Model.Traversal.

Definition dpo_reset (d : dpo) : dpo := mkDpo [] [] [].
Definition dpo_move_to (d : dpo) (s : nat) : dpo := mkDpo [s] (pdisc d) (pfin d).

(* opcode 19: dfspost_reset s t *)
Definition dpo_reset_query (v : view) (o : line) : list line :=
  let a := snd o in
  let big := 4 * trav_fuel v in
  [rline (fun l => (TAG_SEQ, zns l))
     (rbind (dpo_drain big v (mkDpo [arg a 0] [] [])) (fun '(l1, d1) =>
      rmap (fun '(l2, _) => l1 ++ l2) (dpo_drain big v (dpo_move_to (dpo_reset d1) (arg a 1)))))].
