(* Executable mirror of /repo/src/matrix_graph.rs (MatrixGraph).  No proofs in this file.
   Parameters: directed (flat square vs lower triangular storage), notzero (Option<E> vs NotZero<E>). *)
From PG Require Import Lib.Io.

Record mg := mkMg {
  adj : list (option nat);     (* node_adjacencies; None = null *)
  ncap : nat;                  (* node_capacity *)
  elems : list (option nat);   (* IdStorage.elements: node weights *)
  ub : nat;                    (* IdStorage.upper_bound *)
  removed : list nat;          (* IdStorage.removed_ids (IndexSet): insertion order, pop = last *)
  nbe : nat                    (* nb_edges *)
}.

Definition tri_pos (r c : nat) : nat :=
  let (r', c') := if Nat.ltb c r then (r, c) else (c, r) in Nat.div2 (r' * (r' + 1)) + c'.

Definition lin_pos (directed : bool) (r c width : nat) : nat :=
  if directed then r * width + c else tri_pos r c.

Definition ensure_len {A} (l : list (option A)) (n : nat) : list (option A) :=
  l ++ repeat None (n - length l).

(* usize::next_power_of_two *)
Fixpoint npow2_loop (fuel p n : nat) : nat :=
  match fuel with
  | 0 => p
  | S f => if Nat.leb n p then p else npow2_loop f (2 * p) n
  end.
Definition next_power_of_two (n : nat) : nat := npow2_loop (S n) 1 n.

Definition swap_cells {A} (l : list A) (i j : nat) : res (list A) :=
  match nth_error l i, nth_error l j with
  | Some x, Some y => Ok (upd (upd l i y) j x)
  | _, _ => Panic
  end.

(* for i in (0..k).rev() { swap(pos + i, new_pos + i) } *)
Fixpoint swap_desc {A} (l : list A) (pos npos k : nat) : res (list A) :=
  match k with
  | 0 => Ok l
  | S i => rbind (swap_cells l (pos + i) (npos + i)) (fun l' => swap_desc l' pos npos i)
  end.

(* swap_nonoverlapping(old, new, k): elementwise exchange of two disjoint blocks;
   the debug_assert!s in front of it are modelled when debug = true *)
Definition swap_block {A} (debug : bool) (l : list A) (pos npos k : nat) : res (list A) :=
  if andb debug (negb (andb (Nat.ltb (pos + k) (length l)) (Nat.ltb (npos + k) (length l))))
  then Panic
  else if Nat.leb (npos + k) (length l) then swap_desc l pos npos k else Panic.

(* for c in (1..old).rev() *)
Fixpoint relocate_rows {A} (debug : bool) (l : list A) (old new c : nat) : res (list A) :=
  match c with
  | 0 => Ok l
  | S c' =>
      (* this call handles row index c = S c' when S c' >= 1, i.e. always; rows go old-1 .. 1 *)
      let pos := c * old in
      let npos := c * new in
      rbind (if Nat.leb (pos + old) npos then swap_block debug l pos npos old
             else swap_desc l pos npos old)
            (fun l' => relocate_rows debug l' old new c')
  end.

Definition extend_flat_square (debug : bool) (l : list (option nat)) (old newc : nat) (exact : bool)
  : res (list (option nat) * nat) :=
  let new := if exact then newc else Nat.max (next_power_of_two newc) 4 in
  let l1 := ensure_len l (new * new) in
  rmap (fun l2 => (l2, new)) (relocate_rows debug l1 old new (old - 1)).

Definition extend_lower_triangular (l : list (option nat)) (newc : nat) : list (option nat) * nat :=
  (ensure_len l (tri_pos (newc - 1) (newc - 1) + 1), newc).

Definition extend_linearized (directed debug : bool) (l : list (option nat)) (old newc : nat) (exact : bool)
  : res (list (option nat) * nat) :=
  if Nat.leb newc old then Ok (l, old)
  else if directed then extend_flat_square debug l old newc exact
  else Ok (extend_lower_triangular l newc).

Definition extend_capacity_for_node (directed debug : bool) (g : mg) (min_node : nat) (exact : bool) : res mg :=
  rmap (fun '(a, c) => mkMg a c (elems g) (ub g) (removed g) (nbe g))
       (extend_linearized directed debug (adj g) (ncap g) (min_node + 1) exact).

Definition extend_capacity_for_edge (directed debug : bool) (g : mg) (a b : nat) : res mg :=
  let m := Nat.max a b in
  if Nat.leb (ncap g) m then extend_capacity_for_node directed debug g m false else Ok g.

Definition with_capacity (directed debug : bool) (k : nat) : res mg :=
  let m := mkMg [] 0 [] 0 [] 0 in
  if Nat.ltb 0 k then extend_capacity_for_node directed debug m (k - 1) true else Ok m.

Definition to_edge_position (directed : bool) (g : mg) (a b : nat) : option nat :=
  if Nat.leb (ncap g) (Nat.max a b) then None else Some (lin_pos directed a b (ncap g)).

(* ---- IdStorage ---- *)
Definition ids_len (g : mg) : nat := ub g - length (removed g).

Fixpoint mem_nat (x : nat) (l : list nat) : bool :=
  match l with [] => false | h :: t => orb (Nat.eqb h x) (mem_nat x t) end.

(* iter_ids: ids below upper_bound not in removed_ids, ascending *)
Definition iter_ids (g : mg) : list nat :=
  filter (fun i => negb (mem_nat i (removed g))) (seq 0 (ub g)).

Definition ids_add (g : mg) (w : nat) : res (nat * mg) :=
  let '(id, ub', rem', el') :=
    match rev (removed g) with
    | id :: rest => (id, ub g, rev rest, elems g)
    | [] => (ub g, S (ub g), removed g, ensure_len (elems g) (S (ub g)))
    end in
  if Nat.ltb id (length el')
  then Ok (id, mkMg (adj g) (ncap g) (upd el' id (Some w)) ub' rem' (nbe g))
  else Panic.

Definition ids_remove (g : mg) (id : nat) : res (nat * mg) :=
  match nth_error (elems g) id with
  | Some (Some w) =>
      let el' := upd (elems g) id None in
      if Nat.eqb (ub g - id) 1
      then Ok (w, mkMg (adj g) (ncap g) el' (ub g - 1) (removed g) (nbe g))
      else Ok (w, mkMg (adj g) (ncap g) el' (ub g)
                       (if mem_nat id (removed g) then removed g else removed g ++ [id]) (nbe g))
  | _ => Panic
  end.

(* ---- nodes ---- *)
Definition add_node_raw (g : mg) (w : nat) : res (nat * mg) := ids_add g w.

Inductive merr := NodeIxLimit | NodeMissed (i : nat).

(* cap = IndexType::max().index(); capcheck = false for usize *)
Definition try_add_node (cap : nat) (capcheck : bool) (g : mg) (w : nat) : res ((merr + nat) * mg) :=
  if andb capcheck (Nat.eqb (ids_len g) cap) then Ok (inl NodeIxLimit, g)
  else rmap (fun '(i, g') => (inr i, g')) (ids_add g w).

(* add_node = try_add_node(..).unwrap() after the fix in /repo *)
Definition add_node (cap : nat) (capcheck : bool) (g : mg) (w : nat) : res (nat * mg) :=
  rbind (try_add_node cap capcheck g w) (fun '(r, g') =>
    match r with inl _ => Panic | inr i => Ok (i, g') end).

Definition clear_cell (g : mg) (p : nat) (dec : bool) : res mg :=
  match nth_error (adj g) p with
  | None => Panic
  | Some c =>
      Ok (mkMg (upd (adj g) p None) (ncap g) (elems g) (ub g) (removed g)
               (match c with Some _ => if dec then nbe g - 1 else nbe g | None => nbe g end))
  end.

Fixpoint remove_node_loop (directed : bool) (g : mg) (a : nat) (ids : list nat) : res mg :=
  match ids with
  | [] => Ok g
  | id :: rest =>
      rbind (match to_edge_position directed g a id with
             | Some p => clear_cell g p true
             | None => Ok g
             end) (fun g1 =>
      rbind (if directed
             then match to_edge_position directed g1 id a with
                  | Some p => clear_cell g1 p true
                  | None => Ok g1
                  end
             else Ok g1) (fun g2 => remove_node_loop directed g2 a rest))
  end.

(* the adjacency is cleared before IdStorage::remove can panic *)
Definition remove_node (directed : bool) (g : mg) (a : nat) : res (option nat * mg) :=
  rbind (remove_node_loop directed g a (iter_ids g)) (fun g1 =>
    match ids_remove g1 a with
    | Ok (w, g2) => Ok (Some w, g2)
    | Panic => Ok (None, g1)         (* None = the call panicked; g1 is what it left behind *)
    | OutOfFuel => OutOfFuel
    end).

(* ---- edges ---- *)
(* update_edge: Ok (inl ()) = panicked (with the state left behind), Ok (inr old) = returned *)
Definition update_edge (directed notzero debug : bool) (g : mg) (a b w : nat)
  : res ((unit + option nat) * mg) :=
  rbind (extend_capacity_for_edge directed debug g a b) (fun g1 =>
    let p := lin_pos directed a b (ncap g1) in
    match nth_error (adj g1) p with
    | None => Ok (inl tt, g1)
    | Some old =>
        if andb notzero (Nat.eqb w 0) then Ok (inl tt, g1)
        else Ok (inr old, mkMg (upd (adj g1) p (Some w)) (ncap g1) (elems g1) (ub g1) (removed g1)
                               (match old with None => S (nbe g1) | Some _ => nbe g1 end))
    end).

Definition assert_node_bounds (g : mg) (a b : nat) : option merr :=
  if Nat.leb (ncap g) a then Some (NodeMissed a)
  else if Nat.leb (ncap g) b then Some (NodeMissed b) else None.

Inductive ures := UPanic | UErr (e : merr) | UOld (o : option nat).

Definition try_update_edge (directed notzero debug : bool) (g : mg) (a b w : nat) : res (ures * mg) :=
  match assert_node_bounds g a b with
  | Some e => Ok (UErr e, g)
  | None =>
      rmap (fun '(r, g') => (match r with inl _ => UPanic | inr o => UOld o end, g'))
           (update_edge directed notzero debug g a b w)
  end.

Definition add_or_update_edge (directed notzero debug : bool) (g : mg) (a b w : nat) : res (ures * mg) :=
  rbind (extend_capacity_for_edge directed debug g a b) (fun g1 =>
    try_update_edge directed notzero debug g1 a b w).

(* add_edge: update_edge, then assert!(old.is_none()) *)
Definition add_edge (directed notzero debug : bool) (g : mg) (a b w : nat) : res (bool * mg) :=
  rmap (fun '(r, g') => (match r with inr None => true | _ => false end, g'))
       (update_edge directed notzero debug g a b w).
  (* true = returned normally, false = panicked *)

Definition take_cell (g : mg) (p : nat) : res (option nat * mg) :=
  match nth_error (adj g) p with
  | None => Panic
  | Some c => Ok (c, mkMg (upd (adj g) p None) (ncap g) (elems g) (ub g) (removed g) (nbe g))
  end.

(* remove_edge: Ok (None, g') = panicked *)
Definition remove_edge (directed : bool) (g : mg) (a b : nat) : res (option nat * mg) :=
  match to_edge_position directed g a b with
  | None => Ok (None, g)
  | Some p =>
      match nth_error (adj g) p with
      | None => Ok (None, g)
      | Some None => Ok (None, g)
      | Some (Some w) =>
          (* self.nb_edges -= 1 : usize underflow panics in debug only *)
          Ok (Some w, mkMg (upd (adj g) p None) (ncap g) (elems g) (ub g) (removed g) (nbe g - 1))
      end
  end.

Definition try_remove_edge (directed : bool) (g : mg) (a b : nat) : res (option nat * mg) :=
  remove_edge directed g a b.   (* same effect; None means "returned None" there *)

Definition get_edge_weight (directed : bool) (g : mg) (a b : nat) : option nat :=
  match to_edge_position directed g a b with
  | None => None
  | Some p => match nth_error (adj g) p with Some (Some w) => Some w | _ => None end
  end.

Definition has_edge (directed : bool) (g : mg) (a b : nat) : bool :=
  match get_edge_weight directed g a b with Some _ => true | None => false end.

Definition get_node_weight (g : mg) (a : nat) : option nat :=
  match nth_error (elems g) a with Some (Some w) => Some w | _ => None end.

Definition clear (g : mg) : mg :=
  mkMg (map (fun _ => None) (adj g)) (ncap g) [] 0 [] 0.

(* ---- iterators ---- *)
(* Edges::on_columns(row = a): columns 0..cap ; on_rows(column = a): rows 0..cap.
   self.node_adjacencies[p] panics when p is out of range. *)
Fixpoint edges_scan (directed : bool) (g : mg) (by_rows : bool) (fixed : nat) (ks : list nat)
  : res (list (nat * nat * nat)) :=
  match ks with
  | [] => Ok []
  | k :: rest =>
      let '(r, c) := if by_rows then (k, fixed) else (fixed, k) in
      match nth_error (adj g) (lin_pos directed r c (ncap g)) with
      | None => Panic
      | Some cell =>
          rmap (fun tl => match cell with
                          | Some w => (r, c, w) :: tl   (* (source, target, weight), also when walking a column's rows *)
                          | None => tl end)
               (edges_scan directed g by_rows fixed rest)
      end
  end.

Definition edges_of (directed : bool) (g : mg) (a : nat) (incoming : bool) : res (list (nat * nat * nat)) :=
  if Nat.leb (ncap g) a then Ok [] else edges_scan directed g incoming a (seq 0 (ncap g)).

(* EdgeReferences: rows 0..cap, columns 0..cap (directed) or 0..=row (undirected) *)
Definition edge_references (directed : bool) (g : mg) : res (list (nat * nat * nat)) :=
  fold_right (fun r acc =>
      rbind (edges_scan directed g false r (seq 0 (if directed then ncap g else S r))) (fun l =>
      rmap (fun tl => l ++ tl) acc))
    (Ok []) (seq 0 (ncap g)).

(* ---- observation battery ---- *)
Definition TAG_PANIC := 2.  Definition TAG_UNIT := 4.  Definition TAG_COUNTS := 5.
Definition TAG_NAT := 11.   Definition TAG_NONE := 13. Definition TAG_FUEL := 10.
Definition TAG_ERR := 1.    Definition TAG_BOOL := 0.  Definition TAG_NODES := 16.
Definition TAG_EREFS := 8.  Definition TAG_OUT := 17.  Definition TAG_IN := 18.
Definition TAG_HAS := 19.   Definition TAG_LIMIT := 20. Definition TAG_SOME := 21.

Definition flat3 (l : list (nat * nat * nat)) : list Z :=
  flat_map (fun '(a, b, w) => [zn a; zn b; zn w]) l.

Definition rline {A} (f : A -> line) (r : res A) : line :=
  match r with Ok a => f a | Panic => (TAG_PANIC, []) | OutOfFuel => (TAG_FUEL, []) end.

Definition battery (directed : bool) (g : mg) : list line :=
  (TAG_COUNTS, [zn (ids_len g); zn (nbe g); zn (ub g)]) ::
  (TAG_NODES, flat_map (fun i => match get_node_weight g i with
                                 | Some w => [zn i; zn w] | None => [zn i; (-1)%Z] end) (iter_ids g)) ::
  if Nat.ltb 70 (ub g) then [] else   (* the harness does not dump the matrix beyond 70 ids *)
  rline (fun l => (TAG_EREFS, flat3 l)) (edge_references directed g) ::
  flat_map (fun a =>
    rline (fun l => (TAG_OUT, zn a :: flat3 l)) (edges_of directed g a false) ::
    (TAG_HAS, zn a :: zns (filter (fun b => has_edge directed g a b) (seq 0 (ub g)))) ::
    (if directed
     then [rline (fun l => (TAG_IN, zn a :: flat3 l)) (edges_of directed g a true)]
     else [])) (seq 0 (ub g)).

(* opcodes: 0 add_node w | 1 try_add_node w | 2 remove_node a | 3 add_edge a b w | 4 update_edge a b w
            5 try_update_edge a b w | 6 add_or_update_edge a b w | 7 remove_edge a b | 8 try_remove_edge a b
            9 clear | 10 has_edge a b | 11 get_edge_weight a b | 12 get_node_weight a
            13 edges a | 14 edges_directed a incoming *)
Definition opt_line (o : option nat) : line :=
  match o with None => (TAG_NONE, []) | Some w => (TAG_SOME, [zn w]) end.

Definition merr_line (e : merr) : line :=
  match e with NodeIxLimit => (TAG_LIMIT, []) | NodeMissed i => (TAG_ERR, [zn i]) end.

Definition mut {A} (directed : bool) (g : mg) (r : res (A * mg)) (f : A -> line) : mg * list line :=
  match r with
  | Ok (x, g') => (g', f x :: battery directed g')
  | Panic => (g, (TAG_PANIC, []) :: battery directed g)
  | OutOfFuel => (g, [(TAG_FUEL, [])])
  end.

Definition step (directed notzero debug : bool) (cap : nat) (capcheck : bool) (g : mg) (o : line)
  : mg * list line :=
  let '(code, a) := o in
  match code with
  | 0 => mut directed g (add_node cap capcheck g (arg a 0)) (fun i => (TAG_NAT, [zn i]))
  | 1 => mut directed g (try_add_node cap capcheck g (arg a 0))
             (fun r => match r with inl e => merr_line e | inr i => (TAG_NAT, [zn i]) end)
  | 2 => mut directed g (remove_node directed g (arg a 0))
             (fun r => match r with None => (TAG_PANIC, []) | Some w => (TAG_NAT, [zn w]) end)
  | 3 => mut directed g (add_edge directed notzero debug g (arg a 0) (arg a 1) (arg a 2))
             (fun ok => if ok then (TAG_UNIT, []) else (TAG_PANIC, []))
  | 4 => mut directed g (update_edge directed notzero debug g (arg a 0) (arg a 1) (arg a 2))
             (fun r => match r with inl _ => (TAG_PANIC, []) | inr o => opt_line o end)
  | 5 => mut directed g (try_update_edge directed notzero debug g (arg a 0) (arg a 1) (arg a 2))
             (fun r => match r with UPanic => (TAG_PANIC, []) | UErr e => merr_line e | UOld o => opt_line o end)
  | 6 => mut directed g (add_or_update_edge directed notzero debug g (arg a 0) (arg a 1) (arg a 2))
             (fun r => match r with UPanic => (TAG_PANIC, []) | UErr e => merr_line e | UOld o => opt_line o end)
  | 7 => mut directed g (remove_edge directed g (arg a 0) (arg a 1))
             (fun r => match r with None => (TAG_PANIC, []) | Some w => (TAG_NAT, [zn w]) end)
  | 8 => mut directed g (try_remove_edge directed g (arg a 0) (arg a 1)) opt_line
  | 9 => let g' := clear g in (g', (TAG_UNIT, []) :: battery directed g')
  | 10 => (g, [(TAG_BOOL, [zb (has_edge directed g (arg a 0) (arg a 1))])])
  | 11 => (g, [opt_line (get_edge_weight directed g (arg a 0) (arg a 1))])
  | 12 => (g, [opt_line (get_node_weight g (arg a 0))])
  | 13 => (g, [rline (fun l => (TAG_OUT, zn (arg a 0) :: flat3 l)) (edges_of directed g (arg a 0) false)])
  | 14 => (g, [rline (fun l => (TAG_IN, zn (arg a 0) :: flat3 l))
                     (edges_of directed g (arg a 0) (Nat.eqb (arg a 1) 1))])
  | _ => (g, [(TAG_PANIC, [])])
  end.

Fixpoint run (directed notzero debug : bool) (cap : nat) (capcheck : bool) (g : mg) (ops : list line)
  : list (list line) :=
  match ops with
  | [] => []
  | o :: rest =>
      let '(g', ls) := step directed notzero debug cap capcheck g o in
      ls :: run directed notzero debug cap capcheck g' rest
  end.

(* header = [directed; notzero; debug; cap; capcheck; with_capacity k] *)
Definition run_case (header : list Z) (ops : list line) : list (list line) :=
  let directed := Z.eqb (argz header 0) 1 in
  let debug := Z.eqb (argz header 2) 1 in
  match with_capacity directed debug (arg header 5) with
  | Ok g => run directed (Z.eqb (argz header 1) 1) debug (arg header 3) (Z.eqb (argz header 4) 1) g ops
  | _ => [[(TAG_PANIC, [])]]
  end.
