(* Executable mirror of /repo/src/unionfind.rs.  No proofs in this file. *)
From PG Require Import Lib.ListArr.

Record uf := mkUf { parent : list nat; rank : list nat }.

Definition uf_len (u : uf) : nat := length (parent u).

(* UnionFind::new(n): parent = (0..n), rank = [0; n]. *)
Definition uf_new (n : nat) : uf := mkUf (seq 0 n) (repeat 0 n).

(* new_set: retval = K::new(len); rank.push(0); parent.push(retval). *)
Definition new_set (u : uf) : nat * uf :=
  (uf_len u, mkUf (parent u ++ [uf_len u]) (rank u ++ [0])).

(* The loop of try_find: follow parent links until a fixed point.  The
   `get_unchecked` is modelled by its checked meaning: out of range = Panic. *)
Fixpoint find_loop (fuel : nat) (p : list nat) (x : nat) : res nat :=
  match fuel with
  | 0 => OutOfFuel
  | S f =>
      match nth_error p x with
      | None => Panic
      | Some px => if Nat.eqb px x then Ok x else find_loop f p px
      end
  end.

Definition try_find (u : uf) (x : nat) : res (option nat) :=
  if Nat.leb (uf_len u) x then Ok None
  else rmap Some (find_loop (uf_len u) (parent u) x).

(* find = try_find(x).expect(..) *)
Definition find (u : uf) (x : nat) : res nat :=
  rbind (try_find u x) (fun o => match o with Some r => Ok r | None => Panic end).

(* find_mut_recursive: path halving.
     let mut parent = p[x];
     while parent != x { let gp = p[parent]; p[x] = gp; x = parent; parent = gp; } x *)
Fixpoint halve_loop (fuel : nat) (p : list nat) (x par : nat) : res (nat * list nat) :=
  match fuel with
  | 0 => OutOfFuel
  | S f =>
      if Nat.eqb par x then Ok (x, p)
      else match nth_error p par with
           | None => Panic
           | Some gp =>
               if Nat.ltb x (length p) then halve_loop f (upd p x gp) par gp else Panic
           end
  end.

Definition find_mut_rec (p : list nat) (x : nat) : res (nat * list nat) :=
  match nth_error p x with
  | None => Panic
  | Some par => halve_loop (S (length p)) p x par
  end.

Definition try_find_mut (u : uf) (x : nat) : res (option nat * uf) :=
  if Nat.leb (uf_len u) x then Ok (None, u)
  else rmap (fun '(r, p) => (Some r, mkUf p (rank u))) (find_mut_rec (parent u) x).

(* find_mut: assert!(x < len); find_mut_recursive(x) *)
Definition find_mut (u : uf) (x : nat) : res (nat * uf) :=
  if Nat.leb (uf_len u) x then Panic
  else rmap (fun '(r, p) => (r, mkUf p (rank u))) (find_mut_rec (parent u) x).

(* Result<bool, K> *)
Inductive rbk := RB (b : bool) | RErr (k : nat).

Definition try_equiv (u : uf) (x y : nat) : res rbk :=
  rbind (try_find u x) (fun ox =>
    match ox with
    | None => Ok (RErr x)
    | Some xr =>
        rbind (try_find u y) (fun oy =>
          match oy with
          | None => Ok (RErr y)
          | Some yr => Ok (RB (Nat.eqb xr yr))
          end)
    end).

(* equiv = self.find(x) == self.find(y) *)
Definition equiv (u : uf) (x y : nat) : res bool :=
  rbind (find u x) (fun xr => rbind (find u y) (fun yr => Ok (Nat.eqb xr yr))).

(* try_union.  The structure is returned also on the error paths because
   try_find_mut(x) has already compressed x's path when y turns out to be bad. *)
Definition try_union (u : uf) (x y : nat) : res (rbk * uf) :=
  if Nat.eqb x y then Ok (RB false, u)
  else
    rbind (try_find_mut u x) (fun '(ox, u1) =>
      match ox with
      | None => Ok (RErr x, u1)
      | Some xr =>
          rbind (try_find_mut u1 y) (fun '(oy, u2) =>
            match oy with
            | None => Ok (RErr y, u2)
            | Some yr =>
                if Nat.eqb xr yr then Ok (RB false, u2)
                else
                  match nth_error (rank u2) xr, nth_error (rank u2) yr with
                  | Some xk, Some yk =>
                      if Nat.ltb xk yk then
                        Ok (RB true, mkUf (upd (parent u2) xr yr) (rank u2))
                      else if Nat.ltb yk xk then
                        Ok (RB true, mkUf (upd (parent u2) yr xr) (rank u2))
                      else
                        Ok (RB true, mkUf (upd (parent u2) yr xr) (upd (rank u2) xr (S xk)))
                  | _, _ => Panic
                  end
            end)
      end).

(* union = try_union(x, y).unwrap(): panics on Err, but the structure it
   leaves behind (observable after catch_unwind) is the one try_union left. *)
Definition union (u : uf) (x y : nat) : res bool * uf :=
  match try_union u x y with
  | Ok (RB b, u') => (Ok b, u')
  | Ok (RErr _, u') => (Panic, u')
  | Panic => (Panic, u)
  | OutOfFuel => (OutOfFuel, u)
  end.

(* into_labeling: for ix in 0..len { k = p[ix]; r = find_mut_recursive(k); p[ix] = r } *)
Fixpoint label_loop (todo : nat) (ix : nat) (p : list nat) : res (list nat) :=
  match todo with
  | 0 => Ok p
  | S t =>
      match nth_error p ix with
      | None => Panic
      | Some k =>
          rbind (find_mut_rec p k) (fun '(r, p1) => label_loop t (S ix) (upd p1 ix r))
      end
  end.

Definition into_labeling (u : uf) : res (list nat) :=
  label_loop (uf_len u) 0 (parent u).

(* ---- operation histories ---- *)

Inductive op :=
| ONewSet
| OFind (x : nat) | OFindMut (x : nat) | OTryFind (x : nat) | OTryFindMut (x : nat)
| OEquiv (x y : nat) | OTryEquiv (x y : nat)
| OUnion (x y : nat) | OTryUnion (x y : nat)
| OLabeling          (* clone().into_labeling() *)
| OLen
| OCapacity.         (* reserve / shrink_to_fit / ... : identity on the model *)

Inductive out :=
| VNat (n : nat)
| VOpt (o : option nat)
| VBool (b : bool)
| VRbk (r : rbk)
| VList (l : list nat)
| VUnit
| VPanic
| VFuel.

Definition out_of {A} (f : A -> out) (r : res A) : out :=
  match r with Ok a => f a | Panic => VPanic | OutOfFuel => VFuel end.

Definition step (u : uf) (o : op) : uf * out :=
  match o with
  | ONewSet => let '(k, u') := new_set u in (u', VNat k)
  | OFind x => (u, out_of VNat (find u x))
  | OTryFind x => (u, out_of VOpt (try_find u x))
  | OFindMut x =>
      match find_mut u x with
      | Ok (r, u') => (u', VNat r)
      | Panic => (u, VPanic)
      | OutOfFuel => (u, VFuel)
      end
  | OTryFindMut x =>
      match try_find_mut u x with
      | Ok (o, u') => (u', VOpt o)
      | Panic => (u, VPanic)
      | OutOfFuel => (u, VFuel)
      end
  | OEquiv x y => (u, out_of VBool (equiv u x y))
  | OTryEquiv x y => (u, out_of VRbk (try_equiv u x y))
  | OUnion x y => let '(r, u') := union u x y in (u', out_of VBool r)
  | OTryUnion x y =>
      match try_union u x y with
      | Ok (r, u') => (u', VRbk r)
      | Panic => (u, VPanic)
      | OutOfFuel => (u, VFuel)
      end
  | OLabeling => (u, out_of VList (into_labeling u))
  | OLen => (u, VNat (uf_len u))
  | OCapacity => (u, VUnit)
  end.

Fixpoint run (u : uf) (ops : list op) : uf * list out :=
  match ops with
  | [] => (u, [])
  | o :: rest =>
      let '(u1, v) := step u o in
      let '(u2, vs) := run u1 rest in
      (u2, v :: vs)
  end.

Definition final (n0 : nat) (ops : list op) : uf := fst (run (uf_new n0) ops).
