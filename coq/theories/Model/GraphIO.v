(* Operation decoding and the observation battery for the Graph model (weights = numbers). *)
From PG Require Import Lib.Io Model.GraphM.

Definition G := graph nat nat.

Definition TAG_BOOL := 0.   Definition TAG_ERR := 1.   Definition TAG_PANIC := 2.  Definition TAG_IDX := 3.
Definition TAG_UNIT := 4.   Definition TAG_COUNTS := 5. Definition TAG_FUEL := 10. Definition TAG_NAT := 11.
Definition TAG_NONE := 13.  Definition TAG_PAIR := 14. Definition TAG_LIMIT := 20. Definition TAG_SOME := 21.
Definition TAG_NBO := 23.   Definition TAG_NBI := 24.  Definition TAG_EDO := 26.   Definition TAG_EDI := 27.
Definition TAG_NW := 9.     Definition TAG_EL := 30.   Definition TAG_NBU := 31.   Definition TAG_EXTO := 32.
Definition TAG_EXTI := 33.  Definition TAG_ELIMIT := 34. Definition TAG_OOB := 35.  Definition TAG_WALK := 36.
Definition TAG_ECONN := 37. Definition TAG_MISSED := 38.

Definition rline {A} (f : A -> line) (r : res A) : line :=
  match r with Ok a => f a | Panic => (TAG_PANIC, []) | OutOfFuel => (TAG_FUEL, []) end.

Definition flat_eref (l : list (nat * (nat * nat) * nat)) : list Z :=
  flat_map (fun '(i, (s, t), w) => [zn i; zn s; zn t; zn w]) l.

Section B.
  Variable cap : nat.
  Variable capcheck debug : bool.

  Definition battery (directed : bool) (g : G) : list line :=
    (TAG_COUNTS, [zn (node_count g); zn (edge_count g)]) ::
    (TAG_NW, map (fun n => zn (nwt n)) (gnodes g)) ::
    (TAG_EL, flat_map (fun e => [zn (fst (enode e)); zn (snd (enode e)); zn (ewt e)]) (gedges g)) ::
    (TAG_EXTO, zns (externals cap directed g 0)) ::
    (TAG_EXTI, zns (externals cap directed g 1)) ::
    flat_map (fun a =>
      [rline (fun l => (TAG_NBO, zn a :: zns (map snd l))) (neighbors_directed cap directed g a 0);
       rline (fun l => (TAG_NBI, zn a :: zns (map snd l))) (neighbors_directed cap directed g a 1);
       rline (fun l => (TAG_NBU, zn a :: zns (map snd l))) (neighbors_undirected cap g a);
       rline (fun l => (TAG_EDO, zn a :: flat_eref l)) (edges_directed cap directed g a 0);
       rline (fun l => (TAG_EDI, zn a :: flat_eref l)) (edges_directed cap directed g a 1)])
      (seq 0 (node_count g)).

  Definition gerr_line (e : gerr) : line :=
    match e with
    | NodeIxLimit => (TAG_LIMIT, [])
    | EdgeIxLimit => (TAG_ELIMIT, [])
    | NodeMissed i => (TAG_MISSED, [zn i])
    | NodeOutBounds => (TAG_OOB, [])
    end.

  Definition res_idx_line (panicking : bool) (r : gerr + nat) : line :=
    match r with
    | inr i => (TAG_IDX, [zn i])
    | inl e => if panicking then (TAG_PANIC, []) else gerr_line e
    end.

  Fixpoint triples (l : list Z) : list (nat * nat * nat) :=
    match l with
    | a :: b :: w :: rest => (nz a, nz b, nz w) :: triples rest
    | _ => []
    end.

  Definition keepmod (m r : nat) (w : nat) : bool := negb (Nat.eqb (Nat.modulo w m) r).

  Definition opt_nat_line (o : option nat) : line :=
    match o with None => (TAG_NONE, []) | Some w => (TAG_SOME, [zn w]) end.

  (* state: (directed, graph) because into_edge_type changes the edge type *)
  Definition st := (bool * G)%type.

  Definition with_battery (d : bool) (g : G) (l : line) : st * list line := ((d, g), l :: battery d g).

  Definition step (s : st) (o : line) : st * list line :=
    let '(d, g) := s in
    let '(code, a) := o in
    match code with
    | 0 | 1 => let '(r, g') := try_add_node cap capcheck g (arg a 0) in
               with_battery d g' (res_idx_line (Nat.eqb code 0) r)
    | 2 | 3 => let '(r, g') := try_add_edge cap capcheck g (arg a 0) (arg a 1) (arg a 2) in
               with_battery d g' (res_idx_line (Nat.eqb code 2) r)
    | 4 | 5 => match try_update_edge cap capcheck d g (arg a 0) (arg a 1) (arg a 2) with
               | Ok (r, g') => with_battery d g' (res_idx_line (Nat.eqb code 4) r)
               | Panic => (s, [(TAG_PANIC, [])])
               | OutOfFuel => (s, [(TAG_FUEL, [])])
               end
    | 6 => match remove_node cap debug g (arg a 0) with
           | Ok (r, g') => with_battery d g' (opt_nat_line r)
           | Panic => (s, [(TAG_PANIC, [])])
           | OutOfFuel => (s, [(TAG_FUEL, [])])
           end
    | 7 => match remove_edge debug g (arg a 0) with
           | Ok (r, g') => with_battery d g' (opt_nat_line r)
           | Panic => (s, [(TAG_PANIC, [])])
           | OutOfFuel => (s, [(TAG_FUEL, [])])
           end
    | 8 => with_battery d (reverse g) (TAG_UNIT, [])
    | 9 => with_battery d g_empty (TAG_UNIT, [])
    | 10 => with_battery d (clear_edges cap g) (TAG_UNIT, [])
    | 11 => match retain_nodes cap debug (keepmod (arg a 0) (arg a 1)) g with
            | Ok g' => with_battery d g' (TAG_UNIT, [])
            | Panic => (s, [(TAG_PANIC, [])])
            | OutOfFuel => (s, [(TAG_FUEL, [])])
            end
    | 12 => match retain_edges debug (keepmod (arg a 0) (arg a 1)) g with
            | Ok g' => with_battery d g' (TAG_UNIT, [])
            | Panic => (s, [(TAG_PANIC, [])])
            | OutOfFuel => (s, [(TAG_FUEL, [])])
            end
    | 13 => let '(ok, g') := extend_with_edges cap capcheck 0 g (triples a) in
            with_battery d g' (if ok then (TAG_UNIT, []) else (TAG_PANIC, []))
    | 14 => match filter_map cap capcheck
                    (fun _ w => if keepmod (arg a 0) (arg a 1) w then Some (S w) else None)
                    (fun _ w => if keepmod (arg a 2) (arg a 3) w then Some (S w) else None) g with
            | Some g' => with_battery d g' (TAG_UNIT, [])
            | None => (s, [(TAG_PANIC, [])])
            end
    | 15 => with_battery (negb d) g (TAG_UNIT, [])
    | 16 => match set_node_weight g (arg a 0) (arg a 1) with
            | Some g' => with_battery d g' (TAG_BOOL, [1%Z])
            | None => with_battery d g (TAG_BOOL, [0%Z])
            end
    | 17 => match set_edge_weight g (arg a 0) (arg a 1) with
            | Some g' => with_battery d g' (TAG_BOOL, [1%Z])
            | None => with_battery d g (TAG_BOOL, [0%Z])
            end
    | 18 => (s, [opt_nat_line (option_map (@nwt nat) (nth_error (gnodes g) (arg a 0)))])
    | 19 => (s, [opt_nat_line (option_map (@ewt nat) (nth_error (gedges g) (arg a 0)))])
    | 20 => (s, [match nth_error (gedges g) (arg a 0) with
                 | None => (TAG_NONE, [])
                 | Some e => (TAG_PAIR, [zn (fst (enode e)); zn (snd (enode e))]) end])
    | 21 => (s, [rline opt_nat_line (find_edge d g (arg a 0) (arg a 1))])
    | 22 => (s, [rline (fun o => match o with None => (TAG_NONE, [])
                                             | Some (e, k) => (TAG_PAIR, [zn e; zn k]) end)
                       (find_edge_undirected g (arg a 0) (arg a 1))])
    | 23 => (s, [rline (fun l => (TAG_ECONN, flat_eref l)) (edges_connecting cap d g (arg a 0) (arg a 1))])
    | 24 => (s, [opt_nat_line (first_edge cap g (arg a 0) (arg a 1))])
    | 25 => (s, [opt_nat_line (next_edge cap g (arg a 0) (arg a 1))])
    | 26 => (* neighbors_directed(a, k).detach() walked to the end: (edge, node) pairs *)
            (s, [rline (fun l => (TAG_WALK, flat_map (fun '(e, n) => [zn e; zn n]) l))
                       (neighbors_directed cap d g (arg a 0) (arg a 1))])
    | 27 => with_battery d (mkGraph (map (fun n => mkNode (S (nwt n)) (nnext n)) (gnodes g))
                                    (map (fun e => mkEdge (S (ewt e)) (enext e) (enode e)) (gedges g)))
                         (TAG_UNIT, [])
    | _ => (s, [(TAG_PANIC, [])])
    end.

  Fixpoint run (s : st) (ops : list line) : list (list line) :=
    match ops with
    | [] => []
    | o :: rest => let '(s', ls) := step s o in ls :: run s' rest
    end.
End B.

(* header = [directed; debug; cap; capcheck] *)
Definition run_case (header : list Z) (ops : list line) : list (list line) :=
  run (arg header 2) (Z.eqb (argz header 3) 1) (Z.eqb (argz header 1) 1)
      (Z.eqb (argz header 0) 1, g_empty) ops.
