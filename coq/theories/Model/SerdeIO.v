(* C17 streams: Graph / StableGraph histories (the C01 / C02 operations) plus the serde operations. *)
From PG Require Import Lib.Io Model.GraphM Model.GraphIO Model.StableM Model.StableIO Model.SerdeM.

Definition TAG_WIRE := 57. Definition TAG_ERR := 1. Definition TAG_UNIT := 4. Definition TAG_ROBUST := 58.

Section G.
  Variable cap : nat.
  Variable capcheck debug : bool.

  (* opcodes >= 40: 40 ser | 41 deser <wire> | 42 xload (load own stream as the other type) | 43 roundtrip
     44 bytemut seed (byte-level mutation of the JSON / bincode streams: judged inside the harness) *)
  Definition gstep (s : GraphIO.st) (o : line) : GraphIO.st * list line :=
    let '(d, g) := s in
    let '(code, a) := o in
    match code with
    | 40 => (s, [(TAG_WIRE, wire_nums (ser_graph d g))])
    | 41 => match deser_graph cap capcheck d (wire_of_nums a) with
            | Some g' => ((d, g'), (TAG_UNIT, []) :: GraphIO.battery cap d g')
            | None => (s, [(TAG_ERR, [])])
            end
    | 42 => (s, match deser_stable cap capcheck d (ser_graph d g) with
                | Ok (Some s') => (TAG_UNIT, []) :: StableIO.battery cap d s'
                | Ok None => [(TAG_ERR, [])]
                | _ => [(2, [])]
                end)
    | 43 => match deser_graph cap capcheck d (ser_graph d g) with
            | Some g' => ((d, g'), (TAG_UNIT, []) :: GraphIO.battery cap d g')
            | None => (s, [(TAG_ERR, [])])
            end
    | 44 => (s, [(TAG_ROBUST, [])])
    | _ => GraphIO.step cap capcheck debug s o
    end.

  Fixpoint grun (s : GraphIO.st) (ops : list line) : list (list line) :=
    match ops with [] => [] | o :: rest => let '(s', ls) := gstep s o in ls :: grun s' rest end.

  Definition sstep (d : bool) (s : sgraph) (o : line) : sgraph * list line :=
    let '(code, a) := o in
    match code with
    | 40 => (s, [(TAG_WIRE, wire_nums (ser_stable d s))])
    | 41 => match deser_stable cap capcheck d (wire_of_nums a) with
            | Ok (Some s') => (s', (TAG_UNIT, []) :: StableIO.battery cap d s')
            | Ok None => (s, [(TAG_ERR, [])])
            | _ => (s, [(2, [])])
            end
    | 42 => (s, match deser_graph cap capcheck d (ser_stable d s) with
                | Some g' => (TAG_UNIT, []) :: GraphIO.battery cap d g'
                | None => [(TAG_ERR, [])]
                end)
    | 43 => match deser_stable cap capcheck d (ser_stable d s) with
            | Ok (Some s') => (s', (TAG_UNIT, []) :: StableIO.battery cap d s')
            | Ok None => (s, [(TAG_ERR, [])])
            | _ => (s, [(2, [])])
            end
    | 44 => (s, [(TAG_ROBUST, [])])
    | _ => StableIO.step cap capcheck debug d s o
    end.

  Fixpoint srun (d : bool) (s : sgraph) (ops : list line) : list (list line) :=
    match ops with [] => [] | o :: rest => let '(s', ls) := sstep d s o in ls :: srun d s' rest end.
End G.

(* header = [directed; debug; cap; capcheck] *)
Definition run_case_g (header : list Z) (ops : list line) : list (list line) :=
  grun (arg header 2) (Z.eqb (argz header 3) 1) (Z.eqb (argz header 1) 1)
       (Z.eqb (argz header 0) 1, g_empty) ops.
Definition run_case_s (header : list Z) (ops : list line) : list (list line) :=
  srun (arg header 2) (Z.eqb (argz header 3) 1) (Z.eqb (argz header 1) 1)
       (Z.eqb (argz header 0) 1) (sg_empty (arg header 2)) ops.
