(* Executable mirror of /repo/src/graph6/graph6_encoder.rs and graph6_decoder.rs.  No proofs here. *)
From Coq Require Import NArith.
From PG Require Import Lib.Io.

(* get_number_as_bits(n, len): for i in (0..len).rev() { (n >> i) & 1 } *)
Fixpoint number_bits (len : nat) (n : N) : list bool :=
  match len with
  | 0 => []
  | S k => N.testbit n (N.of_nat k) :: number_bits k n
  end.

(* get_graph_order_as_bits *)
Definition order_bits (n : N) : res (list bool) :=
  if (n <? 63)%N then Ok (number_bits 6 n)
  else if (n <=? 258047)%N then Ok (number_bits 6 63 ++ number_bits 18 n)
  else Panic.

(* bits_to_ascii: pad with zeros to a multiple of 6, chunks(6), from_str_radix(_, 2), + 63 *)
Fixpoint pad_loop (fuel : nat) (l : list bool) : list bool :=
  match fuel with
  | 0 => l
  | S f => if Nat.eqb (Nat.modulo (length l) 6) 0 then l else pad_loop f (l ++ [false])
  end.

Fixpoint radix2 (l : list bool) (acc : N) : N :=
  match l with [] => acc | b :: t => radix2 t (2 * acc + (if b then 1 else 0))%N end.

Fixpoint chunks6 (fuel : nat) (l : list bool) : list (list bool) :=
  match fuel with
  | 0 => []
  | S f => match l with [] => [] | _ => firstn 6 l :: chunks6 f (skipn 6 l) end
  end.

Definition bits_to_ascii (bits : list bool) : list N :=
  let p := pad_loop 6 bits in
  map (fun c => (63 + radix2 c 0)%N) (chunks6 (S (length p)) p).

(* get_graph6_representation: order bits ++ upper-diagonal bits (as produced by the adjacency sweep) *)
Definition encode (n : N) (upper : list bool) : res (list N) :=
  rmap (fun ob => bits_to_ascii (ob ++ upper)) (order_bits n).

(* ---- decoder ---- *)
(* (c as usize) - 63 : underflow panics in debug builds *)
Definition unbias (debug : bool) (c : N) : res N :=
  if (c <? 63)%N then (if debug then Panic else Ok (c + 18446744073709551616 - 63)%N) else Ok (c - 63)%N.

Fixpoint unbias_all (debug : bool) (l : list N) : res (list N) :=
  match l with
  | [] => Ok []
  | c :: t => rbind (unbias debug c) (fun x => rmap (cons x) (unbias_all debug t))
  end.

Definition split_order (bytes : list N) : res (list N * list N) :=
  match bytes with
  | [] => Panic                                    (* bytes.first().unwrap() *)
  | first :: rest =>
      if (first =? 63)%N then
        if Nat.leb 3 (length rest) then Ok (firstn 3 rest, skipn 3 rest) else Panic   (* bytes[1..=3], bytes[4..] *)
      else Ok ([first], rest)
  end.

Definition bytes_bits (bytes : list N) : list bool := flat_map (number_bits 6) bytes.

(* for col in 1..order { for lin in 0..col { if bits[i] == 1 { push (lin, col) } i += 1 } } *)
Fixpoint get_edges (pairs : list (nat * nat)) (bits : list bool) : res (list (nat * nat)) :=
  match pairs with
  | [] => Ok []
  | p :: rest =>
      match bits with
      | [] => Panic                                (* index out of bounds *)
      | b :: bt => rmap (fun tl => if b then p :: tl else tl) (get_edges rest bt)
      end
  end.

Definition upper_pairs (n : nat) : list (nat * nat) :=
  flat_map (fun col => map (fun lin => (lin, col)) (seq 0 col)) (seq 1 (n - 1)).

Definition decode (debug : bool) (s : list N) : res (nat * list (nat * nat)) :=
  rbind (unbias_all debug s) (fun bytes =>
  rbind (split_order bytes) (fun '(ob, ab) =>
    let order := N.to_nat (radix2 (bytes_bits ob) 0) in
    rmap (fun es => (order, es)) (get_edges (upper_pairs order) (bytes_bits ab)))).

(* ---- line grammar ----
   opcode 0: g6 n b b b ...  -> bytes      | opcode 1: g6d c c c ... -> dec order lin col lin col ... *)
Definition TAG_BYTES := 54. Definition TAG_DEC := 55.
Definition rline {A} (f : A -> line) (r : res A) : line :=
  match r with Ok a => f a | Panic => (2, []) | OutOfFuel => (10, []) end.

Definition step (debug : bool) (o : line) : list line :=
  let '(code, a) := o in
  match code with
  | 0 => [rline (fun l => (TAG_BYTES, map Z.of_N l))
                (encode (Z.to_N (argz a 0)) (map (fun z => Z.eqb z 1) (tl a)))]
  | 1 => [rline (fun '(n, es) => (TAG_DEC, zn n :: flat_map (fun '(l, c) => [zn l; zn c]) es))
                (decode debug (map Z.to_N a))]
  | _ => [(2, [])]
  end.

(* header = [debug; type code] *)
Definition run_case (header : list Z) (ops : list line) : list (list line) :=
  map (step (Z.eqb (argz header 0) 1)) ops.
