(* One dispatcher for every view-based stream: build the view from its dump, then answer queries. *)
From PG Require Import Lib.Io Model.View Model.Traversal Model.AlgoBasic Model.ShortestM Model.MstM Model.CondenseM Model.MatchM Model.FlowM Model.CutM Model.TravExtra Model.MiscM Model.PageRankM Model.DsaturM Model.FasM Model.SteinerM Model.CliqueM.

Definition answer (debug : bool) (v : view) (o : line) : list line :=
  let code := fst o in
  if Nat.eqb code 19 then dpo_reset_query v o
  else if Nat.ltb code 20 then trav_query debug v o
  else if Nat.eqb code 29 then cond_query v o
  else if Nat.ltb code 30 then algo_query debug v o
  else if Nat.ltb code 40 then short_query v o
  else if Nat.ltb code 42 then mst_query v o
  else if Nat.eqb code 42 then algo_query debug v (22, snd o)     (* toposort with a DfsSpace::default(): same answer *)
  else if Nat.eqb code 43 then algo_query debug v (25, snd o)     (* has_path_connecting with a DfsSpace::default() *)
  else if Nat.ltb code 50 then [(2, [])]
  else if Nat.ltb code 52 then match_query debug v o
  else if Nat.eqb code 52 then flow_query v o
  else if Nat.ltb code 55 then cut_query debug v o
  else if Nat.ltb code 60 then [(2, [])]
  else if Nat.eqb code 60 then cliques_query v
  else if Nat.eqb code 61 then dsatur_query v o
  else if Nat.eqb code 62 then fas_query v o
  else if Nat.eqb code 65 then steiner_query v o
  else if Nat.ltb code 66 then misc_query debug v o
  else if Nat.eqb code 66 then []      (* page_rank: floating point, judged outside the model *)
  else if Nat.eqb code 67 then prank_query v o
  else [(2, [])].

Fixpoint run (debug : bool) (v : view) (ops : list line) : list (list line) :=
  match ops with
  | [] => []
  | o :: rest =>
      if Nat.eqb (fst o) 9 then [] :: run debug (view_init (snd o)) rest     (* C07: the next encoding's view starts *)
      else if Nat.ltb (fst o) 10 then [] :: run debug (view_add v o) rest
      else answer debug v o :: run debug v rest
  end.

(* header = [directed; node_bound; visit_cap; edge_count; edge_bound; debug; encoding ...] *)
Definition run_case (header : list Z) (ops : list line) : list (list line) :=
  run (Z.eqb (argz header 5) 1) (view_init header) ops.
