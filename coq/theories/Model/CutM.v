(* Executable mirrors of src/algo/dominators.rs (simple_fast + the Dominators accessors) and
   src/algo/articulation_points.rs over a view.  Hash maps are association lists in insertion order
   (the results do not depend on the order; the harness sorts what the code leaves unordered).
   No proofs in this file. *)
From PG Require Import Lib.Io Model.View Model.Traversal Model.MatchM.

(* ---------------------------------------------------------------- dominators::simple_fast *)
Fixpoint index_of (x : nat) (l : list nat) (i : nat) : option nat :=
  match l with [] => None | y :: t => if Nat.eqb y x then Some i else index_of x t (S i) end.

Definition add_set (x : nat) (l : list nat) : list nat := if mem x l then l else l ++ [x].

(* predecessor_sets: successor -> nodes of the post order that have an edge to it *)
Definition add_pred (m : list (nat * list nat)) (succ node : nat) : list (nat * list nat) :=
  match assoc_nat m succ with
  | Some _ => map (fun '(k, l) => if Nat.eqb k succ then (k, add_set node l) else (k, l)) m
  | None => m ++ [(succ, [node])]
  end.

Definition pred_sets (v : view) (post_order : list nat) : list (nat * list nat) :=
  fold_left (fun m node => fold_left (fun m' s => add_pred m' s node) (neighbors v node) m) post_order [].

Fixpoint intersect (fuel : nat) (doms : list (option nat)) (f1 f2 : nat) : res nat :=
  match fuel with
  | 0 => OutOfFuel
  | S f =>
      if Nat.ltb f1 f2 then rbind (getp doms f1) (fun d => match d with Some x => intersect f doms x f2 | None => Panic end)
      else if Nat.ltb f2 f1 then rbind (getp doms f2) (fun d => match d with Some x => intersect f doms f1 x | None => Panic end)
      else Ok f1
  end.

(* one sweep in reverse post order, skipping the root (the last index) *)
Fixpoint dom_sweep (len : nat) (preds : list (list nat)) (idxs : list nat) (doms : list (option nat)) (changed : bool)
  : res (list (option nat) * bool) :=
  match idxs with
  | [] => Ok (doms, changed)
  | idx :: rest =>
      rbind (getp preds idx) (fun ps =>
        let defined := filter (fun p => match nth_error doms p with Some (Some _) => true | _ => false end) ps in
        match defined with
        | [] => Panic        (* expect(...): every reachable non-root node has a processed predecessor *)
        | p0 :: more =>
            rbind (fold_left (fun acc p => rbind acc (fun cur => intersect (S (S (len + len))) doms cur p)) more (Ok p0)) (fun nw =>
            rbind (getp doms idx) (fun old =>
              if match old with Some o => Nat.eqb o nw | None => false end
              then dom_sweep len preds rest doms changed
              else rbind (setp doms idx (Some nw)) (fun doms' => dom_sweep len preds rest doms' true)))
        end)
  end.

Fixpoint dom_fix (fuel : nat) (len : nat) (preds : list (list nat)) (doms : list (option nat)) : res (list (option nat)) :=
  match fuel with
  | 0 => OutOfFuel
  | S f =>
      rbind (dom_sweep len preds (rev (seq 0 (len - 1))) doms false) (fun '(doms', changed) =>
        if changed then dom_fix f len preds doms' else Ok doms')
  end.

(* the (node, immediate dominator) map in post order; the root maps to itself *)
Definition simple_fast (v : view) (root : nat) (debug : bool) : res (list (nat * nat)) :=
  rbind (dpo_drain (4 * trav_fuel v + 4) v (mkDpo [root] [] [])) (fun '(post_order, _) =>
    let len := length post_order in
    if andb debug (orb (Nat.eqb len 0) (negb (Nat.eqb (last post_order root) root))) then Panic
    else if Nat.eqb len 0 then Panic      (* dominators[length - 1]: index out of bounds *)
    else
      let psets := pred_sets v post_order in
      rbind (fold_right (fun node acc =>
                           rbind acc (fun tl =>
                             match assoc_nat psets node with
                             | None => Ok ([] :: tl)
                             | Some ps =>
                                 rmap (fun l => l :: tl)
                                      (fold_right (fun p a => rbind a (fun t =>
                                                     match index_of p post_order 0 with
                                                     | Some i => Ok (i :: t) | None => Panic end)) (Ok []) ps)
                             end)) (Ok []) post_order) (fun preds =>
      rbind (setp (repeat None len) (len - 1) (Some (len - 1))) (fun doms0 =>
      rbind (dom_fix (S (S len)) len preds doms0) (fun doms =>
        if andb debug (existsb (fun d => match d with None => true | Some _ => false end) doms) then Panic
        else
          fold_right (fun '(node, d) acc =>
                        rbind acc (fun tl =>
                          match d with
                          | Some di => rmap (fun dn => (node, dn) :: tl) (getp post_order di)
                          | None => Panic      (* post_order[usize::MAX] *)
                          end)) (Ok []) (combine post_order doms))))).

(* ---- Dominators accessors over the (node -> idom) map ---- *)
Definition immediate_dominator (root : nat) (m : list (nat * nat)) (x : nat) : option nat :=
  if Nat.eqb x root then None else assoc_nat m x.

Fixpoint dom_chain (fuel : nat) (root : nat) (m : list (nat * nat)) (cur : option nat) : list nat :=
  match fuel with
  | 0 => []
  | S f => match cur with None => [] | Some x => x :: dom_chain f root m (immediate_dominator root m x) end
  end.

Definition dominators_of (root : nat) (m : list (nat * nat)) (x : nat) : option (list nat) :=
  match assoc_nat m x with Some _ => Some (dom_chain (S (length m)) root m (Some x)) | None => None end.
Definition strict_dominators_of (root : nat) (m : list (nat * nat)) (x : nat) : option (list nat) :=
  match assoc_nat m x with Some _ => Some (dom_chain (S (length m)) root m (immediate_dominator root m x)) | None => None end.
Definition immediately_dominated_by (m : list (nat * nat)) (x : nat) : list nat :=
  map fst (filter (fun '(k, d) => andb (Nat.eqb d x) (negb (Nat.eqb d k))) m).

(* ---------------------------------------------------------------- articulation_points *)
Inductive rstep := BaseStep (n : nat) | ProcessChild (c ch : nat) | NoBackEdge (c ch : nat) | RootCheck (n : nat).

Record apt := mkApt {
  a_vis : list bool; a_low : list (option nat); a_disc : list (option nat); a_parent : list (option nat);
  a_time : nat; a_pts : list nat
}.

Definition omin (a b : option nat) : option nat :=     (* usize::MAX = None *)
  match a, b with
  | Some x, Some y => Some (Nat.min x y)
  | Some x, None => Some x
  | None, y => y
  end.
Definition oge (a b : option nat) : bool :=            (* a >= b with None = usize::MAX *)
  match a, b with
  | None, _ => true
  | Some _, None => false
  | Some x, Some y => Nat.leb y x
  end.

Definition bump (m : list (nat * nat)) (k : nat) : list (nat * nat) :=
  match assoc_nat m k with
  | Some _ => map (fun '(k', c) => if Nat.eqb k' k then (k', S c) else (k', c)) m
  | None => m ++ [(k, 1)]
  end.

Fixpoint ap_loop (fuel : nat) (v : view) (stack : list rstep) (cc : list (nat * nat)) (t : apt) : res apt :=
  match fuel with
  | 0 => OutOfFuel
  | S f =>
      match stack with
      | [] => Ok t
      | BaseStep cur :: rest =>
          rbind (setp (a_vis t) cur true) (fun vis' =>           (* FixedBitSet::insert panics out of range *)
          rbind (setp (a_disc t) cur (Some (a_time t))) (fun disc' =>
          rbind (setp (a_low t) cur (Some (a_time t))) (fun low' =>
            let pushes := map (fun ch => ProcessChild cur ch) (neighbors v cur) in
            ap_loop f v (rev pushes ++ RootCheck cur :: rest) cc
                    (mkApt vis' low' disc' (a_parent t) (S (a_time t)) (a_pts t)))))
      | ProcessChild cur ch :: rest =>
          (* FixedBitSet::contains is false out of range *)
          if negb (nth ch (a_vis t) false) then
            rbind (setp (a_parent t) ch (Some cur)) (fun par' =>
              ap_loop f v (BaseStep ch :: NoBackEdge cur ch :: rest) (bump cc cur)
                      (mkApt (a_vis t) (a_low t) (a_disc t) par' (a_time t) (a_pts t)))
          else
            rbind (getp (a_parent t) cur) (fun pc =>
              if match pc with Some p => Nat.eqb p ch | None => false end then ap_loop f v rest cc t
              else
                rbind (getp (a_low t) cur) (fun lc =>
                rbind (getp (a_disc t) ch) (fun dch =>
                rbind (setp (a_low t) cur (omin lc dch)) (fun low' =>
                  ap_loop f v rest cc (mkApt (a_vis t) low' (a_disc t) (a_parent t) (a_time t) (a_pts t))))))
      | NoBackEdge cur ch :: rest =>
          rbind (getp (a_low t) cur) (fun lc =>
          rbind (getp (a_low t) ch) (fun lch =>
          rbind (setp (a_low t) cur (omin lc lch)) (fun low' =>
          rbind (getp (a_parent t) cur) (fun pc =>
          rbind (getp (a_disc t) cur) (fun dc =>
            let pts := if andb (match pc with Some _ => true | None => false end) (oge lch dc)
                       then add_set cur (a_pts t) else a_pts t in
            ap_loop f v rest cc (mkApt (a_vis t) low' (a_disc t) (a_parent t) (a_time t) pts))))))
      | RootCheck cur :: rest =>
          rbind (getp (a_parent t) cur) (fun pc =>
            let cnt := match assoc_nat cc cur with Some c => c | None => 0 end in
            let pts := if andb (match pc with None => true | Some _ => false end) (Nat.ltb 1 cnt)
                       then add_set cur (a_pts t) else a_pts t in
            ap_loop f v rest cc (mkApt (a_vis t) (a_low t) (a_disc t) (a_parent t) (a_time t) pts))
      end
  end.

(* every stack entry is popped once: per node 2 + per adjacency entry 2 *)
Definition ap_fuel (v : view) : nat := 4 * trav_fuel v + 8.

Definition articulation_points (v : view) : res (list nat) :=
  let size := vbound v in          (* node_bound (after the fix in /repo; it was size_hint().0) *)
  rmap (fun t => a_pts t)
       (fold_left (fun acc node =>
                     rbind acc (fun t =>
                       rbind (getp (a_vis t) node) (fun seen =>
                         if seen then Ok t else ap_loop (ap_fuel v) v [BaseStep node] [] t)))
                  (vnodes v)
                  (Ok (mkApt (repeat false size) (repeat None size) (repeat None size) (repeat None size) 0 []))).

(* ---------------------------------------------------------------- queries *)
Definition TAG_DOM := 66. Definition TAG_SEQ := 41. Definition TAG_NONE := 13.

Definition opt_seq_line (o : option (list nat)) : line :=
  match o with Some l => (TAG_SEQ, zns l) | None => (TAG_NONE, []) end.

(* opcodes: 53 simple_fast root probe...  (the map, then for every probe: idom, dominators, strict_dominators,
   immediately_dominated_by) | 54 articulation_points *)
Definition cut_query (debug : bool) (v : view) (o : line) : list line :=
  match fst o with
  | 53 =>
      let root := arg (snd o) 0 in
      match simple_fast v root debug with
      | Ok m =>
          (TAG_DOM, flat_map (fun '(k, d) => [zn k; zn d]) m) ::
          flat_map (fun z => let x := nz z in
                      [(TAG_ROW, [zn x; match immediate_dominator root m x with Some d => zn d | None => (-1)%Z end]);
                       opt_seq_line (dominators_of root m x);
                       opt_seq_line (strict_dominators_of root m x);
                       (TAG_NODES, zns (immediately_dominated_by m x))]) (tl (snd o))
      | Panic => [(TAG_PANIC, [])]
      | OutOfFuel => [(TAG_FUEL, [])]
      end
  | 54 => match articulation_points v with
          | Ok l => [(TAG_NODES, zns l)]
          | Panic => [(TAG_PANIC, [])]
          | OutOfFuel => [(TAG_FUEL, [])]
          end
  | _ => [(TAG_PANIC, [])]
  end.
