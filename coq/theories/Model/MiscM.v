(* C20: references, checkers and mirrors for the remaining algorithms, over a view.
   - maximal_cliques: the definition (all maximal cliques by exhaustive search) as reference;
   - dsatur_coloring, greedy_feedback_arc_set, steiner_tree: executable checkers of the result;
   - tred (dag_to_toposorted_adjacency_list + dag_transitive_reduction_closure) and all_simple_paths:
     mirrors of the code (their output is deterministic).
   No proofs in this file. *)
From PG Require Import Lib.Io Model.View Model.Traversal Model.AlgoBasic Model.MatchM Model.UnionFindM Model.MstM.

Definition adj_u (v : view) (a b : nat) : bool := orb (mem b (neighbors v a)) (mem a (neighbors v b)).

(* ---------------------------------------------------------------- maximal cliques (reference) *)
Fixpoint subseqs {A} (l : list A) : list (list A) :=
  match l with
  | [] => [[]]
  | x :: t => let r := subseqs t in map (cons x) r ++ r
  end.
Definition is_clique (v : view) (c : list nat) : bool :=
  forallb (fun a => forallb (fun b => orb (Nat.eqb a b) (adj_u v a b)) c) c.
Definition is_maximal_clique (v : view) (c : list nat) : bool :=
  andb (is_clique v c)
       (forallb (fun x => orb (mem x c) (negb (forallb (fun a => adj_u v a x) c))) (vnodes v)).
(* for the empty graph the code returns the empty clique; so does this reference *)
Definition maximal_cliques_ref (v : view) : list (list nat) :=
  filter (is_maximal_clique v) (subseqs (vnodes v)).

(* ---------------------------------------------------------------- dsatur_coloring (checker) *)
Fixpoint assoc_col (l : list (nat * nat)) (x : nat) : option nat :=
  match l with [] => None | (k, c) :: t => if Nat.eqb k x then Some c else assoc_col t x end.
Fixpoint nodupb (l : list nat) : bool :=
  match l with [] => true | h :: t => andb (negb (mem h t)) (nodupb t) end.

(* 2-colourability of the whole graph: every component's BFS colouring succeeds *)
Definition bipartite_all (v : view) : bool :=
  forallb (fun s => match is_bipartite_undirected v s with Ok b => b | _ => false end) (vnodes v).

(* 0 = accepted; 1 not every node coloured exactly once; 2 an edge joins two nodes of one colour;
   3 the colours used are not exactly 0..k-1; 4 more than two colours on a bipartite graph *)
Definition coloring_check (v : view) (col : list (nat * nat)) (k : nat) : nat :=
  if negb (andb (nodupb (map fst col))
                (andb (forallb (fun a => mem a (map fst col)) (vnodes v)) (forallb (fun a => mem a (vnodes v)) (map fst col))))
  then 1
  else if negb (forallb (fun a => forallb (fun b => orb (Nat.eqb a b)
                   (negb (match assoc_col col a, assoc_col col b with Some x, Some y => Nat.eqb x y | _, _ => true end)))
                 (neighbors v a)) (vnodes v))
  then 2
  else if negb (andb (forallb (fun '(_, c) => Nat.ltb c k) col) (forallb (fun c => mem c (map snd col)) (seq 0 k)))
  then 3
  else if andb (bipartite_all v) (Nat.ltb 2 k) then 4
  else 0.

(* ---------------------------------------------------------------- greedy_feedback_arc_set (checker) *)
(* the view left after removing the listed edge ids *)
Definition without_edges (v : view) (ids : list nat) : view :=
  mkView (vdirected v) (vbound v) (vcap v) (vnodes v)
         (map (fun '(a, l) => (a, filter (fun e => negb (mem (eid e) ids)) l)) (vout v))
         (map (fun '(a, l) => (a, filter (fun e => negb (mem (eid e) ids)) l)) (vin v))
         (vecount v) (vebound v)
         (filter (fun '(e, _, _, _) => negb (mem e ids)) (verefs v)).

(* 0 = accepted; 1 a listed id is not an edge or is listed twice; 2 a self-loop is missing; 3 a cycle remains *)
Definition fas_check (v : view) (ids : list nat) : nat :=
  let all_ids := map (fun '(e, _, _, _) => e) (verefs v) in
  if negb (andb (nodupb ids) (forallb (fun e => mem e all_ids) ids)) then 1
  else if negb (forallb (fun '(e, s, t, _) => orb (negb (Nat.eqb s t)) (mem e ids)) (verefs v)) then 2
  else match toposort (without_edges v ids) with
       | Ok (inr _) => 0
       | _ => 3
       end.

(* ---------------------------------------------------------------- tred (mirror) *)
(* adjacency lists as list (list nat): successors in insertion order *)
Definition al_add_edge (l : list (list nat)) (a b : nat) : res (list (list nat)) :=
  if Nat.leb (length l) (Nat.max a b) then Panic      (* List::add_edge: node index out of bounds *)
  else rbind (getp l a) (fun row => setp l a (row ++ [b])).

(* dag_to_toposorted_adjacency_list (g, toposort) -> (adjacency list over ranks, revmap) *)
Fixpoint topo_adj_loop (v : view) (order : list nat) (ix : nat) (res_l : list (list nat)) (revmap : list nat)
  : res (list (list nat) * list nat) :=
  match order with
  | [] => Ok (res_l, revmap)
  | old :: rest =>
      rbind (setp revmap old ix) (fun revmap1 =>
        let res1 := res_l ++ [[]] in
        rbind (fold_left (fun acc old_pre =>
                            rbind acc (fun l =>
                              rbind (getp revmap1 old_pre) (fun pre => al_add_edge l pre ix)))
                         (neighbors_in v old) (Ok res1)) (fun res2 =>
          topo_adj_loop v rest (S ix) res2 revmap1))
  end.
Definition dag_to_toposorted_adjacency_list (v : view) (order : list nat) : res (list (list nat) * list nat) :=
  topo_adj_loop v order 0 [] (repeat 0 (vbound v)).

(* one node i of the reverse sweep *)
Fixpoint tred_neighbors (xs : list nat) (i : nat) (mark : list bool) (tred tclos : list (list nat))
  : res (list bool * list (list nat) * list (list nat)) :=
  match xs with
  | [] => Ok (mark, tred, tclos)
  | x :: rest =>
      rbind (getp mark x) (fun mx =>
        if mx then tred_neighbors rest i mark tred tclos
        else
          rbind (al_add_edge tred i x) (fun tred1 =>
          rbind (al_add_edge tclos i x) (fun tclos1 =>
          rbind (getp tclos1 x) (fun ys =>
          rbind (fold_left (fun (acc : res (list bool * list (list nat))) (y : nat) =>
                              rbind acc (fun p : list bool * list (list nat) =>
                                let '(mk, tc) := p in
                                rbind (getp mk y) (fun my : bool =>
                                  if my then Ok (mk, tc)
                                  else rbind (setp mk y true) (fun mk' =>
                                       rmap (fun tc' => (mk', tc')) (al_add_edge tc i y)))))
                           ys (Ok (mark, tclos1))) (fun '(mark2, tclos2) =>
            tred_neighbors rest i mark2 tred1 tclos2)))))
  end.

Fixpoint tred_sweep (is_ : list nat) (g : list (list nat)) (mark : list bool) (tred tclos : list (list nat))
  : res (list (list nat) * list (list nat)) :=
  match is_ with
  | [] => Ok (tred, tclos)
  | i :: rest =>
      rbind (getp g i) (fun xs =>
      rbind (tred_neighbors xs i mark tred tclos) (fun '(mark1, tred1, tclos1) =>
      rbind (getp tclos1 i) (fun ys =>
      rbind (fold_left (fun acc y => rbind acc (fun mk => setp mk y false)) ys (Ok mark1)) (fun mark2 =>
        tred_sweep rest g mark2 tred1 tclos1))))
  end.

Definition dag_transitive_reduction_closure (g : list (list nat)) : res (list (list nat) * list (list nat)) :=
  let n := length g in
  tred_sweep (rev (seq 0 n)) g (repeat false n) (repeat [] n) (repeat [] n).

(* ---------------------------------------------------------------- all_simple_paths (mirror) *)
Fixpoint drop_until (x : nat) (l : list nat) : option (list nat) :=
  match l with [] => None | h :: t => if Nat.eqb h x then Some t else drop_until x t end.

(* the stack holds the not yet consumed children of each node of the current path; visited = the path, oldest first *)
Fixpoint asp_loop (fuel : nat) (v : view) (to min_len max_len : nat) (visited : list nat) (stack : list (list nat))
         (acc : list (list nat)) : res (list (list nat)) :=
  match fuel with
  | 0 => OutOfFuel
  | S f =>
      match stack with
      | [] => Ok (rev acc)
      | [] :: up => asp_loop f v to min_len max_len (removelast visited) up acc
      | (child :: more) :: up =>
          if Nat.ltb (length visited) max_len then
            if Nat.eqb child to then
              asp_loop f v to min_len max_len visited (more :: up)
                       (if Nat.leb min_len (length visited) then (visited ++ [to]) :: acc else acc)
            else if negb (mem child visited) then
              asp_loop f v to min_len max_len (visited ++ [child]) (neighbors v child :: more :: up) acc
            else asp_loop f v to min_len max_len visited (more :: up) acc
          else
            (* at the length limit only the last hop is looked for; `any` consumes the children up to the first match, and
               the closure returns before popping, so the rest of this level is looked at again on the next call *)
            let after := if Nat.eqb child to then Some more else drop_until to more in
            match after with
            | Some rest_children =>
                if Nat.leb min_len (length visited)
                then asp_loop f v to min_len max_len visited (rest_children :: up) ((visited ++ [to]) :: acc)
                else asp_loop f v to min_len max_len (removelast visited) up acc
            | None => asp_loop f v to min_len max_len (removelast visited) up acc
            end
      end
  end.

(* max_intermediate = None: node_count - 1 (usize subtraction: an empty graph overflows) *)
Definition all_simple_paths (v : view) (from to min_i : nat) (max_i : option nat) (debug : bool) : res (list (list nat)) :=
  let n := length (vnodes v) in
  match max_i, n with
  | None, 0 => if debug then Panic else Ok []       (* release: usize::MAX; nothing to explore from a node without a graph *)
  | _, _ =>
      let max_len := match max_i with Some l => S l | None => n - 1 end in
      asp_loop (600 * 600) v to (S min_i) max_len
               [from] [neighbors v from] []
  end.

(* ---------------------------------------------------------------- steiner_tree (checker) *)
(* the result: nodes (indices of the original graph) and edges (a, b, w) *)
Definition tree_check (nodes : list nat) (es : list (nat * nat * Z)) (bound : nat) : bool :=
  (* connected and |E| = |V| - 1, through the verified union-find *)
  match nodes with
  | [] => match es with [] => true | _ => false end
  | _ =>
      andb (Nat.eqb (S (length es)) (length nodes))
           (let '(ok, _) := fold_left (fun '(ok, u) '(a, b, _) =>
                               match union u a b with
                               | (Ok true, u') => (ok, u')
                               | (_, u') => (false, u')
                               end) es (true, uf_new bound) in ok)
  end.

Definition sumw (es : list (nat * nat * Z)) : Z := fold_left (fun s '(_, _, w) => (s + w)%Z) es 0%Z.

(* the minimum weight of a tree of the graph spanning a node set that contains the terminals: MST of each induced
   connected subgraph, minimised over all node subsets containing the terminals (the optimum Steiner tree is such an MST) *)
Definition induced_view (v : view) (keep : list nat) : view :=
  mkView (vdirected v) (vbound v) (vcap v) (filter (fun a => mem a keep) (vnodes v))
         (flat_map (fun '(a, l) => if mem a keep then [(a, filter (fun e => mem (tgt e) keep) l)] else []) (vout v)) []
         (vecount v) (vebound v)
         (filter (fun '(_, s, t, _) => andb (mem s keep) (mem t keep)) (verefs v)).

Definition steiner_opt (v : view) (terminals : list nat) : option Z :=
  fold_left (fun best keep =>
      if negb (forallb (fun t => mem t keep) terminals) then best
      else match kruskal (induced_view v keep) with
           | Ok es => if Nat.eqb (S (length es)) (length keep)
                      then let w := sumw (map (fun '(a, b, w) => (a, b, w)) es) in
                           match best with Some b => Some (Z.min b w) | None => Some w end
                      else best
           | _ => best
           end) (subseqs (vnodes v)) None.

(* 0 = accepted; 1 a node or edge of the result is not in the graph (with that weight); 2 not a tree;
   3 a terminal is missing; 4 a leaf is not a terminal; 5 heavier than twice the optimum *)
Definition steiner_check (v : view) (terminals nodes : list nat) (es : list (nat * nat * Z)) : nat :=
  if negb (andb (forallb (fun a => mem a (vnodes v)) nodes)
                (forallb (fun '(a, b, w) => existsb (fun '(_, s, t, w') =>
                    andb (Z.eqb w w') (orb (andb (Nat.eqb s a) (Nat.eqb t b)) (andb (Nat.eqb s b) (Nat.eqb t a)))) (verefs v)) es))
  then 1
  else if negb (andb (nodupb nodes) (andb (tree_check nodes es (vbound v))
                 (forallb (fun '(a, b, _) => andb (mem a nodes) (mem b nodes)) es))) then 2
  else if negb (forallb (fun t => mem t nodes) terminals) then 3
  else if negb (forallb (fun x => orb (mem x terminals)
                   (negb (Nat.eqb (length (filter (fun '(a, b, _) => orb (Nat.eqb a x) (Nat.eqb b x)) es)) 1))) nodes)
          && Nat.ltb 1 (length nodes) then 4
  else match steiner_opt v terminals with
       | Some opt => if Z.ltb (2 * opt) (sumw es) then 5 else 0
       | None => 0
       end.

(* ---------------------------------------------------------------- queries *)
Definition TAG_VERDICT := 71. Definition TAG_COMP := 44. Definition TAG_SEQ := 41. Definition TAG_ROWS := 6.

Fixpoint pairs_nat (l : list Z) : list (nat * nat) :=
  match l with a :: b :: rest => (nz a, nz b) :: pairs_nat rest | _ => [] end.
Fixpoint triples_z (l : list Z) : list (nat * nat * Z) :=
  match l with a :: b :: w :: rest => (nz a, nz b, w) :: triples_z rest | _ => [] end.

Definition adj_lines (tag : nat) (l : list (list nat)) : list line :=
  map (fun '(i, row) => (tag, zn i :: zns row)) (combine (seq 0 (length l)) l).

(* opcodes (all >= 60): 60 maximal_cliques | 61 dsatur k (node colour)* | 62 fas id* | 63 tred order*
   64 all_simple_paths from to min max(-1 = None) | 65 steiner nt t* nn n* (a b w)* *)
Definition misc_query (debug : bool) (v : view) (o : line) : list line :=
  let '(code, a) := o in
  match code with
  | 60 => (TAG_NAT, [zn (length (maximal_cliques_ref v))]) :: map (fun c => (TAG_COMP, zns c)) (maximal_cliques_ref v)
  | 61 => [(TAG_VERDICT, [zn (coloring_check v (pairs_nat (tl a)) (arg a 0))])]
  | 62 => [(TAG_VERDICT, [zn (fas_check v (map nz a))])]
  | 63 => match dag_to_toposorted_adjacency_list v (map nz a) with
          | Ok (g, revmap) =>
              match dag_transitive_reduction_closure g with
              | Ok (tred, tclos) =>
                  (TAG_SEQ, zns revmap) :: adj_lines TAG_ROWS g ++ adj_lines TAG_PAIRS tred ++ adj_lines TAG_NODES tclos
              | Panic => [(TAG_PANIC, [])] | OutOfFuel => [(TAG_FUEL, [])]
              end
          | Panic => [(TAG_PANIC, [])] | OutOfFuel => [(TAG_FUEL, [])]
          end
  | 64 => match all_simple_paths v (arg a 0) (arg a 1) (arg a 2) (if Z.ltb (argz a 3) 0 then None else Some (arg a 3)) debug with
          | Ok ps => (TAG_NAT, [zn (length ps)]) :: map (fun p => (TAG_SEQ, zns p)) ps
          | Panic => [(TAG_PANIC, [])] | OutOfFuel => [(TAG_FUEL, [])]
          end
  | 65 => let nt := arg a 0 in
          let terminals := map nz (firstn nt (tl a)) in
          let rest := skipn nt (tl a) in
          let nn := arg rest 0 in
          let nodes := map nz (firstn nn (tl rest)) in
          [(TAG_VERDICT, [zn (steiner_check v terminals nodes (triples_z (skipn nn (tl rest))))])]
  | _ => [(TAG_PANIC, [])]
  end.
