(* C20: greedy_feedback_arc_set (src/algo/feedback_arc_set.rs), mirror of good_node_sequence
   (Eades-Lin-Smyth) and of the final edge filter.  The code is deterministic given the order of
   edge_references: its hash maps are only looked up, never iterated.

   Representation: the intrusive doubly linked bucket lists are plain lists (head = `start`);
   push_front = cons, pop = take the head, remove = delete the one occurrence.  The two bucket
   vectors (non-negative and negative delta degree) are one association list keyed by the delta;
   `.iter_mut().rev().chain(nve.iter_mut()).find(non-empty)` is "the non-empty bucket with the
   largest delta", so resizing and trimming the vectors is not represented.  No proofs here. *)
From PG Require Import Lib.Io Model.View.

Record fnode := mkFn {
  f_gix : nat;                 (* graph index *)
  f_out : list nat;            (* out_edges: fas indices, one per edge, in edge order *)
  f_in : list nat;
  f_od : nat;                  (* out_degree, decremented as neighbours leave *)
  f_id : nat;
  f_inlist : bool              (* pos.is_some() *)
}.

Inductive bkey := BSink | BSource | BDelta (d : Z).
Definition bkey_eqb (a b : bkey) : bool :=
  match a, b with
  | BSink, BSink => true | BSource, BSource => true
  | BDelta x, BDelta y => Z.eqb x y
  | _, _ => false
  end.

Record fstate := mkFs {
  fs_nodes : list fnode;
  fs_sinks : list nat;
  fs_sources : list nat;
  fs_dd : list (Z * list nat)       (* delta degree -> bucket *)
}.

Definition dflt_node := mkFn 0 [] [] 0 0 false.
Definition fnode_at (ns : list fnode) (i : nat) : fnode := nth i ns dflt_node.
Fixpoint set_at {A} (l : list A) (i : nat) (x : A) : list A :=
  match l, i with
  | [], _ => []
  | _ :: t, O => x :: t
  | h :: t, S i' => h :: set_at t i' x
  end.

(* ---- building the node table from edge_references *)
Fixpoint lookup_gix (ns : list fnode) (i : nat) (g : nat) : option nat :=
  match ns with
  | [] => None
  | n :: t => if Nat.eqb (f_gix n) g then Some i else lookup_gix t (S i) g
  end.
Definition node_entry (ns : list fnode) (g : nat) : list fnode * nat :=
  match lookup_gix ns 0 g with
  | Some i => (ns, i)
  | None => (ns ++ [mkFn g [] [] 0 0 false], length ns)
  end.
Definition add_edge_entry (ns : list fnode) (st : nat * nat) : list fnode :=
  let '(ns1, a) := node_entry ns (fst st) in
  let '(ns2, b) := node_entry ns1 (snd st) in
  let na := fnode_at ns2 a in
  let ns3 := set_at ns2 a (mkFn (f_gix na) (f_out na ++ [b]) (f_in na) (f_od na) (f_id na) (f_inlist na)) in
  let nb := fnode_at ns3 b in
  set_at ns3 b (mkFn (f_gix nb) (f_out nb) (f_in nb ++ [a]) (f_od nb) (f_id nb) (f_inlist nb)).
Definition build_nodes (es : list (nat * nat)) : list fnode :=
  map (fun n => mkFn (f_gix n) (f_out n) (f_in n) (length (f_out n)) (length (f_in n)) false)
      (fold_left add_edge_entry es []).

(* ---- buckets *)
Definition suitable (n : fnode) : bkey :=
  if Nat.eqb (f_od n) 0 then BSink
  else if Nat.eqb (f_id n) 0 then BSource
  else BDelta (Z.of_nat (f_od n) - Z.of_nat (f_id n)).

Fixpoint dd_get (dd : list (Z * list nat)) (d : Z) : list nat :=
  match dd with [] => [] | (k, l) :: t => if Z.eqb k d then l else dd_get t d end.
Fixpoint dd_set (dd : list (Z * list nat)) (d : Z) (l : list nat) : list (Z * list nat) :=
  match dd with
  | [] => [(d, l)]
  | (k, l0) :: t => if Z.eqb k d then (k, l) :: t else (k, l0) :: dd_set t d l
  end.
Definition bucket_get (s : fstate) (k : bkey) : list nat :=
  match k with BSink => fs_sinks s | BSource => fs_sources s | BDelta d => dd_get (fs_dd s) d end.
Definition bucket_set (s : fstate) (k : bkey) (l : list nat) : fstate :=
  match k with
  | BSink => mkFs (fs_nodes s) l (fs_sources s) (fs_dd s)
  | BSource => mkFs (fs_nodes s) (fs_sinks s) l (fs_dd s)
  | BDelta d => mkFs (fs_nodes s) (fs_sinks s) (fs_sources s) (dd_set (fs_dd s) d l)
  end.
Fixpoint remove_one (x : nat) (l : list nat) : list nat :=
  match l with [] => [] | h :: t => if Nat.eqb h x then t else h :: remove_one x t end.
Definition set_node (s : fstate) (i : nat) (n : fnode) : fstate :=
  mkFs (set_at (fs_nodes s) i n) (fs_sinks s) (fs_sources s) (fs_dd s).
Definition set_inlist (n : fnode) (b : bool) : fnode := mkFn (f_gix n) (f_out n) (f_in n) (f_od n) (f_id n) b.

(* suitable_bucket(ix).push_front(ix) *)
Definition push_node (s : fstate) (i : nat) : fstate :=
  let n := fnode_at (fs_nodes s) i in
  let k := suitable n in
  set_node (bucket_set s k (i :: bucket_get s k)) i (set_inlist n true).
(* suitable_bucket(ix).remove(ix) *)
Definition remove_node (s : fstate) (i : nat) : fstate :=
  let n := fnode_at (fs_nodes s) i in
  let k := suitable n in
  set_node (bucket_set s k (remove_one i (bucket_get s k))) i (set_inlist n false).

(* one neighbour of the node that leaves: out = true: it loses an in-edge; false: an out-edge *)
Definition relocate (ix : nat) (out : bool) (s : fstate) (j : nat) : fstate :=
  if Nat.eqb j ix then s
  else if negb (f_inlist (fnode_at (fs_nodes s) j)) then s
  else
    let s1 := remove_node s j in
    let n := fnode_at (fs_nodes s1) j in
    let n' := if out then mkFn (f_gix n) (f_out n) (f_in n) (f_od n) (f_id n - 1) (f_inlist n)
              else mkFn (f_gix n) (f_out n) (f_in n) (f_od n - 1) (f_id n) (f_inlist n) in
    push_node (set_node s1 j n') j.
Definition update_neighbours (s : fstate) (ix : nat) : fstate :=
  let n := fnode_at (fs_nodes s) ix in
  let s1 := fold_left (relocate ix true) (f_out n) s in
  fold_left (relocate ix false) (f_in (fnode_at (fs_nodes s1) ix)) s1.

(* list.pop(): remove the head *)
Definition pop_bucket (s : fstate) (k : bkey) : option (nat * fstate) :=
  match bucket_get s k with
  | [] => None
  | i :: rest => Some (i, set_node (bucket_set s k rest) i (set_inlist (fnode_at (fs_nodes s) i) false))
  end.

(* the non-empty delta bucket with the largest delta *)
Definition best_delta (dd : list (Z * list nat)) : option Z :=
  fold_left (fun acc '(k, l) => match l with
                                | [] => acc
                                | _ => match acc with Some b => if Z.ltb b k then Some k else acc | None => Some k end
                                end) dd None.

Fixpoint drain (fuel : nat) (k : bkey) (s : fstate) (acc : list nat) : fstate * list nat :=
  match fuel with
  | O => (s, acc)
  | S f => match pop_bucket s k with
           | None => (s, acc)
           | Some (i, s1) => drain f k (update_neighbours s1 i) (acc ++ [f_gix (fnode_at (fs_nodes s1) i)])
           end
  end.

(* s1 grows at the back; s2 at the front (drained sinks are listed in pop order, so prepend their reverse) *)
Fixpoint fas_loop (fuel : nat) (s : fstate) (s1 s2 : list nat) : list nat :=
  match fuel with
  | O => s1 ++ s2
  | S f =>
      let n := length (fs_nodes s) in
      let '(sa, sinks) := drain (S n) BSink s [] in
      let s2' := rev sinks ++ s2 in
      let '(sb, sources) := drain (S n) BSource sa [] in
      let s1' := s1 ++ sources in
      match best_delta (fs_dd sb) with
      | Some d =>
          match pop_bucket sb (BDelta d) with
          | Some (i, sc) => fas_loop f (update_neighbours sc i) (s1' ++ [f_gix (fnode_at (fs_nodes sc) i)]) s2'
          | None => s1' ++ s2'
          end
      | None =>
          match sinks, sources with
          | [], [] => s1' ++ s2'
          | _, _ => fas_loop f sb s1' s2'
          end
      end
  end.

Definition good_node_sequence (es : list (nat * nat)) : list nat :=
  let ns := build_nodes es in
  let s0 := fold_left push_node (seq 0 (length ns)) (mkFs ns [] [] []) in
  fas_loop (S (length ns)) s0 [] [].

Fixpoint index_of (x : nat) (l : list nat) (i : nat) : option nat :=
  match l with [] => None | h :: t => if Nat.eqb h x then Some i else index_of x t (S i) end.

(* the edge ids the iterator yields, in edge_references order *)
Definition greedy_fas (v : view) : list nat :=
  let sq := good_node_sequence (map (fun '(_, s, t, _) => (s, t)) (verefs v)) in
  flat_map (fun '(e, s, t, _) =>
              match index_of s sq 0, index_of t sq 0 with
              | Some a, Some b => if Nat.leb b a then [e] else []
              | _, _ => []
              end) (verefs v).

(* opcode 62: fas id*  — the verdict of MiscM.fas_check on the crate's answer, and 6 when the answer passes it
   but is not the mirror's list *)
From PG Require Import Model.MiscM.
Fixpoint list_eqb (a b : list nat) : bool :=
  match a, b with
  | [], [] => true
  | x :: a', y :: b' => andb (Nat.eqb x y) (list_eqb a' b')
  | _, _ => false
  end.
Definition fas_query (v : view) (o : line) : list line :=
  let ids := map nz (snd o) in
  let c := fas_check v ids in
  [(TAG_VERDICT, [zn (if Nat.eqb c 0 then (if list_eqb ids (greedy_fas v) then 0 else 6) else c)])].
