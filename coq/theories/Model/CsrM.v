(* Executable mirror of /repo/src/csr.rs (Csr) .  No proofs in this file. *)
From PG Require Import Lib.Io.

Record csr := mkCsr {
  column : list nat;      (* Vec<NodeIndex<Ix>> *)
  cedges : list nat;      (* Vec<E>, weights as numbers *)
  row : list nat;         (* Vec<usize>, len = nodes + 1 *)
  nweights : list nat;    (* Vec<N> *)
  ecount : nat            (* edge_count, used only when undirected *)
}.

Definition csr_new : csr := mkCsr [] [] [0] [] 0.
Definition with_nodes (n : nat) : csr := mkCsr [] [] (repeat 0 (S n)) (repeat 0 n) 0.

Definition node_count (g : csr) : nat := length (row g) - 1.
Definition edge_count (directed : bool) (g : csr) : nat :=
  if directed then length (column g) else ecount g.

Definition clear_edges (directed : bool) (g : csr) : csr :=
  mkCsr [] [] (map (fun _ => 0) (row g)) (nweights g) (if directed then ecount g else 0).

(* Vec::insert(i, x): panics when i > len *)
Definition insert_at {A} (l : list A) (i : nat) (x : A) : res (list A) :=
  if Nat.leb i (length l) then Ok (firstn i l ++ x :: skipn i l) else Panic.

(* &v[s..e]: panics when s > e or e > len *)
Definition slice {A} (l : list A) (s e : nat) : res (list A) :=
  if andb (Nat.leb s e) (Nat.leb e (length l)) then Ok (firstn (e - s) (skipn s l)) else Panic.

Definition add_node (g : csr) (w : nat) : res (nat * csr) :=
  let i := length (row g) - 1 in
  rbind (insert_at (row g) i (length (column g))) (fun row' =>
  rbind (insert_at (nweights g) i w) (fun nw' =>
  Ok (i, mkCsr (column g) (cedges g) row' nw' (ecount g)))).

(* neighbors_range: row[a] panics out of range; row.get(a+1).unwrap_or(column.len()) *)
Definition neighbors_range (g : csr) (a : nat) : res (nat * nat) :=
  match nth_error (row g) a with
  | None => Panic
  | Some s =>
      Ok (s, match nth_error (row g) (S a) with Some e => e | None => length (column g) end)
  end.

Definition neighbors_of (g : csr) (a : nat) : res (nat * list nat) :=
  rbind (neighbors_range g a) (fun '(s, e) => rmap (fun sl => (s, sl)) (slice (column g) s e)).

(* Result<usize, usize> *)
Inductive pos := Found (i : nat) | Insert (i : nat).

(* the linear branch of find_edge_pos *)
Fixpoint lin_search (l : list nat) (b i : nat) : pos :=
  match l with
  | [] => Insert i
  | e :: t =>
      match Nat.compare e b with
      | Eq => Found i
      | Gt => Insert i
      | Lt => lin_search t b (S i)
      end
  end.

(* slice::binary_search as implemented in core (size-halving, no early exit):
     let mut size = len; if size == 0 { return Err(0) } let mut base = 0;
     while size > 1 { let half = size / 2; let mid = base + half;
                      base = if s[mid] > b { base } else { mid }; size -= half; }
     let cmp = s[base].cmp(b);
     if cmp == Equal { Ok(base) } else { Err(base + (cmp == Less) as usize) } *)
Fixpoint bs_loop (fuel : nat) (l : list nat) (b base size : nat) : res nat :=
  match fuel with
  | 0 => OutOfFuel
  | S f =>
      if Nat.leb size 1 then Ok base
      else
        let half := Nat.div2 size in
        let mid := base + half in
        match nth_error l mid with
        | None => Panic
        | Some e =>
            bs_loop f l b (match Nat.compare e b with Gt => base | _ => mid end) (size - half)
        end
  end.

Definition binary_search (l : list nat) (b : nat) : res pos :=
  match l with
  | [] => Ok (Insert 0)
  | _ =>
      rbind (bs_loop (S (length l)) l b 0 (length l)) (fun base =>
        match nth_error l base with
        | None => Panic
        | Some e =>
            match Nat.compare e b with
            | Eq => Ok (Found base)
            | Lt => Ok (Insert (S base))
            | Gt => Ok (Insert base)
            end
        end)
  end.

Definition BINARY_SEARCH_CUTOFF : nat := 32.

Definition shift_pos (k : nat) (p : pos) : pos :=
  match p with Found i => Found (i + k) | Insert i => Insert (i + k) end.

Definition find_edge_pos (g : csr) (a b : nat) : res pos :=
  rbind (neighbors_of g a) (fun '(index, nb) =>
    if Nat.ltb (length nb) BINARY_SEARCH_CUTOFF
    then Ok (shift_pos index (lin_search nb b 0))
    else rmap (shift_pos index) (binary_search nb b)).

Definition contains_edge (g : csr) (a b : nat) : res bool :=
  rmap (fun p => match p with Found _ => true | Insert _ => false end) (find_edge_pos g a b).

Definition out_degree (g : csr) (a : nat) : res nat :=
  rmap (fun '(s, e) => e - s) (neighbors_range g a).
  (* r.end - r.start: usize subtraction; start <= end under the invariant *)

Definition neighbors_slice (g : csr) (a : nat) : res (list nat) := rmap snd (neighbors_of g a).
Definition edges_slice (g : csr) (a : nat) : res (list nat) :=
  rbind (neighbors_range g a) (fun '(s, e) => slice (cedges g) s e).

(* Result<bool, CsrError> *)
Inductive addres := AddOk (b : bool) | AddErr (a b : nat).

(* for r in &mut self.row[a+1..] { *r += 1 } : panics when a+1 > len *)
Fixpoint bump_from (l : list nat) (k : nat) : list nat :=
  match l, k with
  | [], _ => []
  | h :: t, 0 => S h :: bump_from t 0
  | h :: t, S k' => h :: bump_from t k'
  end.

Definition add_edge_ (g : csr) (a b w : nat) : res (addres * csr) :=
  if negb (andb (Nat.ltb a (node_count g)) (Nat.ltb b (node_count g)))
  then Ok (AddErr a b, g)
  else
    rbind (find_edge_pos g a b) (fun p =>
      match p with
      | Found _ => Ok (AddOk false, g)
      | Insert pos =>
          rbind (insert_at (column g) pos b) (fun col' =>
          rbind (insert_at (cedges g) pos w) (fun ed' =>
            if Nat.leb (S a) (length (row g))
            then Ok (AddOk true, mkCsr col' ed' (bump_from (row g) (S a)) (nweights g) (ecount g))
            else Panic))
      end).

Definition try_add_edge (directed : bool) (g : csr) (a b w : nat) : res (addres * csr) :=
  rbind (add_edge_ g a b w) (fun '(r, g1) =>
    match r with
    | AddErr _ _ => Ok (r, g1)
    | AddOk ret =>
        let g2 := if andb ret (negb directed)
                  then mkCsr (column g1) (cedges g1) (row g1) (nweights g1) (S (ecount g1)) else g1 in
        if andb (andb ret (negb directed)) (negb (Nat.eqb a b))
        then rbind (add_edge_ g2 b a w) (fun '(r2, g3) =>
               match r2 with
               | AddErr _ _ => Ok (r2, g3)        (* the `?` *)
               | AddOk ret2 => Ok (AddOk ret, g3) (* debug_assert_eq!(ret, _ret2) not modelled as a panic: see Proofs *)
               end)
        else Ok (AddOk ret, g2)
    end).

(* from_sorted_edges: Directed only *)
Inductive fse_state := FseErr | FseGo.

(* one row of the 'outer loop: consume the edges whose source is [node] *)
Fixpoint fse_inner (fuel node : nat) (last : option nat) (es : list (nat * nat * nat))
         (col wts : list nat) (rstart : nat)
  : res (option (list (nat * nat * nat) * list nat * list nat * nat)) :=
  (* None = EdgesNotSorted *)
  match fuel with
  | 0 => OutOfFuel
  | S f =>
      match es with
      | [] => Ok (Some ([], col, wts, rstart))
      | (n, m, w) :: rest =>
          if Nat.ltb n node then Ok None
          else if negb (Nat.eqb n node) then Ok (Some (es, col, wts, rstart))
          else if negb (match last with None => true | Some x => Nat.ltb x m end) then Ok None
          else fse_inner f node (Some m) rest (col ++ [m]) (wts ++ [w]) (S rstart)
      end
  end.

(* rows 0..n : returns the row vector built so far (reversed accumulation avoided: append) *)
Fixpoint fse_outer (todo node : nat) (es : list (nat * nat * nat)) (col wts rows : list nat) (rstart : nat)
  : res (option (list nat * list nat * list nat)) :=
  match todo with
  | 0 => Ok (Some (col, wts, rows))
  | S t =>
      match es with
      | [] =>
          (* break 'outer happens after *r = rstart of this row; the remaining rows get rstart *)
          Ok (Some (col, wts, rows ++ repeat rstart (S t)))
      | _ =>
          rbind (fse_inner (S (length es)) node None es col wts rstart) (fun o =>
            match o with
            | None => Ok None
            | Some (es', col', wts', rstart') =>
                fse_outer t (S node) es' col' wts' (rows ++ [rstart]) rstart'
            end)
      end
  end.

Definition max_node_id (es : list (nat * nat * nat)) : option nat :=
  match es with
  | [] => None
  | _ => Some (fold_left (fun acc '(x, y, _) => Nat.max acc (Nat.max x y)) es 0)
  end.

Definition from_sorted_edges (es : list (nat * nat * nat)) : res (option csr) :=
  match max_node_id es with
  | None => Ok (Some (with_nodes 0))
  | Some mx =>
      let n := S mx in
      rmap (fun o => match o with
                     | None => None
                     | Some (col, wts, rows) => Some (mkCsr col wts rows (repeat 0 n) 0)
                     end)
           (fse_outer (S n) 0 es [] [] [] 0)
  end.

(* ---- observation battery ---- *)

(* skip = undirected: an edge stored in both rows is yielded only from the row of its smaller
   endpoint (after the fix in /repo); the edge index still counts every stored entry *)
Fixpoint zip3 (skip : bool) (i : nat) (s : nat) (ts ws : list nat) : list Z :=
  match ts, ws with
  | t :: ts', w :: ws' =>
      (if andb skip (Nat.ltb t s) then [] else [zn i; zn s; zn t; zn w]) ++ zip3 skip (S i) s ts' ws'
  | _, _ => []
  end.

(* edge_references: row.windows(2).enumerate(), slices column[a..b], edges[a..b] *)
Fixpoint erefs_loop (directed : bool) (g : csr) (rows : list nat) (src : nat) (idx : nat) : res (list Z) :=
  match rows with
  | a :: ((b :: _) as rest) =>
      rbind (slice (column g) a b) (fun ts =>
      rbind (slice (cedges g) a b) (fun ws =>
      rmap (fun tl => zip3 (negb directed) idx src ts ws ++ tl)
           (erefs_loop directed g rest (S src) (idx + length ts))))
  | _ => Ok []
  end.

Definition TAG_BOOL := 0.  Definition TAG_ERR := 1.  Definition TAG_PANIC := 2.
Definition TAG_IDX := 3.   Definition TAG_UNIT := 4. Definition TAG_COUNTS := 5.
Definition TAG_ROW := 6.   Definition TAG_WROW := 7. Definition TAG_EREFS := 8.
Definition TAG_NW := 9.    Definition TAG_FUEL := 10. Definition TAG_NAT := 11.
Definition TAG_NOTSORTED := 12.

Definition rline {A} (f : A -> line) (r : res A) : line :=
  match r with Ok a => f a | Panic => (TAG_PANIC, []) | OutOfFuel => (TAG_FUEL, []) end.

Definition battery (directed : bool) (g : csr) : list line :=
  (TAG_COUNTS, [zn (node_count g); zn (edge_count directed g)]) ::
  (TAG_NW, zns (nweights g)) ::
  rline (fun l => (TAG_EREFS, l)) (erefs_loop directed g (row g) 0 0) ::
  flat_map (fun a =>
    [rline (fun l => (TAG_ROW, zn a :: zns l)) (neighbors_slice g a);
     rline (fun l => (TAG_WROW, zn a :: zns l)) (edges_slice g a)]) (seq 0 (node_count g)).

(* ---- operations ---- *)
(* opcodes: 0 add_node w | 1 try_add_edge a b w | 2 add_edge a b w | 3 clear_edges
            4 contains_edge a b | 5 out_degree a | 6 neighbors_slice a | 7 edges_slice a
            8 from_sorted_edges a1 b1 w1 a2 b2 w2 ... (replaces the graph when Ok) *)

Fixpoint triples (l : list Z) : list (nat * nat * nat) :=
  match l with
  | a :: b :: w :: rest => (nz a, nz b, nz w) :: triples rest
  | _ => []
  end.

Definition addres_line (r : addres) : line :=
  match r with
  | AddOk b => (TAG_BOOL, [zb b])
  | AddErr a b => (TAG_ERR, [zn a; zn b])
  end.

Definition step (directed : bool) (g : csr) (o : line) : csr * list line :=
  let '(code, a) := o in
  match code with
  | 0 => match add_node g (arg a 0) with
         | Ok (i, g') => (g', (TAG_IDX, [zn i]) :: battery directed g')
         | Panic => (g, [(TAG_PANIC, [])])
         | OutOfFuel => (g, [(TAG_FUEL, [])])
         end
  | 1 => match try_add_edge directed g (arg a 0) (arg a 1) (arg a 2) with
         | Ok (r, g') => (g', addres_line r :: battery directed g')
         | Panic => (g, [(TAG_PANIC, [])])
         | OutOfFuel => (g, [(TAG_FUEL, [])])
         end
  | 2 => match try_add_edge directed g (arg a 0) (arg a 1) (arg a 2) with
         | Ok (AddOk b, g') => (g', (TAG_BOOL, [zb b]) :: battery directed g')
         | Ok (AddErr _ _, g') => (g', (TAG_PANIC, []) :: battery directed g')
         | Panic => (g, [(TAG_PANIC, [])])
         | OutOfFuel => (g, [(TAG_FUEL, [])])
         end
  | 3 => let g' := clear_edges directed g in (g', (TAG_UNIT, []) :: battery directed g')
  | 4 => (g, [rline (fun b => (TAG_BOOL, [zb b])) (contains_edge g (arg a 0) (arg a 1))])
  | 5 => (g, [rline (fun n => (TAG_NAT, [zn n])) (out_degree g (arg a 0))])
  | 6 => (g, [rline (fun l => (TAG_ROW, zn (arg a 0) :: zns l)) (neighbors_slice g (arg a 0))])
  | 7 => (g, [rline (fun l => (TAG_WROW, zn (arg a 0) :: zns l)) (edges_slice g (arg a 0))])
  | 8 => match from_sorted_edges (triples a) with
         | Ok (Some g') => (g', (TAG_UNIT, []) :: battery directed g')
         | Ok None => (g, [(TAG_NOTSORTED, [])])
         | Panic => (g, [(TAG_PANIC, [])])
         | OutOfFuel => (g, [(TAG_FUEL, [])])
         end
  | _ => (g, [(TAG_PANIC, [])])
  end.

Fixpoint run (directed : bool) (g : csr) (ops : list line) : list (list line) :=
  match ops with
  | [] => []
  | o :: rest => let '(g', ls) := step directed g o in ls :: run directed g' rest
  end.

(* header = [directed; n0] : Csr::with_nodes(n0) (n0 = 0 is Csr::new()) *)
Definition run_case (header : list Z) (ops : list line) : list (list line) :=
  run (Z.eqb (argz header 0) 1) (with_nodes (arg header 1)) ops.
