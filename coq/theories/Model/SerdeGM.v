(* serde of GraphMap (src/graphmap.rs): Serialize = clone, into_graph::<u32>, Graph's Serialize;
   Deserialize = Graph::<_, _, _, u32>::deserialize, then GraphMap::from_graph.  The model works on the
   serde VALUE like SerdeM.v; the stream is the C03 stream with three more operations.  No proofs here. *)
From PG Require Import Lib.Io Model.GraphMapM.

Record gwire := mkGw {
  gw_nodes : list Z;                           (* node weights = the map's keys, in map order *)
  gw_holes : list nat;
  gw_directed : bool;
  gw_edges : list (option (nat * nat * Z))     (* Some (index of a, index of b, weight) | None *)
}.

Fixpoint triples_opt (l : list Z) : list (option (nat * nat * Z)) :=
  match l with a :: b :: w :: rest => Some (nz a, nz b, w) :: triples_opt rest | _ => [] end.

(* None = into_graph would panic (an edge key that is not a node: impossible under the invariant) *)
Definition ser_gm (directed : bool) (g : gm) : option gwire :=
  match into_graph_edges g (gedges g) with
  | Ok l => Some (mkGw (map fst (gnodes g)) [] directed (triples_opt l))
  | _ => None
  end.

(* GraphMap::from_graph: add every node weight, then every edge by its endpoints' weights, in index order *)
Fixpoint from_graph_edges (directed : bool) (nodes : list Z) (es : list (option (nat * nat * Z))) (g : gm) : option gm :=
  match es with
  | [] => Some g
  | None :: _ => None
  | Some (a, b, w) :: rest =>
      match nth_error nodes a, nth_error nodes b with
      | Some na, Some nb => from_graph_edges directed nodes rest (snd (add_edge directed g na nb w))
      | _, _ => None
      end
  end.

(* None = Err.  Graph's deserializer rejects holes, null edges, a wrong edge property and out-of-range endpoints
   BEFORE from_graph runs; u32 index limits are out of reach *)
Definition deser_gm (directed : bool) (w : gwire) : option gm :=
  match gw_holes w with
  | _ :: _ => None
  | [] =>
      if existsb (fun e => match e with None => true | Some _ => false end) (gw_edges w) then None
      else if negb (Bool.eqb (gw_directed w) directed) then None
      else if existsb (fun e => match e with Some (a, b, _) => orb (Nat.leb (length (gw_nodes w)) a) (Nat.leb (length (gw_nodes w)) b)
                                         | None => true end) (gw_edges w) then None
      else from_graph_edges directed (gw_nodes w) (gw_edges w) (fold_left add_node (gw_nodes w) gm_new)
  end.

(* wire <-> numbers: [n_nodes; w..; n_holes; h..; directed; n_edges; (flag s t w)*] *)
Definition gwire_nums (w : gwire) : list Z :=
  zn (length (gw_nodes w)) :: gw_nodes w ++ zn (length (gw_holes w)) :: zns (gw_holes w) ++
  zb (gw_directed w) :: zn (length (gw_edges w)) ::
  flat_map (fun e => match e with Some (s, t, x) => [1%Z; zn s; zn t; x] | None => [0%Z; 0%Z; 0%Z; 0%Z] end) (gw_edges w).

Fixpoint gedges_of_nums (k : nat) (l : list Z) : list (option (nat * nat * Z)) :=
  match k, l with
  | S k', f :: s :: t :: x :: rest => (if Z.eqb f 1 then Some (nz s, nz t, x) else None) :: gedges_of_nums k' rest
  | _, _ => []
  end.
Definition gwire_of_nums (l : list Z) : gwire :=
  let nn := arg l 0 in
  let l1 := skipn 1 l in
  let nodes := firstn nn l1 in
  let l2 := skipn nn l1 in
  let nh := arg l2 0 in
  let holes := map nz (firstn nh (skipn 1 l2)) in
  let l3 := skipn (S nh) l2 in
  mkGw nodes holes (Z.eqb (argz l3 0) 1) (gedges_of_nums (arg l3 1) (skipn 2 l3)).

Definition TAG_WIRE := 57%nat. Definition TAG_ERR := 1%nat.

(* opcodes 0..13 as in GraphMapM.step | 20 ser | 21 roundtrip | 22 deser wire *)
Definition step (directed debug : bool) (g : gm) (o : line) : gm * list line :=
  let '(code, a) := o in
  match code with
  | 20%nat => (g, [match ser_gm directed g with Some w => (TAG_WIRE, gwire_nums w) | None => (TAG_PANIC, []) end])
  | 21%nat => match ser_gm directed g with
          | Some w => match deser_gm directed w with
                      | Some g' => (g', (TAG_UNIT, []) :: battery directed g')
                      | None => (g, [(TAG_ERR, [])]) end
          | None => (g, [(TAG_PANIC, [])])
          end
  | 22%nat => match deser_gm directed (gwire_of_nums a) with
          | Some g' => (g', (TAG_UNIT, []) :: battery directed g')
          | None => (g, [(TAG_ERR, [])])
          end
  | _ => GraphMapM.step directed debug g o
  end.

Fixpoint run (directed debug : bool) (g : gm) (ops : list line) : list (list line) :=
  match ops with
  | [] => []
  | o :: rest => let '(g', ls) := step directed debug g o in ls :: run directed debug g' rest
  end.

Definition run_case (header : list Z) (ops : list line) : list (list line) :=
  run (Z.eqb (argz header 0) 1) (Z.eqb (argz header 1) 1) gm_new ops.
