(* C06b: what GraphMap, MatrixGraph, Csr and adj::List show through the visit traits, computed from
   the model functions of Model/GraphMapM.v, MatrixM.v, CsrM.v, AdjListM.v (the same functions the
   C03 / C04 / C05 theorems are about), as one [fview] value per state (Model/FullView.v).
   The four models reuse names (gnodes, add_edge, neighbors, ...): they are required without
   being imported and every model function is written with its module name.
   No proofs in this file. *)
From PG Require Import Lib.Io Model.FullView Model.FullViewOf.
From PG Require Model.GraphMapM Model.MatrixM Model.CsrM Model.AdjListM.

Definition of_opt {A} (o : option A) : res A := match o with Some x => Ok x | None => Panic end.

(* ================= GraphMap =================
   NodeId = the node value, to_index = its position in the node map (NodeCompactIndexable:
   node_bound = node_count); EdgeIndexable: to_index((a, b)) = position of edge_key(a, b) in the
   edge map, edge_bound = edge_count.
     node_identifiers / node_references : the node map in order (the weight of a node is the node)
     edges(a)                           : GraphMapM.edges_of            (a, b, w) per neighbour
     edges_directed(a, Incoming)        : GraphMapM.edges_directed .. false   (b, a, w)
     neighbors(a), neighbors_directed(a, Incoming)
     edge_references                    : GraphMapM.all_edges, the stored key (a, b)
     is_adjacent(a, b)                  : GraphMapM.contains_edge
     visit_map                          : a HashSet (no length) *)

Fixpoint unflat3 (l : list Z) : list (Z * Z * Z) :=
  match l with a :: b :: w :: r => (a, b, w) :: unflat3 r | _ => [] end.

Definition gm_to_index (g : GraphMapM.gm) (a : Z) : res nat :=
  of_opt (GraphMapM.im_index_of Z.eqb (GraphMapM.gnodes g) a).

Definition gm_edge_index (directed : bool) (g : GraphMapM.gm) (a b : Z) : res nat :=
  of_opt (GraphMapM.im_index_of GraphMapM.zpair_eqb (GraphMapM.gedges g)
            (GraphMapM.edge_key directed a b)).

(* a reported edge (a, b, w) as (to_index((a, b)), to_index(a), to_index(b), w) *)
Definition gm_quad (directed : bool) (g : GraphMapM.gm) (t : Z * Z * Z) : res quad :=
  let '(a, b, w) := t in
  rbind (gm_edge_index directed g a b) (fun e =>
  rbind (gm_to_index g a) (fun i =>
  rbind (gm_to_index g b) (fun j => Ok (e, i, j, w)))).

Definition gm_quads (directed : bool) (g : GraphMapM.gm) (r : res (list Z)) : res (list quad) :=
  rbind r (fun l => rmapM (gm_quad directed g) (unflat3 l)).

(* one row (to_index(a), f a) per node value a *)
Definition gm_rows {A} (g : GraphMapM.gm) (f : Z -> res A) (vs : list Z) : res (list (nat * A)) :=
  rmapM (fun a => rbind (gm_to_index g a) (fun i => rmap (fun x => (i, x)) (f a))) vs.

Definition fview_of_graphmap (directed : bool) (g : GraphMapM.gm) : res fview :=
  let vs := map fst (GraphMapM.gnodes g) in
  let n := length (GraphMapM.gnodes g) in
  let m := length (GraphMapM.gedges g) in
  rbind (rmapM (gm_to_index g) vs) (fun nodes =>
  rbind (gm_rows g (fun a => gm_quads directed g (GraphMapM.edges_of directed g a)) vs) (fun outs =>
  rbind (gm_rows g (fun a => gm_quads directed g (GraphMapM.edges_directed directed g a false)) vs)
    (fun ins =>
  rbind (gm_rows g (fun a => rmapM (gm_to_index g) (GraphMapM.neighbors directed g a)) vs) (fun nbs =>
  rbind (gm_rows g (fun a => rmapM (gm_to_index g)
                               (GraphMapM.neighbors_directed directed g a false)) vs) (fun nbins =>
  rbind (gm_quads directed g (Ok (GraphMapM.all_edges g))) (fun erefs =>
  rbind (gm_rows g (fun a => rmapM (gm_to_index g)
                               (filter (fun b => GraphMapM.contains_edge directed g a b) vs)) vs)
    (fun adjs =>
  Ok (mkFv directed n None (Some m) (Some m) (Some n) true true true true
           nodes (combine nodes vs) outs ins nbs nbins erefs adjs)))))))).

(* ================= MatrixGraph =================
   NodeId = the id; node_bound = the id upper bound (also the visit-map length); not compact;
   node_identifiers = the live ids ascending; EdgeCount = nb_edges; no EdgeIndexable: the edge in
   cell (row, column) gets the synthetic id k*row+column, with (row, column) ordered (min, max)
   when undirected (k = 100 in the harness; the ids are distinct as long as the matrix capacity
   is at most k).  IntoEdgesDirected only for directed graphs.
     edges(a)                    : MatrixM.edges_of .. a false   (a, c, w), columns ascending
     edges_directed(a, Incoming) : MatrixM.edges_of .. a true    (r, a, w), rows ascending
     neighbors                   : the targets (sources) of those
     edge_references             : MatrixM.edge_references (undirected: row >= column)
     is_adjacent(a, b)           : MatrixM.has_edge *)

Definition mx_id (k : nat) (directed : bool) (r c : nat) : nat :=
  if directed then k * r + c else k * Nat.min r c + Nat.max r c.

Definition mx_quad (k : nat) (directed : bool) (t : nat * nat * nat) : quad :=
  let '(r, c, w) := t in (mx_id k directed r c, r, c, zn w).

Definition fview_of_matrix_k (k : nat) (directed : bool) (g : MatrixM.mg) : res fview :=
  let nodes := MatrixM.iter_ids g in
  rbind (rmapM (fun a => rmap (fun l => (a, map (mx_quad k directed) l))
                              (MatrixM.edges_of directed g a false)) nodes) (fun outs =>
  rbind (if directed
         then rmapM (fun a => rmap (fun l => (a, map (mx_quad k directed) l))
                                   (MatrixM.edges_of directed g a true)) nodes
         else Ok []) (fun ins =>
  rbind (MatrixM.edge_references directed g) (fun er =>
  Ok (mkFv directed (MatrixM.ub g) (Some (MatrixM.ub g)) (Some (MatrixM.nbe g)) None
           (Some (MatrixM.ids_len g)) false true directed true
           nodes
           (map (fun a => (a, match MatrixM.get_node_weight g a with
                              | Some w => zn w | None => 0%Z end)) nodes)
           outs ins (mapv (map q_tgt) outs) (mapv (map q_src) ins)
           (map (mx_quad k directed) er)
           (map (fun a => (a, filter (MatrixM.has_edge directed g a) nodes)) nodes))))).

Definition fview_of_matrix : bool -> MatrixM.mg -> res fview := fview_of_matrix_k 100.

(* ================= Csr =================
   Compact, nodes 0 .. n-1, visit map of length n, EdgeCount, no EdgeIndexable, no in-lists.
     edges(a)          : row a: ids = positions in the column vector (CsrM.zip3 without skipping)
     neighbors(a)      : CsrM.neighbors_slice
     edge_references   : CsrM.erefs_loop: all rows in order; undirected: an edge stored in both
                         rows only from the row of its smaller endpoint.  So an undirected edge has
                         one id in edge_references and another in edges(larger endpoint):
                         ids are comparable only when directed.
     is_adjacent(a, b) : CsrM.contains_edge *)

Definition csr_edges (g : CsrM.csr) (a : nat) : res (list quad) :=
  rbind (CsrM.neighbors_of g a) (fun '(s, ts) =>
  rmap (fun ws => quads_of (CsrM.zip3 false s a ts ws)) (CsrM.edges_slice g a)).

Fixpoint rfilter {A} (f : A -> res bool) (l : list A) : res (list A) :=
  match l with
  | [] => Ok []
  | h :: t => rbind (f h) (fun b => rmap (fun r => if b then h :: r else r) (rfilter f t))
  end.

Definition fview_of_csr (directed : bool) (g : CsrM.csr) : res fview :=
  let n := CsrM.node_count g in
  let nodes := seq 0 n in
  rbind (rmapM (fun a => rmap (fun l => (a, l)) (csr_edges g a)) nodes) (fun outs =>
  rbind (rmapM (fun a => rmap (fun l => (a, l)) (CsrM.neighbors_slice g a)) nodes) (fun nbs =>
  rbind (CsrM.erefs_loop directed g (CsrM.row g) 0 0) (fun er =>
  rbind (rmapM (fun a => rmap (fun l => (a, l)) (rfilter (CsrM.contains_edge g a) nodes)) nodes)
    (fun adjs =>
  Ok (mkFv directed n (Some n) (Some (CsrM.edge_count directed g)) None (Some n)
           true directed false true
           nodes (combine nodes (map zn (CsrM.nweights g)))
           outs [] nbs [] (quads_of er) adjs))))).

(* ================= adj::List =================
   Directed only, compact, nodes 0 .. n-1 with unit weights (0), visit map of length n, no
   EdgeIndexable: the edge (from, successor position) gets the synthetic id k*from+position
   (k = 100 in the harness; distinct as long as no row is longer than k).  No in-lists; parallel
   edges are kept.
     edges(a)          : row a in order;  neighbors(a) : AdjListM.al_neighbors
     edge_references   : all rows in order
     is_adjacent(a, b) : AdjListM.al_contains_edge *)

Definition al_row_quads (k a : nat) (r : list (nat * nat)) : list quad :=
  map (fun '(i, (s, w)) => (k * a + i, a, s, zn w)) (combine (seq 0 (length r)) r).

Definition al_edges (k : nat) (g : AdjListM.alist) (a : nat) : res (list quad) :=
  match nth_error g a with None => Panic | Some r => Ok (al_row_quads k a r) end.

Definition fview_of_list_k (k : nat) (g : AdjListM.alist) : res fview :=
  let n := AdjListM.al_node_count g in
  let nodes := seq 0 n in
  rbind (rmapM (fun a => rmap (fun l => (a, l)) (al_edges k g a)) nodes) (fun outs =>
  rbind (rmapM (fun a => rmap (fun l => (a, l)) (AdjListM.al_neighbors g a)) nodes) (fun nbs =>
  Ok (mkFv true n (Some n) (Some (AdjListM.al_edge_count g)) None (Some n)
           true true false true
           nodes (map (fun a => (a, 0%Z)) nodes)
           outs [] nbs []
           (flat_map (fun '(a, r) => al_row_quads k a r) (combine nodes g))
           (map (fun a => (a, filter (AdjListM.al_contains_edge g a) nodes)) nodes)))).

Definition fview_of_list : AdjListM.alist -> res fview := fview_of_list_k 100.
