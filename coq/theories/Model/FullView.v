(* C06: everything a graph shows through the visit traits, as one value (fview); an executable
   consistency checker; and the adaptors Reversed, UndirectedAdaptor, NodeFiltered, EdgeFiltered,
   Frozen as transformers of such values.  No proofs in this file. *)
From PG Require Import Lib.Io.

Definition quad := (nat * nat * nat * Z)%type.          (* (edge id, source, target, weight) as reported *)
Definition q_id (q : quad) : nat := let '(e, _, _, _) := q in e.
Definition q_src (q : quad) : nat := let '(_, s, _, _) := q in s.
Definition q_tgt (q : quad) : nat := let '(_, _, t, _) := q in t.
Definition q_w (q : quad) : Z := let '(_, _, _, w) := q in w.
Definition q_flip (q : quad) : quad := let '(e, s, t, w) := q in (e, t, s, w).

Record fview := mkFv {
  f_directed : bool;                 (* GraphProp::is_directed *)
  f_bound : nat;                     (* NodeIndexable::node_bound *)
  f_vcap : option nat;               (* length of visit_map() when it is a FixedBitSet *)
  f_ecount : option nat;             (* EdgeCount, when implemented *)
  f_ebound : option nat;             (* EdgeIndexable::edge_bound, when implemented *)
  f_ncount : option nat;             (* NodeCount, when implemented *)
  f_compact : bool;                  (* NodeCompactIndexable *)
  f_ids_ok : bool;                   (* edge ids of edges(a) and edge_references are comparable *)
  f_has_in : bool;                   (* IntoEdgesDirected / IntoNeighborsDirected *)
  f_has_adj : bool;                  (* GetAdjacencyMatrix *)
  f_nodes : list nat;                (* node_identifiers, as to_index numbers *)
  f_nrefs : list (nat * Z);          (* node_references: (index, weight) *)
  f_out : list (nat * list quad);    (* a -> edges(a) *)
  f_in : list (nat * list quad);     (* a -> edges_directed(a, Incoming) *)
  f_nb : list (nat * list nat);      (* a -> neighbors(a) *)
  f_nbin : list (nat * list nat);    (* a -> neighbors_directed(a, Incoming) *)
  f_erefs : list quad;               (* edge_references *)
  f_adj : list (nat * list nat)      (* a -> the nodes b with is_adjacent(&adjacency_matrix(), a, b) *)
}.

Fixpoint assoc {A} (l : list (nat * A)) (k : nat) : option A :=
  match l with [] => None | (k', x) :: t => if Nat.eqb k' k then Some x else assoc t k end.
Definition assocl {A} (l : list (nat * list A)) (k : nat) : list A :=
  match assoc l k with Some x => x | None => [] end.
Fixpoint memn (x : nat) (l : list nat) : bool :=
  match l with [] => false | h :: t => orb (Nat.eqb h x) (memn x t) end.
Fixpoint nodupn (l : list nat) : bool :=
  match l with [] => true | h :: t => andb (negb (memn h t)) (nodupn t) end.

(* ---- multiset equality of quads, with or without the id component ---- *)
Definition quad_eqb (ids : bool) (p q : quad) : bool :=
  andb (orb (negb ids) (Nat.eqb (q_id p) (q_id q)))
       (andb (Nat.eqb (q_src p) (q_src q)) (andb (Nat.eqb (q_tgt p) (q_tgt q)) (Z.eqb (q_w p) (q_w q)))).
Fixpoint remove_one (ids : bool) (q : quad) (l : list quad) : option (list quad) :=
  match l with
  | [] => None
  | h :: t => if quad_eqb ids q h then Some t else option_map (cons h) (remove_one ids q t)
  end.
Fixpoint same_multiset (ids : bool) (l1 l2 : list quad) : bool :=
  match l1 with
  | [] => match l2 with [] => true | _ => false end
  | q :: t => match remove_one ids q l2 with Some l2' => same_multiset ids t l2' | None => false end
  end.

(* ---- what edges(a) / edges_directed(a, Incoming) must show, given edge_references ---- *)
Definition expect_out (directed : bool) (erefs : list quad) (a : nat) : list quad :=
  flat_map (fun q =>
    if Nat.eqb (q_src q) a then [q]
    else if andb (negb directed) (Nat.eqb (q_tgt q) a) then [q_flip q] else []) erefs.
Definition expect_in (directed : bool) (erefs : list quad) (a : nat) : list quad :=
  flat_map (fun q =>
    if Nat.eqb (q_tgt q) a then [q]
    else if andb (negb directed) (Nat.eqb (q_src q) a) then [q_flip q] else []) erefs.

Definition adjacent (directed : bool) (erefs : list quad) (a b : nat) : bool :=
  existsb (fun q => orb (andb (Nat.eqb (q_src q) a) (Nat.eqb (q_tgt q) b))
                        (andb (negb directed) (andb (Nat.eqb (q_src q) b) (Nat.eqb (q_tgt q) a)))) erefs.

Definition list_eqb (l1 l2 : list nat) : bool :=
  andb (Nat.eqb (length l1) (length l2)) (forallb (fun '(x, y) => Nat.eqb x y) (combine l1 l2)).

Definition opt_le (x : nat) (o : option nat) : bool := match o with Some c => Nat.ltb x c | None => true end.
Definition opt_is (o : option nat) (n : nat) : bool := match o with Some c => Nat.eqb c n | None => true end.

(* the individual conditions; fv_ok is their conjunction.  The number returned by fv_check is the
   first failing condition (0 = consistent). *)
Definition c_nodes (f : fview) : bool :=
  andb (nodupn (f_nodes f))
  (andb (forallb (fun a => andb (Nat.ltb a (f_bound f)) (opt_le a (f_vcap f))) (f_nodes f))
  (andb (opt_is (f_ncount f) (length (f_nodes f)))
        (orb (negb (f_compact f))
             (andb (Nat.eqb (length (f_nodes f)) (f_bound f))
                   (forallb (fun i => memn i (f_nodes f)) (seq 0 (f_bound f))))))).
Definition c_nrefs (f : fview) : bool := list_eqb (map fst (f_nrefs f)) (f_nodes f).
Definition c_erefs (f : fview) : bool :=
  andb (forallb (fun q => andb (memn (q_src q) (f_nodes f)) (memn (q_tgt q) (f_nodes f))) (f_erefs f))
  (andb (opt_is (f_ecount f) (length (f_erefs f)))
        (orb (negb (f_ids_ok f))
             (andb (nodupn (map q_id (f_erefs f)))
                   (forallb (fun q => opt_le (q_id q) (f_ebound f)) (f_erefs f))))).
Definition c_keys (f : fview) : bool :=
  andb (list_eqb (map fst (f_out f)) (f_nodes f))
  (andb (list_eqb (map fst (f_nb f)) (f_nodes f))
        (orb (negb (f_has_in f))
             (andb (list_eqb (map fst (f_in f)) (f_nodes f)) (list_eqb (map fst (f_nbin f)) (f_nodes f))))).
Definition c_out (f : fview) : bool :=
  forallb (fun a => andb (same_multiset (f_ids_ok f) (assocl (f_out f) a) (expect_out (f_directed f) (f_erefs f) a))
                         (list_eqb (assocl (f_nb f) a) (map q_tgt (assocl (f_out f) a)))) (f_nodes f).
Definition c_in (f : fview) : bool :=
  orb (negb (f_has_in f))
      (forallb (fun a => andb (same_multiset (f_ids_ok f) (assocl (f_in f) a) (expect_in (f_directed f) (f_erefs f) a))
                              (list_eqb (assocl (f_nbin f) a) (map q_src (assocl (f_in f) a)))) (f_nodes f)).
Definition c_adj (f : fview) : bool :=
  orb (negb (f_has_adj f))
      (forallb (fun a => forallb (fun b => Bool.eqb (memn b (assocl (f_adj f) a)) (adjacent (f_directed f) (f_erefs f) a b))
                                 (f_nodes f)) (f_nodes f)).

Definition fv_check (f : fview) : nat :=
  if negb (c_nodes f) then 1 else if negb (c_nrefs f) then 2 else if negb (c_erefs f) then 3
  else if negb (c_keys f) then 4 else if negb (c_out f) then 5 else if negb (c_in f) then 6
  else if negb (c_adj f) then 7 else 0.
Definition fv_ok (f : fview) : bool := Nat.eqb (fv_check f) 0.

(* ---- adaptors ---- *)
Definition mapv {A B} (g : A -> B) (l : list (nat * A)) : list (nat * B) := map (fun '(k, x) => (k, g x)) l.

(* Reversed(g): needs the in-lists of g *)
Definition fv_reversed (f : fview) : fview :=
  mkFv (f_directed f) (f_bound f) (f_vcap f) (f_ecount f) (f_ebound f) (f_ncount f) (f_compact f) (f_ids_ok f)
       (f_has_in f) (f_has_adj f) (f_nodes f) (f_nrefs f)
       (mapv (map q_flip) (f_in f)) (mapv (map q_flip) (f_out f)) (f_nbin f) (f_nb f)
       (map q_flip (f_erefs f))
       (map (fun a => (a, filter (fun b => memn a (assocl (f_adj f) b)) (f_nodes f))) (map fst (f_adj f))).

(* UndirectedAdaptor(g): edges(a) = edges_directed(a, Incoming).chain(edges_directed(a, Outgoing)), references
   passed through unchanged; only IntoNeighbors / IntoEdges / node traits / IntoEdgeReferences exist *)
Definition fv_undirected (f : fview) : fview :=
  mkFv false (f_bound f) (f_vcap f) None None (f_ncount f) (f_compact f) (f_ids_ok f) false false
       (f_nodes f) (f_nrefs f)
       (map (fun a => (a, assocl (f_in f) a ++ assocl (f_out f) a)) (f_nodes f)) []
       (map (fun a => (a, assocl (f_nbin f) a ++ assocl (f_nb f) a)) (f_nodes f)) []
       (f_erefs f) [].

(* NodeFiltered(g, keep) *)
Definition fv_node_filtered (keep : nat -> bool) (f : fview) : fview :=
  let kq := fun q => andb (keep (q_src q)) (keep (q_tgt q)) in
  let nodes := filter keep (f_nodes f) in
  mkFv (f_directed f) (f_bound f) (f_vcap f) None (f_ebound f) None false (f_ids_ok f) (f_has_in f) false
       nodes (filter (fun '(a, _) => keep a) (f_nrefs f))
       (map (fun a => (a, filter kq (assocl (f_out f) a))) nodes)
       (if f_has_in f then map (fun a => (a, filter kq (assocl (f_in f) a))) nodes else [])
       (map (fun a => (a, filter keep (assocl (f_nb f) a))) nodes)
       (if f_has_in f then map (fun a => (a, filter keep (assocl (f_nbin f) a))) nodes else [])
       (filter kq (f_erefs f)) [].

(* EdgeFiltered(g, keep) with a predicate on the reported edge *)
Definition fv_edge_filtered (keep : quad -> bool) (f : fview) : fview :=
  mkFv (f_directed f) (f_bound f) (f_vcap f) None (f_ebound f) (f_ncount f) (f_compact f) (f_ids_ok f) (f_has_in f) false
       (f_nodes f) (f_nrefs f)
       (mapv (filter keep) (f_out f)) (mapv (filter keep) (f_in f))
       (map (fun '(a, l) => (a, map q_tgt (filter keep l))) (f_out f))
       (map (fun '(a, l) => (a, map q_src (filter keep l))) (f_in f))
       (filter keep (f_erefs f)) [].

(* ---- line grammar ----
   header = [directed; bound; vcap(-1); ecount(-1); ebound(-1); debug; kind; ncount(-1); compact; ids_ok; has_in; has_adj]
   ops: 0 node a | 1 out a (e s t w)* | 2 in a (e s t w)* | 3 nb a t* | 4 nbin a s* | 5 erefs (e s t w)* | 6 nrefs (a w)* | 7 adj a b*
   queries: 10 consistent | 11 adaptor k p1 p2 | 12 adaptor2 k1 p1 q1 k2 p2 q2 *)
Fixpoint quads_of (l : list Z) : list quad :=
  match l with
  | e :: s :: t :: w :: rest => (nz e, nz s, nz t, w) :: quads_of rest
  | _ => []
  end.
Fixpoint pairs_of (l : list Z) : list (nat * Z) :=
  match l with a :: w :: rest => (nz a, w) :: pairs_of rest | _ => [] end.
Definition optz (z : Z) : option nat := if Z.ltb z 0 then None else Some (nz z).
Definition bz (z : Z) : bool := Z.eqb z 1.

Definition fv_init (h : list Z) : fview :=
  mkFv (bz (argz h 0)) (arg h 1) (optz (argz h 2)) (optz (argz h 3)) (optz (argz h 4)) (optz (argz h 7))
       (bz (argz h 8)) (bz (argz h 9)) (bz (argz h 10)) (bz (argz h 11)) [] [] [] [] [] [] [] [].

Definition fv_add (f : fview) (o : line) : fview :=
  let '(code, a) := o in
  let with_ := fun nodes nrefs out inn nb nbin erefs adj =>
    mkFv (f_directed f) (f_bound f) (f_vcap f) (f_ecount f) (f_ebound f) (f_ncount f) (f_compact f) (f_ids_ok f)
         (f_has_in f) (f_has_adj f) nodes nrefs out inn nb nbin erefs adj in
  match code with
  | 0 => with_ (f_nodes f ++ [arg a 0]) (f_nrefs f) (f_out f) (f_in f) (f_nb f) (f_nbin f) (f_erefs f) (f_adj f)
  | 1 => with_ (f_nodes f) (f_nrefs f) (f_out f ++ [(arg a 0, quads_of (tl a))]) (f_in f) (f_nb f) (f_nbin f) (f_erefs f) (f_adj f)
  | 2 => with_ (f_nodes f) (f_nrefs f) (f_out f) (f_in f ++ [(arg a 0, quads_of (tl a))]) (f_nb f) (f_nbin f) (f_erefs f) (f_adj f)
  | 3 => with_ (f_nodes f) (f_nrefs f) (f_out f) (f_in f) (f_nb f ++ [(arg a 0, map nz (tl a))]) (f_nbin f) (f_erefs f) (f_adj f)
  | 4 => with_ (f_nodes f) (f_nrefs f) (f_out f) (f_in f) (f_nb f) (f_nbin f ++ [(arg a 0, map nz (tl a))]) (f_erefs f) (f_adj f)
  | 5 => with_ (f_nodes f) (f_nrefs f) (f_out f) (f_in f) (f_nb f) (f_nbin f) (quads_of a) (f_adj f)
  | 6 => with_ (f_nodes f) (pairs_of a) (f_out f) (f_in f) (f_nb f) (f_nbin f) (f_erefs f) (f_adj f)
  | 7 => with_ (f_nodes f) (f_nrefs f) (f_out f) (f_in f) (f_nb f) (f_nbin f) (f_erefs f) (f_adj f ++ [(arg a 0, map nz (tl a))])
  | _ => f
  end.

Definition TAG_BOOL := 0. Definition TAG_PANIC := 2. Definition TAG_NAT := 11.
Definition TAG_VHDR := 67. Definition TAG_NODES := 16. Definition TAG_NREFS := 68. Definition TAG_OUT := 17.
Definition TAG_IN := 18. Definition TAG_NB := 22. Definition TAG_NBIN := 69. Definition TAG_EREFS := 8. Definition TAG_ADJ := 70.

Definition zopt (o : option nat) : Z := match o with Some n => zn n | None => (-1)%Z end.
Definition flat_quads (l : list quad) : list Z := flat_map (fun '(e, s, t, w) => [zn e; zn s; zn t; w]) l.

Definition fv_lines (f : fview) : list line :=
  (TAG_VHDR, [zb (f_directed f); zn (f_bound f); zopt (f_vcap f); zopt (f_ecount f); zopt (f_ebound f);
              zopt (f_ncount f); zb (f_compact f)]) ::
  (TAG_NODES, zns (f_nodes f)) ::
  (TAG_NREFS, flat_map (fun '(a, w) => [zn a; w]) (f_nrefs f)) ::
  map (fun '(a, l) => (TAG_OUT, zn a :: flat_quads l)) (f_out f) ++
  map (fun '(a, l) => (TAG_NB, zn a :: zns l)) (f_nb f) ++
  (if f_has_in f then map (fun '(a, l) => (TAG_IN, zn a :: flat_quads l)) (f_in f) ++
                      map (fun '(a, l) => (TAG_NBIN, zn a :: zns l)) (f_nbin f) else []) ++
  [(TAG_EREFS, flat_quads (f_erefs f))] ++
  (if f_has_adj f then map (fun '(a, l) => (TAG_ADJ, zn a :: zns l)) (f_adj f) else []).

(* adaptor kinds: 1 Reversed | 2 UndirectedAdaptor | 3 NodeFiltered (keep n when bit (n mod 30) of p1 is set, or p2 = n)
   4 EdgeFiltered (keep an edge when its weight mod p1 <> p2) | 5 Frozen / reference delegation (identity) *)
Definition node_pred (p1 p2 : Z) (n : nat) : bool :=
  orb (Z.testbit p1 (Z.of_nat (Nat.modulo n 20))) (Z.eqb p2 (zn n)).
Definition edge_pred (p1 p2 : Z) (q : quad) : bool :=
  negb (Z.eqb (Z.modulo (q_w q) (Z.max 1 p1)) p2).

Definition apply_adaptor (k : nat) (p1 p2 : Z) (f : fview) : option fview :=
  match k with
  | 1 => if f_has_in f then Some (fv_reversed f) else None
  | 2 => if f_has_in f then Some (fv_undirected f) else None
  | 3 => Some (fv_node_filtered (node_pred p1 p2) f)
  | 4 => Some (fv_edge_filtered (edge_pred p1 p2) f)
  | 5 => Some f
  | _ => None
  end.

Definition fv_query (f : fview) (o : line) : list line :=
  let '(code, a) := o in
  match code with
  | 10 => [(TAG_NAT, [zn (fv_check f)])]
  | 11 => match apply_adaptor (arg a 0) (argz a 1) (argz a 2) f with
          | Some g => (TAG_NAT, [zn (fv_check g)]) :: fv_lines g
          | None => [(TAG_PANIC, [])] end
  | 12 => match apply_adaptor (arg a 0) (argz a 1) (argz a 2) f with
          | Some g => match apply_adaptor (arg a 3) (argz a 4) (argz a 5) g with
                      | Some h => (TAG_NAT, [zn (fv_check h)]) :: fv_lines h
                      | None => [(TAG_PANIC, [])] end
          | None => [(TAG_PANIC, [])] end
  | _ => [(TAG_PANIC, [])]
  end.

Fixpoint run (f : fview) (ops : list line) : list (list line) :=
  match ops with
  | [] => []
  | o :: rest =>
      if Nat.ltb (fst o) 10 then [] :: run (fv_add f o) rest
      else fv_query f o :: run f rest
  end.

Definition run_case (header : list Z) (ops : list line) : list (list line) := run (fv_init header) ops.
