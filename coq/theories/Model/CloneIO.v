(* C01 / C02 streams with two more operations: snapshot (keep a clone) and clone_from (overwrite the kept
   clone with the current graph through Clone::clone_from and continue on it).  Both leave the abstract
   state alone, so the model treats them as the identity; what they exercise is the implementation's
   clone_from, which must copy every field (free lists included).  No proofs in this file. *)
From PG Require Import Lib.Io Model.GraphM Model.StableM.
From PG Require Model.GraphIO Model.StableIO.

Definition is_clone_op (code : nat) : bool := orb (Nat.eqb code 28) (Nat.eqb code 29).

Section C.
  Variable cap : nat.
  Variable capcheck debug : bool.

  Definition gstep (s : GraphIO.st) (o : line) : GraphIO.st * list line :=
    if is_clone_op (fst o) then (s, (GraphIO.TAG_UNIT, []) :: GraphIO.battery cap (fst s) (snd s))
    else GraphIO.step cap capcheck debug s o.
  Fixpoint grun (s : GraphIO.st) (ops : list line) : list (list line) :=
    match ops with [] => [] | o :: rest => let '(s', ls) := gstep s o in ls :: grun s' rest end.

  Definition sstep (d : bool) (s : sgraph) (o : line) : sgraph * list line :=
    if is_clone_op (fst o) then (s, (StableIO.TAG_UNIT, []) :: StableIO.battery cap d s)
    else StableIO.step cap capcheck debug d s o.
  Fixpoint srun (d : bool) (s : sgraph) (ops : list line) : list (list line) :=
    match ops with [] => [] | o :: rest => let '(s', ls) := sstep d s o in ls :: srun d s' rest end.
End C.

(* header = [directed; debug; cap; capcheck] *)
Definition run_case_g (header : list Z) (ops : list line) : list (list line) :=
  grun (arg header 2) (Z.eqb (argz header 3) 1) (Z.eqb (argz header 1) 1) (Z.eqb (argz header 0) 1, g_empty) ops.
Definition run_case_s (header : list Z) (ops : list line) : list (list line) :=
  srun (arg header 2) (Z.eqb (argz header 3) 1) (Z.eqb (argz header 1) 1) (Z.eqb (argz header 0) 1) (sg_empty (arg header 2)) ops.
