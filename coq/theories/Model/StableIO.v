(* Operation decoding and the observation battery for the StableGraph model. *)
From PG Require Import Lib.Io Model.GraphM Model.StableM.

Definition TAG_BOOL := 0.   Definition TAG_PANIC := 2.  Definition TAG_IDX := 3.
Definition TAG_UNIT := 4.   Definition TAG_COUNTS := 5. Definition TAG_FUEL := 10.
Definition TAG_NONE := 13.  Definition TAG_PAIR := 14. Definition TAG_LIMIT := 20. Definition TAG_SOME := 21.
Definition TAG_NBO := 23.   Definition TAG_NBI := 24.  Definition TAG_EDO := 26.   Definition TAG_EDI := 27.
Definition TAG_NW := 9.     Definition TAG_EL := 30.   Definition TAG_NBU := 31.   Definition TAG_EXTO := 32.
Definition TAG_EXTI := 33.  Definition TAG_ELIMIT := 34. Definition TAG_OOB := 35.  Definition TAG_WALK := 36.
Definition TAG_ECONN := 37. Definition TAG_MISSED := 38. Definition TAG_NODES := 16. Definition TAG_EREFS := 8.

Definition rline {A} (f : A -> line) (r : res A) : line :=
  match r with Ok a => f a | Panic => (TAG_PANIC, []) | OutOfFuel => (TAG_FUEL, []) end.

Definition zo (o : option nat) : Z := match o with Some w => zn w | None => (-1)%Z end.

Definition flat_eref (l : list (nat * (nat * nat) * option nat)) : list Z :=
  flat_map (fun '(i, (s, t), w) => [zn i; zn s; zn t; zo w]) l.

Section B.
  Variable cap : nat.
  Variable capcheck debug : bool.

  Definition s_next (s : sgraph) (a : nat) : nat * nat :=
    match get_node s a with Some n => nnext n | None => (cap, cap) end.

  Definition live_nodes (s : sgraph) : list (nat * nat) :=
    flat_map (fun '(i, n) => match nwt n with Some w => [(i, w)] | None => [] end)
             (combine (seq 0 (length (gnodes (sg s)))) (gnodes (sg s))).

  Definition s_externals (directed : bool) (s : sgraph) (k : nat) : list nat :=
    flat_map (fun '(i, n) =>
      match nwt n with
      | None => []
      | Some _ => if andb (Nat.eqb (sel (nnext n) k) cap) (orb directed (Nat.eqb (sel (nnext n) (1 - k)) cap))
                  then [i] else []
      end) (combine (seq 0 (length (gnodes (sg s)))) (gnodes (sg s))).

  Definition battery (directed : bool) (s : sgraph) : list line :=
    (TAG_COUNTS, [zn (ncount s); zn (ecount s); zn (node_bound s); zn (edge_bound s)]) ::
    (TAG_NODES, flat_map (fun '(i, w) => [zn i; zn w]) (live_nodes s)) ::
    (TAG_EREFS, flat_map (fun '(i, e) => match ewt e with
                                         | Some w => [zn i; zn (fst (enode e)); zn (snd (enode e)); zn w]
                                         | None => [] end)
                         (combine (seq 0 (length (gedges (sg s)))) (gedges (sg s)))) ::
    (TAG_EXTO, zns (s_externals directed s 0)) ::
    (TAG_EXTI, zns (s_externals directed s 1)) ::
    flat_map (fun '(a, _) =>
      [rline (fun l => (TAG_NBO, zn a :: zns (map snd l))) (neighbors_directed_nx cap directed (sg s) a (s_next s a) 0);
       rline (fun l => (TAG_NBI, zn a :: zns (map snd l))) (neighbors_directed_nx cap directed (sg s) a (s_next s a) 1);
       rline (fun l => (TAG_NBU, zn a :: zns (map snd l))) (neighbors_undirected_nx (sg s) a (s_next s a));
       rline (fun l => (TAG_EDO, zn a :: flat_eref l)) (edges_directed_nx directed (sg s) a (s_next s a) 0);
       rline (fun l => (TAG_EDI, zn a :: flat_eref l)) (edges_directed_nx directed (sg s) a (s_next s a) 1)])
      (live_nodes s).

  Definition gerr_line (e : gerr) : line :=
    match e with
    | NodeIxLimit => (TAG_LIMIT, [])
    | EdgeIxLimit => (TAG_ELIMIT, [])
    | NodeMissed i => (TAG_MISSED, [zn i])
    | NodeOutBounds => (TAG_OOB, [])
    end.

  Definition res_idx_line (panicking : bool) (r : gerr + nat) : line :=
    match r with
    | inr i => (TAG_IDX, [zn i])
    | inl e => if panicking then (TAG_PANIC, []) else gerr_line e
    end.

  Fixpoint triples (l : list Z) : list (nat * nat * nat) :=
    match l with
    | a :: b :: w :: rest => (nz a, nz b, nz w) :: triples rest
    | _ => []
    end.

  Definition keepmod (m r : nat) (w : nat) : bool := negb (Nat.eqb (Nat.modulo w m) r).
  Definition opt_nat_line (o : option nat) : line :=
    match o with None => (TAG_NONE, []) | Some w => (TAG_SOME, [zn w]) end.

  Definition mutr {A} (d : bool) (s : sgraph) (r : res (A * sgraph)) (f : A -> line) : sgraph * list line :=
    match r with
    | Ok (x, s') => (s', f x :: battery d s')
    | Panic => (s, (TAG_PANIC, []) :: battery d s)
    | OutOfFuel => (s, [(TAG_FUEL, [])])
    end.

  Definition g_dump (g : graph nat nat) : list line :=
    [(TAG_NW, map (fun n => zn (nwt n)) (gnodes g));
     (TAG_EL, flat_map (fun e => [zn (fst (enode e)); zn (snd (enode e)); zn (ewt e)]) (gedges g))].

  Definition step (d : bool) (s : sgraph) (o : line) : sgraph * list line :=
    let '(code, a) := o in
    match code with
    | 0 | 1 => mutr d s (s_try_add_node cap capcheck debug s (arg a 0)) (res_idx_line (Nat.eqb code 0))
    | 2 | 3 => mutr d s (s_try_add_edge cap capcheck debug s (arg a 0) (arg a 1) (arg a 2)) (res_idx_line (Nat.eqb code 2))
    | 4 | 5 => mutr d s (s_try_update_edge cap capcheck debug d s (arg a 0) (arg a 1) (arg a 2)) (res_idx_line (Nat.eqb code 4))
    | 6 => mutr d s (s_remove_node cap debug s (arg a 0)) opt_nat_line
    | 7 => mutr d s (s_remove_edge cap debug s (arg a 0)) opt_nat_line
    | 8 => let s' := s_reverse s in (s', (TAG_UNIT, []) :: battery d s')
    | 9 => let s' := sg_empty cap in (s', (TAG_UNIT, []) :: battery d s')
    | 10 => let s' := s_clear_edges cap s in (s', (TAG_UNIT, []) :: battery d s')
    | 11 => mutr d s (rmap (fun s' => (tt, s')) (s_retain_nodes cap debug (keepmod (arg a 0) (arg a 1)) s))
                 (fun _ => (TAG_UNIT, []))
    | 12 => mutr d s (rmap (fun s' => (tt, s')) (s_retain_edges cap debug (keepmod (arg a 0) (arg a 1)) s))
                 (fun _ => (TAG_UNIT, []))
    | 13 => let '(ok, s') := s_extend_with_edges cap capcheck debug s (triples a) in
            (s', (if ok then (TAG_UNIT, []) else (TAG_PANIC, [])) :: battery d s')
    | 14 => mutr d s (rmap (fun s' => (tt, s'))
                       (s_filter_map cap capcheck debug
                          (fun w => if keepmod (arg a 0) (arg a 1) w then Some (S w) else None)
                          (fun w => if keepmod (arg a 2) (arg a 3) w then Some (S w) else None) s))
                 (fun _ => (TAG_UNIT, []))
    | 15 => let s' := s_map S s in (s', (TAG_UNIT, []) :: battery d s')
    | 16 => match get_node s (arg a 0) with
            | Some n => mutr d s (rmap (fun g' => (tt, with_g s g'))
                                   (upd_node (sg s) (arg a 0) (fun n => mkNode (Some (arg a 1)) (nnext n))))
                             (fun _ => (TAG_BOOL, [1%Z]))
            | None => (s, (TAG_BOOL, [0%Z]) :: battery d s)
            end
    | 17 => match nth_error (gedges (sg s)) (arg a 0) with
            | Some e =>
                match ewt e with
                | Some _ => mutr d s (rmap (fun g' => (tt, with_g s g'))
                                       (upd_edge (sg s) (arg a 0) (fun e => mkEdge (Some (arg a 1)) (enext e) (enode e))))
                                 (fun _ => (TAG_BOOL, [1%Z]))
                | None => (s, (TAG_BOOL, [0%Z]) :: battery d s)
                end
            | None => (s, (TAG_BOOL, [0%Z]) :: battery d s)
            end
    | 18 => (s, [opt_nat_line (match get_node s (arg a 0) with Some n => nwt n | None => None end)])
    | 19 => (s, [opt_nat_line (match nth_error (gedges (sg s)) (arg a 0) with Some e => ewt e | None => None end)])
    | 20 => (s, [match nth_error (gedges (sg s)) (arg a 0) with
                 | Some e => match ewt e with
                             | Some _ => (TAG_PAIR, [zn (fst (enode e)); zn (snd (enode e))])
                             | None => (TAG_NONE, []) end
                 | None => (TAG_NONE, []) end])
    | 21 => (s, [rline opt_nat_line (s_find_edge d s (arg a 0) (arg a 1))])
    | 22 => (s, [rline (fun o => match o with None => (TAG_NONE, [])
                                             | Some (e, k) => (TAG_PAIR, [zn e; zn k]) end)
                       (s_find_edge_undirected s (arg a 0) (arg a 1))])
    | 23 => (s, [rline (fun l => (TAG_ECONN, flat_eref l))
                       (edges_connecting_nx d (sg s) (arg a 0) (s_next s (arg a 0)) (arg a 1))])
    | 24 => (s, [(TAG_BOOL, [zb (contains_node s (arg a 0))])])
    | 25 => (s, [rline (fun l => (TAG_WALK, flat_map (fun '(e, n) => [zn e; zn n]) l))
                       (neighbors_directed_nx cap d (sg s) (arg a 0) (s_next s (arg a 0)) (arg a 1))])
    | 26 => (s, match to_graph cap capcheck debug s with
                | Some g => g_dump g
                | None => [(TAG_PANIC, [])] end)
    | 27 => match to_graph cap capcheck debug s with
            | Some g => let s' := from_graph cap g in (s', (TAG_UNIT, []) :: battery d s')
            | None => (s, [(TAG_PANIC, [])])
            end
    | _ => (s, [(TAG_PANIC, [])])
    end.

  Fixpoint run (d : bool) (s : sgraph) (ops : list line) : list (list line) :=
    match ops with
    | [] => []
    | o :: rest => let '(s', ls) := step d s o in ls :: run d s' rest
    end.
End B.

(* header = [directed; debug; cap; capcheck] *)
Definition run_case (header : list Z) (ops : list line) : list (list line) :=
  run (arg header 2) (Z.eqb (argz header 3) 1) (Z.eqb (argz header 1) 1)
      (Z.eqb (argz header 0) 1) (sg_empty (arg header 2)) ops.
