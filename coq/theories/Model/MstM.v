(* Executable mirrors of min_spanning_tree (Kruskal) and min_spanning_tree_prim
   (src/algo/min_spanning_tree.rs) over a view.  Heap ties are broken first-in first-out.
   No proofs in this file. *)
From PG Require Import Lib.Io Model.View Model.Traversal Model.UnionFindM Model.ShortestM.

(* heap entries: (weight, insertion number) -> (a, b) *)
Definition mheap := list (Z * nat * (nat * nat)).

Definition mle (x y : Z * nat * (nat * nat)) : bool :=
  let '(kx, sx, _) := x in let '(ky, sy, _) := y in
  orb (Z.ltb kx ky) (andb (Z.eqb kx ky) (Nat.leb sx sy)).
Fixpoint mmin (best : Z * nat * (nat * nat)) (l : mheap) : Z * nat * (nat * nat) :=
  match l with [] => best | x :: t => mmin (if mle best x then best else x) t end.
Fixpoint mremove (s : nat) (l : mheap) : mheap :=
  match l with [] => [] | ((k, s', p) as y) :: t => if Nat.eqb s s' then t else y :: mremove s t end.
Definition mpop (h : mheap) : option ((Z * nat * (nat * nat)) * mheap) :=
  match h with [] => None | x :: t => let m := mmin x t in Some (m, mremove (snd (fst m)) h) end.

(* node_map: to_index -> position in the node stream *)
Fixpoint index_in (x : nat) (l : list nat) (i : nat) : option nat :=
  match l with [] => None | y :: t => if Nat.eqb y x then Some i else index_in x t (S i) end.

Fixpoint kruskal_loop (fuel : nat) (v : view) (u : uf) (h : mheap) (acc : list (nat * nat * Z))
  : res (list (nat * nat * Z)) :=
  match fuel with
  | 0 => OutOfFuel
  | S f =>
      match mpop h with
      | None => Ok acc
      | Some ((w, _, (a, b)), h') =>
          match union u a b with
          | (Ok true, u') =>
              match index_in a (vnodes v) 0, index_in b (vnodes v) 0 with
              | Some ao, Some bo => kruskal_loop f v u' h' (acc ++ [(ao, bo, w)])
              | _, _ => Panic                      (* "Edge references unknown node" *)
              end
          | (Ok false, u') => kruskal_loop f v u' h' acc
          | (Panic, _) => Panic
          | (OutOfFuel, _) => OutOfFuel
          end
      end
  end.

Definition heap_of_erefs (es : list (nat * nat * nat * Z)) : mheap :=
  map (fun '(i, (_, s, t, w)) => (w, i, (s, t))) (combine (seq 0 (length es)) es).

Definition kruskal (v : view) : res (list (nat * nat * Z)) :=
  kruskal_loop (S (length (verefs v))) v (uf_new (vbound v)) (heap_of_erefs (verefs v)) [].

(* Prim: edges(a) of the taken node are pushed as (weight, (a, target)) *)
Fixpoint push_edges (a : nat) (es : list eref) (h : mheap) (seq : nat) : mheap * nat :=
  match es with
  | [] => (h, seq)
  | e :: rest => push_edges a rest (h ++ [(ewgt e, seq, (a, tgt e))]) (S seq)
  end.

Fixpoint prim_loop (fuel : nat) (v : view) (taken : list nat) (h : mheap) (seq : nat) (acc : list (nat * nat * Z))
  : res (list (nat * nat * Z)) :=
  match fuel with
  | 0 => OutOfFuel
  | S f =>
      match mpop h with
      | None => Ok acc
      | Some ((w, _, (s, t)), h') =>
          if mem t taken then prim_loop f v taken h' seq acc
          else
            let '(h'', seq') := push_edges t (out_edges v t) h' seq in
            match index_in s (vnodes v) 0, index_in t (vnodes v) 0 with
            | Some so, Some to_ => prim_loop f v (t :: taken) h'' seq' (acc ++ [(so, to_, w)])
            | _, _ => Panic
            end
      end
  end.

(* the iterator is driven to exhaustion; the `nodes_taken.len() == node_count` test that clears the heap
   is evaluated at every call of next() after the node stream: modelled at each emission boundary *)
Fixpoint prim_drive (fuel : nat) (v : view) (taken : list nat) (h : mheap) (seq : nat) (acc : list (nat * nat * Z))
  : res (list (nat * nat * Z)) :=
  match fuel with
  | 0 => OutOfFuel
  | S f =>
      let h0 := if Nat.eqb (length taken) (vnode_count v) then [] else h in
      match mpop h0 with
      | None => Ok acc
      | Some ((w, _, (s, t)), h') =>
          if mem t taken then prim_drive f v taken h' seq acc
          else
            let '(h'', seq') := push_edges t (out_edges v t) h' seq in
            match index_in s (vnodes v) 0, index_in t (vnodes v) 0 with
            | Some so, Some to_ => prim_drive f v (t :: taken) h'' seq' (acc ++ [(so, to_, w)])
            | _, _ => Panic
            end
      end
  end.

Definition prim (v : view) : res (list (nat * nat * Z)) :=
  match vnodes v with
  | [] => Ok []
  | n0 :: _ =>
      let '(h, seq) := push_edges n0 (out_edges v n0) [] 0 in
      prim_drive (4 * trav_fuel v + 4) v [n0] h seq []
  end.

Definition TAG_MSE := 52. Definition TAG_MSN := 53.
Definition rline {A} (f : A -> line) (r : res A) : line :=
  match r with Ok a => f a | Panic => (2, []) | OutOfFuel => (10, []) end.

(* query opcodes: 40 kruskal w0 w1 .. | 41 prim w0 w1 ..   (the node weights, in node_references order:
   the element stream starts with them) *)
Definition mst_query (v : view) (o : line) : list line :=
  let flat := fun l => (TAG_MSE, flat_map (fun '(a, b, w) => [zn a; zn b; w]) l) in
  match fst o with
  | 40 => [(TAG_MSN, snd o); rline flat (kruskal v)]
  | 41 => [(TAG_MSN, snd o); rline flat (prim v)]
  | _ => [(2, [])]
  end.
