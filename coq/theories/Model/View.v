(* The visit-trait interface of a graph as a concrete value: what node_identifiers, edges /
   edges_directed (hence neighbors), node_bound and visit_map() show.  Generic algorithms
   are modelled once, over this record.  No proofs in this file. *)
From PG Require Import Lib.Io.

Definition eref := (nat * nat * Z)%type.   (* (edge id, other endpoint, weight) *)

Record view := mkView {
  vdirected : bool;
  vbound : nat;                        (* NodeIndexable::node_bound *)
  vcap : option nat;                   (* length of visit_map(): FixedBitSet; None = hash set *)
  vnodes : list nat;                   (* node_identifiers order, as to_index numbers *)
  vout : list (nat * list eref);       (* a -> edges(a): (id, target, weight) in iteration order *)
  vin : list (nat * list eref);        (* a -> edges_directed(a, Incoming): (id, source, weight) *)
  vecount : nat;                       (* edge_count *)
  vebound : nat;                       (* EdgeIndexable::edge_bound (0 when the type has none) *)
  verefs : list (nat * nat * nat * Z)  (* edge_references order: (id, source, target, weight) *)
}.

Fixpoint assoc_nat {A} (l : list (nat * A)) (k : nat) : option A :=
  match l with
  | [] => None
  | (k', v) :: t => if Nat.eqb k' k then Some v else assoc_nat t k
  end.

Definition out_edges (v : view) (a : nat) : list eref :=
  match assoc_nat (vout v) a with Some l => l | None => [] end.
Definition in_edges (v : view) (a : nat) : list eref :=
  match assoc_nat (vin v) a with Some l => l | None => [] end.
Definition tgt (e : eref) : nat := snd (fst e).
Definition eid (e : eref) : nat := fst (fst e).
Definition ewgt (e : eref) : Z := snd e.
Definition neighbors (v : view) (a : nat) : list nat := map tgt (out_edges v a).
Definition neighbors_in (v : view) (a : nat) : list nat := map tgt (in_edges v a).
Definition vnode_count (v : view) : nat := length (vnodes v).

(* edge_references in node order: (id, source, target, weight); an undirected edge is
   listed from its first endpoint only when the dump says so — this projection lists every
   out entry, so for undirected views each non-loop edge appears from both endpoints *)
Definition all_out (v : view) : list (nat * nat * nat * Z) :=
  flat_map (fun a => map (fun e => (eid e, a, tgt e, ewgt e)) (out_edges v a)) (vnodes v).

(* ---- visit maps ---- *)
Definition vmap := list nat.
Fixpoint mem (x : nat) (m : vmap) : bool :=
  match m with [] => false | h :: t => orb (Nat.eqb h x) (mem x t) end.

(* VisitMap::visit: true when x was not yet visited; FixedBitSet::put panics out of range *)
Definition visit (v : view) (m : vmap) (x : nat) : res (bool * vmap) :=
  match vcap v with
  | Some c => if Nat.leb c x then Panic else if mem x m then Ok (false, m) else Ok (true, x :: m)
  | None => if mem x m then Ok (false, m) else Ok (true, x :: m)
  end.
Definition is_visited (m : vmap) (x : nat) : bool := mem x m.

(* ---- building a view from the line grammar ----
   header = [directed; node_bound; visit_cap (-1 = unbounded); edge_count; edge_bound]
   opcode 0: node a | 1: out a  e t w  e t w ... | 2: in a  e s w ... | 4: erefs  e s t w  e s t w ... *)
Fixpoint quads_of (l : list Z) : list (nat * nat * nat * Z) :=
  match l with
  | e :: s :: t :: w :: rest => (nz e, nz s, nz t, w) :: quads_of rest
  | _ => []
  end.

Fixpoint erefs_of (l : list Z) : list eref :=
  match l with
  | e :: t :: w :: rest => (nz e, nz t, w) :: erefs_of rest
  | _ => []
  end.

Definition view_init (header : list Z) : view :=
  mkView (Z.eqb (argz header 0) 1) (arg header 1)
         (if Z.ltb (argz header 2) 0 then None else Some (arg header 2)) [] [] []
         (arg header 3) (arg header 4) [].

Definition view_add (v : view) (o : line) : view :=
  let '(code, a) := o in
  match code with
  | 0 => mkView (vdirected v) (vbound v) (vcap v) (vnodes v ++ [arg a 0]) (vout v) (vin v) (vecount v) (vebound v) (verefs v)
  | 1 => mkView (vdirected v) (vbound v) (vcap v) (vnodes v) (vout v ++ [(arg a 0, erefs_of (tl a))]) (vin v)
                (vecount v) (vebound v) (verefs v)
  | 2 => mkView (vdirected v) (vbound v) (vcap v) (vnodes v) (vout v) (vin v ++ [(arg a 0, erefs_of (tl a))])
                (vecount v) (vebound v) (verefs v)
  | 4 => mkView (vdirected v) (vbound v) (vcap v) (vnodes v) (vout v) (vin v) (vecount v) (vebound v) (quads_of a)
  | _ => v
  end.
