(* Executable mirror of /repo/src/dot/mod.rs: graph_fmt and the Escaper, as a function from the
   already formatted weight strings to the character stream.  Characters are code points (N).
   No proofs in this file. *)
From Coq Require Import NArith.
From PG Require Import Lib.Io.

Definition ch := N.
Definition QUOTE : ch := 34%N.  Definition BSLASH : ch := 92%N. Definition NL : ch := 10%N.
Definition LOWER_L : ch := 108%N. Definition SPACE : ch := 32%N.

(* Escaper::write_char *)
Definition escape_char (c : ch) : list ch :=
  if orb (N.eqb c QUOTE) (N.eqb c BSLASH) then [BSLASH; c]
  else if N.eqb c NL then [BSLASH; LOWER_L]
  else [c].
Definition escape (s : list ch) : list ch := flat_map escape_char s.

(* Escaped::fmt: alternate = writeln! with the alternate flag: the formatted text followed by a newline, all through the Escaper *)
Definition escaped (alternate : bool) (s : list ch) : list ch :=
  escape (if alternate then s ++ [NL] else s).

Fixpoint digits_loop (fuel : nat) (n : N) (acc : list ch) : list ch :=
  match fuel with
  | 0 => acc
  | S f => let acc' := (48 + n mod 10)%N :: acc in
           if (n <? 10)%N then acc' else digits_loop f (n / 10)%N acc'
  end.
Definition decimal (n : nat) : list ch := digits_loop 40 (N.of_nat n) [].

Definition str (l : list nat) : list ch := map N.of_nat l.
(* graph / digraph, -- / ->, INDENT *)
Definition S_GRAPH := str [103; 114; 97; 112; 104].
Definition S_DIGRAPH := str [100; 105; 103; 114; 97; 112; 104].
Definition S_OPEN := str [32; 123; 10].           (* space, open brace, newline *)
Definition S_CLOSE := str [125; 10].              (* close brace, newline *)
Definition INDENT := str [32; 32; 32; 32].
Definition S_UNDIR := str [45; 45].  Definition S_DIR := str [45; 62].
Definition S_LBRACK := str [32; 91; 32].          (* space [ space *)
Definition S_LABEL := str [108; 97; 98; 101; 108; 32; 61; 32; 34].   (* label = quote *)
Definition S_ENDLABEL := str [34; 32].            (* quote space *)
Definition S_RBRACK := str [93; 10].              (* ] newline *)
Definition S_RANKDIR := str [114; 97; 110; 107; 100; 105; 114; 61; 34].   (* rankdir= quote *)

Record cfg := mkCfg {
  c_node_index_label : bool; c_edge_index_label : bool; c_edge_no_label : bool;
  c_node_no_label : bool; c_content_only : bool;
  c_rankdir : nat   (* 0 = none, 1 TB, 2 BT, 3 LR, 4 RL *)
}.

Definition rankdir_str (k : nat) : list ch :=
  match k with
  | 1 => str [84; 66] | 2 => str [66; 84] | 3 => str [76; 82] | _ => str [82; 76]
  end.

(* nodes: (to_index, formatted weight); edges: (source index, target index, formatted weight); attribute getters return the empty string *)
Definition render (directed alternate : bool) (c : cfg) (nodes : list (nat * list ch))
                  (edges : list (nat * nat * list ch)) : list ch :=
  (if c_content_only c then [] else (if directed then S_DIGRAPH else S_GRAPH) ++ S_OPEN) ++
  (match c_rankdir c with
   | 0 => []
   | k => INDENT ++ S_RANKDIR ++ rankdir_str k ++ [QUOTE; NL]
   end) ++
  flat_map (fun '(i, w) =>
    INDENT ++ decimal i ++ S_LBRACK ++
    (if c_node_no_label c then []
     else S_LABEL ++ (if c_node_index_label c then decimal i else escaped alternate w) ++ S_ENDLABEL) ++
    S_RBRACK) nodes ++
  flat_map (fun '(k, (s, t, w)) =>
    INDENT ++ decimal s ++ [SPACE] ++ (if directed then S_DIR else S_UNDIR) ++ [SPACE] ++ decimal t ++ S_LBRACK ++
    (if c_edge_no_label c then []
     else S_LABEL ++ (if c_edge_index_label c then decimal k else escaped alternate w) ++ S_ENDLABEL) ++
    S_RBRACK) (combine (seq 0 (length edges)) edges) ++
  (if c_content_only c then [] else S_CLOSE).

(* ---- line grammar ----
   header = [directed; alternate; cfg bits (1 NodeIndexLabel, 2 EdgeIndexLabel, 4 EdgeNoLabel, 8 NodeNoLabel,
             16 GraphContentOnly); rankdir]
   opcode 0: dn idx c c c ... | 1: de s t c c c ... | 2: render -> text c c c ... *)
Definition TAG_TEXT := 56.

Definition cfg_of (bits : nat) (rd : nat) : cfg :=
  mkCfg (Nat.testbit bits 0) (Nat.testbit bits 1) (Nat.testbit bits 2) (Nat.testbit bits 3) (Nat.testbit bits 4) rd.

Fixpoint run (directed alternate : bool) (c : cfg) (nodes : list (nat * list ch)) (edges : list (nat * nat * list ch))
         (ops : list line) : list (list line) :=
  match ops with
  | [] => []
  | (code, a) :: rest =>
      match code with
      | 0 => [] :: run directed alternate c (nodes ++ [(arg a 0, map Z.to_N (tl a))]) edges rest
      | 1 => [] :: run directed alternate c nodes (edges ++ [(arg a 0, arg a 1, map Z.to_N (tl (tl a)))]) rest
      | _ => [(TAG_TEXT, map Z.of_N (render directed alternate c nodes edges))] :: run directed alternate c nodes edges rest
      end
  end.

Definition run_case (header : list Z) (ops : list line) : list (list line) :=
  run (Z.eqb (argz header 0) 1) (Z.eqb (argz header 1) 1) (cfg_of (arg header 2) (arg header 3)) [] [] ops.
