(* C13b: an executable mirror of petgraph's VF2 (src/algo/isomorphism.rs) over the graphs of
   Model/IsoM.v.  The two graphs are petgraph [Graph]s built by the harness: the nodes 0..n-1 in
   order, then [add_edge] for every edge in edge-list order.  The mirror keeps the code's structure:
   one [Vf2State] per graph, [push_mapping] / [pop_mapping] with the generation stamps, the three
   candidate lists, [is_feasible] (syntactic and semantic parts), the explicit frame stack of
   [isomorphisms], the [GraphMatcher] iterator and the public wrappers.
   [usize::MAX] ("not mapped") is [None].  Vector accesses are total ([nth] with a default, [upd]):
   for a graph whose edge endpoints are nodes (the harness cannot build another one) every access
   of the code is in range.  Loops the code runs until exhaustion take binary fuel ([piter]);
   OutOfFuel is a model artefact.  No proofs in this file. *)
From PG Require Import Lib.Io Model.IsoM.

(* ------------------------------------------------------------------ *)
(* iteration with binary fuel: at most [p] applications of [step]; [inr] is the loop's exit *)
Fixpoint piter {S R : Type} (step : S -> S + R) (p : positive) (s : S) : S + R :=
  match p with
  | xH => step s
  | xO p' => match piter step p' s with inl s' => piter step p' s' | inr r => inr r end
  | xI p' =>
      match step s with
      | inl s1 => match piter step p' s1 with inl s' => piter step p' s' | inr r => inr r end
      | inr r => inr r
      end
  end.

(* ------------------------------------------------------------------ *)
(* graph access: petgraph::Graph                                        *)

(* The edge lists of node [a]: [add_edge] links the new edge at the head of the outgoing list of its
   source and of the incoming list of its target, so both are walked most recent edge first.
   Entries are (other endpoint, weight). *)
Definition out_chain (es : list (nat * nat * Z)) (a : nat) : list (nat * Z) :=
  rev (map (fun e : nat * nat * Z => let '(_, t, w) := e in (t, w))
           (filter (fun e : nat * nat * Z => let '(s, _, _) := e in Nat.eqb s a) es)).
Definition in_chain (es : list (nat * nat * Z)) (a : nat) : list (nat * Z) :=
  rev (map (fun e : nat * nat * Z => let '(s, _, w) := e in (s, w))
           (filter (fun e : nat * nat * Z => let '(_, t, _) := e in Nat.eqb t a) es)).

(* [edges_directed(a, dir)] as (far endpoint, weight); [outgoing = true] is [Outgoing].  Directed: the
   one list.  Undirected (either direction): the outgoing list, then the incoming list without the
   self-loops (they were seen in the first). *)
Definition edges_directed (g : sgraph6) (a : nat) (outgoing : bool) : list (nat * Z) :=
  if s_dir g then (if outgoing then out_chain (s_es g) a else in_chain (s_es g) a)
  else out_chain (s_es g) a ++
       filter (fun p : nat * Z => negb (Nat.eqb (fst p) a)) (in_chain (s_es g) a).
Definition neighbors_directed (g : sgraph6) (a : nat) (outgoing : bool) : list nat :=
  map fst (edges_directed g a outgoing).

(* [GetAdjacencyMatrix]: a FixedBitSet of n*n bits *)
Definition put (m : list bool) (i : nat) : list bool := upd m i true.
Definition adjacency_matrix (g : sgraph6) : list bool :=
  let n := s_n g in
  fold_left (fun (m : list bool) (e : nat * nat * Z) =>
               let '(s, t, _) := e in
               let m1 := put m (s * n + t) in
               if s_dir g then m1 else put m1 (s + n * t))
            (s_es g) (repeat false (n * n)).
Definition is_adjacent (g : sgraph6) (m : list bool) (a b : nat) : bool :=
  nth (s_n g * a + b) m false.

(* ------------------------------------------------------------------ *)
(* mod state                                                            *)

Record vf2_state := mkVs {
  vs_mapping : list (option nat);
  vs_out : list nat;
  vs_ins : list nat;              (* empty when the graph is undirected *)
  vs_out_size : nat;
  vs_ins_size : nat;
  vs_adj : list bool;
  vs_gen : nat
}.

Definition vs_new (g : sgraph6) : vf2_state :=
  let c0 := s_n g in
  mkVs (repeat None c0) (repeat 0 c0) (repeat 0 (c0 * (if s_dir g then 1 else 0))) 0 0
       (adjacency_matrix g) 0.

Definition is_complete (st : vf2_state) : bool := Nat.eqb (vs_gen st) (length (vs_mapping st)).

(* the body of the marking loops of push_mapping / pop_mapping on (vector, size) *)
Definition mark (gen : nat) (acc : list nat * nat) (ix : nat) : list nat * nat :=
  if Nat.eqb (nth ix (fst acc) 0) 0 then (upd (fst acc) ix gen, S (snd acc)) else acc.
Definition unmark (gen : nat) (acc : list nat * nat) (ix : nat) : list nat * nat :=
  if Nat.eqb (nth ix (fst acc) 0) gen then (upd (fst acc) ix 0, pred (snd acc)) else acc.

Definition push_mapping (g : sgraph6) (st : vf2_state) (from to : nat) : vf2_state :=
  let gen := S (vs_gen st) in
  let mapping := upd (vs_mapping st) from (Some to) in
  let o := fold_left (mark gen) (neighbors_directed g from true) (vs_out st, vs_out_size st) in
  let i := if s_dir g
           then fold_left (mark gen) (neighbors_directed g from false) (vs_ins st, vs_ins_size st)
           else (vs_ins st, vs_ins_size st) in
  mkVs mapping (fst o) (fst i) (snd o) (snd i) (vs_adj st) gen.

Definition pop_mapping (g : sgraph6) (st : vf2_state) (from : nat) : vf2_state :=
  let gen := vs_gen st in
  let mapping := upd (vs_mapping st) from None in
  let o := fold_left (unmark gen) (neighbors_directed g from true) (vs_out st, vs_out_size st) in
  let i := if s_dir g
           then fold_left (unmark gen) (neighbors_directed g from false) (vs_ins st, vs_ins_size st)
           else (vs_ins st, vs_ins_size st) in
  mkVs mapping (fst o) (fst i) (snd o) (snd i) (vs_adj st) (pred gen).

(* [slice.iter().enumerate().find(p).map(|(index, _)| index)] *)
Fixpoint find_index {A : Type} (p : nat -> A -> bool) (l : list A) (index : nat) : option nat :=
  match l with
  | [] => None
  | elt :: t => if p index elt then Some index else find_index p t (S index)
  end.

Definition unmapped (st : vf2_state) (i : nat) : bool :=
  match nth i (vs_mapping st) None with None => true | Some _ => false end.

(* the results are relative to from_index, as in the code *)
Definition next_out_index (st : vf2_state) (from_index : nat) : option nat :=
  find_index (fun index elt => andb (Nat.ltb 0 elt) (unmapped st (from_index + index)))
             (skipn from_index (vs_out st)) 0.
Definition next_in_index (g : sgraph6) (st : vf2_state) (from_index : nat) : option nat :=
  if negb (s_dir g) then None
  else find_index (fun index elt => andb (Nat.ltb 0 elt) (unmapped st (from_index + index)))
                  (skipn from_index (vs_ins st)) 0.
Definition next_rest_index (st : vf2_state) (from_index : nat) : option nat :=
  find_index (fun (_ : nat) (elt : option nat) => match elt with None => true | Some _ => false end)
             (skipn from_index (vs_mapping st)) 0.

(* ------------------------------------------------------------------ *)
(* mod semantic: the harness' predicates (weights equal modulo nm / em; 0: always) as closures *)

Definition node_match_eq (nm : Z) (g0 g1 : sgraph6) (n0 n1 : nat) : bool :=
  match nth_error (s_nw g0) n0, nth_error (s_nw g1) n1 with
  | Some x, Some y => wmatch nm x y
  | _, _ => false
  end.

(* [g.edges_directed(a, Outgoing).find(|edge| edge.target() == b)], its weight *)
Definition find_edge_weight (g : sgraph6) (a b : nat) : option Z :=
  match find (fun p : nat * Z => Nat.eqb (fst p) b) (edges_directed g a true) with
  | Some p => Some (snd p)
  | None => None
  end.
Definition edge_match_eq (em : Z) (g0 g1 : sgraph6) (e0 e1 : nat * nat) : bool :=
  match find_edge_weight g0 (fst e0) (snd e0), find_edge_weight g1 (fst e1) (snd e1) with
  | Some x, Some y => wmatch em x y
  | _, _ => false
  end.

(* ------------------------------------------------------------------ *)
(* mod matching                                                         *)

Inductive open_list := OlOut | OlIn | OlOther.
Inductive frame :=
| Outer
| Inner (n0 n1 : nat) (ol : open_list)
| Unwind (n0 n1 : nat) (ol : open_list).

Definition st2 : Type := (vf2_state * vf2_state)%type.

Section Matching.
Variable sem : bool.          (* NM::enabled() / EM::enabled(): false for NoSemanticMatch *)
Variable subgraph : bool.     (* match_subgraph *)
Variables nm em : Z.
Variables g0 g1 : sgraph6.

(* The macros of is_feasible for side j, written once: (gj, stj, nj) is the side the loop runs
   over, (go, sto, no) the other side, field!(.., 1 - j).  [None] is the macro's [return false]. *)
Definition m_neigh_succ (stj : vf2_state) (nj no n_neigh : nat) : option nat :=
  if negb (Nat.eqb nj n_neigh) then nth n_neigh (vs_mapping stj) None else Some no.

Fixpoint r_succ_loop (stj : vf2_state) (go : sgraph6) (sto : vf2_state) (nj no : nat)
                     (l : list nat) (count : nat) : option nat :=
  match l with
  | [] => Some count
  | n_neigh :: rest =>
      match m_neigh_succ stj nj no n_neigh with
      | None => r_succ_loop stj go sto nj no rest (S count)
      | Some m_neigh =>
          if is_adjacent go (vs_adj sto) no m_neigh
          then r_succ_loop stj go sto nj no rest (S count) else None
      end
  end.
Definition r_succ (gj : sgraph6) (stj : vf2_state) (go : sgraph6) (sto : vf2_state) (nj no : nat)
  : option nat :=
  r_succ_loop stj go sto nj no (neighbors_directed gj nj true) 0.

Fixpoint r_pred_loop (stj : vf2_state) (go : sgraph6) (sto : vf2_state) (no : nat)
                     (l : list nat) (count : nat) : option nat :=
  match l with
  | [] => Some count
  | n_neigh :: rest =>
      match nth n_neigh (vs_mapping stj) None with
      | None => r_pred_loop stj go sto no rest (S count)
      | Some m_neigh =>
          if is_adjacent go (vs_adj sto) m_neigh no
          then r_pred_loop stj go sto no rest (S count) else None
      end
  end.
Definition r_pred (gj : sgraph6) (stj : vf2_state) (go : sgraph6) (sto : vf2_state) (nj no : nat)
  : option nat :=
  r_pred_loop stj go sto no (neighbors_directed gj nj false) 0.

(* edge_feasibility!(j): [eq ej eo] is edge_match.eq on (the side-j edge, the other side's edge);
   [false] is the macro's [return false] *)
Fixpoint ef_out_loop (eq : nat * nat -> nat * nat -> bool) (stj : vf2_state) (nj no : nat)
                     (l : list nat) : bool :=
  match l with
  | [] => true
  | n_neigh :: rest =>
      match m_neigh_succ stj nj no n_neigh with
      | None => ef_out_loop eq stj nj no rest
      | Some m_neigh =>
          if eq (nj, n_neigh) (no, m_neigh) then ef_out_loop eq stj nj no rest else false
      end
  end.
Fixpoint ef_in_loop (eq : nat * nat -> nat * nat -> bool) (stj : vf2_state) (nj no : nat)
                    (l : list nat) : bool :=
  match l with
  | [] => true
  | n_neigh :: rest =>
      match nth n_neigh (vs_mapping stj) None with
      | None => ef_in_loop eq stj nj no rest
      | Some m_neigh =>
          if eq (n_neigh, nj) (m_neigh, no) then ef_in_loop eq stj nj no rest else false
      end
  end.
Definition edge_feasibility (eq : nat * nat -> nat * nat -> bool) (gj : sgraph6) (stj : vf2_state)
                            (nj no : nat) : bool :=
  if ef_out_loop eq stj nj no (neighbors_directed gj nj true)
  then (if s_dir gj then ef_in_loop eq stj nj no (neighbors_directed gj nj false) else true)
  else false.

Definition is_feasible (st : st2) (n0 n1 : nat) : bool :=
  let st0 := fst st in
  let st1 := snd st in
  match r_succ g0 st0 g1 st1 n0 n1 with
  | None => false
  | Some s0 =>
  match r_succ g1 st1 g0 st0 n1 n0 with
  | None => false
  | Some s1 =>
  if Nat.ltb s1 s0 then false else
  (* R_pred *)
  let pred_ok :=
    if s_dir g0 then
      match r_pred g0 st0 g1 st1 n0 n1 with
      | None => false
      | Some p0 =>
          match r_pred g1 st1 g0 st0 n1 n0 with
          | None => false
          | Some p1 => negb (Nat.ltb p1 p0)
          end
      end
    else true in
  if negb pred_ok then false else
  (* semantic feasibility: nodes *)
  if andb sem (negb (node_match_eq nm g0 g1 n0 n1)) then false else
  (* semantic feasibility: edges *)
  if sem then
    if edge_feasibility (fun e0 e1 => edge_match_eq em g0 g1 e0 e1) g0 st0 n0 n1
    then edge_feasibility (fun e1 e0 => edge_match_eq em g0 g1 e0 e1) g1 st1 n1 n0
    else false
  else true
  end end.

Definition is_some {A : Type} (o : option A) : bool := match o with Some _ => true | None => false end.
Definition is_none {A : Type} (o : option A) : bool := match o with Some _ => false | None => true end.

Definition next_candidate (st : st2) : option (nat * nat * open_list) :=
  let st0 := fst st in
  let st1 := snd st in
  let from_index : option nat := None in
  let open := OlOut in
  let to_index := next_out_index st1 0 in
  (* Try the out list *)
  let '(from_index, open) :=
    if is_some to_index then (next_out_index st0 0, OlOut) else (from_index, open) in
  (* Try the in list *)
  let '(to_index, from_index, open) :=
    if orb (is_none to_index) (is_none from_index) then
      let to_index := next_in_index g1 st1 0 in
      if is_some to_index then (to_index, next_in_index g0 st0 0, OlIn)
      else (to_index, from_index, open)
    else (to_index, from_index, open) in
  (* Try the other list -- disconnected graph *)
  let '(to_index, from_index, open) :=
    if orb (is_none to_index) (is_none from_index) then
      let to_index := next_rest_index st1 0 in
      if is_some to_index then (to_index, next_rest_index st0 0, OlOther)
      else (to_index, from_index, open)
    else (to_index, from_index, open) in
  match from_index, to_index with
  | Some n, Some m => Some (n, m, open)
  | _, _ => None
  end.

Definition next_from_ix (st : st2) (nx : nat) (open : open_list) : option nat :=
  let st1 := snd st in
  let start := nx + 1 in
  let cand1 :=
    match open with
    | OlOut => next_out_index st1 start
    | OlIn => next_in_index g1 st1 start
    | OlOther => next_rest_index st1 start
    end in
  match cand1 with
  | None => None
  | Some c => Some (c + start)
  end.

Definition pop_state (st : st2) (n0 n1 : nat) : st2 :=
  (pop_mapping g0 (fst st) n0, pop_mapping g1 (snd st) n1).
Definition push_state (st : st2) (n0 n1 : nat) : st2 :=
  (push_mapping g0 (fst st) n0 n1, push_mapping g1 (snd st) n1 n0).

(* [st.0.mapping.clone()]; only complete mappings are cloned *)
Definition mapping_out (st : vf2_state) : list nat :=
  map (fun o : option nat => match o with Some x => x | None => 0 end) (vs_mapping st).

(* "Check cardinalities of Tin, Tout sets" *)
Definition card_ok (st : st2) : bool :=
  let st0 := fst st in
  let st1 := snd st in
  orb (andb (negb subgraph)
            (andb (Nat.eqb (vs_out_size st0) (vs_out_size st1))
                  (Nat.eqb (vs_ins_size st0) (vs_ins_size st1))))
      (andb subgraph
            (andb (Nat.leb (vs_out_size st0) (vs_out_size st1))
                  (Nat.leb (vs_ins_size st0) (vs_ins_size st1)))).

(* the state of the while loop of [isomorphisms]: st, the stack (top first), [result] *)
Definition loop_state : Type := (st2 * list frame * option (list nat))%type.

(* the tail shared by the Unwind and Inner arms: try the next node of the second graph.
   The boolean is true when the arm ends in [continue], false when control reaches the
   [if result.is_some() { return result }] at the bottom of the loop body. *)
Definition next_inner (st : st2) (n0 n1 : nat) (ol : open_list) (stack : list frame)
                      (result : option (list nat)) : loop_state * bool :=
  match next_from_ix st n1 ol with
  | None => ((st, stack, result), true)
  | Some nx => ((st, Inner n0 nx ol :: stack, result), false)
  end.

(* one pass through the loop body for the popped frame *)
Definition loop_body (st : st2) (fr : frame) (stack : list frame) (result : option (list nat))
  : loop_state * bool :=
  match fr with
  | Unwind n0 n1 ol =>
      let st := pop_state st n0 n1 in
      next_inner st n0 n1 ol stack result
  | Outer =>
      match next_candidate st with
      | None => ((st, stack, result), true)
      | Some (nx, mx, ol) => ((st, Inner nx mx ol :: stack, result), false)
      end
  | Inner n0 n1 ol =>
      if is_feasible st n0 n1 then
        let st := push_state st n0 n1 in
        let result := if is_complete (fst st) then Some (mapping_out (fst st)) else result in
        if card_ok st then
          ((st, Outer :: Unwind n0 n1 ol :: stack, result), true)
        else
          let st := pop_state st n0 n1 in
          next_inner st n0 n1 ol stack result
      else next_inner st n0 n1 ol stack result
  end.

(* what one call returns: the result, and the state and stack left for the next call *)
Definition call_result : Type := (option (list nat) * st2 * list frame)%type.

Definition loop_step (s : loop_state) : loop_state + call_result :=
  let '(st, stack, result) := s in
  match stack with
  | [] => inr (result, st, [])                    (* the while loop ends; [result] is returned *)
  | fr :: rest =>
      let '((st', stack', result'), continued) := loop_body st fr rest result in
      if continued then inl (st', stack', result')
      else if is_some result' then inr (result', st', stack')
      else inl (st', stack', result')
  end.

Definition isomorphisms (fuel : positive) (st : st2) (stack : list frame) : res call_result :=
  if is_complete (fst st) then
    (* the first graph is empty: one (empty) mapping, reported by the first call only *)
    match stack with
    | [] => Ok (None, st, [])
    | _ :: rest => Ok (Some (mapping_out (fst st)), st, rest)
    end
  else
    match piter loop_step fuel (st, stack, None) with
    | inr r => Ok r
    | inl _ => OutOfFuel
    end.

(* try_match: Some(true) or None *)
Definition try_match (fuel : positive) (st : st2) : res (option bool) :=
  match isomorphisms fuel st [Outer] with
  | Ok (Some _, _, _) => Ok (Some true)
  | Ok (None, _, _) => Ok None
  | Panic => Panic
  | OutOfFuel => OutOfFuel
  end.

(* GraphMatcher: [new], then [next] until it answers None; the mappings in the order yielded *)
Definition matcher_state : Type := (st2 * list frame * list (list nat))%type.   (* yielded: last first *)
Definition matcher_step (fuel : positive) (s : matcher_state) : matcher_state + res (list (list nat)) :=
  let '(st, stack, acc) := s in
  match isomorphisms fuel st stack with
  | Ok (Some m, st', stack') => inl (st', stack', m :: acc)
  | Ok (None, _, _) => inr (Ok (rev acc))
  | Panic => inr Panic
  | OutOfFuel => inr OutOfFuel
  end.
Definition matcher_collect (fuel : positive) : res (list (list nat)) :=
  match piter (matcher_step fuel) fuel ((vs_new g0, vs_new g1), [Outer], []) with
  | inr r => r
  | inl _ => OutOfFuel
  end.

End Matching.

(* ------------------------------------------------------------------ *)
(* fuel: every Inner frame belongs to a distinct sequence of nodes of the second graph, and is
   followed by at most one Outer and one Unwind *)
Definition vf2_fuel (g0 g1 : sgraph6) : positive :=
  N.succ_pos (4 * N.pow (N.of_nat (S (s_n g1))) (N.of_nat (S (s_n g0))) + 4).

(* the raw iterator: GraphMatcher::new(g0, g1, nm, em, subgraph), collected *)
Definition vf2_all_fuel (fuel : positive) (subgraph : bool) (nm em : Z) (g0 g1 : sgraph6)
  : res (list (list nat)) :=
  matcher_collect true subgraph nm em g0 g1 fuel.
Definition vf2_all (subgraph : bool) (nm em : Z) (g0 g1 : sgraph6) : res (list (list nat)) :=
  vf2_all_fuel (vf2_fuel g0 g1) subgraph nm em g0 g1.

(* ------------------------------------------------------------------ *)
(* the public functions                                                 *)

Definition iso_reject (g0 g1 : sgraph6) : bool :=
  orb (negb (Nat.eqb (s_n g0) (s_n g1))) (negb (Nat.eqb (length (s_es g0)) (length (s_es g1)))).
Definition sub_reject (g0 g1 : sgraph6) : bool :=
  orb (Nat.ltb (s_n g1) (s_n g0)) (Nat.ltb (length (s_es g1)) (length (s_es g0))).

Definition unwrap_or_false (r : res (option bool)) : res bool :=
  rmap (fun o : option bool => match o with Some b => b | None => false end) r.

(* is_isomorphic / is_isomorphic_subgraph: NoSemanticMatch *)
Definition vf2_is_iso_plain (g0 g1 : sgraph6) : res bool :=
  if iso_reject g0 g1 then Ok false
  else unwrap_or_false (try_match false false 0 0 g0 g1 (vf2_fuel g0 g1) (vs_new g0, vs_new g1)).
Definition vf2_is_sub_iso_plain (g0 g1 : sgraph6) : res bool :=
  if sub_reject g0 g1 then Ok false
  else unwrap_or_false (try_match false true 0 0 g0 g1 (vf2_fuel g0 g1) (vs_new g0, vs_new g1)).

(* is_isomorphic_matching / is_isomorphic_subgraph_matching with the harness' closures *)
Definition vf2_is_iso (nm em : Z) (g0 g1 : sgraph6) : res bool :=
  if iso_reject g0 g1 then Ok false
  else unwrap_or_false (try_match true false nm em g0 g1 (vf2_fuel g0 g1) (vs_new g0, vs_new g1)).
Definition vf2_is_sub_iso (nm em : Z) (g0 g1 : sgraph6) : res bool :=
  if sub_reject g0 g1 then Ok false
  else unwrap_or_false (try_match true true nm em g0 g1 (vf2_fuel g0 g1) (vs_new g0, vs_new g1)).

(* subgraph_isomorphisms_iter: None on the early rejection, else the iterator, collected *)
Definition vf2_sub_iter (nm em : Z) (g0 g1 : sgraph6) : res (option (list (list nat))) :=
  if sub_reject g0 g1 then Ok None
  else rmap (@Some _) (vf2_all true nm em g0 g1).

(* ------------------------------------------------------------------ *)
(* the line grammar of Model/IsoM.v, answered by the mirror: the same queries, the rows of query 14
   in the order of the yields (None, the early rejection, as no row) *)
Definition vf2_bool_line (r : res bool) : list line :=
  match r with
  | Ok b => [(TAG_BOOL, [zb b])]
  | _ => [(TAG_PANIC, [])]
  end.

Definition vf2_query (g0 g1 : sgraph6) (o : line) : list line :=
  let '(code, a) := o in
  match code with
  | 10 => vf2_bool_line (vf2_is_iso_plain g0 g1)
  | 11 => vf2_bool_line (vf2_is_iso (argz a 0) (argz a 1) g0 g1)
  | 12 => vf2_bool_line (vf2_is_sub_iso_plain g0 g1)
  | 13 => vf2_bool_line (vf2_is_sub_iso (argz a 0) (argz a 1) g0 g1)
  | 14 => match vf2_sub_iter (argz a 0) (argz a 1) g0 g1 with
          | Ok (Some l) => (TAG_NAT, [zn (length l)]) :: map (fun m => (TAG_ROW, zns m)) l
          | Ok None => [(TAG_NAT, [zn 0])]
          | _ => [(TAG_PANIC, [])]
          end
  | _ => [(TAG_PANIC, [])]
  end.

Fixpoint vf2_run (g0 g1 : sgraph6) (ops : list line) : list (list line) :=
  match ops with
  | [] => []
  | (code, a) :: rest =>
      match code with
      | 0 => [] :: vf2_run (mkSg (s_dir g0) a (s_es g0)) g1 rest
      | 1 => [] :: vf2_run (mkSg (s_dir g0) (s_nw g0) (triples_of a)) g1 rest
      | 2 => [] :: vf2_run g0 (mkSg (s_dir g1) a (s_es g1)) rest
      | 3 => [] :: vf2_run g0 (mkSg (s_dir g1) (s_nw g1) (triples_of a)) rest
      | _ => vf2_query g0 g1 (code, a) :: vf2_run g0 g1 rest
      end
  end.

Definition vf2_run_case (header : list Z) (ops : list line) : list (list line) :=
  let d := Z.eqb (argz header 0) 1 in
  vf2_run (mkSg d [] []) (mkSg d [] []) ops.
