(* Executable mirror of src/algo/ford_fulkerson.rs over a directed view whose edge ids are
   EdgeIndexable::to_index and whose weights are the capacities.  Vectors keep the code's sizes
   (edge_to: node_bound, flows: edge_bound, after the fix in /repo); an out-of-range index is a Panic.
   No proofs in this file. *)
From PG Require Import Lib.Io Model.View Model.Traversal Model.MatchM.

(* an edge reference: (id, source, target, capacity) *)
Definition fedge := (nat * nat * nat * Z)%type.
Definition fe_id (e : fedge) : nat := let '(i, _, _, _) := e in i.
Definition fe_src (e : fedge) : nat := let '(_, s, _, _) := e in s.
Definition fe_tgt (e : fedge) : nat := let '(_, _, t, _) := e in t.
Definition fe_cap (e : fedge) : Z := let '(_, _, _, c) := e in c.

(* edges_directed(vertex, Outgoing).chain(edges_directed(vertex, Incoming)) *)
Definition incident (v : view) (x : nat) : list fedge :=
  map (fun e => (eid e, x, tgt e, ewgt e)) (out_edges v x) ++
  map (fun e => (eid e, tgt e, x, ewgt e)) (in_edges v x).

Definition other_endpoint (e : fedge) (x : nat) : res nat :=
  if Nat.eqb x (fe_src e) then Ok (fe_tgt e)
  else if Nat.eqb x (fe_tgt e) then Ok (fe_src e) else Panic.

Definition residual_capacity (e : fedge) (x : nat) (flow : Z) : res Z :=
  if Nat.eqb x (fe_src e) then Ok flow
  else if Nat.eqb x (fe_tgt e) then Ok (fe_cap e - flow)%Z else Panic.

Definition adjust_residual_flow (e : fedge) (x : nat) (flow delta : Z) : res Z :=
  if Nat.eqb x (fe_src e) then Ok (flow - delta)%Z
  else if Nat.eqb x (fe_tgt e) then Ok (flow + delta)%Z else Panic.

Record bst := mkBst { b_vis : vmap; b_queue : list nat; b_to : list (option fedge) }.

(* one edge of the scan of `vertex`; true = destination reached *)
Definition bfs_edge (v : view) (dest vertex : nat) (flows : list Z) (s : bst) (e : fedge) : res (bool * bst) :=
  rbind (other_endpoint e vertex) (fun next =>
  rbind (getp flows (fe_id e)) (fun fl =>
  rbind (residual_capacity e next fl) (fun rc =>
    if andb (negb (is_visited (b_vis s) next)) (Z.ltb 0 rc)
    then
      rbind (visit v (b_vis s) next) (fun '(_, m) =>
      rbind (setp (b_to s) next (Some e)) (fun to' =>
        if Nat.eqb dest next then Ok (true, mkBst m (b_queue s) to')
        else Ok (false, mkBst m (b_queue s ++ [next]) to')))
    else Ok (false, s)))).

Fixpoint bfs_edges (v : view) (dest vertex : nat) (flows : list Z) (s : bst) (es : list fedge) : res (bool * bst) :=
  match es with
  | [] => Ok (false, s)
  | e :: rest =>
      rbind (bfs_edge v dest vertex flows s e) (fun '(found, s1) =>
        if found then Ok (true, s1) else bfs_edges v dest vertex flows s1 rest)
  end.

Fixpoint bfs_loop (fuel : nat) (v : view) (dest : nat) (flows : list Z) (s : bst) : res (bool * list (option fedge)) :=
  match fuel with
  | 0 => OutOfFuel
  | S f =>
      match b_queue s with
      | [] => Ok (false, b_to s)
      | vertex :: q =>
          rbind (bfs_edges v dest vertex flows (mkBst (b_vis s) q (b_to s)) (incident v vertex)) (fun '(found, s1) =>
            if found then Ok (true, b_to s1) else bfs_loop f v dest flows s1)
      end
  end.

Definition has_augmented_path (v : view) (source dest : nat) (edge_to : list (option fedge)) (flows : list Z)
  : res (bool * list (option fedge)) :=
  rbind (visit v [] source) (fun '(_, m) =>
    bfs_loop (S (S (length (vnodes v)))) v dest flows (mkBst m [source] edge_to)).

(* bottleneck of the path stored in edge_to, walking back from `vertex`; None = EdgeWeight::max() *)
Fixpoint bottleneck (fuel : nat) (edge_to : list (option fedge)) (flows : list Z) (vertex : nat) (acc : option Z)
  : res (option Z) :=
  match fuel with
  | 0 => OutOfFuel
  | S f =>
      rbind (getp edge_to vertex) (fun o =>
        match o with
        | None => Ok acc
        | Some e =>
            rbind (getp flows (fe_id e)) (fun fl =>
            rbind (residual_capacity e vertex fl) (fun rc =>
            rbind (other_endpoint e vertex) (fun prev =>
              bottleneck f edge_to flows prev
                         (match acc with None => Some rc | Some a => Some (if Z.ltb rc a then rc else a) end))))
        end)
  end.

Fixpoint push_flow (fuel : nat) (edge_to : list (option fedge)) (flows : list Z) (vertex : nat) (delta : Z)
  : res (list Z) :=
  match fuel with
  | 0 => OutOfFuel
  | S f =>
      rbind (getp edge_to vertex) (fun o =>
        match o with
        | None => Ok flows
        | Some e =>
            rbind (getp flows (fe_id e)) (fun fl =>
            rbind (adjust_residual_flow e vertex fl delta) (fun fl' =>
            rbind (setp flows (fe_id e) fl') (fun flows' =>
            rbind (other_endpoint e vertex) (fun prev => push_flow f edge_to flows' prev delta))))
        end)
  end.

Fixpoint ff_loop (fuel : nat) (v : view) (source dest : nat) (wmax : Z) (edge_to : list (option fedge)) (flows : list Z) (total : Z)
  : res (Z * list Z) :=
  match fuel with
  | 0 => OutOfFuel
  | S f =>
      rbind (has_augmented_path v source dest edge_to flows) (fun '(found, to') =>
        if negb found then Ok (total, flows)
        else
          let pf := S (S (length (vnodes v))) in
          rbind (bottleneck pf to' flows dest None) (fun b =>
            let delta := match b with Some d => d | None => wmax end in
            rbind (push_flow pf to' flows dest delta) (fun flows' =>
              ff_loop f v source dest wmax to' flows' (total + delta)%Z)))
  end.

(* the number of augmentations is at most the capacity out of the source (integer capacities) *)
Definition ff_fuel (v : view) (source : nat) : nat :=
  S (Z.to_nat (fold_left (fun acc e => (acc + Z.max 0 (fe_cap e))%Z) (incident v source) 0%Z)).

Definition ford_fulkerson (v : view) (source dest : nat) (wmax : Z) : res (Z * list Z) :=
  ff_loop (ff_fuel v source) v source dest wmax (repeat None (vbound v)) (repeat 0%Z (vebound v)) 0%Z.

Definition TAG_FLOW := 65.

(* opcode 52: ford_fulkerson source destination wmax *)
Definition flow_query (v : view) (o : line) : list line :=
  match ford_fulkerson v (arg (snd o) 0) (arg (snd o) 1) (argz (snd o) 2) with
  | Ok (total, flows) => [(TAG_FLOW, [total]); (TAG_ROW, flows)]
  | Panic => [(TAG_PANIC, [])]
  | OutOfFuel => [(TAG_FUEL, [])]
  end.
