(* Executable mirror of /repo/src/graph_impl/mod.rs (Graph): intrusive adjacency lists
   threaded through Vec<Node> / Vec<Edge>.  Polymorphic in the weight types so that
   StableGraph (Option weights) reuses it.  No proofs in this file. *)
From PG Require Import Lib.Io.

Section G.
  Context {NW EW : Type}.

  Record node := mkNode { nwt : NW; nnext : nat * nat }.
  Record edge := mkEdge { ewt : EW; enext : nat * nat; enode : nat * nat }.
  Record graph := mkGraph { gnodes : list node; gedges : list edge }.

  (* cap = IndexType::max().index() = EdgeIndex::end() = NodeIndex::end(); capcheck = false for usize *)
  Variable cap : nat.
  Variable capcheck : bool.
  Variable debug : bool.

  Definition sel (p : nat * nat) (k : nat) : nat := match k with 0 => fst p | _ => snd p end.
  Definition setp (p : nat * nat) (k v : nat) : nat * nat :=
    match k with 0 => (v, snd p) | _ => (fst p, v) end.

  Definition g_empty : graph := mkGraph [] [].
  Definition node_count (g : graph) : nat := length (gnodes g).
  Definition edge_count (g : graph) : nat := length (gedges g).

  Inductive gerr := NodeIxLimit | EdgeIxLimit | NodeMissed (i : nat) | NodeOutBounds.

  Definition try_add_node (g : graph) (w : NW) : (gerr + nat) * graph :=
    let idx := length (gnodes g) in
    if andb capcheck (Nat.eqb idx cap) then (inl NodeIxLimit, g)
    else (inr idx, mkGraph (gnodes g ++ [mkNode w (cap, cap)]) (gedges g)).

  Definition set_nnext (n : node) (p : nat * nat) : node := mkNode (nwt n) p.
  Definition set_enext (e : edge) (p : nat * nat) : edge := mkEdge (ewt e) p (enode e).
  Definition set_enode (e : edge) (p : nat * nat) : edge := mkEdge (ewt e) (enext e) p.

  Definition try_add_edge (g : graph) (a b : nat) (w : EW) : (gerr + nat) * graph :=
    let eidx := length (gedges g) in
    if andb capcheck (Nat.eqb eidx cap) then (inl EdgeIxLimit, g)
    else if Nat.leb (length (gnodes g)) (Nat.max a b) then (inl NodeOutBounds, g)
    else
      match nth_error (gnodes g) a, nth_error (gnodes g) b with
      | Some an, Some bn =>
          if Nat.eqb a b then
            (inr eidx, mkGraph (upd (gnodes g) a (set_nnext an (eidx, eidx)))
                               (gedges g ++ [mkEdge w (nnext an) (a, b)]))
          else
            let ed := mkEdge w (fst (nnext an), snd (nnext bn)) (a, b) in
            let ns := upd (upd (gnodes g) a (set_nnext an (eidx, snd (nnext an))))
                          b (set_nnext bn (fst (nnext bn), eidx)) in
            (inr eidx, mkGraph ns (gedges g ++ [ed]))
      | _, _ => (inl NodeOutBounds, g)
      end.

  (* while let Some(edge) = self.edges.get(edix) { if edge.node[1-k] == b { return } edix = edge.next[k] } *)
  Fixpoint find_walk (fuel : nat) (es : list edge) (cur k b : nat) : res (option nat) :=
    match fuel with
    | 0 => OutOfFuel
    | S f =>
        match nth_error es cur with
        | None => Ok None
        | Some ed => if Nat.eqb (sel (enode ed) (1 - k)) b then Ok (Some cur)
                     else find_walk f es (sel (enext ed) k) k b
        end
    end.

  Definition fuel_of (g : graph) : nat := S (length (gedges g)).

  Definition find_edge_undirected (g : graph) (a b : nat) : res (option (nat * nat)) :=
    match nth_error (gnodes g) a with
    | None => Ok None
    | Some n =>
        rbind (find_walk (fuel_of g) (gedges g) (fst (nnext n)) 0 b) (fun r0 =>
          match r0 with
          | Some e => Ok (Some (e, 0))
          | None => rmap (option_map (fun e => (e, 1)))
                         (find_walk (fuel_of g) (gedges g) (snd (nnext n)) 1 b)
          end)
    end.

  Definition find_edge (directed : bool) (g : graph) (a b : nat) : res (option nat) :=
    if directed then
      match nth_error (gnodes g) a with
      | None => Ok None
      | Some n => find_walk (fuel_of g) (gedges g) (fst (nnext n)) 0 b
      end
    else rmap (option_map fst) (find_edge_undirected g a b).

  Definition set_edge_weight (g : graph) (e : nat) (w : EW) : option graph :=
    match nth_error (gedges g) e with
    | None => None
    | Some ed => Some (mkGraph (gnodes g) (upd (gedges g) e (mkEdge w (enext ed) (enode ed))))
    end.

  Definition set_node_weight (g : graph) (a : nat) (w : NW) : option graph :=
    match nth_error (gnodes g) a with
    | None => None
    | Some n => Some (mkGraph (upd (gnodes g) a (mkNode w (nnext n))) (gedges g))
    end.

  Definition try_update_edge (directed : bool) (g : graph) (a b : nat) (w : EW)
    : res ((gerr + nat) * graph) :=
    rbind (find_edge directed g a b) (fun o =>
      match o with
      | Some ix =>
          match set_edge_weight g ix w with
          | Some g' => Ok (inr ix, g')
          | None => Ok (try_add_edge g a b w)
          end
      | None => Ok (try_add_edge g a b w)
      end).

  (* walk from [cur] in direction k; replace the first link equal to e by repl *)
  Fixpoint relink_walk (fuel : nat) (es : list edge) (cur k e repl : nat) : res (list edge) :=
    match fuel with
    | 0 => OutOfFuel
    | S f =>
        match nth_error es cur with
        | None => Ok es
        | Some ed =>
            if Nat.eqb (sel (enext ed) k) e
            then Ok (upd es cur (set_enext ed (setp (enext ed) k repl)))
            else relink_walk f es (sel (enext ed) k) k e repl
        end
    end.

  (* change_edge_links: Ok (g', true) = completed, Ok (g', false) = the silent early `return`
     (release) after a missing endpoint; Panic = the debug_assert!(false) *)
  Definition change_links_dir (g : graph) (enod : nat * nat) (e : nat) (enxt : nat * nat) (k : nat)
    : res (graph * bool) :=
    match nth_error (gnodes g) (sel enod k) with
    | None => if debug then Panic else Ok (g, false)
    | Some n =>
        if Nat.eqb (sel (nnext n) k) e
        then Ok (mkGraph (upd (gnodes g) (sel enod k) (set_nnext n (setp (nnext n) k (sel enxt k))))
                         (gedges g), true)
        else rmap (fun es => (mkGraph (gnodes g) es, true))
                  (relink_walk (S (fuel_of g)) (gedges g) (sel (nnext n) k) k e (sel enxt k))
    end.

  Definition change_edge_links (g : graph) (enod : nat * nat) (e : nat) (enxt : nat * nat) : res graph :=
    rbind (change_links_dir g enod e enxt 0) (fun '(g1, cont) =>
      if cont then rmap fst (change_links_dir g1 enod e enxt 1) else Ok g1).

  (* Vec::swap_remove(i), i < len *)
  Definition swap_remove {A} (l : list A) (i : nat) : list A :=
    match rev l with
    | [] => l
    | last :: _ => if Nat.eqb i (length l - 1) then removelast l else removelast (upd l i last)
    end.

  Definition remove_edge_adjust_indices (g : graph) (e : nat) : res (option EW * graph) :=
    match nth_error (gedges g) e with
    | None => Panic
    | Some removed =>
        let es := swap_remove (gedges g) e in
        let g1 := mkGraph (gnodes g) es in
        match nth_error es e with
        | None => Ok (Some (ewt removed), g1)
        | Some sw =>
            rmap (fun g2 => (Some (ewt removed), g2))
                 (change_edge_links g1 (enode sw) (length es) (e, e))
        end
    end.

  Definition remove_edge (g : graph) (e : nat) : res (option EW * graph) :=
    match nth_error (gedges g) e with
    | None => Ok (None, g)
    | Some ed =>
        rbind (change_edge_links g (enode ed) e (enext ed)) (fun g1 =>
          remove_edge_adjust_indices g1 e)
    end.

  (* loop { next = nodes[a].next[k]; if next == end { break } remove_edge(next); debug_assert!(ret.is_some()) } *)
  Fixpoint drain_dir (fuel : nat) (g : graph) (a k : nat) : res graph :=
    match fuel with
    | 0 => OutOfFuel
    | S f =>
        match nth_error (gnodes g) a with
        | None => Panic
        | Some n =>
            let nx := sel (nnext n) k in
            if Nat.eqb nx cap then Ok g
            else rbind (remove_edge g nx) (fun '(r, g1) =>
                   match r with
                   | None => if debug then Panic else drain_dir f g1 a k
                   | Some _ => drain_dir f g1 a k
                   end)
        end
    end.

  (* re-point the moved node's edges: walk swap_edges[k] in direction k, node[k] := new *)
  Fixpoint repoint_walk (fuel : nat) (es : list edge) (cur k old new : nat) : res (list edge) :=
    match fuel with
    | 0 => OutOfFuel
    | S f =>
        match nth_error es cur with
        | None => Ok es
        | Some ed =>
            if andb debug (negb (Nat.eqb (sel (enode ed) k) old)) then Panic
            else repoint_walk f (upd es cur (set_enode ed (setp (enode ed) k new)))
                              (sel (enext ed) k) k old new
        end
    end.

  Definition remove_node (g : graph) (a : nat) : res (option NW * graph) :=
    match nth_error (gnodes g) a with
    | None => Ok (None, g)
    | Some _ =>
        rbind (drain_dir (fuel_of g) g a 0) (fun g1 =>
        rbind (drain_dir (fuel_of g1) g1 a 1) (fun g2 =>
          match nth_error (gnodes g2) a with
          | None => Panic
          | Some removed =>
              let ns := swap_remove (gnodes g2) a in
              match nth_error ns a with
              | None => Ok (Some (nwt removed), mkGraph ns (gedges g2))
              | Some moved =>
                  let old := length ns in
                  rbind (repoint_walk (fuel_of g2) (gedges g2) (fst (nnext moved)) 0 old a) (fun es1 =>
                  rbind (repoint_walk (fuel_of g2) es1 (snd (nnext moved)) 1 old a) (fun es2 =>
                    Ok (Some (nwt removed), mkGraph ns es2)))
              end
          end))
    end.

  Definition swapp (p : nat * nat) : nat * nat := (snd p, fst p).

  Definition reverse (g : graph) : graph :=
    mkGraph (map (fun n => set_nnext n (swapp (nnext n))) (gnodes g))
            (map (fun e => mkEdge (ewt e) (swapp (enext e)) (swapp (enode e))) (gedges g)).

  Definition clear_edges (g : graph) : graph :=
    mkGraph (map (fun n => set_nnext n (cap, cap)) (gnodes g)) [].

  (* ---- iterators ---- *)
  (* the chain from [cur] following next[k]: list of edge indices *)
  Fixpoint chain (fuel : nat) (es : list edge) (cur k : nat) : res (list nat) :=
    match fuel with
    | 0 => OutOfFuel
    | S f =>
        match nth_error es cur with
        | None => Ok []
        | Some ed => rmap (cons cur) (chain f es (sel (enext ed) k) k)
        end
    end.

  Definition edge_at (g : graph) (i : nat) : option edge := nth_error (gedges g) i.

  (* Neighbors / WalkNeighbors: (edge index, node) pairs *)
  Definition neighbors_raw (g : graph) (skip n0 n1 : nat) : res (list (nat * nat)) :=
    rbind (chain (fuel_of g) (gedges g) n0 0) (fun outs =>
    rbind (chain (fuel_of g) (gedges g) n1 1) (fun ins =>
      Ok (flat_map (fun i => match edge_at g i with
                             | Some ed => [(i, snd (enode ed))] | None => [] end) outs ++
          flat_map (fun i => match edge_at g i with
                             | Some ed => if Nat.eqb (fst (enode ed)) skip then [] else [(i, fst (enode ed))]
                             | None => [] end) ins))).

  Definition node_next (g : graph) (a : nat) : nat * nat :=
    match nth_error (gnodes g) a with Some n => nnext n | None => (cap, cap) end.

  (* the _nx variants take the node's next pair explicitly (StableGraph looks it up through get_node) *)
  Definition neighbors_undirected_nx (g : graph) (a : nat) (nx : nat * nat) : res (list (nat * nat)) :=
    neighbors_raw g a (fst nx) (snd nx).

  Definition neighbors_directed_nx (directed : bool) (g : graph) (a : nat) (nx : nat * nat) (k : nat)
    : res (list (nat * nat)) :=
    if directed then
      neighbors_raw g cap (if Nat.eqb k 0 then fst nx else cap) (if Nat.eqb k 0 then cap else snd nx)
    else neighbors_undirected_nx g a nx.

  Definition neighbors_undirected (g : graph) (a : nat) : res (list (nat * nat)) :=
    neighbors_undirected_nx g a (node_next g a).

  Definition neighbors_directed (directed : bool) (g : graph) (a k : nat) : res (list (nat * nat)) :=
    neighbors_directed_nx directed g a (node_next g a) k.

  (* Edges iterator: (index, source, target, weight) as EdgeReference reports them *)
  Definition edges_directed_nx (directed : bool) (g : graph) (a : nat) (nx : nat * nat) (k : nat)
    : res (list (nat * (nat * nat) * EW)) :=
    let do_out := orb (negb directed) (Nat.eqb k 0) in
    let do_in := orb (negb directed) (negb (Nat.eqb k 0)) in
    (* reverse = Some(direction.opposite()) when undirected *)
    let rev_out := andb (negb directed) (negb (Nat.eqb k 0)) in  (* reverse == Some(Outgoing) <-> dir = Incoming *)
    let rev_in := andb (negb directed) (Nat.eqb k 0) in          (* reverse == Some(Incoming) <-> dir = Outgoing *)
    rbind (if do_out then chain (fuel_of g) (gedges g) (fst nx) 0 else Ok []) (fun outs =>
    rbind (if do_in then chain (fuel_of g) (gedges g) (snd nx) 1 else Ok []) (fun ins =>
      Ok (flat_map (fun i => match edge_at g i with
                             | Some ed => [(i, if rev_out then swapp (enode ed) else enode ed, ewt ed)]
                             | None => [] end) outs ++
          flat_map (fun i => match edge_at g i with
                             | Some ed =>
                                 if andb (negb directed) (Nat.eqb (fst (enode ed)) a) then []
                                 else [(i, if rev_in then swapp (enode ed) else enode ed, ewt ed)]
                             | None => [] end) ins))).

  Definition edges_directed (directed : bool) (g : graph) (a k : nat) : res (list (nat * (nat * nat) * EW)) :=
    edges_directed_nx directed g a (node_next g a) k.

  Definition edges_connecting_nx (directed : bool) (g : graph) (a : nat) (nx : nat * nat) (b : nat)
    : res (list (nat * (nat * nat) * EW)) :=
    rmap (filter (fun '(_, nd, _) => Nat.eqb (snd nd) b)) (edges_directed_nx directed g a nx 0).

  Definition edges_connecting (directed : bool) (g : graph) (a b : nat) : res (list (nat * (nat * nat) * EW)) :=
    edges_connecting_nx directed g a (node_next g a) b.

  Definition externals (directed : bool) (g : graph) (k : nat) : list nat :=
    flat_map (fun '(i, n) =>
      if andb (Nat.eqb (sel (nnext n) k) cap) (orb directed (Nat.eqb (sel (nnext n) (1 - k)) cap))
      then [i] else []) (combine (seq 0 (length (gnodes g))) (gnodes g)).

  Definition first_edge (g : graph) (a k : nat) : option nat :=
    match nth_error (gnodes g) a with
    | None => None
    | Some n => if Nat.eqb (sel (nnext n) k) cap then None else Some (sel (nnext n) k)
    end.
  Definition next_edge (g : graph) (e k : nat) : option nat :=
    match nth_error (gedges g) e with
    | None => None
    | Some ed => if Nat.eqb (sel (enext ed) k) cap then None else Some (sel (enext ed) k)
    end.

  (* retain_nodes / retain_edges: descending index order, predicate on the weight *)
  Fixpoint retain_nodes_loop (keep : NW -> bool) (g : graph) (todo : nat) : res graph :=
    match todo with
    | 0 => Ok g
    | S i =>
        match nth_error (gnodes g) i with
        | None => Panic
        | Some n =>
            if keep (nwt n) then retain_nodes_loop keep g i
            else rbind (remove_node g i) (fun '(r, g1) =>
                   match r with
                   | None => if debug then Panic else retain_nodes_loop keep g1 i
                   | Some _ => retain_nodes_loop keep g1 i
                   end)
        end
    end.
  Definition retain_nodes (keep : NW -> bool) (g : graph) : res graph :=
    retain_nodes_loop keep g (length (gnodes g)).

  Fixpoint retain_edges_loop (keep : EW -> bool) (g : graph) (todo : nat) : res graph :=
    match todo with
    | 0 => Ok g
    | S i =>
        match nth_error (gedges g) i with
        | None => Panic
        | Some ed =>
            if keep (ewt ed) then retain_edges_loop keep g i
            else rbind (remove_edge g i) (fun '(r, g1) =>
                   match r with
                   | None => if debug then Panic else retain_edges_loop keep g1 i
                   | Some _ => retain_edges_loop keep g1 i
                   end)
        end
    end.
  Definition retain_edges (keep : EW -> bool) (g : graph) : res graph :=
    retain_edges_loop keep g (length (gedges g)).

  (* extend_with_edges: nodes are added (with the default weight) until max(s,t) exists;
     add_node / add_edge panic at the index limits, leaving what was built so far *)
  Fixpoint add_nodes_until (fuel : nat) (dflt : NW) (g : graph) (nx : nat) : res graph * graph :=
    match fuel with
    | 0 => (OutOfFuel, g)
    | S f =>
        if Nat.ltb nx (length (gnodes g)) then (Ok g, g)
        else match try_add_node g dflt with
             | (inl _, g') => (Panic, g')
             | (inr _, g') => add_nodes_until f dflt g' nx
             end
    end.

  Fixpoint extend_with_edges (dflt : NW) (g : graph) (es : list (nat * nat * EW)) : bool * graph :=
    (* false = panicked part-way *)
    match es with
    | [] => (true, g)
    | (s, t, w) :: rest =>
        match add_nodes_until (S (S (Nat.max s t))) dflt g (Nat.max s t) with
        | (Ok g1, _) =>
            match try_add_edge g1 s t w with
            | (inr _, g2) => extend_with_edges dflt g2 rest
            | (inl _, g2) => (false, g2)
            end
        | (_, g1) => (false, g1)
        end
    end.
End G.

Arguments node : clear implicits.
Arguments edge : clear implicits.
Arguments graph : clear implicits.

(* filter_map: new graph built with add_node / add_edge (which may panic at the limits) *)
Section FM.
  Context {NW EW NW2 EW2 : Type}.
  Variable cap : nat.
  Variable capcheck : bool.

  Fixpoint fm_nodes (nmap : nat -> NW -> option NW2) (i : nat) (ns : list (node NW))
           (g : graph NW2 EW2) (imap : list nat) : option (graph NW2 EW2 * list nat) :=
    match ns with
    | [] => Some (g, imap)
    | n :: rest =>
        match nmap i (nwt n) with
        | None => fm_nodes nmap (S i) rest g (imap ++ [cap])
        | Some w2 =>
            match try_add_node cap capcheck g w2 with
            | (inr j, g') => fm_nodes nmap (S i) rest g' (imap ++ [j])
            | (inl _, _) => None
            end
        end
    end.

  Fixpoint fm_edges (emap : nat -> EW -> option EW2) (i : nat) (es : list (edge EW))
           (imap : list nat) (g : graph NW2 EW2) : option (graph NW2 EW2) :=
    match es with
    | [] => Some g
    | e :: rest =>
        match nth_error imap (fst (enode e)), nth_error imap (snd (enode e)) with
        | Some s, Some t =>
            if orb (Nat.eqb s cap) (Nat.eqb t cap) then fm_edges emap (S i) rest imap g
            else match emap i (ewt e) with
                 | None => fm_edges emap (S i) rest imap g
                 | Some w2 =>
                     match try_add_edge cap capcheck g s t w2 with
                     | (inr _, g') => fm_edges emap (S i) rest imap g'
                     | (inl _, _) => None
                     end
                 end
        | _, _ => None      (* node_index_map[..] out of bounds: panic *)
        end
    end.

  Definition filter_map (nmap : nat -> NW -> option NW2) (emap : nat -> EW -> option EW2)
             (g : graph NW EW) : option (graph NW2 EW2) :=
    match fm_nodes nmap 0 (gnodes g) g_empty [] with
    | None => None
    | Some (g1, imap) => fm_edges emap 0 (gedges g) imap g1
    end.
End FM.
