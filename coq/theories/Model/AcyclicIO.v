(* Acyclic<DiGraph> and Acyclic<StableDiGraph>: the wrapper over the Graph / StableGraph models,
   operation decoding and the observation battery.  No proofs in this file. *)
From PG Require Import Lib.Io Model.View Model.Traversal Model.AlgoBasic Model.GraphM Model.StableM Model.AcyclicM.
From PG Require Model.GraphIO Model.StableIO.

Definition TAG_BOOL := 0.   Definition TAG_PANIC := 2.  Definition TAG_IDX := 3.
Definition TAG_FUEL := 10.  Definition TAG_NONE := 13.  Definition TAG_SOME := 21.
Definition TAG_CYCLE := 43. Definition TAG_ORDER := 59. Definition TAG_POS := 60.
Definition TAG_ATPOS := 61. Definition TAG_SELFLOOP := 62. Definition TAG_RANGE := 63.

Fixpoint rmapM {A B} (f : A -> res B) (l : list A) : res (list B) :=
  match l with
  | [] => Ok []
  | x :: t => rbind (f x) (fun y => rmap (cons y) (rmapM f t))
  end.

Inductive inner := InG (g : GraphIO.G) | InS (s : sgraph).

Record acyc := mkAc { ag : inner; aom : omap; ablen : nat (* length of the two scratch bit sets *) }.

Section A.
  Variable cap : nat.
  Variable capcheck debug : bool.

  Definition erefs_g (k : nat) (l : list (nat * (nat * nat) * nat)) : list eref :=
    map (fun '(i, (s, t), w) => (i, if Nat.eqb k 0 then t else s, zn w)) l.
  Definition erefs_s (k : nat) (l : list (nat * (nat * nat) * option nat)) : list eref :=
    map (fun '(i, (s, t), w) => (i, if Nat.eqb k 0 then t else s, StableIO.zo w)) l.

  Definition live (i : inner) : list nat :=
    match i with
    | InG g => seq 0 (node_count g)
    | InS s => map fst (StableIO.live_nodes s)
    end.
  Definition ibound (i : inner) : nat :=
    match i with InG g => node_count g | InS s => node_bound s end.
  Definition icontains (i : inner) (a : nat) : bool :=
    match i with InG g => Nat.ltb a (node_count g) | InS s => contains_node s a end.

  Definition adj (i : inner) (k a : nat) : res (nat * list eref) :=
    match i with
    | InG g => rmap (fun l => (a, erefs_g k l)) (edges_directed cap true g a k)
    | InS s => rmap (fun l => (a, erefs_s k l)) (edges_directed_nx true (sg s) a (StableIO.s_next cap s a) k)
    end.

  (* what the DFS of causal_cones and toposort see of the wrapped graph *)
  Definition view_of (i : inner) : res view :=
    rbind (rmapM (adj i 0) (live i)) (fun outs =>
    rbind (rmapM (adj i 1) (live i)) (fun ins =>
      Ok (mkView true (ibound i) (Some (ibound i)) (live i) outs ins 0 0 []))).

  Definition empty_g : acyc := mkAc (InG g_empty) om_empty 0.
  Definition empty_s : acyc := mkAc (InS (sg_empty cap)) om_empty 0.

  (* ---- mutations; Panic leaves the caller's state alone (the harness restores a clone) ---- *)
  Definition lift_idx {G} (r : (gerr + nat) * G) : res (nat * G) :=
    match r with (inr i, g) => Ok (i, g) | (inl _, _) => Panic end.

  Definition inner_add_node (i : inner) (w : nat) : res (nat * inner) :=
    match i with
    | InG g => rmap (fun '(n, g') => (n, InG g')) (lift_idx (try_add_node cap capcheck g w))
    | InS s => rbind (s_try_add_node cap capcheck debug s w) (fun r => rmap (fun '(n, s') => (n, InS s')) (lift_idx r))
    end.
  Definition inner_add_edge (i : inner) (a b w : nat) : res (nat * inner) :=
    match i with
    | InG g => rmap (fun '(n, g') => (n, InG g')) (lift_idx (try_add_edge cap capcheck g a b w))
    | InS s => rbind (s_try_add_edge cap capcheck debug s a b w) (fun r => rmap (fun '(n, s') => (n, InS s')) (lift_idx r))
    end.
  Definition inner_update_edge (i : inner) (a b w : nat) : res (nat * inner) :=
    match i with
    | InG g => rbind (try_update_edge cap capcheck true g a b w) (fun r => rmap (fun '(n, g') => (n, InG g')) (lift_idx r))
    | InS s => rbind (s_try_update_edge cap capcheck debug true s a b w) (fun r => rmap (fun '(n, s') => (n, InS s')) (lift_idx r))
    end.
  Definition inner_remove_edge (i : inner) (e : nat) : res (option nat * inner) :=
    match i with
    | InG g => rmap (fun '(r, g') => (r, InG g')) (remove_edge debug g e)
    | InS s => rmap (fun '(r, s') => (r, InS s')) (s_remove_edge cap debug s e)
    end.
  Definition inner_remove_node (i : inner) (a : nat) : res (option nat * inner) :=
    match i with
    | InG g => rmap (fun '(r, g') => (r, InG g')) (remove_node cap debug g a)
    | InS s => rmap (fun '(r, s') => (r, InS s')) (s_remove_node cap debug s a)
    end.

  Definition ac_add_node (s : acyc) (w : nat) : res (nat * acyc) :=
    rbind (inner_add_node (ag s) w) (fun '(n, i') =>
      rmap (fun '(_, om') => (n, mkAc i' om' (ablen s))) (om_add_node (aom s) n (ibound i'))).

  Inductive eerr := ECycle (n : nat) | ESelfLoop.

  (* try_add_edge (upd = false) and try_update_edge (upd = true) *)
  Definition ac_try_edge (upd : bool) (s : acyc) (a b w : nat) : res ((eerr + nat) * acyc) :=
    if Nat.eqb a b then Ok (inl ESelfLoop, s)
    else
      rbind (view_of (ag s)) (fun v =>
      rbind (update_ordering debug v (ablen s) (aom s) a b) (fun '(r, bl) =>
        match r with
        | inl c => Ok (inl (ECycle c), mkAc (ag s) (aom s) bl)
        | inr om' =>
            rmap (fun '(e, i') => (inr e, mkAc i' om' bl))
                 (if upd then inner_update_edge (ag s) a b w else inner_add_edge (ag s) a b w)
        end)).

  Definition ac_is_valid_edge (s : acyc) (a b : nat) : res (bool * acyc) :=
    rbind (view_of (ag s)) (fun v =>
      rmap (fun '(r, bl) => (r, mkAc (ag s) (aom s) bl)) (is_valid_edge debug v (ablen s) (aom s) a b)).

  Definition ac_remove_edge (s : acyc) (e : nat) : res (option nat * acyc) :=
    rmap (fun '(r, i') => (r, mkAc i' (aom s) (ablen s))) (inner_remove_edge (ag s) e).

  (* remove_node: an absent node leaves everything alone; Graph::remove_node moves the last node into
     the vacated index and its position moves with it *)
  Definition om_rename (om : omap) (from to : nat) : res omap :=
    rbind (get_position om from) (fun pos =>
      if Nat.ltb to (length (n2p om))
      then Ok (mkOm (p2n_insert (p2n om) pos to) (upd (upd (n2p om) from 0) to pos))
      else Panic).

  Definition ac_remove_node (s : acyc) (a : nat) : res (option nat * acyc) :=
    if negb (icontains (ag s) a) then Ok (None, s)
    else
      let last := ibound (ag s) - 1 in
      rbind (om_remove_node (aom s) a) (fun om1 =>
      rbind (inner_remove_node (ag s) a) (fun '(r, i') =>
        if andb (negb (Nat.eqb a last)) (icontains i' a)
        then rmap (fun om2 => (r, mkAc i' om2 (ablen s))) (om_rename om1 last a)
        else Ok (r, mkAc i' om1 (ablen s)))).

  (* into_inner, an unchecked add_edge on the wrapped graph, then TryFrom *)
  Definition ac_raw_edge (s : acyc) (a b w : nat) : res ((nat + unit) * acyc) :=
    rbind (inner_add_edge (ag s) a b w) (fun '(_, i') =>
    rbind (view_of i') (fun v =>
    rbind (toposort v) (fun t =>
      match t with
      | inl c => Ok (inl c, s)
      | inr order => rmap (fun om => (inr tt, mkAc i' om (ibound i'))) (om_from_topo order (ibound i'))
      end))).

  (* ---- observations ---- *)
  Definition max_pos (om : omap) : nat := fold_left Nat.max (map fst (p2n om)) 0.

  Definition battery (s : acyc) : list line :=
    (TAG_ORDER, zns (map snd (p2n (aom s)))) ::
    (TAG_POS, flat_map (fun a => match get_position (aom s) a with
                                 | Ok p => [zn a; zn p] | _ => [zn a; (-2)%Z] end) (live (ag s))) ::
    (TAG_ATPOS, map (fun p => match at_position (aom s) p with Some n => zn n | None => (-1)%Z end)
                    (seq 0 (max_pos (aom s) + 2))) ::
    match ag s with
    | InG g => GraphIO.battery cap true g
    | InS st => StableIO.battery cap true st
    end.

  Definition rstep {A} (s : acyc) (r : res (A * acyc)) (f : A -> line) : acyc * list line :=
    match r with
    | Ok (x, s') => (s', f x :: battery s')
    | Panic => (s, (TAG_PANIC, []) :: battery s)
    | OutOfFuel => (s, [(TAG_FUEL, [])])
    end.

  Definition eline (r : eerr + nat) : line :=
    match r with
    | inr e => (TAG_IDX, [zn e])
    | inl (ECycle c) => (TAG_CYCLE, [zn c])
    | inl ESelfLoop => (TAG_SELFLOOP, [])
    end.
  Definition opt_line (o : option nat) : line :=
    match o with None => (TAG_NONE, []) | Some w => (TAG_SOME, [zn w]) end.

  Definition in_range (lo hi : nat) (p : nat) : bool := andb (Nat.leb lo p) (Nat.ltb p hi).

  Definition step (s : acyc) (o : line) : acyc * list line :=
    let '(code, a) := o in
    match code with
    | 0 => rstep s (ac_add_node s (arg a 0)) (fun n => (TAG_IDX, [zn n]))
    | 1 => rstep s (ac_try_edge false s (arg a 0) (arg a 1) (arg a 2)) eline
    | 2 => rstep s (ac_try_edge true s (arg a 0) (arg a 1) (arg a 2)) eline
    | 3 => (* Build::add_edge: Option *)
           rstep s (ac_try_edge false s (arg a 0) (arg a 1) (arg a 2))
                 (fun r => match r with inr e => (TAG_SOME, [zn e]) | inl _ => (TAG_NONE, []) end)
    | 4 => (* Build::update_edge: unwrap *)
           rstep s (rbind (ac_try_edge true s (arg a 0) (arg a 1) (arg a 2))
                          (fun '(r, s') => match r with inr e => Ok (e, s') | inl _ => Panic end))
                 (fun e => (TAG_IDX, [zn e]))
    | 5 => rstep s (ac_remove_edge s (arg a 0)) opt_line
    | 6 => rstep s (ac_remove_node s (arg a 0)) opt_line
    | 7 => match ac_is_valid_edge s (arg a 0) (arg a 1) with
           | Ok (b, s') => (s', [(TAG_BOOL, [zb b])])
           | Panic => (s, [(TAG_PANIC, [])])
           | OutOfFuel => (s, [(TAG_FUEL, [])]) end
    | 8 => rstep s (ac_raw_edge s (arg a 0) (arg a 1) (arg a 2))
                 (fun r => match r with inl c => (TAG_CYCLE, [zn c]) | inr _ => (TAG_BOOL, [1%Z]) end)
    | 9 => (s, [(TAG_RANGE, zns (map snd (filter (fun '(p, _) => in_range (arg a 0) (arg a 1) p) (p2n (aom s)))))])
    | _ => (s, [(TAG_PANIC, [])])
    end.

  Fixpoint run (s : acyc) (ops : list line) : list (list line) :=
    match ops with
    | [] => []
    | o :: rest => let '(s', ls) := step s o in ls :: run s' rest
    end.
End A.

(* header = [inner kind (0 DiGraph, 1 StableDiGraph); debug; cap; capcheck] *)
Definition run_case (header : list Z) (ops : list line) : list (list line) :=
  let cap := arg header 2 in
  let cc := Z.eqb (argz header 3) 1 in
  let dbg := Z.eqb (argz header 1) 1 in
  run cap cc dbg (if Z.eqb (argz header 0) 0 then empty_g else empty_s cap) ops.
