(* C20: maximal_cliques (src/algo/maximal_cliques.rs), the ALGORITHM: Bron-Kerbosch with pivoting, as a
   nondeterministic mirror over a view.  The sets r, p, x of the code (HashSet<NodeId>) are lists
   without duplicates.  HashSet iteration order is randomly seeded, so two things are not determined:
     - which of several vertices of maximal neighbors(v).count() in p becomes the pivot u
       ([bk_pivot_ok]: any of them);
     - the order of [todo] = p.iter().filter(..).collect() ([Permutation]: any order); the loop pops
       from the END of that vector, so it runs through [rev todo].
   Everything else is mirrored as written: the filter (keep u itself and every v that is not adjacent
   to u in both directions of the adjacency matrix), p.remove(&v), next_r = r + v,
   next_p = p /\ neighbors(v), next_x = x /\ neighbors(v), cliques.extend(..), x.insert(v).
   [bk_exec] is one executable instance (pivot = first maximum in list order, todo in list order).
   No proofs in this file. *)
From Coq Require Import Permutation.
From PG Require Import Lib.Io Model.View.

(* g.neighbors(v).count(): out-neighbours with multiplicity (a self-loop counts) *)
Definition deg (v : view) (a : nat) : nat := length (neighbors v a).
(* g.is_adjacent(adj_mat, a, b): there is an edge a -> b *)
Definition is_adjacent (v : view) (a b : nat) : bool := mem b (neighbors v a).

(* HashSet::insert, HashSet::remove, a.intersection(&HashSet::from_iter(n)) *)
Definition sinsert (a : nat) (s : list nat) : list nat := if mem a s then s else a :: s.
Definition sremove (a : nat) (s : list nat) : list nat := filter (fun y => negb (Nat.eqb y a)) s.
Definition sinter (s n : list nat) : list nat := filter (fun y => mem y n) s.

(* the closure of the filter: *u == *v || !is_adjacent(u, v) || !is_adjacent(v, u) *)
Definition bk_keep (v : view) (u w : nat) : bool :=
  Nat.eqb u w || negb (is_adjacent v u w) || negb (is_adjacent v w u).
Definition bk_candidates (v : view) (u : nat) (p : list nat) : list nat := filter (bk_keep v u) p.

(* p.iter().max_by_key(|v| g.neighbors(v).count()): some member of p of maximal count *)
Definition bk_pivot_ok (v : view) (p : list nat) (u : nat) : Prop :=
  In u p /\ forall w, In w p -> deg v w <= deg v u.

(* bk v r p x out: bron_kerbosch_pivot(g, adj_mat, r, p, x) may return out;
   bk_loop v r p x todo out: the while loop, started with the sets p, x and the nodes still to pop in
   popping order todo, may append out to cliques *)
Inductive bk (v : view) : list nat -> list nat -> list nat -> list (list nat) -> Prop :=
| bk_report r : bk v r [] [] [r]
| bk_dead r x : x <> [] -> bk v r [] x []
| bk_branch r p x u todo out :
    p <> [] -> bk_pivot_ok v p u -> Permutation todo (bk_candidates v u p) ->
    bk_loop v r p x (rev todo) out ->
    bk v r p x out
with bk_loop (v : view) : list nat -> list nat -> list nat -> list nat -> list (list nat) -> Prop :=
| bkl_done r p x : bk_loop v r p x [] []
| bkl_pop r p x w todo o1 o2 :
    bk v (sinsert w r) (sinter (sremove w p) (neighbors v w)) (sinter x (neighbors v w)) o1 ->
    bk_loop v r (sremove w p) (sinsert w x) todo o2 ->
    bk_loop v r p x (w :: todo) (o1 ++ o2).

Definition maximal_cliques_run (v : view) (out : list (list nat)) : Prop := bk v [] (vnodes v) [] out.

(* ---------------------------------------------------------------- one executable instance *)
(* first member of best :: l of maximal count *)
Fixpoint bk_argmax (v : view) (l : list nat) (best : nat) : nat :=
  match l with
  | [] => best
  | h :: t => bk_argmax v t (if Nat.ltb (deg v best) (deg v h) then h else best)
  end.
Definition bk_pivot (v : view) (p : list nat) : nat :=
  match p with [] => 0 | h :: t => bk_argmax v t h end.

Fixpoint bk_loop_exec (rec : list nat -> list nat -> list nat -> list (list nat)) (v : view)
    (r p x todo : list nat) : list (list nat) :=
  match todo with
  | [] => []
  | w :: t =>
      rec (sinsert w r) (sinter (sremove w p) (neighbors v w)) (sinter x (neighbors v w))
      ++ bk_loop_exec rec v r (sremove w p) (sinsert w x) t
  end.

(* every recursive call has a strictly smaller p: fuel > length p suffices *)
Fixpoint bk_exec (fuel : nat) (v : view) (r p x : list nat) : list (list nat) :=
  match fuel with
  | 0 => []
  | S f =>
      match p with
      | [] => match x with [] => [r] | _ :: _ => [] end
      | _ :: _ => bk_loop_exec (bk_exec f v) v r p x (rev (bk_candidates v (bk_pivot v p) p))
      end
  end.

Definition maximal_cliques_exec (v : view) : list (list nat) :=
  bk_exec (S (length (vnodes v))) v [] (vnodes v) [].

(* opcode 60: the cliques of the executable instance, each listed in node order (the crate's answer is compared as a set) *)
Definition cliques_query (v : view) : list line :=
  let cs := map (fun c => filter (fun y => mem y c) (vnodes v)) (maximal_cliques_exec v) in
  (11%nat, [zn (length cs)]) :: map (fun c => (44%nat, zns c)) cs.
