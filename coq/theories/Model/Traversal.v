(* Executable mirrors of /repo/src/visit/traversal.rs (Dfs, DfsPostOrder, Bfs, Topo) and
   /repo/src/visit/dfsvisit.rs (depth_first_search) over a view.  No proofs in this file. *)
From PG Require Import Lib.Io Model.View.

(* ------------------------------------------------------------------ Dfs *)
(* stack: head = top (Vec::push / pop at the end) *)
Record dfs := mkDfs { dstack : list nat; ddisc : vmap }.

Definition dfs_empty : dfs := mkDfs [] [].
Definition dfs_move_to (d : dfs) (s : nat) : dfs := mkDfs [s] (ddisc d).
Definition dfs_reset (d : dfs) : dfs := mkDfs [] [].

(* while let Some(node) = stack.pop() { if discovered.visit(node) { push unvisited succs; return Some(node) } } *)
Fixpoint dfs_next (fuel : nat) (v : view) (d : dfs) : res (option nat * dfs) :=
  match fuel with
  | 0 => OutOfFuel
  | S f =>
      match dstack d with
      | [] => Ok (None, d)
      | node :: rest =>
          rbind (visit v (ddisc d) node) (fun '(fresh, disc') =>
            if fresh then
              let pushes := filter (fun s => negb (is_visited disc' s)) (neighbors v node) in
              Ok (Some node, mkDfs (rev pushes ++ rest) disc')
            else dfs_next f v (mkDfs rest disc'))
      end
  end.

Definition trav_fuel (v : view) : nat :=
  S (S (vnode_count v + length (all_out v) + vbound v)).

(* all the nodes next() yields until None *)
Fixpoint dfs_drain (fuel : nat) (v : view) (d : dfs) : res (list nat * dfs) :=
  match fuel with
  | 0 => OutOfFuel
  | S f =>
      rbind (dfs_next (trav_fuel v) v d) (fun '(o, d') =>
        match o with
        | None => Ok ([], d')
        | Some n => rmap (fun '(l, d'') => (n :: l, d'')) (dfs_drain f v d')
        end)
  end.

(* k steps *)
Fixpoint dfs_steps (k : nat) (v : view) (d : dfs) : res (list nat * dfs) :=
  match k with
  | 0 => Ok ([], d)
  | S k' =>
      rbind (dfs_next (trav_fuel v) v d) (fun '(o, d') =>
        match o with
        | None => Ok ([], d')
        | Some n => rmap (fun '(l, d'') => (n :: l, d'')) (dfs_steps k' v d')
        end)
  end.

(* ------------------------------------------------------------------ DfsPostOrder *)
Record dpo := mkDpo { pstack : list nat; pdisc : vmap; pfin : vmap }.

Fixpoint dpo_next (fuel : nat) (v : view) (d : dpo) : res (option nat * dpo) :=
  match fuel with
  | 0 => OutOfFuel
  | S f =>
      match pstack d with
      | [] => Ok (None, d)
      | nx :: rest =>
          rbind (visit v (pdisc d) nx) (fun '(fresh, disc') =>
            if fresh then
              let pushes := filter (fun s => negb (is_visited disc' s)) (neighbors v nx) in
              dpo_next f v (mkDpo (rev pushes ++ nx :: rest) disc' (pfin d))
            else
              rbind (visit v (pfin d) nx) (fun '(first, fin') =>
                if first then Ok (Some nx, mkDpo rest disc' fin')
                else dpo_next f v (mkDpo rest disc' fin')))
      end
  end.

Fixpoint dpo_drain (fuel : nat) (v : view) (d : dpo) : res (list nat * dpo) :=
  match fuel with
  | 0 => OutOfFuel
  | S f =>
      rbind (dpo_next (trav_fuel v + trav_fuel v) v d) (fun '(o, d') =>
        match o with
        | None => Ok ([], d')
        | Some n => rmap (fun '(l, d'') => (n :: l, d'')) (dpo_drain f v d')
        end)
  end.

(* ------------------------------------------------------------------ Bfs *)
(* queue: head = front *)
Record bfs := mkBfs { bqueue : list nat; bdisc : vmap }.

Definition bfs_new (v : view) (s : nat) : res bfs :=
  rmap (fun '(_, m) => mkBfs [s] m) (visit v [] s).

Fixpoint bfs_push (v : view) (succs : list nat) (q : list nat) (m : vmap) : res (list nat * vmap) :=
  match succs with
  | [] => Ok (q, m)
  | s :: rest =>
      rbind (visit v m s) (fun '(fresh, m') =>
        bfs_push v rest (if fresh then q ++ [s] else q) m')
  end.

Definition bfs_next (v : view) (b : bfs) : res (option nat * bfs) :=
  match bqueue b with
  | [] => Ok (None, b)
  | node :: rest =>
      rmap (fun '(q, m) => (Some node, mkBfs q m)) (bfs_push v (neighbors v node) rest (bdisc b))
  end.

Fixpoint bfs_drain (fuel : nat) (v : view) (b : bfs) : res (list nat) :=
  match fuel with
  | 0 => OutOfFuel
  | S f =>
      rbind (bfs_next v b) (fun '(o, b') =>
        match o with
        | None => Ok []
        | Some n => rmap (cons n) (bfs_drain f v b')
        end)
  end.

(* ------------------------------------------------------------------ Topo *)
(* tovisit: head = top *)
Record topo := mkTopo { tvisit : list nat; tord : vmap }.

Definition topo_initials (v : view) (cands : list nat) : list nat :=
  (* tovisit.extend(filter ...): pushed in order, so the last candidate ends on top *)
  rev (filter (fun a => match neighbors_in v a with [] => true | _ => false end) cands).

Definition topo_new (v : view) : topo := mkTopo (topo_initials v (vnodes v)) [].
Definition topo_with_initials (v : view) (ini : list nat) : topo := mkTopo (topo_initials v ini) [].

Fixpoint topo_next (fuel : nat) (v : view) (t : topo) : res (option nat * topo) :=
  match fuel with
  | 0 => OutOfFuel
  | S f =>
      match tvisit t with
      | [] => Ok (None, t)
      | nix :: rest =>
          if is_visited (tord t) nix then topo_next f v (mkTopo rest (tord t))
          else
            rbind (visit v (tord t) nix) (fun '(_, ord') =>
              let pushes := filter (fun neigh => forallb (fun b => is_visited ord' b) (neighbors_in v neigh))
                                   (neighbors v nix) in
              Ok (Some nix, mkTopo (rev pushes ++ rest) ord'))
      end
  end.

Fixpoint topo_drain (fuel : nat) (v : view) (t : topo) : res (list nat) :=
  match fuel with
  | 0 => OutOfFuel
  | S f =>
      rbind (topo_next (trav_fuel v) v t) (fun '(o, t') =>
        match o with
        | None => Ok []
        | Some n => rmap (cons n) (topo_drain f v t')
        end)
  end.

(* ------------------------------------------------------------------ depth_first_search *)
Inductive dfs_event :=
| EvDiscover (u t : nat)
| EvTree (u w : nat)
| EvBack (u w : nat)
| EvCross (u w : nat)
| EvFinish (u t : nat).

Inductive control := CContinue | CPrune | CBreak.

Record dvst := mkDv { vdisc : vmap; vfin : vmap; vtime : nat; vevs : list dfs_event (* reversed *) }.

Definition emit (ctl : dfs_event -> control) (s : dvst) (e : dfs_event) : control * dvst :=
  (ctl e, mkDv (vdisc s) (vfin s) (vtime s) (e :: vevs s)).

(* result: true = Break *)
Fixpoint dfs_visitor (fuel : nat) (v : view) (ctl : dfs_event -> control) (debug : bool) (u : nat) (s : dvst)
  : res (bool * dvst) :=
  match fuel with
  | 0 => OutOfFuel
  | S f =>
      rbind (visit v (vdisc s) u) (fun '(fresh, disc') =>
        if negb fresh then Ok (false, s) else
        let s0 := mkDv disc' (vfin s) (S (vtime s)) (vevs s) in
        let '(c, s1) := emit ctl s0 (EvDiscover u (vtime s)) in
        match c with
        | CBreak => Ok (true, s1)
        | _ =>
            rbind (match c with
                   | CPrune => Ok (false, s1)
                   | _ => dfs_neighbors f v ctl debug u (neighbors v u) s1
                   end) (fun '(brk, s2) =>
              if brk then Ok (true, s2) else
              rbind (visit v (vfin s2) u) (fun '(first, fin') =>
                if andb debug (negb first) then Panic else
                let s3 := mkDv (vdisc s2) fin' (S (vtime s2)) (vevs s2) in
                let '(c2, s4) := emit ctl s3 (EvFinish u (vtime s2)) in
                match c2 with
                | CBreak => Ok (true, s4)
                | CPrune => Panic
                | CContinue => Ok (false, s4)
                end))
        end)
  end
with dfs_neighbors (fuel : nat) (v : view) (ctl : dfs_event -> control) (debug : bool) (u : nat)
                   (ws : list nat) (s : dvst) : res (bool * dvst) :=
  match fuel with
  | 0 => OutOfFuel
  | S f =>
      match ws with
      | [] => Ok (false, s)
      | w :: rest =>
          if negb (is_visited (vdisc s) w) then
            let '(c, s1) := emit ctl s (EvTree u w) in
            match c with
            | CBreak => Ok (true, s1)
            | CPrune => dfs_neighbors f v ctl debug u rest s1
            | CContinue =>
                rbind (dfs_visitor f v ctl debug w s1) (fun '(brk, s2) =>
                  if brk then Ok (true, s2) else dfs_neighbors f v ctl debug u rest s2)
            end
          else
            let ev := if negb (is_visited (vfin s) w) then EvBack u w else EvCross u w in
            let '(c, s1) := emit ctl s ev in
            match c with
            | CBreak => Ok (true, s1)
            | _ => dfs_neighbors f v ctl debug u rest s1
            end
      end
  end.

Fixpoint dfs_search (fuel : nat) (v : view) (ctl : dfs_event -> control) (debug : bool) (starts : list nat)
         (s : dvst) : res (bool * dvst) :=
  match starts with
  | [] => Ok (false, s)
  | st :: rest =>
      rbind (dfs_visitor fuel v ctl debug st s) (fun '(brk, s1) =>
        if brk then Ok (true, s1) else dfs_search fuel v ctl debug rest s1)
  end.

Definition depth_first_search (v : view) (ctl : dfs_event -> control) (debug : bool) (starts : list nat)
  : res (bool * list dfs_event) :=
  rmap (fun '(brk, s) => (brk, rev (vevs s)))
       (dfs_search (4 * trav_fuel v) v ctl debug starts (mkDv [] [] 0 [])).

(* ------------------------------------------------------------------ line grammar *)
Definition TAG_PANIC := 2.  Definition TAG_FUEL := 10. Definition TAG_SEQ := 41.
Definition TAG_EVENTS := 42. Definition TAG_BOOL := 0.

Definition rline {A} (f : A -> line) (r : res A) : line :=
  match r with Ok a => f a | Panic => (TAG_PANIC, []) | OutOfFuel => (TAG_FUEL, []) end.

(* control script: rules (kind, node, action); kind 0 Discover(u) 1 Tree(target) 2 Back(target) 3 Cross(target)
   4 Finish(u); action 1 = Prune, 2 = Break; first matching rule wins *)
Fixpoint rules_of (l : list Z) : list (nat * nat * nat) :=
  match l with
  | k :: n :: a :: rest => (nz k, nz n, nz a) :: rules_of rest
  | _ => []
  end.

Definition ev_key (e : dfs_event) : nat * nat :=
  match e with
  | EvDiscover u _ => (0, u) | EvTree _ w => (1, w) | EvBack _ w => (2, w)
  | EvCross _ w => (3, w) | EvFinish u _ => (4, u)
  end.

Fixpoint ctl_of (rules : list (nat * nat * nat)) (e : dfs_event) : control :=
  match rules with
  | [] => CContinue
  | (k, n, a) :: rest =>
      if andb (Nat.eqb k (fst (ev_key e))) (Nat.eqb n (snd (ev_key e)))
      then match a with 1 => CPrune | 2 => CBreak | _ => CContinue end
      else ctl_of rest e
  end.

Definition ev_nums (e : dfs_event) : list Z :=
  match e with
  | EvDiscover u t => [0%Z; zn u; zn t] | EvTree u w => [1%Z; zn u; zn w] | EvBack u w => [2%Z; zn u; zn w]
  | EvCross u w => [3%Z; zn u; zn w] | EvFinish u t => [4%Z; zn u; zn t]
  end.

(* query opcodes (10..): 10 dfs s | 11 dfs_moveto s k t (k steps from s, then move_to t, drain)
   12 dfs_reset s t (drain from s, reset, move_to t, drain) | 13 dfspost s | 14 bfs s | 15 topo
   16 topo_with_initials n1 n2 ... | 17 depth_first_search nstarts s1.. rules.. | 18 dfspost_moveto s t *)
Definition trav_query (debug : bool) (v : view) (o : line) : list line :=
  let '(code, a) := o in
  let big := 4 * trav_fuel v in
  match code with
  | 10 => [rline (fun '(l, _) => (TAG_SEQ, zns l)) (dfs_drain big v (dfs_move_to dfs_empty (arg a 0)))]
  | 11 => [rline (fun l => (TAG_SEQ, zns l))
             (rbind (dfs_steps (arg a 1) v (dfs_move_to dfs_empty (arg a 0))) (fun '(l1, d1) =>
              rmap (fun '(l2, _) => l1 ++ l2) (dfs_drain big v (dfs_move_to d1 (arg a 2)))))]
  | 12 => [rline (fun l => (TAG_SEQ, zns l))
             (rbind (dfs_drain big v (dfs_move_to dfs_empty (arg a 0))) (fun '(l1, d1) =>
              rmap (fun '(l2, _) => l1 ++ l2) (dfs_drain big v (dfs_move_to (dfs_reset d1) (arg a 1)))))]
  | 13 => [rline (fun '(l, _) => (TAG_SEQ, zns l)) (dpo_drain big v (mkDpo [arg a 0] [] []))]
  | 14 => [rline (fun l => (TAG_SEQ, zns l)) (rbind (bfs_new v (arg a 0)) (bfs_drain big v))]
  | 15 => [rline (fun l => (TAG_SEQ, zns l)) (topo_drain big v (topo_new v))]
  | 16 => [rline (fun l => (TAG_SEQ, zns l)) (topo_drain big v (topo_with_initials v (map nz a)))]
  | 17 => let ns := arg a 0 in
          let starts := map nz (firstn ns (tl a)) in
          let rules := rules_of (skipn ns (tl a)) in
          [rline (fun '(brk, evs) => (TAG_EVENTS, zb brk :: flat_map ev_nums evs))
                 (depth_first_search v (ctl_of rules) debug starts)]
  | 18 => [rline (fun l => (TAG_SEQ, zns l))
             (rbind (dpo_drain big v (mkDpo [arg a 0] [] [])) (fun '(l1, d1) =>
              rmap (fun '(l2, _) => l1 ++ l2) (dpo_drain big v (mkDpo [arg a 1] (pdisc d1) (pfin d1)))))]
  | _ => [(TAG_PANIC, [])]
  end.

Fixpoint run (debug : bool) (v : view) (ops : list line) : list (list line) :=
  match ops with
  | [] => []
  | o :: rest =>
      if Nat.ltb (fst o) 10 then [] :: run debug (view_add v o) rest
      else trav_query debug v o :: run debug v rest
  end.

(* header = [directed; node_bound; visit_cap; edge_count; edge_bound; debug] *)
Definition run_case (header : list Z) (ops : list line) : list (list line) :=
  run (Z.eqb (argz header 5) 1) (view_init header) ops.
