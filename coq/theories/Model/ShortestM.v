(* Executable mirrors of dijkstra, astar, k_shortest_path (src/algo/{dijkstra,astar,k_shortest_path}.rs)
   and of bellman_ford, find_negative_cycle, spfa, floyd_warshall(_path) over a view.
   The binary heap is a list; pop returns a minimal key, ties broken first-in first-out
   (the real BinaryHeap's tie order is not part of any property).  No proofs in this file. *)
From PG Require Import Lib.Io Model.View Model.Traversal.
Open Scope Z_scope.

(* ------------------------------------------------------------------ heap and score maps *)
Definition hent := (Z * nat * nat)%type.   (* key, node, insertion number *)
Definition heap := list hent.

Definition hle (a b : hent) : bool :=
  let '(ka, _, sa) := a in let '(kb, _, sb) := b in
  orb (Z.ltb ka kb) (andb (Z.eqb ka kb) (Nat.leb sa sb)).

Fixpoint hmin (best : hent) (l : heap) : hent :=
  match l with [] => best | x :: t => hmin (if hle best x then best else x) t end.

Fixpoint hremove (x : hent) (l : heap) : heap :=
  match l with
  | [] => []
  | y :: t => if Nat.eqb (snd x) (snd y) then t else y :: hremove x t
  end.

Definition hpop (h : heap) : option (hent * heap) :=
  match h with [] => None | x :: t => let m := hmin x t in Some (m, hremove m h) end.

Definition smap := list (nat * Z).
Fixpoint sget (m : smap) (k : nat) : option Z :=
  match m with [] => None | (k', v) :: t => if Nat.eqb k' k then Some v else sget t k end.
Fixpoint sset (m : smap) (k : nat) (v : Z) : smap :=
  match m with
  | [] => [(k, v)]
  | (k', v') :: t => if Nat.eqb k' k then (k', v) :: t else (k', v') :: sset t k v
  end.

(* insertion sort by node, for printing *)
Fixpoint sins (x : nat * Z) (l : smap) : smap :=
  match l with
  | [] => [x]
  | y :: t => if Nat.leb (fst x) (fst y) then x :: l else y :: sins x t
  end.
Definition ssort (m : smap) : smap := fold_right sins [] m.

(* ------------------------------------------------------------------ dijkstra *)
Fixpoint dij_edges (es : list eref) (node_score : Z) (visited : vmap) (scores : smap) (h : heap) (seq : nat)
  : smap * heap * nat :=
  match es with
  | [] => (scores, h, seq)
  | e :: rest =>
      let next := tgt e in
      if is_visited visited next then dij_edges rest node_score visited scores h seq
      else
        let ns := node_score + ewgt e in
        match sget scores next with
        | Some old =>
            if Z.ltb ns old
            then dij_edges rest node_score visited (sset scores next ns) (h ++ [(ns, next, seq)]) (S seq)
            else dij_edges rest node_score visited scores h seq
        | None => dij_edges rest node_score visited (sset scores next ns) (h ++ [(ns, next, seq)]) (S seq)
        end
  end.

Fixpoint dij_loop (fuel : nat) (v : view) (goal : option nat) (visited : vmap) (scores : smap) (h : heap) (seq : nat)
  : res smap :=
  match fuel with
  | 0%nat => OutOfFuel
  | S f =>
      match hpop h with
      | None => Ok scores
      | Some ((node_score, node, _), h') =>
          if is_visited visited node then dij_loop f v goal visited scores h' seq
          else if match goal with Some g => Nat.eqb g node | None => false end then Ok scores
          else
            let '(scores', h'', seq') := dij_edges (out_edges v node) node_score visited scores h' seq in
            rbind (visit v visited node) (fun '(_, visited') =>
              dij_loop f v goal visited' scores' h'' seq')
      end
  end.

Definition dijkstra (v : view) (start : nat) (goal : option nat) : res smap :=
  dij_loop (4 * trav_fuel v) v goal [] [(start, 0)] [(0, start, 0%nat)] 1%nat.

(* ------------------------------------------------------------------ astar *)
(* came_from: node -> predecessor *)
Fixpoint path_back (fuel : nat) (came : list (nat * Z)) (cur : nat) (acc : list nat) : res (list nat) :=
  match fuel with
  | 0%nat => OutOfFuel
  | S f =>
      match sget came cur with
      | Some p => path_back f came (Z.to_nat p) (Z.to_nat p :: acc)
      | None => Ok acc
      end
  end.

Fixpoint astar_edges (es : list eref) (node : nat) (node_score : Z) (est : nat -> Z)
         (scores : smap) (came : list (nat * Z)) (h : heap) (seq : nat) : smap * list (nat * Z) * heap * nat :=
  match es with
  | [] => (scores, came, h, seq)
  | e :: rest =>
      let next := tgt e in
      let ns := node_score + ewgt e in
      let better := match sget scores next with Some old => negb (Z.leb old ns) | None => true end in
      if better
      then astar_edges rest node node_score est (sset scores next ns) (sset came next (Z.of_nat node))
                       (h ++ [(ns + est next, next, seq)]) (S seq)
      else astar_edges rest node node_score est scores came h seq
  end.

Fixpoint astar_loop (fuel : nat) (v : view) (is_goal : nat -> bool) (est : nat -> Z)
         (scores : smap) (ests : smap) (came : list (nat * Z)) (h : heap) (seq : nat)
  : res (option (Z * list nat)) :=
  match fuel with
  | 0%nat => OutOfFuel
  | S f =>
      match hpop h with
      | None => Ok None
      | Some ((estimate, node, _), h') =>
          if is_goal node then
            match sget scores node with
            | None => Panic          (* scores[&node] *)
            | Some cost => rmap (fun p => Some (cost, p)) (path_back (S (length came)) came node [node])
            end
          else
            match sget scores node with
            | None => Panic
            | Some node_score =>
                let skip := match sget ests node with Some old => Z.leb old estimate | None => false end in
                if skip then astar_loop f v is_goal est scores ests came h' seq
                else
                  let '(scores', came', h'', seq') :=
                    astar_edges (out_edges v node) node node_score est scores came h' seq in
                  astar_loop f v is_goal est scores' (sset ests node estimate) came' h'' seq'
            end
      end
  end.

Definition astar (v : view) (start : nat) (is_goal : nat -> bool) (est : nat -> Z) : res (option (Z * list nat)) :=
  astar_loop 5000 v is_goal est [(start, 0)] [] [] [(est start, start, 0%nat)] 1%nat.

(* ------------------------------------------------------------------ k_shortest_path *)
(* counter: Vec<usize> of length csize (node_count in the shipped code) indexed by to_index *)
Fixpoint ksp_push (es : list eref) (node_score : Z) (h : heap) (seq : nat) : heap * nat :=
  match es with
  | [] => (h, seq)
  | e :: rest => ksp_push rest node_score (h ++ [(node_score + ewgt e, tgt e, seq)]) (S seq)
  end.

Fixpoint ksp_loop (fuel : nat) (v : view) (goal : option nat) (k : nat) (counter : list nat) (scores : smap)
         (h : heap) (seq : nat) : res smap :=
  match fuel with
  | 0%nat => OutOfFuel
  | S f =>
      match hpop h with
      | None => Ok scores
      | Some ((node_score, node, _), h') =>
          match nth_error counter node with
          | None => Panic
          | Some c =>
              let c' := S c in
              let counter' := upd counter node c' in
              if Nat.ltb k c' then ksp_loop f v goal k counter' scores h' seq
              else
                let scores' := if Nat.eqb c' k then sset scores node node_score else scores in
                if andb (match goal with Some g => Nat.eqb g node | None => false end) (Nat.eqb c' k)
                then Ok scores'
                else let '(h'', seq') := ksp_push (out_edges v node) node_score h' seq in
                     ksp_loop f v goal k counter' scores' h'' seq'
          end
      end
  end.

Definition k_shortest_path (v : view) (csize : nat) (start : nat) (goal : option nat) (k : nat) : res smap :=
  ksp_loop (S k * (4 * trav_fuel v)) v goal k (repeat 0%nat csize) [] [(0, start, 0%nat)] 1%nat.

(* ------------------------------------------------------------------ bellman_ford (float costs: Z plus infinity) *)
Definition ez := option Z.   (* None = +infinity *)
Definition ez_add (a : ez) (w : Z) : ez := option_map (fun x => x + w) a.
Definition ez_lt (a b : ez) : bool :=
  match a, b with
  | Some x, Some y => Z.ltb x y
  | Some _, None => true
  | None, _ => false
  end.

Definition eget {A} (l : list A) (i : nat) : res A := match nth_error l i with Some x => Ok x | None => Panic end.

(* one sweep over all edges in node order; returns did_update *)
Fixpoint bf_edges (i : nat) (es : list eref) (dist : list ez) (pred : list (option nat)) (upd_ : bool)
  : res (list ez * list (option nat) * bool) :=
  match es with
  | [] => Ok (dist, pred, upd_)
  | e :: rest =>
      rbind (eget dist i) (fun di =>
      rbind (eget dist (tgt e)) (fun dj =>
        if ez_lt (ez_add di (ewgt e)) dj
        then bf_edges i rest (upd dist (tgt e) (ez_add di (ewgt e))) (upd pred (tgt e) (Some i)) true
        else bf_edges i rest dist pred upd_))
  end.

Fixpoint bf_sweep (v : view) (ids : list nat) (dist : list ez) (pred : list (option nat)) (upd_ : bool)
  : res (list ez * list (option nat) * bool) :=
  match ids with
  | [] => Ok (dist, pred, upd_)
  | i :: rest =>
      rbind (bf_edges i (out_edges v i) dist pred upd_) (fun '(d, p, u) => bf_sweep v rest d p u)
  end.

Fixpoint bf_rounds (rounds : nat) (v : view) (dist : list ez) (pred : list (option nat))
  : res (list ez * list (option nat)) :=
  match rounds with
  | 0%nat => Ok (dist, pred)
  | S r =>
      rbind (bf_sweep v (vnodes v) dist pred false) (fun '(d, p, u) =>
        if u then bf_rounds r v d p else Ok (d, p))
  end.

Definition bf_init_relax (v : view) (source : nat) : res (list ez * list (option nat)) :=
  let dist0 := repeat (None : ez) (vbound v) in
  if Nat.ltb source (vbound v)
  then bf_rounds (vnode_count v - 1) v (upd dist0 source (Some 0)) (repeat None (vbound v))
  else Panic.

(* the first edge (in node order) that can still be relaxed *)
Fixpoint bf_find_edge (i : nat) (es : list eref) (dist : list ez) : res (option (nat * nat)) :=
  match es with
  | [] => Ok None
  | e :: rest =>
      rbind (eget dist i) (fun di =>
      rbind (eget dist (tgt e)) (fun dj =>
        if ez_lt (ez_add di (ewgt e)) dj then Ok (Some (i, tgt e)) else bf_find_edge i rest dist))
  end.
Fixpoint bf_find (v : view) (ids : list nat) (dist : list ez) : res (option (nat * nat)) :=
  match ids with
  | [] => Ok None
  | i :: rest =>
      rbind (bf_find_edge i (out_edges v i) dist) (fun o =>
        match o with Some p => Ok (Some p) | None => bf_find v rest dist end)
  end.

(* Ok None = Err(NegativeCycle) *)
Definition bellman_ford (v : view) (source : nat) : res (option (list ez * list (option nat))) :=
  rbind (bf_init_relax v source) (fun '(d, p) =>
  rmap (fun o => match o with Some _ => None | None => Some (d, p) end) (bf_find v (vnodes v) d)).

(* find_negative_cycle, after the fix in /repo: the detected relaxation is performed on the
   predecessor vector before the chain is followed *)
Fixpoint position_nat (x : nat) (l : list nat) (i : nat) : option nat :=
  match l with [] => None | y :: t => if Nat.eqb y x then Some i else position_nat x t (S i) end.

Fixpoint fnc_walk (fuel : nat) (v : view) (pred : list (option nat)) (start node : nat) (visited : vmap) (path : list nat)
  : res (list nat) :=
  (* path is kept in push order *)
  match fuel with
  | 0%nat => OutOfFuel
  | S f =>
      rbind (eget pred node) (fun p =>
        let ancestor := match p with Some a => a | None => node end in
        if Nat.eqb ancestor start then Ok (path ++ [ancestor])
        else if is_visited visited ancestor then
          match position_nat ancestor path 0 with
          | Some pos => Ok (skipn pos path)
          | None => Panic     (* expect("we should always have a position") *)
          end
        else rbind (visit v visited ancestor) (fun '(_, vis') =>
               fnc_walk f v pred start ancestor vis' (path ++ [ancestor])))
  end.

Definition find_negative_cycle (v : view) (source : nat) : res (option (list nat)) :=
  rbind (bf_init_relax v source) (fun '(d, p) =>
  rbind (bf_find v (vnodes v) d) (fun o =>
    match o with
    | None => Ok None
    | Some (i, j) =>
        rmap (fun path => match path with [] => None | _ => Some (rev path) end)
             (fnc_walk (S (S (vbound v))) v (upd p j (Some i)) j j [] [])
    end)).

(* ------------------------------------------------------------------ spfa (bounded integer costs) *)
Section Bounded.
  Variable kmin kmax : Z.

  (* overflowing_add: (wrapped result, overflowed) *)
  Definition ov_add (a b : Z) : Z * bool :=
    let r := a + b in
    if Z.ltb kmax r then (r - (kmax - kmin + 1), true)
    else if Z.ltb r kmin then (r + (kmax - kmin + 1), true)
    else (r, false).

  Fixpoint spfa_edges (i : nat) (es : list eref) (dist : list Z) (pred : list (option nat))
           (inq : list bool) (q : list nat) : res (list Z * list (option nat) * list bool * list nat) :=
    match es with
    | [] => Ok (dist, pred, inq, q)
    | e :: rest =>
        let j := tgt e in
        rbind (eget dist i) (fun di =>
        rbind (eget dist j) (fun dj =>
          let '(d, ov) := ov_add di (ewgt e) in
          if andb (negb ov) (Z.ltb d dj) then
            rbind (eget inq j) (fun inqj =>
              spfa_edges i rest (upd dist j d) (upd pred j (Some i))
                         (if inqj then inq else upd inq j true) (if inqj then q else q ++ [j]))
          else spfa_edges i rest dist pred inq q))
    end.

  (* queue: first in, first out (after the fix in /repo) *)
  Fixpoint spfa_loop (fuel : nat) (v : view) (dist : list Z) (pred : list (option nat)) (inq : list bool)
           (visits : list nat) (q : list nat) : res (option (list Z * list (option nat))) :=
    match fuel with
    | 0%nat => OutOfFuel
    | S f =>
        match q with
        | [] => Ok (Some (dist, pred))
        | i :: rest =>
            rbind (eget visits i) (fun vi =>
              if Nat.leb (vbound v) vi then Ok None
              else
                rbind (spfa_edges i (out_edges v i) dist pred (upd inq i false) rest) (fun '(d, p, iq, q') =>
                  spfa_loop f v d p iq (upd visits i (S vi)) q'))
        end
    end.

  Definition spfa (v : view) (source : nat) : res (option (list Z * list (option nat))) :=
    let n := vbound v in
    if Nat.ltb source n
    then spfa_loop (S (S n) * S (S n) + 4)%nat v (upd (repeat kmax n) source 0) (repeat None n)
                   (upd (repeat false n) source true) (repeat 0%nat n) [source]
    else Panic.

  (* ---------------------------------------------------------------- floyd_warshall *)
  Definition mget {A} (m : list (list A)) (i j : nat) : res A :=
    match nth_error m i with Some r => eget r j | None => Panic end.
  Definition mset {A} (m : list (list A)) (i j : nat) (x : A) : res (list (list A)) :=
    match nth_error m i with
    | Some r => if Nat.ltb j (length r) then Ok (upd m i (upd r j x)) else Panic
    | None => Panic
    end.

  Definition fwst := (list (list Z) * list (list (option nat)))%type.

  Fixpoint fw_load (directed : bool) (es : list (nat * nat * nat * Z)) (s : fwst) : res fwst :=
    match es with
    | [] => Ok s
    | (_, a, b, w) :: rest =>
        let '(d, p) := s in
        rbind (mget d a b) (fun dab =>
          if Z.ltb w dab then
            rbind (mset d a b w) (fun d1 =>
            rbind (mset p a b (Some a)) (fun p1 =>
              if directed then fw_load directed rest (d1, p1)
              else rbind (mset d1 b a w) (fun d2 =>
                   rbind (mset p1 b a (Some b)) (fun p2 => fw_load directed rest (d2, p2)))))
          else fw_load directed rest s)
    end.

  (* diagonal: lowered to zero, never raised (after the fix in /repo) *)
  Fixpoint fw_diag (ids : list nat) (s : fwst) : res fwst :=
    match ids with
    | [] => Ok s
    | i :: rest =>
        let '(d, p) := s in
        rbind (mget d i i) (fun dii =>
        rbind (if Z.ltb 0 dii then mset d i i 0 else Ok d) (fun d1 =>
        rbind (mset p i i (Some i)) (fun p1 => fw_diag rest (d1, p1))))
    end.

  Definition fw_relax (s : fwst) (k i j : nat) : res fwst :=
    let '(d, p) := s in
    rbind (mget d i k) (fun dik =>
    rbind (mget d k j) (fun dkj =>
      (* pairs at max() are unreachable and are skipped (after the fix in /repo) *)
      if negb (andb (Z.ltb dik kmax) (Z.ltb dkj kmax)) then Ok s else
      let '(r, ov) := ov_add dik dkj in
      rbind (mget d i j) (fun dij =>
        if andb (negb ov) (Z.ltb r dij) then
          rbind (mset d i j r) (fun d1 =>
          rbind (mget p k j) (fun pkj =>
          rmap (fun p1 => (d1, p1)) (mset p i j pkj)))
        else Ok s))).

  Fixpoint fw_fold (l : list (nat * nat * nat)) (s : fwst) : res fwst :=
    match l with
    | [] => Ok s
    | (k, i, j) :: rest => rbind (fw_relax s k i j) (fw_fold rest)
    end.

  Definition triples_kij (n : nat) : list (nat * nat * nat) :=
    flat_map (fun k => flat_map (fun i => map (fun j => (k, i, j)) (seq 0 n)) (seq 0 n)) (seq 0 n).

  (* Ok None = Err(NegativeCycle) *)
  Definition floyd_warshall (v : view) : res (option fwst) :=
    let n := vnode_count v in
    rbind (fw_load (vdirected v) (verefs v) (repeat (repeat kmax n) n, repeat (repeat None n) n)) (fun s1 =>
    rbind (fw_diag (vnodes v) s1) (fun s2 =>
    rbind (fw_fold (triples_kij n) s2) (fun s3 =>
      if existsb (fun i => match nth_error (fst s3) i with
                           | Some r => match nth_error r i with Some x => Z.ltb x 0 | None => false end
                           | None => false end) (seq 0 n)
      then Ok None else Ok (Some s3)))).
End Bounded.

(* ------------------------------------------------------------------ line grammar *)
Close Scope Z_scope.
Definition TAG_PANIC := 2.  Definition TAG_FUEL := 10. Definition TAG_NONE := 13. Definition TAG_ERR := 1.
Definition TAG_SCORES := 46. Definition TAG_PATH := 47. Definition TAG_DIST := 48. Definition TAG_PRED := 49.
Definition TAG_CYCLE := 43.  Definition TAG_FW := 50.   Definition TAG_FWP := 51.

Definition rline {A} (f : A -> line) (r : res A) : line :=
  match r with Ok a => f a | Panic => (TAG_PANIC, []) | OutOfFuel => (TAG_FUEL, []) end.
Definition rlines {A} (f : A -> list line) (r : res A) : list line :=
  match r with Ok a => f a | Panic => [(TAG_PANIC, [])] | OutOfFuel => [(TAG_FUEL, [])] end.

Definition INF : Z := 2000000000%Z.        (* printed for +infinity *)
Definition I32MAX : Z := 2147483647%Z.
Definition I32MIN : Z := (-2147483648)%Z.

Definition scores_line (m : smap) : line := (TAG_SCORES, flat_map (fun '(n, d) => [zn n; d]) (ssort m)).
Definition ezs (l : list ez) : list Z := map (fun o => match o with Some x => x | None => INF end) l.
Definition preds (l : list (option nat)) : list Z := map (fun o => match o with Some x => zn x | None => (-1)%Z end) l.

Definition goal_of (z : Z) : option nat := if Z.ltb z 0 then None else Some (nz z).

(* heuristic table / goal set from the arguments *)
Fixpoint table_of (l : list Z) : list (nat * Z) :=
  match l with a :: b :: rest => (nz a, b) :: table_of rest | _ => [] end.

(* query opcodes: 30 dijkstra s goal(-1 = none) | 31 astar s ngoals g1.. (node est)* | 32 k_shortest_path csize s goal k
   33 bellman_ford s | 34 find_negative_cycle s | 35 spfa s | 36 floyd_warshall | 37 floyd_warshall_path *)
Definition short_query (v : view) (o : line) : list line :=
  let '(code, a) := o in
  match code with
  | 30 => [rline scores_line (dijkstra v (arg a 0) (goal_of (argz a 1)))]
  | 31 => let ng := arg a 1 in
          let goals := map nz (firstn ng (skipn 2 a)) in
          let tbl := table_of (skipn (2 + ng) a) in
          [rline (fun o => match o with
                           | None => (TAG_NONE, [])
                           | Some (c, p) => (TAG_PATH, c :: zns p) end)
                 (astar v (arg a 0) (fun x => mem x goals)
                        (fun x => match sget tbl x with Some h => h | None => 0%Z end))]
  | 32 => [rline scores_line (k_shortest_path v (arg a 0) (arg a 1) (goal_of (argz a 2)) (arg a 3))]
  | 33 => rlines (fun o => match o with
                           | None => [(TAG_ERR, [])]
                           | Some (d, p) => [(TAG_DIST, ezs d); (TAG_PRED, preds p)] end)
                 (bellman_ford v (arg a 0))
  | 34 => [rline (fun o => match o with None => (TAG_NONE, []) | Some c => (TAG_CYCLE, zns c) end)
                 (find_negative_cycle v (arg a 0))]
  | 35 => rlines (fun o => match o with
                           | None => [(TAG_ERR, [])]
                           | Some (d, p) => [(TAG_DIST, d); (TAG_PRED, preds p)] end)
                 (spfa I32MIN I32MAX v (arg a 0))
  | 36 => [rline (fun o => match o with
                           | None => (TAG_ERR, [])
                           | Some (d, _) => (TAG_FW, concat d) end)
                 (floyd_warshall I32MIN I32MAX v)]
  | 37 => rlines (fun o => match o with
                           | None => [(TAG_ERR, [])]
                           | Some (d, p) => [(TAG_FW, concat d); (TAG_FWP, concat (map preds p))] end)
                 (floyd_warshall I32MIN I32MAX v)
  | _ => [(TAG_PANIC, [])]
  end.
