(* Executable mirror of /repo/src/acyclic.rs and /repo/src/acyclic/order_map.rs, generic in the
   wrapped graph (a DiGraph or a StableDiGraph model).  No proofs in this file. *)
From PG Require Import Lib.Io Model.View Model.Traversal Model.AlgoBasic.

(* ---- OrderMap ---- *)
Record omap := mkOm {
  p2n : list (nat * nat);     (* BTreeMap position -> node, kept sorted by position *)
  n2p : list nat              (* Vec<TopologicalPosition> indexed by to_index, default 0 *)
}.

Definition om_empty : omap := mkOm [] [].

Fixpoint p2n_insert (l : list (nat * nat)) (pos node : nat) : list (nat * nat) :=
  match l with
  | [] => [(pos, node)]
  | (p, n) :: t =>
      if Nat.eqb p pos then (pos, node) :: t
      else if Nat.ltb pos p then (pos, node) :: l
      else (p, n) :: p2n_insert t pos node
  end.
Definition p2n_remove (l : list (nat * nat)) (pos : nat) : list (nat * nat) :=
  filter (fun '(p, _) => negb (Nat.eqb p pos)) l.

(* get_position: assert!(idx < node_to_pos.len()) *)
Definition get_position (om : omap) (idx : nat) : res nat :=
  match nth_error (n2p om) idx with Some p => Ok p | None => Panic end.

Definition at_position (om : omap) (pos : nat) : option nat := assoc_nat (p2n om) pos.

Definition om_add_node (om : omap) (idx bound : nat) : res (nat * omap) :=
  let new_pos := match rev (p2n om) with (p, _) :: _ => S p | [] => 0 end in
  let n2p' := if Nat.leb (length (n2p om)) idx
              then n2p om ++ repeat 0 (bound - length (n2p om)) else n2p om in
  if Nat.ltb idx (length n2p')
  then Ok (new_pos, mkOm (p2n_insert (p2n om) new_pos idx) (upd n2p' idx new_pos))
  else Panic.

Definition om_remove_node (om : omap) (idx : nat) : res omap :=
  rbind (get_position om idx) (fun pos =>
    Ok (mkOm (p2n_remove (p2n om) pos) (upd (n2p om) idx 0))).

Definition om_set_position (om : omap) (idx pos : nat) : res omap :=
  if Nat.ltb idx (length (n2p om))
  then Ok (mkOm (p2n_insert (p2n om) pos idx) (upd (n2p om) idx pos))
  else Panic.

(* OrderMap::try_from_graph: positions 0.. along toposort *)
Definition om_from_topo (order : list nat) (bound : nat) : res omap :=
  fold_left (fun acc '(i, id) =>
      rbind acc (fun om =>
        if Nat.ltb id (length (n2p om))
        then Ok (mkOm (p2n_insert (p2n om) i id) (upd (n2p om) id i)) else Panic))
    (combine (seq 0 (length order)) order) (Ok (mkOm [] (repeat 0 bound))).

(* ---- causal cones (Pearce-Kelly) over the view of the wrapped graph ---- *)
Definition pos_or0 (om : omap) (u : nat) : nat := nth u (n2p om) 0.

Definition discovered_of (evs : list dfs_event) : list nat :=
  flat_map (fun e => match e with EvDiscover u _ => [u] | _ => [] end) evs.

Definition cone_of (om : omap) (evs : list dfs_event) : list (nat * nat) :=
  fold_left (fun acc u => p2n_insert acc (pos_or0 om u) u) (discovered_of evs) [].

(* the scratch bit sets only ever grow: their length after this call *)
Definition grown (blen : nat) (v : view) : nat := Nat.max blen (vbound v).
Definition with_cap (v : view) (n : nat) : view :=
  mkView (vdirected v) (vbound v) (Some n) (vnodes v) (vout v) (vin v) (vecount v) (vebound v) (verefs v).

(* Ok (inl start) = Err(Cycle(start)); Ok (inr (b_fut, a_past)).  v carries the bit-set length as vcap *)
Definition causal_cones (debug : bool) (v : view) (om : omap) (min_node max_node : nat)
  : res (nat + (list (nat * nat) * list (nat * nat))) :=
  (* every node the walk can touch must have a position entry, otherwise get_position asserts *)
  if negb (forallb (fun a => Nat.ltb a (length (n2p om)))
                   (min_node :: max_node :: flat_map (fun a => a :: neighbors v a ++ neighbors_in v a) (vnodes v)))
  then Panic else
  let min_order := pos_or0 om min_node in
  let max_order := pos_or0 om max_node in
  let ctl_f := fun e => match e with
                        | EvTree _ u =>
                            let o := pos_or0 om u in
                            if Nat.ltb o max_order then CContinue
                            else if Nat.eqb o max_order then CBreak else CPrune
                        | _ => CContinue end in
  let ctl_p := fun e => match e with
                        | EvTree _ u => if Nat.ltb (pos_or0 om u) min_order then CPrune else CContinue
                        | _ => CContinue end in
  let fuel := 8 * trav_fuel v in
  rbind (dfs_visitor fuel v ctl_f debug min_node (mkDv [] [] 0 [])) (fun '(brk, s1) =>
    let evs1 := rev (vevs s1) in
    if andb debug (existsb (fun e => match e with EvTree _ u => Nat.ltb (pos_or0 om u) min_order | _ => false end) evs1)
    then Panic    (* debug_assert!(order >= min_position) *)
    else if brk then Ok (inl min_node)
    else
      rbind (dfs_visitor fuel (vreversed v) ctl_p debug max_node (mkDv (vdisc s1) (vfin s1) 0 [])) (fun '(_, s2) =>
        let evs2 := rev (vevs s2) in
        if existsb (fun e => match e with EvTree _ u => Nat.eqb (pos_or0 om u) min_order | _ => false end) evs2
        then Panic   (* unreachable!("checked by future_cone") *)
        else if andb debug (existsb (fun e => match e with EvTree _ u => Nat.ltb max_order (pos_or0 om u) | _ => false end) evs2)
        then Panic   (* debug_assert!(order <= max_position) *)
        else Ok (inr (cone_of om evs1, cone_of om evs2)))).

Fixpoint set_positions (om : omap) (l : list (nat * nat)) : res omap :=
  match l with
  | [] => Ok om
  | (pos, node) :: rest => rbind (om_set_position om node pos) (fun om' => set_positions om' rest)
  end.

(* Ok (inl n, _) = Err(Cycle(n)); the second component is the bit-set length afterwards *)
Definition update_ordering (debug : bool) (v : view) (blen : nat) (om : omap) (a b : nat) : res ((nat + omap) * nat) :=
  rbind (get_position om b) (fun min_order =>
  rbind (get_position om a) (fun max_order =>
    if Nat.leb max_order min_order then Ok (inr om, blen)
    else
      rmap (fun r => (r, grown blen v)) (
      rbind (causal_cones debug (with_cap v (grown blen v)) om b a) (fun r =>
        match r with
        | inl c => Ok (inl c)
        | inr (b_fut, a_past) =>
            let positions := map fst (fold_left (fun acc '(p, n) => p2n_insert acc p n) (b_fut ++ a_past) []) in
            let nodes := map snd a_past ++ map snd b_fut in
            if andb debug (negb (Nat.eqb (length positions) (length b_fut + length a_past))) then Panic
            else rmap inr (set_positions om (combine positions nodes))
        end)))).

Definition is_valid_edge (debug : bool) (v : view) (blen : nat) (om : omap) (a b : nat) : res (bool * nat) :=
  if Nat.eqb a b then Ok (false, blen)
  else rbind (get_position om a) (fun pa =>
       rbind (get_position om b) (fun pb =>
         if Nat.ltb pa pb then Ok (true, blen)
         else rmap (fun r => (match r with inl _ => false | inr _ => true end, grown blen v))
                   (causal_cones debug (with_cap v (grown blen v)) om b a))).
