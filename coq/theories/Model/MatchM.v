(* Executable mirror of src/algo/matching.rs over a view: greedy_matching, maximum_matching (Gabow),
   and the Matching accessors.  Vectors keep the code's sizes; an out-of-range index is a Panic.
   No proofs in this file. *)
From PG Require Import Lib.Io Model.View Model.Traversal.

Definition getp {A} (l : list A) (i : nat) : res A :=
  match nth_error l i with Some x => Ok x | None => Panic end.
Definition setp {A} (l : list A) (i : nat) (x : A) : res (list A) :=
  if Nat.ltb i (length l) then Ok (upd l i x) else Panic.

(* ---------------------------------------------------------------- greedy_matching_inner *)
Record gst := mkGst { g_mate : list (option nat); g_n : nat; g_vis : vmap; g_last : option nat }.

Definition g_visitor (s : gst) (next : nat) : res gst :=
  match g_last s with
  | Some pred =>
      rbind (setp (g_mate s) pred (Some next)) (fun m1 =>
      rbind (setp m1 next (Some pred)) (fun m2 =>
        Ok (mkGst m2 (S (g_n s)) (g_vis s) None)))
  | None => Ok (mkGst (g_mate s) (g_n s) (g_vis s) (Some next))
  end.

Fixpoint first_unvisited (m : vmap) (l : list nat) : option nat :=
  match l with
  | [] => None
  | x :: t => if is_visited m x then first_unvisited m t else Some x
  end.

Fixpoint nb_dfs (fuel : nat) (v : view) (source : nat) (s : gst) : res gst :=
  match fuel with
  | 0 => OutOfFuel
  | S f =>
      rbind (visit v (g_vis s) source) (fun '(fresh, m) =>
        let s1 := mkGst (g_mate s) (g_n s) m (g_last s) in
        if fresh then
          match first_unvisited m (neighbors v source) with
          | None => Ok s1
          | Some target => rbind (g_visitor s1 target) (fun s2 => nb_dfs f v target s2)
          end
        else Ok s1)
  end.

Definition greedy_inner (v : view) : res (list (option nat) * nat) :=
  rmap (fun s => (g_mate s, g_n s))
       (fold_left (fun acc start =>
                     rbind acc (fun s =>
                       nb_dfs (S (S (length (vnodes v)))) v start (mkGst (g_mate s) (g_n s) (g_vis s) (Some start))))
                  (vnodes v) (Ok (mkGst (repeat None (vbound v)) 0 [] None))).

(* ---------------------------------------------------------------- maximum_matching *)
Inductive label := LNone | LStart | LVertex (n : nat) | LEdge (e s t : nat) | LFlag (e : nat).
Definition is_outer (l : label) : bool := match l with LNone | LFlag _ => false | _ => true end.
Definition to_vertex (l : label) : res nat := match l with LVertex x => Ok x | _ => Panic end.
Definition is_flagged (l : label) (e : nat) : bool := match l with LFlag f => Nat.eqb f e | _ => false end.

Record mst := mkMst {
  mate : list (option nat);     (* node_bound + 1 entries: the last one is the dummy *)
  lab : list label;
  fin : list nat;               (* first_inner; usize::MAX is written as an index beyond every vector *)
  vis : vmap;
  queue : list nat;
  nedges : nat
}.

Definition unwrap {A} (o : option A) : res A := match o with Some x => Ok x | None => Panic end.

Section MM.
  Variable v : view.
  Let dummy := vbound v.
  Let fuel0 := 4 * (vbound v + 2).

  (* the visitor handed to find_join *)
  Definition label_visit (s : mst) (x : nat) : res mst :=
    rbind (visit v (vis s) x) (fun '(fresh, m) =>
      Ok (mkMst (mate s) (lab s) (fin s) m (if fresh then queue s ++ [x] else queue s) (nedges s))).

  (* next inner vertex on the path from `inner` towards the start *)
  Definition step_inner (s : mst) (inner : nat) : res nat :=
    rbind (getp (mate s) inner) (fun m =>
    rbind (unwrap m) (fun inner_mate =>
    rbind (getp (lab s) inner_mate) (fun l =>
    rbind (to_vertex l) (fun next_inner => getp (fin s) next_inner)))).

  Fixpoint join_loop (fuel : nat) (s : mst) (e lft rgt : nat) : res (nat * mst) :=
    match fuel with
    | 0 => OutOfFuel
    | S f =>
        let '(lft, rgt) := if Nat.eqb rgt dummy then (lft, rgt) else (rgt, lft) in
        rbind (step_inner s lft) (fun lft' =>
        rbind (getp (lab s) lft') (fun l =>
          if is_flagged l e then Ok (lft', s)
          else rbind (setp (lab s) lft' (LFlag e)) (fun lab' =>
                 join_loop f (mkMst (mate s) lab' (fin s) (vis s) (queue s) (nedges s)) e lft' rgt)))
    end.

  Fixpoint relabel (fuel : nat) (s : mst) (e es et join inner : nat) : res mst :=
    match fuel with
    | 0 => OutOfFuel
    | S f =>
        if Nat.eqb inner join then Ok s
        else
          rbind (if Nat.eqb inner dummy then Ok s else label_visit s inner) (fun s1 =>
          rbind (setp (lab s1) inner (LEdge e es et)) (fun lab' =>
          rbind (setp (fin s1) inner join) (fun fin' =>
            let s2 := mkMst (mate s1) lab' fin' (vis s1) (queue s1) (nedges s1) in
            rbind (step_inner s2 inner) (fun inner' => relabel f s2 e es et join inner'))))
    end.

  (* the closing loop over all labels: outer vertices whose first inner vertex became outer now point at the join *)
  Fixpoint refresh (labs : list label) (s : mst) (idx join : nat) (acc : list nat) : res (list nat) :=
    match labs with
    | [] => Ok (rev acc)
    | l :: rest =>
        rbind (getp (fin s) idx) (fun cur =>
          if andb (negb (Nat.eqb idx dummy)) (is_outer l)
          then rbind (getp (lab s) cur) (fun l2 =>
                 refresh rest s (S idx) join ((if is_outer l2 then join else cur) :: acc))
          else refresh rest s (S idx) join (cur :: acc))
    end.

  Definition find_join (s : mst) (e es et : nat) : res mst :=
    rbind (getp (fin s) es) (fun lft =>
    rbind (getp (fin s) et) (fun rgt =>
      if Nat.eqb lft rgt then Ok s
      else
        rbind (setp (lab s) lft (LFlag e)) (fun lab1 =>
        rbind (setp lab1 rgt (LFlag e)) (fun lab2 =>
        rbind (join_loop fuel0 (mkMst (mate s) lab2 (fin s) (vis s) (queue s) (nedges s)) e lft rgt) (fun '(join, s1) =>
        rbind (getp (fin s1) es) (fun i1 =>
        rbind (relabel fuel0 s1 e es et join i1) (fun s2 =>
        rbind (getp (fin s2) et) (fun i2 =>
        rbind (relabel fuel0 s2 e es et join i2) (fun s3 =>
        rmap (fun fin' => mkMst (mate s3) (lab s3) fin' (vis s3) (queue s3) (nedges s3))
             (refresh (lab s3) s3 0 join [])))))))))).

  Fixpoint augment_path (fuel : nat) (labs : list label) (m : list (option nat)) (outer other : nat)
    : res (list (option nat)) :=
    match fuel with
    | 0 => OutOfFuel
    | S f =>
        rbind (getp m outer) (fun temp =>
          let temp_idx := match temp with Some i => i | None => dummy end in
          rbind (setp m outer (Some other)) (fun m1 =>
          rbind (getp m1 temp_idx) (fun back =>
            if negb (match back with Some x => Nat.eqb x outer | None => false end) then Ok m1
            else
              rbind (getp labs outer) (fun l =>
                match l with
                | LVertex vertex =>
                    rbind (setp m1 temp_idx (Some vertex)) (fun m2 =>
                      match temp with
                      | Some t => augment_path f labs m2 vertex t
                      | None => Ok m2
                      end)
                | LEdge _ s t =>
                    rbind (augment_path f labs m1 s t) (fun m2 => augment_path f labs m2 t s)
                | _ => Panic
                end))))
    end.

  (* one edge of the scan of an outer vertex; true = an augmenting path was found (break 'search) *)
  Definition scan_edge (start outer : nat) (s : mst) (e : eref) : res (bool * mst) :=
    let other := tgt e in
    if Nat.eqb other outer then Ok (false, s)
    else
      rbind (getp (mate s) other) (fun mo =>
        if andb (match mo with None => true | Some _ => false end) (negb (Nat.eqb other start))
        then
          rbind (setp (mate s) other (Some outer)) (fun m1 =>
          rbind (augment_path (S (S (4 * fuel0))) (lab s) m1 outer other) (fun m2 =>
            Ok (true, mkMst m2 (lab s) (fin s) (vis s) (queue s) (S (nedges s)))))
        else
          rbind (getp (lab s) other) (fun lo =>
            if is_outer lo then rmap (fun s' => (false, s')) (find_join s (eid e) outer other)
            else
              let mate_idx := match mo with Some i => i | None => dummy end in
              rbind (getp (lab s) mate_idx) (fun lm =>
              rbind (if is_outer lm then Ok s
                     else rbind (setp (lab s) mate_idx (LVertex outer)) (fun lab' =>
                          rbind (setp (fin s) mate_idx other) (fun fin' =>
                            Ok (mkMst (mate s) lab' fin' (vis s) (queue s) (nedges s))))) (fun s1 =>
                match mo with
                | Some mv => rmap (fun s2 => (false, s2)) (label_visit s1 mv)
                | None => Ok (false, s1)
                end)))).

  Fixpoint scan_edges (start outer : nat) (s : mst) (es : list eref) : res (bool * mst) :=
    match es with
    | [] => Ok (false, s)
    | e :: rest =>
        rbind (scan_edge start outer s e) (fun '(found, s1) =>
          if found then Ok (true, s1) else scan_edges start outer s1 rest)
    end.

  Fixpoint search (fuel : nat) (start : nat) (s : mst) : res mst :=
    match fuel with
    | 0 => OutOfFuel
    | S f =>
        match queue s with
        | [] => Ok s
        | outer :: q =>
            rbind (scan_edges start outer (mkMst (mate s) (lab s) (fin s) (vis s) q (nedges s)) (out_edges v outer))
                  (fun '(found, s1) => if found then Ok s1 else search f start s1)
        end
    end.

  Definition try_start (s : mst) (start : nat) : res mst :=
    rbind (getp (mate s) start) (fun m =>
      match m with
      | Some _ => Ok s
      | None =>
          rbind (setp (lab s) start LStart) (fun lab1 =>
          rbind (setp (fin s) start dummy) (fun fin1 =>
          rbind (visit v [] start) (fun '(_, vis1) =>
          rbind (search (S (S (vbound v))) start (mkMst (mate s) lab1 fin1 vis1 [start] (nedges s))) (fun s1 =>
            Ok (mkMst (mate s1) (repeat LNone (S (vbound v))) (fin s1) (vis s1) [] (nedges s1))))))
      end).

  Definition maximum_matching (debug : bool) : res (list (option nat) * nat) :=
    rbind (greedy_inner v) (fun '(m0, n0) =>
      let len := S (vbound v) in
      let m1 := m0 ++ [None] in
      if andb debug (negb (Nat.eqb (length m1) len)) then Panic
      else
        rmap (fun s => (removelast (mate s), nedges s))
             (fold_left (fun acc start => rbind acc (fun s => try_start s start))
                        (seq 0 (vbound v))
                        (Ok (mkMst m1 (repeat LNone len) (repeat (len + 1) len) [] [] n0)))).
End MM.

(* ---------------------------------------------------------------- Matching accessors *)
Definition m_mate (m : list (option nat)) (x : nat) : option nat :=
  match nth_error m x with Some o => o | None => None end.
Definition m_edges (m : list (option nat)) : list (nat * nat) :=
  flat_map (fun '(i, o) => match o with Some j => if Nat.ltb i j then [(i, j)] else [] | None => [] end)
           (combine (seq 0 (length m)) m).
Definition m_nodes (m : list (option nat)) : list nat :=
  flat_map (fun '(i, o) => match o with Some _ => [i] | None => [] end) (combine (seq 0 (length m)) m).
Definition m_is_perfect (v : view) (n : nat) : bool :=
  andb (Nat.eqb (Nat.modulo (length (vnodes v)) 2) 0) (Nat.eqb n (Nat.div (length (vnodes v)) 2)).

Definition TAG_PANIC := 2. Definition TAG_FUEL := 10. Definition TAG_NAT := 11. Definition TAG_ROW := 6.
Definition TAG_PAIRS := 64. Definition TAG_NODES := 16. Definition TAG_BOOL := 0.

Definition zo (o : option nat) : Z := match o with Some x => zn x | None => (-1)%Z end.

Definition matching_lines (v : view) (r : res (list (option nat) * nat)) : list line :=
  match r with
  | Ok (m, n) =>
      [(TAG_NAT, [zn n]); (TAG_ROW, map zo m);
       (TAG_PAIRS, flat_map (fun '(a, b) => [zn a; zn b]) (m_edges m));
       (TAG_NODES, zns (m_nodes m));
       (TAG_BOOL, [zb (m_is_perfect v n)])]
  | Panic => [(TAG_PANIC, [])]
  | OutOfFuel => [(TAG_FUEL, [])]
  end.

(* opcodes: 50 greedy_matching | 51 maximum_matching *)
Definition match_query (debug : bool) (v : view) (o : line) : list line :=
  match fst o with
  | 50 => matching_lines v (greedy_inner v)
  | 51 => matching_lines v (maximum_matching v debug)
  | _ => [(TAG_PANIC, [])]
  end.
