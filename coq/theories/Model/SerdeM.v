(* The wire value that the serde derives of Graph / StableGraph produce and accept
   (src/graph_impl/serialization.rs, src/graph_impl/stable_graph/serialization.rs), and the
   two from_deserialized functions, on top of the Graph and StableGraph models.
   Byte-level codecs (serde_json, bincode) are not modelled.  No proofs in this file. *)
From PG Require Import Lib.Io Model.GraphM Model.StableM.

Record wire := mkWire {
  w_nodes : list nat;                          (* node weights, compact *)
  w_holes : list nat;                          (* node_holes *)
  w_directed : bool;                           (* edge_property *)
  w_edges : list (option (nat * nat * nat))    (* Some (source, target, weight) | None *)
}.

Section SD.
  Variable cap : nat.
  Variable capcheck : bool.
  Variable debug : bool.

  (* ---- Graph ---- *)
  Definition ser_graph (directed : bool) (g : graph nat nat) : wire :=
    mkWire (map (@nwt nat) (gnodes g)) [] directed
           (map (fun e => Some (fst (enode e), snd (enode e), ewt e)) (gedges g)).

  (* length checks: `len >= max` is rejected, although add_node/add_edge allow exactly max elements
     (known finding C17-full-graph-not-reloadable; the repository's own test from_json_edges_too_big
     pins this behaviour, so it is not repaired) *)
  Definition too_long (len : nat) : bool := andb capcheck (Nat.leb cap len).

  Fixpoint link_graph_edges (g : graph nat nat) (es : list (option (nat * nat * nat))) : option (graph nat nat) :=
    match es with
    | [] => Some g
    | None :: _ => None
    | Some (s, t, w) :: rest =>
        (* Graph::link_edges links edge i exactly like try_add_edge does *)
        match try_add_edge cap false g s t w with
        | (inr _, g') => link_graph_edges g' rest
        | (inl _, _) => None
        end
    end.

  (* None = Err *)
  Definition deser_graph (directed : bool) (w : wire) : option (graph nat nat) :=
    match w_holes w with
    | _ :: _ => None
    | [] =>
        if existsb (fun e => match e with None => true | Some _ => false end) (w_edges w) then None
        else if negb (Bool.eqb (w_directed w) directed) then None
        else if orb (too_long (length (w_nodes w))) (too_long (length (w_edges w))) then None
        else link_graph_edges (mkGraph (map (fun x => mkNode x (cap, cap)) (w_nodes w)) []) (w_edges w)
    end.

  (* ---- StableGraph ---- *)
  Definition ser_stable (directed : bool) (s : sgraph) : wire :=
    let ns := firstn (node_bound s) (gnodes (sg s)) in
    let es := firstn (edge_bound s) (gedges (sg s)) in
    mkWire (flat_map (fun n => match nwt n with Some w => [w] | None => [] end) ns)
           (flat_map (fun '(i, n) => match nwt n with None => [i] | Some _ => [] end) (combine (seq 0 (length ns)) ns))
           directed
           (map (fun e => match ewt e with Some w => Some (fst (enode e), snd (enode e), w) | None => None end) es).

  (* the hole interleaving loop; None = Err.  A hole list that outruns the compact nodes is an error
     (after the fix in /repo; it used to be a debug_assert) *)
  Fixpoint interleave (holes : list nat) (compact : list nat) (node_pos total : nat) (acc : list (option nat))
    : option (list (option nat)) :=
    match holes with
    | [] => Some (acc ++ map Some compact)
    | h :: rest =>
        if negb (andb (Nat.leb node_pos h) (Nat.ltb h total)) then None
        else
          let k := h - node_pos in
          let taken := firstn k compact in
          if negb (Nat.eqb (length taken) k) then None
          else interleave rest (skipn k compact) (S h) total (acc ++ map Some taken ++ [None])
    end.

  (* StableGraph::link_edges: free lists in index order, live edges linked like try_add_edge;
     an edge that names a vacant or out-of-range node is an error (after the fix in /repo) *)
  Fixpoint link_free_nodes (ns : list inode) (i : nat) (free : nat) (g : IG) : res (IG * nat * nat) :=
    (* returns (graph, free_node, node_count) *)
    match ns with
    | [] => Ok (g, free, 0)
    | n :: rest =>
        match nwt n with
        | Some _ => rmap (fun '(g', f', c) => (g', f', S c)) (link_free_nodes rest (S i) free g)
        | None =>
            rbind (upd_node g i (fun n => set_nnext n (free, cap))) (fun g1 =>
            rbind (if Nat.eqb free cap then Ok g1
                   else upd_node g1 free (fun n => set_nnext n (fst (nnext n), i))) (fun g2 =>
              link_free_nodes rest (S i) i g2))
        end
    end.

  Fixpoint link_stable_edges (es : list iedge) (i : nat) (s : sgraph) : res (option sgraph) :=
    match es with
    | [] => Ok (Some s)
    | e :: rest =>
        match ewt e with
        | None =>
            rbind (upd_edge (sg s) i (fun e => set_enext e (free_edge s, cap))) (fun g1 =>
              link_stable_edges rest (S i) (mkSG g1 (ncount s) (ecount s) (free_node s) i))
        | Some _ =>
            let a := fst (enode e) in
            let b := snd (enode e) in
            match wrong_index (sg s) a b with
            | Some _ => Ok None
            | None =>
                rbind (link_edge (sg s) i a b) (fun g1 =>
                  link_stable_edges rest (S i) (mkSG g1 (ncount s) (S (ecount s)) (free_node s) (free_edge s)))
            end
        end
    end.

  Definition deser_stable (directed : bool) (w : wire) : res (option sgraph) :=
    if negb (Bool.eqb (w_directed w) directed) then Ok None
    else if too_long (length (w_edges w)) then Ok None
    else
      let total := length (w_nodes w) + length (w_holes w) in
      match interleave (w_holes w) (w_nodes w) 0 total [] with
      | None => Ok None
      | Some slots =>
          if too_long (length slots) then Ok None
          else
            let nodes := map (fun o => mkNode o (cap, cap)) slots in
            let edges := map (fun o => match o with
                                       | Some (s, t, w) => mkEdge (Some w) (cap, cap) (s, t)
                                       | None => mkEdge None (cap, cap) (cap, cap) end) (w_edges w) in
            let g0 := mkGraph nodes edges in
            rbind (link_free_nodes nodes 0 cap g0) (fun '(g1, fn, nc) =>
              link_stable_edges edges 0 (mkSG g1 nc 0 fn cap))
      end.

  (* ---- wire <-> numbers: [n_nodes; w..; n_holes; h..; directed; n_edges; (flag s t w)*] ---- *)
  Definition wire_nums (w : wire) : list Z :=
    zn (length (w_nodes w)) :: zns (w_nodes w) ++
    zn (length (w_holes w)) :: zns (w_holes w) ++
    zb (w_directed w) :: zn (length (w_edges w)) ::
    flat_map (fun e => match e with
                       | Some (s, t, x) => [1%Z; zn s; zn t; zn x]
                       | None => [0%Z; 0%Z; 0%Z; 0%Z] end) (w_edges w).

  Fixpoint edges_of_nums (k : nat) (l : list Z) : list (option (nat * nat * nat)) :=
    match k, l with
    | S k', f :: s :: t :: x :: rest =>
        (if Z.eqb f 1 then Some (nz s, nz t, nz x) else None) :: edges_of_nums k' rest
    | _, _ => []
    end.

  Definition wire_of_nums (l : list Z) : wire :=
    let nn := arg l 0 in
    let l1 := skipn 1 l in
    let nodes := map nz (firstn nn l1) in
    let l2 := skipn nn l1 in
    let nh := arg l2 0 in
    let holes := map nz (firstn nh (skipn 1 l2)) in
    let l3 := skipn (S nh) l2 in
    mkWire nodes holes (Z.eqb (argz l3 0) 1) (edges_of_nums (arg l3 1) (skipn 2 l3)).
End SD.
