(* Executable mirrors of the basic algorithms of /repo/src/algo/mod.rs over a view:
   connected_components, is_cyclic_undirected, toposort, is_cyclic_directed,
   has_path_connecting, kosaraju_scc, TarjanScc, is_bipartite_undirected.  No proofs here. *)
From Coq Require Import NArith.
From PG Require Import Lib.Io Model.View Model.Traversal Model.UnionFindM.

(* ------------------------------------------------------------------ union-find based *)
(* vertex_sets.union(a, b): panics when an index is out of range *)
Fixpoint uf_fold (u : uf) (es : list (nat * nat * nat * Z)) : res uf :=
  match es with
  | [] => Ok u
  | (_, a, b, _) :: rest =>
      match union u a b with
      | (Ok _, u') => uf_fold u' rest
      | (Panic, _) => Panic
      | (OutOfFuel, _) => OutOfFuel
      end
  end.

Fixpoint dedup_count (l : list nat) (seen : list nat) : nat :=
  match l with
  | [] => length seen
  | x :: t => if mem x seen then dedup_count t seen else dedup_count t (x :: seen)
  end.

Definition connected_components (v : view) : res nat :=
  rbind (uf_fold (uf_new (vbound v)) (verefs v)) (fun u =>
  rmap (fun labels => dedup_count labels []) (into_labeling u)).

Fixpoint cyc_fold (u : uf) (es : list (nat * nat * nat * Z)) : res bool :=
  match es with
  | [] => Ok false
  | (_, a, b, _) :: rest =>
      match union u a b with
      | (Ok true, u') => cyc_fold u' rest
      | (Ok false, _) => Ok true
      | (Panic, _) => Panic
      | (OutOfFuel, _) => OutOfFuel
      end
  end.

Definition is_cyclic_undirected (v : view) : res bool := cyc_fold (uf_new (vbound v)) (verefs v).

(* ------------------------------------------------------------------ toposort *)
(* first pass: iterative post-order with the self-loop test; Ok (inl n) = Err(Cycle(n)) *)
Fixpoint push_succs (nx : nat) (succs : list nat) (disc : vmap) (stack : list nat) : (option nat) * list nat :=
  match succs with
  | [] => (None, stack)
  | s :: rest =>
      if Nat.eqb s nx then (Some nx, stack)
      else push_succs nx rest disc (if is_visited disc s then stack else s :: stack)
  end.

Fixpoint topo_pass1_inner (fuel : nat) (v : view) (stack : list nat) (disc fin : vmap) (finish : list nat)
  : res (option nat * (list nat * vmap * vmap * list nat)) :=
  match fuel with
  | 0 => OutOfFuel
  | S f =>
      match stack with
      | [] => Ok (None, (stack, disc, fin, finish))
      | nx :: rest =>
          rbind (visit v disc nx) (fun '(fresh, disc') =>
            if fresh then
              match push_succs nx (neighbors v nx) disc' stack with
              | (Some c, st') => Ok (Some c, (st', disc', fin, finish))
              | (None, st') => topo_pass1_inner f v st' disc' fin finish
              end
            else
              rbind (visit v fin nx) (fun '(first, fin') =>
                topo_pass1_inner f v rest disc' fin' (if first then finish ++ [nx] else finish)))
      end
  end.

Fixpoint topo_pass1 (v : view) (ids : list nat) (stack : list nat) (disc fin : vmap) (finish : list nat)
  : res (option nat * list nat) :=
  match ids with
  | [] => Ok (None, finish)
  | i :: rest =>
      if is_visited disc i then topo_pass1 v rest stack disc fin finish
      else
        rbind (topo_pass1_inner (4 * trav_fuel v) v (i :: stack) disc fin finish) (fun '(c, (st, d, fi, fs)) =>
          match c with
          | Some n => Ok (Some n, fs)
          | None => topo_pass1 v rest st d fi fs
          end)
  end.

(* Reversed(g) as a view: swap the lists *)
Definition vreversed (v : view) : view :=
  mkView (vdirected v) (vbound v) (vcap v) (vnodes v) (vin v) (vout v) (vecount v) (vebound v)
         (map (fun '(e, s, t, w) => (e, t, s, w)) (verefs v)).

(* second pass: from each node of the order, a reverse Dfs over undiscovered nodes must find only that node *)
Fixpoint topo_pass2 (v : view) (order : list nat) (d : dfs) : res (option nat) :=
  match order with
  | [] => Ok None
  | i :: rest =>
      let d0 := dfs_move_to d i in
      rbind (dfs_next (trav_fuel v) (vreversed v) d0) (fun '(o1, d1) =>
        match o1 with
        | None => topo_pass2 v rest d1
        | Some _ =>
            rbind (dfs_next (trav_fuel v) (vreversed v) d1) (fun '(o2, d2) =>
              match o2 with
              | Some j => Ok (Some j)
              | None => topo_pass2 v rest d2
              end)
        end)
  end.

(* toposort: inl n = Err(Cycle(n)), inr l = Ok(l).  space = a Dfs left over from an earlier use
   (DfsSpace): it is reset first, so its contents are irrelevant. *)
Definition toposort (v : view) : res (nat + list nat) :=
  rbind (topo_pass1 v (vnodes v) [] [] [] []) (fun '(c, finish) =>
    match c with
    | Some n => Ok (inl n)
    | None =>
        let order := rev finish in
        rmap (fun o => match o with Some j => inl j | None => inr order end)
             (topo_pass2 v order dfs_empty)
    end).

(* ------------------------------------------------------------------ is_cyclic_directed / has_path *)
Definition is_cyclic_directed (v : view) (debug : bool) : res bool :=
  rmap fst (depth_first_search v (fun e => match e with EvBack _ _ => CBreak | _ => CContinue end)
                               debug (vnodes v)).

Fixpoint dfs_any (fuel : nat) (v : view) (d : dfs) (target : nat) : res bool :=
  match fuel with
  | 0 => OutOfFuel
  | S f =>
      rbind (dfs_next (trav_fuel v) v d) (fun '(o, d') =>
        match o with
        | None => Ok false
        | Some x => if Nat.eqb x target then Ok true else dfs_any f v d' target
        end)
  end.

Definition has_path_connecting (v : view) (from to : nat) : res bool :=
  dfs_any (4 * trav_fuel v) v (dfs_move_to dfs_empty from) to.

(* ------------------------------------------------------------------ kosaraju_scc *)
Fixpoint kos_pass1 (v : view) (ids : list nat) (d : dpo) (order : list nat) : res (list nat) :=
  match ids with
  | [] => Ok order
  | i :: rest =>
      if is_visited (pdisc d) i then kos_pass1 v rest d order
      else
        rbind (dpo_drain (4 * trav_fuel v) (vreversed v) (mkDpo [i] (pdisc d) (pfin d))) (fun '(l, d') =>
          kos_pass1 v rest d' (order ++ l))
  end.

Fixpoint kos_pass2 (v : view) (order : list nat) (d : dfs) (sccs : list (list nat)) : res (list (list nat)) :=
  match order with
  | [] => Ok sccs
  | i :: rest =>
      if is_visited (ddisc d) i then kos_pass2 v rest d sccs
      else
        rbind (dfs_drain (4 * trav_fuel v) v (dfs_move_to d i)) (fun '(l, d') =>
          kos_pass2 v rest d' (sccs ++ [l]))
  end.

Definition kosaraju_scc (v : view) : res (list (list nat)) :=
  rbind (kos_pass1 v (vnodes v) (mkDpo [] [] []) []) (fun order =>
    kos_pass2 v (rev order) dfs_empty []).

(* ------------------------------------------------------------------ TarjanScc (Pearce's variant) *)
(* rootindex : Option<NonZeroUsize> as option N; componentcount counts down from usize::MAX *)
Definition USIZE_MAX : N := 18446744073709551615%N.

Record tarjan := mkTj {
  tindex : N;
  tcc : N;
  tnodes : list (option N);      (* sized node_bound *)
  tstack : list nat              (* head = top *)
}.

Definition tj_get (t : tarjan) (x : nat) : res (option N) :=
  match nth_error (tnodes t) x with Some r => Ok r | None => Panic end.
Definition tj_set (t : tarjan) (x : nat) (r : option N) : res tarjan :=
  match nth_error (tnodes t) x with
  | Some _ => Ok (mkTj (tindex t) (tcc t) (upd (tnodes t) x r) (tstack t))
  | None => Panic
  end.

(* Option<NonZeroUsize> ordering: None < Some _ *)
Definition opt_lt (a b : option N) : bool :=
  match a, b with
  | None, Some _ => true
  | Some x, Some y => N.ltb x y
  | _, _ => false
  end.

(* the rposition loop over the stack, from the top: nodes whose rootindex is not smaller than v's are
   assigned the component; stops at the first one with a smaller rootindex *)
Fixpoint tj_pop_component (t : tarjan) (vroot : option N) (c : option N) (stack : list nat) (adj : N) (comp : list nat)
  : res (tarjan * list nat * N * list nat) :=
  match stack with
  | [] => Ok (t, [], adj, comp)
  | w :: rest =>
      rbind (tj_get t w) (fun rw =>
        if opt_lt rw vroot then Ok (t, stack, adj, comp)
        else rbind (tj_set t w c) (fun t' => tj_pop_component t' vroot c rest (N.succ adj) (w :: comp)))
  end.

Fixpoint tj_visit (fuel : nat) (v : view) (debug : bool) (t : tarjan) (x : nat) (out : list (list nat))
  : res (tarjan * list (list nat)) :=
  match fuel with
  | 0 => OutOfFuel
  | S f =>
      rbind (tj_get t x) (fun r0 =>
      if andb debug (match r0 with Some _ => true | None => false end) then Panic else
      let vidx := tindex t in
      rbind (tj_set t x (Some vidx)) (fun t0 =>
      let t1 := mkTj (N.succ vidx) (tcc t0) (tnodes t0) (tstack t0) in
      rbind (tj_neighbors f v debug t1 x (neighbors v x) true out) (fun '(t2, is_root, out2) =>
        if is_root then
          let c := Some (tcc t2) in
          rbind (tj_get t2 x) (fun rv =>
          rbind (tj_pop_component t2 rv c (tstack t2) 1%N []) (fun '(t3, rest, adj, comp) =>
          rbind (tj_set t3 x c) (fun t4 =>
            (* f(&stack[start..]) sees the popped nodes in stack order (bottom to top) followed by v *)
            Ok (mkTj (tindex t4 - adj)%N (tcc t4 - 1)%N (tnodes t4) rest, out2 ++ [comp ++ [x]]))))
        else
          Ok (mkTj (tindex t2) (tcc t2) (tnodes t2) (x :: tstack t2), out2))))
  end
with tj_neighbors (fuel : nat) (v : view) (debug : bool) (t : tarjan) (x : nat) (ws : list nat) (is_root : bool)
                  (out : list (list nat)) : res (tarjan * bool * list (list nat)) :=
  match fuel with
  | 0 => OutOfFuel
  | S f =>
      match ws with
      | [] => Ok (t, is_root, out)
      | w :: rest =>
          rbind (tj_get t w) (fun rw =>
          rbind (match rw with
                 | None => tj_visit f v debug t w out
                 | Some _ => Ok (t, out)
                 end) (fun '(t1, out1) =>
          rbind (tj_get t1 w) (fun rw1 =>
          rbind (tj_get t1 x) (fun rx1 =>
            if opt_lt rw1 rx1
            then rbind (tj_set t1 x rw1) (fun t2 => tj_neighbors f v debug t2 x rest false out1)
            else tj_neighbors f v debug t1 x rest is_root out1))))
      end
  end.

Fixpoint tj_run_loop (v : view) (debug : bool) (ids : list nat) (t : tarjan) (out : list (list nat))
  : res (tarjan * list (list nat)) :=
  match ids with
  | [] => Ok (t, out)
  | n :: rest =>
      rbind (tj_get t n) (fun r =>
        match r with
        | Some _ => tj_run_loop v debug rest t out
        | None => rbind (tj_visit (4 * trav_fuel v) v debug t n out) (fun '(t', out') =>
                    tj_run_loop v debug rest t' out')
        end)
  end.

Definition tarjan_run (v : view) (debug : bool) : res (tarjan * list (list nat)) :=
  rbind (tj_run_loop v debug (vnodes v) (mkTj 1%N USIZE_MAX (repeat None (vbound v)) []) []) (fun '(t, out) =>
    if andb debug (match tstack t with [] => false | _ => true end) then Panic else Ok (t, out)).

Definition tarjan_scc (v : view) (debug : bool) : res (list (list nat)) := rmap snd (tarjan_run v debug).

(* node_component_index = usize::MAX - rootindex *)
Definition node_component_index (t : tarjan) (debug : bool) (x : nat) : res N :=
  rbind (tj_get t x) (fun r =>
    let rindex := match r with Some k => k | None => 0%N end in
    if andb debug (orb (N.eqb rindex 0) (negb (N.ltb (tcc t) rindex))) then Panic
    else Ok (USIZE_MAX - rindex)%N).

(* ------------------------------------------------------------------ is_bipartite_undirected *)
Fixpoint bip_neighbors (v : view) (is_red : bool) (ns : list nat) (red blue : vmap) (q : list nat)
  : res (option (vmap * vmap * list nat)) :=
  (* None = return false *)
  match ns with
  | [] => Ok (Some (red, blue, q))
  | nb :: rest =>
      let nr := is_visited red nb in
      let nbl := is_visited blue nb in
      if orb (andb is_red nr) (andb (negb is_red) nbl) then Ok None
      else if andb (negb nr) (negb nbl) then
        if is_red
        then rbind (visit v blue nb) (fun '(_, blue') => bip_neighbors v is_red rest red blue' (q ++ [nb]))
        else rbind (visit v red nb) (fun '(_, red') => bip_neighbors v is_red rest red' blue (q ++ [nb]))
      else bip_neighbors v is_red rest red blue q
  end.

Fixpoint bip_loop (fuel : nat) (v : view) (red blue : vmap) (q : list nat) : res bool :=
  match fuel with
  | 0 => OutOfFuel
  | S f =>
      match q with
      | [] => Ok true
      | node :: rest =>
          let is_red := is_visited red node in
          let is_blue := is_visited blue node in
          if negb (xorb is_red is_blue) then Panic     (* assert!(is_red ^ is_blue) *)
          else rbind (bip_neighbors v is_red (neighbors v node) red blue rest) (fun o =>
                 match o with
                 | None => Ok false
                 | Some (r', b', q') => bip_loop f v r' b' q'
                 end)
      end
  end.

Definition is_bipartite_undirected (v : view) (start : nat) : res bool :=
  rbind (visit v [] start) (fun '(_, red) => bip_loop (4 * trav_fuel v) v red [] [start]).

(* ------------------------------------------------------------------ line grammar *)
Definition TAG_BOOL := 0.  Definition TAG_PANIC := 2.  Definition TAG_FUEL := 10. Definition TAG_NAT := 11.
Definition TAG_SEQ := 41.  Definition TAG_CYCLE := 43. Definition TAG_COMP := 44. Definition TAG_CIDX := 45.

Definition rline {A} (f : A -> line) (r : res A) : line :=
  match r with Ok a => f a | Panic => (TAG_PANIC, []) | OutOfFuel => (TAG_FUEL, []) end.
Definition rlines {A} (f : A -> list line) (r : res A) : list line :=
  match r with Ok a => f a | Panic => [(TAG_PANIC, [])] | OutOfFuel => [(TAG_FUEL, [])] end.

Definition comp_lines (l : list (list nat)) : list line :=
  (TAG_NAT, [zn (length l)]) :: map (fun c => (TAG_COMP, zns c)) l.

(* query opcodes: 20 connected_components | 21 is_cyclic_undirected | 22 toposort | 23 toposort twice with one DfsSpace
   24 is_cyclic_directed | 25 has_path_connecting a b | 26 kosaraju_scc | 27 tarjan_scc (+ node_component_index of every node)
   28 is_bipartite_undirected s *)
Definition algo_query (debug : bool) (v : view) (o : line) : list line :=
  let '(code, a) := o in
  let topo_line := rline (fun r => match r with inl n => (TAG_CYCLE, [zn n]) | inr l => (TAG_SEQ, zns l) end) (toposort v) in
  match code with
  | 20 => [rline (fun n => (TAG_NAT, [zn n])) (connected_components v)]
  | 21 => [rline (fun b => (TAG_BOOL, [zb b])) (is_cyclic_undirected v)]
  | 22 => [topo_line]
  | 23 => [topo_line; topo_line]
  | 24 => [rline (fun b => (TAG_BOOL, [zb b])) (is_cyclic_directed v debug)]
  | 25 => [rline (fun b => (TAG_BOOL, [zb b])) (has_path_connecting v (arg a 0) (arg a 1))]
  | 26 => rlines comp_lines (kosaraju_scc v)
  | 27 => rlines (fun '(t, out) =>
                    comp_lines out ++
                    [rline (fun l => (TAG_CIDX, l))
                       (fold_right (fun x acc => rbind (node_component_index t debug x) (fun k =>
                                                 rmap (fun tl => zn x :: Z.of_N k :: tl) acc)) (Ok []) (vnodes v))])
                 (tarjan_run v debug)
  | 28 => [rline (fun b => (TAG_BOOL, [zb b])) (is_bipartite_undirected v (arg a 0))]
  | _ => [(TAG_PANIC, [])]
  end.

Fixpoint run (debug : bool) (v : view) (ops : list line) : list (list line) :=
  match ops with
  | [] => []
  | o :: rest =>
      if Nat.ltb (fst o) 10 then [] :: run debug (view_add v o) rest
      else if Nat.ltb (fst o) 20 then trav_query debug v o :: run debug v rest
      else algo_query debug v o :: run debug v rest
  end.

Definition run_case (header : list Z) (ops : list line) : list (list line) :=
  run (Z.eqb (argz header 5) 1) (view_init header) ops.
