(* Executable mirror of /repo/src/adj.rs (adj::List).  No proofs in this file. *)
From PG Require Import Lib.Io.

(* suc : Vec<Vec<WSuc>>, WSuc = (suc, weight) *)
Definition alist := list (list (nat * nat)).

Definition al_new : alist := [].
Definition al_node_count (g : alist) : nat := length g.
Definition al_edge_count (g : alist) : nat := fold_left (fun acc r => acc + length r) g 0.

Definition al_add_node (g : alist) : nat * alist := (length g, g ++ [[]]).

(* add_node_from_edges: no check of the successors at all *)
Definition al_add_node_from_edges (g : alist) (es : list (nat * nat)) : nat * alist :=
  (length g, g ++ [es]).

(* add_edge: explicit panic when b is out of range, index panic when a is *)
Definition al_add_edge (g : alist) (a b w : nat) : res ((nat * nat) * alist) :=
  if Nat.leb (length g) b then Panic
  else match nth_error g a with
       | None => Panic
       | Some r => Ok ((a, length r), upd g a (r ++ [(b, w)]))
       end.

Fixpoint find_suc (r : list (nat * nat)) (b i : nat) : option nat :=
  match r with
  | [] => None
  | (s, _) :: t => if Nat.eqb s b then Some i else find_suc t b (S i)
  end.

(* Build::update_edge: same explicit check of b as add_edge, then self.suc[a] *)
Definition al_update_edge (g : alist) (a b w : nat) : res ((nat * nat) * alist) :=
  if Nat.leb (length g) b then Panic else
  match nth_error g a with
  | None => Panic
  | Some r =>
      match find_suc r b 0 with
      | Some i => Ok ((a, i), upd g a (upd r i (b, w)))
      | None => Ok ((a, length r), upd g a (r ++ [(b, w)]))
      end
  end.

Definition al_get_edge (g : alist) (e : nat * nat) : option (nat * nat) :=
  match nth_error g (fst e) with
  | None => None
  | Some r => nth_error r (snd e)
  end.

Definition al_edge_endpoints (g : alist) (e : nat * nat) : option (nat * nat) :=
  option_map (fun x => (fst e, fst x)) (al_get_edge g e).
Definition al_edge_weight (g : alist) (e : nat * nat) : option nat :=
  option_map snd (al_get_edge g e).

(* edge_weight_mut(e).map(|w| *w = v) *)
Definition al_set_edge_weight (g : alist) (e : nat * nat) (v : nat) : bool * alist :=
  match nth_error g (fst e) with
  | None => (false, g)
  | Some r =>
      match nth_error r (snd e) with
      | None => (false, g)
      | Some (s, _) => (true, upd g (fst e) (upd r (snd e) (s, v)))
      end
  end.

Definition al_contains_edge (g : alist) (a b : nat) : bool :=
  match nth_error g a with
  | None => false
  | Some r => match find_suc r b 0 with Some _ => true | None => false end
  end.

Definition al_find_edge (g : alist) (a b : nat) : option (nat * nat) :=
  match nth_error g a with
  | None => None
  | Some r => option_map (fun i => (a, i)) (find_suc r b 0)
  end.

(* edge_indices_from(a): self.suc[a] panics *)
Definition al_edge_indices_from (g : alist) (a : nat) : res (list (nat * nat)) :=
  match nth_error g a with
  | None => Panic
  | Some r => Ok (map (fun i => (a, i)) (seq 0 (length r)))
  end.

(* IntoNeighbors: self.suc[a] panics *)
Definition al_neighbors (g : alist) (a : nat) : res (list nat) :=
  match nth_error g a with
  | None => Panic
  | Some r => Ok (map fst r)
  end.

Definition TAG_PANIC := 2.  Definition TAG_EIDX := 3. Definition TAG_UNIT := 4.
Definition TAG_COUNTS := 5. Definition TAG_ROW := 6.  Definition TAG_EREFS := 8.
Definition TAG_NAT := 11.   Definition TAG_BOOL := 0. Definition TAG_NONE := 13.
Definition TAG_PAIR := 14.  Definition TAG_EIDXS := 15. Definition TAG_FUEL := 10.

Fixpoint flat_row (a i : nat) (r : list (nat * nat)) : list Z :=
  match r with
  | [] => []
  | (s, w) :: t => zn a :: zn i :: zn s :: zn w :: flat_row a (S i) t
  end.

Fixpoint erefs (g : alist) (a : nat) : list Z :=
  match g with
  | [] => []
  | r :: t => flat_row a 0 r ++ erefs t (S a)
  end.

Fixpoint eidxs (g : alist) (a : nat) : list Z :=
  match g with
  | [] => []
  | r :: t => flat_map (fun i => [zn a; zn i]) (seq 0 (length r)) ++ eidxs t (S a)
  end.

Definition battery (g : alist) : list line :=
  (TAG_COUNTS, [zn (al_node_count g); zn (al_edge_count g)]) ::
  (TAG_EREFS, erefs g 0) ::
  (TAG_EIDXS, eidxs g 0) :: [].

Definition opt_pair_line (o : option (nat * nat)) : line :=
  match o with None => (TAG_NONE, []) | Some (a, b) => (TAG_PAIR, [zn a; zn b]) end.

Fixpoint pairs (l : list Z) : list (nat * nat) :=
  match l with
  | a :: b :: rest => (nz a, nz b) :: pairs rest
  | _ => []
  end.

(* opcodes: 0 add_node | 1 add_edge a b w | 2 update_edge a b w | 3 clear
            4 contains_edge a b | 5 find_edge a b | 6 edge_endpoints a i | 7 edge_weight a i
            8 set edge weight a i v | 9 edge_indices_from a | 10 neighbors a
            11 add_node_from_edges s1 w1 s2 w2 ... *)
Definition step (g : alist) (o : line) : alist * list line :=
  let '(code, a) := o in
  match code with
  | 0 => let '(i, g') := al_add_node g in (g', (TAG_NAT, [zn i]) :: battery g')
  | 1 => match al_add_edge g (arg a 0) (arg a 1) (arg a 2) with
         | Ok ((x, i), g') => (g', (TAG_EIDX, [zn x; zn i]) :: battery g')
         | _ => (g, (TAG_PANIC, []) :: battery g)
         end
  | 2 => match al_update_edge g (arg a 0) (arg a 1) (arg a 2) with
         | Ok ((x, i), g') => (g', (TAG_EIDX, [zn x; zn i]) :: battery g')
         | _ => (g, (TAG_PANIC, []) :: battery g)
         end
  | 3 => ([], (TAG_UNIT, []) :: battery [])
  | 4 => (g, [(TAG_BOOL, [zb (al_contains_edge g (arg a 0) (arg a 1))])])
  | 5 => (g, [opt_pair_line (al_find_edge g (arg a 0) (arg a 1))])
  | 6 => (g, [opt_pair_line (al_edge_endpoints g (arg a 0, arg a 1))])
  | 7 => (g, [match al_edge_weight g (arg a 0, arg a 1) with
              | None => (TAG_NONE, []) | Some w => (TAG_NAT, [zn w]) end])
  | 8 => let '(b, g') := al_set_edge_weight g (arg a 0, arg a 1) (arg a 2) in
         (g', (TAG_BOOL, [zb b]) :: battery g')
  | 9 => (g, [match al_edge_indices_from g (arg a 0) with
              | Ok l => (TAG_EIDXS, flat_map (fun '(x, i) => [zn x; zn i]) l)
              | _ => (TAG_PANIC, []) end])
  | 10 => (g, [match al_neighbors g (arg a 0) with
               | Ok l => (TAG_ROW, zns l)
               | _ => (TAG_PANIC, []) end])
  | 11 => let '(i, g') := al_add_node_from_edges g (pairs a) in (g', (TAG_NAT, [zn i]) :: battery g')
  | _ => (g, [(TAG_PANIC, [])])
  end.

Fixpoint run (g : alist) (ops : list line) : list (list line) :=
  match ops with
  | [] => []
  | o :: rest => let '(g', ls) := step g o in ls :: run g' rest
  end.

Definition run_case (header : list Z) (ops : list line) : list (list line) := run al_new ops.
